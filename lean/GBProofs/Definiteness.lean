import GBProofs.Block3D
import GBProofs.PointChargeBlock
import GBProofs.GramLaws
import Mathlib.Algebra.QuadraticDiscriminant

/-!
# Definiteness of the one-electron matrices of the model (C17), and of the Coulomb kernel

`ι` is a finite index type (all (shell, contraction, component) triples of a basis), `x : ι → ℝ`
arbitrary coefficients.

* §0 abstract: a symmetric matrix with non-negative quadratic form satisfies the Schwarz bound.
* §1 overlap: `Σ x_i S_ij x_j = ∫ (Σ x_i f_i)²  ≥ 0`, symmetry, `|S_ij| ≤ √S_ii √S_jj`.
* §2 point charge: `Σ x_i V_ij x_j = -q ∫ (Σ x_i f_i)² / |r-C| ≤ 0` for `q ≥ 0`.
* §3 kinetic: gradient form `T_ij = ½ Σ_axis ∫ ∂f_i ∂f_j`, hence `Σ x_i T_ij x_j ≥ 0`.
* §4 Coulomb kernel: `0 ≤ ∬ F(r₁) F(r₂) e^{-u²|r₁-r₂|²}` and `0 ≤ ∬ F(r₁) F(r₂) / |r₁-r₂|`.
-/
open MeasureTheory Real

namespace GB

/-! ## 0. Abstract: quadratic forms of finite matrices -/
section Abstract
variable {ι : Type*} [Fintype ι]

/-- the quadratic form `xᵀ M x` -/
def quadForm (M : ι → ι → ℝ) (x : ι → ℝ) : ℝ := ∑ i, ∑ j, x i * M i j * x j

/-- pointwise: `Σ_{ij} x_i (f_i f_j w) x_j = (Σ_i x_i f_i)² w` -/
lemma quad_pointwise (f : ι → ℝ) (w : ℝ) (x : ι → ℝ) :
    ∑ i, ∑ j, x i * (f i * f j * w) * x j = (∑ i, x i * f i) ^ 2 * w := by
  rw [sq, Finset.sum_mul_sum, Finset.sum_mul]
  refine Finset.sum_congr rfl fun i _ => ?_
  rw [Finset.sum_mul]
  refine Finset.sum_congr rfl fun j _ => ?_
  ring

/-- exchange of the finite double sum with the integral -/
lemma quad_integral {α : Type*} [MeasurableSpace α] (μ : Measure α) (g : ι → ι → α → ℝ)
    (hg : ∀ i j, Integrable (g i j) μ) (x : ι → ℝ) :
    ∑ i, ∑ j, x i * (∫ a, g i j a ∂μ) * x j = ∫ a, ∑ i, ∑ j, x i * g i j a * x j ∂μ := by
  rw [integral_finsetSum _ fun i _ => integrable_finsetSum _ fun j _ =>
    ((hg i j).const_mul (x i)).mul_const (x j)]
  refine Finset.sum_congr rfl fun i _ => ?_
  rw [integral_finsetSum _ fun j _ => ((hg i j).const_mul (x i)).mul_const (x j)]
  refine Finset.sum_congr rfl fun j _ => ?_
  rw [integral_mul_const, integral_const_mul]

variable [DecidableEq ι]

lemma sum_two_single (i j : ι) (a b : ℝ) (F : ι → ℝ) :
    ∑ k, (a * (if k = i then 1 else 0) + b * (if k = j then 1 else 0)) * F k
      = a * F i + b * F j := by
  simp [add_mul, Finset.sum_add_distrib]

/-- the quadratic form on a vector supported on `{i, j}` -/
lemma quadForm_two (M : ι → ι → ℝ) (i j : ι) (a b : ℝ) :
    quadForm M (fun k => a * (if k = i then 1 else 0) + b * (if k = j then 1 else 0))
      = a * a * M i i + a * b * M i j + b * a * M j i + b * b * M j j := by
  unfold quadForm
  have h : ∀ k, ∑ l, (a * (if k = i then 1 else 0) + b * (if k = j then 1 else 0)) * M k l
        * (a * (if l = i then 1 else 0) + b * (if l = j then 1 else 0))
      = (a * (if k = i then 1 else 0) + b * (if k = j then 1 else 0))
        * (a * M k i + b * M k j) := by
    intro k
    rw [← sum_two_single i j a b (M k), Finset.mul_sum]
    refine Finset.sum_congr rfl fun l _ => ?_
    ring
  simp_rw [h]
  rw [sum_two_single i j a b (fun k => a * M k i + b * M k j)]
  ring

/-- diagonal of a positive semi-definite matrix -/
theorem psd_diag_nonneg (M : ι → ι → ℝ) (hpsd : ∀ x, 0 ≤ quadForm M x) (i : ι) : 0 ≤ M i i := by
  have h := hpsd (fun k => 1 * (if k = i then 1 else 0) + 0 * (if k = i then 1 else 0))
  rw [quadForm_two] at h
  linarith

/-- **Schwarz bound** for a symmetric positive semi-definite matrix: `M_ij² ≤ M_ii M_jj` -/
theorem psd_sq_le (M : ι → ι → ℝ) (hsymm : ∀ i j, M i j = M j i) (hpsd : ∀ x, 0 ≤ quadForm M x)
    (i j : ι) : M i j ^ 2 ≤ M i i * M j j := by
  have hq : ∀ t : ℝ, 0 ≤ M i i * (t * t) + 2 * M i j * t + M j j := by
    intro t
    have h := hpsd (fun k => t * (if k = i then 1 else 0) + 1 * (if k = j then 1 else 0))
    rw [quadForm_two, hsymm j i] at h
    linarith
  have hd := discrim_le_zero hq
  unfold discrim at hd
  nlinarith

/-- `|M_ij| ≤ √M_ii √M_jj` -/
theorem psd_abs_le (M : ι → ι → ℝ) (hsymm : ∀ i j, M i j = M j i) (hpsd : ∀ x, 0 ≤ quadForm M x)
    (i j : ι) : |M i j| ≤ √(M i i) * √(M j j) := by
  rw [← Real.sqrt_mul (psd_diag_nonneg M hpsd i), ← Real.sqrt_sq_eq_abs]
  exact Real.sqrt_le_sqrt (psd_sq_le M hsymm hpsd i j)

end Abstract

/-! ## 1. The overlap matrix -/
section Overlap
variable {ι : Type*} [Fintype ι]

/-- the overlap matrix of the family of contracted functions `(s i, m i, c i)`, read off the
blocks of the model -/
noncomputable def overlapMat (s : ι → Shell ℝ) (m c : ι → ℕ) (i j : ι) : ℝ :=
  (overlapBlock (s i) (s j)).get4 (m i) (c i) (m j) (c j)

/-- **`xᵀ S x = ∫ (Σ_i x_i f_i)²`** -/
theorem overlap_quadForm_eq (s : ι → Shell ℝ) (m c : ι → ℕ)
    (hs : ∀ i, ∀ k < (s i).nprim, 0 < (s i).exp! k) (x : ι → ℝ) :
    quadForm (overlapMat s m c) x
      = ∫ r : ℝ × ℝ × ℝ, (∑ i, x i * shellFn (s i) (m i) (c i) r) ^ 2 := by
  unfold quadForm overlapMat
  simp_rw [fun i j => overlapBlock_eq_integral (s i) (s j) (m i) (c i) (m j) (c j) (hs i) (hs j)]
  rw [quad_integral volume (fun i j r => shellFn (s i) (m i) (c i) r * shellFn (s j) (m j) (c j) r)
    (fun i j => integrable_shellFn_mul _ _ _ _ _ _ (hs i) (hs j))]
  refine integral_congr_ae (Filter.Eventually.of_forall fun r => ?_)
  have h := quad_pointwise (fun i => shellFn (s i) (m i) (c i) r) 1 x
  simpa using h

/-- **The overlap matrix of the model is positive semi-definite.** -/
theorem overlap_psd (s : ι → Shell ℝ) (m c : ι → ℕ)
    (hs : ∀ i, ∀ k < (s i).nprim, 0 < (s i).exp! k) (x : ι → ℝ) :
    0 ≤ quadForm (overlapMat s m c) x := by
  rw [overlap_quadForm_eq s m c hs]
  exact integral_nonneg fun r => sq_nonneg _

omit [Fintype ι] in
/-- **… symmetric** -/
theorem overlapMat_symm (s : ι → Shell ℝ) (m c : ι → ℕ)
    (hs : ∀ i, ∀ k < (s i).nprim, 0 < (s i).exp! k) (i j : ι) :
    overlapMat s m c i j = overlapMat s m c j i :=
  overlapBlock_symm (s i) (s j) (m i) (c i) (m j) (c j) (hs i) (hs j)

/-- **… and satisfies the Schwarz bound `|S_ij| ≤ √S_ii √S_jj`.** -/
theorem overlap_abs_le [DecidableEq ι] (s : ι → Shell ℝ) (m c : ι → ℕ)
    (hs : ∀ i, ∀ k < (s i).nprim, 0 < (s i).exp! k) (i j : ι) :
    |overlapMat s m c i j| ≤ √(overlapMat s m c i i) * √(overlapMat s m c j j) :=
  psd_abs_le _ (overlapMat_symm s m c hs) (overlap_psd s m c hs) i j

theorem overlap_sq_le [DecidableEq ι] (s : ι → Shell ℝ) (m c : ι → ℕ)
    (hs : ∀ i, ∀ k < (s i).nprim, 0 < (s i).exp! k) (i j : ι) :
    overlapMat s m c i j ^ 2 ≤ overlapMat s m c i i * overlapMat s m c j j :=
  psd_sq_le _ (overlapMat_symm s m c hs) (overlap_psd s m c hs) i j

/-- two-function form, without any index type: `|S(s,t)| ≤ √S(s,s) √S(t,t)` -/
theorem overlapBlock_abs_le (s t : Shell ℝ) (ma ca mb cb : ℕ)
    (hs : ∀ k < s.nprim, 0 < s.exp! k) (ht : ∀ k < t.nprim, 0 < t.exp! k) :
    |(overlapBlock s t).get4 ma ca mb cb|
      ≤ √((overlapBlock s s).get4 ma ca ma ca) * √((overlapBlock t t).get4 mb cb mb cb) := by
  have h := overlap_abs_le (ι := Fin 2) ![s, t] ![ma, mb] ![ca, cb]
    (by intro i; fin_cases i <;> simpa) 0 1
  simpa [overlapMat] using h

end Overlap

/-! ## 2. The point-charge matrix -/
section PointCharge
variable {ι : Type*} [Fintype ι]

/-- the point-charge matrix of the family `(s i, m i, c i)` for the charge `q` at `Cpt` -/
noncomputable def pointChargeMat (boysT : ℝ → ℕ → Tab ℝ) (Cpt : ℕ → ℝ) (q : ℝ)
    (s : ι → Shell ℝ) (m c : ι → ℕ) (i j : ι) : ℝ :=
  (pointChargeBlock boysT (s i) (s j) Cpt q).get4 (m i) (c i) (m j) (c j)

lemma shellFnE_mul_div_expand (s t : Shell ℝ) (ma ca mb cb : ℕ) (Cc : E3) (r : E3) :
    shellFnE s ma ca r * shellFnE t mb cb r / ‖r - Cc‖
      = ∑ ka ∈ Finset.range s.nprim, ∑ kb ∈ Finset.range t.nprim,
          (s.coef! ka ma * normPrim (s.exp! ka) s.l (s.comp! ca)
            * (t.coef! kb mb * normPrim (t.exp! kb) t.l (t.comp! cb)))
          * (primFnE (s.exp! ka) (toE3 s.ctr) (s.comp! ca) r
              * primFnE (t.exp! kb) (toE3 t.ctr) (t.comp! cb) r / ‖r - Cc‖) := by
  unfold shellFnE
  rw [Finset.sum_mul_sum, Finset.sum_div]
  refine Finset.sum_congr rfl fun ka _ => ?_
  rw [Finset.sum_div]
  refine Finset.sum_congr rfl fun kb _ => ?_
  ring

/-- `φ_s φ_t / |r - C|` is integrable for contracted functions with positive exponents -/
theorem integrable_shellFnE_mul_div (s t : Shell ℝ) (ma ca mb cb : ℕ) (Cc : E3)
    (hs : ∀ k, k < s.nprim → 0 < s.exp! k) (ht : ∀ k, k < t.nprim → 0 < t.exp! k) :
    Integrable fun r : E3 => shellFnE s ma ca r * shellFnE t mb cb r / ‖r - Cc‖ := by
  simp_rw [shellFnE_mul_div_expand]
  exact integrable_finsetSum _ fun ka hka => integrable_finsetSum _ fun kb hkb =>
    (coulomb_prim_integrable _ _ (hs ka (Finset.mem_range.mp hka))
      (ht kb (Finset.mem_range.mp hkb)) _ _ _ _ _).const_mul _

/-- **`xᵀ V x = -q ∫ (Σ_i x_i φ_i)² / |r - C|`** -/
theorem pointCharge_quadForm_eq (boysT : ℝ → ℕ → Tab ℝ)
    (hboys : ∀ T n m, m < n → (boysT T n).get m = boys T m) (Cpt : ℕ → ℝ) (q : ℝ)
    (s : ι → Shell ℝ) (m c : ι → ℕ)
    (hs : ∀ i, ∀ k, k < (s i).nprim → 0 < (s i).exp! k)
    (hc : ∀ i, ((s i).comp! (c i)).1 + ((s i).comp! (c i)).2.1 + ((s i).comp! (c i)).2.2 ≤ (s i).l)
    (x : ι → ℝ) :
    quadForm (pointChargeMat boysT Cpt q s m c) x
      = -q * ∫ r : E3, (∑ i, x i * shellFnE (s i) (m i) (c i) r) ^ 2 / ‖r - toE3 Cpt‖ := by
  unfold quadForm pointChargeMat
  simp_rw [fun i j => pointChargeBlock_eq_integral boysT hboys (s i) (s j) Cpt q (m i) (c i)
    (m j) (c j) (hs i) (hs j) (hc i) (hc j)]
  have e : ∀ i j, x i * (-q * ∫ r : E3, shellFnE (s i) (m i) (c i) r
        * shellFnE (s j) (m j) (c j) r / ‖r - toE3 Cpt‖) * x j
      = -q * (x i * (∫ r : E3, shellFnE (s i) (m i) (c i) r
        * shellFnE (s j) (m j) (c j) r / ‖r - toE3 Cpt‖) * x j) := fun i j => by ring
  simp_rw [e, ← Finset.mul_sum]
  congr 1
  rw [quad_integral volume (fun i j r => shellFnE (s i) (m i) (c i) r
      * shellFnE (s j) (m j) (c j) r / ‖r - toE3 Cpt‖)
    (fun i j => integrable_shellFnE_mul_div _ _ _ _ _ _ _ (hs i) (hs j))]
  refine integral_congr_ae (Filter.Eventually.of_forall fun r => ?_)
  have h := quad_pointwise (fun i => shellFnE (s i) (m i) (c i) r) (‖r - toE3 Cpt‖)⁻¹ x
  simp only [div_eq_mul_inv]
  exact h

/-- **The point-charge matrix of a non-negative charge is negative semi-definite.** -/
theorem pointCharge_nsd (boysT : ℝ → ℕ → Tab ℝ)
    (hboys : ∀ T n m, m < n → (boysT T n).get m = boys T m) (Cpt : ℕ → ℝ) (q : ℝ) (hq : 0 ≤ q)
    (s : ι → Shell ℝ) (m c : ι → ℕ)
    (hs : ∀ i, ∀ k, k < (s i).nprim → 0 < (s i).exp! k)
    (hc : ∀ i, ((s i).comp! (c i)).1 + ((s i).comp! (c i)).2.1 + ((s i).comp! (c i)).2.2 ≤ (s i).l)
    (x : ι → ℝ) :
    quadForm (pointChargeMat boysT Cpt q s m c) x ≤ 0 := by
  rw [pointCharge_quadForm_eq boysT hboys Cpt q s m c hs hc]
  have h : 0 ≤ ∫ r : E3, (∑ i, x i * shellFnE (s i) (m i) (c i) r) ^ 2 / ‖r - toE3 Cpt‖ :=
    integral_nonneg fun r => div_nonneg (sq_nonneg _) (norm_nonneg _)
  nlinarith

omit [Fintype ι] in
/-- symmetry of the point-charge matrix -/
theorem pointChargeMat_symm (boysT : ℝ → ℕ → Tab ℝ)
    (hboys : ∀ T n m, m < n → (boysT T n).get m = boys T m) (Cpt : ℕ → ℝ) (q : ℝ)
    (s : ι → Shell ℝ) (m c : ι → ℕ)
    (hs : ∀ i, ∀ k, k < (s i).nprim → 0 < (s i).exp! k)
    (hc : ∀ i, ((s i).comp! (c i)).1 + ((s i).comp! (c i)).2.1 + ((s i).comp! (c i)).2.2 ≤ (s i).l)
    (i j : ι) :
    pointChargeMat boysT Cpt q s m c i j = pointChargeMat boysT Cpt q s m c j i := by
  unfold pointChargeMat
  rw [pointChargeBlock_eq_integral boysT hboys (s i) (s j) Cpt q (m i) (c i)
      (m j) (c j) (hs i) (hs j) (hc i) (hc j),
    pointChargeBlock_eq_integral boysT hboys (s j) (s i) Cpt q (m j) (c j)
      (m i) (c i) (hs j) (hs i) (hc j) (hc i)]
  simp_rw [mul_comm (shellFnE (s i) (m i) (c i) _)]

/-- Schwarz bound for the attraction matrix `-V` of a non-negative charge:
`|V_ij| ≤ √(-V_ii) √(-V_jj)` -/
theorem pointCharge_abs_le [DecidableEq ι] (boysT : ℝ → ℕ → Tab ℝ)
    (hboys : ∀ T n m, m < n → (boysT T n).get m = boys T m) (Cpt : ℕ → ℝ) (q : ℝ) (hq : 0 ≤ q)
    (s : ι → Shell ℝ) (m c : ι → ℕ)
    (hs : ∀ i, ∀ k, k < (s i).nprim → 0 < (s i).exp! k)
    (hc : ∀ i, ((s i).comp! (c i)).1 + ((s i).comp! (c i)).2.1 + ((s i).comp! (c i)).2.2 ≤ (s i).l)
    (i j : ι) :
    |pointChargeMat boysT Cpt q s m c i j|
      ≤ √(-pointChargeMat boysT Cpt q s m c i i) * √(-pointChargeMat boysT Cpt q s m c j j) := by
  have h := psd_abs_le (fun i j => -pointChargeMat boysT Cpt q s m c i j)
    (fun i j => by rw [pointChargeMat_symm boysT hboys Cpt q s m c hs hc i j])
    (fun x => by
      have h1 := pointCharge_nsd boysT hboys Cpt q hq s m c hs hc x
      have h2 : quadForm (fun i j => -pointChargeMat boysT Cpt q s m c i j) x
          = -quadForm (pointChargeMat boysT Cpt q s m c) x := by
        unfold quadForm
        simp [Finset.sum_neg_distrib]
      rw [h2]; linarith) i j
  simpa using h

end PointCharge

/-! ## 3. The kinetic-energy matrix: gradient form -/
section KineticFunctional
open Polynomial
variable {K : Type} [Field K] [CharZero K]

/-- **Gradient form at the level of the Gaussian functional**: the second twisted derivative on
the right function is minus one twisted derivative on each side. -/
theorem G_mul_Dtw_Dtw_grad (a b PA PB p : K) (hp : p ≠ 0) (hab : a + b = p)
    (hPAB : a * PA + b * PB = 0) (u v : K[X]) :
    G p (u * Dtw b PB (Dtw b PB v)) = - G p (Dtw a PA u * Dtw b PB v) :=
  G_mul_Dtw a b PA PB p hp hab hPAB u (Dtw b PB v)

end KineticFunctional

section Kinetic1D
open Polynomial

/-- one-dimensional factor with derivatives on both sides:
`(d/dx)^k[(x-A)^i e^{-a(x-A)²}] · (d/dx)^l[(x-B)^j e^{-b(x-B)²}]` -/
noncomputable def k1 (a b A B : ℝ) (i j k l : ℕ) (x : ℝ) : ℝ :=
  iteratedDeriv k (prim1 a A i) x * iteratedDeriv l (prim1 b B j) x

lemma k1_eq (a b A B : ℝ) (i j k l : ℕ) (x : ℝ) :
    k1 a b A B i j k l x
      = gaussPoly a A ((a * A + b * B) / (a + b))
          ((Dtw a ((a * A + b * B) / (a + b) - A))^[k] ((X + C ((a * A + b * B) / (a + b) - A))^i)) x
        * gaussPoly b B ((a * A + b * B) / (a + b))
          ((Dtw b ((a * A + b * B) / (a + b) - B))^[l] ((X + C ((a * A + b * B) / (a + b) - B))^j)) x := by
  unfold k1 prim1
  rw [iteratedDeriv_prim a A ((a * A + b * B) / (a + b)) i k x,
    iteratedDeriv_prim b B ((a * A + b * B) / (a + b)) j l x]
  rfl

lemma integrable_k1 (a b A B : ℝ) (ha : 0 < a) (hb : 0 < b) (i j k l : ℕ) :
    Integrable (k1 a b A B i j k l) := by
  have h := integrable_gaussPoly_mul a b A B ha hb
    ((Dtw a ((a * A + b * B) / (a + b) - A))^[k] ((X + C ((a * A + b * B) / (a + b) - A))^i))
    ((Dtw b ((a * A + b * B) / (a + b) - B))^[l] ((X + C ((a * A + b * B) / (a + b) - B))^j))
  exact h.congr (Filter.Eventually.of_forall fun x => (k1_eq a b A B i j k l x).symm)

/-- the integral of the two-sided factor in terms of the Gaussian functional -/
theorem integral_k1 (a b A B : ℝ) (ha : 0 < a) (hb : 0 < b) (i j k l : ℕ) :
    ∫ x, k1 a b A B i j k l x
      = √(π / (a + b)) * exp (-(a * b / (a + b) * ((A - B) * (A - B))))
        * G (a + b)
          ((Dtw a ((a * A + b * B) / (a + b) - A))^[k] ((X + C ((a * A + b * B) / (a + b) - A))^i)
            * (Dtw b ((a * A + b * B) / (a + b) - B))^[l]
                ((X + C ((a * A + b * B) / (a + b) - B))^j)) := by
  simp_rw [k1_eq]
  exact gauss_product_integral_poly a b A B ha hb _ _

/-- **One-dimensional integration by parts**, for all derivative orders:
`∫ (∂^k g_a)(∂^{l+1} g_b) = -∫ (∂^{k+1} g_a)(∂^l g_b)` -/
theorem k1_ibp (a b A B : ℝ) (ha : 0 < a) (hb : 0 < b) (i j k l : ℕ) :
    ∫ x, k1 a b A B i j k (l+1) x = - ∫ x, k1 a b A B i j (k+1) l x := by
  have hp : a + b ≠ 0 := by positivity
  rw [integral_k1 a b A B ha hb, integral_k1 a b A B ha hb, Dtw_iterate_succ, Dtw_iterate_succ,
    G_mul_Dtw a b ((a * A + b * B) / (a + b) - A) ((a * A + b * B) / (a + b) - B) (a + b) hp rfl
      (by field_simp; ring), mul_neg]

end Kinetic1D

section Kinetic3D

lemma primDeriv_mul_eq (a b : ℝ) (A B : ℕ → ℝ) (ca cb o o' : Comp) (r : ℝ × ℝ × ℝ) :
    primDerivFn a A ca o r * primDerivFn b B cb o' r
      = k1 a b (A 0) (B 0) ca.1 cb.1 o.1 o'.1 r.1
        * (k1 a b (A 1) (B 1) ca.2.1 cb.2.1 o.2.1 o'.2.1 r.2.1
          * k1 a b (A 2) (B 2) ca.2.2 cb.2.2 o.2.2 o'.2.2 r.2.2) := by
  unfold primDerivFn k1
  ring

lemma integrable_primDeriv_mul (a b : ℝ) (A B : ℕ → ℝ) (ca cb o o' : Comp)
    (ha : 0 < a) (hb : 0 < b) :
    Integrable (fun r : ℝ × ℝ × ℝ => primDerivFn a A ca o r * primDerivFn b B cb o' r) := by
  simp_rw [primDeriv_mul_eq]
  have hyz : Integrable (fun q : ℝ × ℝ => k1 a b (A 1) (B 1) ca.2.1 cb.2.1 o.2.1 o'.2.1 q.1
      * k1 a b (A 2) (B 2) ca.2.2 cb.2.2 o.2.2 o'.2.2 q.2) :=
    Integrable.mul_prod (integrable_k1 a b _ _ ha hb _ _ _ _) (integrable_k1 a b _ _ ha hb _ _ _ _)
  exact Integrable.mul_prod (integrable_k1 a b (A 0) (B 0) ha hb ca.1 cb.1 o.1 o'.1) hyz

/-- primitive integral with derivatives on both sides = product of three 1-D integrals -/
theorem primDeriv_mul_integral (a b : ℝ) (A B : ℕ → ℝ) (ca cb o o' : Comp) :
    ∫ r : ℝ × ℝ × ℝ, primDerivFn a A ca o r * primDerivFn b B cb o' r
      = (∫ x, k1 a b (A 0) (B 0) ca.1 cb.1 o.1 o'.1 x)
        * (∫ x, k1 a b (A 1) (B 1) ca.2.1 cb.2.1 o.2.1 o'.2.1 x)
        * (∫ x, k1 a b (A 2) (B 2) ca.2.2 cb.2.2 o.2.2 o'.2.2 x) := by
  simp_rw [primDeriv_mul_eq]
  rw [Measure.volume_eq_prod ℝ (ℝ × ℝ),
    integral_prod_mul (k1 a b (A 0) (B 0) ca.1 cb.1 o.1 o'.1)
      (fun q : ℝ × ℝ => k1 a b (A 1) (B 1) ca.2.1 cb.2.1 o.2.1 o'.2.1 q.1
          * k1 a b (A 2) (B 2) ca.2.2 cb.2.2 o.2.2 o'.2.2 q.2),
    Measure.volume_eq_prod ℝ ℝ, integral_prod_mul, mul_assoc]

/-- **Primitive-level integration by parts over ℝ³**, `x` axis -/
theorem prim_ibp_x (a b : ℝ) (A B : ℕ → ℝ) (ca cb : Comp) (ha : 0 < a) (hb : 0 < b)
    (ox oy oz px py pz : ℕ) :
    ∫ r : ℝ × ℝ × ℝ, primDerivFn a A ca (ox, oy, oz) r * primDerivFn b B cb (px + 1, py, pz) r
      = - ∫ r : ℝ × ℝ × ℝ, primDerivFn a A ca (ox + 1, oy, oz) r * primDerivFn b B cb (px, py, pz) r := by
  rw [primDeriv_mul_integral, primDeriv_mul_integral]
  simp only []
  rw [k1_ibp a b _ _ ha hb]
  ring

/-- `y` axis -/
theorem prim_ibp_y (a b : ℝ) (A B : ℕ → ℝ) (ca cb : Comp) (ha : 0 < a) (hb : 0 < b)
    (ox oy oz px py pz : ℕ) :
    ∫ r : ℝ × ℝ × ℝ, primDerivFn a A ca (ox, oy, oz) r * primDerivFn b B cb (px, py + 1, pz) r
      = - ∫ r : ℝ × ℝ × ℝ, primDerivFn a A ca (ox, oy + 1, oz) r * primDerivFn b B cb (px, py, pz) r := by
  rw [primDeriv_mul_integral, primDeriv_mul_integral]
  simp only []
  rw [k1_ibp a b _ _ ha hb]
  ring

/-- `z` axis -/
theorem prim_ibp_z (a b : ℝ) (A B : ℕ → ℝ) (ca cb : Comp) (ha : 0 < a) (hb : 0 < b)
    (ox oy oz px py pz : ℕ) :
    ∫ r : ℝ × ℝ × ℝ, primDerivFn a A ca (ox, oy, oz) r * primDerivFn b B cb (px, py, pz + 1) r
      = - ∫ r : ℝ × ℝ × ℝ, primDerivFn a A ca (ox, oy, oz + 1) r * primDerivFn b B cb (px, py, pz) r := by
  rw [primDeriv_mul_integral, primDeriv_mul_integral]
  simp only []
  rw [k1_ibp a b _ _ ha hb]
  ring

lemma shellDeriv_mul_expand (s t : Shell ℝ) (ma ca mb cb : ℕ) (o o' : Comp) (r : ℝ × ℝ × ℝ) :
    shellDerivFn s ma ca o r * shellDerivFn t mb cb o' r
      = ∑ ka ∈ Finset.range s.nprim, ∑ kb ∈ Finset.range t.nprim,
          (cN s ma ca ka * cN t mb cb kb)
            * (primDerivFn (s.exp! ka) s.ctr (s.comp! ca) o r
                * primDerivFn (t.exp! kb) t.ctr (t.comp! cb) o' r) := by
  unfold shellDerivFn cN
  rw [Finset.sum_mul_sum]
  refine Finset.sum_congr rfl fun ka _ => ?_
  refine Finset.sum_congr rfl fun kb _ => ?_
  ring

lemma integrable_shellDeriv_mul (s t : Shell ℝ) (o o' : Comp) (ma ca mb cb : ℕ)
    (hs : ∀ k < s.nprim, 0 < s.exp! k) (ht : ∀ k < t.nprim, 0 < t.exp! k) :
    Integrable (fun r : ℝ × ℝ × ℝ => shellDerivFn s ma ca o r * shellDerivFn t mb cb o' r) := by
  simp_rw [shellDeriv_mul_expand]
  refine integrable_finsetSum _ fun ka hka => integrable_finsetSum _ fun kb hkb => ?_
  exact (integrable_primDeriv_mul _ _ _ _ _ _ _ _ (hs ka (Finset.mem_range.mp hka))
    (ht kb (Finset.mem_range.mp hkb))).const_mul _

lemma integral_shellDeriv_mul (s t : Shell ℝ) (o o' : Comp) (ma ca mb cb : ℕ)
    (hs : ∀ k < s.nprim, 0 < s.exp! k) (ht : ∀ k < t.nprim, 0 < t.exp! k) :
    ∫ r : ℝ × ℝ × ℝ, shellDerivFn s ma ca o r * shellDerivFn t mb cb o' r
      = ∑ ka ∈ Finset.range s.nprim, ∑ kb ∈ Finset.range t.nprim,
          (cN s ma ca ka * cN t mb cb kb)
            * ∫ r : ℝ × ℝ × ℝ, primDerivFn (s.exp! ka) s.ctr (s.comp! ca) o r
                * primDerivFn (t.exp! kb) t.ctr (t.comp! cb) o' r := by
  simp_rw [shellDeriv_mul_expand]
  rw [integral_finsetSum _ fun ka hka => integrable_finsetSum _ fun kb hkb =>
    (integrable_primDeriv_mul _ _ _ _ _ _ _ _ (hs ka (Finset.mem_range.mp hka))
      (ht kb (Finset.mem_range.mp hkb))).const_mul _]
  refine Finset.sum_congr rfl fun ka hka => ?_
  rw [integral_finsetSum _ fun kb hkb =>
    (integrable_primDeriv_mul _ _ _ _ _ _ _ _ (hs ka (Finset.mem_range.mp hka))
      (ht kb (Finset.mem_range.mp hkb))).const_mul _]
  refine Finset.sum_congr rfl fun kb hkb => ?_
  rw [integral_const_mul]

/-- **Contracted integration by parts over ℝ³**, `x` axis -/
theorem shell_ibp_x (s t : Shell ℝ) (ma ca mb cb : ℕ)
    (hs : ∀ k < s.nprim, 0 < s.exp! k) (ht : ∀ k < t.nprim, 0 < t.exp! k)
    (ox oy oz px py pz : ℕ) :
    ∫ r : ℝ × ℝ × ℝ, shellDerivFn s ma ca (ox, oy, oz) r * shellDerivFn t mb cb (px + 1, py, pz) r
      = - ∫ r : ℝ × ℝ × ℝ, shellDerivFn s ma ca (ox + 1, oy, oz) r
            * shellDerivFn t mb cb (px, py, pz) r := by
  rw [integral_shellDeriv_mul s t _ _ ma ca mb cb hs ht,
    integral_shellDeriv_mul s t _ _ ma ca mb cb hs ht, ← Finset.sum_neg_distrib]
  refine Finset.sum_congr rfl fun ka hka => ?_
  rw [← Finset.sum_neg_distrib]
  refine Finset.sum_congr rfl fun kb hkb => ?_
  rw [prim_ibp_x _ _ _ _ _ _ (hs ka (Finset.mem_range.mp hka)) (ht kb (Finset.mem_range.mp hkb))]
  ring

theorem shell_ibp_y (s t : Shell ℝ) (ma ca mb cb : ℕ)
    (hs : ∀ k < s.nprim, 0 < s.exp! k) (ht : ∀ k < t.nprim, 0 < t.exp! k)
    (ox oy oz px py pz : ℕ) :
    ∫ r : ℝ × ℝ × ℝ, shellDerivFn s ma ca (ox, oy, oz) r * shellDerivFn t mb cb (px, py + 1, pz) r
      = - ∫ r : ℝ × ℝ × ℝ, shellDerivFn s ma ca (ox, oy + 1, oz) r
            * shellDerivFn t mb cb (px, py, pz) r := by
  rw [integral_shellDeriv_mul s t _ _ ma ca mb cb hs ht,
    integral_shellDeriv_mul s t _ _ ma ca mb cb hs ht, ← Finset.sum_neg_distrib]
  refine Finset.sum_congr rfl fun ka hka => ?_
  rw [← Finset.sum_neg_distrib]
  refine Finset.sum_congr rfl fun kb hkb => ?_
  rw [prim_ibp_y _ _ _ _ _ _ (hs ka (Finset.mem_range.mp hka)) (ht kb (Finset.mem_range.mp hkb))]
  ring

theorem shell_ibp_z (s t : Shell ℝ) (ma ca mb cb : ℕ)
    (hs : ∀ k < s.nprim, 0 < s.exp! k) (ht : ∀ k < t.nprim, 0 < t.exp! k)
    (ox oy oz px py pz : ℕ) :
    ∫ r : ℝ × ℝ × ℝ, shellDerivFn s ma ca (ox, oy, oz) r * shellDerivFn t mb cb (px, py, pz + 1) r
      = - ∫ r : ℝ × ℝ × ℝ, shellDerivFn s ma ca (ox, oy, oz + 1) r
            * shellDerivFn t mb cb (px, py, pz) r := by
  rw [integral_shellDeriv_mul s t _ _ ma ca mb cb hs ht,
    integral_shellDeriv_mul s t _ _ ma ca mb cb hs ht, ← Finset.sum_neg_distrib]
  refine Finset.sum_congr rfl fun ka hka => ?_
  rw [← Finset.sum_neg_distrib]
  refine Finset.sum_congr rfl fun kb hkb => ?_
  rw [prim_ibp_z _ _ _ _ _ _ (hs ka (Finset.mem_range.mp hka)) (ht kb (Finset.mem_range.mp hkb))]
  ring

/-- **Gradient form of the kinetic block**: the block of the code is
`½ (∫ ∂ₓg_a ∂ₓg_b + ∫ ∂_y g_a ∂_y g_b + ∫ ∂_z g_a ∂_z g_b)`. -/
theorem kineticBlock_eq_gradient (s t : Shell ℝ) (ma ca mb cb : ℕ)
    (hs : ∀ k < s.nprim, 0 < s.exp! k) (ht : ∀ k < t.nprim, 0 < t.exp! k)
    (hc : (s.comp! ca).1 ≤ s.l ∧ (s.comp! ca).2.1 ≤ s.l ∧ (s.comp! ca).2.2 ≤ s.l) :
    (kineticBlock s t).get4 ma ca mb cb
      = 1 / 2 * ((∫ r : ℝ × ℝ × ℝ, shellDerivFn s ma ca (1,0,0) r * shellDerivFn t mb cb (1,0,0) r)
          + (∫ r : ℝ × ℝ × ℝ, shellDerivFn s ma ca (0,1,0) r * shellDerivFn t mb cb (0,1,0) r)
          + (∫ r : ℝ × ℝ × ℝ, shellDerivFn s ma ca (0,0,1) r * shellDerivFn t mb cb (0,0,1) r)) := by
  rw [kineticBlock_eq_integral s t ma ca mb cb hs ht hc]
  have e : ∀ r : ℝ × ℝ × ℝ, shellFn s ma ca r
          * (-(1/2) * (shellDerivFn t mb cb (2,0,0) r + shellDerivFn t mb cb (0,2,0) r
              + shellDerivFn t mb cb (0,0,2) r))
      = -(1/2) * (shellDerivFn s ma ca (0,0,0) r * shellDerivFn t mb cb (2,0,0) r
          + shellDerivFn s ma ca (0,0,0) r * shellDerivFn t mb cb (0,2,0) r
          + shellDerivFn s ma ca (0,0,0) r * shellDerivFn t mb cb (0,0,2) r) := fun r => by
    rw [shellDerivFn_zero]; ring
  simp_rw [e]
  rw [integral_const_mul, integral_add, integral_add]
  · have hx := shell_ibp_x s t ma ca mb cb hs ht 0 0 0 1 0 0
    have hy := shell_ibp_y s t ma ca mb cb hs ht 0 0 0 0 1 0
    have hz := shell_ibp_z s t ma ca mb cb hs ht 0 0 0 0 0 1
    simp only [zero_add, Nat.reduceAdd] at hx hy hz
    rw [hx, hy, hz]
    ring
  · exact integrable_shellDeriv_mul s t _ _ ma ca mb cb hs ht
  · exact integrable_shellDeriv_mul s t _ _ ma ca mb cb hs ht
  · exact (integrable_shellDeriv_mul s t _ _ ma ca mb cb hs ht).add
      (integrable_shellDeriv_mul s t _ _ ma ca mb cb hs ht)
  · exact integrable_shellDeriv_mul s t _ _ ma ca mb cb hs ht

end Kinetic3D

section KineticMatrix
variable {ι : Type*} [Fintype ι]

/-- the kinetic-energy matrix of the family `(s i, m i, c i)`, read off the blocks of the model -/
noncomputable def kineticMat (s : ι → Shell ℝ) (m c : ι → ℕ) (i j : ι) : ℝ :=
  (kineticBlock (s i) (s j)).get4 (m i) (c i) (m j) (c j)

/-- the Gram form of the `o`-derivatives -/
lemma derivGram_quad (s : ι → Shell ℝ) (m c : ι → ℕ)
    (hs : ∀ i, ∀ k < (s i).nprim, 0 < (s i).exp! k) (o : Comp) (x : ι → ℝ) :
    ∑ i, ∑ j, x i * (∫ r : ℝ × ℝ × ℝ, shellDerivFn (s i) (m i) (c i) o r
        * shellDerivFn (s j) (m j) (c j) o r) * x j
      = ∫ r : ℝ × ℝ × ℝ, (∑ i, x i * shellDerivFn (s i) (m i) (c i) o r) ^ 2 := by
  rw [quad_integral volume (fun i j r => shellDerivFn (s i) (m i) (c i) o r
      * shellDerivFn (s j) (m j) (c j) o r)
    (fun i j => integrable_shellDeriv_mul _ _ _ _ _ _ _ _ (hs i) (hs j))]
  refine integral_congr_ae (Filter.Eventually.of_forall fun r => ?_)
  have h := quad_pointwise (fun i => shellDerivFn (s i) (m i) (c i) o r) 1 x
  simpa using h

/-- **`xᵀ T x = ½ Σ_axis ∫ (Σ_i x_i ∂_axis f_i)²`** -/
theorem kinetic_quadForm_eq (s : ι → Shell ℝ) (m c : ι → ℕ)
    (hs : ∀ i, ∀ k < (s i).nprim, 0 < (s i).exp! k)
    (hc : ∀ i, ((s i).comp! (c i)).1 ≤ (s i).l ∧ ((s i).comp! (c i)).2.1 ≤ (s i).l
      ∧ ((s i).comp! (c i)).2.2 ≤ (s i).l) (x : ι → ℝ) :
    quadForm (kineticMat s m c) x
      = 1 / 2 * ((∫ r : ℝ × ℝ × ℝ, (∑ i, x i * shellDerivFn (s i) (m i) (c i) (1,0,0) r) ^ 2)
          + (∫ r : ℝ × ℝ × ℝ, (∑ i, x i * shellDerivFn (s i) (m i) (c i) (0,1,0) r) ^ 2)
          + (∫ r : ℝ × ℝ × ℝ, (∑ i, x i * shellDerivFn (s i) (m i) (c i) (0,0,1) r) ^ 2)) := by
  rw [← derivGram_quad s m c hs, ← derivGram_quad s m c hs, ← derivGram_quad s m c hs]
  unfold quadForm kineticMat
  simp_rw [fun i j => kineticBlock_eq_gradient (s i) (s j) (m i) (c i) (m j) (c j) (hs i) (hs j)
    (hc i)]
  rw [← Finset.sum_add_distrib, ← Finset.sum_add_distrib, Finset.mul_sum]
  refine Finset.sum_congr rfl fun i _ => ?_
  rw [← Finset.sum_add_distrib, ← Finset.sum_add_distrib, Finset.mul_sum]
  refine Finset.sum_congr rfl fun j _ => ?_
  ring

/-- **The kinetic-energy matrix of the model is positive semi-definite.** -/
theorem kinetic_psd (s : ι → Shell ℝ) (m c : ι → ℕ)
    (hs : ∀ i, ∀ k < (s i).nprim, 0 < (s i).exp! k)
    (hc : ∀ i, ((s i).comp! (c i)).1 ≤ (s i).l ∧ ((s i).comp! (c i)).2.1 ≤ (s i).l
      ∧ ((s i).comp! (c i)).2.2 ≤ (s i).l) (x : ι → ℝ) :
    0 ≤ quadForm (kineticMat s m c) x := by
  rw [kinetic_quadForm_eq s m c hs hc]
  have h1 : 0 ≤ ∫ r : ℝ × ℝ × ℝ, (∑ i, x i * shellDerivFn (s i) (m i) (c i) (1,0,0) r) ^ 2 :=
    integral_nonneg fun r => sq_nonneg _
  have h2 : 0 ≤ ∫ r : ℝ × ℝ × ℝ, (∑ i, x i * shellDerivFn (s i) (m i) (c i) (0,1,0) r) ^ 2 :=
    integral_nonneg fun r => sq_nonneg _
  have h3 : 0 ≤ ∫ r : ℝ × ℝ × ℝ, (∑ i, x i * shellDerivFn (s i) (m i) (c i) (0,0,1) r) ^ 2 :=
    integral_nonneg fun r => sq_nonneg _
  linarith

omit [Fintype ι] in
/-- **… symmetric** -/
theorem kineticMat_symm (s : ι → Shell ℝ) (m c : ι → ℕ)
    (hs : ∀ i, ∀ k < (s i).nprim, 0 < (s i).exp! k)
    (hc : ∀ i, ((s i).comp! (c i)).1 ≤ (s i).l ∧ ((s i).comp! (c i)).2.1 ≤ (s i).l
      ∧ ((s i).comp! (c i)).2.2 ≤ (s i).l) (i j : ι) :
    kineticMat s m c i j = kineticMat s m c j i := by
  unfold kineticMat
  rw [kineticBlock_eq_gradient (s i) (s j) (m i) (c i) (m j) (c j) (hs i) (hs j) (hc i),
    kineticBlock_eq_gradient (s j) (s i) (m j) (c j) (m i) (c i) (hs j) (hs i) (hc j)]
  simp_rw [mul_comm (shellDerivFn (s i) (m i) (c i) _ _)]

/-- **… and satisfies the Schwarz bound.** -/
theorem kinetic_abs_le [DecidableEq ι] (s : ι → Shell ℝ) (m c : ι → ℕ)
    (hs : ∀ i, ∀ k < (s i).nprim, 0 < (s i).exp! k)
    (hc : ∀ i, ((s i).comp! (c i)).1 ≤ (s i).l ∧ ((s i).comp! (c i)).2.1 ≤ (s i).l
      ∧ ((s i).comp! (c i)).2.2 ≤ (s i).l) (i j : ι) :
    |kineticMat s m c i j| ≤ √(kineticMat s m c i i) * √(kineticMat s m c j j) :=
  psd_abs_le _ (kineticMat_symm s m c hs hc) (kinetic_psd s m c hs hc) i j

end KineticMatrix

/-! ### The first-order `shellDerivFn` are the partial derivatives of `shellFn` -/
section Partial

lemma differentiable_prim1 (α A : ℝ) (n : ℕ) : Differentiable ℝ (prim1 α A n) := by
  unfold prim1; fun_prop

theorem hasDerivAt_shellFn_x (s : Shell ℝ) (m c : ℕ) (x y z : ℝ) :
    HasDerivAt (fun x' => shellFn s m c (x', y, z)) (shellDerivFn s m c (1,0,0) (x, y, z)) x := by
  unfold shellFn shellDerivFn
  refine HasDerivAt.fun_sum fun k _ => HasDerivAt.const_mul _ ?_
  simp_rw [primFn_eq_prod]
  simp only [primDerivFn, iteratedDeriv_one, iteratedDeriv_zero]
  exact (((differentiable_prim1 _ _ _ x).hasDerivAt).mul_const _).mul_const _

theorem hasDerivAt_shellFn_y (s : Shell ℝ) (m c : ℕ) (x y z : ℝ) :
    HasDerivAt (fun y' => shellFn s m c (x, y', z)) (shellDerivFn s m c (0,1,0) (x, y, z)) y := by
  unfold shellFn shellDerivFn
  refine HasDerivAt.fun_sum fun k _ => HasDerivAt.const_mul _ ?_
  simp_rw [primFn_eq_prod]
  simp only [primDerivFn, iteratedDeriv_one, iteratedDeriv_zero]
  exact (((differentiable_prim1 _ _ _ y).hasDerivAt).const_mul _).mul_const _

theorem hasDerivAt_shellFn_z (s : Shell ℝ) (m c : ℕ) (x y z : ℝ) :
    HasDerivAt (fun z' => shellFn s m c (x, y, z')) (shellDerivFn s m c (0,0,1) (x, y, z)) z := by
  unfold shellFn shellDerivFn
  refine HasDerivAt.fun_sum fun k _ => HasDerivAt.const_mul _ ?_
  simp_rw [primFn_eq_prod]
  simp only [primDerivFn, iteratedDeriv_one, iteratedDeriv_zero]
  exact ((differentiable_prim1 _ _ _ z).hasDerivAt).const_mul _

end Partial

/-! ## 4. Positivity of the Gaussian and Coulomb kernels -/
section Kernel
open Set
variable {V : Type*} [NormedAddCommGroup V] [InnerProductSpace ℝ V] [FiniteDimensional ℝ V]
  [MeasurableSpace V] [BorelSpace V]

/-- Gaussian smoothing `z ↦ ∫ F(r) e^{-c|r-z|²} dr` -/
noncomputable def gaussSmooth (c : ℝ) (F : V → ℝ) (z : V) : ℝ :=
  ∫ r : V, F r * exp (-c * ‖r - z‖ ^ 2)

/-- the semigroup (convolution) identity of the Gaussians:
`∫ e^{-c|x-z|²} e^{-c|y-z|²} dz = e^{-(c/2)|x-y|²} (π/(2c))^{d/2}` -/
lemma gauss_conv_identity (c : ℝ) (hc : 0 < c) (x y : V) :
    ∫ z : V, exp (-c * ‖x - z‖ ^ 2) * exp (-c * ‖y - z‖ ^ 2)
      = exp (-(c / 2) * ‖x - y‖ ^ 2) * (π / (2 * c)) ^ ((Module.finrank ℝ V : ℝ) / 2) := by
  have h := gauss3_product_integral c c hc hc.le x y
  simp_rw [norm_sub_rev _ x, norm_sub_rev _ y] at h
  rw [h]
  have e1 : c * c / (c + c) = c / 2 := by field_simp; ring
  have e2 : c + c = 2 * c := by ring
  rw [e1, e2, norm_sub_rev y x]

/-- the integrand of the triple integral -/
noncomputable def tripleFn (c : ℝ) (F : V → ℝ) (q : (V × V) × V) : ℝ :=
  (F q.1.1 * exp (-c * ‖q.1.1 - q.2‖ ^ 2)) * (F q.1.2 * exp (-c * ‖q.1.2 - q.2‖ ^ 2))

omit [InnerProductSpace ℝ V] [FiniteDimensional ℝ V] [MeasurableSpace V] [BorelSpace V] in
lemma tripleFn_eq (c : ℝ) (F : V → ℝ) (p : V × V) (z : V) :
    tripleFn c F (p, z)
      = (F p.1 * F p.2) * (exp (-c * ‖p.1 - z‖ ^ 2) * exp (-c * ‖p.2 - z‖ ^ 2)) := by
  unfold tripleFn; ring

lemma aesm_FF (F : V → ℝ) (hF : AEStronglyMeasurable F volume) :
    AEStronglyMeasurable (fun p : V × V => F p.1 * F p.2) (volume.prod volume) :=
  hF.comp_fst.mul hF.comp_snd

lemma integrable_tripleFn (c : ℝ) (hc : 0 < c) (F : V → ℝ) (hF : Integrable F) :
    Integrable (tripleFn c F) (((volume : Measure V).prod volume).prod volume) := by
  have hm : AEStronglyMeasurable (tripleFn c F) (((volume : Measure V).prod volume).prod volume) := by
    have h1 : AEStronglyMeasurable (fun q : (V × V) × V => F q.1.1 * F q.1.2)
        (((volume : Measure V).prod volume).prod volume) :=
      (aesm_FF F hF.aestronglyMeasurable).comp_fst
    have h2 : Continuous fun q : (V × V) × V =>
        exp (-c * ‖q.1.1 - q.2‖ ^ 2) * exp (-c * ‖q.1.2 - q.2‖ ^ 2) := by fun_prop
    refine (h1.mul h2.aestronglyMeasurable).congr (Filter.Eventually.of_forall fun q => ?_)
    simp only [tripleFn, Pi.mul_apply]; ring
  rw [integrable_prod_iff hm]
  refine ⟨Filter.Eventually.of_forall fun p => ?_, ?_⟩
  · simp_rw [tripleFn_eq]
    have h := integrable_gauss3_product c c hc hc.le p.1 p.2
    simp_rw [norm_sub_rev _ p.1, norm_sub_rev _ p.2] at h
    exact h.const_mul _
  · have e : ∀ p : V × V, ∫ z : V, ‖tripleFn c F (p, z)‖
        = ‖F p.1 * F p.2‖ * (exp (-(c / 2) * ‖p.1 - p.2‖ ^ 2)
            * (π / (2 * c)) ^ ((Module.finrank ℝ V : ℝ) / 2)) := by
      intro p
      rw [← gauss_conv_identity c hc, ← integral_const_mul]
      refine integral_congr_ae (Filter.Eventually.of_forall fun z => ?_)
      simp only [tripleFn_eq, norm_mul, Real.norm_eq_abs, abs_of_pos (Real.exp_pos _)]
    simp_rw [e]
    have hFF : Integrable (fun p : V × V => ‖F p.1 * F p.2‖) ((volume : Measure V).prod volume) :=
      (hF.mul_prod hF).norm
    have hb : Continuous fun p : V × V => exp (-(c / 2) * ‖p.1 - p.2‖ ^ 2)
        * (π / (2 * c)) ^ ((Module.finrank ℝ V : ℝ) / 2) := by fun_prop
    refine hFF.mul_bdd (c := (π / (2 * c)) ^ ((Module.finrank ℝ V : ℝ) / 2))
      hb.aestronglyMeasurable (Filter.Eventually.of_forall fun p => ?_)
    have hK : 0 ≤ (π / (2 * c)) ^ ((Module.finrank ℝ V : ℝ) / 2) :=
      Real.rpow_nonneg (by positivity) _
    rw [Real.norm_eq_abs, abs_of_nonneg (mul_nonneg (Real.exp_pos _).le hK)]
    have h1 : exp (-(c / 2) * ‖p.1 - p.2‖ ^ 2) ≤ 1 := by
      rw [Real.exp_le_one_iff]
      have : 0 ≤ c / 2 * ‖p.1 - p.2‖ ^ 2 := by positivity
      linarith
    calc exp (-(c / 2) * ‖p.1 - p.2‖ ^ 2) * (π / (2 * c)) ^ ((Module.finrank ℝ V : ℝ) / 2)
        ≤ 1 * (π / (2 * c)) ^ ((Module.finrank ℝ V : ℝ) / 2) :=
          mul_le_mul_of_nonneg_right h1 hK
      _ = _ := one_mul _

/-- **The Gaussian kernel is a Gram kernel**: for integrable `F` and `c > 0`,
`(π/(2c))^{d/2} ∬ F(r₁) F(r₂) e^{-(c/2)|r₁-r₂|²} = ∫ (∫ F(r) e^{-c|r-z|²} dr)² dz`. -/
theorem gauss_kernel_gram (c : ℝ) (hc : 0 < c) (F : V → ℝ) (hF : Integrable F) :
    (π / (2 * c)) ^ ((Module.finrank ℝ V : ℝ) / 2)
        * ∫ p : V × V, F p.1 * F p.2 * exp (-(c / 2) * ‖p.1 - p.2‖ ^ 2)
      = ∫ z : V, gaussSmooth c F z ^ 2 := by
  have hH := integrable_tripleFn c hc F hF
  have h1 := integral_prod _ hH
  have h2 := integral_prod_symm _ hH
  rw [h1] at h2
  have e1 : ∀ p : V × V, ∫ z : V, tripleFn c F (p, z)
      = (π / (2 * c)) ^ ((Module.finrank ℝ V : ℝ) / 2)
        * (F p.1 * F p.2 * exp (-(c / 2) * ‖p.1 - p.2‖ ^ 2)) := by
    intro p
    simp_rw [tripleFn_eq]
    rw [integral_const_mul, gauss_conv_identity c hc]
    ring
  have e2 : ∀ z : V, ∫ p : V × V, tripleFn c F (p, z) ∂((volume : Measure V).prod volume)
      = gaussSmooth c F z ^ 2 := by
    intro z
    unfold tripleFn gaussSmooth
    rw [integral_prod_mul (fun r : V => F r * exp (-c * ‖r - z‖ ^ 2))
      (fun r : V => F r * exp (-c * ‖r - z‖ ^ 2)), sq]
  simp_rw [e1, e2] at h2
  rw [← h2, integral_const_mul]
  rfl

/-- **Fixed-`u` positivity**: `0 ≤ ∬ F(r₁) F(r₂) e^{-u²|r₁-r₂|²}` for every integrable `F` and
every real `u`. -/
theorem gauss_kernel_nonneg (u : ℝ) (F : V → ℝ) (hF : Integrable F) :
    0 ≤ ∫ p : V × V, F p.1 * F p.2 * exp (-u ^ 2 * ‖p.1 - p.2‖ ^ 2) := by
  rcases eq_or_ne u 0 with h0 | h0
  · subst h0
    have : ∀ p : V × V, F p.1 * F p.2 * exp (-(0:ℝ) ^ 2 * ‖p.1 - p.2‖ ^ 2) = F p.1 * F p.2 := by
      intro p; simp
    simp_rw [this]
    have h := integral_prod_mul (μ := (volume : Measure V)) (ν := (volume : Measure V)) F F
    rw [show (volume : Measure (V × V)) = (volume : Measure V).prod volume from rfl, h]
    exact mul_self_nonneg _
  · have hc : 0 < 2 * u ^ 2 := by positivity
    have h := gauss_kernel_gram (2 * u ^ 2) hc F hF
    have hK : 0 < (π / (2 * (2 * u ^ 2))) ^ ((Module.finrank ℝ V : ℝ) / 2) :=
      Real.rpow_pos_of_pos (by positivity) _
    have hR : 0 ≤ ∫ z : V, gaussSmooth (2 * u ^ 2) F z ^ 2 := integral_nonneg fun z => sq_nonneg _
    rw [← h] at hR
    have e : -(2 * u ^ 2 / 2) = -u ^ 2 := by ring
    rw [e] at hR
    exact nonneg_of_mul_nonneg_right hR hK

/-- the diagonal of `V × V` is a null set (in dimension `≥ 1`) -/
lemma diagonal_null [Nontrivial V] :
    ((volume : Measure V).prod volume) {p : V × V | p.1 = p.2} = 0 := by
  have hm : MeasurableSet {p : V × V | p.1 = p.2} :=
    measurableSet_eq_fun measurable_fst measurable_snd
  rw [Measure.measure_prod_null hm]
  refine Filter.Eventually.of_forall fun x => ?_
  have : Prod.mk x ⁻¹' {p : V × V | p.1 = p.2} = {x} := by
    ext y; simp [eq_comm]
  show volume (Prod.mk x ⁻¹' {p : V × V | p.1 = p.2}) = 0
  rw [this]
  exact measure_singleton x

/-- integrand of the joint `(r₁, r₂, u)` integral -/
noncomputable def coulJoint (F : V → ℝ) (q : (V × V) × ℝ) : ℝ :=
  F q.1.1 * F q.1.2 * exp (-q.2 ^ 2 * ‖q.1.1 - q.1.2‖ ^ 2)

omit [InnerProductSpace ℝ V] [FiniteDimensional ℝ V] [MeasurableSpace V] [BorelSpace V] in
/-- Gaussian transform of the Coulomb kernel, pointwise (also on the diagonal, where both sides
vanish by the conventions `1/0 = 0` and "integral of a non-integrable function = 0") -/
lemma coul_pointwise (F : V → ℝ) (p : V × V) :
    F p.1 * F p.2 / ‖p.1 - p.2‖ = 2 / √π * ∫ u in Ioi (0:ℝ), coulJoint F (p, u) := by
  have e : ∀ u : ℝ, coulJoint F (p, u) = F p.1 * F p.2 * exp (-u ^ 2 * ‖p.1 - p.2‖ ^ 2) :=
    fun u => rfl
  simp_rw [e]
  rw [integral_const_mul, div_eq_mul_one_div, inv_eq_integral_gauss _ (norm_nonneg _)]
  have : ∀ w : ℝ, -‖p.1 - p.2‖ ^ 2 * w ^ 2 = -w ^ 2 * ‖p.1 - p.2‖ ^ 2 := by intro w; ring
  simp_rw [this]
  ring

omit [InnerProductSpace ℝ V] [FiniteDimensional ℝ V] [MeasurableSpace V] [BorelSpace V] in
lemma coul_norm_pointwise (F : V → ℝ) (p : V × V) :
    ∫ u in Ioi (0:ℝ), ‖coulJoint F (p, u)‖ = √π / 2 * ‖F p.1 * F p.2 / ‖p.1 - p.2‖‖ := by
  have h := inv_eq_integral_gauss ‖p.1 - p.2‖ (norm_nonneg _)
  have hsp : √π ≠ 0 := (Real.sqrt_pos.mpr pi_pos).ne'
  have h' : ∫ w in Ioi (0:ℝ), exp (-‖p.1 - p.2‖ ^ 2 * w ^ 2) = √π / 2 * (1 / ‖p.1 - p.2‖) := by
    rw [h]; field_simp
  have e : ∀ u : ℝ, ‖coulJoint F (p, u)‖ = ‖F p.1 * F p.2‖ * exp (-‖p.1 - p.2‖ ^ 2 * u ^ 2) := by
    intro u
    unfold coulJoint
    rw [norm_mul, Real.norm_eq_abs (exp _), abs_of_pos (Real.exp_pos _)]
    congr 2; ring
  simp_rw [e]
  rw [integral_const_mul, h', norm_div, norm_norm]
  ring

lemma coulJoint_aesm (F : V → ℝ) (hF : AEStronglyMeasurable F volume) :
    AEStronglyMeasurable (coulJoint F)
      (((volume : Measure V).prod volume).prod (volume.restrict (Ioi (0:ℝ)))) := by
  have h1 : AEStronglyMeasurable (fun q : (V × V) × ℝ => F q.1.1 * F q.1.2)
      (((volume : Measure V).prod volume).prod (volume.restrict (Ioi (0:ℝ)))) :=
    (aesm_FF F hF).comp_fst
  have h2 : Continuous fun q : (V × V) × ℝ => exp (-q.2 ^ 2 * ‖q.1.1 - q.1.2‖ ^ 2) := by fun_prop
  exact h1.mul h2.aestronglyMeasurable

/-- joint integrability in `(r₁, r₂, u)`, from the integrability of `F(r₁) F(r₂)/|r₁-r₂|` -/
lemma integrable_coulJoint [Nontrivial V] (F : V → ℝ) (hF : AEStronglyMeasurable F volume)
    (hFF : Integrable (fun p : V × V => F p.1 * F p.2 / ‖p.1 - p.2‖)
      ((volume : Measure V).prod volume)) :
    Integrable (coulJoint F)
      (((volume : Measure V).prod volume).prod (volume.restrict (Ioi (0:ℝ)))) := by
  rw [integrable_prod_iff (coulJoint_aesm F hF)]
  constructor
  · have hd : ∀ᵐ p : V × V ∂((volume : Measure V).prod volume), p ∉ {p : V × V | p.1 = p.2} :=
      measure_eq_zero_iff_ae_notMem.mp diagonal_null
    filter_upwards [hd] with p hp
    have hne : p.1 - p.2 ≠ 0 := sub_ne_zero.mpr hp
    have hpos : 0 < ‖p.1 - p.2‖ ^ 2 := by positivity
    have hi := (integrable_exp_neg_mul_sq hpos).integrableOn (s := Ioi (0:ℝ))
    have := hi.const_mul (F p.1 * F p.2)
    refine this.congr (Filter.Eventually.of_forall fun u => ?_)
    simp only [coulJoint]
    congr 2; ring
  · simp_rw [coul_norm_pointwise]
    exact hFF.norm.const_mul _

/-- **The Coulomb kernel is positive**: for `F` integrable with `F(r₁) F(r₂)/|r₁-r₂|` integrable
on `V × V`, `0 ≤ ∬ F(r₁) F(r₂) / |r₁-r₂|`. -/
theorem coulomb_kernel_nonneg [Nontrivial V] (F : V → ℝ) (hF : Integrable F)
    (hFF : Integrable (fun p : V × V => F p.1 * F p.2 / ‖p.1 - p.2‖)
      ((volume : Measure V).prod volume)) :
    0 ≤ ∫ p : V × V, F p.1 * F p.2 / ‖p.1 - p.2‖ := by
  have hJ := integrable_coulJoint F hF.aestronglyMeasurable hFF
  simp_rw [coul_pointwise]
  rw [integral_const_mul]
  have hswap := integral_integral_swap (f := fun (p : V × V) (u : ℝ) => coulJoint F (p, u))
    (μ := (volume : Measure V).prod volume) (ν := volume.restrict (Ioi (0:ℝ))) hJ
  rw [show (volume : Measure (V × V)) = (volume : Measure V).prod volume from rfl, hswap]
  refine mul_nonneg (by positivity) (integral_nonneg fun u => ?_)
  exact gauss_kernel_nonneg u F hF

/-- **Gaussian-transform representation of the Coulomb energy** -/
theorem coulomb_kernel_eq [Nontrivial V] (F : V → ℝ) (hF : Integrable F)
    (hFF : Integrable (fun p : V × V => F p.1 * F p.2 / ‖p.1 - p.2‖)
      ((volume : Measure V).prod volume)) :
    ∫ p : V × V, F p.1 * F p.2 / ‖p.1 - p.2‖
      = 2 / √π * ∫ u in Ioi (0:ℝ), ∫ p : V × V, F p.1 * F p.2 * exp (-u ^ 2 * ‖p.1 - p.2‖ ^ 2) := by
  have hJ := integrable_coulJoint F hF.aestronglyMeasurable hFF
  simp_rw [coul_pointwise]
  rw [integral_const_mul]
  have hswap := integral_integral_swap (f := fun (p : V × V) (u : ℝ) => coulJoint F (p, u))
    (μ := (volume : Measure V).prod volume) (ν := volume.restrict (Ioi (0:ℝ))) hJ
  rw [show (volume : Measure (V × V)) = (volume : Measure V).prod volume from rfl, hswap]
  rfl

end Kernel

/-! ## 5. Gaussian-bounded functions: the hypotheses of §4 hold for the pair densities -/
section GaussBdd
variable {V : Type*} [NormedAddCommGroup V]

/-- `F` is bounded by a centred Gaussian: `|F r| ≤ K e^{-a|r|²}` for some `a > 0` -/
def GaussBdd (F : V → ℝ) : Prop := ∃ K a : ℝ, 0 < a ∧ ∀ r, |F r| ≤ K * exp (-a * ‖r‖ ^ 2)

lemma GaussBdd.mono {F G : V → ℝ} (hG : GaussBdd G) (Cst : ℝ) (h : ∀ r, |F r| ≤ Cst * |G r|)
    (hC : 0 ≤ Cst) : GaussBdd F := by
  obtain ⟨K, a, ha, hK⟩ := hG
  refine ⟨Cst * K, a, ha, fun r => ?_⟩
  calc |F r| ≤ Cst * |G r| := h r
    _ ≤ Cst * (K * exp (-a * ‖r‖ ^ 2)) := mul_le_mul_of_nonneg_left (hK r) hC
    _ = _ := by ring

lemma GaussBdd.const_mul {F : V → ℝ} (hF : GaussBdd F) (c : ℝ) : GaussBdd fun r => c * F r :=
  hF.mono |c| (fun r => by rw [abs_mul]) (abs_nonneg c)

lemma GaussBdd.zero : GaussBdd (fun _ : V => (0:ℝ)) :=
  ⟨0, 1, one_pos, fun r => by simp⟩

lemma GaussBdd.add {F G : V → ℝ} (hF : GaussBdd F) (hG : GaussBdd G) :
    GaussBdd fun r => F r + G r := by
  obtain ⟨K, a, ha, hK⟩ := hF
  obtain ⟨L, b, hb, hL⟩ := hG
  have hK0 : 0 ≤ K := by
    have := (abs_nonneg _).trans (hK 0); simpa using this
  have hL0 : 0 ≤ L := by
    have := (abs_nonneg _).trans (hL 0); simpa using this
  refine ⟨K + L, min a b, lt_min ha hb, fun r => ?_⟩
  have h1 : exp (-a * ‖r‖ ^ 2) ≤ exp (-(min a b) * ‖r‖ ^ 2) := by
    apply Real.exp_le_exp.mpr
    have : min a b * ‖r‖ ^ 2 ≤ a * ‖r‖ ^ 2 :=
      mul_le_mul_of_nonneg_right (min_le_left a b) (sq_nonneg _)
    linarith
  have h2 : exp (-b * ‖r‖ ^ 2) ≤ exp (-(min a b) * ‖r‖ ^ 2) := by
    apply Real.exp_le_exp.mpr
    have : min a b * ‖r‖ ^ 2 ≤ b * ‖r‖ ^ 2 :=
      mul_le_mul_of_nonneg_right (min_le_right a b) (sq_nonneg _)
    linarith
  calc |F r + G r| ≤ |F r| + |G r| := abs_add_le _ _
    _ ≤ K * exp (-a * ‖r‖ ^ 2) + L * exp (-b * ‖r‖ ^ 2) := add_le_add (hK r) (hL r)
    _ ≤ K * exp (-(min a b) * ‖r‖ ^ 2) + L * exp (-(min a b) * ‖r‖ ^ 2) :=
        add_le_add (mul_le_mul_of_nonneg_left h1 hK0) (mul_le_mul_of_nonneg_left h2 hL0)
    _ = _ := by ring

lemma GaussBdd.sum {κ : Type*} (t : Finset κ) (F : κ → V → ℝ) (hF : ∀ k ∈ t, GaussBdd (F k)) :
    GaussBdd fun r => ∑ k ∈ t, F k r := by
  classical
  induction t using Finset.induction_on with
  | empty => simpa using GaussBdd.zero
  | insert k t hk ih =>
    simp_rw [Finset.sum_insert hk]
    exact (hF k (Finset.mem_insert_self k t)).add
      (ih fun j hj => hF j (Finset.mem_insert_of_mem hj))

lemma GaussBdd.mul {F G : V → ℝ} (hF : GaussBdd F) (hG : GaussBdd G) :
    GaussBdd fun r => F r * G r := by
  obtain ⟨L, b, hb, hL⟩ := hG
  have hL0 : 0 ≤ L := by
    have := (abs_nonneg _).trans (hL 0); simpa using this
  refine hF.mono L (fun r => ?_) hL0
  rw [abs_mul, mul_comm]
  refine mul_le_mul_of_nonneg_right ((hL r).trans ?_) (abs_nonneg _)
  have : exp (-b * ‖r‖ ^ 2) ≤ 1 := by
    rw [Real.exp_le_one_iff]
    have : 0 ≤ b * ‖r‖ ^ 2 := by positivity
    linarith
  calc L * exp (-b * ‖r‖ ^ 2) ≤ L * 1 := mul_le_mul_of_nonneg_left this hL0
    _ = L := mul_one L

/-- a Gaussian about any centre is bounded by a centred Gaussian -/
lemma gaussBdd_gauss (a : ℝ) (ha : 0 < a) (P : V) : GaussBdd fun r : V => exp (-a * ‖r - P‖ ^ 2) := by
  refine ⟨exp (a * ‖P‖ ^ 2), a / 2, by positivity, fun r => ?_⟩
  rw [abs_of_pos (Real.exp_pos _), ← Real.exp_add]
  apply Real.exp_le_exp.mpr
  have h1 : ‖r‖ ≤ ‖r - P‖ + ‖P‖ := by
    have := norm_add_le (r - P) P
    simpa using this
  have h2 : ‖r‖ ^ 2 ≤ 2 * ‖r - P‖ ^ 2 + 2 * ‖P‖ ^ 2 := by
    have h3 : ‖r‖ ^ 2 ≤ (‖r - P‖ + ‖P‖) ^ 2 := pow_le_pow_left₀ (norm_nonneg _) h1 2
    nlinarith [sq_nonneg (‖r - P‖ - ‖P‖)]
  nlinarith

/-- `|t|^n e^{-ε t²}` is bounded -/
lemma abs_pow_mul_exp_le (n : ℕ) (ε : ℝ) (hε : 0 < ε) (t : ℝ) :
    |t| ^ n * exp (-ε * t ^ 2) ≤ 1 + n.factorial / ε ^ n := by
  have hs : |t| ^ n ≤ 1 + (t ^ 2) ^ n := by
    rw [← sq_abs t, ← pow_mul]
    rcases le_or_gt |t| 1 with h | h
    · have : |t| ^ n ≤ 1 := pow_le_one₀ (abs_nonneg _) h
      have : 0 ≤ |t| ^ (2 * n) := by positivity
      linarith
    · have : |t| ^ n ≤ |t| ^ (2 * n) := pow_le_pow_right₀ h.le (by omega)
      linarith
  have he1 : exp (-ε * t ^ 2) ≤ 1 := by
    rw [Real.exp_le_one_iff]
    have : 0 ≤ ε * t ^ 2 := by positivity
    linarith
  have hfac : (t ^ 2) ^ n * exp (-ε * t ^ 2) ≤ n.factorial / ε ^ n := by
    have h := Real.pow_div_factorial_le_exp (x := ε * t ^ 2) (by positivity) n
    rw [div_le_iff₀ (by positivity)] at h
    rw [le_div_iff₀ (by positivity)]
    have hexp : exp (ε * t ^ 2) * exp (-ε * t ^ 2) = 1 := by
      rw [← Real.exp_add]; simp
    calc (t ^ 2) ^ n * exp (-ε * t ^ 2) * ε ^ n
        = (ε * t ^ 2) ^ n * exp (-ε * t ^ 2) := by rw [mul_pow]; ring
      _ ≤ (exp (ε * t ^ 2) * n.factorial) * exp (-ε * t ^ 2) :=
          mul_le_mul_of_nonneg_right h (Real.exp_pos _).le
      _ = n.factorial * (exp (ε * t ^ 2) * exp (-ε * t ^ 2)) := by ring
      _ = n.factorial := by rw [hexp, mul_one]
  calc |t| ^ n * exp (-ε * t ^ 2) ≤ (1 + (t ^ 2) ^ n) * exp (-ε * t ^ 2) :=
        mul_le_mul_of_nonneg_right hs (Real.exp_pos _).le
    _ = exp (-ε * t ^ 2) + (t ^ 2) ^ n * exp (-ε * t ^ 2) := by ring
    _ ≤ 1 + n.factorial / ε ^ n := add_le_add he1 hfac

end GaussBdd

section PairDensities
open Set

lemma continuous_primFnE (α : ℝ) (A : E3) (c : Comp) : Continuous (primFnE α A c) := by
  unfold primFnE
  have h : ∀ u : Fin 3, Continuous fun r : E3 => r u := fun u => (EuclideanSpace.proj u).continuous
  have h0 := h 0
  have h1 := h 1
  have h2 := h 2
  fun_prop

lemma continuous_shellFnE (s : Shell ℝ) (m c : ℕ) : Continuous (shellFnE s m c) := by
  unfold shellFnE
  exact continuous_finsetSum _ fun k _ => (continuous_primFnE _ _ _).const_mul _

/-- a Cartesian primitive with positive exponent is Gaussian-bounded -/
lemma gaussBdd_primFnE (α : ℝ) (hα : 0 < α) (A : E3) (c : Comp) : GaussBdd (primFnE α A c) := by
  have hε : 0 < α / 2 := by positivity
  refine (gaussBdd_gauss (α / 2) hε A).mono
    ((1 + c.1.factorial / (α / 2) ^ c.1) * (1 + c.2.1.factorial / (α / 2) ^ c.2.1)
      * (1 + c.2.2.factorial / (α / 2) ^ c.2.2)) (fun r => ?_) (by positivity)
  have hn : ‖r - A‖ ^ 2 = (r 0 - A 0) ^ 2 + (r 1 - A 1) ^ 2 + (r 2 - A 2) ^ 2 := by
    rw [EuclideanSpace.real_norm_sq_eq]
    simp [Fin.sum_univ_three]
  have b0 := abs_pow_mul_exp_le c.1 (α / 2) hε (r 0 - A 0)
  have b1 := abs_pow_mul_exp_le c.2.1 (α / 2) hε (r 1 - A 1)
  have b2 := abs_pow_mul_exp_le c.2.2 (α / 2) hε (r 2 - A 2)
  have n0 : 0 ≤ |r 0 - A 0| ^ c.1 * exp (-(α / 2) * (r 0 - A 0) ^ 2) := by positivity
  have n1 : 0 ≤ |r 1 - A 1| ^ c.2.1 * exp (-(α / 2) * (r 1 - A 1) ^ 2) := by positivity
  have n2 : 0 ≤ |r 2 - A 2| ^ c.2.2 * exp (-(α / 2) * (r 2 - A 2) ^ 2) := by positivity
  have e : |primFnE α A c r|
      = (|r 0 - A 0| ^ c.1 * exp (-(α / 2) * (r 0 - A 0) ^ 2))
        * (|r 1 - A 1| ^ c.2.1 * exp (-(α / 2) * (r 1 - A 1) ^ 2))
        * (|r 2 - A 2| ^ c.2.2 * exp (-(α / 2) * (r 2 - A 2) ^ 2))
        * |exp (-(α / 2) * ‖r - A‖ ^ 2)| := by
    unfold primFnE
    rw [abs_mul, abs_mul, abs_mul, abs_pow, abs_pow, abs_pow, abs_of_pos (Real.exp_pos _),
      abs_of_pos (Real.exp_pos _)]
    have : exp (-α * ‖r - A‖ ^ 2)
        = exp (-(α / 2) * (r 0 - A 0) ^ 2) * exp (-(α / 2) * (r 1 - A 1) ^ 2)
          * exp (-(α / 2) * (r 2 - A 2) ^ 2) * exp (-(α / 2) * ‖r - A‖ ^ 2) := by
      rw [← Real.exp_add, ← Real.exp_add, ← Real.exp_add]
      congr 1
      rw [hn]; ring
    rw [this]; ring
  rw [e]
  refine mul_le_mul_of_nonneg_right ?_ (abs_nonneg _)
  exact mul_le_mul (mul_le_mul b0 b1 n1 (by positivity)) b2 n2 (by positivity)

/-- a contracted function with positive exponents is Gaussian-bounded -/
lemma gaussBdd_shellFnE (s : Shell ℝ) (m c : ℕ) (hs : ∀ k, k < s.nprim → 0 < s.exp! k) :
    GaussBdd (shellFnE s m c) := by
  unfold shellFnE
  exact GaussBdd.sum _ _ fun k hk =>
    (gaussBdd_primFnE _ (hs k (Finset.mem_range.mp hk)) _ _).const_mul _

theorem boys_zero_le_one (T : ℝ) (hT : 0 ≤ T) : boys T 0 ≤ 1 := by
  unfold boys
  have h : ∫ t in (0:ℝ)..1, t ^ (2 * 0) * Real.exp (-T * t ^ 2) ≤ ∫ _t in (0:ℝ)..1, (1:ℝ) := by
    apply intervalIntegral.integral_mono_on (by norm_num)
    · exact (boys_integrand_continuous T 0).intervalIntegrable _ _
    · exact intervalIntegrable_const
    · intro t _
      simp only [mul_zero, pow_zero, one_mul]
      rw [Real.exp_le_one_iff]
      have : 0 ≤ T * t ^ 2 := by positivity
      linarith
  simpa using h

lemma coulomb_s_integrable (p : ℝ) (hp : 0 < p) (P Cc : E3) :
    Integrable fun r : E3 => exp (-p * ‖r - P‖ ^ 2) / ‖r - Cc‖ := by
  by_contra hni
  have h0 := integral_undef hni
  rw [coulomb_s_integral_R3 p hp] at h0
  have h1 := boys_pos (p * ‖P - Cc‖ ^ 2) 0
  have : 0 < 2 * π / p * boys (p * ‖P - Cc‖ ^ 2) 0 := by positivity
  linarith

lemma coulomb_s_le (p : ℝ) (hp : 0 < p) (P Cc : E3) :
    ∫ r : E3, exp (-p * ‖r - P‖ ^ 2) / ‖r - Cc‖ ≤ 2 * π / p := by
  rw [coulomb_s_integral_R3 p hp]
  have h1 := boys_zero_le_one (p * ‖P - Cc‖ ^ 2) (by positivity)
  have : 0 ≤ 2 * π / p := by positivity
  nlinarith

lemma measurable_inv_norm_sub (Cc : E3) : Measurable fun r : E3 => ‖r - Cc‖⁻¹ :=
  (measurable_norm.comp (measurable_id.sub_const Cc)).inv

/-- `G / |r - C|` is integrable for a measurable Gaussian-bounded `G`, with a bound uniform in `C` -/
lemma GaussBdd.integrable_div_norm {G : E3 → ℝ} (hGm : AEStronglyMeasurable G volume) (K a : ℝ)
    (ha : 0 < a) (hK : ∀ r, |G r| ≤ K * exp (-a * ‖r‖ ^ 2)) (Cc : E3) :
    Integrable (fun r : E3 => G r / ‖r - Cc‖)
      ∧ ∫ r : E3, ‖G r / ‖r - Cc‖‖ ≤ K * (2 * π / a) := by
  have hdom : Integrable fun r : E3 => K * (exp (-a * ‖r - 0‖ ^ 2) / ‖r - Cc‖) :=
    (coulomb_s_integrable a ha 0 Cc).const_mul K
  have hle : ∀ r : E3, ‖G r / ‖r - Cc‖‖ ≤ K * (exp (-a * ‖r - 0‖ ^ 2) / ‖r - Cc‖) := by
    intro r
    rw [norm_div, norm_norm, Real.norm_eq_abs, sub_zero, ← mul_div_assoc]
    exact div_le_div_of_nonneg_right (hK r) (norm_nonneg _)
  have hm : AEStronglyMeasurable (fun r : E3 => G r / ‖r - Cc‖) volume := by
    simp_rw [div_eq_mul_inv]
    exact hGm.mul (measurable_inv_norm_sub Cc).aestronglyMeasurable
  have hint : Integrable (fun r : E3 => G r / ‖r - Cc‖) :=
    hdom.mono' hm (Filter.Eventually.of_forall hle)
  refine ⟨hint, ?_⟩
  have hK0 : 0 ≤ K := by
    have := (abs_nonneg _).trans (hK 0); simpa using this
  calc ∫ r : E3, ‖G r / ‖r - Cc‖‖
      ≤ ∫ r : E3, K * (exp (-a * ‖r - 0‖ ^ 2) / ‖r - Cc‖) :=
        integral_mono hint.norm hdom hle
    _ = K * ∫ r : E3, exp (-a * ‖r - 0‖ ^ 2) / ‖r - Cc‖ := integral_const_mul _ _
    _ ≤ K * (2 * π / a) := mul_le_mul_of_nonneg_left (coulomb_s_le a ha 0 Cc) hK0

lemma GaussBdd.integrable {F : E3 → ℝ} (hF : GaussBdd F) (hFm : AEStronglyMeasurable F volume) :
    Integrable F := by
  obtain ⟨K, a, ha, hK⟩ := hF
  exact ((integrable_gauss_norm (V := E3) ha).const_mul K).mono' hFm
    (Filter.Eventually.of_forall fun r => by simpa [Real.norm_eq_abs] using hK r)

/-- **Joint integrability of `F(r₁) G(r₂) / |r₁ - r₂|`** for measurable Gaussian-bounded `F`, `G` -/
theorem integrable_coulomb_pair {F G : E3 → ℝ} (hFm : AEStronglyMeasurable F volume)
    (hGm : AEStronglyMeasurable G volume) (hF : GaussBdd F) (hG : GaussBdd G) :
    Integrable (fun p : E3 × E3 => F p.1 * G p.2 / ‖p.1 - p.2‖)
      ((volume : Measure E3).prod volume) := by
  obtain ⟨K, a, ha, hK⟩ := hG
  have hFi := hF.integrable hFm
  have hm : AEStronglyMeasurable (fun p : E3 × E3 => F p.1 * G p.2 / ‖p.1 - p.2‖)
      ((volume : Measure E3).prod volume) := by
    simp_rw [div_eq_mul_inv]
    refine (hFm.comp_fst.mul hGm.comp_snd).mul (Measurable.aestronglyMeasurable ?_)
    exact (measurable_norm.comp (measurable_fst.sub measurable_snd)).inv
  have e : ∀ r1 r2 : E3, F r1 * G r2 / ‖r1 - r2‖ = F r1 * (G r2 / ‖r2 - r1‖) := by
    intro r1 r2; rw [norm_sub_rev, mul_div_assoc]
  rw [integrable_prod_iff hm]
  constructor
  · refine Filter.Eventually.of_forall fun r1 => ?_
    simp_rw [e]
    exact ((GaussBdd.integrable_div_norm hGm K a ha hK r1).1).const_mul _
  · have hb : ∀ r1 : E3, ∫ r2 : E3, ‖F r1 * G r2 / ‖r1 - r2‖‖ ≤ ‖F r1‖ * (K * (2 * π / a)) := by
      intro r1
      simp_rw [e, norm_mul]
      rw [integral_const_mul]
      exact mul_le_mul_of_nonneg_left (GaussBdd.integrable_div_norm hGm K a ha hK r1).2
        (norm_nonneg _)
    refine (hFi.norm.mul_const (K * (2 * π / a))).mono' hm.norm.integral_prod_right'
      (Filter.Eventually.of_forall fun r1 => ?_)
    rw [Real.norm_eq_abs, abs_of_nonneg (integral_nonneg fun _ => norm_nonneg _)]
    exact hb r1

end PairDensities

/-! ## 6. The Coulomb (electron-repulsion) pair matrix is a Gram matrix -/
section CoulombGram
variable {ι : Type*} [Fintype ι]

/-- the Coulomb matrix `∬ F_i(r₁) F_j(r₂) / |r₁-r₂|` of a family of "densities" -/
noncomputable def coulombMat (F : ι → E3 → ℝ) (i j : ι) : ℝ :=
  ∫ p : E3 × E3, F i p.1 * F j p.2 / ‖p.1 - p.2‖

/-- **`xᵀ M x = ∬ ρ_x(r₁) ρ_x(r₂) / |r₁-r₂|`** with `ρ_x = Σ_i x_i F_i` -/
theorem coulomb_quadForm_eq (F : ι → E3 → ℝ) (hFm : ∀ i, AEStronglyMeasurable (F i) volume)
    (hF : ∀ i, GaussBdd (F i)) (x : ι → ℝ) :
    quadForm (coulombMat F) x
      = ∫ p : E3 × E3, (∑ i, x i * F i p.1) * (∑ i, x i * F i p.2) / ‖p.1 - p.2‖ := by
  unfold quadForm coulombMat
  rw [show (volume : Measure (E3 × E3)) = (volume : Measure E3).prod volume from rfl,
    quad_integral _ (fun i j (p : E3 × E3) => F i p.1 * F j p.2 / ‖p.1 - p.2‖)
      (fun i j => integrable_coulomb_pair (hFm i) (hFm j) (hF i) (hF j))]
  refine integral_congr_ae (Filter.Eventually.of_forall fun p => ?_)
  simp only []
  rw [Finset.sum_mul_sum, Finset.sum_div]
  refine Finset.sum_congr rfl fun i _ => ?_
  rw [Finset.sum_div]
  refine Finset.sum_congr rfl fun j _ => ?_
  ring

/-- **The Coulomb matrix of measurable Gaussian-bounded densities is positive semi-definite.** -/
theorem coulomb_psd (F : ι → E3 → ℝ) (hFm : ∀ i, AEStronglyMeasurable (F i) volume)
    (hF : ∀ i, GaussBdd (F i)) (x : ι → ℝ) :
    0 ≤ quadForm (coulombMat F) x := by
  rw [coulomb_quadForm_eq F hFm hF]
  have hm : AEStronglyMeasurable (fun r : E3 => ∑ i, x i * F i r) volume :=
    Finset.aestronglyMeasurable_fun_sum _ fun i _ => (hFm i).const_mul (x i)
  have hb : GaussBdd (fun r : E3 => ∑ i, x i * F i r) :=
    GaussBdd.sum _ _ fun i _ => (hF i).const_mul (x i)
  exact coulomb_kernel_nonneg (fun r : E3 => ∑ i, x i * F i r) (hb.integrable hm)
    (integrable_coulomb_pair hm hm hb hb)

omit [Fintype ι] in
theorem coulombMat_symm (F : ι → E3 → ℝ) (i j : ι) : coulombMat F i j = coulombMat F j i := by
  unfold coulombMat
  rw [show (volume : Measure (E3 × E3)) = (volume : Measure E3).prod volume from rfl,
    ← integral_prod_swap (fun p : E3 × E3 => F i p.1 * F j p.2 / ‖p.1 - p.2‖)]
  refine integral_congr_ae (Filter.Eventually.of_forall fun p => ?_)
  simp only [Prod.fst_swap, Prod.snd_swap]
  rw [norm_sub_rev, mul_comm]

/-- **Schwarz inequality for the Coulomb matrix**: `|M_ij| ≤ √M_ii √M_jj` -/
theorem coulomb_abs_le [DecidableEq ι] (F : ι → E3 → ℝ)
    (hFm : ∀ i, AEStronglyMeasurable (F i) volume) (hF : ∀ i, GaussBdd (F i)) (i j : ι) :
    |coulombMat F i j| ≤ √(coulombMat F i i) * √(coulombMat F j j) :=
  psd_abs_le _ (coulombMat_symm F) (coulomb_psd F hFm hF) i j

/-- iterated-integral form: `0 ≤ ∫ (∫ ρ(r₁) ρ(r₂) / |r₁-r₂| dr₂) dr₁` for a measurable
Gaussian-bounded density -/
theorem coulomb_energy_nonneg (ρ : E3 → ℝ) (hm : AEStronglyMeasurable ρ volume) (hb : GaussBdd ρ) :
    0 ≤ ∫ r1 : E3, ∫ r2 : E3, ρ r1 * ρ r2 / ‖r1 - r2‖ := by
  have hFF := integrable_coulomb_pair hm hm hb hb
  have h := coulomb_kernel_nonneg ρ (hb.integrable hm) hFF
  rw [show (volume : Measure (E3 × E3)) = (volume : Measure E3).prod volume from rfl,
    integral_prod _ hFF] at h
  exact h

/-- pair density `φ_a φ_b` of two contracted functions -/
noncomputable def pairDensity (s t : Shell ℝ) (ma ca mb cb : ℕ) (r : E3) : ℝ :=
  shellFnE s ma ca r * shellFnE t mb cb r

lemma continuous_pairDensity (s t : Shell ℝ) (ma ca mb cb : ℕ) :
    Continuous (pairDensity s t ma ca mb cb) :=
  (continuous_shellFnE s ma ca).mul (continuous_shellFnE t mb cb)

lemma gaussBdd_pairDensity (s t : Shell ℝ) (ma ca mb cb : ℕ)
    (hs : ∀ k, k < s.nprim → 0 < s.exp! k) (ht : ∀ k, k < t.nprim → 0 < t.exp! k) :
    GaussBdd (pairDensity s t ma ca mb cb) :=
  (gaussBdd_shellFnE s ma ca hs).mul (gaussBdd_shellFnE t mb cb ht)

/-- the exact electron-repulsion integral `(ab|cd) = ∬ φ_a φ_b (r₁) φ_c φ_d (r₂) / |r₁-r₂|` of
contracted primitive-normalised functions -/
noncomputable def eriExact (sa sb sc sd : Shell ℝ) (ma ca mb cb mc cc md cd : ℕ) : ℝ :=
  ∫ p : E3 × E3, pairDensity sa sb ma ca mb cb p.1 * pairDensity sc sd mc cc md cd p.2
    / ‖p.1 - p.2‖

/-- **The exact electron-repulsion array, as a matrix over index pairs, is positive
semi-definite**: for any finite family of pairs `(a_i, b_i)`,
`Σ_{ij} x_i (a_i b_i | a_j b_j) x_j ≥ 0`. -/
theorem eriExact_psd (sa sb : ι → Shell ℝ) (ma ca mb cb : ι → ℕ)
    (hsa : ∀ i, ∀ k, k < (sa i).nprim → 0 < (sa i).exp! k)
    (hsb : ∀ i, ∀ k, k < (sb i).nprim → 0 < (sb i).exp! k) (x : ι → ℝ) :
    0 ≤ ∑ i, ∑ j, x i * eriExact (sa i) (sb i) (sa j) (sb j) (ma i) (ca i) (mb i) (cb i)
        (ma j) (ca j) (mb j) (cb j) * x j :=
  coulomb_psd (fun i => pairDensity (sa i) (sb i) (ma i) (ca i) (mb i) (cb i))
    (fun _ => (continuous_pairDensity _ _ _ _ _ _).aestronglyMeasurable)
    (fun i => gaussBdd_pairDensity _ _ _ _ _ _ (hsa i) (hsb i)) x

/-- `(ab|ab) ≥ 0` -/
theorem eriExact_self_nonneg (sa sb : Shell ℝ) (ma ca mb cb : ℕ)
    (hsa : ∀ k, k < sa.nprim → 0 < sa.exp! k) (hsb : ∀ k, k < sb.nprim → 0 < sb.exp! k) :
    0 ≤ eriExact sa sb sa sb ma ca mb cb ma ca mb cb :=
  coulomb_kernel_nonneg (pairDensity sa sb ma ca mb cb)
    ((gaussBdd_pairDensity _ _ _ _ _ _ hsa hsb).integrable
      (continuous_pairDensity _ _ _ _ _ _).aestronglyMeasurable)
    (integrable_coulomb_pair (continuous_pairDensity _ _ _ _ _ _).aestronglyMeasurable
      (continuous_pairDensity _ _ _ _ _ _).aestronglyMeasurable
      (gaussBdd_pairDensity _ _ _ _ _ _ hsa hsb) (gaussBdd_pairDensity _ _ _ _ _ _ hsa hsb))

/-- **Schwarz screening bound** `|(ab|cd)| ≤ √(ab|ab) √(cd|cd)` for the exact integrals -/
theorem eriExact_schwarz (sa sb sc sd : Shell ℝ) (ma ca mb cb mc cc md cd : ℕ)
    (hsa : ∀ k, k < sa.nprim → 0 < sa.exp! k) (hsb : ∀ k, k < sb.nprim → 0 < sb.exp! k)
    (hsc : ∀ k, k < sc.nprim → 0 < sc.exp! k) (hsd : ∀ k, k < sd.nprim → 0 < sd.exp! k) :
    |eriExact sa sb sc sd ma ca mb cb mc cc md cd|
      ≤ √(eriExact sa sb sa sb ma ca mb cb ma ca mb cb)
        * √(eriExact sc sd sc sd mc cc md cd mc cc md cd) := by
  have h := coulomb_abs_le (ι := Fin 2)
    ![pairDensity sa sb ma ca mb cb, pairDensity sc sd mc cc md cd]
    (by
      intro i; fin_cases i
      · exact (continuous_pairDensity sa sb ma ca mb cb).aestronglyMeasurable
      · exact (continuous_pairDensity sc sd mc cc md cd).aestronglyMeasurable)
    (by
      intro i; fin_cases i
      · exact gaussBdd_pairDensity sa sb ma ca mb cb hsa hsb
      · exact gaussBdd_pairDensity sc sd mc cc md cd hsc hsd) 0 1
  simpa [coulombMat, eriExact] using h

end CoulombGram

end GB

