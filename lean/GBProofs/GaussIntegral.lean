import GBProofs.GaussFunctional
import Mathlib.Analysis.SpecialFunctions.Gaussian.GaussianIntegral
import Mathlib.MeasureTheory.Integral.IntegralEqImproper
import Mathlib.Analysis.Calculus.Deriv.Polynomial

/-!
# The algebraic Gaussian functional is the Lebesgue integral (over ℝ)

`∫ q(x) e^{-b x²} dx = √(π/b) · G b q` for every real polynomial `q`, and the
Gaussian product rule which turns a product of two shifted Gaussians with
polynomial prefactors into that form.
-/
open MeasureTheory Real Polynomial

namespace GB

lemma integrable_pow_mul_gauss {b : ℝ} (hb : 0 < b) (n : ℕ) :
    Integrable fun x : ℝ => x ^ n * exp (-b * x ^ 2) := by
  have h := integrable_rpow_mul_exp_neg_mul_sq hb (s := (n : ℝ))
    (by have : (0:ℝ) ≤ n := Nat.cast_nonneg n; linarith)
  simpa [Real.rpow_natCast] using h

lemma integrable_poly_mul_gauss {b : ℝ} (hb : 0 < b) (q : ℝ[X]) :
    Integrable fun x : ℝ => q.eval x * exp (-b * x ^ 2) := by
  induction q using Polynomial.induction_on' with
  | add p q hp hq =>
    refine (hp.add hq).congr (Filter.Eventually.of_forall fun x => ?_)
    simp [add_mul]
  | monomial n a =>
    simpa [mul_assoc] using (integrable_pow_mul_gauss hb n).const_mul a

/-- integration by parts against a Gaussian weight -/
theorem gauss_ibp {b : ℝ} (hb : 0 < b) (q : ℝ[X]) :
    ∫ x : ℝ, (q.derivative.eval x - 2 * b * x * q.eval x) * exp (-b * x ^ 2) = 0 := by
  apply integral_eq_zero_of_hasDerivAt_of_integrable (f := fun x => q.eval x * exp (-b * x^2))
  · intro x
    have h1 := q.hasDerivAt x
    have h2 : HasDerivAt (fun x : ℝ => exp (-b * x ^ 2)) (exp (-b * x^2) * (-b * (2 * x))) x := by
      have := ((hasDerivAt_pow 2 x).const_mul (-b)).exp
      simpa using this
    have h3 := h1.mul h2
    have e : (eval x (derivative q) - 2 * b * x * eval x q) * rexp (-b * x ^ 2) =
      eval x (derivative q) * rexp (-b * x ^ 2) + eval x q * (rexp (-b * x ^ 2) * (-b * (2 * x))) := by ring
    rw [e]
    exact h3
  · have := integrable_poly_mul_gauss hb (q.derivative - C (2*b) * X * q)
    simpa using this
  · exact integrable_poly_mul_gauss hb q

/-- moments of the Gaussian weight -/
theorem integral_pow_mul_gauss {b : ℝ} (hb : 0 < b) (n : ℕ) :
    ∫ x : ℝ, x ^ n * exp (-b * x ^ 2) = √(π / b) * gmom b n := by
  induction n using Nat.strong_induction_on with
  | _ n ih =>
    match n with
    | 0 => simpa [gmom] using integral_gaussian b
    | 1 =>
      have h := gauss_ibp hb (1 : ℝ[X])
      simp only [derivative_one, eval_zero, eval_one, mul_one, zero_sub] at h
      have h' : ∫ x : ℝ, x ^ 1 * exp (-b * x ^ 2) = (-(1 / (2*b))) * ∫ x : ℝ, -(2 * b * x) * exp (-b * x ^ 2) := by
        rw [← integral_const_mul]
        congr 1; ext x; field_simp
      rw [h', h]; simp [gmom]
    | (k+2) =>
      have h := gauss_ibp hb (X ^ (k+1) : ℝ[X])
      have h1 : ∀ x : ℝ, ((derivative (X ^ (k+1) : ℝ[X])).eval x - 2 * b * x * (X ^ (k+1) : ℝ[X]).eval x) * exp (-b * x ^ 2)
          = ((k:ℝ)+1) * (x ^ k * exp (-b * x^2)) - 2 * b * (x ^ (k+2) * exp (-b * x^2)) := by
        intro x; simp [derivative_X_pow]; ring
      simp_rw [h1] at h
      rw [integral_sub ((integrable_pow_mul_gauss hb k).const_mul _) ((integrable_pow_mul_gauss hb (k+2)).const_mul _),
        integral_const_mul, integral_const_mul, ih k (by omega)] at h
      generalize (∫ x : ℝ, x ^ (k+2) * exp (-b * x ^ 2)) = I at h ⊢
      have hI : I = ((k:ℝ)+1) * (√(π / b) * gmom b k) / (2 * b) := by
        field_simp; linarith
      rw [hI]; simp only [gmom]; field_simp

/-- **Analytic anchor.** The algebraic functional is the integral. -/
theorem integral_poly_mul_gauss {b : ℝ} (hb : 0 < b) (q : ℝ[X]) :
    ∫ x : ℝ, q.eval x * exp (-b * x ^ 2) = √(π / b) * G b q := by
  induction q using Polynomial.induction_on' with
  | add p q hp hq =>
    simp only [eval_add, add_mul, map_add, mul_add]
    rw [integral_add (integrable_poly_mul_gauss hb p) (integrable_poly_mul_gauss hb q), hp, hq]
  | monomial n a =>
    simp only [eval_monomial, G_monomial, mul_assoc]
    rw [integral_const_mul, integral_pow_mul_gauss hb]; ring

/-- **One-dimensional factor of every separable integral of the library.**
For exponents `a, b > 0`, centres `A, B`, a third point `Cc` and powers `i, j, k`:
`∫ (x-A)^i (x-B)^j (x-Cc)^k e^{-a(x-A)²} e^{-b(x-B)²} dx
   = √(π/p) e^{-μ(A-B)²} · S3 p (P-A) (P-B) (P-Cc) i j k`,
with `p = a+b`, `μ = ab/p`, `P = (aA+bB)/p` — exactly `base · S3` of the model's `pair1D`. -/
theorem gauss_product_integral (a b A B Cc : ℝ) (ha : 0 < a) (hb : 0 < b) (i j k : ℕ) :
    ∫ x : ℝ, (x - A)^i * (x - B)^j * (x - Cc)^k * (exp (-a * (x - A)^2) * exp (-b * (x - B)^2))
      = √(π / (a + b)) * exp (-(a * b / (a + b) * ((A - B) * (A - B))))
          * S3 (a + b) ((a * A + b * B) / (a + b) - A) ((a * A + b * B) / (a + b) - B)
              ((a * A + b * B) / (a + b) - Cc) i j k := by
  have hp : 0 < a + b := by linarith
  set p := a + b with hpdef
  set P := (a * A + b * B) / p with hP
  -- translate by P
  rw [← integral_add_right_eq_self (μ := volume) _ P]
  have key : ∀ t : ℝ, (t + P - A)^i * (t + P - B)^j * (t + P - Cc)^k
        * (exp (-a * (t + P - A)^2) * exp (-b * (t + P - B)^2))
      = exp (-(a * b / p * ((A - B) * (A - B)))) *
          (((X + C (P - A))^i * (X + C (P - B))^j * (X + C (P - Cc))^k : ℝ[X]).eval t
            * exp (-p * t^2)) := by
    intro t
    have e1 : exp (-a * (t + P - A)^2) * exp (-b * (t + P - B)^2)
        = exp (-(a * b / p * ((A - B) * (A - B)))) * exp (-p * t^2) := by
      rw [← Real.exp_add, ← Real.exp_add]
      congr 1
      rw [hP]
      field_simp
      ring
    rw [e1]
    simp only [eval_mul, eval_pow, eval_add, eval_X, eval_C]
    ring
  simp_rw [key]
  rw [integral_const_mul, integral_poly_mul_gauss hp]
  unfold S3
  ring

end GB
