import GBProofs.MomTab
import GBProofs.RealInst
import Mathlib.Algebra.Polynomial.Derivative
import Mathlib.Algebra.Polynomial.Eval.Defs
import Mathlib.Algebra.BigOperators.Intervals
import Mathlib.Data.Nat.Choose.Sum
import Mathlib.Data.Nat.Factorial.Basic
import Mathlib.Analysis.Calculus.Deriv.Polynomial
import Mathlib.Analysis.Calculus.IteratedDeriv.Defs
import Mathlib.Analysis.SpecialFunctions.ExpDeriv
import Mathlib.Tactic.Ring
import Mathlib.Tactic.Linarith
import Mathlib.Tactic.NormNum

/-!
# Derivatives of `x^a e^{-αx²}`: the two back-ends of `gbasis/evals/_deriv.py` against the spec

* `Pn c a n` — the polynomial with `d^n/dx^n (x^a e^{-c x²}) = Pn c a n (x) · e^{-c x²}`
  (`Pn_hasDerivAt`, `iteratedDeriv_gauss`);
* `axisGeneral_eq` — the Hermite-expansion back-end equals the spec for every `a`, `n`, `x`;
* `directFirst_eq`, `directSecond_eq`, `axisDirect_eq` — the written-out back-end equals the spec
  for orders `≤ 2` when the shell flags are truthful; `axisDirect_three_ne_spec` — and does not
  for order 3;
* `defaultCart_any_eq_one`, `defaultCart_any_ge_two` — the flags are truthful for full shells;
* `dispatch_general`, `dispatch_direct`, `dispatch_direct_iff`, `dispatch_other` — decision logic.
-/

open Polynomial Finset

namespace GB

/-! ## Twisted Leibniz rule -/
section Leibniz
variable {R : Type} [CommRing R]

/-- polynomial part of `d/dx` acting on `q(x)·exp(-c x²)`: `D q = q' - 2c X q` -/
noncomputable def D (c : R) (q : R[X]) : R[X] := derivative q - C (2 * c) * X * q

/-- `E h` = polynomial part of `d^h/dx^h exp(-c x²)` -/
noncomputable def E (c : R) : ℕ → R[X]
  | 0 => 1
  | h+1 => D c (E c h)

lemma D_mul (c : R) (q e : R[X]) : D c (q * e) = derivative q * e + q * D c e := by
  simp only [D, derivative_mul]; ring

lemma D_add (c : R) (a b : R[X]) : D c (a + b) = D c a + D c b := by
  simp only [D, derivative_add]; ring

lemma D_sum (c : R) {ι : Type} (s : Finset ι) (g : ι → R[X]) :
    D c (∑ i ∈ s, g i) = ∑ i ∈ s, D c (g i) := by
  classical
  induction s using Finset.induction_on with
  | empty => simp [D]
  | insert a s ha ih => rw [Finset.sum_insert ha, Finset.sum_insert ha, D_add, ih]

lemma D_natCast_mul (c : R) (n : ℕ) (q : R[X]) : D c ((n : R[X]) * q) = (n : R[X]) * D c q := by
  simp only [D, derivative_mul, derivative_natCast]; ring

/-- twisted Leibniz rule: the general back-end's sum over Hermite terms -/
theorem D_iterate_mul (c : R) (q : R[X]) (n : ℕ) :
    (D c)^[n] (q * E c 0)
      = ∑ h ∈ range (n + 1), (n.choose h : R[X]) * (derivative^[n - h] q) * E c h := by
  induction n with
  | zero => simp [E]
  | succ n ih =>
    rw [Function.iterate_succ_apply', ih, D_sum]
    have step : ∀ h ∈ range (n + 1),
        D c ((n.choose h : R[X]) * (derivative^[n - h] q) * E c h)
          = (n.choose h : R[X]) * (derivative^[n - h + 1] q) * E c h
            + (n.choose h : R[X]) * (derivative^[n - h] q) * E c (h + 1) := by
      intro h _
      rw [mul_assoc, D_natCast_mul, D_mul, Function.iterate_succ_apply']
      simp only [E]; ring
    rw [Finset.sum_congr rfl step, Finset.sum_add_distrib]
    rw [Finset.sum_range_succ'
      (fun h => ((n + 1).choose h : R[X]) * derivative^[n + 1 - h] q * E c h) (n + 1)]
    rw [Finset.sum_range_succ'
      (fun h => (n.choose h : R[X]) * derivative^[n - h + 1] q * E c h) n]
    have e1 : ∑ h ∈ range (n + 1),
          ((n + 1).choose (h + 1) : R[X]) * derivative^[n + 1 - (h + 1)] q * E c (h + 1)
        = ∑ h ∈ range n, (n.choose (h + 1) : R[X]) * derivative^[n - (h + 1) + 1] q * E c (h + 1)
          + ∑ h ∈ range (n + 1), (n.choose h : R[X]) * derivative^[n - h] q * E c (h + 1) := by
      have ext : ∑ h ∈ range n,
            (n.choose (h + 1) : R[X]) * derivative^[n - (h + 1) + 1] q * E c (h + 1)
          = ∑ h ∈ range (n + 1),
            (n.choose (h + 1) : R[X]) * derivative^[n - (h + 1) + 1] q * E c (h + 1) := by
        rw [Finset.sum_range_succ]; simp
      rw [ext, ← Finset.sum_add_distrib]
      apply Finset.sum_congr rfl
      intro h hh
      have hh' : h < n + 1 := by simpa using hh
      rw [Nat.choose_succ_succ' n h]
      have : n + 1 - (h + 1) = n - h := by omega
      rw [this]
      by_cases hn : h < n
      · have : n - (h + 1) + 1 = n - h := by omega
        rw [this]; push_cast; ring
      · have : h = n := by omega
        subst this
        simp
    rw [e1]
    simp only [Nat.choose_zero_right, Nat.cast_one, one_mul, Nat.sub_zero]
    ring

/-! ## The specification polynomial -/

/-- `Pn c a n (x) · e^{-c x²} = d^n/dx^n (x^a e^{-c x²})` -/
noncomputable def Pn (c : R) (a : ℕ) : ℕ → R[X]
  | 0 => X ^ a
  | n+1 => derivative (Pn c a n) - C (2 * c) * X * Pn c a n

@[simp] theorem Pn_zero (c : R) (a : ℕ) : Pn c a 0 = X ^ a := rfl
theorem Pn_succ (c : R) (a n : ℕ) :
    Pn c a (n+1) = derivative (Pn c a n) - C (2 * c) * X * Pn c a n := rfl

theorem Pn_eq_iterate (c : R) (a n : ℕ) : Pn c a n = (D c)^[n] (X ^ a) := by
  induction n with
  | zero => rfl
  | succ n ih => rw [Function.iterate_succ_apply', ← ih]; rfl

/-- the spec polynomial as the Leibniz sum -/
theorem Pn_eq_sum (c : R) (a n : ℕ) :
    Pn c a n = ∑ h ∈ range (n + 1),
      (n.choose h : R[X]) * ((a.descFactorial (n - h) : R[X]) * X ^ (a - (n - h))) * E c h := by
  rw [Pn_eq_iterate]
  have := D_iterate_mul c (X ^ a) n
  simp only [E, mul_one] at this
  rw [this]
  apply Finset.sum_congr rfl
  intro h _
  rw [iterate_derivative_X_pow_eq_natCast_mul]

/-! ## Hermite polynomials -/

/-- physicists' Hermite polynomials -/
noncomputable def Hpoly : ℕ → R[X]
  | 0 => 1
  | 1 => 2 * X
  | n+2 => 2 * X * Hpoly (n+1) - (2 * ((n : R[X]) + 1)) * Hpoly n

theorem Hpoly_zero : (Hpoly 0 : R[X]) = 1 := rfl
theorem Hpoly_one : (Hpoly 1 : R[X]) = 2 * X := rfl
theorem Hpoly_succ_succ (n : ℕ) :
    (Hpoly (n+2) : R[X]) = 2 * X * Hpoly (n+1) - (2 * ((n : R[X]) + 1)) * Hpoly n := rfl

/-- `H_{n+1}' = 2(n+1) H_n` -/
theorem derivative_Hpoly_succ (n : ℕ) :
    derivative (Hpoly (n+1) : R[X]) = (2 * ((n : R[X]) + 1)) * Hpoly n := by
  induction n using Nat.twoStepInduction with
  | zero => simp [Hpoly_one, Hpoly_zero]
  | one =>
    rw [Hpoly_succ_succ 0]
    simp [Hpoly_one, Hpoly_zero, derivative_mul]
    ring
  | more n ih1 ih2 =>
    rw [Hpoly_succ_succ (n+1)]
    simp only [derivative_sub, derivative_mul, derivative_X, derivative_ofNat, derivative_add,
      derivative_natCast, derivative_one, ih1, ih2]
    rw [Hpoly_succ_succ n]
    push_cast
    ring

/-- `H_{h+1} = 2X H_h − H_h'` -/
theorem Hpoly_succ_eq (h : ℕ) :
    (Hpoly (h+1) : R[X]) = 2 * X * Hpoly h - derivative (Hpoly h) := by
  cases h with
  | zero => simp [Hpoly_one, Hpoly_zero]
  | succ k => rw [derivative_Hpoly_succ, Hpoly_succ_succ]

/-- `E_h(x) = (−r)^h H_h(r x)` when `c = r²` -/
theorem E_eq_Hpoly (r : R) (h : ℕ) :
    E (r * r) h = C ((-r) ^ h) * (Hpoly h).comp (C r * X) := by
  induction h with
  | zero => simp [E, Hpoly_zero]
  | succ h ih =>
    rw [E, D, ih, Hpoly_succ_eq, derivative_C_mul, derivative_comp]
    have h2 : (C (2 * (r * r)) : R[X]) = 2 * (C r * C r) := by
      rw [map_mul, map_mul]; rfl
    have h3 : (C ((-r) ^ (h + 1)) : R[X]) = C ((-r) ^ h) * (-(C r)) := by
      rw [pow_succ, map_mul, map_neg]
    have h4 : derivative (C r * X : R[X]) = C r := by simp
    have h5 : (2 * X * Hpoly h - derivative (Hpoly h) : R[X]).comp (C r * X)
        = 2 * (C r * X) * (Hpoly h).comp (C r * X) - (derivative (Hpoly h)).comp (C r * X) := by
      simp [sub_comp, mul_comp]
    rw [h2, h3, h4, h5]
    ring

theorem eval_E (r x : R) (h : ℕ) :
    (E (r * r) h).eval x = (-r) ^ h * (Hpoly h).eval (r * x) := by
  rw [E_eq_Hpoly]; simp [eval_comp]

end Leibniz

/-! ## The model's combinatorial helpers and Hermite values -/

theorem choose_eq_choose (n k : ℕ) : GB.choose n k = Nat.choose n k := by
  induction n generalizing k with
  | zero => cases k <;> simp [GB.choose]
  | succ n ih => cases k with
    | zero => simp [GB.choose]
    | succ k => simp [GB.choose, ih, Nat.choose_succ_succ]

theorem perm_eq_descFactorial (n k : ℕ) : GB.perm n k = Nat.descFactorial n k := by
  induction n generalizing k with
  | zero => cases k <;> simp [GB.perm]
  | succ n ih => cases k with
    | zero => simp [GB.perm]
    | succ k => rw [GB.perm, ih, Nat.succ_descFactorial_succ]

section Model
variable {K : Type} [Field K] [CharZero K]

/-- the model's `hermite` (two-term recursion through `lin2`) is the Hermite polynomial -/
theorem hermite_eq (y : K) (h : ℕ) : hermite y h = (Hpoly h).eval y := by
  unfold hermite
  rw [lin2_spec _ _ _ (fun h => (Hpoly h).eval y)]
  · simp [Hpoly_zero]
  · simp [Hpoly_one]
  · intro n
    simp only [Hpoly_succ_succ, num_nat, eval_sub, eval_mul, eval_ofNat, eval_X, eval_add,
      eval_natCast, eval_one]
    push_cast
    ring

theorem hermite_zero (y : K) : hermite y 0 = 1 := by simp [hermite_eq, Hpoly_zero]
theorem hermite_one (y : K) : hermite y 1 = 2 * y := by simp [hermite_eq, Hpoly_one]
theorem hermite_succ_succ (y : K) (h : ℕ) :
    hermite y (h+2) = 2 * y * hermite y (h+1) - 2 * ((h : K) + 1) * hermite y h := by
  simp [hermite_eq, Hpoly_succ_succ]

end Model

/-! ## The direct back-end (orders 1 and 2) -/

/-- first derivative of the direct back-end = spec, every exponent -/
theorem directFirst_eq (α x : ℝ) (a : ℕ) : directFirst α x a = (Pn α a 1).eval x := by
  unfold directFirst
  cases a with
  | zero => simp [Pn_succ]
  | succ k =>
    simp [Pn_succ, powN_eq_pow]
    ring

/-- second derivative of the direct back-end = spec, when the shell flags are truthful for this
exponent -/
theorem directSecond_eq (α x : ℝ) (a : ℕ) (has1 has2 : Bool)
    (h1 : a = 1 → has1 = true) (h2 : 2 ≤ a → has1 = true ∧ has2 = true) :
    directSecond α x a has1 has2 = (Pn α a 2).eval x := by
  unfold directSecond
  match a, h1, h2 with
  | 0, _, _ =>
    cases has1 <;> simp [Pn_succ] <;> ring
  | 1, h1, _ =>
    simp [h1 rfl, Pn_succ, derivative_mul]
    ring
  | k+2, _, h2 =>
    obtain ⟨e1, e2⟩ := h2 (by omega)
    simp [e1, e2, Pn_succ, powN_eq_pow, derivative_mul]
    ring


/-! ## The spec is the derivative (over ℝ) -/

/-- one differentiation step: `d/dx (P_n(x) e^{-αx²}) = P_{n+1}(x) e^{-αx²}` -/
theorem Pn_hasDerivAt (α : ℝ) (a n : ℕ) (x : ℝ) :
    HasDerivAt (fun x => (Pn α a n).eval x * Real.exp (-(α * (x * x))))
      ((Pn α a (n+1)).eval x * Real.exp (-(α * (x * x)))) x := by
  have h1 := (Pn α a n).hasDerivAt x
  have h2 : HasDerivAt (fun x : ℝ => -(α * (x * x))) (-(α * (1 * x + x * 1))) x :=
    (((hasDerivAt_id' x).mul (hasDerivAt_id' x)).const_mul α).neg
  have h4 : HasDerivAt (fun x => (Pn α a n).eval x * Real.exp (-(α * (x * x)))) _ x :=
    h1.mul h2.exp
  refine h4.congr_deriv ?_
  simp only [Pn_succ, eval_sub, eval_mul, eval_C, eval_X]
  ring

/-- **the `n`-th derivative of `x ↦ x^a e^{-αx²}` is `P_n(x) e^{-αx²}`** -/
theorem iteratedDeriv_gauss (α : ℝ) (a n : ℕ) :
    iteratedDeriv n (fun x : ℝ => x ^ a * Real.exp (-(α * (x * x))))
      = fun x => (Pn α a n).eval x * Real.exp (-(α * (x * x))) := by
  induction n with
  | zero => simp [iteratedDeriv_zero]
  | succ n ih =>
    rw [iteratedDeriv_succ, ih]
    funext x
    exact (Pn_hasDerivAt α a n x).deriv

/-! ## The general back-end equals the spec -/

theorem derivPolyGeneral_eq (α x : ℝ) (hα : 0 ≤ α) (a n : ℕ) :
    derivPolyGeneral α x a n = (Pn α a n).eval x := by
  have hr : Real.sqrt α * Real.sqrt α = α := Real.mul_self_sqrt hα
  unfold derivPolyGeneral
  simp only [Transc.sqrt]
  rw [sumN_eq_sum, Pn_eq_sum, eval_finsetSum]
  apply Finset.sum_congr rfl
  intro h hh
  have hh' : h ≤ n := Nat.lt_succ_iff.mp (Finset.mem_range.mp hh)
  have hE : (E α h).eval x = (-Real.sqrt α) ^ h * (Hpoly h).eval (Real.sqrt α * x) := by
    have := eval_E (Real.sqrt α) x h
    rwa [hr] at this
  simp only [eval_mul, eval_natCast, eval_pow, eval_X, hE, powN_eq_pow, hermite_eq, num_nat,
    choose_eq_choose, perm_eq_descFactorial]
  split_ifs with hlt
  · have : a.descFactorial (n - h) = 0 := Nat.descFactorial_eq_zero_iff_lt.mpr (by omega)
    simp [this]
  · have : a + h - n = a - (n - h) := by omega
    rw [this]; ring

/-- **`general_eq`**: one axis of the general (Hermite expansion) back-end is the `n`-th derivative
of `x^a e^{-αx²}`, for every exponent, order and point (`x = 0` included) -/
theorem axisGeneral_eq (α x : ℝ) (hα : 0 ≤ α) (a n : ℕ) :
    axisGeneral α x a n = (Pn α a n).eval x * Real.exp (-(α * (x * x))) := by
  unfold axisGeneral
  simp only [Transc.exp]
  split_ifs with hn
  · subst hn; simp [powN_eq_pow]
  · rw [derivPolyGeneral_eq α x hα, mul_comm]

theorem axisGeneral_eq_iteratedDeriv (α x : ℝ) (hα : 0 ≤ α) (a n : ℕ) :
    axisGeneral α x a n
      = iteratedDeriv n (fun x : ℝ => x ^ a * Real.exp (-(α * (x * x)))) x := by
  rw [axisGeneral_eq α x hα, iteratedDeriv_gauss]

/-! ## The direct back-end equals the spec for orders `≤ 2` only -/

/-- one axis of the direct back-end is the spec for orders 0, 1, 2 (truthful flags) -/
theorem axisDirect_eq_spec (α x : ℝ) (a n : ℕ) (has1 has2 : Bool) (hn : n ≤ 2)
    (h1 : a = 1 → has1 = true) (h2 : 2 ≤ a → has1 = true ∧ has2 = true) :
    axisDirect α x a n has1 has2 = (Pn α a n).eval x * Real.exp (-(α * (x * x))) := by
  unfold axisDirect
  simp only [Transc.exp]
  match n, hn with
  | 0, _ => simp [powN_eq_pow]
  | 1, _ => simp [directFirst_eq]
  | 2, _ => simp [directSecond_eq α x a has1 has2 h1 h2]

/-- **`direct_eq`**: for orders `≤ 2` and truthful flags both back-ends agree -/
theorem axisDirect_eq (α x : ℝ) (hα : 0 ≤ α) (a n : ℕ) (has1 has2 : Bool) (hn : n ≤ 2)
    (h1 : a = 1 → has1 = true) (h2 : 2 ≤ a → has1 = true ∧ has2 = true) :
    axisDirect α x a n has1 has2 = axisGeneral α x a n := by
  rw [axisDirect_eq_spec α x a n has1 has2 hn h1 h2, axisGeneral_eq α x hα]

/-- for an order above 2 the direct back-end leaves the axis out of the product -/
theorem axisDirect_gt_two (α x : ℝ) (a n : ℕ) (has1 has2 : Bool) (hn : 2 < n) :
    axisDirect α x a n has1 has2 = 1 := by
  unfold axisDirect
  have h0 : n ≠ 0 := by omega
  have h1 : n ≠ 1 := by omega
  have h2 : n ≠ 2 := by omega
  simp [h0, h1, h2]

theorem Pn_one_one_three : (Pn (1 : ℝ) 1 3) = -6 + 24 * X ^ 2 - 8 * X ^ 4 := by
  simp only [Pn_succ, Pn_zero]
  simp [derivative_mul, C_ofNat]
  ring

/-- why the dispatcher must reject orders above 2: the direct value is 1, the third derivative of
`x e^{-x²}` at `x = 1/2` is `-e^{-1/4}/2 < 0`. -/
theorem axisDirect_three_ne_spec (has1 has2 : Bool) :
    axisDirect (1 : ℝ) (1/2) 1 3 has1 has2 = 1 ∧
    axisGeneral (1 : ℝ) (1/2) 1 3 < 0 ∧
    axisDirect (1 : ℝ) (1/2) 1 3 has1 has2 ≠ axisGeneral (1 : ℝ) (1/2) 1 3 := by
  have hd := axisDirect_gt_two 1 (1/2) 1 3 has1 has2 (by norm_num)
  have hg : axisGeneral (1 : ℝ) (1/2) 1 3 < 0 := by
    rw [axisGeneral_eq 1 (1/2) zero_le_one, Pn_one_one_three]
    have he := Real.exp_pos (-(1 * ((1:ℝ)/2 * (1/2))))
    have : eval ((1:ℝ)/2) (-6 + 24 * X ^ 2 - 8 * X ^ 4) = -(1/2) := by
      simp; norm_num
    rw [this]
    nlinarith
  refine ⟨hd, hg, ?_⟩
  rw [hd]
  intro h
  linarith

/-! ## The flags of `evalBlock` are truthful for a full shell -/

theorem mem_defaultCart (l : ℕ) (c : Comp) :
    c ∈ defaultCart l ↔ c.1 + c.2.1 + c.2.2 = l := by
  obtain ⟨x, y, z⟩ := c
  simp only [defaultCart, List.mem_flatMap, List.mem_map, List.mem_reverse, List.mem_range,
    Prod.mk.injEq]
  constructor
  · rintro ⟨x', hx', y', hy', rfl, rfl, rfl⟩
    omega
  · intro h
    exact ⟨x, by omega, y, by omega, rfl, rfl, by omega⟩

/-- a full shell with `l ≥ 1` has, on every axis, a component with exponent exactly 1 -/
theorem defaultCart_any_eq_one (l u : ℕ) (hl : 1 ≤ l) :
    (defaultCart l).any (fun c => c.ax u == 1) = true := by
  rw [List.any_eq_true]
  match u with
  | 0 => exact ⟨(1, l - 1, 0), (mem_defaultCart l _).mpr (by simp; omega), by simp [Comp.ax]⟩
  | 1 => exact ⟨(0, 1, l - 1), (mem_defaultCart l _).mpr (by simp; omega), by simp [Comp.ax]⟩
  | u+2 => exact ⟨(0, l - 1, 1), (mem_defaultCart l _).mpr (by simp; omega), by simp [Comp.ax]⟩

/-- a full shell with `l ≥ 2` has, on every axis, a component with exponent at least 2 -/
theorem defaultCart_any_ge_two (l u : ℕ) (hl : 2 ≤ l) :
    (defaultCart l).any (fun c => decide (c.ax u ≥ 2)) = true := by
  rw [List.any_eq_true]
  match u with
  | 0 => exact ⟨(2, l - 2, 0), (mem_defaultCart l _).mpr (by simp; omega), by simp [Comp.ax]⟩
  | 1 => exact ⟨(0, 2, l - 2), (mem_defaultCart l _).mpr (by simp; omega), by simp [Comp.ax]⟩
  | u+2 => exact ⟨(0, l - 2, 2), (mem_defaultCart l _).mpr (by simp; omega), by simp [Comp.ax]⟩

/-- **`flags_truthful_of_full_shell`**: with `has1`, `has2` computed from the full default shell as
`evalBlock` does, the hypotheses of `directSecond_eq` hold for every exponent `a ≥ 1` that can
occur (`a ≤ l`). -/
theorem flags_truthful_of_full_shell (l u a : ℕ) (ha : a ≤ l) :
    (a = 1 → (defaultCart l).any (fun c => c.ax u == 1) = true) ∧
    (2 ≤ a → (defaultCart l).any (fun c => c.ax u == 1) = true ∧
              (defaultCart l).any (fun c => decide (c.ax u ≥ 2)) = true) :=
  ⟨fun h => defaultCart_any_eq_one l u (by omega),
   fun h => ⟨defaultCart_any_eq_one l u (by omega), defaultCart_any_ge_two l u (by omega)⟩⟩

/-! ## Dispatch -/

theorem dispatch_general (o : Comp) : dispatch "general" o = .ok .general := by
  simp [dispatch]

theorem dispatch_direct (o : Comp) :
    dispatch "direct" o
      = if o.1 ≤ 2 ∧ o.2.1 ≤ 2 ∧ o.2.2 ≤ 2 then .ok .direct else .error "ValueError" := by
  have hne : ("direct" == "general") = false := by decide
  simp only [dispatch, hne]
  by_cases h : o.1 ≤ 2 ∧ o.2.1 ≤ 2 ∧ o.2.2 ≤ 2
  · obtain ⟨a, b, c⟩ := h
    have : (decide (o.1 > 2) || decide (o.2.1 > 2) || decide (o.2.2 > 2)) = false := by
      simp; omega
    simp [this, a, b, c]
  · have : (decide (o.1 > 2) || decide (o.2.1 > 2) || decide (o.2.2 > 2)) = true := by
      simp; omega
    simp [this, h]

theorem dispatch_direct_iff (o : Comp) :
    dispatch "direct" o = .ok .direct ↔ o.1 ≤ 2 ∧ o.2.1 ≤ 2 ∧ o.2.2 ≤ 2 := by
  rw [dispatch_direct]
  by_cases h : o.1 ≤ 2 ∧ o.2.1 ≤ 2 ∧ o.2.2 ≤ 2 <;> simp [h]

theorem dispatch_direct_error (o : Comp) (h : ¬ (o.1 ≤ 2 ∧ o.2.1 ≤ 2 ∧ o.2.2 ≤ 2)) :
    dispatch "direct" o = .error "ValueError" := by
  rw [dispatch_direct, if_neg h]

theorem dispatch_other (s : String) (o : Comp) (h1 : s ≠ "general") (h2 : s ≠ "direct") :
    dispatch s o = .error "ValueError" := by
  simp [dispatch, h1, h2]

/-- `dispatch` never returns anything but these three outcomes, and `direct` is only ever selected
for orders `≤ 2` on every axis -/
theorem dispatch_ok_direct (s : String) (o : Comp) (h : dispatch s o = .ok .direct) :
    s = "direct" ∧ o.1 ≤ 2 ∧ o.2.1 ≤ 2 ∧ o.2.2 ≤ 2 := by
  by_cases h1 : s = "general"
  · subst h1; rw [dispatch_general] at h; cases h
  · by_cases h2 : s = "direct"
    · subst h2; exact ⟨rfl, (dispatch_direct_iff o).mp h⟩
    · rw [dispatch_other s o h1 h2] at h; cases h

end GB

