import GBProofs.CoulombGeneral

/-!
# The Rys/Wick-form specification `Espec` with the true Boys function is the six-dimensional
Coulomb integral `[a0|c0]` of four primitive Gaussians
-/
open MeasureTheory Real Polynomial Set

namespace GB

/-! ## 1. Algebra: uniqueness of solutions of the RDK recurrences, evaluation of `rysET` -/
section Algebra
variable {R R' : Type*} [CommRing R] [CommRing R']

/-- a family satisfying both RDK recurrences is `I 0 0` times the Wick functional `Ws` -/
theorem rdk2_unique (c1 c2 a b c : R) (I : ℕ → ℕ → R) (hI : RDK2 c1 c2 a b c I) :
    ∀ n m, I n m = I 0 0 * Ws c1 c2 a b c n m := by
  have h0 : ∀ m, I 0 m = I 0 0 * Ws c1 c2 a b c 0 m := by
    intro m
    induction m using Nat.strong_induction_on with
    | _ m ih =>
      match m with
      | 0 => rw [Ws]; ring
      | 1 =>
        have := hI.c 0 0
        simp only [Nat.cast_zero, mul_zero, zero_mul, add_zero] at this
        rw [this, Ws]; ring
      | m+2 =>
        have := hI.c 0 (m+1)
        simp only [Nat.cast_zero, mul_zero, zero_mul, add_zero, Nat.add_sub_cancel] at this
        rw [this, ih (m+1) (by omega), ih m (by omega), Ws]
        push_cast
        ring
  intro n
  induction n using Nat.strong_induction_on with
  | _ n ih =>
    match n with
    | 0 => exact h0
    | n+1 =>
      intro m
      rw [hI.a n m, Ws_succ, ih n (by omega) m, ih (n-1) (by omega) m, ih n (by omega) (m-1)]
      ring

/-- ring homomorphisms commute with `Ws` -/
theorem map_Ws (φ : R →+* R') (c1 c2 a b c : R) (n m : ℕ) :
    φ (Ws c1 c2 a b c n m) = Ws (φ c1) (φ c2) (φ a) (φ b) (φ c) n m := by
  have h : RDK2 (φ c1) (φ c2) (φ a) (φ b) (φ c) (fun n m => φ (Ws c1 c2 a b c n m)) :=
    { a := fun n m => by
        have := congrArg φ ((Ws_rdk2 c1 c2 a b c).a n m)
        simpa using this
      c := fun n m => by
        have := congrArg φ ((Ws_rdk2 c1 c2 a b c).c n m)
        simpa using this }
  have := rdk2_unique _ _ _ _ _ _ h n m
  rw [this, Ws]
  simp

end Algebra

/-- evaluation of the two-electron Rys factor at a numeric point -/
theorem rysET_eval {K : Type} [Field K] (p q w w' PA QC PQ s : K) (n m : ℕ) :
    (rysET p q w w' PA QC PQ n m).eval s
      = Ws (PA - s * (w * PQ)) (QC + s * (w' * PQ)) ((1/(2*p)) * (1 - w * s))
          ((1/(2*(p+q))) * s) ((1/(2*q)) * (1 - w' * s)) n m := by
  have h := map_Ws (Polynomial.evalRingHom s) (C PA - X * C (w * PQ)) (C QC + X * C (w' * PQ))
    (C (1/(2*p)) * (1 - C w * X)) (C (1/(2*(p+q))) * X) (C (1/(2*q)) * (1 - C w' * X)) n m
  unfold rysET
  simp only [coe_evalRingHom, eval_mul, eval_sub, eval_add, eval_C, eval_X, eval_one] at h
  exact h

/-! ## 2. Two-variable Gaussian integrals -/

/-- two-variable Gaussian weight `e^{-p(x₁-P)²} e^{-q(x₂-Q)²} e^{-u²(x₁-x₂)²}` -/
noncomputable def G2 (p q P Q u : ℝ) (y : ℝ × ℝ) : ℝ :=
  exp (-p * (y.1 - P)^2) * exp (-q * (y.2 - Q)^2) * exp (-u^2 * (y.1 - y.2)^2)

/-- `f(x₁) g(x₂)` times the two-variable Gaussian weight -/
noncomputable def T2 (p q P Q u : ℝ) (f g : ℝ[X]) (y : ℝ × ℝ) : ℝ :=
  f.eval y.1 * g.eval y.2 * G2 p q P Q u y

lemma integrable_poly_gauss_shift {p : ℝ} (hp : 0 < p) (P : ℝ) (f : ℝ[X]) :
    Integrable fun x : ℝ => f.eval x * exp (-p * (x - P)^2) := by
  have h := (integrable_poly_mul_gauss hp (f.comp (X + C P))).comp_sub_right P
  refine h.congr (Filter.Eventually.of_forall fun x => ?_)
  simp [eval_comp]

lemma T2_continuous3 (p q P Q : ℝ) (f g : ℝ[X]) :
    Continuous fun z : ℝ × (ℝ × ℝ) => T2 p q P Q z.1 f g z.2 := by
  unfold T2 G2
  have hf : Continuous fun z : ℝ × (ℝ × ℝ) => f.eval z.2.1 :=
    f.continuous.comp (continuous_fst.comp continuous_snd)
  have hg : Continuous fun z : ℝ × (ℝ × ℝ) => g.eval z.2.2 :=
    g.continuous.comp (continuous_snd.comp continuous_snd)
  exact (hf.mul hg).mul (by fun_prop)

lemma T2_continuous (p q P Q u : ℝ) (f g : ℝ[X]) : Continuous (T2 p q P Q u f g) :=
  (T2_continuous3 p q P Q f g).comp (continuous_const.prodMk continuous_id)

lemma T2_eq_mul (p q P Q u : ℝ) (f g : ℝ[X]) (y : ℝ × ℝ) :
    T2 p q P Q u f g y = (f.eval y.1 * exp (-p * (y.1 - P)^2))
      * (g.eval y.2 * exp (-q * (y.2 - Q)^2)) * exp (-u^2 * (y.1 - y.2)^2) := by
  unfold T2 G2; ring

lemma T2_norm_le (p q P Q u : ℝ) (f g : ℝ[X]) (y : ℝ × ℝ) :
    ‖T2 p q P Q u f g y‖ ≤ ‖(f.eval y.1 * exp (-p * (y.1 - P)^2))
      * (g.eval y.2 * exp (-q * (y.2 - Q)^2))‖ := by
  rw [T2_eq_mul, norm_mul]
  have h1 : ‖exp (-u^2 * (y.1 - y.2)^2)‖ ≤ 1 := by
    rw [Real.norm_eq_abs, abs_of_pos (Real.exp_pos _), Real.exp_le_one_iff]
    nlinarith [sq_nonneg u, sq_nonneg (y.1 - y.2), mul_nonneg (sq_nonneg u) (sq_nonneg (y.1 - y.2))]
  exact mul_le_of_le_one_right (norm_nonneg _) h1

lemma T2_integrable {p q : ℝ} (hp : 0 < p) (hq : 0 < q) (P Q u : ℝ) (f g : ℝ[X]) :
    Integrable (T2 p q P Q u f g) (volume : Measure (ℝ × ℝ)) := by
  have h12 : Integrable (fun z : ℝ × ℝ => (f.eval z.1 * exp (-p * (z.1 - P)^2))
      * (g.eval z.2 * exp (-q * (z.2 - Q)^2))) ((volume : Measure ℝ).prod volume) :=
    (integrable_poly_gauss_shift hp P f).mul_prod (integrable_poly_gauss_shift hq Q g)
  exact h12.mono (T2_continuous p q P Q u f g).aestronglyMeasurable
    (Filter.Eventually.of_forall fun y => T2_norm_le p q P Q u f g y)

lemma T2_integrable_left {p : ℝ} (hp : 0 < p) (q P Q u : ℝ) (f g : ℝ[X]) (x2 : ℝ) :
    Integrable fun x1 : ℝ => T2 p q P Q u f g (x1, x2) := by
  have h1 := (integrable_poly_gauss_shift hp P f).mul_const (g.eval x2 * exp (-q * (x2 - Q)^2))
  have hc : Continuous fun x1 : ℝ => T2 p q P Q u f g (x1, x2) :=
    (T2_continuous p q P Q u f g).comp (continuous_id.prodMk continuous_const)
  exact h1.mono hc.aestronglyMeasurable
    (Filter.Eventually.of_forall fun x1 => T2_norm_le p q P Q u f g (x1, x2))

lemma T2_hasDerivAt_left (p q P Q u : ℝ) (f g : ℝ[X]) (x1 x2 : ℝ) :
    HasDerivAt (fun x : ℝ => T2 p q P Q u f g (x, x2))
      (T2 p q P Q u (derivative f) g (x1, x2) - 2 * p * T2 p q P Q u ((X - C P) * f) g (x1, x2)
        - 2 * u^2 * (T2 p q P Q u (X * f) g (x1, x2) - T2 p q P Q u f (X * g) (x1, x2))) x1 := by
  have hf := f.hasDerivAt x1
  have e1 : HasDerivAt (fun x : ℝ => exp (-p * (x - P)^2))
      (exp (-p * (x1 - P)^2) * (-p * (2 * (x1 - P)))) x1 := by
    have h : HasDerivAt (fun x : ℝ => (x - P)^2) (2 * (x1 - P)) x1 := by
      simpa using ((hasDerivAt_id' x1).sub_const P).fun_pow 2
    exact (h.const_mul (-p)).exp
  have e3 : HasDerivAt (fun x : ℝ => exp (-u^2 * (x - x2)^2))
      (exp (-u^2 * (x1 - x2)^2) * (-u^2 * (2 * (x1 - x2)))) x1 := by
    have h : HasDerivAt (fun x : ℝ => (x - x2)^2) (2 * (x1 - x2)) x1 := by
      simpa using ((hasDerivAt_id' x1).sub_const x2).fun_pow 2
    exact (h.const_mul (-u^2)).exp
  have h := (hf.mul_const (g.eval x2)).mul ((e1.mul_const (exp (-q * (x2 - Q)^2))).mul e3)
  refine h.congr_deriv ?_
  simp only [T2, G2, eval_mul, eval_sub, eval_X, eval_C, Pi.mul_apply]
  ring

/-- the two-variable integral `∫∫ f(x₁) g(x₂) e^{-p(x₁-P)²-q(x₂-Q)²-u²(x₁-x₂)²}` -/
noncomputable def I2 (p q P Q u : ℝ) (f g : ℝ[X]) : ℝ := ∫ y : ℝ × ℝ, T2 p q P Q u f g y

lemma T2_add_left (p q P Q u : ℝ) (f1 f2 g : ℝ[X]) (y : ℝ × ℝ) :
    T2 p q P Q u (f1 + f2) g y = T2 p q P Q u f1 g y + T2 p q P Q u f2 g y := by
  unfold T2; rw [eval_add]; ring

lemma T2_C_mul_left (p q P Q u c : ℝ) (f g : ℝ[X]) (y : ℝ × ℝ) :
    T2 p q P Q u (C c * f) g y = c * T2 p q P Q u f g y := by
  unfold T2; rw [eval_mul, eval_C]; ring

lemma T2_swap (p q P Q u : ℝ) (f g : ℝ[X]) (y : ℝ × ℝ) :
    T2 q p Q P u g f y.swap = T2 p q P Q u f g y := by
  unfold T2 G2
  simp only [Prod.fst_swap, Prod.snd_swap]
  rw [show (y.2 - y.1)^2 = (y.1 - y.2)^2 by ring]
  ring

lemma I2_swap (p q P Q u : ℝ) (f g : ℝ[X]) : I2 p q P Q u f g = I2 q p Q P u g f := by
  unfold I2
  rw [Measure.volume_eq_prod, ← integral_prod_swap (T2 p q P Q u f g)]
  congr 1
  ext y
  exact T2_swap q p Q P u g f y

lemma I2_add_left {p q : ℝ} (hp : 0 < p) (hq : 0 < q) (P Q u : ℝ) (f1 f2 g : ℝ[X]) :
    I2 p q P Q u (f1 + f2) g = I2 p q P Q u f1 g + I2 p q P Q u f2 g := by
  unfold I2
  rw [← integral_add (T2_integrable hp hq P Q u f1 g) (T2_integrable hp hq P Q u f2 g)]
  congr 1; ext y; exact T2_add_left ..

lemma I2_C_mul_left (p q P Q u c : ℝ) (f g : ℝ[X]) :
    I2 p q P Q u (C c * f) g = c * I2 p q P Q u f g := by
  unfold I2
  rw [← MeasureTheory.integral_const_mul]
  congr 1; ext y; exact T2_C_mul_left ..

lemma I2_add_right {p q : ℝ} (hp : 0 < p) (hq : 0 < q) (P Q u : ℝ) (f g1 g2 : ℝ[X]) :
    I2 p q P Q u f (g1 + g2) = I2 p q P Q u f g1 + I2 p q P Q u f g2 := by
  rw [I2_swap p q P Q u f (g1 + g2), I2_add_left hq hp, I2_swap p q P Q u f g1,
    I2_swap p q P Q u f g2]

lemma I2_C_mul_right (p q P Q u c : ℝ) (f g : ℝ[X]) :
    I2 p q P Q u f (C c * g) = c * I2 p q P Q u f g := by
  rw [I2_swap p q P Q u f (C c * g), I2_C_mul_left, I2_swap p q P Q u f g]

/-- integration by parts in the first variable -/
theorem I2_ibp1 {p q : ℝ} (hp : 0 < p) (hq : 0 < q) (P Q u : ℝ) (f g : ℝ[X]) :
    I2 p q P Q u (derivative f) g = 2 * p * I2 p q P Q u ((X - C P) * f) g
      + 2 * u^2 * (I2 p q P Q u (X * f) g - I2 p q P Q u f (X * g)) := by
  have i1 := T2_integrable hp hq P Q u (derivative f) g
  have i2 : Integrable (fun y : ℝ × ℝ => 2 * p * T2 p q P Q u ((X - C P) * f) g y) :=
    (T2_integrable hp hq P Q u ((X - C P) * f) g).const_mul (2 * p)
  have i3 := T2_integrable hp hq P Q u (X * f) g
  have i4 := T2_integrable hp hq P Q u f (X * g)
  have i34' : Integrable (fun y : ℝ × ℝ => T2 p q P Q u (X * f) g y - T2 p q P Q u f (X * g) y) :=
    i3.sub i4
  have i34 : Integrable (fun y : ℝ × ℝ =>
      2 * u^2 * (T2 p q P Q u (X * f) g y - T2 p q P Q u f (X * g) y)) := i34'.const_mul (2 * u^2)
  have i12 : Integrable (fun y : ℝ × ℝ => T2 p q P Q u (derivative f) g y
      - 2 * p * T2 p q P Q u ((X - C P) * f) g y) := i1.sub i2
  have hD : Integrable (fun y : ℝ × ℝ => T2 p q P Q u (derivative f) g y
      - 2 * p * T2 p q P Q u ((X - C P) * f) g y
      - 2 * u^2 * (T2 p q P Q u (X * f) g y - T2 p q P Q u f (X * g) y))
      ((volume : Measure ℝ).prod volume) := i12.sub i34
  have h0 : ∫ y : ℝ × ℝ, (T2 p q P Q u (derivative f) g y
      - 2 * p * T2 p q P Q u ((X - C P) * f) g y
      - 2 * u^2 * (T2 p q P Q u (X * f) g y - T2 p q P Q u f (X * g) y)) = 0 := by
    rw [Measure.volume_eq_prod, integral_prod_symm _ hD]
    have : ∀ x2 : ℝ, ∫ x1 : ℝ, (T2 p q P Q u (derivative f) g (x1, x2)
        - 2 * p * T2 p q P Q u ((X - C P) * f) g (x1, x2)
        - 2 * u^2 * (T2 p q P Q u (X * f) g (x1, x2) - T2 p q P Q u f (X * g) (x1, x2))) = 0 := by
      intro x2
      refine integral_eq_zero_of_hasDerivAt_of_integrable
        (fun x1 => T2_hasDerivAt_left p q P Q u f g x1 x2) ?_ (T2_integrable_left hp q P Q u f g x2)
      exact ((T2_integrable_left hp q P Q u _ g x2).sub
        ((T2_integrable_left hp q P Q u _ g x2).const_mul (2 * p))).sub
        (((T2_integrable_left hp q P Q u _ g x2).sub
          (T2_integrable_left hp q P Q u f _ x2)).const_mul (2 * u^2))
    simp [this]
  rw [integral_sub i12 i34, integral_sub i1 i2, MeasureTheory.integral_const_mul,
    MeasureTheory.integral_const_mul, integral_sub i3 i4] at h0
  unfold I2
  linarith

/-- integration by parts in the second variable -/
theorem I2_ibp2 {p q : ℝ} (hp : 0 < p) (hq : 0 < q) (P Q u : ℝ) (f g : ℝ[X]) :
    I2 p q P Q u f (derivative g) = 2 * q * I2 p q P Q u f ((X - C Q) * g)
      + 2 * u^2 * (I2 p q P Q u f (X * g) - I2 p q P Q u (X * f) g) := by
  rw [I2_swap p q P Q u f (derivative g), I2_ibp1 hq hp, I2_swap p q P Q u f ((X - C Q) * g),
    I2_swap p q P Q u f (X * g), I2_swap p q P Q u (X * f) g]

/-! ## 3. The moment family of one axis and its identification with `rysET` -/

/-- `∫∫ (x₁-A)^n (x₂-C)^m e^{-p(x₁-P)²-q(x₂-Q)²-u²(x₁-x₂)²}` -/
noncomputable def J2 (p q P Q A Cc u : ℝ) (n m : ℕ) : ℝ :=
  I2 p q P Q u ((X - C A)^n) ((X - C Cc)^m)

lemma J2_ibp1 {p q : ℝ} (hp : 0 < p) (hq : 0 < q) (P Q A Cc u : ℝ) (n m : ℕ) :
    (n:ℝ) * J2 p q P Q A Cc u (n-1) m
      = 2 * p * (J2 p q P Q A Cc u (n+1) m + (A - P) * J2 p q P Q A Cc u n m)
        + 2 * u^2 * (J2 p q P Q A Cc u (n+1) m + A * J2 p q P Q A Cc u n m
            - (J2 p q P Q A Cc u n (m+1) + Cc * J2 p q P Q A Cc u n m)) := by
  have h := I2_ibp1 hp hq P Q u ((X - C A)^n) ((X - C Cc)^m)
  have e1 : (X - C P) * (X - C A)^n = (X - C A)^(n+1) + C (A - P) * (X - C A)^n := by
    rw [map_sub]; ring
  have e2 : X * (X - C A)^n = (X - C A)^(n+1) + C A * (X - C A)^n := by ring
  have e3 : X * (X - C Cc)^m = (X - C Cc)^(m+1) + C Cc * (X - C Cc)^m := by ring
  rw [derivative_X_sub_C_pow, I2_C_mul_left, e1, e2, e3, I2_add_left hp hq, I2_add_left hp hq,
    I2_add_right hp hq, I2_C_mul_left, I2_C_mul_left, I2_C_mul_right] at h
  exact h

lemma J2_ibp2 {p q : ℝ} (hp : 0 < p) (hq : 0 < q) (P Q A Cc u : ℝ) (n m : ℕ) :
    (m:ℝ) * J2 p q P Q A Cc u n (m-1)
      = 2 * q * (J2 p q P Q A Cc u n (m+1) + (Cc - Q) * J2 p q P Q A Cc u n m)
        + 2 * u^2 * (J2 p q P Q A Cc u n (m+1) + Cc * J2 p q P Q A Cc u n m
            - (J2 p q P Q A Cc u (n+1) m + A * J2 p q P Q A Cc u n m)) := by
  have h := I2_ibp2 hp hq P Q u ((X - C A)^n) ((X - C Cc)^m)
  have e1 : (X - C Q) * (X - C Cc)^m = (X - C Cc)^(m+1) + C (Cc - Q) * (X - C Cc)^m := by
    rw [map_sub]; ring
  have e2 : X * (X - C A)^n = (X - C A)^(n+1) + C A * (X - C A)^n := by ring
  have e3 : X * (X - C Cc)^m = (X - C Cc)^(m+1) + C Cc * (X - C Cc)^m := by ring
  rw [derivative_X_sub_C_pow, I2_C_mul_right, e1, e2, e3, I2_add_right hp hq, I2_add_right hp hq,
    I2_add_left hp hq, I2_C_mul_right, I2_C_mul_right, I2_C_mul_left] at h
  exact h

/-- **The two RDK recurrences hold for the two-variable Gaussian moment integrals**
(`det = pq + (p+q)u²`) -/
theorem J2_rdk2 {p q : ℝ} (hp : 0 < p) (hq : 0 < q) (P Q A Cc u : ℝ) :
    RDK2 ((P - A) - q * u^2 / (p * q + (p + q) * u^2) * (P - Q))
      ((Q - Cc) + p * u^2 / (p * q + (p + q) * u^2) * (P - Q))
      ((q + u^2) / (2 * (p * q + (p + q) * u^2))) (u^2 / (2 * (p * q + (p + q) * u^2)))
      ((p + u^2) / (2 * (p * q + (p + q) * u^2))) (J2 p q P Q A Cc u) := by
  have hdet : 0 < p * q + (p + q) * u^2 := by positivity
  constructor
  · intro n m
    have h1 := J2_ibp1 hp hq P Q A Cc u n m
    have h2 := J2_ibp2 hp hq P Q A Cc u n m
    have key : 2 * (p * q + (p + q) * u^2) * J2 p q P Q A Cc u (n+1) m
        = 2 * ((p * q + (p + q) * u^2) * (P - A) - q * u^2 * (P - Q)) * J2 p q P Q A Cc u n m
          + (q + u^2) * ((n:ℝ) * J2 p q P Q A Cc u (n-1) m)
          + u^2 * ((m:ℝ) * J2 p q P Q A Cc u n (m-1)) := by
      linear_combination (-(q + u^2)) * h1 - u^2 * h2
    have e : J2 p q P Q A Cc u (n+1) m
        = (2 * (p * q + (p + q) * u^2) * J2 p q P Q A Cc u (n+1) m)
          / (2 * (p * q + (p + q) * u^2)) := by field_simp
    rw [e, key]
    field_simp
  · intro n m
    have h1 := J2_ibp1 hp hq P Q A Cc u n m
    have h2 := J2_ibp2 hp hq P Q A Cc u n m
    have key : 2 * (p * q + (p + q) * u^2) * J2 p q P Q A Cc u n (m+1)
        = 2 * ((p * q + (p + q) * u^2) * (Q - Cc) + p * u^2 * (P - Q)) * J2 p q P Q A Cc u n m
          + u^2 * ((n:ℝ) * J2 p q P Q A Cc u (n-1) m)
          + (p + u^2) * ((m:ℝ) * J2 p q P Q A Cc u n (m-1)) := by
      linear_combination (-u^2) * h1 - (p + u^2) * h2
    have e : J2 p q P Q A Cc u n (m+1)
        = (2 * (p * q + (p + q) * u^2) * J2 p q P Q A Cc u n (m+1))
          / (2 * (p * q + (p + q) * u^2)) := by field_simp
    rw [e, key]
    field_simp

/-- the two-variable Gaussian normalisation integral -/
theorem G2_integral {p q : ℝ} (hp : 0 < p) (hq : 0 < q) (P Q u : ℝ) :
    ∫ y : ℝ × ℝ, G2 p q P Q u y
      = √(π / (p + q)) * (√(π / (p * q / (p + q) + u^2))
          * exp (-(p * q / (p + q) * u^2 / (p * q / (p + q) + u^2)) * (P - Q)^2)) := by
  have hint : Integrable (G2 p q P Q u) ((volume : Measure ℝ).prod volume) := by
    have h := T2_integrable hp hq P Q u 1 1
    have e : T2 p q P Q u 1 1 = G2 p q P Q u := by funext y; simp [T2]
    rwa [e] at h
  have hqu : 0 < q + u^2 := by positivity
  have hκ : 0 ≤ q * u^2 / (q + u^2) := by positivity
  have hpκ : 0 < p + q * u^2 / (q + u^2) := by positivity
  rw [Measure.volume_eq_prod, integral_prod _ hint]
  have hin : ∀ x1 : ℝ, ∫ x2 : ℝ, G2 p q P Q u (x1, x2)
      = √(π / (q + u^2)) * (exp (-p * (x1 - P)^2) * exp (-(q * u^2 / (q + u^2)) * (x1 - Q)^2)) := by
    intro x1
    have : ∀ x2 : ℝ, G2 p q P Q u (x1, x2) = exp (-p * (x1 - P)^2)
        * exp (-(q * u^2 / (q + u^2)) * (x1 - Q)^2)
        * exp (-(q + u^2) * (x2 - (q * Q + u^2 * x1) / (q + u^2))^2) := by
      intro x2
      unfold G2
      simp only
      rw [show (x1 - x2)^2 = (x2 - x1)^2 by ring, mul_assoc,
        gauss_product_exp q (u^2) Q x1 x2 hqu.ne', show (Q - x1)^2 = (x1 - Q)^2 by ring]
      ring
    simp_rw [this]
    rw [MeasureTheory.integral_const_mul,
      integral_sub_right_eq_self (fun x : ℝ => exp (-(q + u^2) * x^2)), integral_gaussian]
    ring
  simp_rw [hin]
  have : ∀ x1 : ℝ, exp (-p * (x1 - P)^2) * exp (-(q * u^2 / (q + u^2)) * (x1 - Q)^2)
      = exp (-(p * (q * u^2 / (q + u^2)) / (p + q * u^2 / (q + u^2))) * (P - Q)^2)
        * exp (-(p + q * u^2 / (q + u^2))
            * (x1 - (p * P + q * u^2 / (q + u^2) * Q) / (p + q * u^2 / (q + u^2)))^2) :=
    fun x1 => gauss_product_exp p _ P Q x1 hpκ.ne'
  simp_rw [this]
  rw [MeasureTheory.integral_const_mul, MeasureTheory.integral_const_mul,
    integral_sub_right_eq_self (fun x : ℝ => exp (-(p + q * u^2 / (q + u^2)) * x^2)),
    integral_gaussian]
  have hpq : 0 < p + q := by positivity
  have hρ : 0 < p * q / (p + q) + u^2 := by positivity
  have hsq : √(π / (q + u^2)) * √(π / (p + q * u^2 / (q + u^2)))
      = √(π / (p + q)) * √(π / (p * q / (p + q) + u^2)) := by
    rw [← Real.sqrt_mul (div_pos pi_pos hqu).le, ← Real.sqrt_mul (div_pos pi_pos hpq).le]
    congr 1
    field_simp
    ring
  have hexp : p * (q * u^2 / (q + u^2)) / (p + q * u^2 / (q + u^2))
      = p * q / (p + q) * u^2 / (p * q / (p + q) + u^2) := by
    field_simp
    ring
  rw [hexp]
  linear_combination (exp (-(p * q / (p + q) * u^2 / (p * q / (p + q) + u^2)) * (P - Q)^2)) * hsq

/-- per-axis two-electron integrand `(x₁-A)^n (x₂-C)^m e^{-p(x₁-P)²} e^{-q(x₂-Q)²} e^{-u²(x₁-x₂)²}` -/
noncomputable def axis2 (p q P Q A Cc : ℝ) (n m : ℕ) (u : ℝ) (y : ℝ × ℝ) : ℝ :=
  T2 p q P Q u ((X - C A)^n) ((X - C Cc)^m) y

lemma axis2_apply (p q P Q A Cc : ℝ) (n m : ℕ) (u : ℝ) (y : ℝ × ℝ) :
    axis2 p q P Q A Cc n m u y = (y.1 - A)^n * (y.2 - Cc)^m * G2 p q P Q u y := by
  simp [axis2, T2]

/-- **One axis of the two-electron integral for fixed `u`**: normalisation times the Rys/Wick
polynomial `rysET` at `s = u²/(ρ+u²)`. -/
theorem axis2_integral {p q : ℝ} (hp : 0 < p) (hq : 0 < q) (ρ w w' : ℝ)
    (hρ : ρ = p * q / (p + q)) (hw : w * (p + q) = q) (hw' : w' * (p + q) = p)
    (P Q A Cc : ℝ) (n m : ℕ) (u : ℝ) :
    ∫ y : ℝ × ℝ, axis2 p q P Q A Cc n m u y
      = √(π / (p + q)) * (√(π / (ρ + u^2)) * exp (-(ρ * u^2 / (ρ + u^2)) * (P - Q)^2)
          * (rysET p q w w' (P - A) (Q - Cc) (P - Q) n m).eval (u^2 / (ρ + u^2))) := by
  have hpq : 0 < p + q := by positivity
  have hw0 : w = q / (p + q) := eq_div_of_mul_eq hpq.ne' hw
  have hw0' : w' = p / (p + q) := eq_div_of_mul_eq hpq.ne' hw'
  subst hρ hw0 hw0'
  have hdet : 0 < p * q + (p + q) * u^2 := by positivity
  have hρu : 0 < p * q / (p + q) + u^2 := by positivity
  have h := rdk2_unique _ _ _ _ _ _ (J2_rdk2 hp hq P Q A Cc u) n m
  have h00 : J2 p q P Q A Cc u 0 0 = ∫ y : ℝ × ℝ, G2 p q P Q u y := by
    unfold J2 I2
    congr 1; ext y; simp [T2]
  have h1 : (P - A) - q * u^2 / (p * q + (p + q) * u^2) * (P - Q)
      = (P - A) - u^2 / (p * q / (p + q) + u^2) * (q / (p + q) * (P - Q)) := by
    field_simp
  have h2 : (Q - Cc) + p * u^2 / (p * q + (p + q) * u^2) * (P - Q)
      = (Q - Cc) + u^2 / (p * q / (p + q) + u^2) * (p / (p + q) * (P - Q)) := by
    field_simp
  have h3 : (q + u^2) / (2 * (p * q + (p + q) * u^2))
      = (1 / (2 * p)) * (1 - q / (p + q) * (u^2 / (p * q / (p + q) + u^2))) := by
    field_simp
    ring
  have h4 : u^2 / (2 * (p * q + (p + q) * u^2))
      = (1 / (2 * (p + q))) * (u^2 / (p * q / (p + q) + u^2)) := by
    field_simp
  have h5 : (p + u^2) / (2 * (p * q + (p + q) * u^2))
      = (1 / (2 * q)) * (1 - p / (p + q) * (u^2 / (p * q / (p + q) + u^2))) := by
    field_simp
    ring
  rw [h1, h2, h3, h4, h5] at h
  change J2 p q P Q A Cc u n m = _
  rw [h, h00, G2_integral hp hq, rysET_eval]
  ring

/-! ## 4. Six dimensions -/

/-- `E3 × E3 ≃ᵐ (Fin 3 → ℝ × ℝ)`, pairing the coordinates of the two electrons axis by axis -/
noncomputable def pairE : E3 × E3 ≃ᵐ (Fin 3 → ℝ × ℝ) :=
  ((MeasurableEquiv.toLp 2 (Fin 3 → ℝ)).symm.prodCongr
    (MeasurableEquiv.toLp 2 (Fin 3 → ℝ)).symm).trans
    (MeasurableEquiv.arrowProdEquivProdArrow ℝ ℝ (Fin 3)).symm

lemma pairE_apply (z : E3 × E3) (u : Fin 3) : pairE z u = (z.1 u, z.2 u) := rfl

lemma pairE_measurePreserving : MeasurePreserving pairE (volume : Measure (E3 × E3)) volume :=
  ((EuclideanSpace.volume_preserving_symm_measurableEquiv_toLp (Fin 3)).prod
    (EuclideanSpace.volume_preserving_symm_measurableEquiv_toLp (Fin 3))).trans
    (volume_measurePreserving_arrowProdEquivProdArrow ℝ ℝ (Fin 3)).symm

lemma integral_E3E3_prod (g : Fin 3 → ℝ × ℝ → ℝ) :
    ∫ z : E3 × E3, ∏ u, g u (z.1 u, z.2 u) = ∏ u, ∫ y, g u y := by
  have h := pairE_measurePreserving.integral_comp' (fun y : Fin 3 → ℝ × ℝ => ∏ u, g u (y u))
  simp only [pairE_apply] at h
  rw [h]
  exact integral_fintype_prod_volume_eq_prod g

lemma integrable_E3E3_prod (g : Fin 3 → ℝ × ℝ → ℝ) (hg : ∀ u, Integrable (g u)) :
    Integrable fun z : E3 × E3 => ∏ u, g u (z.1 u, z.2 u) := by
  have h : Integrable (fun y : Fin 3 → ℝ × ℝ => ∏ u, g u (y u)) := Integrable.fintype_prod hg
  have h2 := (pairE_measurePreserving.integrable_comp_emb pairE.measurableEmbedding).mpr h
  exact h2

lemma axis2_continuous3 (p q P Q A Cc : ℝ) (n m : ℕ) :
    Continuous fun z : ℝ × (ℝ × ℝ) => axis2 p q P Q A Cc n m z.1 z.2 :=
  T2_continuous3 p q P Q _ _

lemma axis2_integrable {p q : ℝ} (hp : 0 < p) (hq : 0 < q) (P Q A Cc : ℝ) (n m : ℕ) (u : ℝ) :
    Integrable (axis2 p q P Q A Cc n m u) := T2_integrable hp hq P Q u _ _

lemma G2_pos (p q P Q u : ℝ) (y : ℝ × ℝ) : 0 < G2 p q P Q u y := by
  unfold G2; positivity

lemma axis2_abs_le (p q P Q A Cc : ℝ) (n m : ℕ) (u : ℝ) (y : ℝ × ℝ) :
    |axis2 p q P Q A Cc n m u y|
      ≤ axis2 p q P Q A Cc 0 0 u y + axis2 p q P Q A Cc (2*n) (2*m) u y := by
  simp only [axis2_apply]
  set t := (y.1 - A)^n * (y.2 - Cc)^m with ht
  have hg0 := G2_pos p q P Q u y
  have e : (y.1 - A)^(2*n) * (y.2 - Cc)^(2*m) = t^2 := by rw [ht]; ring
  rw [e, abs_mul, abs_of_pos hg0]
  have : |t| ≤ 1 + t^2 := by
    rw [abs_le]; constructor <;> nlinarith [sq_nonneg (t - 1), sq_nonneg (t + 1)]
  have := mul_le_mul_of_nonneg_right this hg0.le
  simpa [add_mul] using this

lemma axis2_even_nonneg (p q P Q A Cc : ℝ) (n m : ℕ) (u : ℝ) (y : ℝ × ℝ) :
    0 ≤ axis2 p q P Q A Cc (2*n) (2*m) u y := by
  rw [axis2_apply]
  have : 0 ≤ (y.1 - A)^(2*n) * (y.2 - Cc)^(2*m) := by
    rw [pow_mul, pow_mul]; positivity
  exact mul_nonneg this (G2_pos p q P Q u y).le

lemma continuous_E3E3_prod (g : Fin 3 → ℝ → ℝ × ℝ → ℝ)
    (hg : ∀ u, Continuous fun z : ℝ × (ℝ × ℝ) => g u z.1 z.2) :
    Continuous fun x : (E3 × E3) × ℝ => ∏ u, g u x.2 (x.1.1 u, x.1.2 u) := by
  refine continuous_finsetProd _ fun u _ => ?_
  have hu : Continuous fun r : E3 => r u := (EuclideanSpace.proj u).continuous
  exact (hg u).comp (continuous_snd.prodMk
    ((hu.comp (continuous_fst.comp continuous_fst)).prodMk
      (hu.comp (continuous_snd.comp continuous_fst))))

/-- joint integrability in `((r₁, r₂), w)` of a non-negative product of per-axis functions whose
two-variable integrals have the Rys closed form -/
lemma joint_integrable2 (ρ : ℝ) (hρ : 0 < ρ) (g : Fin 3 → ℝ → ℝ × ℝ → ℝ)
    (hcont : ∀ u, Continuous fun z : ℝ × (ℝ × ℝ) => g u z.1 z.2)
    (hint : ∀ u w, Integrable (g u w)) (hnn : ∀ u w y, 0 ≤ g u w y)
    (c d : Fin 3 → ℝ) (Q : Fin 3 → ℝ[X])
    (hval : ∀ u w, ∫ y, g u w y = c u * (√(π / (ρ + w^2)) * exp (-(ρ * w^2 / (ρ + w^2)) * d u)
        * (Q u).eval (w^2 / (ρ + w^2)))) :
    Integrable (Function.uncurry fun (z : E3 × E3) (w : ℝ) => ∏ u, g u w (z.1 u, z.2 u))
      ((volume : Measure (E3 × E3)).prod (volume.restrict (Ioi (0:ℝ)))) := by
  have hm : AEStronglyMeasurable
      (Function.uncurry fun (z : E3 × E3) (w : ℝ) => ∏ u, g u w (z.1 u, z.2 u))
      ((volume : Measure (E3 × E3)).prod (volume.restrict (Ioi (0:ℝ)))) :=
    (continuous_E3E3_prod g hcont).aestronglyMeasurable
  rw [integrable_prod_iff' hm]
  refine ⟨Filter.Eventually.of_forall fun w => integrable_E3E3_prod _ (fun u => hint u w), ?_⟩
  have : ∀ w : ℝ, ∫ z : E3 × E3,
        ‖Function.uncurry (fun (z : E3 × E3) (w : ℝ) => ∏ u, g u w (z.1 u, z.2 u)) (z, w)‖
      = (∏ u, c u) * (exp (-(ρ * w^2 / (ρ + w^2)) * ∑ u, d u) * (π / (ρ + w^2)) ^ ((3:ℝ)/2)
          * (∏ u, Q u).eval (w^2 / (ρ + w^2))) := by
    intro w
    have hq : 0 < ρ + w^2 := by positivity
    rw [← prod_axis_closed c d Q ρ w hq]
    simp_rw [← hval]
    rw [← integral_E3E3_prod (fun u => g u w)]
    congr 1
    ext z
    simp only [Function.uncurry_apply_pair, Real.norm_eq_abs]
    exact abs_of_nonneg (Finset.prod_nonneg fun u _ => hnn u w _)
  simp_rw [this]
  exact (integrableOn_rysK_poly ρ _ hρ _).const_mul _

/-- the 6-D integrand is the product of the per-axis integrands -/
lemma E3E3_integrand_eq (p q : ℝ) (P Q A Cc : E3) (n m : Fin 3 → ℕ) (w : ℝ) (z : E3 × E3) :
    (∏ u, (z.1 u - A u)^(n u) * (z.2 u - Cc u)^(m u)) * exp (-p * ‖z.1 - P‖^2)
        * exp (-q * ‖z.2 - Q‖^2) * exp (-w^2 * ‖z.1 - z.2‖^2)
      = ∏ u, axis2 p q (P u) (Q u) (A u) (Cc u) (n u) (m u) w (z.1 u, z.2 u) := by
  simp only [EuclideanSpace.real_norm_sq_eq, PiLp.sub_apply, Finset.mul_sum, Real.exp_sum,
    ← Finset.prod_mul_distrib, axis2_apply, G2]
  refine Finset.prod_congr rfl fun u _ => ?_
  ring

/-- fixed-`w` factorisation of the six-dimensional integral -/
theorem E3E3_spatial_integral {p q : ℝ} (hp : 0 < p) (hq : 0 < q) (ρ w w' : ℝ)
    (hρ : ρ = p * q / (p + q)) (hw : w * (p + q) = q) (hw' : w' * (p + q) = p)
    (P Q A Cc : E3) (n m : Fin 3 → ℕ) (u : ℝ) :
    ∫ z : E3 × E3, ∏ i, axis2 p q (P i) (Q i) (A i) (Cc i) (n i) (m i) u (z.1 i, z.2 i)
      = (∏ _i : Fin 3, √(π / (p + q)))
        * (exp (-(ρ * u^2 / (ρ + u^2)) * ∑ i, (P i - Q i)^2) * (π / (ρ + u^2)) ^ ((3:ℝ)/2)
            * (∏ i, rysET p q w w' (P i - A i) (Q i - Cc i) (P i - Q i) (n i) (m i)).eval
                (u^2 / (ρ + u^2))) := by
  have hρ0 : 0 < ρ := by rw [hρ]; positivity
  have hq' : 0 < ρ + u^2 := by positivity
  rw [integral_E3E3_prod (fun i => axis2 p q (P i) (Q i) (A i) (Cc i) (n i) (m i) u)]
  simp_rw [axis2_integral hp hq ρ w w' hρ hw hw']
  exact prod_axis_closed _ _ _ ρ u hq'

/-- joint integrability of the two-electron Coulomb integrand in `((r₁, r₂), w)` -/
lemma coulomb2_joint_integrable {p q : ℝ} (hp : 0 < p) (hq : 0 < q) (P Q A Cc : E3)
    (n m : Fin 3 → ℕ) :
    Integrable (Function.uncurry fun (z : E3 × E3) (w : ℝ) =>
        ∏ i, axis2 p q (P i) (Q i) (A i) (Cc i) (n i) (m i) w (z.1 i, z.2 i))
      ((volume : Measure (E3 × E3)).prod (volume.restrict (Ioi (0:ℝ)))) := by
  have hpq : 0 < p + q := by positivity
  have hρ0 : 0 < p * q / (p + q) := by positivity
  have hw : q / (p + q) * (p + q) = q := by field_simp
  have hw' : p / (p + q) * (p + q) = p := by field_simp
  have hdom := joint_integrable2 (p * q / (p + q)) hρ0
    (fun i w y => axis2 p q (P i) (Q i) (A i) (Cc i) 0 0 w y
        + axis2 p q (P i) (Q i) (A i) (Cc i) (2 * n i) (2 * m i) w y)
    (fun i => (axis2_continuous3 _ _ _ _ _ _ _ _).add (axis2_continuous3 _ _ _ _ _ _ _ _))
    (fun i w => (axis2_integrable hp hq _ _ _ _ _ _ w).add (axis2_integrable hp hq _ _ _ _ _ _ w))
    (fun i w y => add_nonneg
      (by simpa using axis2_even_nonneg p q (P i) (Q i) (A i) (Cc i) 0 0 w y)
      (axis2_even_nonneg p q _ _ _ _ _ _ w y))
    (fun _ => √(π / (p + q)))
    (fun i => (P i - Q i)^2)
    (fun i => 1 + rysET p q (q / (p + q)) (p / (p + q)) (P i - A i) (Q i - Cc i) (P i - Q i)
        (2 * n i) (2 * m i))
    (by
      intro i w
      have h00 : rysET p q (q / (p + q)) (p / (p + q)) (P i - A i) (Q i - Cc i) (P i - Q i) 0 0
          = 1 := by rw [rysET, Ws]
      rw [integral_add (axis2_integrable hp hq _ _ _ _ _ _ w) (axis2_integrable hp hq _ _ _ _ _ _ w),
        axis2_integral hp hq _ _ _ rfl hw hw', axis2_integral hp hq _ _ _ rfl hw hw', h00,
        eval_add, eval_one]
      ring)
  refine hdom.mono' ?_ (Filter.Eventually.of_forall ?_)
  · exact (continuous_E3E3_prod
      (fun i w y => axis2 p q (P i) (Q i) (A i) (Cc i) (n i) (m i) w y)
      (fun i => axis2_continuous3 _ _ _ _ _ _ _ _)).aestronglyMeasurable
  · rintro ⟨z, w⟩
    simp only [Function.uncurry_apply_pair, Real.norm_eq_abs, Finset.abs_prod]
    exact Finset.prod_le_prod (fun i _ => abs_nonneg _)
      (fun i _ => axis2_abs_le _ _ _ _ _ _ _ _ _ _)

lemma coulomb2_pointwise (p q : ℝ) (P Q A Cc : E3) (n m : Fin 3 → ℕ) (z : E3 × E3) :
    (∏ u, (z.1 u - A u)^(n u) * (z.2 u - Cc u)^(m u)) * exp (-p * ‖z.1 - P‖^2)
        * exp (-q * ‖z.2 - Q‖^2) / ‖z.1 - z.2‖
      = 2 / √π * ∫ w in Ioi (0:ℝ),
          ∏ i, axis2 p q (P i) (Q i) (A i) (Cc i) (n i) (m i) w (z.1 i, z.2 i) := by
  simp_rw [← E3E3_integrand_eq]
  rw [MeasureTheory.integral_const_mul, div_eq_mul_one_div,
    inv_eq_integral_gauss _ (norm_nonneg _)]
  have : ∀ w : ℝ, -‖z.1 - z.2‖^2 * w^2 = -w^2 * ‖z.1 - z.2‖^2 := by intro w; ring
  simp_rw [this]
  ring

/-- integrability over `E3 × E3` of the two-electron Coulomb integrand (with its `1/|r₁-r₂|`
singularity) -/
theorem coulomb2_integrable {p q : ℝ} (hp : 0 < p) (hq : 0 < q) (P Q A Cc : E3)
    (n m : Fin 3 → ℕ) :
    Integrable fun z : E3 × E3 =>
      (∏ u, (z.1 u - A u)^(n u) * (z.2 u - Cc u)^(m u)) * exp (-p * ‖z.1 - P‖^2)
        * exp (-q * ‖z.2 - Q‖^2) / ‖z.1 - z.2‖ := by
  have h := ((coulomb2_joint_integrable hp hq P Q A Cc n m).integral_prod_left).const_mul (2 / √π)
  refine h.congr (Filter.Eventually.of_forall fun z => ?_)
  exact (coulomb2_pointwise p q P Q A Cc n m z).symm

/-- **Core theorem** (two product Gaussians, `Fin 3`-indexed powers): for `p, q > 0`,
`ρ = pq/(p+q)`, `w(p+q) = q`, `w'(p+q) = p`,
`∫∫ Π_u (r₁-A)_u^{n_u} (r₂-C)_u^{m_u} e^{-p|r₁-P|²} e^{-q|r₂-Q|²} / |r₁-r₂|
   = 2π^{5/2}/(pq√(p+q)) · boysF (boys (ρ|P-Q|²)) 0 (Π_u rysET …)`. -/
theorem coulomb2_core_fin {p q : ℝ} (hp : 0 < p) (hq : 0 < q) (ρ w w' : ℝ)
    (hρ : ρ = p * q / (p + q)) (hw : w * (p + q) = q) (hw' : w' * (p + q) = p)
    (P Q A Cc : E3) (n m : Fin 3 → ℕ) :
    ∫ z : E3 × E3, (∏ u, (z.1 u - A u)^(n u) * (z.2 u - Cc u)^(m u)) * exp (-p * ‖z.1 - P‖^2)
        * exp (-q * ‖z.2 - Q‖^2) / ‖z.1 - z.2‖
      = 2 * (π^2 * √π) / (p * q * √(p + q))
        * boysF (boys (ρ * ‖P - Q‖^2)) 0
            (∏ u, rysET p q w w' (P u - A u) (Q u - Cc u) (P u - Q u) (n u) (m u)) := by
  have hpq : 0 < p + q := by positivity
  have hρ0 : 0 < ρ := by rw [hρ]; positivity
  have hK := E3E3_spatial_integral hp hq ρ w w' hρ hw hw' P Q A Cc n m
  have hPQ : ∑ u, (P u - Q u)^2 = ‖P - Q‖^2 := by
    rw [EuclideanSpace.real_norm_sq_eq]
    simp only [PiLp.sub_apply]
  rw [hPQ] at hK
  simp_rw [coulomb2_pointwise]
  rw [MeasureTheory.integral_const_mul,
    integral_integral_swap (coulomb2_joint_integrable hp hq P Q A Cc n m)]
  simp_rw [hK]
  rw [MeasureTheory.integral_const_mul, integral_rysK_poly ρ _ hρ0]
  simp only [Finset.prod_const, Finset.card_univ, Fintype.card_fin]
  rw [Real.sqrt_div pi_pos.le]
  have hsp : 0 < √π := Real.sqrt_pos.mpr pi_pos
  have hsq : 0 < √(p + q) := Real.sqrt_pos.mpr hpq
  rw [hρ]
  field_simp
  rw [Real.sq_sqrt pi_pos.le, Real.sq_sqrt hpq.le]
  ring

/-- **Base case `[ss|ss]`**: `∫∫ e^{-p|r₁-P|²} e^{-q|r₂-Q|²} / |r₁-r₂| = 2π^{5/2}/(pq√(p+q)) F₀(ρ|P-Q|²)` -/
theorem coulomb2_ssss {p q : ℝ} (hp : 0 < p) (hq : 0 < q) (P Q : E3) :
    ∫ z : E3 × E3, exp (-p * ‖z.1 - P‖^2) * exp (-q * ‖z.2 - Q‖^2) / ‖z.1 - z.2‖
      = 2 * (π^2 * √π) / (p * q * √(p + q)) * boys (p * q / (p + q) * ‖P - Q‖^2) 0 := by
  have hpq : 0 < p + q := by positivity
  have h := coulomb2_core_fin hp hq (p * q / (p + q)) (q / (p + q)) (p / (p + q)) rfl
    (by field_simp) (by field_simp) P Q 0 0 (fun _ => 0) (fun _ => 0)
  have h00 : ∀ PA QC PQ : ℝ, rysET p q (q / (p + q)) (p / (p + q)) PA QC PQ 0 0 = 1 := by
    intro PA QC PQ; rw [rysET, Ws]
  simp only [pow_zero, mul_one, Finset.prod_const_one, one_mul, h00, boysF_one] at h
  exact h

/-- the base case as an iterated integral -/
theorem coulomb2_ssss_iterated {p q : ℝ} (hp : 0 < p) (hq : 0 < q) (P Q : E3) :
    ∫ r1 : E3, ∫ r2 : E3, exp (-p * ‖r1 - P‖^2) * exp (-q * ‖r2 - Q‖^2) / ‖r1 - r2‖
      = 2 * (π^2 * √π) / (p * q * √(p + q)) * boys (p * q / (p + q) * ‖P - Q‖^2) 0 := by
  have hi := coulomb2_integrable hp hq P Q 0 0 (fun _ => 0) (fun _ => 0)
  simp only [pow_zero, mul_one, Finset.prod_const_one, one_mul] at hi
  rw [← coulomb2_ssss hp hq P Q, Measure.volume_eq_prod, integral_prod _ hi]

/-- the four-Gaussian integrand in terms of the two product Gaussians -/
lemma coulomb2_integrand_eq {a b c d : ℝ} (ha : 0 < a) (hb : 0 < b) (hc : 0 < c) (hd : 0 < d)
    (A B C D : E3) (ea ec : Fin 3 → ℕ) (z : E3 × E3) :
    (∏ u, (z.1 u - A u)^(ea u)) * exp (-a * ‖z.1 - A‖^2) * exp (-b * ‖z.1 - B‖^2)
        * ((∏ u, (z.2 u - C u)^(ec u)) * exp (-c * ‖z.2 - C‖^2) * exp (-d * ‖z.2 - D‖^2))
        / ‖z.1 - z.2‖
      = exp (-(a * b / (a + b)) * ‖A - B‖^2) * exp (-(c * d / (c + d)) * ‖C - D‖^2)
        * ((∏ u, (z.1 u - A u)^(ea u) * (z.2 u - C u)^(ec u))
            * exp (-(a + b) * ‖z.1 - (a + b)⁻¹ • (a • A + b • B)‖^2)
            * exp (-(c + d) * ‖z.2 - (c + d)⁻¹ • (c • C + d • D)‖^2) / ‖z.1 - z.2‖) := by
  have h1 := gauss3_product_pointwise a b (by positivity) z.1 A B
  have h2 := gauss3_product_pointwise c d (by positivity) z.2 C D
  rw [Finset.prod_mul_distrib, mul_assoc (∏ u, (z.1 u - A u)^(ea u)), h1,
    mul_assoc (∏ u, (z.2 u - C u)^(ec u)), h2]
  ring

/-- **The Rys/Wick-form specification is the six-dimensional Coulomb integral**
(`Fin 3`-indexed version, integral over the product space). -/
theorem coulomb2_general_fin {a b c d : ℝ} (ha : 0 < a) (hb : 0 < b) (hc : 0 < c) (hd : 0 < d)
    (A B C D P Q : E3) (hP : P = (a + b)⁻¹ • (a • A + b • B))
    (hQ : Q = (c + d)⁻¹ • (c • C + d • D)) (ρ w w' : ℝ)
    (hρ : ρ = (a + b) * (c + d) / (a + b + (c + d))) (hw : w * (a + b + (c + d)) = c + d)
    (hw' : w' * (a + b + (c + d)) = a + b) (ea ec : Fin 3 → ℕ) :
    ∫ z : E3 × E3,
        (∏ u, (z.1 u - A u)^(ea u)) * exp (-a * ‖z.1 - A‖^2) * exp (-b * ‖z.1 - B‖^2)
        * ((∏ u, (z.2 u - C u)^(ec u)) * exp (-c * ‖z.2 - C‖^2) * exp (-d * ‖z.2 - D‖^2))
        / ‖z.1 - z.2‖
      = 2 * (π^2 * √π) / ((a + b) * (c + d) * √(a + b + (c + d)))
        * exp (-(a * b / (a + b)) * ‖A - B‖^2) * exp (-(c * d / (c + d)) * ‖C - D‖^2)
        * boysF (boys (ρ * ‖P - Q‖^2)) 0
            (∏ u, rysET (a + b) (c + d) w w' (P u - A u) (Q u - C u) (P u - Q u) (ea u) (ec u)) := by
  have hp : 0 < a + b := by positivity
  have hq : 0 < c + d := by positivity
  simp_rw [coulomb2_integrand_eq ha hb hc hd, ← hP, ← hQ]
  rw [MeasureTheory.integral_const_mul, coulomb2_core_fin hp hq ρ w w' hρ hw hw' P Q A C ea ec]
  ring

/-- integrability of the four-Gaussian Coulomb integrand over `E3 × E3` -/
theorem coulomb2_general_integrable {a b c d : ℝ} (ha : 0 < a) (hb : 0 < b) (hc : 0 < c)
    (hd : 0 < d) (A B C D : E3) (ea ec : Fin 3 → ℕ) :
    Integrable fun z : E3 × E3 =>
        (∏ u, (z.1 u - A u)^(ea u)) * exp (-a * ‖z.1 - A‖^2) * exp (-b * ‖z.1 - B‖^2)
        * ((∏ u, (z.2 u - C u)^(ec u)) * exp (-c * ‖z.2 - C‖^2) * exp (-d * ‖z.2 - D‖^2))
        / ‖z.1 - z.2‖ := by
  have hp : 0 < a + b := by positivity
  have hq : 0 < c + d := by positivity
  simp_rw [coulomb2_integrand_eq ha hb hc hd]
  exact (coulomb2_integrable hp hq _ _ A C ea ec).const_mul _

/-- **Main theorem.**  The Rys/Wick-form specification `Espec` with the true Boys function is the
six-dimensional Coulomb integral `[a0|c0]` of four primitive Cartesian Gaussians, as an iterated
integral over `r₁` and `r₂`, with the prefactor of the model's `eriBase`.
`PA = P - A`, `QC = Q - C`, `PQ = P - Q`; `w (p+q) = q`, `w' (p+q) = p`, `ρ = pq/(p+q)`. -/
theorem coulomb2_general {a b c d : ℝ} (ha : 0 < a) (hb : 0 < b) (hc : 0 < c) (hd : 0 < d)
    (A B C D P Q : E3) (hP : P = (a + b)⁻¹ • (a • A + b • B))
    (hQ : Q = (c + d)⁻¹ • (c • C + d • D)) (ρ w w' : ℝ)
    (hρ : ρ = (a + b) * (c + d) / (a + b + (c + d))) (hw : w * (a + b + (c + d)) = c + d)
    (hw' : w' * (a + b + (c + d)) = a + b) (ea ec : ℕ × ℕ × ℕ) :
    ∫ r1 : E3, ∫ r2 : E3,
        ((r1 0 - A 0)^ea.1 * (r1 1 - A 1)^ea.2.1 * (r1 2 - A 2)^ea.2.2)
          * exp (-a * ‖r1 - A‖^2) * exp (-b * ‖r1 - B‖^2)
        * (((r2 0 - C 0)^ec.1 * (r2 1 - C 1)^ec.2.1 * (r2 2 - C 2)^ec.2.2)
          * exp (-c * ‖r2 - C‖^2) * exp (-d * ‖r2 - D‖^2))
        / ‖r1 - r2‖
      = 2 * (π^2 * √π) / ((a + b) * (c + d) * √(a + b + (c + d)))
        * exp (-(a * b / (a + b)) * ‖A - B‖^2) * exp (-(c * d / (c + d)) * ‖C - D‖^2)
        * Espec (boys (ρ * ‖P - Q‖^2)) (a + b) (c + d) w w'
            (comp3 (P - A)) (comp3 (Q - C)) (comp3 (P - Q)) 0 ea ec := by
  have h := coulomb2_general_fin ha hb hc hd A B C D P Q hP hQ ρ w w' hρ hw hw'
    ![ea.1, ea.2.1, ea.2.2] ![ec.1, ec.2.1, ec.2.2]
  have hi := coulomb2_general_integrable ha hb hc hd A B C D
    ![ea.1, ea.2.1, ea.2.2] ![ec.1, ec.2.1, ec.2.2]
  rw [Measure.volume_eq_prod, integral_prod _ hi] at h
  simp only [Fin.prod_univ_three, Matrix.cons_val_zero, Matrix.cons_val_one,
    Matrix.cons_val_two, Matrix.head_cons, Matrix.tail_cons] at h
  have e0 : ∀ v : E3, comp3 v 0 = v 0 := fun v => rfl
  have e1 : ∀ v : E3, comp3 v 1 = v 1 := fun v => rfl
  have e2 : ∀ v : E3, comp3 v 2 = v 2 := fun v => rfl
  simp only [Espec, e0, e1, e2, PiLp.sub_apply]
  exact h

end GB
