import GBProofs.Basic
import Mathlib.Analysis.SpecialFunctions.Exp
import Mathlib.Analysis.SpecialFunctions.Sqrt
import Mathlib.Analysis.SpecialFunctions.Trigonometric.Basic

/-! The transcendental operations of the model, interpreted in ℝ. -/

@[reducible] noncomputable instance realTransc : Transc ℝ :=
  { toNum := fieldNum, exp := Real.exp, sqrt := Real.sqrt, pi := Real.pi }
