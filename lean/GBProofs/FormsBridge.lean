import GBProofs.DensityMotion
import GBProofs.ArrayContraction14

/-!
# The forms of the model on the model's computed derivative arrays; derivative tensors of any order

`g : E3 ≃ᵃⁱ[ℝ] E3` a rigid motion, `R = g.linearIsometryEquiv`, `M = matOf (linPart g)`,
`U = basisRep b (linPart g)`, `γ = Uᵀ γ' U` (`CongrBy`), as in `DensityMotion`.

* §1 `iteratedFDeriv_comp_affineIso` (chain rule of any order for an affine isometry),
  `iteratedFDeriv_moved_of_rel`, the operator `iterD v` and `Compat.iterD`.
* §2 **`basisFnE_iteratedFDeriv_moved`**, **`rho_iteratedFDeriv_moved`** (`rho_iteratedFDeriv_moved'`),
  `Tpq`, **`Tpq_moved`**: the derivative tensors of every order of the basis functions, of the density
  and the bilinear tensors behind the symbols `D(p; q)` are covariant.
* §3 the bridge.  `modelD1 b p pts r k`: entry `(r, k)` of the one-index array that the model computes
  for `∂^p` (`entry1 … (evalBlk b .general p pts)`, `modelD1_eq_flat`: the flat `assemble1` array);
  **`modelD1_eq_dpowFun`**: it is the genuine mixed partial derivative of `basisFnE b r` at the grid
  point.  `modelD`: the number `D(p;q)(x_k) = Σ γ_rc d^p_r d^q_c`; `modelForm`: the model's own
  `Form.eval` on these numbers; **`formVal_eq_modelForm`** (every form, every `γ`),
  `eval_smooth_eq_modelForm` (through `eval_eq_evalA`).
* §4 C12 for the computed values: `modelDensity_moved`, `modelPosdef_moved` (arbitrary `γ'`),
  `modelGradient_moved`, `modelHessian_moved`, `modelLaplacian_moved`, `modelGeneralKE_moved`,
  `modelStress_moved`, `modelForce_moved`, `modelEhrenfestHessian_moved` (symmetric `γ'`),
  `modelForm_translate` (every form, every `γ`).
* §5 components: `cmm_expand`, `cntComp`, `iteratedFDeriv_ei_eq_dpowFun`, `cmm_comp_of_moved`,
  **`dpowFun_basisFnE_moved`**, **`dpowFun_rho_moved`**, **`derivDensityForm_moved`**
  (`evaluate_deriv_density` of any order `L`).
* §6 **`modelD1_moved`** (computed `evaluate_deriv_basis`, any order), **`modelDerivDensity_moved`**.
-/
open Finset
open scoped ContDiff

namespace GB

noncomputable section

/-! ## 1. The chain rule of any order for a rigid motion -/

/-- **chain rule of any order for an affine isometry**: the `n`-th derivative of `f ∘ g` at `x` along
`v₁ … v_n` is the `n`-th derivative of `f` at `g x` along `R v₁ … R v_n`, `R` the linear part of `g` -/
theorem iteratedFDeriv_comp_affineIso (g : E3 ≃ᵃⁱ[ℝ] E3) {f : E3 → ℝ} (hf : ContDiff ℝ ∞ f) (n : ℕ)
    (x : E3) (v : Fin n → E3) :
    iteratedFDeriv ℝ n (fun y => f (g y)) x v
      = iteratedFDeriv ℝ n f (g x) (fun i => g.linearIsometryEquiv (v i)) := by
  have e : (fun y => f (g y))
      = (fun z => f (z + g 0)) ∘ ((g.linearIsometryEquiv : E3 ≃ₗᵢ[ℝ] E3) : E3 →L[ℝ] E3) := by
    funext y
    simp only [Function.comp_apply]
    rw [affineIso_apply g y]
    rfl
  have hf' : ContDiff ℝ ∞ (fun z => f (z + g 0)) := hf.comp (contDiff_id.add contDiff_const)
  rw [e, ContinuousLinearMap.iteratedFDeriv_comp_right _ hf' x (i := n) (by exact_mod_cast le_top),
    iteratedFDeriv_comp_add_right, ContinuousMultilinearMap.compContinuousLinearMap_apply,
    affineIso_apply g x]
  rfl

theorem contDiff_nat {f : E3 → ℝ} (hf : ContDiff ℝ ∞ f) (n : ℕ) : ContDiff ℝ (n : WithTop ℕ∞) f :=
  hf.of_le (by exact_mod_cast le_top)

/-- the `n`-th derivative of a finite linear combination -/
theorem iteratedFDeriv_lincomb (S : Finset ℕ) (φ : ℕ → E3 → ℝ) (D : ℕ → ℝ)
    (hφ : ∀ j, ContDiff ℝ ∞ (φ j)) (n : ℕ) (x : E3) (v : Fin n → E3) :
    iteratedFDeriv ℝ n (fun y => ∑ j ∈ S, D j * φ j y) x v
      = ∑ j ∈ S, D j * iteratedFDeriv ℝ n (φ j) x v := by
  rw [iteratedFDeriv_sum (fun j _ => contDiff_const.mul (contDiff_nat (hφ j) n))]
  rw [Finset.sum_apply, _root_.sum_apply]
  refine sum_congr rfl fun j _ => ?_
  have e : (fun y => D j * φ j y) = D j • φ j := rfl
  rw [e, iteratedFDeriv_const_smul_apply (contDiff_nat (hφ j) n).contDiffAt]
  rfl

/-- **linear relations are carried to the derivative tensors of every order**: if
`ψ ∘ g = Σ_j D_j φ_j` then `Dⁿψ(g x)(R v₁, …, R v_n) = Σ_j D_j Dⁿφ_j(x)(v₁, …, v_n)` -/
theorem iteratedFDeriv_moved_of_rel (g : E3 ≃ᵃⁱ[ℝ] E3) (S : Finset ℕ) (ψ : E3 → ℝ)
    (φ : ℕ → E3 → ℝ) (D : ℕ → ℝ) (hψ : ContDiff ℝ ∞ ψ) (hφ : ∀ j, ContDiff ℝ ∞ (φ j))
    (h : ∀ x, ψ (g x) = ∑ j ∈ S, D j * φ j x) (n : ℕ) (x : E3) (v : Fin n → E3) :
    iteratedFDeriv ℝ n ψ (g x) (fun i => g.linearIsometryEquiv (v i))
      = ∑ j ∈ S, D j * iteratedFDeriv ℝ n (φ j) x v := by
  rw [← iteratedFDeriv_comp_affineIso g hψ, funext h, iteratedFDeriv_lincomb S φ D hφ]

/-- the `n`-th derivative along fixed vectors, as an operator on functions -/
def iterD {n : ℕ} (v : Fin n → E3) (f : E3 → ℝ) : E3 → ℝ := fun x => iteratedFDeriv ℝ n f x v

theorem contDiff_iterD {f : E3 → ℝ} (hf : ContDiff ℝ ∞ f) {n : ℕ} (v : Fin n → E3) :
    ContDiff ℝ ∞ (iterD v f) := by
  have h1 : ContDiff ℝ ∞ (iteratedFDeriv ℝ n f) :=
    hf.iteratedFDeriv_right (m := ∞) (by exact_mod_cast le_of_eq (by simp))
  exact (ContinuousMultilinearMap.apply ℝ (fun _ : Fin n => E3) ℝ v).contDiff.comp h1

/-- the `n`-th derivative along `R v₁ … R v_n` at the moved point corresponds to the `n`-th derivative
along `v₁ … v_n` at the original point -/
theorem Compat.iterD (g : E3 ≃ᵃⁱ[ℝ] E3) {n : ℕ} (v : Fin n → E3) :
    Compat g (iterD fun i => g.linearIsometryEquiv (v i)) (iterD v) :=
  ⟨fun _ hf => contDiff_iterD hf _, fun _ hf => contDiff_iterD hf _,
    fun S ψ φ D hψ hφ h x => iteratedFDeriv_moved_of_rel g S ψ φ D hψ hφ h n x v⟩

/-! ## 2. The derivative tensors of every order of the basis functions and of the density -/

/-- **C12, derivative tensor of any order of the basis functions**: the `n`-th derivative of basis
function `r` of the moved basis at the moved point along `R v₁ … R v_n` is the combination with the
representation matrix `U = basisRep b (linPart g)` of the `n`-th derivatives of the original basis
functions at the original point along `v₁ … v_n`. -/
theorem basisFnE_iteratedFDeriv_moved (g : E3 ≃ᵃⁱ[ℝ] E3) (b : Basis ℝ) (hb : b.Movable) (r : ℕ)
    (hr : r < b.total) (n : ℕ) (x : E3) (v : Fin n → E3) :
    iteratedFDeriv ℝ n (basisFnE (b.moved g) r) (g x) (fun i => g.linearIsometryEquiv (v i))
      = ∑ r' ∈ range b.total, basisRep b (linPart g) r r' * iteratedFDeriv ℝ n (basisFnE b r') x v :=
  iteratedFDeriv_moved_of_rel g (range b.total) _ (fun r' => basisFnE b r') _
    (contDiff_basisFnE _ _) (fun _ => contDiff_basisFnE _ _) (basisFnE_moved g b hb r hr) n x v

/-- **C12, derivative tensor of any order of the density** (vector form): the full rank-`n` tensor of
`n`-th derivatives of the density is covariant,
`Dⁿρ'(g x)(R v₁, …, R v_n) = Dⁿρ(x)(v₁, …, v_n)` with `γ = Uᵀ γ' U`. -/
theorem rho_iteratedFDeriv_moved (g : E3 ≃ᵃⁱ[ℝ] E3) (b : Basis ℝ) (hb : b.Movable) (γ γ' : ℕ → ℕ → ℝ)
    (hγ : CongrBy b.total (basisRep b (linPart g)) γ γ') (n : ℕ) (x : E3) (v : Fin n → E3) :
    iteratedFDeriv ℝ n (rhoE (b.moved g) γ') (g x) (fun i => g.linearIsometryEquiv (v i))
      = iteratedFDeriv ℝ n (rhoE b γ) x v :=
  (Compat.iterD g v).apply_single (contDiff_rhoE _ _) (contDiff_rhoE _ _)
    (rho_moved g b hb γ γ' hγ) x

/-- the same as an identity of continuous multilinear maps: the tensor at the moved point, composed
with the linear part in every slot, is the tensor at the original point -/
theorem rho_iteratedFDeriv_moved' (g : E3 ≃ᵃⁱ[ℝ] E3) (b : Basis ℝ) (hb : b.Movable)
    (γ γ' : ℕ → ℕ → ℝ) (hγ : CongrBy b.total (basisRep b (linPart g)) γ γ') (n : ℕ) (x : E3) :
    (iteratedFDeriv ℝ n (rhoE (b.moved g) γ') (g x)).compContinuousLinearMap
        (fun _ => ((g.linearIsometryEquiv : E3 ≃ₗᵢ[ℝ] E3) : E3 →L[ℝ] E3))
      = iteratedFDeriv ℝ n (rhoE b γ) x := by
  ext v
  rw [ContinuousMultilinearMap.compContinuousLinearMap_apply]
  exact rho_iteratedFDeriv_moved g b hb γ γ' hγ n x v

/-- `Σ_{r,c} γ_rc Dᵖχ_r(x)(u₁…u_p) D^qχ_c(x)(v₁…v_q)`: the bilinear tensor of derivatives of orders
`p` and `q` of the basis functions -/
def Tpq (b : Basis ℝ) (γ : ℕ → ℕ → ℝ) {p q : ℕ} (x : E3) (u : Fin p → E3) (v : Fin q → E3) : ℝ :=
  biFn b γ (iterD u) (iterD v) x

/-- **C12, the bilinear derivative tensors of all orders** (the tensors of which every
`D(p; q)` symbol of the model is a component): covariant of rank `p + q` -/
theorem Tpq_moved (g : E3 ≃ᵃⁱ[ℝ] E3) (b : Basis ℝ) (hb : b.Movable) (γ γ' : ℕ → ℕ → ℝ)
    (hγ : CongrBy b.total (basisRep b (linPart g)) γ γ') {p q : ℕ} (x : E3) (u : Fin p → E3)
    (v : Fin q → E3) :
    Tpq (b.moved g) γ' (g x) (fun i => g.linearIsometryEquiv (u i))
        (fun i => g.linearIsometryEquiv (v i))
      = Tpq b γ x u v :=
  biFn_moved g b hb γ γ' hγ (Compat.iterD g u) (Compat.iterD g v) x

/-! ## 3. The bridge: the forms on the model's computed one-index derivative arrays -/

/-- basis function `r` as the weighted sum of the smooth shell functions, in `Smooth3` -/
theorem basisSmooth_eq_sum (b : Basis ℝ) (r : ℕ) :
    basisSmooth b r = ∑ a ∈ range (shellOf b r).ncart,
      cw b r a • shellSmooth (shellOf b r) (segOf b r) a := by
  apply Subtype.ext
  funext x
  rw [← evalAt_apply, ← evalAt_apply, map_sum]
  simp only [map_smul, evalAt_apply, smul_eq_mul]
  rfl

/-- every mixed partial derivative of basis function `r` is the weighted sum of those of the shell
functions -/
theorem dpowFun_basisFnE (b : Basis ℝ) (r : ℕ) (p : Comp) (x : E3) :
    dpowFun p (basisFnE b r) x = ∑ a ∈ range (shellOf b r).ncart,
      cw b r a * (dpow pd p (shellSmooth (shellOf b r) (segOf b r) a)).1 x := by
  have h : dpowFun p (basisFnE b r) = (dpow pd p (basisSmooth b r)).1 :=
    (dpow_coe p (basisSmooth b r)).symm
  rw [h, basisSmooth_eq_sum, dpow_sum_map, ← evalAt_apply, map_sum]
  refine sum_congr rfl fun a _ => ?_
  rw [dpow_smul_map, map_smul, evalAt_apply, smul_eq_mul]

/-- **entry `(r, k)` of the one-index array of `∂^p` of the basis functions at the points `pts` that the
model computes** (general back-end; `evalBlk` is the block function with which the driver calls
`assemble1` for `"evalderiv"`, i.e. `evaluate_deriv_basis`) -/
def modelD1 (b : Basis ℝ) (p : Comp) (pts : Array (ℕ → ℝ)) (r k : ℕ) : ℝ :=
  entry1 b (oneBlocks b pts.size (evalBlk b Backend.general p pts)) r k

/-- `modelD1` is the entry `[r][k]` of the flat (row-major) array returned by the model -/
theorem modelD1_eq_flat (b : Basis ℝ) (p : Comp) (pts : Array (ℕ → ℝ)) (r k : ℕ) (hr : r < b.total)
    (hk : k < pts.size) :
    modelD1 b p pts r k
      = (assemble1 b pts.size (evalBlk b Backend.general p pts))[r * pts.size + k]! :=
  (assemble1_get b pts.size _ r k hr hk).symm

/-- **the model's evaluation array is the array of the genuine mixed partial derivatives of the basis
functions** (`entry1_eq_sum` / `entry1_layout`, `evalBlock_general_eq_dpow`); positive exponents -/
theorem modelD1_eq_dpowFun (b : Basis ℝ) (hb : b.ExpsPos) (p : Comp) (pts : Array (ℕ → ℝ))
    (r k : ℕ) (hr : r < b.total) (hk : k < pts.size) :
    modelD1 b p pts r k = dpowFun p (basisFnE b r) (toE3 pts[k]) := by
  unfold modelD1
  rw [entry1_eq_sum b pts.size _ r k hr, dpowFun_basisFnE]
  refine sum_congr rfl fun a _ => ?_
  rw [← evalBlock_general_eq_dpow (shellOf b r) p pts (segOf b r) a k
    (shellOf_exps_pos b hb r hr) hk]
  rfl

/-- the same with Mathlib's iterated Fréchet derivative -/
theorem modelD1_eq_iteratedFDeriv (b : Basis ℝ) (hb : b.ExpsPos) (p : Comp) (pts : Array (ℕ → ℝ))
    (r k : ℕ) (hr : r < b.total) (hk : k < pts.size) :
    modelD1 b p pts r k
      = iteratedFDeriv ℝ (axesList p).length (basisFnE b r) (toE3 pts[k])
          (fun j => ei ((axesList p).get j)) := by
  rw [modelD1_eq_dpowFun b hb p pts r k hr hk, dpowFun_eq_iteratedFDeriv (contDiff_basisFnE b r)]

/-- **the number `D(p; q)` at point `k` as the driver of the model forms it from the evaluation
arrays**: `Σ_{r,c} γ_rc d^p_r(x_k) d^q_c(x_k)` -/
def modelD (b : Basis ℝ) (γ : ℕ → ℕ → ℝ) (pts : Array (ℕ → ℝ)) (k : ℕ) (p q : Comp) : ℝ :=
  biE b.total γ (fun r => modelD1 b p pts r k) (fun c => modelD1 b q pts c k)

theorem modelD_eq_biFn (b : Basis ℝ) (hb : b.ExpsPos) (γ : ℕ → ℕ → ℝ) (pts : Array (ℕ → ℝ)) (k : ℕ)
    (hk : k < pts.size) (p q : Comp) :
    modelD b γ pts k p q = biFn b γ (dpowFun p) (dpowFun q) (toE3 pts[k]) := by
  unfold modelD biFn biE
  refine sum_congr rfl fun r hr => sum_congr rfl fun c hc => ?_
  beta_reduce
  rw [modelD1_eq_dpowFun b hb p pts r k (mem_range.mp hr) hk,
    modelD1_eq_dpowFun b hb q pts c k (mem_range.mp hc) hk]

/-- the symbol `D(p; q)` of the smooth instance at the grid point is the model's number -/
theorem modelD_eq_Dsym (b : Basis ℝ) (hb : b.ExpsPos) (γ : ℕ → ℕ → ℝ) (pts : Array (ℕ → ℝ)) (k : ℕ)
    (hk : k < pts.size) (p q : Comp) :
    (Dsym pd (basisFam b b.total) (finMat b.total γ) p q).1 (toE3 pts[k]) = modelD b γ pts k p q := by
  rw [Dsym_coe, DFun_basisFam b b.total rfl, modelD_eq_biFn b hb γ pts k hk]

/-- `Form.eval` over `ℝ` (the operations of the model interpreted in the field `ℝ`) is the list sum -/
theorem Form_eval_real (ofRat : ℚ → ℝ) (D : Comp → Comp → ℝ) (f : Form) :
    Form.eval ofRat D f = (f.map fun t => ofRat t.1 * D t.2.1 t.2.2).sum := by
  unfold Form.eval
  rw [sumL_eq_sum]

/-- **the value of a form that the model computes at grid point `k`**: the model's own `Form.eval` on
the numbers `D(p; q)(x_k) = modelD …` formed from the evaluation arrays -/
def modelForm (b : Basis ℝ) (γ : ℕ → ℕ → ℝ) (pts : Array (ℕ → ℝ)) (k : ℕ) (f : Form) : ℝ :=
  Form.eval (fun r : ℚ => (r : ℝ)) (modelD b γ pts k) f


/-- **the bridge**: for *every* form `f` (and every matrix `γ`, symmetric or not), the interpretation of
`f` on the genuine smooth basis functions (`formVal`, with the genuine partial derivatives `pd`), at the
grid point `x_k`, is the number the model computes from its evaluation arrays.  Hypothesis: positive
exponents (`b.ExpsPos`, needed by `evalBlock_general_eq_dpow`: the general back-end takes `√α`). -/
theorem formVal_eq_modelForm (b : Basis ℝ) (hb : b.ExpsPos) (γ : ℕ → ℕ → ℝ) (pts : Array (ℕ → ℝ))
    (k : ℕ) (hk : k < pts.size) (f : Form) :
    formVal b γ f (toE3 pts[k]) = modelForm b γ pts k f := by
  have h1 := evalB_eq_sum b b.total rfl γ f (toE3 pts[k])
  have h2 := Form_eval_real (fun r : ℚ => (r : ℝ)) (modelD b γ pts k) f
  unfold formVal modelForm
  rw [h1, h2]
  refine congrArg List.sum (List.map_congr_left fun t _ => ?_)
  rw [modelD_eq_biFn b hb γ pts k hk]

/-- the same through `eval_eq_evalA`: the model's `Form.eval` in the algebra `Smooth3` (symbols
`Dsym pd …`), read at the grid point, is the model's `Form.eval` on the computed numbers -/
theorem eval_smooth_eq_modelForm (b : Basis ℝ) (hb : b.ExpsPos) (γ : ℕ → ℕ → ℝ)
    (pts : Array (ℕ → ℝ)) (k : ℕ) (hk : k < pts.size) (f : Form) :
    (@Form.eval Smooth3 (ringNum Smooth3) (fun r => algebraMap ℝ Smooth3 (r : ℝ))
        (Dsym pd (basisFam b b.total) (finMat b.total γ)) f).1 (toE3 pts[k])
      = modelForm b γ pts k f := by
  rw [eval_eq_evalA]
  exact formVal_eq_modelForm b hb γ pts k hk f

/-! ## 4. C12 for the values the model computes -/

/-- the grid points carried along by the motion -/
def movedPts (g : E3 → E3) (pts : Array (ℕ → ℝ)) : Array (ℕ → ℝ) := pts.map (movedPt g)

@[simp] theorem movedPts_size (g : E3 → E3) (pts : Array (ℕ → ℝ)) :
    (movedPts g pts).size = pts.size := by
  simp [movedPts]

theorem toE3_movedPts (g : E3 → E3) (pts : Array (ℕ → ℝ)) (k : ℕ) (hk : k < pts.size)
    (hk' : k < (movedPts g pts).size) : toE3 (movedPts g pts)[k] = g (toE3 pts[k]) := by
  simp [movedPts]

/-- the computed value for the moved basis at the moved grid point is the smooth form at `g x_k` -/
theorem modelForm_moved_eq (g : E3 ≃ᵃⁱ[ℝ] E3) (b : Basis ℝ) (hb : b.Movable) (γ' : ℕ → ℕ → ℝ)
    (pts : Array (ℕ → ℝ)) (k : ℕ) (hk : k < pts.size) (f : Form) :
    modelForm (b.moved g) γ' (movedPts g pts) k f = formVal (b.moved g) γ' f (g (toE3 pts[k])) := by
  have hk' : k < (movedPts g pts).size := by rw [movedPts_size]; exact hk
  rw [← formVal_eq_modelForm (b.moved g) (hb.moved g).expsPos γ' (movedPts g pts) k hk' f,
    toE3_movedPts g pts k hk hk']

section ModelMoved

variable (g : E3 ≃ᵃⁱ[ℝ] E3) (b : Basis ℝ) (hb : b.Movable) (γ γ' : ℕ → ℕ → ℝ)
  (hγ : CongrBy b.total (basisRep b (linPart g)) γ γ') (pts : Array (ℕ → ℝ)) (k : ℕ)
  (hk : k < pts.size)

include hb hγ hk

/-- **C12, computed `evaluate_density`**: the value computed for the moved basis (matrix `γ'`) at the
moved grid point is the value computed for the original basis (matrix `γ = Uᵀ γ' U`) at the original
grid point; arbitrary `γ'` -/
theorem modelDensity_moved :
    modelForm (b.moved g) γ' (movedPts g pts) k densityForm = modelForm b γ pts k densityForm := by
  rw [modelForm_moved_eq g b hb γ' pts k hk, ← formVal_eq_modelForm b hb.expsPos γ pts k hk]
  exact densityForm_moved g b hb γ γ' hγ _

/-- **C12, computed `evaluate_posdef_kinetic_energy_density`**; arbitrary `γ'` -/
theorem modelPosdef_moved :
    modelForm (b.moved g) γ' (movedPts g pts) k posdefForm = modelForm b γ pts k posdefForm := by
  rw [modelForm_moved_eq g b hb γ' pts k hk, ← formVal_eq_modelForm b hb.expsPos γ pts k hk]
  exact posdefForm_moved g b hb γ γ' hγ _

variable (hs' : ∀ r < b.total, ∀ c < b.total, γ' r c = γ' c r)

include hs'

/-- **C12, computed `evaluate_density_gradient`** (symmetric `γ'`, as for the smooth forms) -/
theorem modelGradient_moved (i : Fin 3) :
    modelForm (b.moved g) γ' (movedPts g pts) k (gradientForm i)
      = ∑ j : Fin 3, matOf (linPart g) i j * modelForm b γ pts k (gradientForm j) := by
  rw [modelForm_moved_eq g b hb γ' pts k hk]
  simp only [← formVal_eq_modelForm b hb.expsPos γ pts k hk]
  exact gradientForm_moved g b hb γ γ' hγ hs' i _

/-- **C12, computed `evaluate_density_hessian`** -/
theorem modelHessian_moved (i j : Fin 3) :
    modelForm (b.moved g) γ' (movedPts g pts) k (hessianForm i j)
      = ∑ m : Fin 3, ∑ l : Fin 3, matOf (linPart g) i m * matOf (linPart g) j l
          * modelForm b γ pts k (hessianForm m l) := by
  rw [modelForm_moved_eq g b hb γ' pts k hk]
  simp only [← formVal_eq_modelForm b hb.expsPos γ pts k hk]
  exact hessianForm_moved g b hb γ γ' hγ hs' i j _

/-- **C12, computed `evaluate_density_laplacian`** -/
theorem modelLaplacian_moved :
    modelForm (b.moved g) γ' (movedPts g pts) k laplacianForm
      = modelForm b γ pts k laplacianForm := by
  rw [modelForm_moved_eq g b hb γ' pts k hk, ← formVal_eq_modelForm b hb.expsPos γ pts k hk]
  exact laplacianForm_moved g b hb γ γ' hγ hs' _

/-- **C12, computed `evaluate_general_kinetic_energy_density`** -/
theorem modelGeneralKE_moved (α : ℚ) :
    modelForm (b.moved g) γ' (movedPts g pts) k (generalKEForm α)
      = modelForm b γ pts k (generalKEForm α) := by
  rw [modelForm_moved_eq g b hb γ' pts k hk, ← formVal_eq_modelForm b hb.expsPos γ pts k hk]
  exact generalKEForm_moved g b hb γ γ' hγ hs' α _

/-- **C12, computed `evaluate_stress_tensor`** -/
theorem modelStress_moved (α β : ℚ) (i j : Fin 3) :
    modelForm (b.moved g) γ' (movedPts g pts) k (stressForm α β i j)
      = ∑ m : Fin 3, ∑ l : Fin 3, matOf (linPart g) i m * matOf (linPart g) j l
          * modelForm b γ pts k (stressForm α β m l) := by
  rw [modelForm_moved_eq g b hb γ' pts k hk]
  simp only [← formVal_eq_modelForm b hb.expsPos γ pts k hk]
  exact stressForm_moved g b hb γ γ' hγ hs' α β i j _

/-- **C12, computed `evaluate_ehrenfest_force`** -/
theorem modelForce_moved (α β : ℚ) (i : Fin 3) :
    modelForm (b.moved g) γ' (movedPts g pts) k (forceForm α β i)
      = ∑ j : Fin 3, matOf (linPart g) i j * modelForm b γ pts k (forceForm α β j) := by
  rw [modelForm_moved_eq g b hb γ' pts k hk]
  simp only [← formVal_eq_modelForm b hb.expsPos γ pts k hk]
  exact forceForm_moved g b hb γ γ' hγ hs' α β i _

/-- **C12, computed `evaluate_ehrenfest_hessian`** (`symmetric` = `False` / `True`) -/
theorem modelEhrenfestHessian_moved (α β : ℚ) (sym : Bool) (i j : Fin 3) :
    modelForm (b.moved g) γ' (movedPts g pts) k (ehrenfestHessianForm α β sym i j)
      = ∑ m : Fin 3, ∑ l : Fin 3, matOf (linPart g) i m * matOf (linPart g) j l
          * modelForm b γ pts k (ehrenfestHessianForm α β sym m l) := by
  rw [modelForm_moved_eq g b hb γ' pts k hk]
  simp only [← formVal_eq_modelForm b hb.expsPos γ pts k hk]
  exact ehrenfestHessianForm_moved g b hb γ γ' hγ hs' α β sym i j _

end ModelMoved

/-- **translation invariance of every computed form** (every `f`, every `γ`, same matrix) -/
theorem modelForm_translate (v : E3) (b : Basis ℝ) (hb : b.Movable) (γ : ℕ → ℕ → ℝ)
    (pts : Array (ℕ → ℝ)) (k : ℕ) (hk : k < pts.size) (f : Form) :
    modelForm (b.moved (translation v)) γ (movedPts (translation v) pts) k f
      = modelForm b γ pts k f := by
  rw [modelForm_moved_eq (translation v) b hb γ pts k hk,
    ← formVal_eq_modelForm b hb.expsPos γ pts k hk]
  exact formVal_moved_of_linear_eq_id (translation v) (translation_linear v) b hb γ f _

/-! ## 5. Components of the derivative tensors: mixed partial derivatives of any order -/

theorem e3_expand (w : E3) : w = ∑ k : Fin 3, w k • ei k := by
  ext j
  simp [ei, Fin.sum_univ_three, PiLp.single_apply]
  fin_cases j <;> simp

/-- expansion of a continuous multilinear form on `E3` in its components -/
theorem cmm_expand {n : ℕ} (T : ContinuousMultilinearMap ℝ (fun _ : Fin n => E3) ℝ)
    (w : Fin n → E3) :
    T w = ∑ l : Fin n → Fin 3, (∏ i, (w i) (l i)) * T (fun i => ei (l i)) := by
  have e : w = fun i => ∑ k : Fin 3, (w i) k • ei k := funext fun i => e3_expand (w i)
  conv_lhs => rw [e]
  rw [ContinuousMultilinearMap.map_sum]
  refine sum_congr rfl fun l _ => ?_
  rw [ContinuousMultilinearMap.map_smul_univ, smul_eq_mul]

/-- the order triple of a sequence of axes: how often each axis occurs -/
def cntComp : ∀ {n : ℕ}, (Fin n → Fin 3) → Comp
  | 0, _ => 0
  | _ + 1, l => cntComp (Fin.tail l) + e (l 0)

/-- successive partial derivatives along a sequence of axes (index 0 = outermost) -/
def pdFin : ∀ {n : ℕ}, (Fin n → Fin 3) → (E3 → ℝ) → E3 → ℝ
  | 0, _, f => f
  | _ + 1, l, f => pdFun (l 0) (pdFin (Fin.tail l) f)

theorem pdFin_eq_iteratedFDeriv {f : E3 → ℝ} (hf : ContDiff ℝ ∞ f) :
    ∀ {n : ℕ} (l : Fin n → Fin 3) (x : E3),
      pdFin l f x = iteratedFDeriv ℝ n f x (fun i => ei (l i))
  | 0, l, x => by simp [pdFin]
  | n + 1, l, x => by
    have hfun : pdFin (Fin.tail l) f
        = fun y => iteratedFDeriv ℝ n f y (fun i => ei (Fin.tail l i)) :=
      funext (pdFin_eq_iteratedFDeriv hf (Fin.tail l))
    have hd : DifferentiableAt ℝ (fun y => iteratedFDeriv ℝ n f y) x :=
      hf.differentiable_iteratedFDeriv (WithTop.coe_lt_coe.2 (ENat.natCast_lt_top n)) x
    show pdFun (l 0) (pdFin (Fin.tail l) f) x = _
    rw [hfun]
    unfold pdFun
    rw [fderiv_continuousMultilinear_apply_const hd, iteratedFDeriv_succ_apply_left]
    rfl

theorem pdFin_eq_dpowFun {f : E3 → ℝ} (hf : ContDiff ℝ ∞ f) :
    ∀ {n : ℕ} (l : Fin n → Fin 3), pdFin l f = dpowFun (cntComp l) f
  | 0, l => rfl
  | n + 1, l => by
    show pdFun (l 0) (pdFin (Fin.tail l) f) = dpowFun (cntComp (Fin.tail l) + e (l 0)) f
    rw [pdFin_eq_dpowFun hf (Fin.tail l)]
    have h := d_dpow pd_comm (l 0) (cntComp (Fin.tail l)) (⟨f, hf⟩ : Smooth3)
    have h2 := congrArg Subtype.val h
    rw [pd_coe, dpow_coe, dpow_coe] at h2
    exact h2

/-- **the component of the `n`-th derivative tensor along the axes `l₁ … l_n` is the mixed partial
derivative `∂^p`, `p` the number of occurrences of each axis** -/
theorem iteratedFDeriv_ei_eq_dpowFun {f : E3 → ℝ} (hf : ContDiff ℝ ∞ f) {n : ℕ} (l : Fin n → Fin 3)
    (x : E3) : iteratedFDeriv ℝ n f x (fun i => ei (l i)) = dpowFun (cntComp l) f x := by
  rw [← pdFin_eq_iteratedFDeriv hf, pdFin_eq_dpowFun hf]

/-- `cntComp` counts the occurrences of the three axes -/
theorem cntComp_eq_card : ∀ {n : ℕ} (l : Fin n → Fin 3),
    cntComp l = ((univ.filter fun i => l i = 0).card, (univ.filter fun i => l i = 1).card,
      (univ.filter fun i => l i = 2).card)
  | 0, l => by simp [cntComp]; rfl
  | n + 1, l => by
    rw [cntComp, cntComp_eq_card (Fin.tail l), Fin.card_filter_univ_succ,
      Fin.card_filter_univ_succ, Fin.card_filter_univ_succ]
    have : ∀ i : Fin n, Fin.tail l i = l i.succ := fun i => rfl
    simp only [this]
    generalize l 0 = a
    fin_cases a <;> simp [e, Comp.e]

theorem cntComp_list : ∀ (l : List (Fin 3)),
    cntComp (fun i => l.get i) = (l.count 0, l.count 1, l.count 2)
  | [] => rfl
  | a :: l => by
    show cntComp (fun i => l.get i) + e a = _
    rw [cntComp_list l]
    fin_cases a <;> simp [e, Comp.e]

/-- the axes of `L` (`L_x` times `x`, `L_y` times `y`, `L_z` times `z`) have the order triple `L` -/
theorem cntComp_axesList (L : Comp) : cntComp (fun i => (axesList L).get i) = L := by
  rw [cntComp_list]
  obtain ⟨a, b, c⟩ := L
  simp [axesList, List.count_replicate]

/-- **components of a covariant rank-`n` tensor relation**: if
`T'(R v₁, …, R v_n) = Σ_j D_j T_j(v₁, …, v_n)` then
`T'(e_κ₁, …, e_κ_n) = Σ_j D_j Σ_l (Π_i M_{κ_i l_i}) T_j(e_l₁, …, e_l_n)` -/
theorem cmm_comp_of_moved (g : E3 ≃ᵃⁱ[ℝ] E3) {n : ℕ}
    (T' : ContinuousMultilinearMap ℝ (fun _ : Fin n => E3) ℝ) (S : Finset ℕ) (D : ℕ → ℝ)
    (T : ℕ → ContinuousMultilinearMap ℝ (fun _ : Fin n => E3) ℝ)
    (h : ∀ v : Fin n → E3, T' (fun i => g.linearIsometryEquiv (v i)) = ∑ j ∈ S, D j * T j v)
    (κ : Fin n → Fin 3) :
    T' (fun i => ei (κ i))
      = ∑ j ∈ S, D j * ∑ l : Fin n → Fin 3,
          (∏ i, matOf (linPart g) (κ i) (l i)) * T j (fun i => ei (l i)) := by
  have h1 := h fun i => g.linearIsometryEquiv.symm (ei (κ i))
  simp only [LinearIsometryEquiv.apply_symm_apply] at h1
  rw [h1]
  refine sum_congr rfl fun j _ => ?_
  rw [cmm_expand (T j)]
  simp only [symm_ei_apply]

/-- **C12, every mixed partial derivative of the basis functions**: `∂^L χ'_r (g x)` in terms of the
mixed partial derivatives of the same total order of the original basis functions at `x` -/
theorem dpowFun_basisFnE_moved (g : E3 ≃ᵃⁱ[ℝ] E3) (b : Basis ℝ) (hb : b.Movable) (r : ℕ)
    (hr : r < b.total) (L : Comp) (x : E3) :
    dpowFun L (basisFnE (b.moved g) r) (g x)
      = ∑ r' ∈ range b.total, basisRep b (linPart g) r r'
          * ∑ l : Fin (axesList L).length → Fin 3,
              (∏ i, matOf (linPart g) ((axesList L).get i) (l i))
                * dpowFun (cntComp l) (basisFnE b r') x := by
  rw [dpowFun_eq_iteratedFDeriv (contDiff_basisFnE _ _),
    cmm_comp_of_moved g _ (range b.total) (basisRep b (linPart g) r)
      (fun r' => iteratedFDeriv ℝ (axesList L).length (basisFnE b r') x)
      (basisFnE_iteratedFDeriv_moved g b hb r hr _ x)]
  simp only [iteratedFDeriv_ei_eq_dpowFun (contDiff_basisFnE _ _)]

/-- **C12, every mixed partial derivative of the density** -/
theorem dpowFun_rho_moved (g : E3 ≃ᵃⁱ[ℝ] E3) (b : Basis ℝ) (hb : b.Movable) (γ γ' : ℕ → ℕ → ℝ)
    (hγ : CongrBy b.total (basisRep b (linPart g)) γ γ') (L : Comp) (x : E3) :
    dpowFun L (rhoE (b.moved g) γ') (g x)
      = ∑ l : Fin (axesList L).length → Fin 3,
          (∏ i, matOf (linPart g) ((axesList L).get i) (l i))
            * dpowFun (cntComp l) (rhoE b γ) x := by
  have h := cmm_comp_of_moved g (iteratedFDeriv ℝ (axesList L).length (rhoE (b.moved g) γ') (g x))
    {0} (fun _ => 1) (fun _ => iteratedFDeriv ℝ (axesList L).length (rhoE b γ) x)
    (fun v => by simpa using rho_iteratedFDeriv_moved g b hb γ γ' hγ _ x v)
    (fun i => (axesList L).get i)
  rw [dpowFun_eq_iteratedFDeriv (contDiff_rhoE _ _), h]
  simp only [sum_singleton, one_mul, iteratedFDeriv_ei_eq_dpowFun (contDiff_rhoE _ _)]

theorem evalB_derivDensity (b : Basis ℝ) (n : ℕ) (hn : n = b.total) (γ : ℕ → ℕ → ℝ)
    (hs : ∀ r < n, ∀ c < n, γ r c = γ c r) (L : Comp) (x : E3) :
    evalB b n γ (derivDensityForm L) x = dpowFun L (rhoE b γ) x := by
  unfold evalB
  rw [derivDensity_pointwise (SymmG_finMat n γ hs) L x, ← rhoFun_basisFam b n hn]
  rfl

/-- **C12, `evaluate_deriv_density` of any order `L`** -/
theorem derivDensityForm_moved (g : E3 ≃ᵃⁱ[ℝ] E3) (b : Basis ℝ) (hb : b.Movable) (γ γ' : ℕ → ℕ → ℝ)
    (hγ : CongrBy b.total (basisRep b (linPart g)) γ γ')
    (hs' : ∀ r < b.total, ∀ c < b.total, γ' r c = γ' c r) (L : Comp) (x : E3) :
    formVal (b.moved g) γ' (derivDensityForm L) (g x)
      = ∑ l : Fin (axesList L).length → Fin 3,
          (∏ i, matOf (linPart g) ((axesList L).get i) (l i))
            * formVal b γ (derivDensityForm (cntComp l)) x := by
  have hs := hγ.symm_of_symm hs'
  rw [formVal_moved_eq, evalB_derivDensity _ _ (Basis.moved_total b g).symm _ hs',
    dpowFun_rho_moved g b hb γ γ' hγ]
  simp only [formVal, evalB_derivDensity b _ rfl γ hs]

/-! ## 6. C12 for the computed derivative arrays of any order -/

/-- **C12, computed `evaluate_deriv_basis` of any order `L`** (general back-end): row `r` of the
evaluation array of `∂^L` for the moved basis at the moved grid points, in terms of the evaluation
arrays of the same total order for the original basis at the original grid points -/
theorem modelD1_moved (g : E3 ≃ᵃⁱ[ℝ] E3) (b : Basis ℝ) (hb : b.Movable) (L : Comp)
    (pts : Array (ℕ → ℝ)) (r k : ℕ) (hr : r < b.total) (hk : k < pts.size) :
    modelD1 (b.moved g) L (movedPts g pts) r k
      = ∑ r' ∈ range b.total, basisRep b (linPart g) r r'
          * ∑ l : Fin (axesList L).length → Fin 3,
              (∏ i, matOf (linPart g) ((axesList L).get i) (l i))
                * modelD1 b (cntComp l) pts r' k := by
  have hk' : k < (movedPts g pts).size := by rw [movedPts_size]; exact hk
  rw [modelD1_eq_dpowFun (b.moved g) (hb.moved g).expsPos L _ r k
      (by rw [Basis.moved_total]; exact hr) hk',
    toE3_movedPts g pts k hk hk', dpowFun_basisFnE_moved g b hb r hr]
  refine sum_congr rfl fun r' hr' => ?_
  refine congrArg (fun z => basisRep b (linPart g) r r' * z) (sum_congr rfl fun l _ => ?_)
  rw [modelD1_eq_dpowFun b hb.expsPos (cntComp l) pts r' k (mem_range.mp hr') hk]

/-- **C12, computed `evaluate_deriv_density` of any order `L`** (symmetric `γ'`) -/
theorem modelDerivDensity_moved (g : E3 ≃ᵃⁱ[ℝ] E3) (b : Basis ℝ) (hb : b.Movable)
    (γ γ' : ℕ → ℕ → ℝ) (hγ : CongrBy b.total (basisRep b (linPart g)) γ γ')
    (hs' : ∀ r < b.total, ∀ c < b.total, γ' r c = γ' c r) (pts : Array (ℕ → ℝ)) (k : ℕ)
    (hk : k < pts.size) (L : Comp) :
    modelForm (b.moved g) γ' (movedPts g pts) k (derivDensityForm L)
      = ∑ l : Fin (axesList L).length → Fin 3,
          (∏ i, matOf (linPart g) ((axesList L).get i) (l i))
            * modelForm b γ pts k (derivDensityForm (cntComp l)) := by
  rw [modelForm_moved_eq g b hb γ' pts k hk]
  simp only [← formVal_eq_modelForm b hb.expsPos γ pts k hk]
  exact derivDensityForm_moved g b hb γ γ' hγ hs' L _

end

end GB
