import GBProofs.ArrayDefiniteness
import GBProofs.SphRotation.Rep
import GBProofs.TraceLaws

/-!
# Rigid-motion covariance of the assembled arrays of a whole basis (C12, array level)

`g : E3 ≃ᵃⁱ[ℝ] E3` is an arbitrary rigid motion (translation, proper or improper rotation and their
compositions), `b` a basis of Cartesian and spherical shells in any mixture.

* §1 `Basis.moved b g` (every shell carried along); `size`, `total`, `offset`, `locate` unchanged.
* §2 `Shell.Movable`, `Basis.Movable` (positive exponents, full Cartesian component lists, `l ≤ 10`
  and an accepted order for the spherical shells); `shellRep` (`repMat` for a Cartesian shell,
  `sphRep` for a spherical shell); `basisRep`, the block-diagonal representation matrix of the basis;
  `sum_basisRep` (a row lives on the functions of one shell and segment).
* §3 `cwS_moved_mul_repMat`: the weights of the assembly (contraction norm × Cartesian → spherical
  matrix or unit matrix) intertwine `repMat` and `shellRep`.  For a full component list the
  contraction norm is the same for all components (`normCont_eq_segNorm`), so it commutes with the
  representation.
* §4 the generic lemma `wBlock2_moved_of_block` (shell pair) and `entry2_moved_of_blocks` (array): if
  every raw Cartesian block transforms with the `repMat` of its two shells, the assembled array
  transforms with `basisRep`.
* §5 `overlap_array_moved`, `kinetic_array_moved`, `pointCharge_array_moved` (charges moved along),
  and the same for the flat arrays `assemble2 …` (`overlap_flat_moved`, …).
* §6 `basisFnE_moved`: `basisRep` is the matrix by which the basis functions themselves transform.
-/
open Finset

namespace GB

/-! ## 1. The moved basis -/
section Moved
variable (b : Basis ℝ) (g : E3 ≃ᵃⁱ[ℝ] E3)

/-- **the moved basis**: every shell carried along by the rigid motion `g` -/
noncomputable def Basis.moved (b : Basis ℝ) (g : E3 ≃ᵃⁱ[ℝ] E3) : Basis ℝ :=
  b.map fun s => s.moved g

@[simp] lemma Shell.moved_nseg (s : Shell ℝ) (g : E3 → E3) : (s.moved g).nseg = s.nseg := rfl
@[simp] lemma Shell.moved_nfun (s : Shell ℝ) (g : E3 → E3) : (s.moved g).nfun = s.nfun := rfl
@[simp] lemma Shell.moved_size (s : Shell ℝ) (g : E3 → E3) : (s.moved g).size = s.size := rfl
@[simp] lemma Shell.moved_sph (s : Shell ℝ) (g : E3 → E3) : (s.moved g).sph = s.sph := rfl

@[simp] theorem Basis.moved_size : (b.moved g).size = b.size := by simp [Basis.moved]

theorem Basis.moved_getElem (i : ℕ) (hi : i < b.size) (hi' : i < (b.moved g).size) :
    (b.moved g)[i] = b[i].moved g := by
  simp [Basis.moved]

theorem Basis.moved_getElem? (i : ℕ) :
    (b.moved g)[i]? = (b[i]?).map fun s => s.moved g := by
  simp [Basis.moved]

theorem Basis.moved_getElem! (i : ℕ) (hi : i < b.size) :
    (b.moved g)[i]! = b[i]!.moved g := by
  have hi' : i < (b.moved g).size := by simpa using hi
  rw [getElem!_pos (b.moved g) i hi', getElem!_pos b i hi, Basis.moved_getElem b g i hi hi']

theorem Basis.moved_toList_sizes :
    (b.moved g).toList.map Shell.size = b.toList.map Shell.size := by
  simp only [Basis.moved, Array.toList_map, List.map_map]
  rfl

theorem Basis.moved_total : (b.moved g).total = b.total := by
  rw [total_eq_sum, total_eq_sum, Basis.moved_toList_sizes]

theorem Basis.moved_offset (i : ℕ) : (b.moved g).offset i = b.offset i := by
  rw [offset_eq_sum, offset_eq_sum, List.map_take, List.map_take, Basis.moved_toList_sizes]

theorem locate_go_moved (fuel i r : ℕ) :
    Basis.locate.go (b.moved g) i fuel r = Basis.locate.go b i fuel r := by
  induction fuel generalizing i r with
  | zero => rw [Basis.locate.go, Basis.locate.go]
  | succ fuel ih =>
    rw [Basis.locate.go, Basis.locate.go, Basis.moved_getElem?]
    cases h : b[i]? with
    | none => rfl
    | some s =>
      simp only [Option.map_some, Shell.moved_size, Shell.moved_nfun, ih]

theorem Basis.moved_locate (r : ℕ) : (b.moved g).locate r = b.locate r := by
  unfold Basis.locate
  rw [Basis.moved_size]
  exact locate_go_moved b g b.size 0 r

theorem segOf_moved (r : ℕ) : segOf (b.moved g) r = segOf b r := by
  unfold segOf; rw [Basis.moved_locate]

theorem funOf_moved (r : ℕ) : funOf (b.moved g) r = funOf b r := by
  unfold funOf; rw [Basis.moved_locate]

theorem shellOf_moved (r : ℕ) (hr : r < b.total) :
    shellOf (b.moved g) r = (shellOf b r).moved g := by
  obtain ⟨hi, -⟩ := locate_lt b r hr
  unfold shellOf
  rw [Basis.moved_locate, Basis.moved_getElem! b g _ hi]

end Moved

/-! ## 2. The representation matrices of a shell and of the basis -/
section Rep

/-- hypotheses on a shell under which its functions transform among themselves under every rigid
motion: positive exponents, a full Cartesian component list (`FullCart`), and, if the shell is
spherical, `l ≤ 10` and an accepted spherical order -/
structure Shell.Movable (s : Shell ℝ) : Prop where
  exps_pos : ∀ k < s.nprim, 0 < s.exp! k
  full_cart : FullCart s.l s.cart
  sph_ok : s.sph = true → s.l ≤ 10 ∧ ValidSph s.l s.sphOrd

/-- every shell of the basis is `Shell.Movable` -/
def Basis.Movable (b : Basis ℝ) : Prop := ∀ (i : ℕ) (hi : i < b.size), b[i].Movable

theorem Shell.Movable.moved {s : Shell ℝ} (hs : s.Movable) (g : E3 → E3) : (s.moved g).Movable :=
  ⟨hs.exps_pos, hs.full_cart, hs.sph_ok⟩

theorem Basis.Movable.expsPos {b : Basis ℝ} (hb : b.Movable) : b.ExpsPos :=
  fun i hi => (hb i hi).exps_pos

theorem Basis.Movable.moved {b : Basis ℝ} (hb : b.Movable) (g : E3 ≃ᵃⁱ[ℝ] E3) :
    (b.moved g).Movable := by
  intro i hi
  have hi' : i < b.size := by simpa using hi
  rw [Basis.moved_getElem b g i hi' hi]
  exact (hb i hi').moved g

/-- a regular basis (`Basis.Regular`: spherical shells with the default component list, `l ≤ 10` and an
accepted label list) whose Cartesian shells have full component lists is movable -/
theorem Basis.Movable.of_regular {b : Basis ℝ} (hb : b.Regular)
    (hfull : ∀ (i : ℕ) (hi : i < b.size), b[i].sph = false → FullCart b[i].l b[i].cart) :
    b.Movable := by
  intro i hi
  refine ⟨hb.exps_pos i hi, ?_, fun hsph => ?_⟩
  · cases hsph : b[i].sph with
    | false => exact hfull i hi hsph
    | true =>
      obtain ⟨-, hcart, -⟩ := hb.sph_ok i hi hsph
      rw [hcart]; exact fullCart_defaultCart _
  · obtain ⟨hl, -, labels, hord⟩ := hb.sph_ok i hi hsph
    exact ⟨hl, validSph_of_validSphOrder hord⟩

theorem shellOf_movable (b : Basis ℝ) (hb : b.Movable) (r : ℕ) (hr : r < b.total) :
    (shellOf b r).Movable := by
  obtain ⟨hi, -⟩ := locate_lt b r hr
  rw [shellOf_eq b r hi]; exact hb _ hi

/-- **the representation matrix of a shell in its own coordinate type** under the linear map `R`:
`repMat` (Cartesian components) for a Cartesian shell, `sphRep` (pure functions) for a spherical
shell -/
noncomputable def shellRep (R : E3 →ₗ[ℝ] E3) (s : Shell ℝ) (f f' : ℕ) : ℝ :=
  if s.sph then sphRep R s.l s.sphOrd f f' else repMat R s.cart f f'

/-- **the representation matrix of the basis**: block diagonal; `0` unless `r` and `r'` belong to the
same shell and the same segment, `shellRep` of that shell on the function numbers otherwise -/
noncomputable def basisRep (b : Basis ℝ) (R : E3 →ₗ[ℝ] E3) (r r' : ℕ) : ℝ :=
  if (b.locate r).1 = (b.locate r').1 ∧ (b.locate r).2.1 = (b.locate r').2.1 then
    shellRep R (shellOf b r) (funOf b r) (funOf b r')
  else 0

/-- `locate_lt` in terms of `shellOf`, `segOf`, `funOf` -/
theorem locate_lt' (b : Basis ℝ) (r : ℕ) (hr : r < b.total) :
    (b.locate r).1 < b.size ∧ segOf b r < (shellOf b r).nseg ∧ funOf b r < (shellOf b r).nfun
      ∧ b.offset (b.locate r).1 + segOf b r * (shellOf b r).nfun + funOf b r = r := by
  obtain ⟨hi, hm, hf, hrr⟩ := locate_lt b r hr
  rw [shellOf_eq b r hi]
  exact ⟨hi, hm, hf, hrr⟩

/-- `locate_offset` in terms of `b[i]!` -/
theorem locate_offset'' (b : Basis ℝ) (i : ℕ) (hi : i < b.size) (m f : ℕ)
    (hm : m < b[i]!.nseg) (hf : f < b[i]!.nfun) :
    b.locate (b.offset i + m * b[i]!.nfun + f) = (i, m, f) := by
  rw [getElem!_pos b i hi] at hm hf ⊢
  exact locate_offset b i hi m f hm hf

theorem offset_lt_total (b : Basis ℝ) (i : ℕ) (hi : i < b.size) (m f : ℕ)
    (hm : m < b[i]!.nseg) (hf : f < b[i]!.nfun) :
    b.offset i + m * b[i]!.nfun + f < b.total := by
  rw [getElem!_pos b i hi] at hm hf ⊢
  have h1 := seg_fun_lt_size hm hf
  have h2 := offset_add_size_le_total b i hi
  omega

/-- **a row of `basisRep` lives on the functions of the shell and segment of `r`** -/
theorem sum_basisRep (b : Basis ℝ) (R : E3 →ₗ[ℝ] E3) (r : ℕ) (hr : r < b.total) (X : ℕ → ℝ) :
    ∑ r' ∈ range b.total, basisRep b R r r' * X r'
      = ∑ f' ∈ range (shellOf b r).nfun, shellRep R (shellOf b r) (funOf b r) f'
          * X (b.offset (b.locate r).1 + segOf b r * (shellOf b r).nfun + f') := by
  obtain ⟨hi, hm, hf, hrr⟩ := locate_lt' b r hr
  set φ : ℕ → ℕ := fun f' => b.offset (b.locate r).1 + segOf b r * (shellOf b r).nfun + f' with hφ
  have hloc : ∀ f' < (shellOf b r).nfun, b.locate (φ f') = ((b.locate r).1, segOf b r, f') :=
    fun f' hf' => locate_offset'' b _ hi _ f' hm hf'
  have hinj : ∀ x ∈ range (shellOf b r).nfun, ∀ y ∈ range (shellOf b r).nfun, φ x = φ y → x = y := by
    intro x _ y _ h
    simp only [hφ] at h
    omega
  have h1 : ∑ f' ∈ range (shellOf b r).nfun, shellRep R (shellOf b r) (funOf b r) f' * X (φ f')
      = ∑ f' ∈ range (shellOf b r).nfun, basisRep b R r (φ f') * X (φ f') := by
    refine Finset.sum_congr rfl fun f' hf' => ?_
    have hl := hloc f' (Finset.mem_range.mp hf')
    unfold basisRep funOf
    rw [hl, if_pos ⟨rfl, rfl⟩]
  rw [h1, ← Finset.sum_image (f := fun r' => basisRep b R r r' * X r') hinj]
  symm
  refine Finset.sum_subset ?_ ?_
  · intro x hx
    obtain ⟨f', hf', rfl⟩ := Finset.mem_image.mp hx
    exact Finset.mem_range.mpr (offset_lt_total b _ hi _ f' hm (Finset.mem_range.mp hf'))
  · intro r' hr' hnot
    obtain ⟨hi', hm', hf', hrr'⟩ := locate_lt' b r' (Finset.mem_range.mp hr')
    unfold basisRep
    rw [if_neg, zero_mul]
    rintro ⟨e1, e2⟩
    apply hnot
    have hsh : shellOf b r' = shellOf b r := by unfold shellOf; rw [e1]
    refine Finset.mem_image.mpr ⟨funOf b r', ?_, ?_⟩
    · rw [← hsh]; exact Finset.mem_range.mpr hf'
    · have h3 := hrr'
      rw [hsh] at h3
      simp only [hφ]
      unfold segOf at h3 ⊢
      rw [e1, e2]
      exact h3

end Rep

/-! ## 3. The weights of the assembly intertwine `repMat` and `shellRep` -/
section Weights

/-- the weights of a movable shell in closed form: the per-segment norm `segNorm` times the
Cartesian → spherical matrix (spherical shell) or the unit matrix (Cartesian shell) -/
theorem cwS_eq (s : Shell ℝ) (hs : s.Movable) (m f a : ℕ) (ha : a < s.ncart) :
    cwS s m f a
      = if s.sph then s.transTab.get2 f a * segNorm s m else if a = f then segNorm s m else 0 := by
  unfold cwS
  cases hsph : s.sph with
  | true =>
    simp only [if_true, Shell.weights, tab3_get, hsph]
    rw [normCont_eq_segNorm s hs.exps_pos hs.full_cart m ha]
  | false =>
    simp only [Bool.false_eq_true, if_false, Shell.weights, tab3_get, hsph, beq_self_eq_true,
      if_true]
    by_cases h : a = f
    · rw [if_pos h, if_pos h, ← h, normCont_eq_segNorm s hs.exps_pos hs.full_cart m ha]
    · rw [if_neg h, if_neg h]

theorem cwS_moved_eq (g : E3 ≃ᵃⁱ[ℝ] E3) (s : Shell ℝ) (hs : s.Movable) (m f a : ℕ)
    (ha : a < s.ncart) :
    cwS (s.moved g) m f a
      = if s.sph then s.transTab.get2 f a * segNorm s m else if a = f then segNorm s m else 0 := by
  rw [cwS_eq (s.moved g) (hs.moved g) m f a ha]
  rfl

/-- **the weights intertwine the Cartesian representation with the representation of the shell in
its own coordinate type**: `Σ_a w'[m,f,a] · D(a,a') = Σ_f' W(f,f') · w[m,f',a']`, with `w'` the
weights of the moved shell (equal to those of the original shell), `D = repMat`, `W = shellRep`. -/
theorem cwS_moved_mul_repMat (g : E3 ≃ᵃⁱ[ℝ] E3) (s : Shell ℝ) (hs : s.Movable) (m f a' : ℕ)
    (hf : f < s.nfun) (ha' : a' < s.ncart) :
    ∑ a ∈ range s.ncart, cwS (s.moved g) m f a * repMat (linPart g) s.cart a a'
      = ∑ f' ∈ range s.nfun, shellRep (linPart g) s f f' * cwS s m f' a' := by
  have e1 : ∀ a ∈ range s.ncart, cwS (s.moved g) m f a * repMat (linPart g) s.cart a a'
      = (if s.sph then s.transTab.get2 f a * segNorm s m else if a = f then segNorm s m else 0)
        * repMat (linPart g) s.cart a a' := fun a ha => by
    rw [cwS_moved_eq g s hs m f a (Finset.mem_range.mp ha)]
  have e2 : ∀ f' ∈ range s.nfun, shellRep (linPart g) s f f' * cwS s m f' a'
      = shellRep (linPart g) s f f'
        * (if s.sph then s.transTab.get2 f' a' * segNorm s m
            else if a' = f' then segNorm s m else 0) := fun f' _ => by
    rw [cwS_eq s hs m f' a' ha']
  rw [Finset.sum_congr rfl e1, Finset.sum_congr rfl e2]
  unfold shellRep
  cases hsph : s.sph with
  | true =>
    obtain ⟨hl, hv⟩ := hs.sph_ok hsph
    have hn : s.nfun = s.sphOrd.length := by simp [Shell.nfun, hsph]
    simp only [if_true]
    rw [hn] at hf ⊢
    have h := transTab_mul_sphRep g s hl hv hs.full_cart hf ha'
    calc ∑ a ∈ range s.ncart, s.transTab.get2 f a * segNorm s m * repMat (linPart g) s.cart a a'
        = segNorm s m * ∑ a ∈ range s.ncart, s.transTab.get2 f a * repMat (linPart g) s.cart a a' := by
          rw [Finset.mul_sum]; exact Finset.sum_congr rfl fun a _ => by ring
      _ = segNorm s m * ∑ f' ∈ range s.sphOrd.length,
            sphRep (linPart g) s.l s.sphOrd f f' * s.transTab.get2 f' a' := by rw [h]
      _ = _ := by
          rw [Finset.mul_sum]; exact Finset.sum_congr rfl fun a _ => by ring
  | false =>
    have hn : s.nfun = s.ncart := by simp [Shell.nfun, hsph, Shell.ncart]
    simp only [Bool.false_eq_true, if_false]
    rw [hn] at hf ⊢
    rw [Finset.sum_eq_single f, Finset.sum_eq_single a']
    · simp only [if_true]; ring
    · intro f' _ hne
      rw [if_neg (Ne.symm hne), mul_zero]
    · intro h; exact absurd (Finset.mem_range.mpr ha') h
    · intro a _ hne
      rw [if_neg hne, zero_mul]
    · intro h; exact absurd (Finset.mem_range.mpr hf) h

end Weights

/-! ## 4. The generic lemma: blocks that transform with `repMat` give arrays that transform with
`basisRep` -/
section Generic

/-- one index: `Σ_a u_a Σ_a' D(a,a') X(a') = Σ_f' W(f') Σ_a' c(f',a') X(a')` if
`Σ_a u_a D(a,a') = Σ_f' W(f') c(f',a')` -/
theorem intertwine_stage (Sa Sf : Finset ℕ) (u : ℕ → ℝ) (D : ℕ → ℕ → ℝ) (W : ℕ → ℝ)
    (c : ℕ → ℕ → ℝ)
    (h : ∀ a' ∈ Sa, ∑ a ∈ Sa, u a * D a a' = ∑ f' ∈ Sf, W f' * c f' a') (X : ℕ → ℝ) :
    ∑ a ∈ Sa, u a * ∑ a' ∈ Sa, D a a' * X a' = ∑ f' ∈ Sf, W f' * ∑ a' ∈ Sa, c f' a' * X a' := by
  calc ∑ a ∈ Sa, u a * ∑ a' ∈ Sa, D a a' * X a'
      = ∑ a ∈ Sa, ∑ a' ∈ Sa, u a * D a a' * X a' := by
        refine Finset.sum_congr rfl fun a _ => ?_
        rw [Finset.mul_sum]; exact Finset.sum_congr rfl fun a' _ => by ring
    _ = ∑ a' ∈ Sa, (∑ a ∈ Sa, u a * D a a') * X a' := by
        rw [Finset.sum_comm]
        exact Finset.sum_congr rfl fun a' _ => by rw [Finset.sum_mul]
    _ = ∑ a' ∈ Sa, (∑ f' ∈ Sf, W f' * c f' a') * X a' :=
        Finset.sum_congr rfl fun a' ha' => by rw [h a' ha']
    _ = ∑ a' ∈ Sa, ∑ f' ∈ Sf, W f' * c f' a' * X a' :=
        Finset.sum_congr rfl fun a' _ => by rw [Finset.sum_mul]
    _ = ∑ f' ∈ Sf, W f' * ∑ a' ∈ Sa, c f' a' * X a' := by
        rw [Finset.sum_comm]
        refine Finset.sum_congr rfl fun f' _ => ?_
        rw [Finset.mul_sum]; exact Finset.sum_congr rfl fun a' _ => by ring

/-- **Shell-pair level.**  If the raw Cartesian block `blk'` of the moved pair is the `repMat`
transform of the raw block `blk` of the original pair (on the segments `m`, `n`), then the normalised,
transformed block of the moved pair is the `shellRep` transform of that of the original pair. -/
theorem wBlock2_moved_of_block (g : E3 ≃ᵃⁱ[ℝ] E3) (s t : Shell ℝ) (hs : s.Movable) (ht : t.Movable)
    (blk blk' : Tab4 ℝ) (m n : ℕ)
    (h : ∀ a < s.ncart, ∀ c < t.ncart, blk'.get4 m a n c
      = ∑ a' ∈ range s.ncart, ∑ c' ∈ range t.ncart,
          repMat (linPart g) s.cart a a' * repMat (linPart g) t.cart c c' * blk.get4 m a' n c')
    (f k : ℕ) (hf : f < s.nfun) (hk : k < t.nfun) :
    (wBlock2 (s.moved g) (t.moved g) (s.moved g).weights (t.moved g).weights blk').get4 m f n k
      = ∑ f' ∈ range s.nfun, ∑ k' ∈ range t.nfun,
          shellRep (linPart g) s f f' * shellRep (linPart g) t k k'
            * (wBlock2 s t s.weights t.weights blk).get4 m f' n k' := by
  rw [wBlock2_get4_eq_sum (s.moved g) (t.moved g) blk' m f n k hf hk]
  simp only [Shell.moved_ncart]
  -- the original blocks as sums
  have hR : ∀ f' ∈ range s.nfun, ∀ k' ∈ range t.nfun,
      (wBlock2 s t s.weights t.weights blk).get4 m f' n k'
        = ∑ a' ∈ range s.ncart, cwS s m f' a'
            * ∑ c' ∈ range t.ncart, cwS t n k' c' * blk.get4 m a' n c' := by
    intro f' hf' k' hk'
    rw [wBlock2_get4_eq_sum s t blk m f' n k' (Finset.mem_range.mp hf') (Finset.mem_range.mp hk')]
    refine Finset.sum_congr rfl fun a' _ => ?_
    rw [Finset.mul_sum]; exact Finset.sum_congr rfl fun c' _ => by ring
  -- the left-hand side, index by index
  have hL : ∑ a ∈ range s.ncart, ∑ c ∈ range t.ncart,
        cwS (s.moved g) m f a * cwS (t.moved g) n k c * blk'.get4 m a n c
      = ∑ a ∈ range s.ncart, cwS (s.moved g) m f a * ∑ a' ∈ range s.ncart,
          repMat (linPart g) s.cart a a' * ∑ c ∈ range t.ncart, cwS (t.moved g) n k c
            * ∑ c' ∈ range t.ncart, repMat (linPart g) t.cart c c' * blk.get4 m a' n c' := by
    refine Finset.sum_congr rfl fun a ha => ?_
    have e : ∀ c ∈ range t.ncart, cwS (s.moved g) m f a * cwS (t.moved g) n k c * blk'.get4 m a n c
        = cwS (s.moved g) m f a * ∑ a' ∈ range s.ncart, repMat (linPart g) s.cart a a'
            * (cwS (t.moved g) n k c
              * ∑ c' ∈ range t.ncart, repMat (linPart g) t.cart c c' * blk.get4 m a' n c') := by
      intro c hc
      rw [h a (Finset.mem_range.mp ha) c (Finset.mem_range.mp hc), Finset.mul_sum, Finset.mul_sum]
      refine Finset.sum_congr rfl fun a' _ => ?_
      rw [Finset.mul_sum, Finset.mul_sum, Finset.mul_sum, Finset.mul_sum]
      exact Finset.sum_congr rfl fun c' _ => by ring
    rw [Finset.sum_congr rfl e, ← Finset.mul_sum, Finset.sum_comm]
    congr 1
    refine Finset.sum_congr rfl fun a' _ => ?_
    rw [Finset.mul_sum]
  rw [hL]
  rw [intertwine_stage (range s.ncart) (range s.nfun) (cwS (s.moved g) m f)
    (repMat (linPart g) s.cart) (shellRep (linPart g) s f) (cwS s m)
    (fun a' ha' => cwS_moved_mul_repMat g s hs m f a' hf (Finset.mem_range.mp ha'))]
  refine Finset.sum_congr rfl fun f' hf' => ?_
  have e3 : ∀ a' ∈ range s.ncart, cwS s m f' a' * ∑ c ∈ range t.ncart, cwS (t.moved g) n k c
        * ∑ c' ∈ range t.ncart, repMat (linPart g) t.cart c c' * blk.get4 m a' n c'
      = cwS s m f' a' * ∑ k' ∈ range t.nfun, shellRep (linPart g) t k k'
        * ∑ c' ∈ range t.ncart, cwS t n k' c' * blk.get4 m a' n c' := by
    intro a' _
    rw [intertwine_stage (range t.ncart) (range t.nfun) (cwS (t.moved g) n k)
      (repMat (linPart g) t.cart) (shellRep (linPart g) t k) (cwS t n)
      (fun c' hc' => cwS_moved_mul_repMat g t ht n k c' hk (Finset.mem_range.mp hc'))]
  rw [Finset.sum_congr rfl e3]
  have e4 : ∀ k' ∈ range t.nfun, shellRep (linPart g) s f f' * shellRep (linPart g) t k k'
        * (wBlock2 s t s.weights t.weights blk).get4 m f' n k'
      = shellRep (linPart g) s f f' * (shellRep (linPart g) t k k'
        * ∑ a' ∈ range s.ncart, cwS s m f' a'
            * ∑ c' ∈ range t.ncart, cwS t n k' c' * blk.get4 m a' n c') := by
    intro k' hk'
    rw [hR f' hf' k' hk']; ring
  rw [Finset.sum_congr rfl e4, ← Finset.mul_sum]
  congr 1
  -- Σ_a' w Σ_k' W X = Σ_k' W Σ_a' w X
  calc ∑ a' ∈ range s.ncart, cwS s m f' a' * ∑ k' ∈ range t.nfun, shellRep (linPart g) t k k'
          * ∑ c' ∈ range t.ncart, cwS t n k' c' * blk.get4 m a' n c'
      = ∑ a' ∈ range s.ncart, ∑ k' ∈ range t.nfun, shellRep (linPart g) t k k'
          * (cwS s m f' a' * ∑ c' ∈ range t.ncart, cwS t n k' c' * blk.get4 m a' n c') := by
        refine Finset.sum_congr rfl fun a' _ => ?_
        rw [Finset.mul_sum]; exact Finset.sum_congr rfl fun k' _ => by ring
    _ = _ := by
        rw [Finset.sum_comm]
        exact Finset.sum_congr rfl fun k' _ => by rw [Finset.mul_sum]

/-- **Array level (the generic lemma).**  If, for every pair of shells of a movable basis, the raw
Cartesian block `blk' i j` used for the moved basis is the `repMat` transform of the raw block
`blk i j` used for the original basis (slice `e`), then every entry of the assembled array of the
moved basis is the `basisRep` transform of the assembled array of the original basis. -/
theorem entry2_moved_of_blocks (g : E3 ≃ᵃⁱ[ℝ] E3) (b : Basis ℝ) (hb : b.Movable) (nextra : ℕ)
    (blk blk' : ℕ → ℕ → Tab (Tab4 ℝ)) (e : ℕ)
    (h : ∀ (i j : ℕ) (hi : i < b.size) (hj : j < b.size) (m n : ℕ),
      ∀ a < b[i].ncart, ∀ c < b[j].ncart, ((blk' i j).get e).get4 m a n c
        = ∑ a' ∈ range b[i].ncart, ∑ c' ∈ range b[j].ncart,
            repMat (linPart g) b[i].cart a a' * repMat (linPart g) b[j].cart c c'
              * ((blk i j).get e).get4 m a' n c')
    (r c : ℕ) (hr : r < b.total) (hc : c < b.total) :
    entry2 (b.moved g) (b.moved g) (pairBlocks (b.moved g) (b.moved g) nextra blk') r c e
      = ∑ r' ∈ range b.total, ∑ c' ∈ range b.total,
          basisRep b (linPart g) r r' * basisRep b (linPart g) c c'
            * entry2 b b (pairBlocks b b nextra blk) r' c' e := by
  obtain ⟨hi, hm, hf, -⟩ := locate_lt b r hr
  obtain ⟨hj, hn, hk, -⟩ := locate_lt b c hc
  have hsr := shellOf_eq b r hi
  have hsc := shellOf_eq b c hj
  -- the right-hand side: sums over the functions of the two shells
  have hR : ∑ r' ∈ range b.total, ∑ c' ∈ range b.total,
        basisRep b (linPart g) r r' * basisRep b (linPart g) c c'
          * entry2 b b (pairBlocks b b nextra blk) r' c' e
      = ∑ r' ∈ range b.total, basisRep b (linPart g) r r' * ∑ c' ∈ range b.total,
          basisRep b (linPart g) c c' * entry2 b b (pairBlocks b b nextra blk) r' c' e := by
    refine Finset.sum_congr rfl fun r' _ => ?_
    rw [Finset.mul_sum]; exact Finset.sum_congr rfl fun c' _ => by ring
  rw [hR, sum_basisRep b _ r hr]
  simp_rw [sum_basisRep b _ c hc]
  rw [hsr, hsc]
  -- the left-hand side: the block of the moved pair
  have hL : entry2 (b.moved g) (b.moved g) (pairBlocks (b.moved g) (b.moved g) nextra blk') r c e
      = (wBlock2 (b[(b.locate r).1].moved g) (b[(b.locate c).1].moved g)
          (b[(b.locate r).1].moved g).weights (b[(b.locate c).1].moved g).weights
          ((blk' (b.locate r).1 (b.locate c).1).get e)).get4
            (b.locate r).2.1 (b.locate r).2.2 (b.locate c).2.1 (b.locate c).2.2 := by
    unfold entry2
    simp only [Basis.moved_locate]
    rw [pairBlocks_get (b.moved g) (b.moved g) nextra blk' _ _ e (by simpa using hi)
      (by simpa using hj), Basis.moved_getElem b g _ hi, Basis.moved_getElem b g _ hj]
  rw [hL, wBlock2_moved_of_block g _ _ (hb _ hi) (hb _ hj) ((blk (b.locate r).1 (b.locate c).1).get e)
    _ _ _ (h _ _ hi hj _ _) _ _ hf hk]
  unfold segOf funOf
  refine Finset.sum_congr rfl fun f' hf' => ?_
  rw [Finset.mul_sum]
  refine Finset.sum_congr rfl fun k' hk' => ?_
  rw [entry2_layout b b nextra blk _ _ hi hj _ f' _ k' e hm (Finset.mem_range.mp hf') hn
    (Finset.mem_range.mp hk')]
  ring

end Generic

/-! ## 5. Overlap, kinetic-energy and point-charge arrays of a moved basis -/
section Arrays

/-- **C12, overlap array of a whole (mixed Cartesian / spherical) basis.**  For a movable basis
(`Basis.Movable`: positive exponents, full Cartesian component lists, and `l ≤ 10` with an accepted
spherical order for the spherical shells) and every rigid motion `g` (translation, proper or improper
rotation, and their compositions), every entry of the overlap array assembled for the moved basis is
`Σ_{r'} Σ_{c'} U(r,r') U(c,c') S(r',c')` with `S` the overlap array of the original basis and
`U = basisRep b (linPart g)` the block-diagonal representation matrix of the basis. -/
theorem overlap_array_moved (g : E3 ≃ᵃⁱ[ℝ] E3) (b : Basis ℝ) (hb : b.Movable) (r c : ℕ)
    (hr : r < b.total) (hc : c < b.total) :
    entry2 (b.moved g) (b.moved g)
        (pairBlocks (b.moved g) (b.moved g) 1 (overlapBlk (b.moved g))) r c 0
      = ∑ r' ∈ range b.total, ∑ c' ∈ range b.total,
          basisRep b (linPart g) r r' * basisRep b (linPart g) c c'
            * entry2 b b (pairBlocks b b 1 (overlapBlk b)) r' c' 0 := by
  refine entry2_moved_of_blocks g b hb 1 (overlapBlk b) (overlapBlk (b.moved g)) 0 ?_ r c hr hc
  intro i j hi hj m n a ha c' hc'
  simp only [overlapBlk, tab_get]
  rw [Basis.moved_getElem! b g i hi, Basis.moved_getElem! b g j hj, getElem!_pos b i hi,
    getElem!_pos b j hj]
  exact overlapBlock_moved g b[i] b[j] m a n c' (hb i hi).exps_pos (hb j hj).exps_pos
    (hb i hi).full_cart (hb j hj).full_cart ha hc'

/-- **C12, kinetic-energy array of a whole basis** under every rigid motion -/
theorem kinetic_array_moved (g : E3 ≃ᵃⁱ[ℝ] E3) (b : Basis ℝ) (hb : b.Movable) (r c : ℕ)
    (hr : r < b.total) (hc : c < b.total) :
    entry2 (b.moved g) (b.moved g)
        (pairBlocks (b.moved g) (b.moved g) 1 (kineticBlk (b.moved g))) r c 0
      = ∑ r' ∈ range b.total, ∑ c' ∈ range b.total,
          basisRep b (linPart g) r r' * basisRep b (linPart g) c c'
            * entry2 b b (pairBlocks b b 1 (kineticBlk b)) r' c' 0 := by
  refine entry2_moved_of_blocks g b hb 1 (kineticBlk b) (kineticBlk (b.moved g)) 0 ?_ r c hr hc
  intro i j hi hj m n a ha c' hc'
  simp only [kineticBlk, tab_get]
  rw [Basis.moved_getElem! b g i hi, Basis.moved_getElem! b g j hj, getElem!_pos b i hi,
    getElem!_pos b j hj]
  exact kineticBlock_moved g b[i] b[j] m a n c' (hb i hi).exps_pos (hb j hj).exps_pos
    (hb i hi).full_cart (hb j hj).full_cart ha hc'

/-- **C12, point-charge array of a whole basis**, the charges moved along with the basis: slice `e`
(charge `qs e` at `g (pts e)`) of the array of the moved basis is the `basisRep` transform of slice
`e` (charge `qs e` at `pts e`) of the array of the original basis. -/
theorem pointCharge_array_moved (boysT : ℝ → ℕ → Tab ℝ)
    (hboys : ∀ T n m, m < n → (boysT T n).get m = boys T m) (g : E3 ≃ᵃⁱ[ℝ] E3) (b : Basis ℝ)
    (hb : b.Movable) (np : ℕ) (pts : ℕ → ℕ → ℝ) (qs : ℕ → ℝ) (e r c : ℕ)
    (hr : r < b.total) (hc : c < b.total) :
    entry2 (b.moved g) (b.moved g)
        (pairBlocks (b.moved g) (b.moved g) np
          (pointChargeBlk boysT (b.moved g) np (fun e => movedPt g (pts e)) qs)) r c e
      = ∑ r' ∈ range b.total, ∑ c' ∈ range b.total,
          basisRep b (linPart g) r r' * basisRep b (linPart g) c c'
            * entry2 b b (pairBlocks b b np (pointChargeBlk boysT b np pts qs)) r' c' e := by
  refine entry2_moved_of_blocks g b hb np (pointChargeBlk boysT b np pts qs)
    (pointChargeBlk boysT (b.moved g) np (fun e => movedPt g (pts e)) qs) e ?_ r c hr hc
  intro i j hi hj m n a ha c' hc'
  simp only [pointChargeBlk, tab_get]
  rw [Basis.moved_getElem! b g i hi, Basis.moved_getElem! b g j hj, getElem!_pos b i hi,
    getElem!_pos b j hj]
  exact pointChargeBlock_moved boysT hboys g b[i] b[j] (pts e) (qs e) m a n c'
    (hb i hi).exps_pos (hb j hj).exps_pos (hb i hi).full_cart (hb j hj).full_cart ha hc'

/-! ### the flat arrays `assemble2 …` that the driver prints -/

/-- the generic lemma for the flat arrays -/
theorem assemble2_moved_of_blocks (g : E3 ≃ᵃⁱ[ℝ] E3) (b : Basis ℝ) (hb : b.Movable) (nextra : ℕ)
    (blk blk' : ℕ → ℕ → Tab (Tab4 ℝ)) (e : ℕ) (he : e < nextra)
    (h : ∀ (i j : ℕ) (hi : i < b.size) (hj : j < b.size) (m n : ℕ),
      ∀ a < b[i].ncart, ∀ c < b[j].ncart, ((blk' i j).get e).get4 m a n c
        = ∑ a' ∈ range b[i].ncart, ∑ c' ∈ range b[j].ncart,
            repMat (linPart g) b[i].cart a a' * repMat (linPart g) b[j].cart c c'
              * ((blk i j).get e).get4 m a' n c')
    (r c : ℕ) (hr : r < b.total) (hc : c < b.total) :
    (assemble2 (b.moved g) (b.moved g) nextra blk')[(r * b.total + c) * nextra + e]!
      = ∑ r' ∈ range b.total, ∑ c' ∈ range b.total,
          basisRep b (linPart g) r r' * basisRep b (linPart g) c c'
            * (assemble2 b b nextra blk)[(r' * b.total + c') * nextra + e]! := by
  have hL := assemble2_get (b.moved g) (b.moved g) nextra blk' r c e
    (by rw [Basis.moved_total]; exact hr) (by rw [Basis.moved_total]; exact hc) he
  rw [Basis.moved_total] at hL
  rw [hL, entry2_moved_of_blocks g b hb nextra blk blk' e h r c hr hc]
  refine Finset.sum_congr rfl fun r' hr' => Finset.sum_congr rfl fun c' hc' => ?_
  rw [assemble2_get b b nextra blk r' c' e (Finset.mem_range.mp hr') (Finset.mem_range.mp hc') he]

/-- **C12 for the flat overlap array** `assemble2 b b 1 (overlapBlk b)` (row-major `[r][c]`) -/
theorem overlap_flat_moved (g : E3 ≃ᵃⁱ[ℝ] E3) (b : Basis ℝ) (hb : b.Movable) (r c : ℕ)
    (hr : r < b.total) (hc : c < b.total) :
    (assemble2 (b.moved g) (b.moved g) 1 (overlapBlk (b.moved g)))[(r * b.total + c) * 1 + 0]!
      = ∑ r' ∈ range b.total, ∑ c' ∈ range b.total,
          basisRep b (linPart g) r r' * basisRep b (linPart g) c c'
            * (assemble2 b b 1 (overlapBlk b))[(r' * b.total + c') * 1 + 0]! := by
  refine assemble2_moved_of_blocks g b hb 1 (overlapBlk b) (overlapBlk (b.moved g)) 0 (by omega) ?_
    r c hr hc
  intro i j hi hj m n a ha c' hc'
  simp only [overlapBlk, tab_get]
  rw [Basis.moved_getElem! b g i hi, Basis.moved_getElem! b g j hj, getElem!_pos b i hi,
    getElem!_pos b j hj]
  exact overlapBlock_moved g b[i] b[j] m a n c' (hb i hi).exps_pos (hb j hj).exps_pos
    (hb i hi).full_cart (hb j hj).full_cart ha hc'

/-- **C12 for the flat kinetic-energy array** -/
theorem kinetic_flat_moved (g : E3 ≃ᵃⁱ[ℝ] E3) (b : Basis ℝ) (hb : b.Movable) (r c : ℕ)
    (hr : r < b.total) (hc : c < b.total) :
    (assemble2 (b.moved g) (b.moved g) 1 (kineticBlk (b.moved g)))[(r * b.total + c) * 1 + 0]!
      = ∑ r' ∈ range b.total, ∑ c' ∈ range b.total,
          basisRep b (linPart g) r r' * basisRep b (linPart g) c c'
            * (assemble2 b b 1 (kineticBlk b))[(r' * b.total + c') * 1 + 0]! := by
  refine assemble2_moved_of_blocks g b hb 1 (kineticBlk b) (kineticBlk (b.moved g)) 0 (by omega) ?_
    r c hr hc
  intro i j hi hj m n a ha c' hc'
  simp only [kineticBlk, tab_get]
  rw [Basis.moved_getElem! b g i hi, Basis.moved_getElem! b g j hj, getElem!_pos b i hi,
    getElem!_pos b j hj]
  exact kineticBlock_moved g b[i] b[j] m a n c' (hb i hi).exps_pos (hb j hj).exps_pos
    (hb i hi).full_cart (hb j hj).full_cart ha hc'

/-- **C12 for the flat point-charge array** (`[r][c][e]`, the charges moved along) -/
theorem pointCharge_flat_moved (boysT : ℝ → ℕ → Tab ℝ)
    (hboys : ∀ T n m, m < n → (boysT T n).get m = boys T m) (g : E3 ≃ᵃⁱ[ℝ] E3) (b : Basis ℝ)
    (hb : b.Movable) (np : ℕ) (pts : ℕ → ℕ → ℝ) (qs : ℕ → ℝ) (e r c : ℕ) (he : e < np)
    (hr : r < b.total) (hc : c < b.total) :
    (assemble2 (b.moved g) (b.moved g) np
        (pointChargeBlk boysT (b.moved g) np (fun e => movedPt g (pts e)) qs))[
          (r * b.total + c) * np + e]!
      = ∑ r' ∈ range b.total, ∑ c' ∈ range b.total,
          basisRep b (linPart g) r r' * basisRep b (linPart g) c c'
            * (assemble2 b b np (pointChargeBlk boysT b np pts qs))[(r' * b.total + c') * np + e]! := by
  refine assemble2_moved_of_blocks g b hb np (pointChargeBlk boysT b np pts qs)
    (pointChargeBlk boysT (b.moved g) np (fun e => movedPt g (pts e)) qs) e he ?_ r c hr hc
  intro i j hi hj m n a ha c' hc'
  simp only [pointChargeBlk, tab_get]
  rw [Basis.moved_getElem! b g i hi, Basis.moved_getElem! b g j hj, getElem!_pos b i hi,
    getElem!_pos b j hj]
  exact pointChargeBlock_moved boysT hboys g b[i] b[j] (pts e) (qs e) m a n c'
    (hb i hi).exps_pos (hb j hj).exps_pos (hb i hi).full_cart (hb j hj).full_cart ha hc'

end Arrays

/-! ## 6. `basisRep` is the representation on the basis functions themselves -/
section Functions

/-- **The basis functions of the moved basis**: `χ^{moved}_r (g x) = Σ_{r'} U(r,r') χ_{r'}(x)` with
`U = basisRep b (linPart g)` — the matrix in the array theorems is the matrix by which the basis
functions of the assembled arrays (contraction norms and Cartesian → spherical transformation
included) transform under the rigid motion. -/
theorem basisFnE_moved (g : E3 ≃ᵃⁱ[ℝ] E3) (b : Basis ℝ) (hb : b.Movable) (r : ℕ) (hr : r < b.total)
    (x : E3) :
    basisFnE (b.moved g) r (g x)
      = ∑ r' ∈ range b.total, basisRep b (linPart g) r r' * basisFnE b r' x := by
  obtain ⟨hi, hm, hf, -⟩ := locate_lt' b r hr
  have hs := shellOf_movable b hb r hr
  rw [sum_basisRep b _ r hr]
  unfold basisFnE basisLin cw
  rw [shellOf_moved b g r hr, segOf_moved, funOf_moved]
  simp only [Shell.moved_ncart]
  have e1 : ∀ a ∈ range (shellOf b r).ncart,
      cwS ((shellOf b r).moved g) (segOf b r) (funOf b r) a
          * shellFnE ((shellOf b r).moved g) (segOf b r) a (g x)
        = cwS ((shellOf b r).moved g) (segOf b r) (funOf b r) a
          * ∑ a' ∈ range (shellOf b r).ncart, repMat (linPart g) (shellOf b r).cart a a'
            * shellFnE (shellOf b r) (segOf b r) a' x := fun a ha => by
    rw [shellFnE_moved g _ hs.full_cart _ a (Finset.mem_range.mp ha) x]
  rw [Finset.sum_congr rfl e1,
    intertwine_stage (range (shellOf b r).ncart) (range (shellOf b r).nfun)
      (cwS ((shellOf b r).moved g) (segOf b r) (funOf b r)) (repMat (linPart g) (shellOf b r).cart)
      (shellRep (linPart g) (shellOf b r) (funOf b r)) (cwS (shellOf b r) (segOf b r))
      (fun a' ha' => cwS_moved_mul_repMat g _ hs _ _ a' hf (Finset.mem_range.mp ha'))]
  refine Finset.sum_congr rfl fun f' hf' => ?_
  have hl : b.locate (b.offset (b.locate r).1 + segOf b r * (shellOf b r).nfun + f')
      = ((b.locate r).1, segOf b r, f') :=
    locate_offset'' b _ hi _ f' hm (Finset.mem_range.mp hf')
  have h1 : shellOf b (b.offset (b.locate r).1 + segOf b r * (shellOf b r).nfun + f')
      = shellOf b r := by
    show b[(b.locate _).1]! = b[(b.locate r).1]!
    rw [hl]
  have h2 : segOf b (b.offset (b.locate r).1 + segOf b r * (shellOf b r).nfun + f')
      = segOf b r := by
    show (b.locate _).2.1 = _
    rw [hl]
  have h3 : funOf b (b.offset (b.locate r).1 + segOf b r * (shellOf b r).nfun + f') = f' := by
    show (b.locate _).2.2 = _
    rw [hl]
  rw [h1, h2, h3]

end Functions

end GB
