import GBProofs.Harmonics.Defs
import GBProofs.Harmonics.Sound
import GBProofs.Harmonics.Laplace
import GBProofs.Harmonics.Ortho
import GBProofs.Harmonics.OrthoReal
import GBProofs.Harmonics.Phase
import GBProofs.Harmonics.Labels
/-!
# The functions the model generates are the real regular solid harmonics (`l ≤ 10`, every `m`)

Summary of the theorems (all in namespace `GB`); the finite parts are complete enumerations
evaluated by the kernel (`decide +kernel`), the rest are general proofs.

* `laplacian_sound` — the list Laplacian denotes `Σ_i ∂_i²` in `ℚ[x,y,z]` (every list polynomial);
* `harmonic_le_10`, `harmonic_le_10_mv` — every `harmonic l m neg` is harmonic;
* `homogeneous_le_10`, `homogeneous_le_10_mv` — and homogeneous of degree `l`;
* `orthonormal_le_10` — the rational orthonormality table;
* `ortho_reduction`, `rows_orthonormal_le_10`, `rows_orthonormal_valid` — the rows of the
  transformation matrix (real numbers, with the square roots) are orthonormal in the overlap
  metric of the unit-normalised Cartesian functions, for every accepted order and sign choice;
* `reim_spec`, `fPoly_spec`, `fPoly_pole`, `phase_le_10`, `phase_zero_le_10` — azimuthal form
  `c_m = f·Re (x+iy)^m`, `s_m = f·Im (x+iy)^m`, `f` positive at the pole;
* `parseLabel_name`, `parseLabel_range`, `valid_iff_perm`, `transEntryQ_sign`, `defaultSph_valid`
  and the `reject_*` / `accept_*` examples — label conventions and validation.
-/

