import GBModel.Logic
import Mathlib.Algebra.Order.Field.Rat
import Mathlib.Algebra.Order.Ring.Rat
import Mathlib.Algebra.BigOperators.Group.List.Basic
import Mathlib.LinearAlgebra.Matrix.Trace
import Mathlib.Tactic.Linarith
import Mathlib.Tactic.NormNum
import Mathlib.Tactic.Ring

/-!
# Electrostatic potential: decision logic and the transformation identity

* `espMasked_iff` : the (documented) mask drops a nucleus iff `dist < threshold_dist` — no charge
  enters;
* `mask_old_counterexample`, `espMaskedOld_neg_charge`, `espMaskedOld_iff` : the rule of the pinned
  code `Z/d > 1/t` drops the charge-2 nucleus at distance 1.5 for threshold 1 (it should be kept),
  and never drops a nucleus of negative charge, however close; for `Z = 1` the two rules agree;
* `espNuclear_spec` : the nuclear term is `Σ Z/d` over the nuclei with `d ≥ t`;
* `espSizeOk_some`, `espSizeOk_none`, `espSizeOk_shells_irrelevant` : with a transformation of `m`
  rows the density matrix is accepted iff it is `m × m`, whatever the shells; without one iff it is
  `n × n`, `n` the total number of basis functions;
* `esp_transform_identity` : `Σ_ij γ_ij (T V Tᵀ)_ij = Σ_ab (Tᵀ γ T)_ab V_ab` for a rectangular `T` —
  contracting the density matrix with the transformed integrals is the same as contracting the
  back-transformed density matrix with the untransformed integrals.
-/
namespace GB

/-! ## The nucleus mask -/

/-- **The mask is the documented rule** `dist < threshold_dist`, independent of any charge. -/
theorem espMasked_iff (d t : ℚ) (hd : 0 ≤ d) (ht : 0 ≤ t) : espMasked (d * d) t = true ↔ d < t := by
  simp only [espMasked, decide_eq_true_eq]
  exact mul_self_lt_mul_self_iff hd ht |>.symm

theorem espMasked_eq_false_iff (d t : ℚ) (hd : 0 ≤ d) (ht : 0 ≤ t) :
    espMasked (d * d) t = false ↔ t ≤ d := by
  rw [← not_lt, ← espMasked_iff d t hd ht, Bool.not_eq_true]

/-- the old rule, for positive distance and threshold, is `Z·t > d` i.e. `Z/d > 1/t` -/
theorem espMaskedOld_iff (Z d t : ℚ) (hd : 0 < d) (ht : 0 < t) :
    espMaskedOld Z d t = true ↔ Z / d > 1 / t := by
  simp only [espMaskedOld, gt_iff_lt, decide_eq_true_eq]
  rw [div_lt_div_iff₀ ht hd, one_mul]

/-- **The old rule was wrong**: charge 2 at distance 1.5 with threshold 1 was dropped although
`1.5 ≥ 1`. -/
theorem mask_old_counterexample :
    espMaskedOld 2 (3/2) 1 = true ∧ espMasked ((3/2) * (3/2)) 1 = false := by
  constructor
  · simp only [espMaskedOld, decide_eq_true_eq]; norm_num
  · simp only [espMasked, decide_eq_false_iff_not]; norm_num

/-- **The old rule never dropped a negative charge**, however close to the point. -/
theorem espMaskedOld_neg_charge (Z d t : ℚ) (hZ : Z < 0) (hd : 0 < d) (ht : 0 < t) :
    espMaskedOld Z d t = false := by
  simp only [espMaskedOld, gt_iff_lt, decide_eq_false_iff_not, not_lt]
  have : Z * t < 0 := mul_neg_of_neg_of_pos hZ ht
  linarith

/-- in particular there are points with `d < t` that the old rule kept and the documented rule drops -/
theorem mask_old_neg_counterexample :
    espMaskedOld (-1) (1/2) 1 = false ∧ espMasked ((1/2) * (1/2)) 1 = true := by
  constructor
  · exact espMaskedOld_neg_charge (-1) (1/2) 1 (by norm_num) (by norm_num) (by norm_num)
  · simp only [espMasked, decide_eq_true_eq]; norm_num

/-- for unit charge the two rules coincide -/
theorem espMaskedOld_unit_charge (d t : ℚ) (hd : 0 ≤ d) (ht : 0 ≤ t) :
    espMaskedOld 1 d t = espMasked (d * d) t := by
  rw [Bool.eq_iff_iff, espMasked_iff d t hd ht]
  simp [espMaskedOld]

/-! ## The nuclear term -/

theorem espNuclear_aux (t : ℚ) (ht : 0 ≤ t) (l : List (ℚ × ℚ)) (hl : ∀ p ∈ l, 0 ≤ p.2) :
    (l.map fun p => if espMasked (p.2 * p.2) t then 0 else p.1 / p.2).sum
      = ((l.filter fun p => decide (¬ p.2 < t)).map fun p => p.1 / p.2).sum := by
  induction l with
  | nil => rfl
  | cons p l ih =>
    have hp : 0 ≤ p.2 := hl p List.mem_cons_self
    have ih' := ih fun q hq => hl q (List.mem_cons_of_mem _ hq)
    rw [List.map_cons, List.sum_cons, ih', List.filter_cons]
    by_cases h : p.2 < t
    · have hm : espMasked (p.2 * p.2) t = true := (espMasked_iff p.2 t hp ht).mpr h
      simp [hm, h]
    · have hm : espMasked (p.2 * p.2) t = false := by
        rw [espMasked_eq_false_iff p.2 t hp ht]; exact not_lt.mp h
      simp [hm, h]

/-- **The nuclear term** is the sum of `Z/d` over exactly the nuclei at distance `d ≥ t`
(i.e. not `d < t`) from the point. -/
theorem espNuclear_spec (Zs ds : List ℚ) (t : ℚ) (ht : 0 ≤ t) (hds : ∀ d ∈ ds, 0 ≤ d) :
    espNuclear Zs ds t
      = (((Zs.zip ds).filter fun p => decide (¬ p.2 < t)).map fun p => p.1 / p.2).sum := by
  unfold espNuclear
  exact espNuclear_aux t ht (Zs.zip ds) fun p hp => hds p.2 (List.of_mem_zip hp).2

/-- a threshold of 0 keeps every nucleus -/
theorem espNuclear_zero_threshold (Zs ds : List ℚ) (hds : ∀ d ∈ ds, 0 ≤ d) :
    espNuclear Zs ds 0 = ((Zs.zip ds).map fun p => p.1 / p.2).sum := by
  rw [espNuclear_spec Zs ds 0 le_rfl hds]
  congr 1
  rw [List.filter_eq_self.mpr]
  intro p hp
  have := hds p.2 (List.of_mem_zip hp).2
  simpa using this

/-! ## The size check of the density matrix -/

/-- with a transformation of `m` rows: accepted iff the density matrix is `m × m` -/
theorem espSizeOk_some (r c m : ℕ) (sizes : List ℕ) :
    espSizeOk r c sizes (some m) = true ↔ r = m ∧ c = m := by
  simp only [espSizeOk, espExpectedSize, Bool.and_eq_true, beq_iff_eq]
  constructor
  · rintro ⟨h1, h2⟩; exact ⟨h2, h1 ▸ h2⟩
  · rintro ⟨h1, h2⟩; exact ⟨h1.trans h2.symm, h1⟩

/-- the shells play no role when a transformation is given -/
theorem espSizeOk_shells_irrelevant (r c m : ℕ) (sizes sizes' : List ℕ) :
    espSizeOk r c sizes (some m) = espSizeOk r c sizes' (some m) := rfl

/-- without a transformation: accepted iff the density matrix is `n × n`, `n` the total number of
basis functions of the shells -/
theorem espSizeOk_none (r c : ℕ) (sizes : List ℕ) :
    espSizeOk r c sizes none = true ↔ r = sizes.sum ∧ c = sizes.sum := by
  simp only [espSizeOk, espExpectedSize, Bool.and_eq_true, beq_iff_eq]
  constructor
  · rintro ⟨h1, h2⟩; exact ⟨h2, h1 ▸ h2⟩
  · rintro ⟨h1, h2⟩; exact ⟨h1.trans h2.symm, h1⟩

/-- a density matrix in the transformed basis (`m × m`, `m ≠ n`) is accepted with the
transformation and would be rejected without -/
theorem espSizeOk_transformed (m : ℕ) (sizes : List ℕ) (h : m ≠ sizes.sum) :
    espSizeOk m m sizes (some m) = true ∧ espSizeOk m m sizes none = false := by
  refine ⟨(espSizeOk_some m m m sizes).mpr ⟨rfl, rfl⟩, ?_⟩
  rw [← Bool.not_eq_true, espSizeOk_none]
  exact fun hh => h hh.1

/-! ## The transformation identity -/
section Matrix
open Matrix
variable {K : Type} [CommRing K] {m n : ℕ}

/-- entrywise contraction of two matrices as a trace -/
theorem sum_mul_eq_trace {p q : ℕ} (A B : Matrix (Fin p) (Fin q) K) :
    ∑ i, ∑ j, A i j * B i j = (A * Bᵀ).trace := by
  simp only [Matrix.trace, Matrix.diag_apply, Matrix.mul_apply, Matrix.transpose_apply]

/-- **Transformation identity**: `Σ_ij γ_ij (T V Tᵀ)_ij = Σ_ab (Tᵀ γ T)_ab V_ab` for a density matrix
`γ` (`m × m`), a rectangular transformation `T` (`m × n`) and integrals `V` (`n × n`). -/
theorem esp_transform_identity (γ : Matrix (Fin m) (Fin m) K) (T : Matrix (Fin m) (Fin n) K)
    (V : Matrix (Fin n) (Fin n) K) :
    ∑ i, ∑ j, γ i j * (T * V * Tᵀ) i j = ∑ a, ∑ b, (Tᵀ * γ * T) a b * V a b := by
  rw [sum_mul_eq_trace, sum_mul_eq_trace]
  rw [Matrix.transpose_mul, Matrix.transpose_mul, Matrix.transpose_transpose]
  rw [Matrix.mul_assoc Tᵀ γ T, Matrix.mul_assoc Tᵀ (γ * T) Vᵀ, Matrix.trace_mul_comm Tᵀ]
  simp only [Matrix.mul_assoc]

end Matrix


end GB
