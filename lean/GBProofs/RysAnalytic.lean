import GBProofs.OneElecProofs
import GBProofs.GaussIntegral
import Mathlib.MeasureTheory.Integral.IntervalIntegral.FundThmCalculus
import Mathlib.Analysis.SpecialFunctions.Integrals.Basic
import Mathlib.Topology.Algebra.Polynomial
import Mathlib.Analysis.SpecialFunctions.Gaussian.FourierTransform
import Mathlib.MeasureTheory.Function.JacobianOneDim
import Mathlib.MeasureTheory.Integral.Prod

/-!
# Analytic meaning of the Rys-form specification (over ℝ)

* Part A: the Boys function `boys T m = ∫₀¹ t^{2m} e^{-T t²} dt`, its downward recurrence, and
  `boysF (boys T) m w = ∫₀¹ t^{2m} w(t²) e^{-T t²} dt`.
* Part B: the Rys polynomial `rys1` evaluated at `s ∈ [0,1)` is a normalised Gaussian integral.
* Part C: the base case of the nuclear-attraction integral,
  `∫ e^{-p|r-P|²}/|r-C| dr = (2π/p) F₀(p|P-C|²)` in a 3-dimensional real inner product space.
-/
open MeasureTheory Real Polynomial intervalIntegral Set

namespace GB

/-! ## A. The Boys function -/

/-- Boys function `F_m(T) = ∫₀¹ t^{2m} e^{-T t²} dt` -/
noncomputable def boys (T : ℝ) (m : ℕ) : ℝ := ∫ t in (0:ℝ)..1, t^(2*m) * Real.exp (-T * t^2)

lemma boys_integrand_continuous (T : ℝ) (m : ℕ) :
    Continuous fun t : ℝ => t^(2*m) * Real.exp (-T * t^2) := by
  fun_prop

theorem boys_zero_arg (m : ℕ) : boys 0 m = 1 / (2 * (m:ℝ) + 1) := by
  unfold boys
  simp only [neg_zero, zero_mul, Real.exp_zero, mul_one]
  rw [integral_pow]
  simp

theorem boys_downward (T : ℝ) (m : ℕ) :
    (2 * (m:ℝ) + 1) * boys T m = 2 * T * boys T (m+1) + Real.exp (-T) := by
  have hderiv : ∀ t ∈ Set.uIcc (0:ℝ) 1,
      HasDerivAt (fun t : ℝ => t^(2*m+1) * Real.exp (-T * t^2))
        ((2 * (m:ℝ) + 1) * (t^(2*m) * Real.exp (-T * t^2))
          - 2 * T * (t^(2*(m+1)) * Real.exp (-T * t^2))) t := by
    intro t _
    have h1 : HasDerivAt (fun t : ℝ => t^(2*m+1)) (((2*m+1 : ℕ) : ℝ) * t^(2*m)) t := by
      simpa using hasDerivAt_pow (2*m+1) t
    have h2 : HasDerivAt (fun t : ℝ => Real.exp (-T * t ^ 2))
        (Real.exp (-T * t^2) * (-T * (2 * t))) t := by
      have := ((hasDerivAt_pow 2 t).const_mul (-T)).exp
      simpa using this
    have h3 := h1.mul h2
    have e : (2 * (m:ℝ) + 1) * (t^(2*m) * Real.exp (-T * t^2))
          - 2 * T * (t^(2*(m+1)) * Real.exp (-T * t^2))
        = ((2*m+1 : ℕ) : ℝ) * t^(2*m) * Real.exp (-T * t^2)
          + t^(2*m+1) * (Real.exp (-T * t^2) * (-T * (2 * t))) := by
      push_cast
      ring
    rw [e]
    exact h3
  have hint : IntervalIntegrable
      (fun t : ℝ => (2 * (m:ℝ) + 1) * (t^(2*m) * Real.exp (-T * t^2))
          - 2 * T * (t^(2*(m+1)) * Real.exp (-T * t^2))) volume 0 1 := by
    apply Continuous.intervalIntegrable
    fun_prop
  have h := integral_eq_sub_of_hasDerivAt hderiv hint
  rw [intervalIntegral.integral_sub, intervalIntegral.integral_const_mul,
    intervalIntegral.integral_const_mul] at h
  · unfold boys
    simp only [one_pow, mul_one, ne_eq, Nat.add_eq_zero_iff, one_ne_zero, and_false,
      not_false_eq_true, zero_pow, zero_mul, sub_zero] at h
    linarith
  · exact (Continuous.intervalIntegrable (by fun_prop) _ _)
  · exact (Continuous.intervalIntegrable (by fun_prop) _ _)

theorem boys_pos (T : ℝ) (m : ℕ) : 0 < boys T m := by
  unfold boys
  apply intervalIntegral_pos_of_pos_on
  · exact (boys_integrand_continuous T m).intervalIntegrable _ _
  · intro t ht
    exact mul_pos (pow_pos ht.1 _) (Real.exp_pos _)
  · norm_num

theorem boys_anti (T : ℝ) (m : ℕ) : boys T (m+1) ≤ boys T m := by
  unfold boys
  apply integral_mono_on (by norm_num)
  · exact (boys_integrand_continuous T (m+1)).intervalIntegrable _ _
  · exact (boys_integrand_continuous T m).intervalIntegrable _ _
  · intro t ht
    apply mul_le_mul_of_nonneg_right _ (Real.exp_pos _).le
    exact pow_le_pow_of_le_one ht.1 ht.2 (by omega)

lemma boys_poly_integrand_continuous (T : ℝ) (m : ℕ) (w : ℝ[X]) :
    Continuous fun t : ℝ => t^(2*m) * w.eval (t^2) * Real.exp (-T * t^2) := by
  have h : Continuous fun t : ℝ => w.eval (t^2) := w.continuous.comp (continuous_pow 2)
  exact ((continuous_pow (2*m)).mul h).mul (by fun_prop)

/-- the Boys functional of the spec is integration against `t^{2m} e^{-T t²}` on `[0,1]` with
the polynomial evaluated at `s = t²` -/
theorem boysF_eq_integral (T : ℝ) (m : ℕ) (w : ℝ[X]) :
    boysF (boys T) m w = ∫ t in (0:ℝ)..1, t^(2*m) * w.eval (t^2) * Real.exp (-T * t^2) := by
  induction w using Polynomial.induction_on' with
  | add a b ha hb =>
    rw [map_add, ha, hb, ← intervalIntegral.integral_add]
    · congr 1; ext t; simp only [eval_add]; ring
    · exact (boys_poly_integrand_continuous T m a).intervalIntegrable _ _
    · exact (boys_poly_integrand_continuous T m b).intervalIntegrable _ _
  | monomial n a =>
    have h : boysF (boys T) m (monomial n a) = a * boys T (m + n) := by
      rw [boysF, Polynomial.lsum_apply, Polynomial.sum_monomial_index] <;> simp
    rw [h, boys, ← intervalIntegral.integral_const_mul]
    congr 1; ext t
    simp only [eval_monomial]
    ring

/-! ## B. The Rys polynomial at a numeric point -/

section RingHom
variable {R R' : Type*} [CommRing R] [CommRing R']

lemma map_gm (φ : R →+* R') (h : R) : ∀ n, φ (gm h n) = gm (φ h) n
  | 0 => by simp [gm]
  | 1 => by simp [gm]
  | (n+2) => by simp [gm, map_gm φ h n]

lemma map_Gh (φ : R →+* R') (h : R) (q : R[X]) : φ (Gh h q) = Gh (φ h) (q.map φ) := by
  induction q using Polynomial.induction_on' with
  | add a b ha hb => simp [ha, hb]
  | monomial n a => rw [Gh_monomial, Polynomial.map_monomial, Gh_monomial, map_mul, map_gm]

/-- ring homomorphisms commute with the two-centre Gaussian factor -/
theorem map_S2 (φ : R →+* R') (h PA PB : R) (i j : ℕ) :
    φ (S2 h PA PB i j) = S2 (φ h) (φ PA) (φ PB) i j := by
  unfold S2
  rw [map_Gh]
  simp

end RingHom

/-- **Evaluation of the Rys polynomial**: at the point `s` it is the two-centre Gaussian factor
with variance `(1/(2p))(1-s)` and centres shifted by `-s·PC`. -/
theorem rys1_eval {K : Type} [Field K] (p PA PB PC s : K) (i j : ℕ) :
    (rys1 p PA PB PC i j).eval s
      = S2 ((1/(2*p)) * (1 - s)) (PA - s * PC) (PB - s * PC) i j := by
  have h := map_S2 (Polynomial.evalRingHom s) (C (1/(2*p)) * (1 - X)) (C PA - X * C PC)
    (C PB - X * C PC) i j
  unfold rys1
  simp only [coe_evalRingHom, eval_mul, eval_sub, eval_C, eval_X, eval_one] at h
  exact h

section FieldVersion
variable {K : Type} [Field K] [CharZero K]

lemma gm_eq_gmom (p : K) : ∀ n, gm (1/(2*p)) n = gmom p n
  | 0 => rfl
  | 1 => rfl
  | (n+2) => by simp only [gm, gmom, gm_eq_gmom p n]; ring

lemma Gh_eq_G (p : K) (q : K[X]) : Gh (1/(2*p)) q = G p q := by
  induction q using Polynomial.induction_on' with
  | add a b ha hb => rw [map_add, map_add, ha, hb]
  | monomial n a => rw [Gh_monomial, G_monomial, gm_eq_gmom]

theorem S2_eq_G (p PA PB : K) (i j : ℕ) :
    S2 (1/(2*p)) PA PB i j = G p ((X + C PA)^i * (X + C PB)^j) := Gh_eq_G p _

end FieldVersion

/-- the Rys polynomial at `s ∈ [0,1)` is the normalised Gaussian functional of exponent
`p/(1-s)` -/
theorem rys1_eval_eq_G (p PA PB PC s : ℝ) (hs1 : s < 1) (i j : ℕ) :
    (rys1 p PA PB PC i j).eval s
      = G (p / (1 - s)) ((X + C (PA - s * PC))^i * (X + C (PB - s * PC))^j) := by
  have h1 : (1 - s) ≠ 0 := by linarith
  rw [rys1_eval, ← S2_eq_G]
  congr 1
  rw [one_div, one_div, mul_inv, mul_inv, inv_div, div_eq_mul_inv]
  ring

/-- **The Rys polynomial is a normalised Gaussian integral.** For `p > 0`, `0 ≤ s < 1` the
value at `s` of the 1-D Rys factor is the mean of `(x + PA - s·PC)^i (x + PB - s·PC)^j` under the
centred Gaussian of exponent `p' = p/(1-s)`. -/
theorem rys1_eval_eq_integral (p PA PB PC s : ℝ) (hp : 0 < p) (hs1 : s < 1) (i j : ℕ) :
    (rys1 p PA PB PC i j).eval s
      = (∫ x : ℝ, (x + (PA - s * PC))^i * (x + (PB - s * PC))^j * exp (-(p / (1 - s)) * x^2))
        / (∫ x : ℝ, exp (-(p / (1 - s)) * x^2)) := by
  have hb : 0 < p / (1 - s) := div_pos hp (by linarith)
  have hq := integral_poly_mul_gauss hb ((X + C (PA - s * PC))^i * (X + C (PB - s * PC))^j)
  simp only [eval_mul, eval_pow, eval_add, eval_X, eval_C] at hq
  have hsq : √(π / (p / (1 - s))) ≠ 0 := (Real.sqrt_pos.mpr (div_pos Real.pi_pos hb)).ne'
  rw [hq, integral_gaussian, rys1_eval_eq_G p PA PB PC s hs1, mul_div_cancel_left₀ _ hsq]

/-- Gaussian product rule with an arbitrary second exponent `u2` -/
theorem gauss_product_exp (p u2 P Cc x : ℝ) (h : p + u2 ≠ 0) :
    exp (-p * (x - P)^2) * exp (-u2 * (x - Cc)^2)
      = exp (-(p * u2 / (p + u2)) * (P - Cc)^2)
        * exp (-(p + u2) * (x - (p * P + u2 * Cc) / (p + u2))^2) := by
  rw [← Real.exp_add, ← Real.exp_add]
  congr 1
  field_simp
  ring

/-- with `u² = p s/(1-s)` the total exponent is `p/(1-s)` -/
lemma rys_exponent (p s : ℝ) (hs1 : s < 1) : p + p * s / (1 - s) = p / (1 - s) := by
  have h1 : (1 - s) ≠ 0 := by linarith
  field_simp
  ring

/-- with `u² = p s/(1-s)` the product centre is `P - s (P - C)` -/
lemma rys_centre (p s P Cc : ℝ) (hp : p ≠ 0) (hs1 : s < 1) :
    (p * P + p * s / (1 - s) * Cc) / (p + p * s / (1 - s)) = P - s * (P - Cc) := by
  have h1 : (1 - s) ≠ 0 := by linarith
  rw [rys_exponent p s hs1]
  field_simp
  ring

/-- **The Rys polynomial in terms of the original Gaussians.**  For `p > 0`, `0 ≤ s < 1` and
`u² = p s/(1-s)`, the 1-D Rys factor at `s` is the mean of `(x-A)^i (x-B)^j` under the weight
`e^{-p(x-P)²} e^{-u²(x-C)²}`. -/
theorem rys1_eval_eq_weighted_integral (p P A B Cc s : ℝ) (hp : 0 < p) (hs1 : s < 1) (i j : ℕ) :
    (rys1 p (P - A) (P - B) (P - Cc) i j).eval s
      = (∫ x : ℝ, (x - A)^i * (x - B)^j
            * (exp (-p * (x - P)^2) * exp (-(p * s / (1 - s)) * (x - Cc)^2)))
        / (∫ x : ℝ, exp (-p * (x - P)^2) * exp (-(p * s / (1 - s)) * (x - Cc)^2)) := by
  have h1 : 0 < 1 - s := by linarith
  have hb : 0 < p / (1 - s) := div_pos hp h1
  have hne : p + p * s / (1 - s) ≠ 0 := by rw [rys_exponent p s hs1]; exact hb.ne'
  obtain ⟨E, hE⟩ : ∃ E : ℝ, E = exp (-(p * (p * s / (1 - s)) / (p / (1 - s))) * (P - Cc)^2) :=
    ⟨_, rfl⟩
  have hE0 : E ≠ 0 := by rw [hE]; exact (Real.exp_pos _).ne'
  obtain ⟨P', hP'⟩ : ∃ P' : ℝ, P' = P - s * (P - Cc) := ⟨_, rfl⟩
  have hprod : ∀ x : ℝ, exp (-p * (x - P)^2) * exp (-(p * s / (1 - s)) * (x - Cc)^2)
      = E * exp (-(p / (1 - s)) * (x - P')^2) := by
    intro x
    rw [gauss_product_exp p _ P Cc x hne, rys_centre p s P Cc hp.ne' hs1, rys_exponent p s hs1,
      hE, hP']
  simp_rw [hprod]
  rw [rys1_eval_eq_integral p _ _ _ s hp hs1]
  rw [← integral_add_right_eq_self (μ := volume)
      (fun x : ℝ => (x - A)^i * (x - B)^j * (E * exp (-(p / (1 - s)) * (x - P')^2))) P',
    ← integral_add_right_eq_self (μ := volume)
      (fun x : ℝ => E * exp (-(p / (1 - s)) * (x - P')^2)) P']
  have e1 : ∀ x : ℝ, (x + P' - A)^i * (x + P' - B)^j * (E * exp (-(p / (1 - s)) * (x + P' - P')^2))
      = E * ((x + (P - A - s * (P - Cc)))^i * (x + (P - B - s * (P - Cc)))^j
          * exp (-(p / (1 - s)) * x^2)) := by
    intro x
    rw [add_sub_cancel_right, hP']
    ring
  have e2 : ∀ x : ℝ, E * exp (-(p / (1 - s)) * (x + P' - P')^2)
      = E * exp (-(p / (1 - s)) * x^2) := by
    intro x; rw [add_sub_cancel_right]
  simp_rw [e1, e2]
  rw [MeasureTheory.integral_const_mul, MeasureTheory.integral_const_mul,
    mul_div_mul_left _ _ hE0]

/-! ## C. The Coulomb integral of an s-type Gaussian -/

section Coulomb
variable {V : Type*} [NormedAddCommGroup V] [InnerProductSpace ℝ V]

open scoped RealInnerProductSpace

/-- Gaussian product rule in an inner product space (completing the square) -/
lemma norm_sq_product_rule (p u : ℝ) (h : p + u ≠ 0) (r P Cc : V) :
    p * ‖r - P‖^2 + u * ‖r - Cc‖^2
      = (p * u / (p + u)) * ‖P - Cc‖^2
        + (p + u) * ‖r - (p + u)⁻¹ • (p • P + u • Cc)‖^2 := by
  simp only [← real_inner_self_eq_norm_sq, inner_sub_left, inner_sub_right, inner_add_left,
    inner_add_right, real_inner_smul_left, real_inner_smul_right]
  rw [real_inner_comm r P, real_inner_comm r Cc, real_inner_comm P Cc]
  field_simp
  ring

/-- pointwise product rule for two spherical Gaussians -/
lemma gauss3_product_pointwise (p u : ℝ) (h : p + u ≠ 0) (r P Cc : V) :
    exp (-p * ‖r - P‖^2) * exp (-u * ‖r - Cc‖^2)
      = exp (-(p * u / (p + u)) * ‖P - Cc‖^2)
        * exp (-(p + u) * ‖r - (p + u)⁻¹ • (p • P + u • Cc)‖^2) := by
  rw [← Real.exp_add, ← Real.exp_add]
  congr 1
  have := norm_sq_product_rule p u h r P Cc
  linarith

variable [FiniteDimensional ℝ V] [MeasurableSpace V] [BorelSpace V]

lemma rpow_three_half (x : ℝ) (hx : 0 < x) : x ^ ((3:ℝ)/2) = x * √x := by
  rw [show (3:ℝ)/2 = 1 + 1/2 by norm_num, Real.rpow_add hx, Real.rpow_one, Real.sqrt_eq_rpow]


lemma integrable_gauss_norm {b : ℝ} (hb : 0 < b) : Integrable fun v : V => exp (-b * ‖v‖^2) := by
  by_contra hni
  have h0 := integral_undef hni
  rw [GaussianFourier.integral_rexp_neg_mul_sq_norm hb] at h0
  exact (Real.rpow_pos_of_pos (div_pos Real.pi_pos hb) _).ne' h0

lemma integrable_gauss3_product (p u : ℝ) (hp : 0 < p) (hu : 0 ≤ u) (P Cc : V) :
    Integrable fun r : V => exp (-p * ‖r - P‖^2) * exp (-u * ‖r - Cc‖^2) := by
  have hpu : 0 < p + u := by linarith
  simp_rw [gauss3_product_pointwise p u hpu.ne' _ P Cc]
  exact ((integrable_gauss_norm hpu).comp_sub_right _).const_mul _

/-- **Gaussian product integral** in a finite-dimensional real inner product space -/
theorem gauss3_product_integral (p u : ℝ) (hp : 0 < p) (hu : 0 ≤ u) (P Cc : V) :
    ∫ r : V, exp (-p * ‖r - P‖^2) * exp (-u * ‖r - Cc‖^2)
      = exp (-(p * u / (p + u)) * ‖P - Cc‖^2)
        * (π / (p + u)) ^ (Module.finrank ℝ V / 2 : ℝ) := by
  have hpu : 0 < p + u := by linarith
  simp_rw [gauss3_product_pointwise p u hpu.ne' _ P Cc]
  rw [MeasureTheory.integral_const_mul,
    integral_sub_right_eq_self (fun v : V => exp (-(p + u) * ‖v‖^2)),
    GaussianFourier.integral_rexp_neg_mul_sq_norm hpu]

/-- `1/a = (2/√π) ∫₀^∞ e^{-a² w²} dw`, valid also for `a = 0` with the convention `1/0 = 0`
(the integrand is then not integrable and the Bochner integral is `0`) -/
theorem inv_eq_integral_gauss (a : ℝ) (ha : 0 ≤ a) :
    1 / a = 2 / √π * ∫ w in Ioi (0:ℝ), exp (-a^2 * w^2) := by
  rw [integral_gaussian_Ioi, Real.sqrt_div Real.pi_pos.le, Real.sqrt_sq ha]
  have : √π ≠ 0 := (Real.sqrt_pos.mpr Real.pi_pos).ne'
  field_simp

end Coulomb

/-! ### The Rys substitution `t = w/√(p+w²)` -/

/-- the Rys substitution `t = w/√(p+w²)`, mapping `(0,∞)` onto `(0,1)` -/
noncomputable def rysSub (p w : ℝ) : ℝ := w / √(p + w^2)

lemma rysSub_sq (p : ℝ) (hp : 0 < p) (w : ℝ) : (rysSub p w)^2 = w^2 / (p + w^2) := by
  have hq : 0 < p + w^2 := by positivity
  rw [rysSub, div_pow, Real.sq_sqrt hq.le]

lemma rysSub_hasDerivAt (p : ℝ) (hp : 0 < p) (w : ℝ) :
    HasDerivAt (rysSub p) (p / ((p + w^2) * √(p + w^2))) w := by
  have hq : 0 < p + w^2 := by positivity
  have hsq : √(p + w^2) ≠ 0 := (Real.sqrt_pos.mpr hq).ne'
  have h1 : HasDerivAt (fun w : ℝ => p + w^2) (2 * w) w := by
    simpa using ((hasDerivAt_pow 2 w).const_add p)
  have h2 := h1.sqrt hq.ne'
  have h3 := (hasDerivAt_id w).div h2 hsq
  have e : p / ((p + w^2) * √(p + w^2))
      = (1 * √(p + w^2) - id w * (2 * w / (2 * √(p + w^2)))) / √(p + w^2) ^ 2 := by
    rw [Real.sq_sqrt hq.le, id]
    field_simp
    rw [Real.sq_sqrt hq.le]
    ring
  rw [e]
  exact h3

lemma rysSub_image (p : ℝ) (hp : 0 < p) : rysSub p '' Ioi 0 = Ioo 0 1 := by
  ext t
  constructor
  · rintro ⟨w, hw, rfl⟩
    have hw0 : (0:ℝ) < w := hw
    have hq : 0 < p + w^2 := by positivity
    have hsq : 0 < √(p + w^2) := Real.sqrt_pos.mpr hq
    refine ⟨div_pos hw0 hsq, ?_⟩
    rw [rysSub, div_lt_one hsq, Real.lt_sqrt hw0.le]
    linarith
  · rintro ⟨ht0, ht1⟩
    have h1 : 0 < 1 - t^2 := by nlinarith
    have hs1 : 0 < √(1 - t^2) := Real.sqrt_pos.mpr h1
    have hsp : 0 < √p := Real.sqrt_pos.mpr hp
    refine ⟨√p * t / √(1 - t^2), div_pos (mul_pos hsp ht0) hs1, ?_⟩
    have hw2 : p + (√p * t / √(1 - t^2))^2 = p / (1 - t^2) := by
      rw [div_pow, mul_pow, Real.sq_sqrt hp.le, Real.sq_sqrt h1.le]
      field_simp
      ring
    rw [rysSub, hw2, Real.sqrt_div hp.le]
    field_simp

lemma rysSub_injOn (p : ℝ) (hp : 0 < p) : InjOn (rysSub p) (Ioi 0) := by
  have key : ∀ w : ℝ, w^2 = p / (1 - (rysSub p w)^2) - p := by
    intro w
    have hq : 0 < p + w^2 := by positivity
    rw [rysSub_sq p hp]
    have : 1 - w^2 / (p + w^2) = p / (p + w^2) := by field_simp; ring
    rw [this]
    field_simp
    ring
  intro w1 h1 w2 h2 h
  have h1' : (0:ℝ) < w1 := h1
  have h2' : (0:ℝ) < w2 := h2
  have : w1^2 = w2^2 := by rw [key w1, key w2, h]
  exact (pow_left_inj₀ h1'.le h2'.le (by norm_num)).mp this

/-- change of variables `t = w/√(p+w²)` -/
theorem integral_rysSub (p : ℝ) (hp : 0 < p) (g : ℝ → ℝ) :
    ∫ t in Ioo (0:ℝ) 1, g t
      = ∫ w in Ioi (0:ℝ), p / ((p + w^2) * √(p + w^2)) * g (rysSub p w) := by
  rw [← rysSub_image p hp,
    integral_image_eq_integral_abs_deriv_smul measurableSet_Ioi
      (fun w _ => (rysSub_hasDerivAt p hp w).hasDerivWithinAt) (rysSub_injOn p hp) g]
  refine setIntegral_congr_fun measurableSet_Ioi fun w _ => ?_
  have hq : 0 < p + w^2 := by positivity
  have : 0 < p / ((p + w^2) * √(p + w^2)) := by positivity
  simp only [abs_of_pos this, smul_eq_mul]

theorem integrableOn_rysSub (p : ℝ) (hp : 0 < p) (g : ℝ → ℝ) (hg : IntegrableOn g (Ioo 0 1)) :
    IntegrableOn (fun w => p / ((p + w^2) * √(p + w^2)) * g (rysSub p w)) (Ioi 0) := by
  rw [← rysSub_image p hp,
    integrableOn_image_iff_integrableOn_abs_deriv_smul measurableSet_Ioi
      (fun w _ => (rysSub_hasDerivAt p hp w).hasDerivWithinAt) (rysSub_injOn p hp) g] at hg
  refine hg.congr_fun (fun w _ => ?_) measurableSet_Ioi
  have hq : 0 < p + w^2 := by positivity
  have : 0 < p / ((p + w^2) * √(p + w^2)) := by positivity
  simp only [abs_of_pos this, smul_eq_mul]

/-! ### The Coulomb integral of an s-type Gaussian -/

/-- the `w`-integrand left after the spatial integration, in the substituted form -/
lemma gaussK_eq (p D w : ℝ) (hp : 0 < p) :
    exp (-(p * w^2 / (p + w^2)) * D) * (π / (p + w^2)) ^ ((3:ℝ)/2)
      = (π * √π / p) * (p / ((p + w^2) * √(p + w^2)) * exp (-(p * D) * (rysSub p w)^2)) := by
  have hq : 0 < p + w^2 := by positivity
  have hsq : 0 < √(p + w^2) := Real.sqrt_pos.mpr hq
  rw [rpow_three_half _ (div_pos pi_pos hq), Real.sqrt_div pi_pos.le, rysSub_sq p hp]
  have : -(p * w^2 / (p + w^2)) * D = -(p * D) * (w^2 / (p + w^2)) := by ring
  rw [this]
  field_simp

lemma integrableOn_gaussK (p D : ℝ) (hp : 0 < p) :
    IntegrableOn (fun w : ℝ => exp (-(p * w^2 / (p + w^2)) * D) * (π / (p + w^2)) ^ ((3:ℝ)/2))
      (Ioi 0) := by
  simp_rw [gaussK_eq p D _ hp]
  apply Integrable.const_mul
  apply integrableOn_rysSub p hp (fun t => exp (-(p * D) * t^2))
  exact (Continuous.integrableOn_Icc (by fun_prop)).mono_set Ioo_subset_Icc_self

/-- `∫₀^∞ (π/(p+w²))^{3/2} e^{-(p w²/(p+w²)) D} dw = (π√π/p) F₀(pD)` -/
theorem integral_gaussK (p D : ℝ) (hp : 0 < p) :
    ∫ w in Ioi (0:ℝ), exp (-(p * w^2 / (p + w^2)) * D) * (π / (p + w^2)) ^ ((3:ℝ)/2)
      = (π * √π / p) * boys (p * D) 0 := by
  simp_rw [gaussK_eq p D _ hp]
  rw [MeasureTheory.integral_const_mul, ← integral_rysSub p hp (fun t => exp (-(p * D) * t^2))]
  unfold boys
  rw [intervalIntegral.integral_of_le zero_le_one, integral_Ioc_eq_integral_Ioo]
  simp

section Coulomb2
variable {V : Type*} [NormedAddCommGroup V] [InnerProductSpace ℝ V] [FiniteDimensional ℝ V]
  [MeasurableSpace V] [BorelSpace V]

/-- **Base case of the nuclear-attraction integral.**  In a 3-dimensional real inner product
space, for `p > 0`:
`∫ e^{-p|r-P|²} / |r-C| dr = (2π/p) F₀(p |P-C|²)`. -/
theorem coulomb_s_integral (h3 : Module.finrank ℝ V = 3) (p : ℝ) (hp : 0 < p) (P Cc : V) :
    ∫ r : V, exp (-p * ‖r - P‖^2) / ‖r - Cc‖ = (2 * π / p) * boys (p * ‖P - Cc‖^2) 0 := by
  set F : V → ℝ → ℝ := fun r w => exp (-p * ‖r - P‖^2) * exp (-w^2 * ‖r - Cc‖^2) with hF
  have hpt : ∀ r : V,
      exp (-p * ‖r - P‖^2) / ‖r - Cc‖ = 2 / √π * ∫ w in Ioi (0:ℝ), F r w := by
    intro r
    simp only [hF]
    rw [MeasureTheory.integral_const_mul, div_eq_mul_one_div, inv_eq_integral_gauss _ (norm_nonneg _)]
    have : ∀ w : ℝ, -‖r - Cc‖^2 * w^2 = -w^2 * ‖r - Cc‖^2 := by intro w; ring
    simp_rw [this]
    ring
  have hK : ∀ w : ℝ, ∫ r : V, F r w
      = exp (-(p * w^2 / (p + w^2)) * ‖P - Cc‖^2) * (π / (p + w^2)) ^ ((3:ℝ)/2) := by
    intro w
    have := gauss3_product_integral p (w^2) hp (sq_nonneg w) P Cc
    rw [h3] at this
    simpa [hF] using this
  have hint : Integrable (Function.uncurry F)
      ((volume : Measure V).prod (volume.restrict (Ioi (0:ℝ)))) := by
    rw [integrable_prod_iff']
    · refine ⟨Filter.Eventually.of_forall fun w =>
        integrable_gauss3_product p (w^2) hp (sq_nonneg w) P Cc, ?_⟩
      have : ∀ w : ℝ, ∫ r : V, ‖Function.uncurry F (r, w)‖
          = exp (-(p * w^2 / (p + w^2)) * ‖P - Cc‖^2) * (π / (p + w^2)) ^ ((3:ℝ)/2) := by
        intro w
        rw [← hK w]
        congr 1
        ext r
        simp only [Function.uncurry_apply_pair, hF, Real.norm_eq_abs]
        exact abs_of_pos (mul_pos (Real.exp_pos _) (Real.exp_pos _))
      simp_rw [this]
      exact integrableOn_gaussK p _ hp
    · exact Continuous.aestronglyMeasurable (by fun_prop)
  simp_rw [hpt]
  rw [MeasureTheory.integral_const_mul, integral_integral_swap hint]
  simp_rw [hK]
  rw [integral_gaussK p _ hp]
  have hsp : √π ≠ 0 := (Real.sqrt_pos.mpr pi_pos).ne'
  field_simp

/-- the same for `EuclideanSpace ℝ (Fin 3)` -/
theorem coulomb_s_integral_R3 (p : ℝ) (hp : 0 < p) (P Cc : EuclideanSpace ℝ (Fin 3)) :
    ∫ r : EuclideanSpace ℝ (Fin 3), exp (-p * ‖r - P‖^2) / ‖r - Cc‖
      = (2 * π / p) * boys (p * ‖P - Cc‖^2) 0 :=
  coulomb_s_integral (by simp) p hp P Cc

end Coulomb2


end GB
