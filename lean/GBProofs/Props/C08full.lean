import GBProofs.Props.C08
import GBProofs.AngMom
/-!
# C08 — momentum and angular-momentum blocks are the exact integrals, and Hermitian, at block level

`AngMom.lean`: `momentumBlock_eq_integral` (⟨a|∂_k|b⟩ of the contracted normalised functions), **`angmomBlock_eq_integral`**
(the written-out products `S_u (M_v D_w − M_w D_v)` of the code equal `∫ φ_a (r × ∇)_k φ_b` about the coordinate origin),
`momentumBlock_antisymm`, `angmomBlock_antisymm` (weighted integration by parts: the weight `r_v` does not depend on the
differentiated coordinate), hence `momentumEntry_hermitian`, `angmomEntry_hermitian` for `−i ×` the real blocks;
the origin law of C12 `angmomBlock_translate` (L′ = L + d × p under a common translation by d),
`momentumBlock_translate`, and the rotation law of the momentum blocks `momentumBlock_moved`
(vector index rotated by R, basis indices by the shells' representation matrices).
-/
namespace GB.C08
alias angular_momentum_block_is_exact_integral := angmomBlock_eq_integral
alias momentum_block_hermitian := momentumEntry_hermitian
alias angular_momentum_block_hermitian := angmomEntry_hermitian
end GB.C08
