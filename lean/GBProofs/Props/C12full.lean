import GBProofs.Props.C12
import GBProofs.RigidMotion
import GBProofs.TraceLaws
import GBProofs.AngMom
import GBProofs.MomentMotion
import GBProofs.AngMomMotion
import GBProofs.SphRotation
/-!
# C12 — covariance under every rigid motion (translations, proper and improper rotations)

`RigidMotion.lean`, for `g : E3 ≃ᵃⁱ[ℝ] E3` (every affine isometry of Euclidean 3-space):
* `affineIso_measurePreserving` and the **lifting theorems** `lift_overlap`, `lift_pointCharge`, `lift_coulomb`:
  if the functions of the moved system satisfy `ψ_i (g r) = Σ_j D_ij φ_j r`, then overlap-type, point-charge
  (charge moved with the system) and Coulomb integrals of the moved system are `D … D` applied to those of
  the original one;
* `shellFnE_moved`: for a Cartesian shell with the full component list the moved shell's functions at the
  moved point are `Σ_c' repMat R cart c c' · (original functions)`, with `repMat` depending only on the
  linear part `R` and the component list (`exists_repMat`), `repMat = 1` for s and `= R` for p shells
  (`repMat_s`, `repMat_p`); translations need no hypothesis (`shellFnE_translate`);
* for the model's blocks themselves: `overlapBlock_moved`, `pointChargeBlock_moved`, `eriBlock_moved`
  (block of the moved shells = representation matrices applied to the block of the original shells) and
  the translation invariance of the Coulomb-type blocks, `pointChargeBlock_translate`, `eriBlock_translate`,
  which `TranslationLaws.lean` (tables of the one-dimensional recursions) does not cover.
`TraceLaws.lean` adds the kinetic block: `kineticBlock_moved` (through `T_ab = ½∫∇φ_a·∇φ_b` and the covariance of
`∇ψ₁·∇ψ₂` under an affine isometry, `covDot_fderiv_moved`).  `AngMom.lean` adds the momentum blocks (`momentumBlock_moved`: vector index rotated by R) and the origin law
`angmomBlock_translate` (L′ = L + d × p).

`MomentMotion.lean`: the multipole-moment blocks are a Cartesian tensor — `momentBlock_moved` (origin moved with the system;
order index transformed with `monoRep R`, the un-normalised version of `repMat`; `= 1` for order 0, `= R` for the dipole) and
`momentBlock_moved_translation`.  `AngMomMotion.lean`: the angular-momentum blocks are a pseudo-vector —
`angmomBlock_moved_linear` / `angmomBlock_moved_pseudovector` (rotation or reflection about the coordinate origin:
`L′_k = det R · Σ_j R_kj L_j`, with `cof_eq_det_smul`, `detOf_eq_one_or_neg_one`) and the general law `angmomBlock_moved`
for any affine isometry (`+ g0 × P′`).  `SphRotation/**`: pure shells — the Laplacian commutes with orthogonal substitutions
(`lapMv_substM`), the harmonic homogeneous polynomials of degree `l` have dimension `≤ 2l+1` (`finrank_Harm_le`, every `l`),
the model's `2l+1` functions span them (`sphFam_span`, `l ≤ 10`), hence `T·D(R) = W·T` with the explicit orthogonal
`W = T D S Tᵀ` (`transTab_mul_sphRep`, `sphRepM_orthogonal`) and the functions of a moved spherical shell are `W` applied to the
original ones, contraction norms included (`sphFnE_moved`); with the lifting theorems this gives the covariance of every
integral over spherical shells.
-/
namespace GB.C12
alias block_covariant_overlap := overlapBlock_moved
alias block_covariant_point_charge := pointChargeBlock_moved
alias block_covariant_eri := eriBlock_moved
alias block_covariant_kinetic := kineticBlock_moved
alias cartesian_shell_representation := shellFnE_moved
alias block_covariant_momentum := momentumBlock_moved
alias block_covariant_moment := momentBlock_moved
alias block_covariant_angular_momentum := angmomBlock_moved
alias spherical_shell_representation := sphFnE_moved
alias spherical_representation_orthogonal := sphRep_orthogonal
end GB.C12
