import GBProofs.Props.C12
import GBProofs.RigidMotion
import GBProofs.TraceLaws
import GBProofs.AngMom
import GBProofs.MomentMotion
import GBProofs.AngMomMotion
import GBProofs.SphRotation
import GBProofs.ArrayMotion
import GBProofs.ArrayMotion2
import GBProofs.ArrayAsym
import GBProofs.DensityMotion
import GBProofs.FormsBridge
/-!
# C12 — covariance under every rigid motion (translations, proper and improper rotations)

`RigidMotion.lean`, for `g : E3 ≃ᵃⁱ[ℝ] E3` (every affine isometry of Euclidean 3-space):
* `affineIso_measurePreserving` and the **lifting theorems** `lift_overlap`, `lift_pointCharge`, `lift_coulomb`:
  if the functions of the moved system satisfy `ψ_i (g r) = Σ_j D_ij φ_j r`, then overlap-type, point-charge
  (charge moved with the system) and Coulomb integrals of the moved system are `D … D` applied to those of
  the original one;
* `shellFnE_moved`: for a Cartesian shell with the full component list the moved shell's functions at the
  moved point are `Σ_c' repMat R cart c c' · (original functions)`, with `repMat` depending only on the
  linear part `R` and the component list (`exists_repMat`), `repMat = 1` for s and `= R` for p shells
  (`repMat_s`, `repMat_p`); translations need no hypothesis (`shellFnE_translate`);
* for the model's blocks themselves: `overlapBlock_moved`, `pointChargeBlock_moved`, `eriBlock_moved`
  (block of the moved shells = representation matrices applied to the block of the original shells) and
  the translation invariance of the Coulomb-type blocks, `pointChargeBlock_translate`, `eriBlock_translate`,
  which `TranslationLaws.lean` (tables of the one-dimensional recursions) does not cover.
`TraceLaws.lean` adds the kinetic block: `kineticBlock_moved` (through `T_ab = ½∫∇φ_a·∇φ_b` and the covariance of
`∇ψ₁·∇ψ₂` under an affine isometry, `covDot_fderiv_moved`).  `AngMom.lean` adds the momentum blocks (`momentumBlock_moved`: vector index rotated by R) and the origin law
`angmomBlock_translate` (L′ = L + d × p).

`MomentMotion.lean`: the multipole-moment blocks are a Cartesian tensor — `momentBlock_moved` (origin moved with the system;
order index transformed with `monoRep R`, the un-normalised version of `repMat`; `= 1` for order 0, `= R` for the dipole) and
`momentBlock_moved_translation`.  `AngMomMotion.lean`: the angular-momentum blocks are a pseudo-vector —
`angmomBlock_moved_linear` / `angmomBlock_moved_pseudovector` (rotation or reflection about the coordinate origin:
`L′_k = det R · Σ_j R_kj L_j`, with `cof_eq_det_smul`, `detOf_eq_one_or_neg_one`) and the general law `angmomBlock_moved`
for any affine isometry (`+ g0 × P′`).  `SphRotation/**`: pure shells — the Laplacian commutes with orthogonal substitutions
(`lapMv_substM`), the harmonic homogeneous polynomials of degree `l` have dimension `≤ 2l+1` (`finrank_Harm_le`, every `l`),
the model's `2l+1` functions span them (`sphFam_span`, `l ≤ 10`), hence `T·D(R) = W·T` with the explicit orthogonal
`W = T D S Tᵀ` (`transTab_mul_sphRep`, `sphRepM_orthogonal`) and the functions of a moved spherical shell are `W` applied to the
original ones, contraction norms included (`sphFnE_moved`); with the lifting theorems this gives the covariance of every
integral over spherical shells.

`ArrayMotion.lean`: the **assembled arrays of a whole mixed Cartesian / spherical basis** — `Basis.moved`, the block-diagonal
`basisRep b R` (per shell and segment: `repMat` for a Cartesian shell, `sphRep` for a pure one), the generic lemma
`entry2_moved_of_blocks` (if every shell-pair block transforms with the shells' `repMat`s, the assembled array transforms with
`basisRep`, contraction norms and Cartesian-to-spherical matrices included) and its instances `overlap_array_moved`,
`kinetic_array_moved`, `pointCharge_array_moved` (charges moved along), also for the flat arrays (`…_flat_moved`);
`basisFnE_moved` is the function-level reading.  `ArrayMotion2.lean` completes the list: `basisRep` is the identity when the linear part
is (hence `overlap_/kinetic_/pointCharge_/eri_/momentum_/moment_array_translate`: **translation invariance of the arrays**, and
`angmom_array_translate`: L′ = L + v × P), the four-index generic lemma `entry4_moved_of_blocks` with `eri_array_moved`, the
tensor-index generic lemma `entry2_moved_of_blocks_tensor` with `momentum_array_moved` (vector), `moment_array_moved` (tensor, origin
moved along) and `angmom_array_moved` (pseudo-vector plus the origin term), and `basisRep_metric` (the representation preserves the
block-diagonal metric: identity on pure shells, `Sov` on Cartesian ones; plain orthogonality for all-spherical bases).

`DensityMotion.lean`: the **density-type evaluations** with the density matrix transformed by the representation (`CongrBy`: γ = Uᵀ γ′ U,
what the check does with `Dᵀ g D`): `rho_moved` (scalar), `gradient_moved` (vector), `hessian_moved` (rank 2), `laplacian_moved`,
`tplus_moved` (scalars), `stress_moved` (rank 2) with genuine `fderiv`, and for the model's own forms `densityForm_`, `gradientForm_`,
`hessianForm_`, `laplacianForm_`, `posdefForm_`, `generalKEForm_`, `stressForm_`, `forceForm_`, `ehrenfestHessianForm_moved`; every form
(any derivative order) is invariant under translations (`formVal_translate`).
-/
namespace GB.C12
alias block_covariant_overlap := overlapBlock_moved
alias block_covariant_point_charge := pointChargeBlock_moved
alias block_covariant_eri := eriBlock_moved
alias block_covariant_kinetic := kineticBlock_moved
alias cartesian_shell_representation := shellFnE_moved
alias block_covariant_momentum := momentumBlock_moved
alias block_covariant_moment := momentBlock_moved
alias block_covariant_angular_momentum := angmomBlock_moved
alias spherical_shell_representation := sphFnE_moved
alias spherical_representation_orthogonal := sphRep_orthogonal
alias overlap_array_covariant := overlap_array_moved
alias kinetic_array_covariant := kinetic_array_moved
alias point_charge_array_covariant := pointCharge_array_moved
alias eri_array_covariant := eri_array_moved
alias momentum_array_covariant := momentum_array_moved
alias moment_array_covariant := moment_array_moved
alias angular_momentum_array_covariant := angmom_array_moved
alias overlap_array_translation_invariant := overlap_array_translate
alias density_invariant := rho_moved
alias density_gradient_covariant := gradient_moved
alias density_hessian_covariant := hessian_moved
alias stress_tensor_covariant := stressForm_moved
alias ehrenfest_force_covariant := forceForm_moved
alias derivative_tensor_of_density_covariant := rho_iteratedFDeriv_moved
alias derivative_tensor_of_basis_covariant := basisFnE_iteratedFDeriv_moved
alias model_density_value_invariant := modelDensity_moved
end GB.C12
