import GBProofs.GramLaws
import GBProofs.Props.C16
/-!
# C17 — positivity and Schwarz bounds
`GramLaws.lean`: any Gram matrix in a real inner-product space is symmetric positive semi-definite
with `|S_ab| ≤ √(S_aa S_bb)` (`gram_psd`, `gram_abs_le`, `gram_sq_le`, `gram_abs_le_one`), half a Gram
matrix is PSD (`half_gram_psd`, kinetic), minus a non-negative multiple is NSD (`neg_gram_nsd`).
`C16.overlap_eq_integral_of_eval` identifies the model's overlap block with the L² inner product of the
evaluated functions.  For the Coulomb-type matrices the Gram structure rests on the positivity of the
Coulomb kernel, which is not formalised: those statements are conditional (see DESIGN.md §7); the
implementation's eigenvalues are measured directly by the check.
-/
namespace GB.C17
variable {E : Type*} [NormedAddCommGroup E] [InnerProductSpace ℝ E] {n : ℕ}

theorem overlap_type_psd (f : Fin n → E) (x : Fin n → ℝ) :
    0 ≤ ∑ a, ∑ b, x a * gramMat f a b * x b := gram_psd f x

theorem schwarz (f : Fin n → E) (a b : Fin n) : gramMat f a b ^ 2 ≤ gramMat f a a * gramMat f b b :=
  gram_sq_le f a b

end GB.C17
