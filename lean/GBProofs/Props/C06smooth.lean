import GBProofs.FormulaProofs
import GBProofs.Props.C06
import GBProofs.Props.C15
import GBProofs.SmoothInstance
import GBProofs.ArrayDefiniteness
import GBProofs.FormsBridge
/-!
# C05 / C06 / C15 — the abstract differential-ring theorems read pointwise on genuine smooth functions

`SmoothInstance.lean` constructs the instance that `FormsProofs.lean` left abstract: `Smooth3`, the ℝ-algebra of
C^∞ functions on Euclidean 3-space, with the three partial derivatives `pd` as derivations and `pd_comm : CommD pd`
(symmetry of second derivatives).  Hence every theorem of C06 / C15 holds pointwise for real functions:
`gradient_pointwise`, `hessian_pointwise`, `laplacian_pointwise` (= Mathlib's Laplacian), `derivDensity_pointwise`
(every order triple), `posdefKE_pointwise`, `generalKE_pointwise`, `stress_pointwise`, `force_pointwise`
(force = −div stress with genuine `fderiv`), `ehrenfestHessian_pointwise` (Hessian = Jacobian of the force).
The model's basis functions are elements of that algebra (`shellSmooth`), their derivatives of every order are what
the evaluation model computes (`dpow_shellSmooth_apply`, `dpow_shellSmooth_eq_axisGeneral`,
`evalBlock_general_eq_dpow`): the values returned by the model of `evaluate_deriv_basis` are the genuine
partial derivatives of the genuine basis functions, which ties C05 to C06/C15.
Item (iv) of the planned trusted base (a differential ring models smooth functions) is thereby discharged.
-/
/-! Non-negativity (`ArrayDefiniteness.lean`): for a positive semi-definite density matrix (in particular `C n Cᵀ` with
occupations `n ≥ 0`, `psd_of_occupations`) the density and the positive-definite kinetic energy density are non-negative at every
point: `rho_nonneg`, `posdefKE_nonneg` — so the clipping rule never rejects such input in exact arithmetic. -/
namespace GB.C06
alias density_nonneg_of_psd := rho_nonneg
alias posdef_kinetic_density_nonneg_of_psd := posdefKE_nonneg
alias gradient_is_genuine_derivative := gradient_pointwise
alias deriv_density_is_genuine_derivative := derivDensity_pointwise
end GB.C06

/-! `FormsBridge.lean`: the value that the *model* computes for a form — `Form.eval` on the numbers `D(p;q) = Σ γ_rc d^p_r d^q_c` built from
the entries of its one-index derivative arrays (`modelForm`) — is the interpretation of that form on the genuine smooth basis functions
(`formVal_eq_modelForm`, for every form and every γ; `modelD1_eq_iteratedFDeriv`: an entry of the derivative array is the iterated Fréchet
derivative of `basisFnE`).  So the pointwise theorems above are statements about the numbers the compiled model prints. -/
namespace GB.C06
alias model_value_is_smooth_interpretation := formVal_eq_modelForm
end GB.C06
