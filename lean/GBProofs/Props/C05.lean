import GBProofs.EvalDeriv

/-!
# C05 — basis-function values and arbitrary-order derivatives
-/
namespace GB.C05

/-- **general back-end** = the n-th derivative of `x^a e^{-αx²}`, every `a`, `n`, `x` (also `x = 0`) -/
theorem general_backend_exact (α x : ℝ) (hα : 0 ≤ α) (a n : ℕ) :
    axisGeneral α x a n = iteratedDeriv n (fun x : ℝ => x^a * Real.exp (-(α*(x*x)))) x :=
  axisGeneral_eq_iteratedDeriv α x hα a n

/-- **direct back-end** agrees with the general one on every request it accepts (orders ≤ 2),
for every component of a full shell -/
theorem backends_agree (α x : ℝ) (hα : 0 ≤ α) (l u a n : ℕ) (ha : a ≤ l) (hn : n ≤ 2) :
    axisDirect α x a n ((defaultCart l).any (fun c => c.ax u == 1))
        ((defaultCart l).any (fun c => decide (c.ax u ≥ 2)))
      = axisGeneral α x a n :=
  axisDirect_eq α x hα a n _ _ hn (flags_truthful_of_full_shell l u a ha).1
    (flags_truthful_of_full_shell l u a ha).2

/-- **dispatch**: the specialised back-end is used iff every order is at most 2; otherwise, and for
unknown names, the request is rejected -/
theorem dispatch_direct_iff (o : Comp) :
    dispatch "direct" o = .ok .direct ↔ o.1 ≤ 2 ∧ o.2.1 ≤ 2 ∧ o.2.2 ≤ 2 := GB.dispatch_direct_iff o

theorem dispatch_rejects (s : String) (o : Comp) (h1 : s ≠ "general") (h2 : s ≠ "direct") :
    dispatch s o = .error "ValueError" := dispatch_other s o h1 h2

/-- why the rejection is necessary (the repaired defect): at order 3 the direct formulas silently
drop the axis and return a different number -/
theorem direct_order3_wrong (has1 has2 : Bool) :
    axisDirect (1:ℝ) (1/2) 1 3 has1 has2 ≠ axisGeneral (1:ℝ) (1/2) 1 3 :=
  (axisDirect_three_ne_spec has1 has2).2.2

end GB.C05
