import GBProofs.Props.C18
import GBProofs.ParserProofs
/-!
# C18 — round trip for all well-formed descriptions
`ParserProofs.lean`: `parseNw_render_distinct` / `parseGbs_render_flat`: parsing the rendering of ANY
well-formed description (1-2 letter symbols, shells s…k, any number of primitives and columns, SP
shells, E/D/plain numbers with a decimal point in the exponent) returns for every element exactly the
shells written, in file order; `parseNw_render_noisy`, `parseNw_render_preamble`,
`parseGbs_render_preamble`: with comment / blank / arbitrary non-matching lines inserted anywhere and
any number (0, 1, many) of lines before the first element; `parseNwOld_demoFile`: the old behaviour
loses the first shell when nothing precedes the first element; `makeContractions_*`.
-/
