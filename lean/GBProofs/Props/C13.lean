import GBProofs.ContractionLaws
/-!
# C13 — contractions behave as the linear combinations they denote

Property-level theorems are in `ContractionLaws.lean` (they are about the model function `contract`,
through which every integral and evaluation block of the model is formed):
`contract_column_real` (a column of a generalized shell = the single-column shell),
`contract_prim_perm_real` (any permutation of the primitives), `contract_split_real` (a primitive
split in two with the coefficient shared), `contract_linear_real` (linearity of un-normalised blocks),
`normalised_scale_pos` / `normalised_scale_neg` (a column scaled by `c > 0` is unchanged after
normalisation, by `c < 0` flips sign).
-/
namespace GB.C13

/-- scaling a coefficient column by `c ≠ 0` multiplies the normalised function by `sign c` -/
theorem scale_sign (c x ov : ℝ) (hov : 0 < ov) (hc : c ≠ 0) :
    c * x * (1 / Real.sqrt (c * c * ov)) = (c / |c|) * (x * (1 / Real.sqrt ov)) :=
  scale_norm c x ov hov hc

end GB.C13
