import GBProofs.ContractionLaws
import GBProofs.BlockContraction
import GBProofs.ArrayContraction
import GBProofs.ArrayContraction14
import GBProofs.ArrayAsym
/-!
# C13 — contractions behave as the linear combinations they denote

Property-level theorems are in `ContractionLaws.lean` (they are about the model function `contract`,
through which every integral and evaluation block of the model is formed):
`contract_column_real` (a column of a generalized shell = the single-column shell),
`contract_prim_perm_real` (any permutation of the primitives), `contract_split_real` (a primitive
split in two with the coefficient shared), `contract_linear_real` (linearity of un-normalised blocks),
`normalised_scale_pos` / `normalised_scale_neg` (a column scaled by `c > 0` is unchanged after
normalisation, by `c < 0` flips sign).

`BlockContraction.lean` lifts the laws to the model's **blocks** (what the arrays are made of), for `overlapBlock`, `kineticBlock`,
`momentBlock`, `pointChargeBlock`, `momentumBlock`, `angmomBlock`, `evalBlock` and all four slots of `eriBlock`, with the shell
operations `Shell.column`, `Shell.permPrims`, `Shell.splitPrim`, `Shell.scaleColumn`: `…_column` (a column of a generalized shell
gives the block of the single-column shell), `…_permPrims`, `…_splitPrim` (block unchanged), `…_scaleColumn` (raw block scaled
in that column only) and, with the contraction norms, `…_normalised_scaleColumn_pos / _neg / _other` (unchanged / sign flipped
/ other columns untouched).  Each law is proved once for a slot-linear block former (`SlotLinear`, `PrimLocal`).

`ArrayContraction*.lean` state the property for the **assembled arrays** (what the user sees): `Basis.splitColumns b i` replaces shell `i`
by its single-column shells, and `Basis.splitColumns_locate` shows that every basis index names the same function before and after;
`overlap_/kinetic_/moment_/pointCharge_/momentum_/angmom_flat_splitColumns` are equalities of the whole flat arrays, likewise
`…_permPrims`, `…_splitPrim`, `…_scaleColumn_pos`; `…_scaleColumn_neg` gives the factor `colSign · colSign` (−1 exactly on the functions of
the scaled column).  `ArrayContraction14` does the same for the one-index evaluation arrays (`eval_flat_…`) and the four-index
repulsion array (`eri_flat_…`, four `colSign` factors).  Generic cores: `entry2_replaced_of_blocks`, `entry1_replaced`, `entry4_replaced`.
-/
namespace GB.C13

/-- scaling a coefficient column by `c ≠ 0` multiplies the normalised function by `sign c` -/
theorem scale_sign (c x ov : ℝ) (hov : 0 < ov) (hc : c ≠ 0) :
    c * x * (1 / Real.sqrt (c * c * ov)) = (c / |c|) * (x * (1 / Real.sqrt ov)) :=
  scale_norm c x ov hov hc

alias generalized_shell_is_its_columns := overlap_flat_splitColumns
alias primitive_order_immaterial := overlap_flat_permPrims
alias primitive_split_immaterial := overlap_flat_splitPrim
alias positive_scale_immaterial := overlap_flat_scaleColumn_pos
alias negative_scale_flips_sign := overlap_array_scaleColumn_neg

end GB.C13
