import GBProofs.FormsProofs

/-!
# C06 — density and density-derived fields equal their definitions

Setting (`FormsProofs.lean`): a commutative `K`-algebra `A` of "smooth functions" with three commuting
`K`-linear derivations `d 0, d 1, d 2`, basis functions `φ : ι → A`, a density matrix `γ`;
`Dsym p q = Σ_ab γ_ab ∂^p φ_a ∂^q φ_b`, `ρ = Dsym 0 0`.  `Form.evalA` interprets the list of terms
that the model of each Python function produces.  The forms are tied to the running code by the
exact-probing obligation `GB.Obl.forms_ok`.
-/
namespace GB.C06
variable {K A ι : Type*} [Field K] [CharZero K] [CommRing A] [Algebra K A] [Fintype ι]
variable (d : Fin 3 → Derivation K A A) (φ : ι → A) (γ : ι → ι → K)

/-- `evaluate_deriv_density`: the half-range loop with factor 2 equals `∂^L ρ` for **every** order
triple `L`, provided the density matrix is symmetric -/
theorem deriv_density_eq (hd : CommD d) (hγ : SymmG γ) (L : Comp) :
    Form.evalA d φ γ (derivDensityForm L) = dpow d L (rho d φ γ) :=
  derivDensity_eq hd hγ L

/-- without symmetry the shortcut is wrong (why the quantifier says "symmetric") -/
theorem symmetry_needed :
    Form.evalA exD cexφ cexγ (derivDensityForm (1, 0, 0)) ≠ Form.evalA exD cexφ cexγ (leibnizForm (1, 0, 0)) :=
  derivDensity_ne_leibniz_nonsymm.2.2

theorem gradient_is_derivative (hd : CommD d) (hγ : SymmG γ) (i : Fin 3) :
    Form.evalA d φ γ (gradientForm i) = d i (rho d φ γ) := gradient_eq hd hγ i

theorem laplacian_is_derivative (hd : CommD d) (hγ : SymmG γ) :
    Form.evalA d φ γ laplacianForm = lap d φ γ := laplacian_eq hd hγ

theorem hessian_is_derivative (hd : CommD d) (hγ : SymmG γ) (r c : Fin 3) :
    Form.evalA d φ γ (hessianForm r c) = d r (d c (rho d φ γ)) := hessian_eq hd hγ r c

theorem hessian_symmetric (r c : Fin 3) :
    Form.evalA d φ γ (hessianForm r c) = Form.evalA d φ γ (hessianForm c r) := hessian_symm r c

theorem hessian_trace_is_laplacian (hγ : SymmG γ) :
    ∑ r : Fin 3, Form.evalA d φ γ (hessianForm r r) = Form.evalA d φ γ laplacianForm := hessian_trace hγ

theorem general_ke (α : ℚ) :
    Form.evalA d φ γ (generalKEForm α)
      = Form.evalA d φ γ posdefForm + (α : K) • Form.evalA d φ γ laplacianForm := generalKE_eq α

/-- **clipping rule**: an error exactly when some value is below `-threshold`; otherwise negative
values are returned as 0 and the others unchanged -/
theorem clip_raises_iff (t : ℚ) (ht : 0 ≤ t) (vals : List ℚ) :
    clipRule t vals = none ↔ ∃ v ∈ vals, v < -t := clipRule_none_iff t ht vals

theorem clip_values (t : ℚ) (vals out : List ℚ) (h : clipRule t vals = some out) :
    out = vals.map fun v => max v 0 := clipRule_some t vals out h

end GB.C06
