import GBProofs.EspLaws
/-!
# C14 — electrostatic potential
`EspLaws.lean`: `espMasked_iff` (a nucleus is dropped iff its distance is below the threshold,
whatever its charge), `mask_old_counterexample` / `espMaskedOld_neg_charge` (the repaired rule
`Z/d > 1/t` is different), `espNuclear_spec`, `espSizeOk_some` / `espSizeOk_none` /
`espSizeOk_transformed` (size of the density matrix with and without a transformation),
`esp_transform_identity` (`Σ γ_ij (T V Tᵀ)_ij = Σ (Tᵀ γ T)_ab V_ab` for rectangular `T`).
The electronic term is the point-charge integral of C03 (`CoulombGeneral.coulomb_general`).
-/
namespace GB.C14

theorem mask_rule (d t : ℚ) (hd : 0 ≤ d) (ht : 0 ≤ t) : espMasked (d * d) t = true ↔ d < t :=
  espMasked_iff d t hd ht

end GB.C14
