import GBProofs.FormulaProofs
import GBProofs.ScreenLaws
import GBProofs.ScreenArray
/-!
# C20 — overlap screening
`ScreenLaws.lean`: `screened_iff_exp` (the documented cutoff ⇔ `exp(-αβ/(α+β) d²) < tol`),
`screened_mono` (lowering the tolerance never removes more blocks), `screened_tol_one`,
`screen_conservative_prim` / `screen_conservative` (every removed s-type element is below
`tol ×` the sums of normalised absolute coefficients).
-/
namespace GB.C20

theorem monotone (αa αb d tol tol' : ℝ) (ha : 0 < αa) (hb : 0 < αb) (ht' : 0 < tol') (h : tol' ≤ tol)
    (hs : screened αa αb d tol') : screened αa αb d tol :=
  screened_mono αa αb d tol tol' ha hb ht' h hs

/-! `ScreenArray.lean`: the property for the **assembled overlap array of a whole basis**: `pairScreened` (documented cutoff from the tolerance
and the smallest exponent of each shell), `screened_array_entry` (an entry is 0 if its shell pair is screened and the unscreened entry
otherwise — contraction norms and Cartesian-to-spherical matrices included), `screened_array_none` (no tolerance: no screening),
`screened_array_mono` (lowering the tolerance never removes more), `screened_array_symm`, and `screened_array_conservative` (every removed
element between s-type shells, any contraction pattern, is below `tol · Σ|c̃| · Σ|c̃′|`), `screened_array_error`. -/
alias screened_array_follows_cutoff := screened_array_entry
alias screened_array_monotone := screened_array_mono
alias screened_array_conservative_for_s := screened_array_conservative

end GB.C20
