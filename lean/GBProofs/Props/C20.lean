import GBProofs.FormulaProofs
import GBProofs.ScreenLaws
/-!
# C20 — overlap screening
`ScreenLaws.lean`: `screened_iff_exp` (the documented cutoff ⇔ `exp(-αβ/(α+β) d²) < tol`),
`screened_mono` (lowering the tolerance never removes more blocks), `screened_tol_one`,
`screen_conservative_prim` / `screen_conservative` (every removed s-type element is below
`tol ×` the sums of normalised absolute coefficients).
-/
namespace GB.C20

theorem monotone (αa αb d tol tol' : ℝ) (ha : 0 < αa) (hb : 0 < αb) (ht' : 0 < tol') (h : tol' ≤ tol)
    (hs : screened αa αb d tol') : screened αa αb d tol :=
  screened_mono αa αb d tol tol' ha hb ht' h hs

end GB.C20
