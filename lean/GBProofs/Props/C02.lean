import GBProofs.DiffTab
import GBProofs.RealInst

/-!
# C02 — kinetic-energy integrals are exact
-/
open MeasureTheory Real

namespace GB.C02

/-- **The padded derivative table of the code is the integral of a Gaussian against the k-th
derivative of the other Gaussian**, for every order `k ≤ dmax` and every left index `i ≤ l_a`
(this is where the padding of the table by the derivative order is needed), every right index `j`:
`(diffAx s t dmax ka kb axis)[k][j][i] = ∫ (x-A)^i e^{-a(x-A)²} · dᵏ/dxᵏ[(x-B)^j e^{-b(x-B)²}] dx`. -/
theorem table_entry_eq_integral (s t : Shell ℝ) (dmax ka kb axis k j i : ℕ)
    (ha : 0 < s.exp! ka) (hb : 0 < t.exp! kb) (hk : k ≤ dmax) (hi : i ≤ s.l) :
    (diffAx s t dmax ka kb axis).get3 k j i
      = ∫ x : ℝ, (x - s.ctr axis)^i * exp (-(s.exp! ka) * (x - s.ctr axis)^2)
          * iteratedDeriv k (fun x => (x - t.ctr axis)^j * exp (-(t.exp! kb) * (x - t.ctr axis)^2)) x := by
  rw [← diffTab_eq_integral _ _ _ _ ha hb (t.l + 1) s.l dmax k j i hk hi]
  simp only [diffAx, pair1D, Transc.sqrt, Transc.pi, Transc.exp, num_nat, Nat.cast_one, Nat.cast_ofNat]

/-- the kinetic-energy matrix is symmetric at the level of the Gaussian functional:
`⟨u| D² v⟩ = ⟨D² u| v⟩` (two integrations by parts), so the transposed lower triangle is right -/
theorem second_derivative_symmetric {K : Type} [Field K] [CharZero K] (a b PA PB p : K) (hp : p ≠ 0)
    (hab : a + b = p) (hPAB : a * PA + b * PB = 0) (u v : Polynomial K) :
    G p (u * Dtw b PB (Dtw b PB v)) = G p (Dtw a PA (Dtw a PA u) * v) :=
  G_mul_Dtw_Dtw a b PA PB p hp hab hPAB u v

end GB.C02
