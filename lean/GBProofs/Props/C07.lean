import GBProofs.Props.C01
import Mathlib.Data.Nat.Choose.Sum

/-!
# C07 — multipole-moment integrals are exact for every order and origin
-/
open MeasureTheory Real Polynomial

namespace GB.C07

/-- exactness of the table for every moment order: `C01.table_entry_eq_integral` already covers all `k` -/
theorem moment_table_entry_eq_integral (s t : Shell ℝ) (origin : ℕ → ℝ) (nk ka kb axis k j i : ℕ)
    (ha : 0 < s.exp! ka) (hb : 0 < t.exp! kb) :
    (momAx s t origin nk ka kb axis).get3 k j i
      = ∫ x : ℝ, (x - s.ctr axis)^i * (x - t.ctr axis)^j * (x - origin axis)^k
          * (exp (-(s.exp! ka) * (x - s.ctr axis)^2) * exp (-(t.exp! kb) * (x - t.ctr axis)^2)) :=
  C01.table_entry_eq_integral s t origin nk ka kb axis k j i ha hb

/-- order 0 does not depend on the moment origin: it is the overlap factor -/
theorem order_zero_is_overlap {K : Type} [Field K] [CharZero K] (p PA PB PC PC' : K) (i j : ℕ) :
    S3 p PA PB PC i j 0 = S3 p PA PB PC' i j 0 := S3_k0 p PA PB PC PC' i j

/-- **moving the origin**: moments about `X' = X - d` (so `P - X' = (P - X) + d`) are the binomial
combination of the lower moments about `X` -/
theorem moment_shift {K : Type} [Field K] [CharZero K] (p PA PB PC d : K) (i j k : ℕ) :
    S3 p PA PB (PC + d) i j k
      = ∑ n ∈ Finset.range (k + 1), (k.choose n : K) * d ^ (k - n) * S3 p PA PB PC i j n := by
  unfold S3
  have h : (X + C (PC + d) : K[X])^k
      = ∑ n ∈ Finset.range (k + 1), C ((k.choose n : K) * d ^ (k - n)) * (X + C PC)^n := by
    have : (X + C (PC + d) : K[X]) = (X + C PC) + C d := by simp [add_assoc]
    rw [this, add_pow]
    apply Finset.sum_congr rfl
    intro n _
    simp only [map_mul, map_pow, map_natCast]
    ring
  rw [h, Finset.mul_sum, map_sum]
  apply Finset.sum_congr rfl
  intro n _
  have : (X + C PA) ^ i * (X + C PB) ^ j * (C ((k.choose n : K) * d ^ (k - n)) * (X + C PC) ^ n)
      = C ((k.choose n : K) * d ^ (k - n)) * ((X + C PA) ^ i * (X + C PB) ^ j * (X + C PC) ^ n) := by ring
  rw [this, G_C_mul]

end GB.C07
