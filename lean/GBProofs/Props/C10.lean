import GBProofs.Harmonics
import GBProofs.SphericalNorm
import GBProofs.SphRotation

/-!
# C10 — the Cartesian-to-spherical matrix is the set of real regular solid harmonics

The quantifier is finite (`l ≤ 10`) and is enumerated completely in the kernel (`decide +kernel`
in `GBProofs/Harmonics/**`).  This file only collects the property-level statements.
-/
namespace GB.C10

theorem harmonic (l : ℕ) (hl : l ≤ 10) (m : ℕ) (neg : Bool) (hm : m ≤ l) (hneg : neg = true → 1 ≤ m) :
    ∑ i : Fin 3, MvPolynomial.pderiv i (MvPolynomial.pderiv i (toMv (GB.harmonic l m neg))) = 0 :=
  harmonic_le_10_mv l hl m neg hm hneg

theorem homogeneous (l : ℕ) (hl : l ≤ 10) (m : ℕ) (neg : Bool) (hm : m ≤ l) (hneg : neg = true → 1 ≤ m) :
    (toMv (GB.harmonic l m neg)).IsHomogeneous l :=
  homogeneous_le_10_mv l hl m neg hm hneg

/-- rows of the matrix generated for any accepted order/sign convention are orthonormal in the
metric of unit-normalised Cartesian functions -/
theorem rows_orthonormal (l : ℕ) (hl : l ≤ 10) (labels : List String) (ls : List SphLabel)
    (h : validSphOrder l labels = some ls) (i j : ℕ) (hi : i < ls.length) (hj : j < ls.length) :
    gram l (defaultCart l) ls[i] ls[j] = if i = j then 1 else 0 :=
  rows_orthonormal_valid l hl labels ls h i j hi hj

/-- the `2l+1` generated functions are *the* solid harmonics: they span the whole space of homogeneous harmonic polynomials of
degree `l` (whose dimension is `2l+1`) -/
alias span_all_harmonics := sphFam_span
alias harmonic_space_dimension := finrank_Harm

end GB.C10
