import GBProofs.Props.C09
import GBProofs.Layout
import GBProofs.Layout14
import GBProofs.DispatchProofs
/-! C09: the model's arrays (what the translated pipelines are compared against) are, entry by entry, the
normalised Cartesian block contracted with each spherical shell's own matrix on every basis index:
`entry1_layout_sph/_cart`, `entry2_layout`, `entry4_layout` with `wBlock4_get8_sph/_cart`. -/
