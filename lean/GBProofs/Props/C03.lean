import GBProofs.OneElecProofs

/-!
# C03 — point-charge and nuclear-attraction integrals are exact

The specification is the Rys/Boys form `Vspec` (see `OneElecProofs.lean`): the Boys functional
applied to the product of the three per-axis Rys polynomials, for an **arbitrary** sequence `F`
standing for the Boys function.  That this form is the Coulomb integral (Gaussian transform of
`1/r`) is part of the trusted base; `RysAnalytic.lean` proves the links that are formalised.
-/
namespace GB.C03
variable {K : Type} [Field K]

/-- **Vertical recursion.**  The three written-out passes (x, then y for every x, then z for every
x, y) of `_compute_one_elec_integrals` fill `V[m][a]` with the Rys-form value for every entry with
`m + |a| < m_max` — exactly the part of the table the code later reads. -/
theorem vertical_table_eq_spec (F : ℕ → K) (p pref : K) (PA PB PC : ℕ → K) (mMax : ℕ) (base : ℕ → K)
    (hbase : ∀ m, m < mMax → base m = pref * F m) (az ay ax m : ℕ) (hm : m + ax + ay + az < mMax) :
    (vertXYZ PA PC (Num.nat 1 / (Num.nat 2 * p)) mMax base).get4 az ay ax m
      = pref * Vspec F p PA PB PC m (ax, ay, az) (0,0,0) :=
  vertXYZ_eq_Vspec' F p pref PA PB PC mMax base hbase az ay ax m hm

/-- **Horizontal recursion** (after contraction): any family satisfying the three transfer
relations — in particular any linear combination over primitive pairs of `Vspec`, since `A - B` does
not depend on the primitives — is reproduced by the three horizontal passes wherever
`|a| + |b| < n`. -/
theorem horizontal_table_eq_spec (AB : ℕ → K) (g : ℕ × ℕ × ℕ → ℕ × ℕ × ℕ → K) (hg : HorizRel AB g)
    (n : ℕ) (h0 : Tab3 K)
    (h00 : ∀ ax ay az, ax + ay + az < n → h0.get3 ax ay az = g (ax, ay, az) (0,0,0)) (lb la : ℕ)
    (bz by' bx ax ay az : ℕ) (hm : ax + ay + az + bx + by' + bz < n) :
    ((horiz3 AB n lb la h0).get3 bz by' bx).get3 ax ay az = g (ax, ay, az) (bx, by', bz) :=
  horiz3_get hg h00 lb la bz by' bx ax ay az hm

/-- contraction preserves the transfer relations -/
theorem contraction_preserves_transfer {ι : Type} (AB : ℕ → K) (s : Finset ι) (c : ι → K)
    (g : ι → ℕ × ℕ × ℕ → ℕ × ℕ × ℕ → K) (hg : ∀ i ∈ s, HorizRel AB (g i)) :
    HorizRel AB (fun a b => ∑ i ∈ s, c i * g i a b) :=
  HorizRel.sum AB s c g hg

/-- **The shell swap.**  When `l_a < l_b` the code exchanges the two shells and transposes the result
back; this is right because the specification is symmetric under the exchange of the two functions. -/
theorem spec_swap (F : ℕ → K) (p : K) (PA PB PC : ℕ → K) (m : ℕ) (a b : ℕ × ℕ × ℕ) :
    Vspec F p PA PB PC m a b = Vspec F p PB PA PC m b a := by
  have h : ∀ (h' x y : Polynomial K) (i j : ℕ), S2 h' x y i j = S2 h' y x j i := by
    intro h' x y i j
    unfold S2
    rw [mul_comm]
  unfold Vspec rysAx rys1
  rw [h _ _ _ a.1, h _ _ _ a.2.1, h _ _ _ a.2.2]

end GB.C03
