import GBProofs.OneElecProofs
import GBProofs.EriBlock

/-!
# C04 — electron-repulsion integrals

Specification in Rys form: `Vspec2` for `[a0|00]^{(m)}` and `Espec` for `[a0|c0]^{(m)}`, the latter
defined through the two-variable Gaussian (Wick) functional over `K[s]`, again for an arbitrary
sequence `F` in place of the Boys function.  Horizontal recursions are shared with C03
(`horiz3_get`).  Not formalised: the Gaussian transform of `1/r₁₂` (trusted base).
-/
namespace GB.C04
variable {K : Type} [Field K]

/-- vertical recursion of `_compute_two_elec_integrals` = Rys form, on `m + |a| < m_max` -/
theorem vertical_table_eq_spec (F : ℕ → K) (p w pref : K) (PA WQ : ℕ → K) (mMax : ℕ) (base : ℕ → K)
    (hbase : ∀ m, m < mMax → base m = pref * F m) (az ay ax m : ℕ) (hm : m + ax + ay + az < mMax) :
    (vert2 PA WQ (Num.nat 1 / (Num.nat 2 * p)) w mMax base).get4 az ay ax m
      = pref * Vspec2 F p w PA WQ m (ax, ay, az) :=
  vert2_eq_Vspec2' F p w pref PA WQ mMax base hbase az ay ax m hm

/-- **electron transfer**: the table `integrals_etransf` built from the vertical table equals the Rys
form of `[a0|c0]` wherever `|a| + |c| < m_max` (the relation the code uses is `p·`(first RDK
recurrence) `+ q·`(second), in which the Rys variable cancels) -/
theorem etransfer_table_eq_spec [CharZero K] (F : ℕ → K) (p q w w' pref : K) (PA QC PQ : ℕ → K)
    (hp : p ≠ 0) (hq : q ≠ 0) (hpq : p + q ≠ 0) (hw : w * (p + q) = q) (hw' : w' * (p + q) = p)
    (mMax lcd : ℕ) (base : ℕ → K) (hbase : ∀ m, m < mMax → base m = pref * F m) (v0 : Tab3 K)
    (hv0 : ∀ ax ay az, ax + ay + az < mMax → v0.get3 ax ay az
      = (vert2 PA (fun u => w * PQ u) (Num.nat 1 / (Num.nat 2 * p)) w mMax base).get4 az ay ax 0)
    (cz cy cx ax ay az : ℕ) (hm : ax + ay + az + cx + cy + cz < mMax) :
    ((etransf (fun u => QC u + p / q * PA u) (p / q) (Num.nat 1 / (Num.nat 2 * q)) mMax lcd
        v0).get3 cz cy cx).get3 ax ay az
      = pref * Espec F p q w w' PA QC PQ 0 (ax, ay, az) (cx, cy, cz) :=
  etransf_vert2_eq_Espec F p q w w' pref PA QC PQ hp hq hpq hw hw' mMax lcd base hbase v0 hv0
    cz cy cx ax ay az hm

/-- the weights the code uses satisfy the hypotheses of the transfer theorem -/
theorem weights_ok (p q : K) (hp : p ≠ 0) (hpq : p + q ≠ 0) :
    (p * q / (p + q) / p) * (p + q) = q := by
  field_simp

/-- physicists' notation is chemists' with the two middle indices exchanged (the code's final
`transpose (0, 2, 1, 3)`): as a statement about index functions -/
theorem physicist_is_middle_swap {α : Type} (chem : ℕ → ℕ → ℕ → ℕ → α) (i j k l : ℕ) :
    (fun a b c d => chem a c b d) i j k l = chem i k j l := rfl

/-- **Block-level theorem** (`EriBlock.lean`): the whole code path of
`ElectronRepulsionIntegral.construct_array_contraction` — closed form for four s shells, otherwise vertical
recursion, electron transfer, contraction over the four primitive indices, horizontal recursion `c → d`
and `a → b`, component selection, angular norms, final axis order — computes the contracted Rys form
`eriRys`, whose primitive factor is `E4` (the closure of the Wick/Rys form `Espec` of `[a0|c0]` under the
two horizontal relations), for arbitrary angular momenta and any Boys table. -/
alias block_is_contracted_rys_form := eriBlock_eq_rys

end GB.C04
