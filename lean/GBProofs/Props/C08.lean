import GBProofs.Props.C02

/-!
# C08 — momentum and angular-momentum integrals are exact and Hermitian
-/
open MeasureTheory Real Polynomial

namespace GB.C08

/-- first-derivative table entries are the integrals `∫ g_a ∂ g_b` (instance `k = 1` of C02's table theorem) -/
theorem momentum_table_entry_eq_integral (s t : Shell ℝ) (ka kb axis j i : ℕ)
    (ha : 0 < s.exp! ka) (hb : 0 < t.exp! kb) (hi : i ≤ s.l) :
    (diffAx s t 1 ka kb axis).get3 1 j i
      = ∫ x : ℝ, (x - s.ctr axis)^i * exp (-(s.exp! ka) * (x - s.ctr axis)^2)
          * iteratedDeriv 1 (fun x => (x - t.ctr axis)^j * exp (-(t.exp! kb) * (x - t.ctr axis)^2)) x :=
  C02.table_entry_eq_integral s t 1 ka kb axis 1 j i ha hb le_rfl hi

/-- **antisymmetry**: `⟨a|∂|b⟩ = −⟨b|∂|a⟩` at the level of the Gaussian functional, for all
polynomial prefactors — the exact momentum matrix is purely imaginary antisymmetric, i.e. Hermitian -/
theorem deriv_antisymm {K : Type} [Field K] [CharZero K] (a b PA PB p : K) (hp : p ≠ 0)
    (hab : a + b = p) (hPAB : a * PA + b * PB = 0) (u v : K[X]) :
    G p (u * Dtw b PB v) = - G p (Dtw a PA u * v) :=
  G_mul_Dtw a b PA PB p hp hab hPAB u v

/-- the same for the one-dimensional table entries: exchanging the two functions flips the sign at
first order (and gives `(-1)^k` at order `k`) -/
theorem table_swap {K : Type} [Field K] [CharZero K] (a b PA PB : K) (hp : a + b ≠ 0)
    (hPAB : a * PA + b * PB = 0) (k i j : ℕ) :
    Dspec (a + b) b PA PB k i j = (-1)^k * Dspec (a + b) a PB PA k j i :=
  Dspec_swap a b PA PB hp hPAB k i j

/-- **Assembly.**  A square matrix whose upper triangle (including the diagonal blocks) holds `-i·d`
for a real antisymmetric kernel `d` is Hermitian exactly when the lower triangle is filled with the
*conjugate* transpose.  Entry-level statement over ℂ: with `A r c = -I * d r c` for `r ≤ c` and the
lower triangle `A r c = conj (A c r)`, one has `A r c = -I * d r c` everywhere, provided `d c r = -d r c`. -/
theorem conj_fill_correct (d : ℕ → ℕ → ℝ) (hd : ∀ r c, d c r = - d r c) (A : ℕ → ℕ → ℂ)
    (hup : ∀ r c, r ≤ c → A r c = -Complex.I * (d r c : ℂ))
    (hlow : ∀ r c, c < r → A r c = (starRingEnd ℂ) (A c r)) :
    ∀ r c, A r c = -Complex.I * (d r c : ℂ) := by
  intro r c
  rcases Nat.lt_or_ge c r with h | h
  · rw [hlow r c h, hup c r h.le, hd r c]
    simp [Complex.conj_ofReal]
  · exact hup r c h

/-- the defect that was repaired: with the *plain* transpose in the lower triangle the entry below
the diagonal has the wrong sign whenever the kernel does not vanish there -/
theorem plain_fill_wrong (d : ℕ → ℕ → ℝ) (hd : ∀ r c, d c r = - d r c) (A : ℕ → ℕ → ℂ)
    (hup : ∀ r c, r ≤ c → A r c = -Complex.I * (d r c : ℂ))
    (hlow : ∀ r c, c < r → A r c = A c r) (r c : ℕ) (h : c < r) (hne : d r c ≠ 0) :
    A r c ≠ -Complex.I * (d r c : ℂ) := by
  rw [hlow r c h, hup c r h.le, hd r c]
  intro heq
  have : (d r c : ℂ) = 0 := by
    have h2 : Complex.I * ((d r c : ℂ)) = -(Complex.I * (d r c : ℂ)) := by
      simpa [neg_mul, mul_neg] using heq
    have h3 : Complex.I * (d r c : ℂ) = 0 := by
      have := add_eq_zero_iff_eq_neg.mpr h2
      simpa [← two_mul] using this
    exact (mul_eq_zero.mp h3).resolve_left Complex.I_ne_zero
  exact hne (by exact_mod_cast this)

end GB.C08
