import GBProofs.Props.C16
import GBProofs.TraceLaws
/-!
# C16 — the density integrates to tr(γS), the positive-definite kinetic density to tr(γT)

`TraceLaws.lean`, for an arbitrary real matrix `γ` over any finite family of (shell, segment, component)
indices: `density_integral_eq_trace` (∫ Σ γ_ab φ_a φ_b = Σ γ_ab S_ab with `S` the model's overlap block
entries), `posdef_kinetic_density_integral_eq_trace` (∫ ½ Σ γ_ab ∇φ_a·∇φ_b = Σ γ_ab T_ab),
`moment_integral_eq_trace` / `dipole_integral_eq_trace` (moments of the density).  Together with
`Props/C16.lean` (the blocks are integrals of products of exactly the functions the evaluation model
returns) this is the whole of C16 at model level.
-/
namespace GB.C16
alias density_integrates_to_trace := density_integral_eq_trace
alias posdef_kinetic_density_integrates_to_trace := posdef_kinetic_density_integral_eq_trace
end GB.C16
