import GBProofs.FormulaProofs
import GBProofs.Props.C14full
import GBProofs.TraceLaws
/-!
# C14 — the electrostatic potential is the nuclear sum minus the Coulomb potential of the density

`TraceLaws.lean`: `electronic_potential_eq_integral` (Σ γ_ab ⟨a|−q/|r−R||b⟩ = −q ∫ ρ(r)/‖r−R‖ with the
model's point-charge block entries and ρ = Σ γ_ab φ_a φ_b, any real γ), `espHartree_eq_integral`,
`espNuclear_cast` (the model's masked nuclear sum over ℚ read in ℝ: a nucleus contributes `Z/d` unless
`d < t`, whatever its charge) and the composition **`espValue_eq`**:
`value = Σ_A [d_A < t ? 0 : Z_A/d_A] − ∫ ρ(r)/‖r−R‖`.
-/
namespace GB.C14
alias esp_is_nuclear_minus_coulomb_potential := espValue_eq
alias electronic_term_is_coulomb_integral := electronic_potential_eq_integral
end GB.C14
