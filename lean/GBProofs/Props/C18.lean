import GBModel.Parsers
/-!
# C18 — basis-set import (token-line model)
Round-trip theorems are in `ParserProofs.lean` (when present); this file holds kernel-evaluated
instances of the model on concrete files, including the three preamble situations of the repaired
defect (zero, one, many lines before the first element).
-/
namespace GB.C18
open GB.Parse

def nwFile (pre : List Line) : List Line :=
  pre ++ [["H", "S"], ["0.5D+00", "1.0"], ["0.25", "0.5E-01"], [], ["#", "comment"], ["H", "SP"], ["1.5", "1.0", "-0.5"],
          ["He", "D"], ["0.75", "1.0", "2.0"], ["END"]]

def nwExpected : List (String × List ShellRec) :=
  [("H", [⟨0, ["0.5e+00", "0.25"], [["1.0", "0.5e-01"]]⟩, ⟨0, ["1.5"], [["1.0"]]⟩, ⟨1, ["1.5"], [["-0.5"]]⟩]),
   ("He", [⟨2, ["0.75"], [["1.0"], ["2.0"]]⟩])]

theorem nw_no_preamble : parseNw (nwFile []) = some nwExpected := by decide +kernel
theorem nw_one_line : parseNw (nwFile [["#", "one", "line"]]) = some nwExpected := by decide +kernel
theorem nw_many_lines : parseNw (nwFile [["#", "a"], [], ["BASIS", "\"ao", "basis\"", "PRINT"]]) = some nwExpected := by
  decide +kernel

def gbsFile (pre : List Line) : List Line :=
  pre ++ [["H", "0"], ["S", "2", "1.00"], ["0.5D+00", "1.0"], ["0.25", "0.5"], ["SP", "1", "1.00"], ["1.5", "1.0", "-0.5"], ["****"],
          ["He", "0"], ["D", "1", "1.00"], ["0.75", "1.0"], ["****"]]

def gbsExpected : List (String × List ShellRec) :=
  [("H", [⟨0, ["0.5e+00", "0.25"], [["1.0", "0.5"]]⟩, ⟨0, ["1.5"], [["1.0"]]⟩, ⟨1, ["1.5"], [["-0.5"]]⟩]),
   ("He", [⟨2, ["0.75"], [["1.0"]]⟩])]

theorem gbs_no_preamble : parseGbs (gbsFile []) = some gbsExpected := by decide +kernel
theorem gbs_one_line : parseGbs (gbsFile [["!", "x"]]) = some gbsExpected := by decide +kernel

/-- `make_contractions`: atom order, atom index, coordinate types consumed in order, tuple = list -/
theorem make_contractions_example :
    makeContractions [("H", [⟨0, ["1.0"], [["1.0"]]⟩, ⟨1, ["0.8"], [["1.0"]]⟩])] ["H", "H"]
        (.many ["cartesian", "p", "c", "spherical"])
      = some [⟨0, 0, ["1.0"], [["1.0"]], "cartesian"⟩, ⟨1, 0, ["0.8"], [["1.0"]], "spherical"⟩,
              ⟨0, 1, ["1.0"], [["1.0"]], "cartesian"⟩, ⟨1, 1, ["0.8"], [["1.0"]], "spherical"⟩] := by
  decide +kernel

theorem make_contractions_rejects :
    makeContractions [("H", [⟨0, ["1.0"], [["1.0"]]⟩])] ["H"] (.many ["cartesian", "spherical"]) = none ∧
    makeContractions [("H", [⟨0, ["1.0"], [["1.0"]]⟩])] ["H"] (.one "sph") = none := by
  decide +kernel

end GB.C18
