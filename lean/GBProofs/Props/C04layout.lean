import GBProofs.FormulaProofs
import GBProofs.Props.C04full
import GBProofs.Layout14
/-!
# C04 / C05 / C09 — layout of the four-index and one-index arrays of the model

`Layout14.lean`: `assemble4g_get` (row-major, chemists' order), `entry4_layout` (the entry at
`(offset_i + m·L + f, …)` is the normalised, transformed quartet block entry of the four shells the
indices belong to), `wBlock4_get8` (four nested weight stages; Cartesian: product of the four `norm_cont`
entries times the raw block entry), `entry4_append` / `assemble4g_append` (four different bases = block of
the union), **`entry4_middle_swap` / `assemble4g_middle_swap`** (physicists' notation = chemists' with the
two middle indices exchanged, for the assembled arrays, any shells); `entry1_layout`, `assemble1_get`
for `BaseOneIndex` (evaluations).
-/
namespace GB.C04
alias physicist_is_middle_swap_of_arrays := assemble4g_middle_swap
alias four_index_layout := entry4_layout
end GB.C04
