import GBModel.Arr
import GBProofs.AxisCalculus

/-!
# C09 — spherical, mixed and linearly transformed results derive from the Cartesian ones

`pipelineOk prog sphs nextra` (model, `GBModel/Arr.lean`) states symbolically — hence for every
number of segments, components, points … — that the program `prog` turns the shell block
`(M₁, L₁, M₂, L₂, …, extras)` into the array whose axis `s` is `(segment, function)` fused
segment-major, normalised with `norm_cont` on `(segment, Cartesian component)` *before* each spherical
slot is contracted with its own matrix.  `AxisCalculus.lean` proves that the symbolic evaluation is
sound for the concrete index-wise semantics of the NumPy operations.  The programs themselves are
extracted from the source on every run (`GBExtracted/Pipelines.lean`) and checked by the obligations
in `GBProofs/Obl/Pipelines.lean`; below, reference programs show that the criterion is satisfiable and
that it rejects the typical mistakes.
-/
namespace GB.C09
open ArrOp

/-- the two-index mixed pipeline (first shell spherical, second Cartesian) as in `base_two_symm.py` -/
def refMixSphCart : List ArrOp :=
  [.scale 0 0, .scale 1 2, .tdot 0 1, .swap 0 1, .merge0, .swap 0 1, .swap 1 2, .merge0, .swap 0 1]

theorem ref_ok : pipelineOk refMixSphCart [true, false] 0 = true ∧ pipelineOk refMixSphCart [true, false] 2 = true := by
  decide +kernel

/-- transforming before normalising is rejected (norm_cont is indexed by Cartesian components) -/
theorem rejects_norm_after_transform :
    pipelineOk [.scale 1 2, .tdot 0 1, .swap 0 1, .scale 0 0, .merge0, .swap 0 1, .swap 1 2, .merge0, .swap 0 1]
      [true, false] 0 = false := by decide +kernel

/-- using the matrix of the other shell is rejected -/
theorem rejects_wrong_matrix :
    pipelineOk [.scale 0 0, .scale 1 2, .tdot 1 1, .swap 0 1, .merge0, .swap 0 1, .swap 1 2, .merge0, .swap 0 1]
      [true, false] 0 = false := by decide +kernel

/-- component-major instead of segment-major flattening is rejected -/
theorem rejects_component_major :
    pipelineOk [.scale 0 0, .scale 1 2, .swap 0 1, .merge0, .swap 0 1, .swap 1 2, .swap 0 1, .merge0, .swap 0 1]
      [false, false] 0 = false := by decide +kernel

/-- a missing transformation is rejected -/
theorem rejects_missing_transform :
    pipelineOk [.scale 0 0, .scale 1 2, .merge0, .swap 0 1, .swap 1 2, .merge0, .swap 0 1] [true, false] 0 = false := by
  decide +kernel

/-- lincomb of the four-index class: one matrix on all four axes, original axis order restored -/
theorem ref_lincomb4 :
    lincombOk [.tdot 0 0, .tdot 0 1, .tdot 0 2, .tdot 0 3, .swap 0 3, .swap 1 2] 4 (fun _ => 0) = true := by
  decide +kernel

theorem rejects_lincomb_wrong_order :
    lincombOk [.tdot 0 0, .tdot 0 1, .tdot 0 2, .tdot 0 3, .swap 0 3] 4 (fun _ => 0) = false := by
  decide +kernel

/-- **soundness for all shapes**: a program accepted by `pipelineOk` computes, on every concrete
shell block of the right dimensions and for every number of segments, components, points …, the array
whose entry `(m_s·L'_s + f_s)_s` is the block normalised on `(segment, Cartesian component)` and
contracted with its own matrix on every spherical slot (`nest` is that explicit nested sum) -/
alias pipeline_sound_all_shapes := c09_general

/-- the two-slot closed form (explicit double sum) -/
alias two_slot_formula := c09_two_slots

/-- `construct_array_lincomb`: every basis axis contracted with the transformation meant for it -/
alias lincomb_sound := lincombOk_sound

end GB.C09
