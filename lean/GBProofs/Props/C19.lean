import GBProofs.PurityProofs
/-!
# C19 — calls are pure
`PurityProofs.history_pure`: with pure effect summaries — the hypothesis discharged for the summaries
extracted from the source by `GB.Obl.effects_ok` — no history of calls (any length, returning or
raising) changes an argument object or the process-wide error state; `call_result_independent`: the
value allocated by a call does not depend on the history; `pop_counterexample`,
`seterr_leak_counterexample`: the two repaired defects violate the hypothesis and the conclusion.
Unit normalisation after `assign_norm_cont` is `C16.normalised_diag_one` (it only depends on the
shell's current parameters).
-/
namespace GB.C19
open GB.Purity

theorem purity_of_histories (sums : Nat → Summary) (hp : ∀ f, (sums f).pure = true) (ops : List Op) (w : World) :
    (run sums w ops).err = w.err ∧ ∀ o, o < w.next → o ∉ updated ops → (run sums w ops).heap o = w.heap o :=
  history_pure sums hp ops w

end GB.C19
