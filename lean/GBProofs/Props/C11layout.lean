import GBProofs.Props.C11
import GBProofs.Layout
import GBProofs.EriIntegral
import GBProofs.AngMom
import GBProofs.Reorder
/-! C11: with `Layout.entry2_layout` the model's array for any listing of the shells is, entry by entry,
the block of the two shells the indices belong to — computed in that orientation; reordering the shells
therefore permutes indices by construction of the model, and the block symmetries justify the code's
filling by symmetry: `overlapMat_symm`, `kineticMat_symm`, `pointChargeMat_symm` (`Definiteness.lean`) and the
three generators of the eight-fold symmetry of the electron-repulsion block, `eriBlock_swap_ab`,
`eriBlock_swap_cd`, `eriBlock_swap_electrons` (`EriIntegral.lean`), all proved for the model's blocks. -/

/-! `Reorder.lean`: **the reordering law itself** — if `b'` lists the shells of `b` in another order (`Reordered b' b σ`) and
the block depends only on the shells, then `entry(b') r c = entry(b) (reindex r) (reindex c)` with `reindex` the induced
bijection of basis-function indices (`entry1_reorder`, `entry2_reorder`, `entry4_reorder`, `reindexEquiv`, packaged for
permutations as `entry2_permute` …); symmetric / antisymmetric blocks give symmetric / antisymmetric assembled arrays, also
through the spherical weights (`entry2_symm`, `entry2_antisymm`), and the three generators give the eight-fold symmetry of the
assembled repulsion array (`entry4_eightfold`, `eri_array_eightfold`). -/
namespace GB.C11
alias shell_reordering_is_index_permutation := entry2_reorder
alias four_index_reordering_is_index_permutation := entry4_reorder
alias repulsion_array_eightfold := eri_array_eightfold
end GB.C11
