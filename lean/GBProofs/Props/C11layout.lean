import GBProofs.Props.C11
import GBProofs.Layout
import GBProofs.EriIntegral
import GBProofs.AngMom
/-! C11: with `Layout.entry2_layout` the model's array for any listing of the shells is, entry by entry,
the block of the two shells the indices belong to — computed in that orientation; reordering the shells
therefore permutes indices by construction of the model, and the block symmetries justify the code's
filling by symmetry: `overlapMat_symm`, `kineticMat_symm`, `pointChargeMat_symm` (`Definiteness.lean`) and the
three generators of the eight-fold symmetry of the electron-repulsion block, `eriBlock_swap_ab`,
`eriBlock_swap_cd`, `eriBlock_swap_electrons` (`EriIntegral.lean`), all proved for the model's blocks. -/
