import GBProofs.Props.C11
import GBProofs.Layout
/-! C11: with `Layout.entry2_layout` the model's array for any listing of the shells is, entry by entry,
the block of the two shells the indices belong to — computed in that orientation; reordering the shells
therefore permutes indices by construction of the model, and the block symmetries of `Props/C11.lean`
justify the code's filling by symmetry. -/
