import GBProofs.Props.C03
import GBProofs.CoulombGeneral
/-!
# C03 — analytic anchor
`CoulombGeneral.coulomb_general`: for two primitive Cartesian Gaussians of arbitrary angular momenta
the three-dimensional Coulomb integral `∫ g_a g_b / |r - C| d³r` **is** `(2π/p) e^{-μ|AB|²} · Vspec`
with the true Boys function `boys T m = ∫₀¹ t^{2m} e^{-T t²} dt` — the Gaussian transform of `1/r`,
Fubini and the Rys substitution are all formalised (`RysAnalytic.lean`, `CoulombGeneral.lean`).
Together with `C03.vertical_table_eq_spec` and `C03.horizontal_table_eq_spec` (valid for any `F`, in
particular `F = boys T`) this ties the recursion tables of the code to the integral.
-/
