import GBProofs.Props.C03
import GBProofs.CoulombGeneral
import GBProofs.PointChargeBlock
import GBProofs.BoysSeries
/-!
# C03 — analytic anchor
`CoulombGeneral.coulomb_general`: for two primitive Cartesian Gaussians of arbitrary angular momenta
the three-dimensional Coulomb integral `∫ g_a g_b / |r - C| d³r` **is** `(2π/p) e^{-μ|AB|²} · Vspec`
with the true Boys function `boys T m = ∫₀¹ t^{2m} e^{-T t²} dt` — the Gaussian transform of `1/r`,
Fubini and the Rys substitution are all formalised (`RysAnalytic.lean`, `CoulombGeneral.lean`).
Together with `C03.vertical_table_eq_spec` and `C03.horizontal_table_eq_spec` (valid for any `F`, in
particular `F = boys T`) this ties the recursion tables of the code to the integral.
-/

namespace GB.C03

/-- **Block-level theorem.**  The whole code path of `PointChargeIntegral.construct_array_contraction`
— vertical recursion on primitives, contraction, horizontal recursion, component selection, angular
norms, the shell swap, the factor `-q` — with the true Boys function computes
`-q ∫ φ_a(r) φ_b(r) / |r - C| d³r` for the contracted, primitive-normalised Cartesian functions, for all
shells with positive exponents (any angular momenta, any number of primitives and segments). -/
theorem point_charge_block_is_coulomb_integral (boysT : ℝ → ℕ → Tab ℝ)
    (hboys : ∀ T n m, m < n → (boysT T n).get m = boys T m) (s t : Shell ℝ) (Cpt : ℕ → ℝ) (q : ℝ)
    (ma ca mb cb : ℕ) (hs : ∀ k, k < s.nprim → 0 < s.exp! k) (ht : ∀ k, k < t.nprim → 0 < t.exp! k)
    (ha : (s.comp! ca).1 + (s.comp! ca).2.1 + (s.comp! ca).2.2 ≤ s.l)
    (hb : (t.comp! cb).1 + (t.comp! cb).2.1 + (t.comp! cb).2.2 ≤ t.l) :
    (pointChargeBlock boysT s t Cpt q).get4 ma ca mb cb
      = -q * ∫ r : E3, shellFnE s ma ca r * shellFnE t mb cb r / ‖r - toE3 Cpt‖ :=
  pointChargeBlock_eq_integral boysT hboys s t Cpt q ma ca mb cb hs ht ha hb

/-- `BoysSeries.lean`: the formulas by which the compiled model evaluates the Boys function are exact identities
(`boys_partial_sum`, `boys_downward_step`, `boys_upward_step`), the truncated series it sums at the top order (1201 terms,
`T ≤ 200`) is within `10⁻⁴¹⁶` of the Boys integral (`boys_model_top`), and its starting value for `T > 200` is within
`e⁻²⁰⁰/400` (`boys_zero_asymptotic_model`); what is left to the numerical validation is the 320-bit rounding only. -/
alias boys_series_truncation := boys_model_top
alias boys_large_argument_start := boys_zero_asymptotic_model

end GB.C03
