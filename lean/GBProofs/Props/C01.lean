import GBProofs.MomTab
import GBProofs.GaussIntegral
import GBProofs.RealInst

/-!
# C01 — overlap integrals are exact and every basis function is unit-normalised

Property theorems only.  Helper lemmas live in `GBProofs/*.lean`.
-/
open MeasureTheory Real

namespace GB.C01

/-- **The recursion table of the code is the integral.**  For every pair of primitives with
positive exponents, every axis, every moment order `k` and angular indices `j` (right), `i` (left)
— no bound — the entry `integrals[k, j, i, axis, kb, ka]` that the model of
`_compute_multipole_moment_integrals_intermediate` produces is the one-dimensional integral
`∫ (x-A)^i (x-B)^j (x-O)^k e^{-a(x-A)²} e^{-b(x-B)²} dx`. -/
theorem table_entry_eq_integral (s t : Shell ℝ) (origin : ℕ → ℝ) (nk ka kb axis k j i : ℕ)
    (ha : 0 < s.exp! ka) (hb : 0 < t.exp! kb) :
    (momAx s t origin nk ka kb axis).get3 k j i
      = ∫ x : ℝ, (x - s.ctr axis)^i * (x - t.ctr axis)^j * (x - origin axis)^k
          * (exp (-(s.exp! ka) * (x - s.ctr axis)^2) * exp (-(t.exp! kb) * (x - t.ctr axis)^2)) := by
  have hp : s.exp! ka + t.exp! kb ≠ 0 := by positivity
  rw [gauss_product_integral _ _ _ _ _ ha hb]
  simp only [momAx, pair1D]
  have h2 : (Num.nat 1 : ℝ) / (Num.nat 2 * (s.exp! ka + t.exp! kb)) = 1 / (2 * (s.exp! ka + t.exp! kb)) := by
    simp
  rw [h2, momTab_eq _ _ _ _ _ hp]
  simp only [Transc.sqrt, Transc.pi, Transc.exp]

/-- **Unit normalisation (Cartesian component).**  With `norm_cont` as the code computes it
(`einsum("ijij->ij")` of the shell's own overlap block, to the power `-1/2`), the normalised
self-overlap of segment `m`, component `c` is exactly 1 whenever the raw self-overlap is positive
(it is the integral of the square of a non-zero function). -/
theorem cart_diag_one (s : Shell ℝ) (m c : ℕ) (hn : s.unitNorm = true)
    (hpos : 0 < (overlapBlock s s).get4 m c m c) :
    (overlapBlock s s).get4 m c m c * (normCont s).get2 m c * (normCont s).get2 m c = 1 := by
  simp only [normCont, hn, if_true, tab2_get]
  simp only [Transc.sqrt, num_nat, Nat.cast_one]
  have h := Real.sq_sqrt hpos.le
  have hs : Real.sqrt ((overlapBlock s s).get4 m c m c) ≠ 0 := (Real.sqrt_pos.mpr hpos).ne'
  field_simp
  exact h.symm

end GB.C01
