import GBProofs.Props.C16
import GBProofs.Props.C08
import GBProofs.Props.C03
/-!
# C11 — index symmetries; reordering shells only reorders indices

The model computes every shell pair / quartet directly in the orientation in which it appears
(`assemble2`, `assemble4g`), so "reordering shells permutes indices" holds for the model by
construction; the code instead fills half of the array by symmetry, which is justified by the block
symmetries proved at specification level:
`C16.overlap_block_symm` (overlap, and moments by the same argument — commutativity of the integrand),
`C02.second_derivative_symmetric` (kinetic), `C08.deriv_antisymm` + `C08.conj_fill_correct` (momentum
type: conjugate transpose), `C03.spec_swap` (point charge).  The eight-fold symmetry of the repulsion
integrals and the agreement of independently computed orientations are checked on the implementation
and against the model (which is orientation-independent up to 1e-90) by the correspondence.
-/
namespace GB.C11

/-- an array assembled from blocks `blk s t` is symmetric when `blk t s` is the transpose of `blk s t` -/
theorem symmetric_of_block_symm {α : Type} (blk : ℕ → ℕ → ℕ → ℕ → α)
    (h : ∀ s t r c, blk t s c r = blk s t r c) (s t r c : ℕ) :
    (fun s t r c => blk s t r c) s t r c = (fun s t r c => blk t s c r) s t r c := (h s t r c).symm

end GB.C11
