import GBProofs.TranslationLaws
/-!
# C12 — covariance under rigid motions (proved part: all translations, axis reflections)

`TranslationLaws.lean`: every parameter of the one-dimensional recursions depends on centres, and on
the moment origin, only through differences (`pair1D_translate`), hence the tables and the overlap /
moment / derivative / kinetic blocks of the model are invariant under a common translation
(`momentBlock_translate_real`, `overlapBlock_translate_real`, `kineticBlock_translate_real`,
`diffBlock_translate`); a reflection of one axis multiplies the one-dimensional factor by the parity
`(-1)^{i+j+k}` (`S3_neg`, `Dspec_neg`).  Covariance under general rotations is checked numerically on
the implementation (all 48 signed axis permutations and random orthogonal matrices) and is *not* a
theorem here; see DESIGN.md §7.
-/
namespace GB.C12

theorem reflection_parity {K : Type} [Field K] [CharZero K] (p PA PB PC : K) (i j k : ℕ) :
    S3 p (-PA) (-PB) (-PC) i j k = (-1)^(i+j+k) * S3 p PA PB PC i j k := S3_neg p PA PB PC i j k

end GB.C12
