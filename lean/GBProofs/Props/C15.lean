import GBProofs.FormsProofs

/-!
# C15 — stress tensor, Ehrenfest force and Ehrenfest Hessian obey their definitions

Same setting as C06.  Every statement holds for **all** rational `α`, `β` at once, including the
values 0, 1/2, 1 at which the code skips terms (a skipped term has coefficient 0).
-/
namespace GB.C15
variable {K A ι : Type*} [Field K] [CharZero K] [CommRing A] [Algebra K A] [Fintype ι]
variable (d : Fin 3 → Derivation K A A) (φ : ι → A) (γ : ι → ι → K)

/-- the stress tensor is its documented expression in derivatives of the reduced density matrix -/
theorem stress_is_documented (hd : CommD d) (hγ : SymmG γ) (α β : ℚ) (i j : Fin 3) :
    Form.evalA d φ γ (stressForm α β i j) =
      -(1 / 2 : K) • ((α : K) • (Dsym d φ γ (e i) (e j) + Dsym d φ γ (e j) (e i))
          - (1 - (α : K)) • (Dsym d φ γ (e i + e j) 0 + Dsym d φ γ 0 (e i + e j)))
        - (1 / 2 : K) • ((if i = j then (1 : K) else 0) * (β : K)) • lap d φ γ :=
  stress_doc hd hγ α β i j

theorem stress_symmetric (α β : ℚ) (i j : Fin 3) :
    Form.evalA d φ γ (stressForm α β i j) = Form.evalA d φ γ (stressForm α β j i) := stress_symm α β i j

/-- **the Ehrenfest force is minus the divergence of the stress tensor** -/
theorem force_is_neg_div_stress (hd : CommD d) (hγ : SymmG γ) (α β : ℚ) (i : Fin 3) :
    Form.evalA d φ γ (forceForm α β i) = -∑ j : Fin 3, d j (Form.evalA d φ γ (stressForm α β i j)) :=
  force_eq_neg_div_stress hd hγ α β i

/-- **the Ehrenfest Hessian is the Jacobian of the force** (`H_ij = ∂_j F_i`, the expanded formula) -/
theorem hessian_is_jacobian_of_force (hd : CommD d) (hγ : SymmG γ) (α β : ℚ) (i j : Fin 3) :
    Form.evalA d φ γ (ehrenfestHessianRaw α β i j) = d j (Form.evalA d φ γ (forceForm α β i)) :=
  ehrenfest_hessian_eq_jacobian hd hγ α β i j

/-- the symmetric option returns the average with the transpose -/
theorem symmetric_option (α β : ℚ) (i j : Fin 3) :
    Form.evalA d φ γ (ehrenfestHessianForm α β true i j)
      = (1 / 2 : K) • (Form.evalA d φ γ (ehrenfestHessianRaw α β i j)
          + Form.evalA d φ γ (ehrenfestHessianRaw α β j i)) :=
  ehrenfest_hessian_symmetrised α β i j

end GB.C15
