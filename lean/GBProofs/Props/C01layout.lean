import GBProofs.Props.C16
import GBProofs.Layout
/-!
# C01 / C07 — documented layout and "asymmetric = block of the union"
`Layout.lean`: `locate_offset` / `locate_lt` (basis index ↔ (shell, segment, function): shell, then
segmented contraction, then angular component), `entry2_layout` (the entry at
`(offset_i + m·L' + f, offset_j + n·L'' + g, e)` is the normalised, transformed block entry `(m,f,n,g)` of
shells `(i, j)`), `assemble2_get` (row-major flat array), `entry2_append` / `assemble2_append`
(**the array of two different bases is the off-diagonal block of the array of their union**, for every
block function that depends only on the two shells — overlap in particular).
-/
