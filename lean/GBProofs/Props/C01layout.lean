import GBProofs.Props.C16
import GBProofs.Layout
import GBProofs.SphericalNorm
import GBProofs.ArrayDefiniteness
import GBProofs.OriginShift
import GBProofs.ArrayAsym
/-!
# C01 / C07 — documented layout and "asymmetric = block of the union"
`Layout.lean`: `locate_offset` / `locate_lt` (basis index ↔ (shell, segment, function): shell, then
segmented contraction, then angular component), `entry2_layout` (the entry at
`(offset_i + m·L' + f, offset_j + n·L'' + g, e)` is the normalised, transformed block entry `(m,f,n,g)` of
shells `(i, j)`), `assemble2_get` (row-major flat array), `entry2_append` / `assemble2_append`
(**the array of two different bases is the off-diagonal block of the array of their union**, for every
block function that depends only on the two shells — overlap in particular).
-/

/-! `SphericalNorm.lean`: the overlap metric of the unit-normalised Cartesian functions of one shell is the universal
`Sov` (`normalised_overlap_same_shell`, from the one-centre structure `metric · Φ_m` of the recursion tables), hence with the
kernel-checked orthonormality of the solid-harmonic rows the same-segment block of a spherical shell is the identity
(`spherical_block_orthonormal`, l ≤ 10) and **every diagonal entry of the model's overlap array is 1**
(`overlap_array_diag_one`, Cartesian and spherical shells). -/
namespace GB.C01
alias every_function_unit_normalised := overlap_array_diag_one
end GB.C01

/-! `OriginShift.lean` (C07): the entry for an order list depends only on the triple at that position
(`momentBlock_entry_order_indep`), order (0,0,0) is the overlap block (`momentBlock_order0_eq_overlap`), and moving the origin
changes the block by the binomial expansion in lower moments (`momentBlock_origin_shift`, `_list`, `momentBlock_dipole_shift`). -/
namespace GB.C07
alias block_origin_shift := momentBlock_origin_shift_list
alias block_order_zero_is_overlap := momentBlock_order0_eq_overlap
end GB.C07

/-! `ArrayAsym.lean` (C01, second half; C12 / C13 for two bases): the array of **two different bases** (`overlap_integral_asymmetric`)
under a rigid motion of both (`overlap_asym_array_moved`, `overlap_asym_array_translate`; generic `entry2_moved_of_blocks_asym`, and
`entry4_moved_of_blocks_g` / `eri_array_moved_g` for four different bases) and under the contraction rewrites of a shell of either
basis (`overlap_asym_flat_splitColumns_left/_right`, `…_permPrims`, `…_splitPrim`, `…_scaleColumn_pos/_neg`; generic
`entry2_replaced_of_blocks_asym`). -/
namespace GB.C01
alias asymmetric_overlap_covariant := overlap_asym_array_moved
alias asymmetric_overlap_split_columns := overlap_asym_flat_splitColumns_left
end GB.C01
