import GBProofs.Props.C05
import GBProofs.Layout14
import GBProofs.SmoothInstance
/-! C05: layout of the one-index arrays of the model (`BaseOneIndex`): `entry1_layout` (row `offset_i + m·L + f`
is function `f` of segment `m` of shell `i`; spherical rows are the Cartesian rows contracted with the
shell's matrix after `norm_cont`), `assemble1_get` (row-major `[function][point]`). -/
