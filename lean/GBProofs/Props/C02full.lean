import GBProofs.Props.C16
import GBProofs.Definiteness
/-! # C02 — kinetic block: `⟨a|−½∇²|b⟩ = ½⟨∇a|∇b⟩` at block level (`kineticBlock_eq_gradient`), hence symmetric
and positive semi-definite (`kineticMat_symm`, `kinetic_psd`); `hasDerivAt_shellFn_x/_y/_z` identify the
differentiated shell functions with genuine partial derivatives. -/
namespace GB.C02
alias block_is_half_gradient_product := kineticBlock_eq_gradient
end GB.C02
