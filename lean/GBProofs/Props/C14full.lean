import GBProofs.Props.C14
import GBProofs.PointChargeBlock
/-! C14: decision logic (`Props/C14.lean`) together with the block-level Coulomb theorem for the electronic term. -/
