import GBProofs.Block3D
import GBProofs.Props.C07

/-!
# C16 — analytic integrals and pointwise evaluations describe the same functions
(and the block-level forms of C01, C02, C07)

`shellFn s m c` is the contracted, primitive-normalised Cartesian function of segment `m`,
component `c` of shell `s`; `evalBlock_eq_shellFn` says it is what the *evaluation* half of the
library computes, and the theorems below say that the *integral* half integrates exactly these
functions — same primitive norms, same component order, same sign.
-/
open MeasureTheory

namespace GB.C16

/-- the evaluation model at derivative order zero is the function `shellFn` -/
theorem eval_is_shellFn (s : Shell ℝ) (pts : Array (ℕ → ℝ)) (m c p : ℕ) (r : ℝ × ℝ × ℝ)
    (hp : p < pts.size) (h0 : pts[p] 0 = r.1) (h1 : pts[p] 1 = r.2.1) (h2 : pts[p] 2 = r.2.2) :
    (evalBlock s .general (0,0,0) pts).get3 m c p = shellFn s m c r :=
  evalBlock_eq_shellFn s pts m c p r hp h0 h1 h2

/-- **overlap block = integral of the product of the evaluated functions** (all shells, any number
of primitives and segments, any angular momentum) -/
theorem overlap_eq_integral_of_eval (s t : Shell ℝ) (ma ca mb cb : ℕ)
    (hs : ∀ k < s.nprim, 0 < s.exp! k) (ht : ∀ k < t.nprim, 0 < t.exp! k) :
    (overlapBlock s t).get4 ma ca mb cb = ∫ r : ℝ × ℝ × ℝ, shellFn s ma ca r * shellFn t mb cb r :=
  overlapBlock_eq_integral s t ma ca mb cb hs ht

/-- **moment block = integral of the product of the evaluated functions times the moment monomial** -/
theorem moment_eq_integral_of_eval (s t : Shell ℝ) (O : ℕ → ℝ) (orders : List Comp) (d ma ca mb cb : ℕ)
    (hs : ∀ k < s.nprim, 0 < s.exp! k) (ht : ∀ k < t.nprim, 0 < t.exp! k) :
    ((momentBlock s t O orders).get d).get4 ma ca mb cb
      = ∫ r : ℝ × ℝ × ℝ, shellFn s ma ca r * shellFn t mb cb r
          * ((r.1 - O 0)^(orders.getD d (0,0,0)).1 * (r.2.1 - O 1)^(orders.getD d (0,0,0)).2.1
              * (r.2.2 - O 2)^(orders.getD d (0,0,0)).2.2) :=
  momentBlock_eq_integral s t O orders d ma ca mb cb hs ht

/-- **kinetic block = ∫ φ_a (−½ Δ φ_b)** with the second derivatives of the evaluated function -/
theorem kinetic_eq_integral_of_eval (s t : Shell ℝ) (ma ca mb cb : ℕ)
    (hs : ∀ k < s.nprim, 0 < s.exp! k) (ht : ∀ k < t.nprim, 0 < t.exp! k)
    (hc : (s.comp! ca).1 ≤ s.l ∧ (s.comp! ca).2.1 ≤ s.l ∧ (s.comp! ca).2.2 ≤ s.l) :
    (kineticBlock s t).get4 ma ca mb cb
      = ∫ r : ℝ × ℝ × ℝ, shellFn s ma ca r * (-(1/2) * (shellDerivFn t mb cb (2,0,0) r
          + shellDerivFn t mb cb (0,2,0) r + shellDerivFn t mb cb (0,0,2) r)) :=
  kineticBlock_eq_integral s t ma ca mb cb hs ht hc

/-- the derivative evaluation of the library is the function differentiated in the kinetic theorem -/
theorem evalderiv_is_shellDerivFn (s : Shell ℝ) (o : Comp) (pts : Array (ℕ → ℝ)) (m c p : ℕ)
    (r : ℝ × ℝ × ℝ) (hs : ∀ k < s.nprim, 0 < s.exp! k) (hp : p < pts.size)
    (h0 : pts[p] 0 = r.1) (h1 : pts[p] 1 = r.2.1) (h2 : pts[p] 2 = r.2.2) :
    (evalBlock s .general o pts).get3 m c p = shellDerivFn s m c o r :=
  evalBlock_general_eq_shellDerivFn s o pts m c p r hs hp h0 h1 h2

/-- symmetry of the overlap block (justifies filling the lower triangle by transposition) -/
theorem overlap_block_symm (s t : Shell ℝ) (ma ca mb cb : ℕ)
    (hs : ∀ k < s.nprim, 0 < s.exp! k) (ht : ∀ k < t.nprim, 0 < t.exp! k) :
    (overlapBlock s t).get4 ma ca mb cb = (overlapBlock t s).get4 mb cb ma ca :=
  overlapBlock_symm s t ma ca mb cb hs ht

/-- **unit normalisation**: with `norm_cont` as the code computes it the normalised self-overlap of
every Cartesian function that does not vanish identically is exactly 1 -/
theorem normalised_diag_one (s : Shell ℝ) (m c : ℕ) (hn : s.unitNorm = true)
    (hs : ∀ k < s.nprim, 0 < s.exp! k) (r₀ : ℝ × ℝ × ℝ) (h0 : shellFn s m c r₀ ≠ 0) :
    (overlapBlock s s).get4 m c m c * (normCont s).get2 m c * (normCont s).get2 m c = 1 :=
  C01.cart_diag_one s m c hn (selfOverlap_pos s m c hs r₀ h0)

end GB.C16
