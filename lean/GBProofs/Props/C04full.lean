import GBProofs.Props.C04
import GBProofs.CoulombTwoElectron
import GBProofs.EriIntegral
/-!
# C04 — the electron-repulsion block is the six-dimensional Coulomb integral

`CoulombTwoElectron.lean`: the six-dimensional integral of two products of Cartesian Gaussian primitives
with `1/‖r₁−r₂‖` (integrable: `coulomb2_general_integrable`) equals the Rys form (`coulomb2_general`,
`coulomb2_ssss`) — the Gaussian transform of `1/r₁₂`, the per-axis two-variable Gaussian moments by
integration by parts (`J2_rdk2`), Fubini and the final Boys integral are all proved.
`EriIntegral.lean`: closing the Rys form under the horizontal relations (`horiz4_unique`), contraction and
normalisation give **`eriBlock_eq_integral`**: every entry of the model of
`ElectronRepulsionIntegral.construct_array_contraction` is
`∫∫ φ_a(r₁) φ_b(r₁) φ_c(r₂) φ_d(r₂) / ‖r₁−r₂‖` of the contracted, primitive-normalised shell functions,
for arbitrary angular momenta, numbers of primitives and segmented contractions.  Consequences for the
code's block: the three generators of the eight-fold symmetry, `(ab|ab) ≥ 0`, the Schwarz bound.
-/
namespace GB.C04
alias block_is_exact_coulomb_integral := eriBlock_eq_integral
alias primitive_quartet_is_integral := eriQuartet_eq_integral
alias block_symm_ab := eriBlock_swap_ab
alias block_symm_cd := eriBlock_swap_cd
alias block_symm_electrons := eriBlock_swap_electrons
/-- the repair of the accuracy defect (fix commit c23ffd8) computes `(cd|ab)` and swaps the axes back whenever that orientation
amplifies rounding errors less: in exact arithmetic this is the identity, by the symmetry of the model's block under the exchange
of the two electrons -/
alias orientation_swap_is_exact := eriBlock_swap_electrons
alias block_self_nonneg := eriBlock_self_nonneg
alias block_schwarz := eriBlock_schwarz
end GB.C04
