import GBProofs.Props.C17
import GBProofs.Definiteness
import GBProofs.EriIntegral
/-!
# C17 — definiteness of the four families of arrays, for the model's blocks themselves

`Definiteness.lean`, with the block = integral theorems of C01/C02/C03/C04:
* overlap: `overlap_quadForm_eq` (`xᵀSx = ∫ (Σ xᵢφᵢ)²`), `overlap_psd`, `overlapMat_symm`, `overlap_abs_le`;
* kinetic: `kineticBlock_eq_gradient` (integration by parts at block level: `T_ab = ½ ∫ ∇φ_a·∇φ_b`),
  `kinetic_psd`, `kineticMat_symm`;
* point charge: `pointCharge_quadForm_eq` (`xᵀVx = −q ∫ (Σ xᵢφᵢ)²/‖r−C‖`), `pointCharge_nsd` for `q ≥ 0`;
* electron repulsion: positivity of the Coulomb kernel (`coulomb_kernel_nonneg`, via the Gaussian
  transform and the Gaussian convolution square root `gauss_kernel_gram`), hence `eriExact_psd`,
  and with `eriBlock_eq_integral` for the code's block: `eriBlock_psd`, `eriBlock_self_nonneg`,
  `eriBlock_schwarz`.
Every index family is an arbitrary finite family of (shell, segment, Cartesian component); Cartesian →
spherical and the user's `transform` are congruences `M ↦ T M Tᵀ`, which preserve (semi-)definiteness
(`GramLaws`).  What remains observed rather than proved is the floating-point evaluation.
-/
namespace GB.C17
alias overlap_block_psd := overlap_psd
alias kinetic_block_psd := kinetic_psd
alias point_charge_block_nsd := pointCharge_nsd
alias eri_block_psd := eriBlock_psd
alias eri_block_self_nonneg := eriBlock_self_nonneg
alias eri_block_schwarz := eriBlock_schwarz
end GB.C17
