import GBProofs.Props.C17
import GBProofs.Definiteness
import GBProofs.EriIntegral
import GBProofs.ArrayDefiniteness
import GBProofs.EriArrayDefiniteness
/-!
# C17 — definiteness of the four families of arrays, for the model's blocks themselves

`Definiteness.lean`, with the block = integral theorems of C01/C02/C03/C04:
* overlap: `overlap_quadForm_eq` (`xᵀSx = ∫ (Σ xᵢφᵢ)²`), `overlap_psd`, `overlapMat_symm`, `overlap_abs_le`;
* kinetic: `kineticBlock_eq_gradient` (integration by parts at block level: `T_ab = ½ ∫ ∇φ_a·∇φ_b`),
  `kinetic_psd`, `kineticMat_symm`;
* point charge: `pointCharge_quadForm_eq` (`xᵀVx = −q ∫ (Σ xᵢφᵢ)²/‖r−C‖`), `pointCharge_nsd` for `q ≥ 0`;
* electron repulsion: positivity of the Coulomb kernel (`coulomb_kernel_nonneg`, via the Gaussian
  transform and the Gaussian convolution square root `gauss_kernel_gram`), hence `eriExact_psd`,
  and with `eriBlock_eq_integral` for the code's block: `eriBlock_psd`, `eriBlock_self_nonneg`,
  `eriBlock_schwarz`.
Every index family is an arbitrary finite family of (shell, segment, Cartesian component); Cartesian →
spherical and the user's `transform` are congruences `M ↦ T M Tᵀ`, which preserve (semi-)definiteness
(`GramLaws`).  What remains observed rather than proved is the floating-point evaluation.
-/
namespace GB.C17
alias overlap_block_psd := overlap_psd
alias kinetic_block_psd := kinetic_psd
alias point_charge_block_nsd := pointCharge_nsd
alias eri_block_psd := eriBlock_psd
alias eri_block_self_nonneg := eriBlock_self_nonneg
alias eri_block_schwarz := eriBlock_schwarz
end GB.C17

/-! `ArrayDefiniteness.lean`: the statements for the **assembled arrays** of a whole basis (Cartesian and spherical shells,
after `norm_cont` and the spherical transformation): every assembled two-index array is `C · raw · Cᵀ` (`entry2_eq_TMT`), hence
`overlap_array_psd`, `overlap_array_symm`, **`overlap_array_abs_le_one`** (all elements at most 1 in magnitude, from the unit
diagonal), `kinetic_array_psd`, `pointCharge_array_nsd` (q ≥ 0) and their versions under the user's `transform=`
(`quadForm_congr`, `psd_congr`: any rectangular `T M Tᵀ`); entries as integrals of the array's own basis functions
(`overlap_entry_eq_integral`, `kinetic_entry_eq_gradient`, `pointCharge_entry_eq_integral`). -/
namespace GB.C17
alias overlap_array_elements_at_most_one := overlap_array_abs_le_one
end GB.C17

/-! `EriArrayDefiniteness.lean`: the **repulsion array of a whole basis** (Cartesian and pure shells): every entry is the six-dimensional
Coulomb integral of the four basis functions (`eri_array_eq_integral`), the array viewed as a matrix over index pairs is positive
semi-definite (`eri_array_psd`, `eri_flat_psd`), `(ab|ab) ≥ 0` (`eri_array_self_nonneg`), Schwarz (`eri_array_schwarz`, `eri_array_abs_le`), and all of
these survive a rectangular transformation of the four indices (`eri_array_transform_psd`, `…_schwarz`). -/
namespace GB.C17
alias repulsion_array_psd := eri_array_psd
alias repulsion_array_schwarz := eri_array_schwarz
end GB.C17
