import GBModel.Purity
import Mathlib.Tactic.Tauto
import Mathlib.Order.Basic

/-!
# History theorem: with pure summaries, no history changes arguments or the error state
-/
namespace GB.Purity

theorem step_pure_heap (sums : Nat → Summary) (hp : ∀ f, (sums f).pure = true) (w : World) (op : Op)
    (o : ObjId) (ho : o < w.next) (hu : ∀ v, op ≠ .update o v) :
    (step sums w op).heap o = w.heap o := by
  cases op with
  | update obj v =>
    have : o ≠ obj := by
      intro h; subst h; exact hu v rfl
    simp [step, this]
  | call f args raises noise =>
    have hpf := hp f
    simp only [Summary.pure, Bool.and_eq_true] at hpf
    have hne : o ≠ w.next := Nat.ne_of_lt ho
    simp [step, hpf.1, hne]

theorem step_pure_err (sums : Nat → Summary) (hp : ∀ f, (sums f).pure = true) (w : World) (op : Op) :
    (step sums w op).err = w.err := by
  cases op with
  | update obj v => rfl
  | call f args raises noise =>
    have hpf := hp f
    simp only [Summary.pure, Bool.and_eq_true, bne_iff_ne, ne_eq] at hpf
    have : ((sums f).err == ErrProto.leaking) = false := by
      simpa using hpf.2
    simp [step, this]

theorem step_next_mono (sums : Nat → Summary) (w : World) (op : Op) : w.next ≤ (step sums w op).next := by
  cases op <;> simp [step]

/-- **history_pure**: if every summary is pure (no write to anything but fresh objects or the shell's
own state; error state scoped), then after ANY sequence of calls — of any length, returning or
raising, with whatever the callee would have liked to write — every object that existed at the start
and was not explicitly updated by the user has its initial contents, and the process-wide error state
is the initial one. -/
theorem history_pure (sums : Nat → Summary) (hp : ∀ f, (sums f).pure = true) (ops : List Op) (w : World) :
    (run sums w ops).err = w.err ∧
    ∀ o, o < w.next → o ∉ updated ops → (run sums w ops).heap o = w.heap o := by
  induction ops generalizing w with
  | nil => exact ⟨rfl, fun _ _ _ => rfl⟩
  | cons op rest ih =>
    obtain ⟨ihe, ihh⟩ := ih (step sums w op)
    refine ⟨?_, ?_⟩
    · show (run sums (step sums w op) rest).err = w.err
      rw [ihe, step_pure_err sums hp]
    · intro o ho hno
      show (run sums (step sums w op) rest).heap o = w.heap o
      have hrest : o ∉ updated rest := by
        cases op with
        | update obj v => simp only [updated, List.mem_cons, not_or] at hno; exact hno.2
        | call f args raises noise => simpa only [updated] using hno
      rw [ihh o (Nat.lt_of_lt_of_le ho (step_next_mono sums w op)) hrest]
      apply step_pure_heap sums hp w op o ho
      intro v hv
      subst hv
      simp [updated] at hno

/-- the result of a call depends only on what the callee computes (`noise`), never on earlier
calls: two histories ending with the same call allocate the same value -/
theorem call_result_independent (sums : Nat → Summary) (w₁ w₂ : World) (f : Nat) (args : List ObjId) (v : Val) :
    (step sums w₁ (.call f args false v)).heap w₁.next = (step sums w₂ (.call f args false v)).heap w₂.next := by
  simp [step]

/-- counter-example 1 (the repaired `make_contractions`): a summary with a write to a parameter lets a
call change its argument -/
theorem pop_counterexample :
    let sums : Nat → Summary := fun _ =>
      { fn := "make_contractions", effects := [⟨"make_contractions", 237, "call .pop", .param⟩], err := .untouched }
    let w : World := { heap := fun _ => 7, next := 1, err := 0 }
    (step sums w (.call 0 [0] false 99)).heap 0 ≠ w.heap 0 := by
  decide

/-- counter-example 2 (the repaired `electrostatic_potential`): an unscoped `np.seterr` leaks when the
call raises -/
theorem seterr_leak_counterexample :
    let sums : Nat → Summary := fun _ => { fn := "electrostatic_potential", effects := [], err := .leaking }
    let w : World := { heap := fun _ => 0, next := 1, err := 0 }
    (step sums w (.call 0 [0] true 5)).err ≠ w.err := by
  decide

end GB.Purity
