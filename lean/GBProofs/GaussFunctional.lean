import GBProofs.Basic
import Mathlib.Algebra.Polynomial.Derivative
import Mathlib.Algebra.Polynomial.Eval.Defs
import Mathlib.Tactic.LinearCombination

/-!
# The normalised Gaussian functional on polynomials

`G p q` is the algebraic stand-in for `(∫ q(t) e^{-p t²} dt) / (∫ e^{-p t²} dt)`:
the linear functional with moments `gmom p`.  `GaussIntegral.lean` proves that it
is that quotient of integrals over ℝ.  `S3` is the one-dimensional three-centre
factor of every separable Gaussian integral of the library.
-/
open Polynomial

namespace GB
variable {K : Type} [Field K] [CharZero K]

/-- normalised Gaussian moments -/
def gmom (p : K) : ℕ → K
  | 0 => 1
  | 1 => 0
  | (n+2) => ((n : K) + 1) / (2 * p) * gmom p n

noncomputable def G (p : K) : K[X] →ₗ[K] K :=
  Polynomial.lsum (fun n => (LinearMap.id : K →ₗ[K] K).smulRight (gmom p n))

lemma G_monomial (p : K) (n : ℕ) (a : K) : G p (monomial n a) = a * gmom p n := by
  simp [G, Polynomial.lsum_apply, Polynomial.sum_monomial_index]

lemma G_X_pow (p : K) (n : ℕ) : G p (X ^ n) = gmom p n := by
  rw [← monomial_one_right_eq_X_pow, G_monomial]; simp

lemma G_C_mul (p c : K) (q : K[X]) : G p (C c * q) = c * G p q := by
  rw [← smul_eq_C_mul, map_smul, smul_eq_mul]

/-- integration by parts: `G(q') = 2p G(X q)` -/
theorem G_derivative (p : K) (hp : p ≠ 0) (q : K[X]) :
    G p (derivative q) = 2 * p * G p (X * q) := by
  induction q using Polynomial.induction_on' with
  | add a b ha hb => simp [mul_add, ha, hb]
  | monomial n a =>
    rw [derivative_monomial, X_mul_monomial, G_monomial, G_monomial]
    cases n with
    | zero => simp [gmom]
    | succ m =>
      cases m with
      | zero => simp [gmom]; field_simp
      | succ k =>
        simp only [Nat.add_sub_cancel, gmom]
        push_cast
        field_simp

/-- `G((X+PA)^i (X+PB)^j (X+PC)^k)`: the normalised integral of
`(x-A)^i (x-B)^j (x-C)^k` against the product Gaussian centred at `P`, with `PA = P - A` etc. -/
noncomputable def S3 (p PA PB PC : K) (i j k : ℕ) : K :=
  G p ((X + C PA)^i * (X + C PB)^j * (X + C PC)^k)

theorem S3_succ_i (p PA PB PC : K) (hp : p ≠ 0) (i j k : ℕ) :
    S3 p PA PB PC (i+1) j k = PA * S3 p PA PB PC i j k
      + (1 / (2*p)) * ((i:K) * S3 p PA PB PC (i-1) j k + (j:K) * S3 p PA PB PC i (j-1) k
          + (k:K) * S3 p PA PB PC i j (k-1)) := by
  unfold S3
  set Q : K[X] := (X + C PA)^i * (X + C PB)^j * (X + C PC)^k with hQ
  have h1 : (X + C PA)^(i+1) * (X + C PB)^j * (X + C PC)^k = C PA * Q + X * Q := by
    rw [hQ]; ring
  have h2 : G p (X * Q) = (1/(2*p)) * G p (derivative Q) := by
    rw [G_derivative p hp]; field_simp
  have h3 : derivative Q = C (i:K) * ((X + C PA)^(i-1) * (X + C PB)^j * (X + C PC)^k)
      + C (j:K) * ((X + C PA)^i * (X + C PB)^(j-1) * (X + C PC)^k)
      + C (k:K) * ((X + C PA)^i * (X + C PB)^j * (X + C PC)^(k-1)) := by
    rw [hQ]
    simp only [derivative_mul, derivative_X_add_C_pow, map_natCast]
    ring
  rw [h1, map_add, h2, h3]
  simp only [map_add, ← smul_eq_C_mul, map_smul, smul_eq_mul]

lemma S3_perm_ij (p PA PB PC : K) (i j k : ℕ) : S3 p PA PB PC i j k = S3 p PB PA PC j i k := by
  unfold S3; congr 1; ring

lemma S3_perm_ik (p PA PB PC : K) (i j k : ℕ) : S3 p PA PB PC i j k = S3 p PC PB PA k j i := by
  unfold S3; congr 1; ring

theorem S3_succ_j (p PA PB PC : K) (hp : p ≠ 0) (i j k : ℕ) :
    S3 p PA PB PC i (j+1) k = PB * S3 p PA PB PC i j k
      + (1 / (2*p)) * ((i:K) * S3 p PA PB PC (i-1) j k + (j:K) * S3 p PA PB PC i (j-1) k
          + (k:K) * S3 p PA PB PC i j (k-1)) := by
  rw [S3_perm_ij, S3_succ_i p PB PA PC hp j i k]
  simp only [S3_perm_ij p PA PB PC]
  ring

theorem S3_succ_k (p PA PB PC : K) (hp : p ≠ 0) (i j k : ℕ) :
    S3 p PA PB PC i j (k+1) = PC * S3 p PA PB PC i j k
      + (1 / (2*p)) * ((i:K) * S3 p PA PB PC (i-1) j k + (j:K) * S3 p PA PB PC i (j-1) k
          + (k:K) * S3 p PA PB PC i j (k-1)) := by
  rw [S3_perm_ik, S3_succ_i p PC PB PA hp k j i]
  simp only [S3_perm_ik p PA PB PC]
  ring

lemma S3_zero (p PA PB PC : K) : S3 p PA PB PC 0 0 0 = 1 := by
  have : ((X + C PA)^0 * (X + C PB)^0 * (X + C PC)^0 : K[X]) = monomial 0 1 := by simp
  rw [S3, this, G_monomial]; simp [gmom]

/-- the third centre is irrelevant at order 0 -/
lemma S3_k0 (p PA PB PC PC' : K) (i j : ℕ) : S3 p PA PB PC i j 0 = S3 p PA PB PC' i j 0 := by
  simp [S3]

/-- horizontal relation `(x-B) = (x-A) + (A-B)` -/
theorem S3_horizontal (p PA PB PC : K) (i j k : ℕ) :
    S3 p PA PB PC i (j+1) k = S3 p PA PB PC (i+1) j k + (PB - PA) * S3 p PA PB PC i j k := by
  unfold S3
  have : (X + C PA)^i * (X + C PB)^(j+1) * (X + C PC)^k
      = (X + C PA)^(i+1) * (X + C PB)^j * (X + C PC)^k
        + C (PB - PA) * ((X + C PA)^i * (X + C PB)^j * (X + C PC)^k) := by
    simp only [map_sub]; ring
  rw [this, map_add, G_C_mul]

end GB
