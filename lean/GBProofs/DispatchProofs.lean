import GBModel.Dispatch
/-!
# Dispatch of the public wrappers: the criterion `wrapperOk` implies the documented decision

`select_std`: the standard four-way chain over a *list* of coordinate types selects exactly what the
documentation promises, for every list of types and with or without a transformation, and hands the
complete list to the method.  `evalG_normG`: disjuncts that compare the list with a string never fire.
`stdOk_sound`: hence every wrapper accepted by `stdOk` behaves canonically.  `generator_defect` /
`generator_defect_mix`: the same chain over a *generator* is wrong (the first `all` consumes it): a
Cartesian shell followed by a spherical one is sent to the spherical branch, and `construct_array_mix`
receives an empty list — the two behaviours seeded changes exhibited on the real code.
-/
namespace GB.Dispatch

theorem evalG_list_state (ht : Bool) (g : G) (st : List String) (r : Bool) (st' : List String)
    (h : evalG .list ht g st = some (r, st')) : st' = st := by
  induction g generalizing st r st' with
  | transform => simp [evalG] at h; exact h.2.symm
  | allEq v l => simp [evalG] at h; exact h.2.symm
  | anyEq v l => simp [evalG] at h; exact h.2.symm
  | strEq v l => simp [evalG] at h; exact h.2.symm
  | or a b iha ihb =>
    simp only [evalG] at h
    cases ha : evalG .list ht a st with
    | none => simp [ha] at h
    | some p =>
      obtain ⟨ra, s1⟩ := p
      have h1 := iha st ra s1 ha
      cases ra with
      | true => simp [ha] at h; rw [← h.2, h1]
      | false => simp [ha] at h; rw [h1] at h; exact ihb st r st' h
  | not a iha =>
    simp only [evalG] at h
    cases ha : evalG .list ht a st with
    | none => simp [ha] at h
    | some p =>
      obtain ⟨ra, s1⟩ := p
      simp [ha] at h
      rw [← h.2]; exact iha st ra s1 ha
  | otherwise => simp [evalG] at h; exact h.2.symm
  | other s => simp [evalG] at h

/-- over a list, `g ∨ (var == "literal")` is `g` -/
theorem evalG_normG (ht : Bool) (g : G) (st : List String) :
    evalG .list ht (normG g) st = evalG .list ht g st := by
  induction g generalizing st with
  | or a b iha ihb =>
    by_cases hb : ∃ v l, b = .strEq v l
    · obtain ⟨v, l, rfl⟩ := hb
      simp only [normG, evalG]
      rw [iha]
      cases ha : evalG .list ht a st with
      | none => rfl
      | some p =>
        obtain ⟨ra, s1⟩ := p
        cases ra
        · simp [evalG_list_state ht a st false s1 ha]
        · simp
    · have hn : normG (.or a b) = .or (normG a) (normG b) := by
        cases b <;> first | rfl | (exfalso; exact hb ⟨_, _, rfl⟩)
      rw [hn]
      simp only [evalG, iha]
      cases evalG .list ht a st with
      | none => rfl
      | some p =>
        obtain ⟨ra, s1⟩ := p
        cases ra <;> simp [ihb]
  | not a iha => simp only [normG, evalG, iha]
  | transform => rfl
  | allEq v l => rfl
  | anyEq v l => rfl
  | strEq v l => rfl
  | otherwise => rfl
  | other s => rfl

theorem select_norm (ht : Bool) (bs : List Branch) (st : List String) :
    select .list ht (bs.map Branch.norm) st = select .list ht bs st := by
  induction bs generalizing st with
  | nil => rfl
  | cons b bs ih =>
    simp only [List.map, select, Branch.norm, evalG_normG]
    cases h : evalG .list ht b.guard st with
    | none => rfl
    | some p =>
      obtain ⟨r, s1⟩ := p
      cases r <;> simp [ih]

/-- the standard chain over a list is the documented decision, for all inputs -/
theorem select_std (v : String) (extras : List String) (ht : Bool) (types : List String) :
    select .list ht (stdBranches v extras) types = some (canon ht types) := by
  cases ht
  · simp only [stdBranches, select, evalG, canon]
    cases h1 : types.all (· == "cartesian")
    · cases h2 : types.all (· == "spherical")
      · simp only [h2]; simp
      · simp only [h2]; simp
    · simp
  · simp [stdBranches, select, evalG, canon]

/-- **soundness of the criterion**: a wrapper accepted by `stdOk` selects the documented method and hands
it the complete list of coordinate types, for every basis and with or without a transformation -/
theorem stdOk_sound (w : Wrapper) (h : stdOk w = true) (ht : Bool) (types : List String) :
    select .list ht w.branches types = some (canon ht types) := by
  unfold stdOk at h
  split at h
  · rename_i cv
    simp only [Bool.and_eq_true, beq_iff_eq] at h
    rw [← select_norm, h.2, select_std]
  · exact absurd h (by simp)

/-- every accepted standard wrapper forwards exactly its remaining parameters by keyword in every branch -/
theorem stdOk_forwards (w : Wrapper) (h : stdOk w = true) :
    ∀ b ∈ w.branches, b.kws = extrasOf w.params := by
  unfold stdOk at h
  split at h
  · rename_i cv
    simp only [Bool.and_eq_true, beq_iff_eq] at h
    intro b hb
    have : b.norm ∈ w.branches.map Branch.norm := List.mem_map_of_mem hb
    rw [h.2] at this
    simp only [stdBranches, List.mem_cons, List.mem_nil_iff, or_false] at this
    have hk : b.norm.kws = b.kws := rfl
    rcases this with h' | h' | h' | h' <;> rw [← hk, h']
  · exact absurd h (by simp)

/-- the same chain over a generator sends (Cartesian, spherical) to the spherical branch … -/
theorem generator_defect :
    select .generator false (stdBranches "coord_type" []) ["cartesian", "spherical"]
      = some ("construct_array_spherical", []) := by decide

/-- … and hands `construct_array_mix` an empty list for (spherical, Cartesian) -/
theorem generator_defect_mix :
    select .generator false (stdBranches "coord_type" []) ["spherical", "cartesian"]
      = some ("construct_array_mix", []) := by decide

/-- a mixed-branch call that drops a keyword is rejected -/
theorem dropped_keyword_rejected :
    stdOk { fn := "overlap_integral", params := ["basis", "transform", "tol_screen"], ctorArgs := ["basis"],
            coordVars := [⟨"coord_type", .list, "basis"⟩],
            branches := [⟨.transform, "construct_array_lincomb", ["transform", "coord_type"], ["tol_screen"]⟩,
              ⟨.allEq "coord_type" "cartesian", "construct_array_cartesian", [], ["tol_screen"]⟩,
              ⟨.allEq "coord_type" "spherical", "construct_array_spherical", [], ["tol_screen"]⟩,
              ⟨.otherwise, "construct_array_mix", ["coord_type"], []⟩] } = false := by decide

/-- types of the second basis collected from the first one are rejected -/
theorem asym_wrong_source_rejected :
    asymOk { fn := "overlap_integral_asymmetric", params := [], ctorArgs := ["basis_one", "basis_two"],
             coordVars := [⟨"coord_type_one", .list, "basis_one"⟩, ⟨"coord_type_two", .list, "basis_one"⟩],
             branches := [⟨.otherwise, "construct_array_lincomb",
               ["transform_one", "transform_two", "coord_type_one", "coord_type_two"], []⟩] } = false := by decide

end GB.Dispatch
