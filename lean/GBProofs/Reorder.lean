import GBModel.Assemble
import GBModel.TwoElec
import GBProofs.Layout
import GBProofs.Layout14
import GBProofs.ContractionLaws
import GBProofs.EriIntegral
import Mathlib.Logic.Equiv.Defs
import Mathlib.Data.Fintype.Card
import Mathlib.Tactic.Ring

/-!
# C11: reordering the shells of a basis, and filling by symmetry

* `Reordered b' b σ`: `b'` lists shells of `b`, shell `k` of `b'` being shell `σ k` of `b`.
* `Basis.reindex b' b σ`: the induced map of basis-function indices
  (`offset' k + x ↦ offset (σ k) + x`), with `reindex_lt`, `locate_reindex`, `reindex_reindex`
  (inverse orders give inverse index maps), `total_eq_of_reordered`, `reindexEquiv`.
* `entry1_reorder`, `entry2_reorder`, `entry4_reorder` (+ `_layout` forms and the flat-array forms
  `assemble1_reorder`, `assemble2_reorder`, `assemble4g_reorder`): listing the shells in a different
  order changes every array only by the induced permutation of its indices.
* `Basis.permute`, `permuteEquiv`, `total_permute`, `entry1_permute`, `entry2_permute`,
  `entry4_permute`: the packaged statement for an `Equiv.Perm` of the shell indices and blocks that
  depend only on the shells (as every `blk` argument of the driver does).
* `entry2_transpose` (+ `entry2_symm`, `entry2_antisymm`): block (anti)symmetry gives array
  (anti)symmetry, Cartesian and spherical shells alike.
* `entry4_swap12`, `entry4_swap34`, `entry4_swap_pairs` (+ `entry4_symm12`, …): the three generators
  of the eight-fold symmetry pass from the blocks to the four-index array (`entry4_eightfold`).
* over ℝ: `overlap_array_symm_reorder`, `eri_array_eightfold` for the model's own blocks.
-/
namespace GB
variable {K : Type}

/-! ## reordered bases and the induced index map -/

/-- `b'` lists shells of `b`: shell `k` of `b'` is shell `σ k` of `b` -/
def Reordered (b' b : Basis K) (σ : Nat → Nat) : Prop :=
  ∀ k (hk : k < b'.size), ∃ h : σ k < b.size, b'[k] = b[σ k]

/-- the induced map on basis-function indices: position `x` inside shell `k` of `b'` goes to
position `x` inside shell `σ k` of `b` -/
def Basis.reindex (b' b : Basis K) (σ : Nat → Nat) (r : Nat) : Nat :=
  b.offset (σ (b'.locate r).1) + (r - b'.offset (b'.locate r).1)

/-- every in-range basis index is `offset i + m · nfun + f` of its `locate` triple -/
theorem locate_cases (b : Basis K) (r : Nat) (hr : r < b.total) :
    ∃ (i : Nat) (hi : i < b.size) (m f : Nat), m < b[i].nseg ∧ f < b[i].nfun ∧
      r = b.offset i + m * b[i].nfun + f ∧ b.locate r = (i, m, f) := by
  obtain ⟨hi, hm, hf, hr'⟩ := locate_lt b r hr
  exact ⟨_, hi, _, _, hm, hf, hr'.symm, rfl⟩

theorem reindex_offset (b' b : Basis K) (σ : Nat → Nat) (k : Nat) (hk : k < b'.size) (m f : Nat)
    (hm : m < b'[k].nseg) (hf : f < b'[k].nfun) :
    Basis.reindex b' b σ (b'.offset k + m * b'[k].nfun + f)
      = b.offset (σ k) + m * b'[k].nfun + f := by
  unfold Basis.reindex
  rw [locate_offset b' k hk m f hm hf]
  simp only
  omega

/-- `reindex` in terms of the shells of `b` -/
theorem reindex_offset' (b' b : Basis K) (σ : Nat → Nat) (hσ : Reordered b' b σ)
    (k : Nat) (hk : k < b'.size) (m f : Nat) (hm : m < b'[k].nseg) (hf : f < b'[k].nfun) :
    Basis.reindex b' b σ (b'.offset k + m * b'[k].nfun + f)
      = b.offset (σ k) + m * (b[σ k]'(hσ k hk).1).nfun + f := by
  rw [reindex_offset b' b σ k hk m f hm hf]
  obtain ⟨h, heq⟩ := hσ k hk
  exact congrArg (fun s : Shell K => b.offset (σ k) + m * s.nfun + f) heq

/-- the index map is well defined: in-range indices go to in-range indices -/
theorem reindex_lt (b' b : Basis K) (σ : Nat → Nat) (hσ : Reordered b' b σ) (r : Nat)
    (hr : r < b'.total) : Basis.reindex b' b σ r < b.total := by
  obtain ⟨i, hi, m, f, hm, hf, rfl, -⟩ := locate_cases b' r hr
  rw [reindex_offset b' b σ i hi m f hm hf]
  obtain ⟨h, heq⟩ := hσ i hi
  have h1 := offset_add_size_le_total b (σ i) h
  rw [heq] at hm hf ⊢
  have h2 := seg_fun_lt_size hm hf
  omega

/-- the index map sends function `f` of segment `m` of shell `k` of `b'` to function `f` of
segment `m` of shell `σ k` of `b` -/
theorem locate_reindex (b' b : Basis K) (σ : Nat → Nat) (hσ : Reordered b' b σ) (r : Nat)
    (hr : r < b'.total) :
    b.locate (Basis.reindex b' b σ r)
      = (σ (b'.locate r).1, (b'.locate r).2.1, (b'.locate r).2.2) := by
  obtain ⟨i, hi, m, f, hm, hf, rfl, hloc⟩ := locate_cases b' r hr
  rw [hloc, reindex_offset b' b σ i hi m f hm hf]
  obtain ⟨h, heq⟩ := hσ i hi
  rw [heq] at hm hf ⊢
  exact locate_offset b (σ i) h m f hm hf

/-- if `σ` has a two-sided inverse `τ` on the shell indices, `b` is `b'` reordered by `τ` -/
theorem Reordered.symm {b' b : Basis K} {σ τ : Nat → Nat} (hσ : Reordered b' b σ)
    (hτ : ∀ j, j < b.size → τ j < b'.size) (hστ : ∀ j, j < b.size → σ (τ j) = j) :
    Reordered b b' τ := by
  intro j hj
  refine ⟨hτ j hj, ?_⟩
  obtain ⟨h, heq⟩ := hσ (τ j) (hτ j hj)
  rw [heq]
  simp only [hστ j hj]

/-- inverse orders give inverse index maps -/
theorem reindex_reindex (b' b : Basis K) (σ τ : Nat → Nat) (hσ : Reordered b' b σ)
    (hτσ : ∀ k, k < b'.size → τ (σ k) = k) (r : Nat) (hr : r < b'.total) :
    Basis.reindex b b' τ (Basis.reindex b' b σ r) = r := by
  obtain ⟨i, hi, m, f, hm, hf, rfl, -⟩ := locate_cases b' r hr
  rw [reindex_offset b' b σ i hi m f hm hf]
  obtain ⟨h, heq⟩ := hσ i hi
  rw [heq] at hm hf ⊢
  rw [reindex_offset b b' τ (σ i) h m f hm hf, hτσ i hi]

/-- the index map is injective on in-range indices when the order has a left inverse -/
theorem reindex_injOn (b' b : Basis K) (σ τ : Nat → Nat) (hσ : Reordered b' b σ)
    (hτσ : ∀ k, k < b'.size → τ (σ k) = k) (r r' : Nat)
    (hr : r < b'.total) (hr' : r' < b'.total)
    (h : Basis.reindex b' b σ r = Basis.reindex b' b σ r') : r = r' := by
  rw [← reindex_reindex b' b σ τ hσ hτσ r hr, h, reindex_reindex b' b σ τ hσ hτσ r' hr']

/-- the index map is onto the in-range indices when the order has a right inverse -/
theorem reindex_surjOn (b' b : Basis K) (σ τ : Nat → Nat)
    (hτ : Reordered b b' τ) (hστ : ∀ j, j < b.size → σ (τ j) = j) (s : Nat) (hs : s < b.total) :
    ∃ r, r < b'.total ∧ Basis.reindex b' b σ r = s :=
  ⟨Basis.reindex b b' τ s, reindex_lt b b' τ hτ s hs, reindex_reindex b b' τ σ hτ hστ s hs⟩

/-- **The induced index map is a bijection** between the basis functions of the two orders when
`σ` is a bijection between the shell indices. -/
def reindexEquiv (b' b : Basis K) (σ τ : Nat → Nat) (hσ : Reordered b' b σ)
    (hτ : Reordered b b' τ) (hτσ : ∀ k, k < b'.size → τ (σ k) = k)
    (hστ : ∀ j, j < b.size → σ (τ j) = j) : Fin b'.total ≃ Fin b.total where
  toFun r := ⟨Basis.reindex b' b σ r.1, reindex_lt b' b σ hσ r.1 r.2⟩
  invFun s := ⟨Basis.reindex b b' τ s.1, reindex_lt b b' τ hτ s.1 s.2⟩
  left_inv r := Fin.ext (reindex_reindex b' b σ τ hσ hτσ r.1 r.2)
  right_inv s := Fin.ext (reindex_reindex b b' τ σ hτ hστ s.1 s.2)

/-- a reordered basis has the same number of basis functions -/
theorem total_eq_of_reordered (b' b : Basis K) (σ τ : Nat → Nat) (hσ : Reordered b' b σ)
    (hτ : Reordered b b' τ) (hτσ : ∀ k, k < b'.size → τ (σ k) = k)
    (hστ : ∀ j, j < b.size → σ (τ j) = j) : b'.total = b.total := by
  have := Fintype.card_congr (reindexEquiv b' b σ τ hσ hτ hτσ hστ)
  simpa using this


/-! ## the reordering law -/

section
variable [Transc K]

/-! ### two indices -/

/-- **Reordering law, two-index arrays (layout form).**  If the rows list the shells of `b1` in the
order `σ`, the columns the shells of `b2` in the order `τ`, and the block functions agree on
corresponding shells, then the entry of (function `f` of segment `m` of shell `k`, function `g` of
segment `n` of shell `l`) of the reordered bases is the entry of (function `f` of segment `m` of
shell `σ k`, function `g` of segment `n` of shell `τ l`) of the original bases. -/
theorem entry2_reorder_layout (b1' b2' b1 b2 : Basis K) (σ τ : Nat → Nat)
    (hσ : Reordered b1' b1 σ) (hτ : Reordered b2' b2 τ) (nextra : Nat)
    (blk' blk : Nat → Nat → Tab (Tab4 K))
    (hblk : ∀ k l, k < b1'.size → l < b2'.size → blk' k l = blk (σ k) (τ l))
    (k l : Nat) (hk : k < b1'.size) (hl : l < b2'.size) (m f n g e : Nat)
    (hm : m < b1'[k].nseg) (hf : f < b1'[k].nfun) (hn : n < b2'[l].nseg) (hg : g < b2'[l].nfun) :
    entry2 b1' b2' (pairBlocks b1' b2' nextra blk')
        (b1'.offset k + m * b1'[k].nfun + f) (b2'.offset l + n * b2'[l].nfun + g) e
      = entry2 b1 b2 (pairBlocks b1 b2 nextra blk)
        (b1.offset (σ k) + m * b1'[k].nfun + f) (b2.offset (τ l) + n * b2'[l].nfun + g) e := by
  rw [entry2_layout b1' b2' nextra blk' k l hk hl m f n g e hm hf hn hg, hblk k l hk hl]
  obtain ⟨h1, e1⟩ := hσ k hk
  obtain ⟨h2, e2⟩ := hτ l hl
  rw [e1] at hm hf ⊢
  rw [e2] at hn hg ⊢
  rw [entry2_layout b1 b2 nextra blk (σ k) (τ l) h1 h2 m f n g e hm hf hn hg]

/-- **Reordering law, two-index arrays**: `A'[r, c, e] = A[perm r, perm' c, e]` with the induced
index maps. -/
theorem entry2_reorder (b1' b2' b1 b2 : Basis K) (σ τ : Nat → Nat)
    (hσ : Reordered b1' b1 σ) (hτ : Reordered b2' b2 τ) (nextra : Nat)
    (blk' blk : Nat → Nat → Tab (Tab4 K))
    (hblk : ∀ k l, k < b1'.size → l < b2'.size → blk' k l = blk (σ k) (τ l))
    (r c e : Nat) (hr : r < b1'.total) (hc : c < b2'.total) :
    entry2 b1' b2' (pairBlocks b1' b2' nextra blk') r c e
      = entry2 b1 b2 (pairBlocks b1 b2 nextra blk)
          (Basis.reindex b1' b1 σ r) (Basis.reindex b2' b2 τ c) e := by
  obtain ⟨i, hi, m, f, hm, hf, rfl, -⟩ := locate_cases b1' r hr
  obtain ⟨j, hj, n, g, hn, hg, rfl, -⟩ := locate_cases b2' c hc
  rw [reindex_offset b1' b1 σ i hi m f hm hf, reindex_offset b2' b2 τ j hj n g hn hg]
  exact entry2_reorder_layout b1' b2' b1 b2 σ τ hσ hτ nextra blk' blk hblk i j hi hj m f n g e
    hm hf hn hg

/-- the same for the flat arrays -/
theorem assemble2_reorder [Inhabited K] (b1' b2' b1 b2 : Basis K) (σ τ : Nat → Nat)
    (hσ : Reordered b1' b1 σ) (hτ : Reordered b2' b2 τ) (nextra : Nat)
    (blk' blk : Nat → Nat → Tab (Tab4 K))
    (hblk : ∀ k l, k < b1'.size → l < b2'.size → blk' k l = blk (σ k) (τ l))
    (r c e : Nat) (hr : r < b1'.total) (hc : c < b2'.total) (he : e < nextra) :
    (assemble2 b1' b2' nextra blk')[(r * b2'.total + c) * nextra + e]!
      = (assemble2 b1 b2 nextra blk)[(Basis.reindex b1' b1 σ r * b2.total
          + Basis.reindex b2' b2 τ c) * nextra + e]! := by
  rw [assemble2_get b1' b2' nextra blk' r c e hr hc he,
    assemble2_get b1 b2 nextra blk _ _ e (reindex_lt b1' b1 σ hσ r hr)
      (reindex_lt b2' b2 τ hτ c hc) he]
  exact entry2_reorder b1' b2' b1 b2 σ τ hσ hτ nextra blk' blk hblk r c e hr hc

/-- a block function that depends only on the two shells (as every `blk` argument of the driver
does) agrees on corresponding shells -/
theorem shellBlk2_agree (b1' b2' b1 b2 : Basis K) (σ τ : Nat → Nat)
    (hσ : Reordered b1' b1 σ) (hτ : Reordered b2' b2 τ) {β : Type} (B : Shell K → Shell K → β)
    (k l : Nat) (hk : k < b1'.size) (hl : l < b2'.size) :
    B b1'[k]! b2'[l]! = B b1[σ k]! b2[τ l]! := by
  obtain ⟨h1, e1⟩ := hσ k hk
  obtain ⟨h2, e2⟩ := hτ l hl
  rw [getElem!_pos b1' k hk, getElem!_pos b2' l hl, getElem!_pos b1 (σ k) h1,
    getElem!_pos b2 (τ l) h2, e1, e2]

/-- **Reordering law for blocks that depend only on the shells** (one symmetric basis): the array of
the reordered basis is the array of the original basis with both indices permuted. -/
theorem entry2_reorder_shells (b' b : Basis K) (σ : Nat → Nat) (hσ : Reordered b' b σ)
    (nextra : Nat) (B : Shell K → Shell K → Tab (Tab4 K))
    (r c e : Nat) (hr : r < b'.total) (hc : c < b'.total) :
    entry2 b' b' (pairBlocks b' b' nextra fun i j => B b'[i]! b'[j]!) r c e
      = entry2 b b (pairBlocks b b nextra fun i j => B b[i]! b[j]!)
          (Basis.reindex b' b σ r) (Basis.reindex b' b σ c) e :=
  entry2_reorder b' b' b b σ σ hσ hσ nextra _ _
    (fun k l hk hl => shellBlk2_agree b' b' b b σ σ hσ hσ B k l hk hl) r c e hr hc

/-! ### one index -/

/-- **Reordering law, one-index arrays (layout form).** -/
theorem entry1_reorder_layout (b' b : Basis K) (σ : Nat → Nat) (hσ : Reordered b' b σ)
    (nextra : Nat) (blk' blk : Nat → Tab3 K) (hblk : ∀ k, k < b'.size → blk' k = blk (σ k))
    (k : Nat) (hk : k < b'.size) (m f e : Nat) (hm : m < b'[k].nseg) (hf : f < b'[k].nfun) :
    entry1 b' (oneBlocks b' nextra blk') (b'.offset k + m * b'[k].nfun + f) e
      = entry1 b (oneBlocks b nextra blk) (b.offset (σ k) + m * b'[k].nfun + f) e := by
  rw [entry1_layout' b' nextra blk' k hk m f e hm hf, hblk k hk]
  obtain ⟨h1, e1⟩ := hσ k hk
  rw [e1] at hm hf ⊢
  rw [entry1_layout' b nextra blk (σ k) h1 m f e hm hf]

/-- **Reordering law, one-index arrays**: `A'[r, e] = A[perm r, e]`. -/
theorem entry1_reorder (b' b : Basis K) (σ : Nat → Nat) (hσ : Reordered b' b σ)
    (nextra : Nat) (blk' blk : Nat → Tab3 K) (hblk : ∀ k, k < b'.size → blk' k = blk (σ k))
    (r e : Nat) (hr : r < b'.total) :
    entry1 b' (oneBlocks b' nextra blk') r e
      = entry1 b (oneBlocks b nextra blk) (Basis.reindex b' b σ r) e := by
  obtain ⟨i, hi, m, f, hm, hf, rfl, -⟩ := locate_cases b' r hr
  rw [reindex_offset b' b σ i hi m f hm hf]
  exact entry1_reorder_layout b' b σ hσ nextra blk' blk hblk i hi m f e hm hf

/-- the same for the flat arrays -/
theorem assemble1_reorder [Inhabited K] (b' b : Basis K) (σ : Nat → Nat) (hσ : Reordered b' b σ)
    (nextra : Nat) (blk' blk : Nat → Tab3 K) (hblk : ∀ k, k < b'.size → blk' k = blk (σ k))
    (r e : Nat) (hr : r < b'.total) (he : e < nextra) :
    (assemble1 b' nextra blk')[r * nextra + e]!
      = (assemble1 b nextra blk)[Basis.reindex b' b σ r * nextra + e]! := by
  rw [assemble1_get b' nextra blk' r e hr he,
    assemble1_get b nextra blk _ e (reindex_lt b' b σ hσ r hr) he]
  exact entry1_reorder b' b σ hσ nextra blk' blk hblk r e hr

/-- one-index blocks that depend only on the shell -/
theorem entry1_reorder_shells (b' b : Basis K) (σ : Nat → Nat) (hσ : Reordered b' b σ)
    (nextra : Nat) (B : Shell K → Tab3 K) (r e : Nat) (hr : r < b'.total) :
    entry1 b' (oneBlocks b' nextra fun i => B b'[i]!) r e
      = entry1 b (oneBlocks b nextra fun i => B b[i]!) (Basis.reindex b' b σ r) e := by
  refine entry1_reorder b' b σ hσ nextra _ _ (fun k hk => ?_) r e hr
  obtain ⟨h1, e1⟩ := hσ k hk
  show B b'[k]! = B b[σ k]!
  rw [getElem!_pos b' k hk, getElem!_pos b (σ k) h1, e1]

/-! ### four indices -/

/-- **Reordering law, four-index arrays (layout form).** -/
theorem entry4_reorder_layout (b1' b2' b3' b4' b1 b2 b3 b4 : Basis K) (σ1 σ2 σ3 σ4 : Nat → Nat)
    (hσ1 : Reordered b1' b1 σ1) (hσ2 : Reordered b2' b2 σ2) (hσ3 : Reordered b3' b3 σ3)
    (hσ4 : Reordered b4' b4 σ4) (blk' blk : Nat → Nat → Nat → Nat → Tab8 K)
    (hblk : ∀ i j k l, i < b1'.size → j < b2'.size → k < b3'.size → l < b4'.size →
      blk' i j k l = blk (σ1 i) (σ2 j) (σ3 k) (σ4 l))
    (i1 i2 i3 i4 : Nat) (h1 : i1 < b1'.size) (h2 : i2 < b2'.size) (h3 : i3 < b3'.size)
    (h4 : i4 < b4'.size) (m1 f1 m2 f2 m3 f3 m4 f4 : Nat)
    (hm1 : m1 < b1'[i1].nseg) (hf1 : f1 < b1'[i1].nfun) (hm2 : m2 < b2'[i2].nseg)
    (hf2 : f2 < b2'[i2].nfun) (hm3 : m3 < b3'[i3].nseg) (hf3 : f3 < b3'[i3].nfun)
    (hm4 : m4 < b4'[i4].nseg) (hf4 : f4 < b4'[i4].nfun) :
    entry4 b1' b2' b3' b4' (quartetBlocks b1' b2' b3' b4' blk')
        (b1'.offset i1 + m1 * b1'[i1].nfun + f1) (b2'.offset i2 + m2 * b2'[i2].nfun + f2)
        (b3'.offset i3 + m3 * b3'[i3].nfun + f3) (b4'.offset i4 + m4 * b4'[i4].nfun + f4)
      = entry4 b1 b2 b3 b4 (quartetBlocks b1 b2 b3 b4 blk)
        (b1.offset (σ1 i1) + m1 * b1'[i1].nfun + f1) (b2.offset (σ2 i2) + m2 * b2'[i2].nfun + f2)
        (b3.offset (σ3 i3) + m3 * b3'[i3].nfun + f3)
        (b4.offset (σ4 i4) + m4 * b4'[i4].nfun + f4) := by
  rw [entry4_layout b1' b2' b3' b4' blk' i1 i2 i3 i4 h1 h2 h3 h4 m1 f1 m2 f2 m3 f3 m4 f4
    hm1 hf1 hm2 hf2 hm3 hf3 hm4 hf4, hblk i1 i2 i3 i4 h1 h2 h3 h4]
  obtain ⟨g1, e1⟩ := hσ1 i1 h1
  obtain ⟨g2, e2⟩ := hσ2 i2 h2
  obtain ⟨g3, e3⟩ := hσ3 i3 h3
  obtain ⟨g4, e4⟩ := hσ4 i4 h4
  rw [e1] at hm1 hf1 ⊢
  rw [e2] at hm2 hf2 ⊢
  rw [e3] at hm3 hf3 ⊢
  rw [e4] at hm4 hf4 ⊢
  rw [entry4_layout b1 b2 b3 b4 blk (σ1 i1) (σ2 i2) (σ3 i3) (σ4 i4) g1 g2 g3 g4
    m1 f1 m2 f2 m3 f3 m4 f4 hm1 hf1 hm2 hf2 hm3 hf3 hm4 hf4]

/-- **Reordering law, four-index arrays**:
`A'[r1, r2, r3, r4] = A[perm₁ r1, perm₂ r2, perm₃ r3, perm₄ r4]`. -/
theorem entry4_reorder (b1' b2' b3' b4' b1 b2 b3 b4 : Basis K) (σ1 σ2 σ3 σ4 : Nat → Nat)
    (hσ1 : Reordered b1' b1 σ1) (hσ2 : Reordered b2' b2 σ2) (hσ3 : Reordered b3' b3 σ3)
    (hσ4 : Reordered b4' b4 σ4) (blk' blk : Nat → Nat → Nat → Nat → Tab8 K)
    (hblk : ∀ i j k l, i < b1'.size → j < b2'.size → k < b3'.size → l < b4'.size →
      blk' i j k l = blk (σ1 i) (σ2 j) (σ3 k) (σ4 l))
    (r1 r2 r3 r4 : Nat) (hr1 : r1 < b1'.total) (hr2 : r2 < b2'.total) (hr3 : r3 < b3'.total)
    (hr4 : r4 < b4'.total) :
    entry4 b1' b2' b3' b4' (quartetBlocks b1' b2' b3' b4' blk') r1 r2 r3 r4
      = entry4 b1 b2 b3 b4 (quartetBlocks b1 b2 b3 b4 blk)
          (Basis.reindex b1' b1 σ1 r1) (Basis.reindex b2' b2 σ2 r2)
          (Basis.reindex b3' b3 σ3 r3) (Basis.reindex b4' b4 σ4 r4) := by
  obtain ⟨i1, h1, m1, f1, hm1, hf1, rfl, -⟩ := locate_cases b1' r1 hr1
  obtain ⟨i2, h2, m2, f2, hm2, hf2, rfl, -⟩ := locate_cases b2' r2 hr2
  obtain ⟨i3, h3, m3, f3, hm3, hf3, rfl, -⟩ := locate_cases b3' r3 hr3
  obtain ⟨i4, h4, m4, f4, hm4, hf4, rfl, -⟩ := locate_cases b4' r4 hr4
  rw [reindex_offset b1' b1 σ1 i1 h1 m1 f1 hm1 hf1, reindex_offset b2' b2 σ2 i2 h2 m2 f2 hm2 hf2,
    reindex_offset b3' b3 σ3 i3 h3 m3 f3 hm3 hf3, reindex_offset b4' b4 σ4 i4 h4 m4 f4 hm4 hf4]
  exact entry4_reorder_layout b1' b2' b3' b4' b1 b2 b3 b4 σ1 σ2 σ3 σ4 hσ1 hσ2 hσ3 hσ4 blk' blk hblk
    i1 i2 i3 i4 h1 h2 h3 h4 m1 f1 m2 f2 m3 f3 m4 f4 hm1 hf1 hm2 hf2 hm3 hf3 hm4 hf4

/-- the same for the flat arrays -/
theorem assemble4g_reorder [Inhabited K] (b1' b2' b3' b4' b1 b2 b3 b4 : Basis K)
    (σ1 σ2 σ3 σ4 : Nat → Nat)
    (hσ1 : Reordered b1' b1 σ1) (hσ2 : Reordered b2' b2 σ2) (hσ3 : Reordered b3' b3 σ3)
    (hσ4 : Reordered b4' b4 σ4) (blk' blk : Nat → Nat → Nat → Nat → Tab8 K)
    (hblk : ∀ i j k l, i < b1'.size → j < b2'.size → k < b3'.size → l < b4'.size →
      blk' i j k l = blk (σ1 i) (σ2 j) (σ3 k) (σ4 l))
    (r1 r2 r3 r4 : Nat) (hr1 : r1 < b1'.total) (hr2 : r2 < b2'.total) (hr3 : r3 < b3'.total)
    (hr4 : r4 < b4'.total) :
    (assemble4g b1' b2' b3' b4' blk')[((r1 * b2'.total + r2) * b3'.total + r3) * b4'.total + r4]!
      = (assemble4g b1 b2 b3 b4 blk)[((Basis.reindex b1' b1 σ1 r1 * b2.total
          + Basis.reindex b2' b2 σ2 r2) * b3.total + Basis.reindex b3' b3 σ3 r3) * b4.total
          + Basis.reindex b4' b4 σ4 r4]! := by
  rw [assemble4g_get b1' b2' b3' b4' blk' r1 r2 r3 r4 hr1 hr2 hr3 hr4,
    assemble4g_get b1 b2 b3 b4 blk _ _ _ _ (reindex_lt b1' b1 σ1 hσ1 r1 hr1)
      (reindex_lt b2' b2 σ2 hσ2 r2 hr2) (reindex_lt b3' b3 σ3 hσ3 r3 hr3)
      (reindex_lt b4' b4 σ4 hσ4 r4 hr4)]
  exact entry4_reorder b1' b2' b3' b4' b1 b2 b3 b4 σ1 σ2 σ3 σ4 hσ1 hσ2 hσ3 hσ4 blk' blk hblk
    r1 r2 r3 r4 hr1 hr2 hr3 hr4

/-- four-index blocks that depend only on the four shells (one basis) -/
theorem entry4_reorder_shells (b' b : Basis K) (σ : Nat → Nat) (hσ : Reordered b' b σ)
    (B : Shell K → Shell K → Shell K → Shell K → Tab8 K)
    (r1 r2 r3 r4 : Nat) (hr1 : r1 < b'.total) (hr2 : r2 < b'.total) (hr3 : r3 < b'.total)
    (hr4 : r4 < b'.total) :
    entry4 b' b' b' b' (quartetBlocks b' b' b' b' fun i j k l => B b'[i]! b'[j]! b'[k]! b'[l]!)
        r1 r2 r3 r4
      = entry4 b b b b (quartetBlocks b b b b fun i j k l => B b[i]! b[j]! b[k]! b[l]!)
          (Basis.reindex b' b σ r1) (Basis.reindex b' b σ r2)
          (Basis.reindex b' b σ r3) (Basis.reindex b' b σ r4) := by
  refine entry4_reorder b' b' b' b' b b b b σ σ σ σ hσ hσ hσ hσ _ _ (fun i j k l hi hj hk hl => ?_)
    r1 r2 r3 r4 hr1 hr2 hr3 hr4
  obtain ⟨g1, e1⟩ := hσ i hi
  obtain ⟨g2, e2⟩ := hσ j hj
  obtain ⟨g3, e3⟩ := hσ k hk
  obtain ⟨g4, e4⟩ := hσ l hl
  show B b'[i]! b'[j]! b'[k]! b'[l]! = B b[σ i]! b[σ j]! b[σ k]! b[σ l]!
  rw [getElem!_pos b' i hi, getElem!_pos b' j hj, getElem!_pos b' k hk, getElem!_pos b' l hl,
    getElem!_pos b (σ i) g1, getElem!_pos b (σ j) g2, getElem!_pos b (σ k) g3,
    getElem!_pos b (σ l) g4, e1, e2, e3, e4]

end


/-! ## permutations of the shells: the hypotheses are met -/

/-- the basis `b` with its shells listed in the order `σ` -/
def Basis.permute (b : Basis K) (σ : Equiv.Perm (Fin b.size)) : Basis K :=
  Array.ofFn fun k => b[σ k]

/-- a map of `Fin n` as a map of `ℕ` -/
def permFn (n : Nat) (σ : Fin n → Fin n) (k : Nat) : Nat := if h : k < n then σ ⟨k, h⟩ else k

theorem permute_size (b : Basis K) (σ : Equiv.Perm (Fin b.size)) : (b.permute σ).size = b.size := by
  simp [Basis.permute]

theorem reordered_permute (b : Basis K) (σ : Equiv.Perm (Fin b.size)) :
    Reordered (b.permute σ) b (permFn b.size σ) := by
  intro k hk
  have hk' : k < b.size := by rw [permute_size] at hk; exact hk
  have hp : permFn b.size σ k = σ ⟨k, hk'⟩ := by simp [permFn, hk']
  refine ⟨by rw [hp]; exact (σ ⟨k, hk'⟩).isLt, ?_⟩
  simp only [hp]
  simp [Basis.permute]

theorem reordered_permute_symm (b : Basis K) (σ : Equiv.Perm (Fin b.size)) :
    Reordered b (b.permute σ) (permFn b.size σ.symm) := by
  intro j hj
  have hp : permFn b.size σ.symm j = σ.symm ⟨j, hj⟩ := by simp [permFn, hj]
  refine ⟨by rw [hp, permute_size]; exact (σ.symm ⟨j, hj⟩).isLt, ?_⟩
  simp only [hp]
  simp [Basis.permute]

theorem permFn_left_inv (b : Basis K) (σ : Equiv.Perm (Fin b.size)) (k : Nat)
    (hk : k < (b.permute σ).size) : permFn b.size σ.symm (permFn b.size σ k) = k := by
  have hk' : k < b.size := by rw [permute_size] at hk; exact hk
  simp [permFn, hk']

theorem permFn_right_inv (b : Basis K) (σ : Equiv.Perm (Fin b.size)) (j : Nat)
    (hj : j < b.size) : permFn b.size σ (permFn b.size σ.symm j) = j := by
  simp [permFn, hj]

/-- a permuted basis has the same number of basis functions -/
theorem total_permute (b : Basis K) (σ : Equiv.Perm (Fin b.size)) :
    (b.permute σ).total = b.total :=
  total_eq_of_reordered _ _ _ _ (reordered_permute b σ) (reordered_permute_symm b σ)
    (permFn_left_inv b σ) (permFn_right_inv b σ)

/-- **the index permutation induced by a permutation of the shells** -/
def permuteEquiv (b : Basis K) (σ : Equiv.Perm (Fin b.size)) :
    Fin (b.permute σ).total ≃ Fin b.total :=
  reindexEquiv _ _ _ _ (reordered_permute b σ) (reordered_permute_symm b σ)
    (permFn_left_inv b σ) (permFn_right_inv b σ)

/-- **C11 for a permutation of the shells, two-index arrays with shell-determined blocks**:
`A(permuted basis)[r, c, e] = A(basis)[π r, π c, e]`, `π = permuteEquiv b σ` a bijection. -/
theorem entry2_permute [Transc K] (b : Basis K) (σ : Equiv.Perm (Fin b.size)) (nextra : Nat)
    (B : Shell K → Shell K → Tab (Tab4 K)) (r c : Fin (b.permute σ).total) (e : Nat) :
    entry2 (b.permute σ) (b.permute σ)
        (pairBlocks (b.permute σ) (b.permute σ) nextra fun i j => B (b.permute σ)[i]! (b.permute σ)[j]!)
        r c e
      = entry2 b b (pairBlocks b b nextra fun i j => B b[i]! b[j]!)
          (permuteEquiv b σ r) (permuteEquiv b σ c) e :=
  entry2_reorder_shells (b.permute σ) b _ (reordered_permute b σ) nextra B r c e r.2 c.2

/-- the same for one-index arrays -/
theorem entry1_permute [Transc K] (b : Basis K) (σ : Equiv.Perm (Fin b.size)) (nextra : Nat)
    (B : Shell K → Tab3 K) (r : Fin (b.permute σ).total) (e : Nat) :
    entry1 (b.permute σ) (oneBlocks (b.permute σ) nextra fun i => B (b.permute σ)[i]!) r e
      = entry1 b (oneBlocks b nextra fun i => B b[i]!) (permuteEquiv b σ r) e :=
  entry1_reorder_shells (b.permute σ) b _ (reordered_permute b σ) nextra B r e r.2

/-- the same for four-index arrays -/
theorem entry4_permute [Transc K] (b : Basis K) (σ : Equiv.Perm (Fin b.size))
    (B : Shell K → Shell K → Shell K → Shell K → Tab8 K) (r1 r2 r3 r4 : Fin (b.permute σ).total) :
    entry4 (b.permute σ) (b.permute σ) (b.permute σ) (b.permute σ)
        (quartetBlocks (b.permute σ) (b.permute σ) (b.permute σ) (b.permute σ)
          fun i j k l => B (b.permute σ)[i]! (b.permute σ)[j]! (b.permute σ)[k]! (b.permute σ)[l]!)
        r1 r2 r3 r4
      = entry4 b b b b (quartetBlocks b b b b fun i j k l => B b[i]! b[j]! b[k]! b[l]!)
          (permuteEquiv b σ r1) (permuteEquiv b σ r2) (permuteEquiv b σ r3) (permuteEquiv b σ r4) :=
  entry4_reorder_shells (b.permute σ) b _ (reordered_permute b σ) B r1 r2 r3 r4 r1.2 r2.2 r3.2 r4.2

/-! ## filling by symmetry

`wBlock2` and `wBlock4` apply the weights of the shells one index pair after the other, so
exchanging two index pairs exchanges two finite summations: that needs commutativity, and the
statements are made over a field with the instance `fieldTransc e sq pi`, as in `Layout14`.

All hypotheses on the raw blocks are asked only for in-range segments and Cartesian components. -/

section
variable [Transc K]

/-- `wBlock2` is two nested applications of the weights (first index pair innermost) -/
theorem wBlock2_get4 (s t : Shell K) (ws wt : Tab3 K) (X : Tab4 K) (m f n g : Nat) :
    (wBlock2 s t ws wt X).get4 m f n g
      = applyW t wt (fun n b => applyW s ws (fun m a => X.get4 m a n b) m f) n g := by
  simp only [wBlock2, tab4_get, applyW]

/-- the four nested applications of the weights of `wBlock4`: slot 1 innermost, slot 4 outermost;
`G` takes its index pairs in the order of the slots -/
def nest4 (s1 s2 s3 s4 : Shell K) (w1 w2 w3 w4 : Tab3 K)
    (G : Nat → Nat → Nat → Nat → Nat → Nat → Nat → Nat → K) (m1 f1 m2 f2 m3 f3 m4 f4 : Nat) : K :=
  applyW s4 w4 (fun x4 a4 =>
    applyW s3 w3 (fun x3 a3 =>
      applyW s2 w2 (fun x2 a2 =>
        applyW s1 w1 (fun x1 a1 => G x1 a1 x2 a2 x3 a3 x4 a4) m1 f1) m2 f2) m3 f3) m4 f4

theorem wBlock4_get8_nest (sa sb sc sd : Shell K) (wa wb wc wd : Tab3 K) (raw : Tab8 K)
    (ma fa mb fb mc fc md fd : Nat) :
    (wBlock4 sa sb sc sd wa wb wc wd raw).get8 ma fa mb fb mc fc md fd
      = nest4 sa sb sc sd wa wb wc wd raw.get8 ma fa mb fb mc fc md fd :=
  wBlock4_get8 sa sb sc sd wa wb wc wd raw ma fa mb fb mc fc md fd

end

section Field
variable {F : Type} [Field F] (e sq : F → F) (pi : F)

/-- `applyW` only reads in-range Cartesian components of the segment it is asked for -/
theorem applyW_congr (s : Shell F) (w : Tab3 F) (G H : ℕ → ℕ → F) (m g : ℕ) (hg : g < s.nfun)
    (h : ∀ a, a < s.ncart → G m a = H m a) :
    letI := fieldTransc e sq pi
    applyW s w G m g = applyW s w H m g := by
  unfold applyW
  cases hs : s.sph
  · have hg' : g < s.ncart := by
      have : s.nfun = s.ncart := by simp [Shell.nfun, Shell.ncart, hs]
      omega
    simp only [Bool.false_eq_true, if_false]
    rw [h g hg']
  · simp only [if_true, sumN_eq_sum]
    exact Finset.sum_congr rfl fun a ha => by rw [h a (Finset.mem_range.mp ha)]

/-- a constant factor passes through `applyW` -/
theorem applyW_mul_left (s : Shell F) (w : Tab3 F) (ε : F) (G : ℕ → ℕ → F) (m g : ℕ) :
    letI := fieldTransc e sq pi
    applyW s w (fun m a => ε * G m a) m g = ε * applyW s w G m g := by
  unfold applyW
  cases s.sph <;> simp only [Bool.false_eq_true, if_true, if_false, sumN_eq_sum]
  · ring
  · rw [Finset.mul_sum]
    refine Finset.sum_congr rfl fun a _ => ?_
    ring

/-- **Transposition of a weighted block.**  If `Y` is `ε` times the transpose of `X` on the
in-range entries of segments `m`, `n`, then the weighted block of `(t, s)` built from `Y` is `ε`
times the transpose of the weighted block of `(s, t)` built from `X` — for Cartesian and spherical
shells alike. -/
theorem wBlock2_transpose (s t : Shell F) (ws wt : Tab3 F) (X Y : Tab4 F) (ε : F)
    (m f n g : ℕ) (hf : f < s.nfun) (hg : g < t.nfun)
    (hXY : ∀ a c, a < s.ncart → c < t.ncart → Y.get4 n c m a = ε * X.get4 m a n c) :
    letI := fieldTransc e sq pi
    (wBlock2 t s wt ws Y).get4 n g m f = ε * (wBlock2 s t ws wt X).get4 m f n g := by
  let _ := fieldTransc e sq pi
  rw [wBlock2_get4, wBlock2_get4]
  refine (applyW_comm e sq pi t s wt ws (fun n b m a => Y.get4 n b m a) n g m f).trans ?_
  refine (applyW_congr e sq pi t wt _
    (fun n b => ε * applyW s ws (fun m a => X.get4 m a n b) m f) n g hg fun b hb => ?_).trans ?_
  · refine (applyW_congr e sq pi s ws _ (fun m a => ε * X.get4 m a n b) m f hf
      fun a ha => hXY a b ha hb).trans ?_
    exact applyW_mul_left e sq pi s ws ε (fun m a => X.get4 m a n b) m f
  · exact applyW_mul_left e sq pi t wt ε
      (fun n b => applyW s ws (fun m a => X.get4 m a n b) m f) n g

/-- **Transposition law for two-index arrays.**  If the raw block of the shell pair `(j, i)` (bases
`(b2, b1)`, block function `blk'`) is `ε` times the transpose of the raw block of `(i, j)` (bases
`(b1, b2)`, block function `blk`), then the array of `(b2, b1)` is `ε` times the transpose of the
array of `(b1, b2)`. -/
theorem entry2_transpose (b1 b2 : Basis F) (nextra : ℕ) (blk blk' : ℕ → ℕ → Tab (Tab4 F)) (ε : F)
    (x : ℕ)
    (hblk : ∀ i j (hi : i < b1.size) (hj : j < b2.size) m a n c, m < b1[i].nseg →
      a < b1[i].ncart → n < b2[j].nseg → c < b2[j].ncart →
      ((blk' j i).get x).get4 n c m a = ε * ((blk i j).get x).get4 m a n c)
    (r c : ℕ) (hr : r < b1.total) (hc : c < b2.total) :
    letI := fieldTransc e sq pi
    entry2 b2 b1 (pairBlocks b2 b1 nextra blk') c r x
      = ε * entry2 b1 b2 (pairBlocks b1 b2 nextra blk) r c x := by
  let _ := fieldTransc e sq pi
  obtain ⟨hi, hm, hf, -⟩ := locate_lt b1 r hr
  obtain ⟨hj, hn, hg, -⟩ := locate_lt b2 c hc
  unfold entry2
  simp only []
  rw [pairBlocks_get b2 b1 nextra blk' _ _ x hj hi, pairBlocks_get b1 b2 nextra blk _ _ x hi hj]
  exact wBlock2_transpose e sq pi _ _ _ _ _ _ ε _ _ _ _ hf hg
    fun a c ha hc => hblk _ _ hi hj _ a _ c hm ha hn hc

/-- **Symmetric filling is justified**: symmetric blocks give a symmetric array. -/
theorem entry2_symm (b : Basis F) (nextra : ℕ) (blk : ℕ → ℕ → Tab (Tab4 F)) (x : ℕ)
    (hblk : ∀ i j (hi : i < b.size) (hj : j < b.size) m a n c, m < b[i].nseg →
      a < b[i].ncart → n < b[j].nseg → c < b[j].ncart →
      ((blk j i).get x).get4 n c m a = ((blk i j).get x).get4 m a n c)
    (r c : ℕ) (hr : r < b.total) (hc : c < b.total) :
    letI := fieldTransc e sq pi
    entry2 b b (pairBlocks b b nextra blk) c r x = entry2 b b (pairBlocks b b nextra blk) r c x := by
  have h := entry2_transpose e sq pi b b nextra blk blk 1 x
    (fun i j hi hj m a n c hm ha hn hc => by rw [one_mul]; exact hblk i j hi hj m a n c hm ha hn hc)
    r c hr hc
  rw [one_mul] at h
  exact h

/-- antisymmetric blocks give an antisymmetric array -/
theorem entry2_antisymm (b : Basis F) (nextra : ℕ) (blk : ℕ → ℕ → Tab (Tab4 F)) (x : ℕ)
    (hblk : ∀ i j (hi : i < b.size) (hj : j < b.size) m a n c, m < b[i].nseg →
      a < b[i].ncart → n < b[j].nseg → c < b[j].ncart →
      ((blk j i).get x).get4 n c m a = -((blk i j).get x).get4 m a n c)
    (r c : ℕ) (hr : r < b.total) (hc : c < b.total) :
    letI := fieldTransc e sq pi
    entry2 b b (pairBlocks b b nextra blk) c r x
      = -entry2 b b (pairBlocks b b nextra blk) r c x := by
  have h := entry2_transpose e sq pi b b nextra blk blk (-1) x
    (fun i j hi hj m a n c hm ha hn hc => by
      rw [neg_one_mul]; exact hblk i j hi hj m a n c hm ha hn hc)
    r c hr hc
  rw [neg_one_mul] at h
  exact h

/-- flat-array form of `entry2_symm` -/
theorem assemble2_symm [Inhabited F] (b : Basis F) (nextra : ℕ) (blk : ℕ → ℕ → Tab (Tab4 F))
    (hblk : ∀ x, x < nextra → ∀ i j (hi : i < b.size) (hj : j < b.size) m a n c, m < b[i].nseg →
      a < b[i].ncart → n < b[j].nseg → c < b[j].ncart →
      ((blk j i).get x).get4 n c m a = ((blk i j).get x).get4 m a n c)
    (r c x : ℕ) (hr : r < b.total) (hc : c < b.total) (hx : x < nextra) :
    letI := fieldTransc e sq pi
    (assemble2 b b nextra blk)[(c * b.total + r) * nextra + x]!
      = (assemble2 b b nextra blk)[(r * b.total + c) * nextra + x]! := by
  let _ := fieldTransc e sq pi
  rw [assemble2_get b b nextra blk c r x hc hr hx, assemble2_get b b nextra blk r c x hr hc hx]
  exact entry2_symm e sq pi b nextra blk x (hblk x hx) r c hr hc

/-! ### four indices: the generators of the eight-fold symmetry -/

/-- exchange of slots 1 and 2 of the nested weights -/
theorem nest4_swap12 (s1 s2 s3 s4 : Shell F) (w1 w2 w3 w4 : Tab3 F)
    (G : ℕ → ℕ → ℕ → ℕ → ℕ → ℕ → ℕ → ℕ → F) (m1 f1 m2 f2 m3 f3 m4 f4 : ℕ) :
    letI := fieldTransc e sq pi
    nest4 s1 s2 s3 s4 w1 w2 w3 w4 G m1 f1 m2 f2 m3 f3 m4 f4
      = nest4 s2 s1 s3 s4 w2 w1 w3 w4
          (fun x2 a2 x1 a1 x3 a3 x4 a4 => G x1 a1 x2 a2 x3 a3 x4 a4) m2 f2 m1 f1 m3 f3 m4 f4 := by
  let _ := fieldTransc e sq pi
  unfold nest4
  congr 1
  funext x4 a4
  congr 1
  funext x3 a3
  exact applyW_comm e sq pi s1 s2 w1 w2 (fun x1 a1 x2 a2 => G x1 a1 x2 a2 x3 a3 x4 a4) m1 f1 m2 f2

/-- exchange of slots 2 and 3 of the nested weights -/
theorem nest4_swap23 (s1 s2 s3 s4 : Shell F) (w1 w2 w3 w4 : Tab3 F)
    (G : ℕ → ℕ → ℕ → ℕ → ℕ → ℕ → ℕ → ℕ → F) (m1 f1 m2 f2 m3 f3 m4 f4 : ℕ) :
    letI := fieldTransc e sq pi
    nest4 s1 s2 s3 s4 w1 w2 w3 w4 G m1 f1 m2 f2 m3 f3 m4 f4
      = nest4 s1 s3 s2 s4 w1 w3 w2 w4
          (fun x1 a1 x3 a3 x2 a2 x4 a4 => G x1 a1 x2 a2 x3 a3 x4 a4) m1 f1 m3 f3 m2 f2 m4 f4 := by
  let _ := fieldTransc e sq pi
  unfold nest4
  congr 1
  funext x4 a4
  exact applyW_comm e sq pi s2 s3 w2 w3
    (fun x2 a2 x3 a3 => applyW s1 w1 (fun x1 a1 => G x1 a1 x2 a2 x3 a3 x4 a4) m1 f1) m2 f2 m3 f3

/-- exchange of slots 3 and 4 of the nested weights -/
theorem nest4_swap34 (s1 s2 s3 s4 : Shell F) (w1 w2 w3 w4 : Tab3 F)
    (G : ℕ → ℕ → ℕ → ℕ → ℕ → ℕ → ℕ → ℕ → F) (m1 f1 m2 f2 m3 f3 m4 f4 : ℕ) :
    letI := fieldTransc e sq pi
    nest4 s1 s2 s3 s4 w1 w2 w3 w4 G m1 f1 m2 f2 m3 f3 m4 f4
      = nest4 s1 s2 s4 s3 w1 w2 w4 w3
          (fun x1 a1 x2 a2 x4 a4 x3 a3 => G x1 a1 x2 a2 x3 a3 x4 a4) m1 f1 m2 f2 m4 f4 m3 f3 := by
  let _ := fieldTransc e sq pi
  unfold nest4
  exact applyW_comm e sq pi s3 s4 w3 w4
    (fun x3 a3 x4 a4 => applyW s2 w2 (fun x2 a2 =>
      applyW s1 w1 (fun x1 a1 => G x1 a1 x2 a2 x3 a3 x4 a4) m1 f1) m2 f2) m3 f3 m4 f4

/-- exchange of the slot pairs `(1, 2)` and `(3, 4)` of the nested weights -/
theorem nest4_swap_pairs (s1 s2 s3 s4 : Shell F) (w1 w2 w3 w4 : Tab3 F)
    (G : ℕ → ℕ → ℕ → ℕ → ℕ → ℕ → ℕ → ℕ → F) (m1 f1 m2 f2 m3 f3 m4 f4 : ℕ) :
    letI := fieldTransc e sq pi
    nest4 s1 s2 s3 s4 w1 w2 w3 w4 G m1 f1 m2 f2 m3 f3 m4 f4
      = nest4 s3 s4 s1 s2 w3 w4 w1 w2
          (fun x3 a3 x4 a4 x1 a1 x2 a2 => G x1 a1 x2 a2 x3 a3 x4 a4) m3 f3 m4 f4 m1 f1 m2 f2 := by
  let _ := fieldTransc e sq pi
  rw [nest4_swap23 e sq pi s1 s2 s3 s4, nest4_swap12 e sq pi s1 s3 s2 s4,
    nest4_swap34 e sq pi s3 s1 s2 s4, nest4_swap23 e sq pi s3 s1 s4 s2]

/-- the nested weights only read in-range Cartesian components of the segments asked for -/
theorem nest4_congr (s1 s2 s3 s4 : Shell F) (w1 w2 w3 w4 : Tab3 F)
    (G H : ℕ → ℕ → ℕ → ℕ → ℕ → ℕ → ℕ → ℕ → F) (m1 f1 m2 f2 m3 f3 m4 f4 : ℕ)
    (hf1 : f1 < s1.nfun) (hf2 : f2 < s2.nfun) (hf3 : f3 < s3.nfun) (hf4 : f4 < s4.nfun)
    (h : ∀ a1 a2 a3 a4, a1 < s1.ncart → a2 < s2.ncart → a3 < s3.ncart → a4 < s4.ncart →
      G m1 a1 m2 a2 m3 a3 m4 a4 = H m1 a1 m2 a2 m3 a3 m4 a4) :
    letI := fieldTransc e sq pi
    nest4 s1 s2 s3 s4 w1 w2 w3 w4 G m1 f1 m2 f2 m3 f3 m4 f4
      = nest4 s1 s2 s3 s4 w1 w2 w3 w4 H m1 f1 m2 f2 m3 f3 m4 f4 := by
  let _ := fieldTransc e sq pi
  unfold nest4
  refine applyW_congr e sq pi s4 w4 _ _ m4 f4 hf4 fun a4 h4 => ?_
  refine applyW_congr e sq pi s3 w3 _ _ m3 f3 hf3 fun a3 h3 => ?_
  refine applyW_congr e sq pi s2 w2 _ _ m2 f2 hf2 fun a2 h2 => ?_
  exact applyW_congr e sq pi s1 w1 _ _ m1 f1 hf1 fun a1 h1 => h a1 a2 a3 a4 h1 h2 h3 h4

/-- weighted blocks, `(ab|cd) → (ba|cd)` -/
theorem wBlock4_swap12 (sa sb sc sd : Shell F) (wa wb wc wd : Tab3 F) (raw raw' : Tab8 F)
    (ma fa mb fb mc fc md fd : ℕ)
    (hfa : fa < sa.nfun) (hfb : fb < sb.nfun) (hfc : fc < sc.nfun) (hfd : fd < sd.nfun)
    (hraw : ∀ a1 a2 a3 a4, a1 < sa.ncart → a2 < sb.ncart → a3 < sc.ncart → a4 < sd.ncart →
      raw'.get8 mb a2 ma a1 mc a3 md a4 = raw.get8 ma a1 mb a2 mc a3 md a4) :
    letI := fieldTransc e sq pi
    (wBlock4 sb sa sc sd wb wa wc wd raw').get8 mb fb ma fa mc fc md fd
      = (wBlock4 sa sb sc sd wa wb wc wd raw).get8 ma fa mb fb mc fc md fd := by
  let _ := fieldTransc e sq pi
  rw [wBlock4_get8_nest, wBlock4_get8_nest, nest4_swap12 e sq pi sa sb sc sd]
  exact nest4_congr e sq pi sb sa sc sd wb wa wc wd _ _ mb fb ma fa mc fc md fd hfb hfa hfc hfd
    fun a2 a1 a3 a4 h2 h1 h3 h4 => hraw a1 a2 a3 a4 h1 h2 h3 h4

/-- weighted blocks, `(ab|cd) → (ab|dc)` -/
theorem wBlock4_swap34 (sa sb sc sd : Shell F) (wa wb wc wd : Tab3 F) (raw raw' : Tab8 F)
    (ma fa mb fb mc fc md fd : ℕ)
    (hfa : fa < sa.nfun) (hfb : fb < sb.nfun) (hfc : fc < sc.nfun) (hfd : fd < sd.nfun)
    (hraw : ∀ a1 a2 a3 a4, a1 < sa.ncart → a2 < sb.ncart → a3 < sc.ncart → a4 < sd.ncart →
      raw'.get8 ma a1 mb a2 md a4 mc a3 = raw.get8 ma a1 mb a2 mc a3 md a4) :
    letI := fieldTransc e sq pi
    (wBlock4 sa sb sd sc wa wb wd wc raw').get8 ma fa mb fb md fd mc fc
      = (wBlock4 sa sb sc sd wa wb wc wd raw).get8 ma fa mb fb mc fc md fd := by
  let _ := fieldTransc e sq pi
  rw [wBlock4_get8_nest, wBlock4_get8_nest, nest4_swap34 e sq pi sa sb sc sd]
  exact nest4_congr e sq pi sa sb sd sc wa wb wd wc _ _ ma fa mb fb md fd mc fc hfa hfb hfd hfc
    fun a1 a2 a4 a3 h1 h2 h4 h3 => hraw a1 a2 a3 a4 h1 h2 h3 h4

/-- weighted blocks, `(ab|cd) → (cd|ab)` -/
theorem wBlock4_swap_pairs (sa sb sc sd : Shell F) (wa wb wc wd : Tab3 F) (raw raw' : Tab8 F)
    (ma fa mb fb mc fc md fd : ℕ)
    (hfa : fa < sa.nfun) (hfb : fb < sb.nfun) (hfc : fc < sc.nfun) (hfd : fd < sd.nfun)
    (hraw : ∀ a1 a2 a3 a4, a1 < sa.ncart → a2 < sb.ncart → a3 < sc.ncart → a4 < sd.ncart →
      raw'.get8 mc a3 md a4 ma a1 mb a2 = raw.get8 ma a1 mb a2 mc a3 md a4) :
    letI := fieldTransc e sq pi
    (wBlock4 sc sd sa sb wc wd wa wb raw').get8 mc fc md fd ma fa mb fb
      = (wBlock4 sa sb sc sd wa wb wc wd raw).get8 ma fa mb fb mc fc md fd := by
  let _ := fieldTransc e sq pi
  rw [wBlock4_get8_nest, wBlock4_get8_nest, nest4_swap_pairs e sq pi sa sb sc sd]
  exact nest4_congr e sq pi sc sd sa sb wc wd wa wb _ _ mc fc md fd ma fa mb fb hfc hfd hfa hfb
    fun a3 a4 a1 a2 h3 h4 h1 h2 => hraw a1 a2 a3 a4 h1 h2 h3 h4

/-- **`(ab|cd) = (ba|cd)` for arrays.**  If the raw block of the quartet `(j, i, k, l)` (block
function `blk'`, bases `(b2, b1, b3, b4)`) is the raw block of `(i, j, k, l)` with the first two
index pairs exchanged, the same holds for the four-index arrays. -/
theorem entry4_swap12 (b1 b2 b3 b4 : Basis F) (blk blk' : ℕ → ℕ → ℕ → ℕ → Tab8 F)
    (hblk : ∀ i j k l (hi : i < b1.size) (hj : j < b2.size) (hk : k < b3.size) (hl : l < b4.size)
      m1 a1 m2 a2 m3 a3 m4 a4, m1 < b1[i].nseg → a1 < b1[i].ncart → m2 < b2[j].nseg →
      a2 < b2[j].ncart → m3 < b3[k].nseg → a3 < b3[k].ncart → m4 < b4[l].nseg → a4 < b4[l].ncart →
        (blk' j i k l).get8 m2 a2 m1 a1 m3 a3 m4 a4 = (blk i j k l).get8 m1 a1 m2 a2 m3 a3 m4 a4)
    (r1 r2 r3 r4 : ℕ)
    (h1 : r1 < b1.total) (h2 : r2 < b2.total) (h3 : r3 < b3.total) (h4 : r4 < b4.total) :
    letI := fieldTransc e sq pi
    entry4 b2 b1 b3 b4 (quartetBlocks b2 b1 b3 b4 blk') r2 r1 r3 r4
      = entry4 b1 b2 b3 b4 (quartetBlocks b1 b2 b3 b4 blk) r1 r2 r3 r4 := by
  let _ := fieldTransc e sq pi
  obtain ⟨hi, hm1, hf1, -⟩ := locate_lt b1 r1 h1
  obtain ⟨hj, hm2, hf2, -⟩ := locate_lt b2 r2 h2
  obtain ⟨hk, hm3, hf3, -⟩ := locate_lt b3 r3 h3
  obtain ⟨hl, hm4, hf4, -⟩ := locate_lt b4 r4 h4
  unfold entry4
  simp only []
  rw [quartetBlocks_get b2 b1 b3 b4 blk' _ _ _ _ hj hi hk hl,
    quartetBlocks_get b1 b2 b3 b4 blk _ _ _ _ hi hj hk hl]
  exact wBlock4_swap12 e sq pi _ _ _ _ _ _ _ _ _ _ _ _ _ _ _ _ _ _ hf1 hf2 hf3 hf4
    fun a1 a2 a3 a4 g1 g2 g3 g4 =>
      hblk _ _ _ _ hi hj hk hl _ a1 _ a2 _ a3 _ a4 hm1 g1 hm2 g2 hm3 g3 hm4 g4

/-- **`(ab|cd) = (ab|dc)` for arrays.** -/
theorem entry4_swap34 (b1 b2 b3 b4 : Basis F) (blk blk' : ℕ → ℕ → ℕ → ℕ → Tab8 F)
    (hblk : ∀ i j k l (hi : i < b1.size) (hj : j < b2.size) (hk : k < b3.size) (hl : l < b4.size)
      m1 a1 m2 a2 m3 a3 m4 a4, m1 < b1[i].nseg → a1 < b1[i].ncart → m2 < b2[j].nseg →
      a2 < b2[j].ncart → m3 < b3[k].nseg → a3 < b3[k].ncart → m4 < b4[l].nseg → a4 < b4[l].ncart →
        (blk' i j l k).get8 m1 a1 m2 a2 m4 a4 m3 a3 = (blk i j k l).get8 m1 a1 m2 a2 m3 a3 m4 a4)
    (r1 r2 r3 r4 : ℕ)
    (h1 : r1 < b1.total) (h2 : r2 < b2.total) (h3 : r3 < b3.total) (h4 : r4 < b4.total) :
    letI := fieldTransc e sq pi
    entry4 b1 b2 b4 b3 (quartetBlocks b1 b2 b4 b3 blk') r1 r2 r4 r3
      = entry4 b1 b2 b3 b4 (quartetBlocks b1 b2 b3 b4 blk) r1 r2 r3 r4 := by
  let _ := fieldTransc e sq pi
  obtain ⟨hi, hm1, hf1, -⟩ := locate_lt b1 r1 h1
  obtain ⟨hj, hm2, hf2, -⟩ := locate_lt b2 r2 h2
  obtain ⟨hk, hm3, hf3, -⟩ := locate_lt b3 r3 h3
  obtain ⟨hl, hm4, hf4, -⟩ := locate_lt b4 r4 h4
  unfold entry4
  simp only []
  rw [quartetBlocks_get b1 b2 b4 b3 blk' _ _ _ _ hi hj hl hk,
    quartetBlocks_get b1 b2 b3 b4 blk _ _ _ _ hi hj hk hl]
  exact wBlock4_swap34 e sq pi _ _ _ _ _ _ _ _ _ _ _ _ _ _ _ _ _ _ hf1 hf2 hf3 hf4
    fun a1 a2 a3 a4 g1 g2 g3 g4 =>
      hblk _ _ _ _ hi hj hk hl _ a1 _ a2 _ a3 _ a4 hm1 g1 hm2 g2 hm3 g3 hm4 g4

/-- **`(ab|cd) = (cd|ab)` for arrays.** -/
theorem entry4_swap_pairs (b1 b2 b3 b4 : Basis F) (blk blk' : ℕ → ℕ → ℕ → ℕ → Tab8 F)
    (hblk : ∀ i j k l (hi : i < b1.size) (hj : j < b2.size) (hk : k < b3.size) (hl : l < b4.size)
      m1 a1 m2 a2 m3 a3 m4 a4, m1 < b1[i].nseg → a1 < b1[i].ncart → m2 < b2[j].nseg →
      a2 < b2[j].ncart → m3 < b3[k].nseg → a3 < b3[k].ncart → m4 < b4[l].nseg → a4 < b4[l].ncart →
        (blk' k l i j).get8 m3 a3 m4 a4 m1 a1 m2 a2 = (blk i j k l).get8 m1 a1 m2 a2 m3 a3 m4 a4)
    (r1 r2 r3 r4 : ℕ)
    (h1 : r1 < b1.total) (h2 : r2 < b2.total) (h3 : r3 < b3.total) (h4 : r4 < b4.total) :
    letI := fieldTransc e sq pi
    entry4 b3 b4 b1 b2 (quartetBlocks b3 b4 b1 b2 blk') r3 r4 r1 r2
      = entry4 b1 b2 b3 b4 (quartetBlocks b1 b2 b3 b4 blk) r1 r2 r3 r4 := by
  let _ := fieldTransc e sq pi
  obtain ⟨hi, hm1, hf1, -⟩ := locate_lt b1 r1 h1
  obtain ⟨hj, hm2, hf2, -⟩ := locate_lt b2 r2 h2
  obtain ⟨hk, hm3, hf3, -⟩ := locate_lt b3 r3 h3
  obtain ⟨hl, hm4, hf4, -⟩ := locate_lt b4 r4 h4
  unfold entry4
  simp only []
  rw [quartetBlocks_get b3 b4 b1 b2 blk' _ _ _ _ hk hl hi hj,
    quartetBlocks_get b1 b2 b3 b4 blk _ _ _ _ hi hj hk hl]
  exact wBlock4_swap_pairs e sq pi _ _ _ _ _ _ _ _ _ _ _ _ _ _ _ _ _ _ hf1 hf2 hf3 hf4
    fun a1 a2 a3 a4 g1 g2 g3 g4 =>
      hblk _ _ _ _ hi hj hk hl _ a1 _ a2 _ a3 _ a4 hm1 g1 hm2 g2 hm3 g3 hm4 g4

/-- in-range form of the three block symmetries of a four-index block function on one basis -/
structure BlockSymm4 (b : Basis F) (blk : ℕ → ℕ → ℕ → ℕ → Tab8 F) : Prop where
  swap12 : ∀ i j k l (hi : i < b.size) (hj : j < b.size) (hk : k < b.size) (hl : l < b.size)
      m1 a1 m2 a2 m3 a3 m4 a4, m1 < b[i].nseg → a1 < b[i].ncart → m2 < b[j].nseg →
      a2 < b[j].ncart → m3 < b[k].nseg → a3 < b[k].ncart → m4 < b[l].nseg → a4 < b[l].ncart →
        (blk j i k l).get8 m2 a2 m1 a1 m3 a3 m4 a4 = (blk i j k l).get8 m1 a1 m2 a2 m3 a3 m4 a4
  swap34 : ∀ i j k l (hi : i < b.size) (hj : j < b.size) (hk : k < b.size) (hl : l < b.size)
      m1 a1 m2 a2 m3 a3 m4 a4, m1 < b[i].nseg → a1 < b[i].ncart → m2 < b[j].nseg →
      a2 < b[j].ncart → m3 < b[k].nseg → a3 < b[k].ncart → m4 < b[l].nseg → a4 < b[l].ncart →
        (blk i j l k).get8 m1 a1 m2 a2 m4 a4 m3 a3 = (blk i j k l).get8 m1 a1 m2 a2 m3 a3 m4 a4
  swapPairs : ∀ i j k l (hi : i < b.size) (hj : j < b.size) (hk : k < b.size) (hl : l < b.size)
      m1 a1 m2 a2 m3 a3 m4 a4, m1 < b[i].nseg → a1 < b[i].ncart → m2 < b[j].nseg →
      a2 < b[j].ncart → m3 < b[k].nseg → a3 < b[k].ncart → m4 < b[l].nseg → a4 < b[l].ncart →
        (blk k l i j).get8 m3 a3 m4 a4 m1 a1 m2 a2 = (blk i j k l).get8 m1 a1 m2 a2 m3 a3 m4 a4

/-- **Eight-fold symmetry of the four-index array** from the three symmetries of the blocks:
`A[r2 r1 r3 r4] = A[r1 r2 r4 r3] = A[r3 r4 r1 r2] = A[r1 r2 r3 r4]`, and hence all eight index
arrangements `(12|34), (21|34), (12|43), (21|43), (34|12), (43|12), (34|21), (43|21)` agree. -/
theorem entry4_eightfold (b : Basis F) (blk : ℕ → ℕ → ℕ → ℕ → Tab8 F) (hS : BlockSymm4 b blk)
    (r1 r2 r3 r4 : ℕ)
    (h1 : r1 < b.total) (h2 : r2 < b.total) (h3 : r3 < b.total) (h4 : r4 < b.total) :
    letI := fieldTransc e sq pi
    let A := entry4 b b b b (quartetBlocks b b b b blk)
    A r2 r1 r3 r4 = A r1 r2 r3 r4 ∧ A r1 r2 r4 r3 = A r1 r2 r3 r4 ∧ A r2 r1 r4 r3 = A r1 r2 r3 r4 ∧
    A r3 r4 r1 r2 = A r1 r2 r3 r4 ∧ A r4 r3 r1 r2 = A r1 r2 r3 r4 ∧ A r3 r4 r2 r1 = A r1 r2 r3 r4 ∧
    A r4 r3 r2 r1 = A r1 r2 r3 r4 := by
  let _ := fieldTransc e sq pi
  intro A
  have s12 : ∀ x1 x2 x3 x4, x1 < b.total → x2 < b.total → x3 < b.total → x4 < b.total →
      A x2 x1 x3 x4 = A x1 x2 x3 x4 := fun x1 x2 x3 x4 g1 g2 g3 g4 =>
    entry4_swap12 e sq pi b b b b blk blk hS.swap12 x1 x2 x3 x4 g1 g2 g3 g4
  have s34 : ∀ x1 x2 x3 x4, x1 < b.total → x2 < b.total → x3 < b.total → x4 < b.total →
      A x1 x2 x4 x3 = A x1 x2 x3 x4 := fun x1 x2 x3 x4 g1 g2 g3 g4 =>
    entry4_swap34 e sq pi b b b b blk blk hS.swap34 x1 x2 x3 x4 g1 g2 g3 g4
  have sp : ∀ x1 x2 x3 x4, x1 < b.total → x2 < b.total → x3 < b.total → x4 < b.total →
      A x3 x4 x1 x2 = A x1 x2 x3 x4 := fun x1 x2 x3 x4 g1 g2 g3 g4 =>
    entry4_swap_pairs e sq pi b b b b blk blk hS.swapPairs x1 x2 x3 x4 g1 g2 g3 g4
  refine ⟨s12 _ _ _ _ h1 h2 h3 h4, s34 _ _ _ _ h1 h2 h3 h4, ?_, sp _ _ _ _ h1 h2 h3 h4, ?_, ?_, ?_⟩
  · rw [s12 _ _ _ _ h1 h2 h4 h3, s34 _ _ _ _ h1 h2 h3 h4]
  · rw [s12 _ _ _ _ h3 h4 h1 h2, sp _ _ _ _ h1 h2 h3 h4]
  · rw [s34 _ _ _ _ h3 h4 h1 h2, sp _ _ _ _ h1 h2 h3 h4]
  · rw [s12 _ _ _ _ h3 h4 h2 h1, s34 _ _ _ _ h3 h4 h1 h2, sp _ _ _ _ h1 h2 h3 h4]

/-- flat-array form of the three generators -/
theorem assemble4_symm [Inhabited F] (b : Basis F) (blk : ℕ → ℕ → ℕ → ℕ → Tab8 F)
    (hS : BlockSymm4 b blk) (r1 r2 r3 r4 : ℕ)
    (h1 : r1 < b.total) (h2 : r2 < b.total) (h3 : r3 < b.total) (h4 : r4 < b.total) :
    letI := fieldTransc e sq pi
    (assemble4 b blk)[((r2 * b.total + r1) * b.total + r3) * b.total + r4]!
        = (assemble4 b blk)[((r1 * b.total + r2) * b.total + r3) * b.total + r4]! ∧
    (assemble4 b blk)[((r1 * b.total + r2) * b.total + r4) * b.total + r3]!
        = (assemble4 b blk)[((r1 * b.total + r2) * b.total + r3) * b.total + r4]! ∧
    (assemble4 b blk)[((r3 * b.total + r4) * b.total + r1) * b.total + r2]!
        = (assemble4 b blk)[((r1 * b.total + r2) * b.total + r3) * b.total + r4]! := by
  let _ := fieldTransc e sq pi
  obtain ⟨g1, g2, -, g3, -⟩ := entry4_eightfold e sq pi b blk hS r1 r2 r3 r4 h1 h2 h3 h4
  rw [assemble4_get b blk r2 r1 r3 r4 h2 h1 h3 h4, assemble4_get b blk r1 r2 r4 r3 h1 h2 h4 h3,
    assemble4_get b blk r3 r4 r1 r2 h3 h4 h1 h2, assemble4_get b blk r1 r2 r3 r4 h1 h2 h3 h4]
  exact ⟨g1, g2, g3⟩

end Field

/-! ## the model's own blocks over ℝ

The hypotheses of the symmetry theorems hold for the blocks the driver hands to the assembly
(`overlapBlock b[i]! b[j]!`, `eriBlock boys b[i]! b[j]! b[k]! b[l]!`) on every basis with positive
exponents whose Cartesian components have total degree at most `l`. -/

section Real

/-- positive exponents; every listed Cartesian component has total degree `≤ l` -/
structure Basis.WellFormed (b : Basis ℝ) : Prop where
  exp_pos : ∀ i (hi : i < b.size) k, k < b[i].nprim → 0 < b[i].exp! k
  comp_le : ∀ i (hi : i < b.size) a, a < b[i].ncart →
    (b[i].comp! a).1 + (b[i].comp! a).2.1 + (b[i].comp! a).2.2 ≤ b[i].l

/-- the `blk` argument of the driver for `"overlap"` -/
noncomputable def overlapBlk' (b : Basis ℝ) (i j : ℕ) : Tab (Tab4 ℝ) :=
  tab 1 fun _ => overlapBlock b[i]! b[j]!

/-- the `blk` argument of the driver for the electron-repulsion array -/
noncomputable def eriBlk (boysT : ℝ → ℕ → Tab ℝ) (b : Basis ℝ) (i j k l : ℕ) : Tab8 ℝ :=
  eriBlock boysT b[i]! b[j]! b[k]! b[l]!

/-- **The assembled overlap array is symmetric** (any mixture of Cartesian and spherical shells). -/
theorem overlap_array_symm_reorder (b : Basis ℝ) (hb : b.WellFormed) (r c x : ℕ)
    (hr : r < b.total) (hc : c < b.total) :
    entry2 b b (pairBlocks b b 1 (overlapBlk' b)) c r x
      = entry2 b b (pairBlocks b b 1 (overlapBlk' b)) r c x := by
  refine entry2_symm Real.exp Real.sqrt Real.pi b 1 (overlapBlk' b) x
    (fun i j hi hj m a n c _ _ _ _ => ?_) r c hr hc
  simp only [overlapBlk', tab_get, getElem!_pos b i hi, getElem!_pos b j hj]
  exact (overlapBlock_symm b[i] b[j] m a n c (fun k hk => hb.exp_pos i hi k hk)
    (fun k hk => hb.exp_pos j hj k hk)).symm

/-- the three block symmetries of the model's ERI blocks, in the form the array theorem wants -/
theorem eriBlk_symm (boysT : ℝ → ℕ → Tab ℝ)
    (hboys : ∀ T n m, m < n → (boysT T n).get m = boys T m) (b : Basis ℝ) (hb : b.WellFormed) :
    BlockSymm4 b (eriBlk boysT b) := by
  refine ⟨?_, ?_, ?_⟩
  all_goals
    intro i j k l hi hj hk hl m1 a1 m2 a2 m3 a3 m4 a4 _ g1 _ g2 _ g3 _ g4
    simp only [eriBlk, getElem!_pos b i hi, getElem!_pos b j hj, getElem!_pos b k hk,
      getElem!_pos b l hl]
  · exact (eriBlock_swap_ab boysT hboys b[i] b[j] b[k] b[l] m1 a1 m2 a2 m3 a3 m4 a4
      (hb.exp_pos i hi) (hb.exp_pos j hj) (hb.exp_pos k hk) (hb.exp_pos l hl)
      (hb.comp_le i hi a1 g1) (hb.comp_le j hj a2 g2) (hb.comp_le k hk a3 g3)
      (hb.comp_le l hl a4 g4)).symm
  · exact (eriBlock_swap_cd boysT hboys b[i] b[j] b[k] b[l] m1 a1 m2 a2 m3 a3 m4 a4
      (hb.exp_pos i hi) (hb.exp_pos j hj) (hb.exp_pos k hk) (hb.exp_pos l hl)
      (hb.comp_le i hi a1 g1) (hb.comp_le j hj a2 g2) (hb.comp_le k hk a3 g3)
      (hb.comp_le l hl a4 g4)).symm
  · exact (eriBlock_swap_electrons boysT hboys b[i] b[j] b[k] b[l] m1 a1 m2 a2 m3 a3 m4 a4
      (hb.exp_pos i hi) (hb.exp_pos j hj) (hb.exp_pos k hk) (hb.exp_pos l hl)
      (hb.comp_le i hi a1 g1) (hb.comp_le j hj a2 g2) (hb.comp_le k hk a3 g3)
      (hb.comp_le l hl a4 g4)).symm

/-- **The assembled electron-repulsion array has the eight-fold symmetry** (any mixture of
Cartesian and spherical shells). -/
theorem eri_array_eightfold (boysT : ℝ → ℕ → Tab ℝ)
    (hboys : ∀ T n m, m < n → (boysT T n).get m = boys T m) (b : Basis ℝ) (hb : b.WellFormed)
    (r1 r2 r3 r4 : ℕ)
    (h1 : r1 < b.total) (h2 : r2 < b.total) (h3 : r3 < b.total) (h4 : r4 < b.total) :
    let A := entry4 b b b b (quartetBlocks b b b b (eriBlk boysT b))
    A r2 r1 r3 r4 = A r1 r2 r3 r4 ∧ A r1 r2 r4 r3 = A r1 r2 r3 r4 ∧ A r2 r1 r4 r3 = A r1 r2 r3 r4 ∧
    A r3 r4 r1 r2 = A r1 r2 r3 r4 ∧ A r4 r3 r1 r2 = A r1 r2 r3 r4 ∧ A r3 r4 r2 r1 = A r1 r2 r3 r4 ∧
    A r4 r3 r2 r1 = A r1 r2 r3 r4 :=
  entry4_eightfold Real.exp Real.sqrt Real.pi b (eriBlk boysT b) (eriBlk_symm boysT hboys b hb)
    r1 r2 r3 r4 h1 h2 h3 h4

end Real

/-! ## axioms -/


end GB
