import GBProofs.EriBlock
import GBProofs.CoulombTwoElectron
import GBProofs.Definiteness

/-!
# The electron-repulsion block is the six-dimensional Coulomb integral

* §1 (algebra): a four-index family that satisfies the two families of horizontal relations is
  determined by its values at `b = d = 0` (`horiz4_unique`).
* §2 (ℝ): the integral family `eriPrimInt` of four un-normalised primitives `primFnE` satisfies the
  horizontal relations (`(x-B) = (x-A) + (A-B)` under the integral sign) and at `b = d = 0` is
  `coulomb2_general_fin`; hence `eriQuartet … = eriPrimInt …` (`eriPrim_eq_integral`).
* §3: `eriBlock_eq_integral` — the code's block is `eriExact`.
* §4: corollaries (non-negativity, Schwarz, positive semi-definiteness, symmetries).
-/
open Finset

namespace GB

/-! ## 1. Uniqueness of solutions of the horizontal relations -/
section Unique
variable {K : Type} [Field K]

/-- a two-index family satisfying the horizontal relations is determined by its `b = 0` values -/
theorem HorizRel.unique {AB : ℕ → K} {g g' : ℕ × ℕ × ℕ → ℕ × ℕ × ℕ → K}
    (hg : HorizRel AB g) (hg' : HorizRel AB g') (h0 : ∀ a, g a (0,0,0) = g' a (0,0,0)) :
    ∀ a b, g a b = g' a b := by
  have hx : ∀ bx ax ay az, g (ax, ay, az) (bx, 0, 0) = g' (ax, ay, az) (bx, 0, 0) := by
    intro bx
    induction bx with
    | zero => intro ax ay az; exact h0 _
    | succ n ih => intro ax ay az; rw [hg.x, hg'.x, ih, ih]
  have hy : ∀ by' bx ax ay az, g (ax, ay, az) (bx, by', 0) = g' (ax, ay, az) (bx, by', 0) := by
    intro by'
    induction by' with
    | zero => exact hx
    | succ n ih => intro bx ax ay az; rw [hg.y, hg'.y, ih, ih]
  have hz : ∀ bz by' bx ax ay az, g (ax, ay, az) (bx, by', bz) = g' (ax, ay, az) (bx, by', bz) := by
    intro bz
    induction bz with
    | zero => exact hy
    | succ n ih => intro by' bx ax ay az; rw [hg.z, hg'.z, ih, ih]
  rintro ⟨ax, ay, az⟩ ⟨bx, by', bz⟩
  exact hz bz by' bx ax ay az

/-- a four-index family satisfying both families of horizontal relations is determined by its
values at `b = d = 0` -/
theorem horiz4_unique {AB CD : ℕ → K} {G G' : Comp → Comp → Comp → Comp → K}
    (hAB : ∀ c d, HorizRel AB (fun a b => G a b c d))
    (hCD : ∀ a b, HorizRel CD (fun c d => G a b c d))
    (hAB' : ∀ c d, HorizRel AB (fun a b => G' a b c d))
    (hCD' : ∀ a b, HorizRel CD (fun c d => G' a b c d))
    (h0 : ∀ a c, G a (0,0,0) c (0,0,0) = G' a (0,0,0) c (0,0,0)) :
    ∀ a b c d, G a b c d = G' a b c d := by
  intro a b c d
  refine HorizRel.unique (hAB c d) (hAB' c d) (fun a => ?_) a b
  exact HorizRel.unique (hCD a (0,0,0)) (hCD' a (0,0,0)) (fun c => h0 a c) c d

end Unique

/-! ## 2. One primitive quartet -/
section Prim
open MeasureTheory Real

/-- product of two un-normalised primitives on different centres (one electron) -/
noncomputable def primPair (α β : ℝ) (A B : E3) (a b : Comp) (r : E3) : ℝ :=
  primFnE α A a r * primFnE β B b r

lemma continuous_primPair (α β : ℝ) (A B : E3) (a b : Comp) :
    Continuous (primPair α β A B a b) :=
  (continuous_primFnE α A a).mul (continuous_primFnE β B b)

lemma gaussBdd_primPair (α β : ℝ) (hα : 0 < α) (hβ : 0 < β) (A B : E3) (a b : Comp) :
    GaussBdd (primPair α β A B a b) :=
  (gaussBdd_primFnE α hα A a).mul (gaussBdd_primFnE β hβ B b)

/-- **The electron-repulsion integral of four un-normalised Cartesian primitives**
`∬ g_a(r₁) g_b(r₁) g_c(r₂) g_d(r₂) / |r₁ - r₂|` over `E3 × E3` -/
noncomputable def eriPrimInt (α β γ δ : ℝ) (A B C D : E3) (a b c d : Comp) : ℝ :=
  ∫ z : E3 × E3, primFnE α A a z.1 * primFnE β B b z.1
      * (primFnE γ C c z.2 * primFnE δ D d z.2) / ‖z.1 - z.2‖

/-- the integrand of `eriPrimInt` is integrable for positive exponents -/
theorem eriPrimInt_integrable {α β γ δ : ℝ} (hα : 0 < α) (hβ : 0 < β) (hγ : 0 < γ) (hδ : 0 < δ)
    (A B C D : E3) (a b c d : Comp) :
    Integrable fun z : E3 × E3 => primFnE α A a z.1 * primFnE β B b z.1
      * (primFnE γ C c z.2 * primFnE δ D d z.2) / ‖z.1 - z.2‖ :=
  integrable_coulomb_pair (continuous_primPair α β A B a b).aestronglyMeasurable
    (continuous_primPair γ δ C D c d).aestronglyMeasurable
    (gaussBdd_primPair α β hα hβ A B a b) (gaussBdd_primPair γ δ hγ hδ C D c d)

lemma primFnE_bump0 (α : ℝ) (A : E3) (ax ay az : ℕ) (r : E3) :
    primFnE α A (ax+1, ay, az) r = (r 0 - A 0) * primFnE α A (ax, ay, az) r := by
  unfold primFnE; ring

lemma primFnE_bump1 (α : ℝ) (A : E3) (ax ay az : ℕ) (r : E3) :
    primFnE α A (ax, ay+1, az) r = (r 1 - A 1) * primFnE α A (ax, ay, az) r := by
  unfold primFnE; ring

lemma primFnE_bump2 (α : ℝ) (A : E3) (ax ay az : ℕ) (r : E3) :
    primFnE α A (ax, ay, az+1) r = (r 2 - A 2) * primFnE α A (ax, ay, az) r := by
  unfold primFnE; ring

/-- linearity step shared by the six horizontal relations -/
lemma eriPrimInt_lin {α β γ δ : ℝ} (hα : 0 < α) (hβ : 0 < β) (hγ : 0 < γ) (hδ : 0 < δ)
    (A B C D : E3) (a b c d a1 b1 c1 d1 a2 b2 c2 d2 : Comp) (k : ℝ)
    (h : ∀ z : E3 × E3, primFnE α A a z.1 * primFnE β B b z.1
          * (primFnE γ C c z.2 * primFnE δ D d z.2)
        = primFnE α A a1 z.1 * primFnE β B b1 z.1 * (primFnE γ C c1 z.2 * primFnE δ D d1 z.2)
          + k * (primFnE α A a2 z.1 * primFnE β B b2 z.1
              * (primFnE γ C c2 z.2 * primFnE δ D d2 z.2))) :
    eriPrimInt α β γ δ A B C D a b c d
      = eriPrimInt α β γ δ A B C D a1 b1 c1 d1 + k * eriPrimInt α β γ δ A B C D a2 b2 c2 d2 := by
  unfold eriPrimInt
  rw [← integral_const_mul, ← integral_add (eriPrimInt_integrable hα hβ hγ hδ A B C D a1 b1 c1 d1)
    ((eriPrimInt_integrable hα hβ hγ hδ A B C D a2 b2 c2 d2).const_mul k)]
  refine integral_congr_ae (Filter.Eventually.of_forall fun z => ?_)
  simp only []
  rw [h z]
  ring

/-- the integrals satisfy the `a → b` horizontal relations with `AB = A - B` -/
theorem horizAB_eriPrimInt {α β γ δ : ℝ} (hα : 0 < α) (hβ : 0 < β) (hγ : 0 < γ) (hδ : 0 < δ)
    (A B C D : ℕ → ℝ) (c d : Comp) :
    HorizRel (fun i => A i - B i)
      (fun a b => eriPrimInt α β γ δ (toE3 A) (toE3 B) (toE3 C) (toE3 D) a b c d) where
  x := by
    intro ax ay az bx by' bz
    refine eriPrimInt_lin hα hβ hγ hδ _ _ _ _ _ _ _ _ _ _ _ _ _ _ _ _ _ fun z => ?_
    rw [primFnE_bump0, primFnE_bump0]
    have e1 : toE3 A 0 = A 0 := rfl
    have e2 : toE3 B 0 = B 0 := rfl
    rw [e1, e2]; ring
  y := by
    intro ax ay az bx by' bz
    refine eriPrimInt_lin hα hβ hγ hδ _ _ _ _ _ _ _ _ _ _ _ _ _ _ _ _ _ fun z => ?_
    rw [primFnE_bump1, primFnE_bump1]
    have e1 : toE3 A 1 = A 1 := rfl
    have e2 : toE3 B 1 = B 1 := rfl
    rw [e1, e2]; ring
  z := by
    intro ax ay az bx by' bz
    refine eriPrimInt_lin hα hβ hγ hδ _ _ _ _ _ _ _ _ _ _ _ _ _ _ _ _ _ fun z => ?_
    rw [primFnE_bump2, primFnE_bump2]
    have e1 : toE3 A 2 = A 2 := rfl
    have e2 : toE3 B 2 = B 2 := rfl
    rw [e1, e2]; ring

/-- the integrals satisfy the `c → d` horizontal relations with `CD = C - D` -/
theorem horizCD_eriPrimInt {α β γ δ : ℝ} (hα : 0 < α) (hβ : 0 < β) (hγ : 0 < γ) (hδ : 0 < δ)
    (A B C D : ℕ → ℝ) (a b : Comp) :
    HorizRel (fun i => C i - D i)
      (fun c d => eriPrimInt α β γ δ (toE3 A) (toE3 B) (toE3 C) (toE3 D) a b c d) where
  x := by
    intro cx cy cz dx dy dz
    refine eriPrimInt_lin hα hβ hγ hδ _ _ _ _ _ _ _ _ _ _ _ _ _ _ _ _ _ fun z => ?_
    rw [primFnE_bump0, primFnE_bump0]
    have e1 : toE3 C 0 = C 0 := rfl
    have e2 : toE3 D 0 = D 0 := rfl
    rw [e1, e2]; ring
  y := by
    intro cx cy cz dx dy dz
    refine eriPrimInt_lin hα hβ hγ hδ _ _ _ _ _ _ _ _ _ _ _ _ _ _ _ _ _ fun z => ?_
    rw [primFnE_bump1, primFnE_bump1]
    have e1 : toE3 C 1 = C 1 := rfl
    have e2 : toE3 D 1 = D 1 := rfl
    rw [e1, e2]; ring
  z := by
    intro cx cy cz dx dy dz
    refine eriPrimInt_lin hα hβ hγ hδ _ _ _ _ _ _ _ _ _ _ _ _ _ _ _ _ _ fun z => ?_
    rw [primFnE_bump2, primFnE_bump2]
    have e1 : toE3 C 2 = C 2 := rfl
    have e2 : toE3 D 2 = D 2 := rfl
    rw [e1, e2]; ring

lemma toE3_center (α β : ℝ) (A B : ℕ → ℝ) :
    toE3 (fun i => (α * A i + β * B i) / (α + β))
      = (α + β)⁻¹ • (α • toE3 A + β • toE3 B) := by
  ext u
  simp only [toE3_apply, PiLp.smul_apply, PiLp.add_apply, smul_eq_mul]
  rw [div_eq_inv_mul]

/-- base case `b = d = 0`: `coulomb2_general_fin` -/
theorem eriPrimInt_base {α β γ δ : ℝ} (hα : 0 < α) (hβ : 0 < β) (hγ : 0 < γ) (hδ : 0 < δ)
    (A B C D : ℕ → ℝ) (a c : Comp) :
    eriPrimInt α β γ δ (toE3 A) (toE3 B) (toE3 C) (toE3 D) a (0,0,0) c (0,0,0)
      = eriQuartet Real.exp Real.sqrt π boys α β γ δ A B C D a (0,0,0) c (0,0,0) := by
  have hp : 0 < α + β := by positivity
  have hq : 0 < γ + δ := by positivity
  have hpq : 0 < α + β + (γ + δ) := by positivity
  have h := coulomb2_general_fin hα hβ hγ hδ (toE3 A) (toE3 B) (toE3 C) (toE3 D) _ _
    (toE3_center α β A B) (toE3_center γ δ C D)
    ((α + β) * (γ + δ) / (α + β + (γ + δ)))
    ((α + β) * (γ + δ) / (α + β + (γ + δ)) / (α + β))
    ((α + β) * (γ + δ) / (α + β + (γ + δ)) / (γ + δ)) rfl (by field_simp) (by field_simp)
    ![a.1, a.2.1, a.2.2] ![c.1, c.2.1, c.2.2]
  simp only [Fin.prod_univ_three, Matrix.cons_val_zero, Matrix.cons_val_one,
    Matrix.cons_val_two, Matrix.head_cons, Matrix.tail_cons] at h
  have hint : ∀ z : E3 × E3, primFnE α (toE3 A) a z.1 * primFnE β (toE3 B) (0,0,0) z.1
        * (primFnE γ (toE3 C) c z.2 * primFnE δ (toE3 D) (0,0,0) z.2) / ‖z.1 - z.2‖
      = (z.1 0 - toE3 A 0)^a.1 * (z.1 1 - toE3 A 1)^a.2.1 * (z.1 2 - toE3 A 2)^a.2.2
          * exp (-α * ‖z.1 - toE3 A‖^2) * exp (-β * ‖z.1 - toE3 B‖^2)
        * ((z.2 0 - toE3 C 0)^c.1 * (z.2 1 - toE3 C 1)^c.2.1 * (z.2 2 - toE3 C 2)^c.2.2
          * exp (-γ * ‖z.2 - toE3 C‖^2) * exp (-δ * ‖z.2 - toE3 D‖^2)) / ‖z.1 - z.2‖ := by
    intro z
    unfold primFnE
    simp only [pow_zero, mul_one, one_mul]
  have e0 : ∀ v : ℕ → ℝ, (toE3 v) 0 = v 0 := fun _ => rfl
  have e1 : ∀ v : ℕ → ℝ, (toE3 v) 1 = v 1 := fun _ => rfl
  have e2 : ∀ v : ℕ → ℝ, (toE3 v) 2 = v 2 := fun _ => rfl
  unfold eriPrimInt eriQuartet
  simp_rw [hint]
  rw [h, E4_zero, norm_sq_toE3_sub, norm_sq_toE3_sub, norm_sq_toE3_sub]
  simp only [Espec, e0, e1, e2, neg_mul, pow_two]

/-- **One primitive quartet.**  For positive exponents the Rys form `eriQuartet` (prefactor times
the horizontal closure `E4` of `Espec` with the true Boys function) of four angular components
`a b c d` is the six-dimensional Coulomb integral of the four un-normalised Cartesian primitives
`(r-A)^a e^{-α|r-A|²}`, `(r-B)^b e^{-β|r-B|²}` (electron 1), `(r-C)^c e^{-γ|r-C|²}`,
`(r-D)^d e^{-δ|r-D|²}` (electron 2). -/
theorem eriQuartet_eq_integral {α β γ δ : ℝ} (hα : 0 < α) (hβ : 0 < β) (hγ : 0 < γ) (hδ : 0 < δ)
    (A B C D : ℕ → ℝ) (a b c d : Comp) :
    eriQuartet Real.exp Real.sqrt π boys α β γ δ A B C D a b c d
      = ∫ z : E3 × E3, primFnE α (toE3 A) a z.1 * primFnE β (toE3 B) b z.1
          * (primFnE γ (toE3 C) c z.2 * primFnE δ (toE3 D) d z.2) / ‖z.1 - z.2‖ :=
  (horiz4_unique (horizAB_eriPrimInt hα hβ hγ hδ A B C D) (horizCD_eriPrimInt hα hβ hγ hδ A B C D)
    (horizAB_eriQuartet Real.exp Real.sqrt π boys α β γ δ A B C D)
    (horizCD_eriQuartet Real.exp Real.sqrt π boys α β γ δ A B C D)
    (eriPrimInt_base hα hβ hγ hδ A B C D) a b c d).symm

/-- the same with the monomials and Gaussians written out -/
theorem eriQuartet_eq_integral' {α β γ δ : ℝ} (hα : 0 < α) (hβ : 0 < β) (hγ : 0 < γ) (hδ : 0 < δ)
    (A B C D : ℕ → ℝ) (a b c d : Comp) :
    eriQuartet Real.exp Real.sqrt π boys α β γ δ A B C D a b c d
      = ∫ z : E3 × E3,
          ((z.1 0 - A 0)^a.1 * (z.1 1 - A 1)^a.2.1 * (z.1 2 - A 2)^a.2.2
              * exp (-α * ‖z.1 - toE3 A‖^2))
            * ((z.1 0 - B 0)^b.1 * (z.1 1 - B 1)^b.2.1 * (z.1 2 - B 2)^b.2.2
              * exp (-β * ‖z.1 - toE3 B‖^2))
            * (((z.2 0 - C 0)^c.1 * (z.2 1 - C 1)^c.2.1 * (z.2 2 - C 2)^c.2.2
                * exp (-γ * ‖z.2 - toE3 C‖^2))
              * ((z.2 0 - D 0)^d.1 * (z.2 1 - D 1)^d.2.1 * (z.2 2 - D 2)^d.2.2
                * exp (-δ * ‖z.2 - toE3 D‖^2))) / ‖z.1 - z.2‖ :=
  eriQuartet_eq_integral hα hβ hγ hδ A B C D a b c d

/-- **`eriPrim`** (the quartet of primitives `ka kb kc kd` of four shells) is the Coulomb integral
of the four un-normalised primitives -/
theorem eriPrim_eq_integral (sa sb sc sd : Shell ℝ) (ka kb kc kd : ℕ)
    (ha : 0 < sa.exp! ka) (hb : 0 < sb.exp! kb) (hc : 0 < sc.exp! kc) (hd : 0 < sd.exp! kd)
    (a b c d : Comp) :
    eriPrim Real.exp Real.sqrt π boys sa sb sc sd ka kb kc kd a b c d
      = ∫ z : E3 × E3, primFnE (sa.exp! ka) (toE3 sa.ctr) a z.1 * primFnE (sb.exp! kb) (toE3 sb.ctr) b z.1
          * (primFnE (sc.exp! kc) (toE3 sc.ctr) c z.2 * primFnE (sd.exp! kd) (toE3 sd.ctr) d z.2)
          / ‖z.1 - z.2‖ :=
  eriQuartet_eq_integral ha hb hc hd sa.ctr sb.ctr sc.ctr sd.ctr a b c d

end Prim

/-! ## 3. The contracted block -/
section Block
open MeasureTheory Real

/-- the pair density of two contracted functions as a double sum over primitives -/
lemma pairDensity_expand (s t : Shell ℝ) (ma ca mb cb : ℕ) (r : E3) :
    pairDensity s t ma ca mb cb r
      = ∑ ka ∈ range s.nprim, ∑ kb ∈ range t.nprim,
          (s.coef! ka ma * normPrim (s.exp! ka) s.l (s.comp! ca)
            * (t.coef! kb mb * normPrim (t.exp! kb) t.l (t.comp! cb)))
          * (primFnE (s.exp! ka) (toE3 s.ctr) (s.comp! ca) r
              * primFnE (t.exp! kb) (toE3 t.ctr) (t.comp! cb) r) := by
  unfold pairDensity shellFnE
  rw [Finset.sum_mul_sum]
  refine Finset.sum_congr rfl fun ka _ => Finset.sum_congr rfl fun kb _ => ?_
  ring

/-- exchange of the four primitive sums with the six-dimensional integral -/
lemma integral_sum4 (nA nB nC nD : ℕ) (w1 : ℕ → ℕ → ℝ) (w2 : ℕ → ℕ → ℝ)
    (F : ℕ → ℕ → E3 → ℝ) (G : ℕ → ℕ → E3 → ℝ)
    (hint : ∀ ka kb kc kd, ka < nA → kb < nB → kc < nC → kd < nD →
      Integrable fun z : E3 × E3 => F ka kb z.1 * G kc kd z.2 / ‖z.1 - z.2‖) :
    ∫ z : E3 × E3, (∑ ka ∈ range nA, ∑ kb ∈ range nB, w1 ka kb * F ka kb z.1)
        * (∑ kc ∈ range nC, ∑ kd ∈ range nD, w2 kc kd * G kc kd z.2) / ‖z.1 - z.2‖
      = ∑ ka ∈ range nA, ∑ kb ∈ range nB, ∑ kc ∈ range nC, ∑ kd ∈ range nD,
          (w1 ka kb * w2 kc kd) * ∫ z : E3 × E3, F ka kb z.1 * G kc kd z.2 / ‖z.1 - z.2‖ := by
  have hpt : ∀ z : E3 × E3, (∑ ka ∈ range nA, ∑ kb ∈ range nB, w1 ka kb * F ka kb z.1)
        * (∑ kc ∈ range nC, ∑ kd ∈ range nD, w2 kc kd * G kc kd z.2) / ‖z.1 - z.2‖
      = ∑ ka ∈ range nA, ∑ kb ∈ range nB, ∑ kc ∈ range nC, ∑ kd ∈ range nD,
          (w1 ka kb * w2 kc kd) * (F ka kb z.1 * G kc kd z.2 / ‖z.1 - z.2‖) := by
    intro z
    rw [Finset.sum_mul, Finset.sum_div]
    refine Finset.sum_congr rfl fun ka _ => ?_
    rw [Finset.sum_mul, Finset.sum_div]
    refine Finset.sum_congr rfl fun kb _ => ?_
    rw [Finset.mul_sum, Finset.sum_div]
    refine Finset.sum_congr rfl fun kc _ => ?_
    rw [Finset.mul_sum, Finset.sum_div]
    refine Finset.sum_congr rfl fun kd _ => ?_
    ring
  simp_rw [hpt]
  have hI : ∀ ka kb kc kd, ka ∈ range nA → kb ∈ range nB → kc ∈ range nC → kd ∈ range nD →
      Integrable fun z : E3 × E3 =>
        (w1 ka kb * w2 kc kd) * (F ka kb z.1 * G kc kd z.2 / ‖z.1 - z.2‖) :=
    fun ka kb kc kd ha hb hc hd => (hint ka kb kc kd (Finset.mem_range.mp ha)
      (Finset.mem_range.mp hb) (Finset.mem_range.mp hc) (Finset.mem_range.mp hd)).const_mul _
  rw [integral_finsetSum _ fun ka ha => integrable_finsetSum _ fun kb hb =>
    integrable_finsetSum _ fun kc hc => integrable_finsetSum _ fun kd hd => hI ka kb kc kd ha hb hc hd]
  refine Finset.sum_congr rfl fun ka ha => ?_
  rw [integral_finsetSum _ fun kb hb =>
    integrable_finsetSum _ fun kc hc => integrable_finsetSum _ fun kd hd => hI ka kb kc kd ha hb hc hd]
  refine Finset.sum_congr rfl fun kb hb => ?_
  rw [integral_finsetSum _ fun kc hc => integrable_finsetSum _ fun kd hd => hI ka kb kc kd ha hb hc hd]
  refine Finset.sum_congr rfl fun kc hc => ?_
  rw [integral_finsetSum _ fun kd hd => hI ka kb kc kd ha hb hc hd]
  refine Finset.sum_congr rfl fun kd hd => ?_
  rw [integral_const_mul]

/-- **The contracted Rys form with the true Boys function is the exact electron-repulsion
integral** of the four contracted, primitive-normalised shell functions. -/
theorem eriRys_eq_eriExact (sa sb sc sd : Shell ℝ) (ma ca mb cb mc cc md cd : ℕ)
    (hsa : ∀ k, k < sa.nprim → 0 < sa.exp! k) (hsb : ∀ k, k < sb.nprim → 0 < sb.exp! k)
    (hsc : ∀ k, k < sc.nprim → 0 < sc.exp! k) (hsd : ∀ k, k < sd.nprim → 0 < sd.exp! k) :
    eriRys Real.exp Real.sqrt π boys sa sb sc sd ma ca mb cb mc cc md cd
      = eriExact sa sb sc sd ma ca mb cb mc cc md cd := by
  unfold eriExact
  simp_rw [pairDensity_expand]
  rw [integral_sum4 sa.nprim sb.nprim sc.nprim sd.nprim
    (fun ka kb => sa.coef! ka ma * normPrim (sa.exp! ka) sa.l (sa.comp! ca)
      * (sb.coef! kb mb * normPrim (sb.exp! kb) sb.l (sb.comp! cb)))
    (fun kc kd => sc.coef! kc mc * normPrim (sc.exp! kc) sc.l (sc.comp! cc)
      * (sd.coef! kd md * normPrim (sd.exp! kd) sd.l (sd.comp! cd)))
    (fun ka kb r => primFnE (sa.exp! ka) (toE3 sa.ctr) (sa.comp! ca) r
      * primFnE (sb.exp! kb) (toE3 sb.ctr) (sb.comp! cb) r)
    (fun kc kd r => primFnE (sc.exp! kc) (toE3 sc.ctr) (sc.comp! cc) r
      * primFnE (sd.exp! kd) (toE3 sd.ctr) (sd.comp! cd) r)
    (fun ka kb kc kd ha hb hc hd =>
      eriPrimInt_integrable (hsa ka ha) (hsb kb hb) (hsc kc hc) (hsd kd hd) _ _ _ _ _ _ _ _)]
  unfold eriRys eriContr
  simp only [Finset.sum_mul]
  refine Finset.sum_congr rfl fun ka hka => Finset.sum_congr rfl fun kb hkb =>
    Finset.sum_congr rfl fun kc hkc => Finset.sum_congr rfl fun kd hkd => ?_
  rw [eriPrim_eq_integral sa sb sc sd ka kb kc kd (hsa ka (Finset.mem_range.mp hka))
    (hsb kb (Finset.mem_range.mp hkb)) (hsc kc (Finset.mem_range.mp hkc))
    (hsd kd (Finset.mem_range.mp hkd))]
  unfold normPrim
  ring

/-- **Main theorem.**  With a Boys table whose entries are the true Boys function
`boys T m = ∫₀¹ t^{2m} e^{-T t²} dt`, for four shells with positive exponents every entry of
`eriBlock` (components of total degrees `≤ l`) is the exact six-dimensional electron-repulsion
integral `(ab|cd) = ∬ φ_a φ_b (r₁) φ_c φ_d (r₂) / |r₁-r₂|` of the contracted, primitive-normalised
shell functions. -/
theorem eriBlock_eq_integral (boysT : ℝ → ℕ → Tab ℝ)
    (hboys : ∀ T n m, m < n → (boysT T n).get m = boys T m)
    (sa sb sc sd : Shell ℝ) (ma ca mb cb mc cc md cd : ℕ)
    (hsa : ∀ k, k < sa.nprim → 0 < sa.exp! k) (hsb : ∀ k, k < sb.nprim → 0 < sb.exp! k)
    (hsc : ∀ k, k < sc.nprim → 0 < sc.exp! k) (hsd : ∀ k, k < sd.nprim → 0 < sd.exp! k)
    (ha : (sa.comp! ca).1 + (sa.comp! ca).2.1 + (sa.comp! ca).2.2 ≤ sa.l)
    (hb : (sb.comp! cb).1 + (sb.comp! cb).2.1 + (sb.comp! cb).2.2 ≤ sb.l)
    (hc : (sc.comp! cc).1 + (sc.comp! cc).2.1 + (sc.comp! cc).2.2 ≤ sc.l)
    (hd : (sd.comp! cd).1 + (sd.comp! cd).2.1 + (sd.comp! cd).2.2 ≤ sd.l) :
    (eriBlock boysT sa sb sc sd).get8 ma ca mb cb mc cc md cd
      = eriExact sa sb sc sd ma ca mb cb mc cc md cd := by
  have h1 := eriBlock_eq_rys Real.exp Real.sqrt π boysT boys sa sb sc sd ma ca mb cb mc cc md cd
    Real.sqrt_one (fun T m hm => hboys T _ m hm)
    (fun ka kb hka hkb => (add_pos (hsa ka hka) (hsb kb hkb)).ne')
    (fun kc kd hkc hkd => (add_pos (hsc kc hkc) (hsd kd hkd)).ne')
    (fun ka kb kc kd hka hkb hkc hkd =>
      (add_pos (add_pos (hsa ka hka) (hsb kb hkb)) (add_pos (hsc kc hkc) (hsd kd hkd))).ne')
    ha hb hc hd
  rw [h1]
  exact eriRys_eq_eriExact sa sb sc sd ma ca mb cb mc cc md cd hsa hsb hsc hsd

/-- the main theorem for the concrete table `boysReal` -/
theorem eriBlock_boysReal_eq_integral
    (sa sb sc sd : Shell ℝ) (ma ca mb cb mc cc md cd : ℕ)
    (hsa : ∀ k, k < sa.nprim → 0 < sa.exp! k) (hsb : ∀ k, k < sb.nprim → 0 < sb.exp! k)
    (hsc : ∀ k, k < sc.nprim → 0 < sc.exp! k) (hsd : ∀ k, k < sd.nprim → 0 < sd.exp! k)
    (ha : (sa.comp! ca).1 + (sa.comp! ca).2.1 + (sa.comp! ca).2.2 ≤ sa.l)
    (hb : (sb.comp! cb).1 + (sb.comp! cb).2.1 + (sb.comp! cb).2.2 ≤ sb.l)
    (hc : (sc.comp! cc).1 + (sc.comp! cc).2.1 + (sc.comp! cc).2.2 ≤ sc.l)
    (hd : (sd.comp! cd).1 + (sd.comp! cd).2.1 + (sd.comp! cd).2.2 ≤ sd.l) :
    (eriBlock boysReal sa sb sc sd).get8 ma ca mb cb mc cc md cd
      = eriExact sa sb sc sd ma ca mb cb mc cc md cd :=
  eriBlock_eq_integral boysReal (fun _ n m _ => tab_get n _ m) sa sb sc sd ma ca mb cb mc cc md cd
    hsa hsb hsc hsd ha hb hc hd

end Block

/-! ## 4. Corollaries for the code's block -/
section Corollaries
open MeasureTheory Real

/-- `(ab|ab) ≥ 0` for the entries computed by `eriBlock` -/
theorem eriBlock_self_nonneg (boysT : ℝ → ℕ → Tab ℝ)
    (hboys : ∀ T n m, m < n → (boysT T n).get m = boys T m)
    (sa sb : Shell ℝ) (ma ca mb cb : ℕ)
    (hsa : ∀ k, k < sa.nprim → 0 < sa.exp! k) (hsb : ∀ k, k < sb.nprim → 0 < sb.exp! k)
    (ha : (sa.comp! ca).1 + (sa.comp! ca).2.1 + (sa.comp! ca).2.2 ≤ sa.l)
    (hb : (sb.comp! cb).1 + (sb.comp! cb).2.1 + (sb.comp! cb).2.2 ≤ sb.l) :
    0 ≤ (eriBlock boysT sa sb sa sb).get8 ma ca mb cb ma ca mb cb := by
  rw [eriBlock_eq_integral boysT hboys sa sb sa sb ma ca mb cb ma ca mb cb hsa hsb hsa hsb
    ha hb ha hb]
  exact eriExact_self_nonneg sa sb ma ca mb cb hsa hsb

/-- **Schwarz screening bound** `|(ab|cd)| ≤ √(ab|ab) √(cd|cd)` for the entries computed by
`eriBlock` -/
theorem eriBlock_schwarz (boysT : ℝ → ℕ → Tab ℝ)
    (hboys : ∀ T n m, m < n → (boysT T n).get m = boys T m)
    (sa sb sc sd : Shell ℝ) (ma ca mb cb mc cc md cd : ℕ)
    (hsa : ∀ k, k < sa.nprim → 0 < sa.exp! k) (hsb : ∀ k, k < sb.nprim → 0 < sb.exp! k)
    (hsc : ∀ k, k < sc.nprim → 0 < sc.exp! k) (hsd : ∀ k, k < sd.nprim → 0 < sd.exp! k)
    (ha : (sa.comp! ca).1 + (sa.comp! ca).2.1 + (sa.comp! ca).2.2 ≤ sa.l)
    (hb : (sb.comp! cb).1 + (sb.comp! cb).2.1 + (sb.comp! cb).2.2 ≤ sb.l)
    (hc : (sc.comp! cc).1 + (sc.comp! cc).2.1 + (sc.comp! cc).2.2 ≤ sc.l)
    (hd : (sd.comp! cd).1 + (sd.comp! cd).2.1 + (sd.comp! cd).2.2 ≤ sd.l) :
    |(eriBlock boysT sa sb sc sd).get8 ma ca mb cb mc cc md cd|
      ≤ √((eriBlock boysT sa sb sa sb).get8 ma ca mb cb ma ca mb cb)
        * √((eriBlock boysT sc sd sc sd).get8 mc cc md cd mc cc md cd) := by
  rw [eriBlock_eq_integral boysT hboys sa sb sc sd ma ca mb cb mc cc md cd hsa hsb hsc hsd
      ha hb hc hd,
    eriBlock_eq_integral boysT hboys sa sb sa sb ma ca mb cb ma ca mb cb hsa hsb hsa hsb
      ha hb ha hb,
    eriBlock_eq_integral boysT hboys sc sd sc sd mc cc md cd mc cc md cd hsc hsd hsc hsd
      hc hd hc hd]
  exact eriExact_schwarz sa sb sc sd ma ca mb cb mc cc md cd hsa hsb hsc hsd

/-- **The electron-repulsion array computed by `eriBlock`, as a matrix over index pairs, is
positive semi-definite**: for any finite family of shell pairs and entries `(a_i, b_i)`,
`Σ_{ij} x_i (a_i b_i | a_j b_j) x_j ≥ 0`. -/
theorem eriBlock_psd {ι : Type*} [Fintype ι] (boysT : ℝ → ℕ → Tab ℝ)
    (hboys : ∀ T n m, m < n → (boysT T n).get m = boys T m)
    (sa sb : ι → Shell ℝ) (ma ca mb cb : ι → ℕ)
    (hsa : ∀ i, ∀ k, k < (sa i).nprim → 0 < (sa i).exp! k)
    (hsb : ∀ i, ∀ k, k < (sb i).nprim → 0 < (sb i).exp! k)
    (ha : ∀ i, ((sa i).comp! (ca i)).1 + ((sa i).comp! (ca i)).2.1 + ((sa i).comp! (ca i)).2.2
      ≤ (sa i).l)
    (hb : ∀ i, ((sb i).comp! (cb i)).1 + ((sb i).comp! (cb i)).2.1 + ((sb i).comp! (cb i)).2.2
      ≤ (sb i).l)
    (x : ι → ℝ) :
    0 ≤ ∑ i, ∑ j, x i * (eriBlock boysT (sa i) (sb i) (sa j) (sb j)).get8 (ma i) (ca i) (mb i) (cb i)
        (ma j) (ca j) (mb j) (cb j) * x j := by
  have h := eriExact_psd sa sb ma ca mb cb hsa hsb x
  refine h.trans_eq (Finset.sum_congr rfl fun i _ => Finset.sum_congr rfl fun j _ => ?_)
  rw [eriBlock_eq_integral boysT hboys (sa i) (sb i) (sa j) (sb j) (ma i) (ca i) (mb i) (cb i)
    (ma j) (ca j) (mb j) (cb j) (hsa i) (hsb i) (hsa j) (hsb j) (ha i) (hb i) (ha j) (hb j)]

/-! ### The eight-fold symmetry of the exact integrals -/

lemma pairDensity_comm (s t : Shell ℝ) (ma ca mb cb : ℕ) :
    pairDensity s t ma ca mb cb = pairDensity t s mb cb ma ca := by
  funext r; unfold pairDensity; ring

/-- `(ab|cd) = (ba|cd)` -/
theorem eriExact_swap_ab (sa sb sc sd : Shell ℝ) (ma ca mb cb mc cc md cd : ℕ) :
    eriExact sa sb sc sd ma ca mb cb mc cc md cd = eriExact sb sa sc sd mb cb ma ca mc cc md cd := by
  unfold eriExact; rw [pairDensity_comm sa sb]

/-- `(ab|cd) = (ab|dc)` -/
theorem eriExact_swap_cd (sa sb sc sd : Shell ℝ) (ma ca mb cb mc cc md cd : ℕ) :
    eriExact sa sb sc sd ma ca mb cb mc cc md cd = eriExact sa sb sd sc ma ca mb cb md cd mc cc := by
  unfold eriExact; rw [pairDensity_comm sc sd]

/-- `(ab|cd) = (cd|ab)` (exchange of the two electrons) -/
theorem eriExact_swap_electrons (sa sb sc sd : Shell ℝ) (ma ca mb cb mc cc md cd : ℕ) :
    eriExact sa sb sc sd ma ca mb cb mc cc md cd = eriExact sc sd sa sb mc cc md cd ma ca mb cb := by
  unfold eriExact
  rw [show (volume : Measure (E3 × E3)) = (volume : Measure E3).prod volume from rfl,
    ← integral_prod_swap (fun p : E3 × E3 => pairDensity sa sb ma ca mb cb p.1
      * pairDensity sc sd mc cc md cd p.2 / ‖p.1 - p.2‖)]
  refine integral_congr_ae (Filter.Eventually.of_forall fun p => ?_)
  simp only [Prod.fst_swap, Prod.snd_swap]
  rw [norm_sub_rev, mul_comm]

/-- `eriBlock` inherits `(ab|cd) = (ba|cd)` -/
theorem eriBlock_swap_ab (boysT : ℝ → ℕ → Tab ℝ)
    (hboys : ∀ T n m, m < n → (boysT T n).get m = boys T m)
    (sa sb sc sd : Shell ℝ) (ma ca mb cb mc cc md cd : ℕ)
    (hsa : ∀ k, k < sa.nprim → 0 < sa.exp! k) (hsb : ∀ k, k < sb.nprim → 0 < sb.exp! k)
    (hsc : ∀ k, k < sc.nprim → 0 < sc.exp! k) (hsd : ∀ k, k < sd.nprim → 0 < sd.exp! k)
    (ha : (sa.comp! ca).1 + (sa.comp! ca).2.1 + (sa.comp! ca).2.2 ≤ sa.l)
    (hb : (sb.comp! cb).1 + (sb.comp! cb).2.1 + (sb.comp! cb).2.2 ≤ sb.l)
    (hc : (sc.comp! cc).1 + (sc.comp! cc).2.1 + (sc.comp! cc).2.2 ≤ sc.l)
    (hd : (sd.comp! cd).1 + (sd.comp! cd).2.1 + (sd.comp! cd).2.2 ≤ sd.l) :
    (eriBlock boysT sa sb sc sd).get8 ma ca mb cb mc cc md cd
      = (eriBlock boysT sb sa sc sd).get8 mb cb ma ca mc cc md cd := by
  rw [eriBlock_eq_integral boysT hboys sa sb sc sd ma ca mb cb mc cc md cd hsa hsb hsc hsd
      ha hb hc hd,
    eriBlock_eq_integral boysT hboys sb sa sc sd mb cb ma ca mc cc md cd hsb hsa hsc hsd
      hb ha hc hd]
  exact eriExact_swap_ab ..

/-- `eriBlock` inherits `(ab|cd) = (ab|dc)` -/
theorem eriBlock_swap_cd (boysT : ℝ → ℕ → Tab ℝ)
    (hboys : ∀ T n m, m < n → (boysT T n).get m = boys T m)
    (sa sb sc sd : Shell ℝ) (ma ca mb cb mc cc md cd : ℕ)
    (hsa : ∀ k, k < sa.nprim → 0 < sa.exp! k) (hsb : ∀ k, k < sb.nprim → 0 < sb.exp! k)
    (hsc : ∀ k, k < sc.nprim → 0 < sc.exp! k) (hsd : ∀ k, k < sd.nprim → 0 < sd.exp! k)
    (ha : (sa.comp! ca).1 + (sa.comp! ca).2.1 + (sa.comp! ca).2.2 ≤ sa.l)
    (hb : (sb.comp! cb).1 + (sb.comp! cb).2.1 + (sb.comp! cb).2.2 ≤ sb.l)
    (hc : (sc.comp! cc).1 + (sc.comp! cc).2.1 + (sc.comp! cc).2.2 ≤ sc.l)
    (hd : (sd.comp! cd).1 + (sd.comp! cd).2.1 + (sd.comp! cd).2.2 ≤ sd.l) :
    (eriBlock boysT sa sb sc sd).get8 ma ca mb cb mc cc md cd
      = (eriBlock boysT sa sb sd sc).get8 ma ca mb cb md cd mc cc := by
  rw [eriBlock_eq_integral boysT hboys sa sb sc sd ma ca mb cb mc cc md cd hsa hsb hsc hsd
      ha hb hc hd,
    eriBlock_eq_integral boysT hboys sa sb sd sc ma ca mb cb md cd mc cc hsa hsb hsd hsc
      ha hb hd hc]
  exact eriExact_swap_cd ..

/-- `eriBlock` inherits `(ab|cd) = (cd|ab)` -/
theorem eriBlock_swap_electrons (boysT : ℝ → ℕ → Tab ℝ)
    (hboys : ∀ T n m, m < n → (boysT T n).get m = boys T m)
    (sa sb sc sd : Shell ℝ) (ma ca mb cb mc cc md cd : ℕ)
    (hsa : ∀ k, k < sa.nprim → 0 < sa.exp! k) (hsb : ∀ k, k < sb.nprim → 0 < sb.exp! k)
    (hsc : ∀ k, k < sc.nprim → 0 < sc.exp! k) (hsd : ∀ k, k < sd.nprim → 0 < sd.exp! k)
    (ha : (sa.comp! ca).1 + (sa.comp! ca).2.1 + (sa.comp! ca).2.2 ≤ sa.l)
    (hb : (sb.comp! cb).1 + (sb.comp! cb).2.1 + (sb.comp! cb).2.2 ≤ sb.l)
    (hc : (sc.comp! cc).1 + (sc.comp! cc).2.1 + (sc.comp! cc).2.2 ≤ sc.l)
    (hd : (sd.comp! cd).1 + (sd.comp! cd).2.1 + (sd.comp! cd).2.2 ≤ sd.l) :
    (eriBlock boysT sa sb sc sd).get8 ma ca mb cb mc cc md cd
      = (eriBlock boysT sc sd sa sb).get8 mc cc md cd ma ca mb cb := by
  rw [eriBlock_eq_integral boysT hboys sa sb sc sd ma ca mb cb mc cc md cd hsa hsb hsc hsd
      ha hb hc hd,
    eriBlock_eq_integral boysT hboys sc sd sa sb mc cc md cd ma ca mb cb hsc hsd hsa hsb
      hc hd ha hb]
  exact eriExact_swap_electrons ..

end Corollaries

end GB

