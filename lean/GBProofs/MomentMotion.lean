import GBProofs.AngMom

/-!
# Multipole-moment blocks under rigid motions (C12): a Cartesian tensor

`momentBlock s t O orders` holds, for every exponent triple `o` of the list `orders`, the integrals
`∫ φ_a (r - O)^o φ_b`.  When the two shells **and the origin `O`** are carried along by the same
affine isometry `g` (linear part `R`), the blocks of a full list of orders of total degree `n`
transform as a Cartesian tensor of rank `n` on the order index and by the representation matrices of
the two shells on the two component indices.

* `momentBlock_eq_integral_E3` : the entry as an integral over `E3` of `shellFnE`, `monoE`.
* `monoRep R orders d d'` : coefficient of the (un-normalised) monomial `u^{orders[d']}` in
  `(R u)^{orders[d]}`; `repMat_eq_monoRep` (the representation matrix of a shell is the normalised
  version); `monoRep_order0` (`= 1`), `monoRep_order1` (`= matOf R`: the dipole is a vector);
  `monoRep_id` (Kronecker delta for the identity).
* `momentBlock_moved` : the covariance theorem; `overlap`-like and dipole corollaries
  `momentBlock_moved_order0`, `momentBlock_moved_order1`.
* `momentBlock_moved_of_linear_eq_id`, `momentBlock_moved_translation` : invariance when the linear
  part is trivial (every order list, every component list).
-/
open MeasureTheory Real Finset

namespace GB

section MomentMotion
open MvPolynomial

/-! ## 1. The block as an integral over `E3` -/

lemma monoFn_e3Equiv (O : ℕ → ℝ) (o : Comp) (r : E3) :
    monoFn O o (e3Equiv r) = monoE o (fun i : Fin 3 => r i - O i) := rfl

/-- the integrand of every moment integral over `E3` is integrable -/
lemma integrable_shellFnE_mono_mul (s t : Shell ℝ) (O : ℕ → ℝ) (o : Comp) (ma ca mb cb : ℕ)
    (hs : ∀ k < s.nprim, 0 < s.exp! k) (ht : ∀ k < t.nprim, 0 < t.exp! k) :
    Integrable fun r : E3 =>
      shellFnE s ma ca r * monoE o (fun i : Fin 3 => r i - O i) * shellFnE t mb cb r := by
  have h := (e3Equiv_measurePreserving.integrable_comp_emb e3Equiv.measurableEmbedding).mpr
    (integrable_shell_mul s t O o ma ca mb cb hs ht)
  refine h.congr (Filter.Eventually.of_forall fun r => ?_)
  simp only [Function.comp_apply, shellFn_e3Equiv, monoFn_e3Equiv]
  ring

/-- **The multipole-moment block as an integral over `E3`**: entry `d` of the block list is
`∫ φ_a (r - O)^{o_d} φ_b` with `o_d` the `d`-th order triple (outside the list the model uses the
order `(0,0,0)`, so no bound on `d` is needed; see `momentBlock_eq_integral_E3'` for the spelling
`orders[d]`). -/
theorem momentBlock_eq_integral_E3 (s t : Shell ℝ) (O : ℕ → ℝ) (orders : List Comp)
    (d ma ca mb cb : ℕ)
    (hs : ∀ k < s.nprim, 0 < s.exp! k) (ht : ∀ k < t.nprim, 0 < t.exp! k) :
    ((momentBlock s t O orders).get d).get4 ma ca mb cb
      = ∫ r : E3, shellFnE s ma ca r
          * monoE (orders.getD d (0,0,0)) (fun i : Fin 3 => r i - O i) * shellFnE t mb cb r := by
  rw [momentBlock_eq_integral_mono s t O orders d ma ca mb cb hs ht,
    ← e3Equiv_measurePreserving.integral_comp'
      (fun r => shellFn s ma ca r * shellFn t mb cb r * monoFn O (orders.getD d (0,0,0)) r)]
  refine integral_congr_ae (Filter.Eventually.of_forall fun r => ?_)
  simp only [shellFn_e3Equiv, monoFn_e3Equiv]
  ring

/-- the same with `orders[d]` for an index inside the list -/
theorem momentBlock_eq_integral_E3' (s t : Shell ℝ) (O : ℕ → ℝ) (orders : List Comp)
    (d ma ca mb cb : ℕ) (hd : d < orders.length)
    (hs : ∀ k < s.nprim, 0 < s.exp! k) (ht : ∀ k < t.nprim, 0 < t.exp! k) :
    ((momentBlock s t O orders).get d).get4 ma ca mb cb
      = ∫ r : E3, shellFnE s ma ca r
          * monoE (orders[d]) (fun i : Fin 3 => r i - O i) * shellFnE t mb cb r := by
  rw [momentBlock_eq_integral_E3 s t O orders d ma ca mb cb hs ht,
    ← List.getElem_eq_getD (h := hd) (0,0,0)]

/-! ## 2. The tensor representation on the order index -/

/-- **the representation of a linear map `R` on the monomials of an order list**:
`monoRep R orders d d'` is the coefficient of the un-normalised monomial `u^{orders[d']}` in
`(R u)^{orders[d]}`.  It depends on `R` and the order list only. -/
noncomputable def monoRep (R : E3 →ₗ[ℝ] E3) (orders : List Comp) (d d' : ℕ) : ℝ :=
  rotCoef R (orders.getD d (0,0,0)) (orders.getD d' (0,0,0))

/-- the representation matrix of a shell is the normalised version of `monoRep` -/
theorem repMat_eq_monoRep (R : E3 →ₗ[ℝ] E3) (cart : List Comp) (c c' : ℕ) :
    repMat R cart c c'
      = monoRep R cart c c' * normAng (cart.getD c (0,0,0)) / normAng (cart.getD c' (0,0,0)) := rfl

/-- **defining property of `monoRep`**: for a full list of orders of total degree `n`,
`(R u)^{orders[d]} = Σ_{d'} monoRep R orders d d' · u^{orders[d']}` -/
theorem monoE_rot_eq_monoRep (R : E3 →ₗ[ℝ] E3) {n : ℕ} {orders : List Comp}
    (hf : FullCart n orders) {d : ℕ} (hd : d < orders.length) (u : E3) :
    monoE (orders.getD d (0,0,0)) (fun i => R u i)
      = ∑ d' ∈ range orders.length,
          monoRep R orders d d' * monoE (orders.getD d' (0,0,0)) (fun i => u i) :=
  monoE_rot_expand R hf _ (hf.degree hd) u

/-- order `0` (`orders = [(0,0,0)]`, the overlap): the representation is `1` -/
theorem monoRep_order0 (R : E3 →ₗ[ℝ] E3) : monoRep R [(0,0,0)] 0 0 = 1 := by
  simp [monoRep, rotCoef, rotPoly, compFs_000]

/-- order `1` (`orders = [x, y, z]`, the dipole): the representation is the matrix of `R` itself —
the dipole is a vector -/
theorem monoRep_order1 (R : E3 →ₗ[ℝ] E3) (i j : Fin 3) :
    monoRep R [(1,0,0), (0,1,0), (0,0,1)] i j = matOf R i j := by
  fin_cases i <;> fin_cases j <;>
    simp [monoRep, rotCoef, rotPoly, compFs_100, compFs_010, compFs_001, coeff_single_rotLin]

/-- the same for the library's default order of the degree-one triples -/
theorem monoRep_defaultCart1 (R : E3 →ₗ[ℝ] E3) (i j : Fin 3) :
    monoRep R (defaultCart 1) i j = matOf R i j := by
  have hc : defaultCart 1 = [(1,0,0), (0,1,0), (0,0,1)] := by decide
  rw [hc, monoRep_order1]

theorem monoRep_defaultCart0 (R : E3 →ₗ[ℝ] E3) : monoRep R (defaultCart 0) 0 0 = 1 := by
  have hc : defaultCart 0 = [(0,0,0)] := by decide
  rw [hc, monoRep_order0]

lemma matOf_of_id (R : E3 →ₗ[ℝ] E3) (hR : ∀ u, R u = u) (i j : Fin 3) :
    matOf R i j = if i = j then 1 else 0 := by
  unfold matOf
  rw [hR]
  simp

lemma rotLin_of_id (R : E3 →ₗ[ℝ] E3) (hR : ∀ u, R u = u) (i : Fin 3) :
    rotLin (matOf R) i = X i := by
  unfold rotLin
  simp only [matOf_of_id R hR]
  rw [Finset.sum_eq_single i]
  · simp
  · intro j _ hji
    simp [Ne.symm hji]
  · simp

lemma rotPoly_of_id (R : E3 →ₗ[ℝ] E3) (hR : ∀ u, R u = u) (c : Comp) :
    rotPoly (matOf R) c = monomial (compFs c) 1 := by
  unfold rotPoly
  simp only [rotLin_of_id R hR]
  rw [monomial_eq]
  simp only [C_1, one_mul]
  rw [Finsupp.prod_fintype _ _ (fun i => pow_zero _), Fin.prod_univ_three]
  simp only [compFs_zero, compFs_one, compFs_two]

/-- a linear map that acts as the identity is represented by the Kronecker delta of the order
triples (the identity matrix when the order list has no duplicates) -/
theorem monoRep_id (R : E3 →ₗ[ℝ] E3) (hR : ∀ u, R u = u) (orders : List Comp) (d d' : ℕ) :
    monoRep R orders d d'
      = if orders.getD d (0,0,0) = orders.getD d' (0,0,0) then 1 else 0 := by
  classical
  unfold monoRep rotCoef
  rw [rotPoly_of_id R hR, coeff_monomial]
  by_cases h : orders.getD d (0,0,0) = orders.getD d' (0,0,0)
  · rw [if_pos h, if_pos (congrArg compFs h)]
  · rw [if_neg h, if_neg]
    exact fun h' => h (compFs_injective h')

/-- for a duplicate-free order list and indices inside the list: the identity matrix -/
theorem monoRep_id_nodup (R : E3 →ₗ[ℝ] E3) (hR : ∀ u, R u = u) (orders : List Comp)
    (hnd : orders.Nodup) {d d' : ℕ} (hd : d < orders.length) (hd' : d' < orders.length) :
    monoRep R orders d d' = if d = d' then 1 else 0 := by
  rw [monoRep_id R hR]
  rw [← List.getElem_eq_getD (h := hd) (0,0,0), ← List.getElem_eq_getD (h := hd') (0,0,0)]
  by_cases h : d = d'
  · subst h; simp
  · rw [if_neg h, if_neg]
    intro h'
    exact h ((List.Nodup.getElem_inj_iff hnd).mp h')

lemma linPart_translation (v u : E3) : linPart (translation v) u = u := by
  unfold linPart
  simp only [LinearEquiv.coe_coe, LinearIsometryEquiv.coe_toLinearEquiv]
  exact translation_linear v u

/-! ## 3. The moved origin and the pointwise covariance of the moment monomial -/

/-- the coordinates of the moved origin are those of the image point -/
lemma movedPt_coord (g : E3 → E3) (O : ℕ → ℝ) (i : Fin 3) :
    movedPt g O i = g (toE3 O) i := by
  show toE3 (movedPt g O) i = _
  rw [toE3_movedPt]

/-- the displacement from the moved origin is the linear part applied to the displacement from the
origin -/
lemma moved_disp (g : E3 ≃ᵃⁱ[ℝ] E3) (O : ℕ → ℝ) (r : E3) (i : Fin 3) :
    g r i - movedPt g O i = linPart g (r - toE3 O) i := by
  rw [movedPt_coord, ← PiLp.sub_apply, affineIso_sub]
  rfl

/-- **the moment monomial at the image point about the image origin** is the `monoRep`-combination of
the moment monomials at the original point about the original origin -/
theorem momentMono_moved (g : E3 ≃ᵃⁱ[ℝ] E3) {n : ℕ} {orders : List Comp} (hf : FullCart n orders)
    (O : ℕ → ℝ) {d : ℕ} (hd : d < orders.length) (r : E3) :
    monoE (orders.getD d (0,0,0)) (fun i : Fin 3 => g r i - movedPt g O i)
      = ∑ d' ∈ range orders.length, monoRep (linPart g) orders d d'
          * monoE (orders.getD d' (0,0,0)) (fun i : Fin 3 => r i - O i) := by
  simp only [moved_disp]
  rw [monoE_rot_eq_monoRep (linPart g) hf hd (r - toE3 O)]
  simp only [PiLp.sub_apply, toE3_apply]

/-! ## 4. The covariance theorem -/

/-- **C12, multipole moments under a rigid motion: a Cartesian tensor.**  Moving both shells and the
origin of the moments by the same affine isometry `g` (translation, proper or improper rotation; linear
part `R = linPart g`): for a full list `orders` of the order triples of total degree `n`
(`FullCart n orders`) the blocks of the moved system are
`M'_d[ma ca mb cb] = Σ_{d'} T_{dd'} Σ_{ca', cb'} D^s_{ca ca'} D^t_{cb cb'} M_{d'}[ma ca' mb cb']`
with `T = monoRep R orders` (the rank-`n` symmetric tensor representation in the monomial basis) and
`D = repMat R` the representation matrices of the two shells.

Hypotheses forced by the mathematics: `d < orders.length` (outside the list the model uses the order
`(0,0,0)`, which is not of degree `n`), `ca`, `cb` inside the component lists, full component lists
(a rotated monomial needs all monomials of its degree), positive exponents (integrability). -/
theorem momentBlock_moved (g : E3 ≃ᵃⁱ[ℝ] E3) (s t : Shell ℝ) (O : ℕ → ℝ) {n : ℕ}
    (orders : List Comp) (d ma ca mb cb : ℕ)
    (hs : ∀ k, k < s.nprim → 0 < s.exp! k) (ht : ∀ k, k < t.nprim → 0 < t.exp! k)
    (hfs : FullCart s.l s.cart) (hft : FullCart t.l t.cart) (hfo : FullCart n orders)
    (hd : d < orders.length) (hca : ca < s.ncart) (hcb : cb < t.ncart) :
    ((momentBlock (s.moved g) (t.moved g) (movedPt g O) orders).get d).get4 ma ca mb cb
      = ∑ d' ∈ range orders.length, ∑ ca' ∈ range s.ncart, ∑ cb' ∈ range t.ncart,
          monoRep (linPart g) orders d d'
            * repMat (linPart g) s.cart ca ca' * repMat (linPart g) t.cart cb cb'
            * ((momentBlock s t O orders).get d').get4 ma ca' mb cb' := by
  rw [momentBlock_eq_integral_E3 (s.moved g) (t.moved g) (movedPt g O) orders d ma ca mb cb hs ht]
  have h := lift_core (affineIso_measurePreserving g) (affineIso_measurableEmbedding g)
    (range orders.length ×ˢ (range s.ncart ×ˢ range t.ncart))
    (fun r => shellFnE (s.moved g) ma ca r
      * monoE (orders.getD d (0,0,0)) (fun i : Fin 3 => r i - movedPt g O i)
      * shellFnE (t.moved g) mb cb r)
    (fun x r => shellFnE s ma x.2.1 r
      * monoE (orders.getD x.1 (0,0,0)) (fun i : Fin 3 => r i - O i) * shellFnE t mb x.2.2 r)
    (fun x => monoRep (linPart g) orders d x.1
      * repMat (linPart g) s.cart ca x.2.1 * repMat (linPart g) t.cart cb x.2.2)
    (fun r => by
      rw [shellFnE_moved g s hfs ma ca hca, shellFnE_moved g t hft mb cb hcb,
        momentMono_moved g hfo O hd r, Finset.sum_product, mul_comm (∑ c' ∈ range s.ncart, _),
        Finset.sum_mul, Finset.sum_mul]
      refine Finset.sum_congr rfl fun j _ => ?_
      rw [Finset.sum_product, mul_assoc, Finset.sum_mul_sum, Finset.mul_sum]
      refine Finset.sum_congr rfl fun a _ => ?_
      rw [Finset.mul_sum]
      refine Finset.sum_congr rfl fun l _ => ?_
      ring)
    (fun x _ => integrable_shellFnE_mono_mul s t O _ ma x.2.1 mb x.2.2 hs ht)
  rw [h, Finset.sum_product]
  refine Finset.sum_congr rfl fun j _ => ?_
  rw [Finset.sum_product]
  refine Finset.sum_congr rfl fun a _ => Finset.sum_congr rfl fun l _ => ?_
  rw [momentBlock_eq_integral_E3 s t O orders j ma a mb l hs ht]

/-- **order 0** (`orders = [(0,0,0)]`): the block transforms like the overlap, by the representation
matrices of the two shells only -/
theorem momentBlock_moved_order0 (g : E3 ≃ᵃⁱ[ℝ] E3) (s t : Shell ℝ) (O : ℕ → ℝ)
    (ma ca mb cb : ℕ)
    (hs : ∀ k, k < s.nprim → 0 < s.exp! k) (ht : ∀ k, k < t.nprim → 0 < t.exp! k)
    (hfs : FullCart s.l s.cart) (hft : FullCart t.l t.cart)
    (hca : ca < s.ncart) (hcb : cb < t.ncart) :
    ((momentBlock (s.moved g) (t.moved g) (movedPt g O) [(0,0,0)]).get 0).get4 ma ca mb cb
      = ∑ ca' ∈ range s.ncart, ∑ cb' ∈ range t.ncart,
          repMat (linPart g) s.cart ca ca' * repMat (linPart g) t.cart cb cb'
            * ((momentBlock s t O [(0,0,0)]).get 0).get4 ma ca' mb cb' := by
  have hfo : FullCart 0 [(0,0,0)] := by
    have h := fullCart_defaultCart 0
    have hc : defaultCart 0 = [(0,0,0)] := by decide
    rwa [hc] at h
  rw [momentBlock_moved g s t O [(0,0,0)] 0 ma ca mb cb hs ht hfs hft hfo (by simp) hca hcb]
  simp only [List.length_cons, List.length_nil, Finset.sum_range_one, monoRep_order0, one_mul,
    zero_add]

/-- **order 1** (`orders = [x, y, z]`): **the dipole block is a vector** — the three blocks of the
moved system are `R` applied to the vector of the three original blocks (and the representation matrices
of the two shells on the component indices) -/
theorem momentBlock_moved_order1 (g : E3 ≃ᵃⁱ[ℝ] E3) (s t : Shell ℝ) (O : ℕ → ℝ) (k : Fin 3)
    (ma ca mb cb : ℕ)
    (hs : ∀ k, k < s.nprim → 0 < s.exp! k) (ht : ∀ k, k < t.nprim → 0 < t.exp! k)
    (hfs : FullCart s.l s.cart) (hft : FullCart t.l t.cart)
    (hca : ca < s.ncart) (hcb : cb < t.ncart) :
    ((momentBlock (s.moved g) (t.moved g) (movedPt g O) [(1,0,0), (0,1,0), (0,0,1)]).get k).get4
        ma ca mb cb
      = ∑ j : Fin 3, matOf (linPart g) k j *
          ∑ ca' ∈ range s.ncart, ∑ cb' ∈ range t.ncart,
            repMat (linPart g) s.cart ca ca' * repMat (linPart g) t.cart cb cb'
              * ((momentBlock s t O [(1,0,0), (0,1,0), (0,0,1)]).get j).get4 ma ca' mb cb' := by
  have hfo : FullCart 1 [(1,0,0), (0,1,0), (0,0,1)] := by
    have h := fullCart_defaultCart 1
    have hc : defaultCart 1 = [(1,0,0), (0,1,0), (0,0,1)] := by decide
    rwa [hc] at h
  rw [momentBlock_moved g s t O _ k ma ca mb cb hs ht hfs hft hfo
    (by simp only [List.length_cons, List.length_nil]; omega) hca hcb]
  have hlen : ([(1,0,0), (0,1,0), (0,0,1)] : List Comp).length = 3 := rfl
  rw [hlen, ← Fin.sum_univ_eq_sum_range
    (fun d' => ∑ ca' ∈ range s.ncart, ∑ cb' ∈ range t.ncart,
      monoRep (linPart g) [(1,0,0), (0,1,0), (0,0,1)] k d'
        * repMat (linPart g) s.cart ca ca' * repMat (linPart g) t.cart cb cb'
        * ((momentBlock s t O [(1,0,0), (0,1,0), (0,0,1)]).get d').get4 ma ca' mb cb') 3]
  refine Finset.sum_congr rfl fun j _ => ?_
  rw [Finset.mul_sum]
  refine Finset.sum_congr rfl fun a _ => ?_
  rw [Finset.mul_sum]
  refine Finset.sum_congr rfl fun l _ => ?_
  rw [monoRep_order1]
  ring

/-! ## 5. Trivial linear part: translations -/

/-- **Invariance of the moment blocks under rigid motions with trivial linear part**, the origin
moving with the shells: every order list (no fullness, `d` arbitrary), every component list. -/
theorem momentBlock_moved_of_linear_eq_id (g : E3 ≃ᵃⁱ[ℝ] E3)
    (hg : ∀ u, g.linearIsometryEquiv u = u) (s t : Shell ℝ) (O : ℕ → ℝ) (orders : List Comp)
    (d ma ca mb cb : ℕ)
    (hs : ∀ k, k < s.nprim → 0 < s.exp! k) (ht : ∀ k, k < t.nprim → 0 < t.exp! k) :
    ((momentBlock (s.moved g) (t.moved g) (movedPt g O) orders).get d).get4 ma ca mb cb
      = ((momentBlock s t O orders).get d).get4 ma ca mb cb := by
  rw [momentBlock_eq_integral_E3 (s.moved g) (t.moved g) (movedPt g O) orders d ma ca mb cb hs ht,
    momentBlock_eq_integral_E3 s t O orders d ma ca mb cb hs ht]
  have h := lift_core (affineIso_measurePreserving g) (affineIso_measurableEmbedding g)
    (univ : Finset Unit)
    (fun r => shellFnE (s.moved g) ma ca r
      * monoE (orders.getD d (0,0,0)) (fun i : Fin 3 => r i - movedPt g O i)
      * shellFnE (t.moved g) mb cb r)
    (fun _ r => shellFnE s ma ca r
      * monoE (orders.getD d (0,0,0)) (fun i : Fin 3 => r i - O i) * shellFnE t mb cb r)
    (fun _ => 1)
    (fun r => by
      have e : ∀ i : Fin 3, g r i - movedPt g O i = r i - O i := by
        intro i
        rw [moved_disp]
        unfold linPart
        simp only [LinearEquiv.coe_coe, LinearIsometryEquiv.coe_toLinearEquiv, hg,
          PiLp.sub_apply, toE3_apply]
      simp [shellFnE_moved_of_linear_eq_id g hg, e])
    (fun _ _ => integrable_shellFnE_mono_mul s t O _ ma ca mb cb hs ht)
  rw [h]
  simp

/-- **Translation invariance of the moment blocks** (shells and origin translated by `v`): all
representation matrices are the identity, the block is unchanged -/
theorem momentBlock_moved_translation (v : E3) (s t : Shell ℝ) (O : ℕ → ℝ) (orders : List Comp)
    (d ma ca mb cb : ℕ)
    (hs : ∀ k, k < s.nprim → 0 < s.exp! k) (ht : ∀ k, k < t.nprim → 0 < t.exp! k) :
    ((momentBlock (s.moved (translation v)) (t.moved (translation v))
        (movedPt (translation v) O) orders).get d).get4 ma ca mb cb
      = ((momentBlock s t O orders).get d).get4 ma ca mb cb :=
  momentBlock_moved_of_linear_eq_id (translation v) (translation_linear v) s t O orders
    d ma ca mb cb hs ht

/-- for a translation the tensor representation on the order index is the identity matrix -/
theorem monoRep_translation (v : E3) (orders : List Comp) (hnd : orders.Nodup) {d d' : ℕ}
    (hd : d < orders.length) (hd' : d' < orders.length) :
    monoRep (linPart (translation v)) orders d d' = if d = d' then 1 else 0 :=
  monoRep_id_nodup _ (linPart_translation v) orders hnd hd hd'

end MomentMotion

end GB
