import GBModel.Forms
import Mathlib.RingTheory.Derivation.Basic
import Mathlib.Algebra.Module.LinearMap.End
import Mathlib.Algebra.BigOperators.Intervals
import Mathlib.Algebra.BigOperators.Fin
import Mathlib.Data.Nat.Choose.Sum
import Mathlib.Algebra.MvPolynomial.PDeriv
import Mathlib.Algebra.Polynomial.Derivative
import Mathlib.Tactic.Ring
import Mathlib.Tactic.Module
import Mathlib.Tactic.Abel
import Mathlib.Tactic.Linarith
import Mathlib.Tactic.FinCases

/-!
# `density.py` / `stress_tensor.py`: the forms of `GBModel.Forms` are the documented quantities
-/

open Finset

namespace GB

/-! ## Pure lemmas -/

theorem choose_eq_nat (n k : ℕ) : GB.choose n k = Nat.choose n k := by
  induction n generalizing k with
  | zero => cases k <;> simp [GB.choose]
  | succ n ih => cases k with
    | zero => simp [GB.choose]
    | succ k => simp [GB.choose, ih, Nat.choose_succ_succ]

/-- the symmetry shortcut of `evaluate_deriv_density`: sum over the lower half with factor 2,
    the middle term of an even order counted once -/
theorem half_sum {M : Type*} [AddCommMonoid M] (L : ℕ) (f : ℕ → M)
    (hsym : ∀ l, l ≤ L → f (L - l) = f l) :
    ∑ l ∈ range (L + 1), f l
      = ∑ l ∈ range (L / 2 + 1), (if L % 2 = 0 ∧ 2 * l = L then 1 else 2) • f l := by
  obtain ⟨k, rfl | rfl⟩ := Nat.even_or_odd' L
  · have h1 : (2 * k) / 2 + 1 = k + 1 := by omega
    rw [h1, Finset.sum_range_succ _ k]
    have hmid : (if (2 * k) % 2 = 0 ∧ 2 * k = 2 * k then 1 else 2) • f k = f k := by simp
    rw [hmid]
    have hlow : ∑ l ∈ range k, (if (2 * k) % 2 = 0 ∧ 2 * l = 2 * k then 1 else 2) • f l
        = 2 • ∑ l ∈ range k, f l := by
      rw [Finset.smul_sum]; apply Finset.sum_congr rfl
      intro l hl; simp at hl
      have : ¬ (2 * l = 2 * k) := by omega
      simp [this]
    rw [hlow]
    have hsplit : ∑ l ∈ range (2 * k + 1), f l
        = ∑ l ∈ range k, f l + f k + ∑ l ∈ range k, f (k + 1 + l) := by
      have : 2 * k + 1 = (k + 1) + k := by ring
      rw [this, Finset.sum_range_add, Finset.sum_range_succ]
    have hupper : ∑ l ∈ range k, f (k + 1 + l) = ∑ l ∈ range k, f l := by
      rw [← Finset.sum_range_reflect]
      apply Finset.sum_congr rfl
      intro l hl; simp at hl
      have := hsym l (by omega)
      rw [← this]; congr 1; omega
    rw [hsplit, hupper, two_nsmul]; abel
  · have h1 : (2 * k + 1) / 2 + 1 = k + 1 := by omega
    rw [h1]
    have hlow : ∑ l ∈ range (k + 1),
          (if (2 * k + 1) % 2 = 0 ∧ 2 * l = 2 * k + 1 then 1 else 2) • f l
        = 2 • ∑ l ∈ range (k + 1), f l := by
      rw [Finset.smul_sum]; apply Finset.sum_congr rfl
      intro l _
      have : ¬ ((2 * k + 1) % 2 = 0) := by omega
      simp
    rw [hlow]
    have hsplit : ∑ l ∈ range (2 * k + 1 + 1), f l
        = ∑ l ∈ range (k + 1), f l + ∑ l ∈ range (k + 1), f (k + 1 + l) := by
      have : 2 * k + 1 + 1 = (k + 1) + (k + 1) := by ring
      rw [this, Finset.sum_range_add]
    have hupper : ∑ l ∈ range (k + 1), f (k + 1 + l) = ∑ l ∈ range (k + 1), f l := by
      rw [← Finset.sum_range_reflect]
      apply Finset.sum_congr rfl
      intro l hl; simp at hl
      have := hsym l (by omega)
      rw [← this]; congr 1; omega
    rw [hsplit, hupper, two_nsmul]

theorem sum_range_succ_reflect {M : Type*} [AddCommMonoid M] (n : ℕ) (g : ℕ → M) :
    ∑ l ∈ range (n + 1), g l = ∑ l ∈ range (n + 1), g (n - l) := by
  rw [← Finset.sum_range_reflect]
  apply Finset.sum_congr rfl
  intro l _; simp

theorem sum_comm3 {M : Type*} [AddCommMonoid M] (s t u : Finset ℕ) (f : ℕ → ℕ → ℕ → M) :
    ∑ z ∈ s, ∑ y ∈ t, ∑ x ∈ u, f x y z = ∑ x ∈ u, ∑ y ∈ t, ∑ z ∈ s, f x y z :=
  calc ∑ z ∈ s, ∑ y ∈ t, ∑ x ∈ u, f x y z
      = ∑ z ∈ s, ∑ x ∈ u, ∑ y ∈ t, f x y z := sum_congr rfl fun _ _ => sum_comm
    _ = ∑ x ∈ u, ∑ z ∈ s, ∑ y ∈ t, f x y z := sum_comm
    _ = _ := sum_congr rfl fun _ _ => sum_comm

/-- abstract one-variable Leibniz rule -/
theorem pow_leibniz {R M : Type*} [Semiring R] [AddCommMonoid M] [Module R M]
    (T : Module.End R M) (S : ℕ → ℕ → M)
    (hT : ∀ a b, T (S a b) = S (a + 1) b + S a (b + 1)) (n a b : ℕ) :
    (T ^ n) (S a b) = ∑ l ∈ range (n + 1), n.choose l • S (a + l) (b + (n - l)) := by
  rw [← Finset.Nat.sum_antidiagonal_eq_sum_range_succ (fun i j => n.choose i • S (a + i) (b + j))]
  induction n with
  | zero => simp
  | succ n ih =>
    rw [Finset.sum_antidiagonal_choose_succ_nsmul (M := M) (fun i j => S (a + i) (b + j)) n]
    rw [pow_succ', Module.End.mul_apply, ih]
    simp only [map_sum, map_nsmul, hT, smul_add, sum_add_distrib]
    rw [add_comm]
    congr 1
    refine sum_congr rfl fun ⟨i, j⟩ hij => ?_
    rw [n.choose_symm_of_eq_add (mem_antidiagonal.1 hij).symm]
    simp [add_assoc]

/-! ## `Comp` arithmetic -/

theorem Comp.add_eq (p q : Comp) : Comp.add p q = p + q := rfl
theorem Comp.zero_eq : Comp.zero = 0 := rfl
theorem Comp.smul_two (p : Comp) : Comp.smul 2 p = p + p := by
  obtain ⟨a, b, c⟩ := p
  simp [Comp.smul, two_mul]

/-! ## Item 6: the clipping rule -/

theorem foldl_min_le (l : List ℚ) (a : ℚ) :
    l.foldl min a ≤ a ∧ ∀ v ∈ l, l.foldl min a ≤ v := by
  induction l generalizing a with
  | nil => simp
  | cons x xs ih =>
    obtain ⟨h1, h2⟩ := ih (min a x)
    refine ⟨le_trans h1 (min_le_left _ _), ?_⟩
    intro v hv
    rcases List.mem_cons.1 hv with rfl | hv
    · exact le_trans h1 (min_le_right _ _)
    · exact h2 v hv

theorem foldl_min_mem (l : List ℚ) (a : ℚ) : l.foldl min a = a ∨ l.foldl min a ∈ l := by
  induction l generalizing a with
  | nil => simp
  | cons x xs ih =>
    rcases ih (min a x) with h | h
    · rcases min_choice a x with h' | h'
      · left; rw [List.foldl_cons, h, h']
      · right; rw [List.foldl_cons, h, h']; exact List.mem_cons_self
    · right; simp [List.foldl_cons, h]

/-- the minimum computed by `clipRule` -/
def clipMin (vals : List ℚ) : ℚ := vals.foldl min (vals.headD 0)

theorem clipMin_le (vals : List ℚ) : ∀ v ∈ vals, clipMin vals ≤ v :=
  (foldl_min_le vals _).2

theorem clipMin_mem (vals : List ℚ) (h : vals ≠ []) : clipMin vals ∈ vals := by
  cases vals with
  | nil => exact absurd rfl h
  | cons v vs =>
    rcases foldl_min_mem (v :: vs) v with h' | h'
    · simp only [clipMin, List.headD_cons]; rw [h']; simp
    · exact h'

theorem clipRule_eq (t : ℚ) (vals : List ℚ) :
    clipRule t vals = if clipMin vals < 0 ∧ t < -clipMin vals then none
      else some (vals.map fun v => max v 0) := by
  unfold clipRule clipMin
  by_cases h : List.foldl min (vals.headD 0) vals < 0 ∧ t < -List.foldl min (vals.headD 0) vals
  · simp
  · rw [if_neg h]
    have : ¬ ((decide (List.foldl min (vals.headD 0) vals < 0)
        && decide (-List.foldl min (vals.headD 0) vals > t)) = true) := by
      simpa using h
    simp only [if_neg this]

/-- item 6a: `ValueError` exactly when some value is below `-threshold` -/
theorem clipRule_none_iff (t : ℚ) (ht : 0 ≤ t) (vals : List ℚ) :
    clipRule t vals = none ↔ ∃ v ∈ vals, v < -t := by
  rw [clipRule_eq]
  constructor
  · intro h
    split_ifs at h with hc
    have hne : vals ≠ [] := by
      rintro rfl
      simp [clipMin] at hc
    exact ⟨clipMin vals, clipMin_mem vals hne, by linarith [hc.2]⟩
  · rintro ⟨v, hv, hlt⟩
    have := clipMin_le vals v hv
    rw [if_pos]
    exact ⟨by linarith, by linarith⟩

/-- item 6b: otherwise every value is replaced by `max v 0` -/
theorem clipRule_some (t : ℚ) (vals out : List ℚ) (h : clipRule t vals = some out) :
    out = vals.map fun v => max v 0 := by
  rw [clipRule_eq] at h
  split_ifs at h
  exact (Option.some.inj h).symm

/-- item 6c: values in `[-t, 0)` are accepted and returned as `0` -/
theorem clipRule_of_ge (t : ℚ) (ht : 0 ≤ t) (vals : List ℚ) (h : ∀ v ∈ vals, -t ≤ v) :
    clipRule t vals = some (vals.map fun v => max v 0) ∧
      ∀ v ∈ vals, v < 0 → max v 0 = 0 := by
  refine ⟨?_, fun v _ hv => max_eq_right hv.le⟩
  cases hc : clipRule t vals with
  | none =>
    obtain ⟨v, hv, hlt⟩ := (clipRule_none_iff t ht vals).1 hc
    exact absurd (h v hv) (not_le.2 hlt)
  | some out => rw [clipRule_some t vals out hc]

/-! ## Set-up -/

section Setup

variable {K A ι : Type*} [Field K] [CommRing A] [Algebra K A] [Fintype ι]

/-- pairwise commuting derivations -/
def CommD (d : Fin 3 → Derivation K A A) : Prop := ∀ i j f, d i (d j f) = d j (d i f)

/-- symmetric density matrix -/
def SymmG (γ : ι → ι → K) : Prop := ∀ a b, γ a b = γ b a

/-- `∂^p f` -/
def dpow (d : Fin 3 → Derivation K A A) (p : Comp) (f : A) : A :=
  (d 0)^[p.1] ((d 1)^[p.2.1] ((d 2)^[p.2.2] f))

/-- `D(p; q) = Σ_ab γ_ab ∂^p φ_a ∂^q φ_b` -/
def Dsym (d : Fin 3 → Derivation K A A) (φ : ι → A) (γ : ι → ι → K) (p q : Comp) : A :=
  ∑ a, ∑ b, γ a b • (dpow d p (φ a) * dpow d q (φ b))

/-- the density `ρ = D(0; 0)` -/
def rho (d : Fin 3 → Derivation K A A) (φ : ι → A) (γ : ι → ι → K) : A := Dsym d φ γ 0 0

/-- interpretation of a form -/
def Form.evalA (d : Fin 3 → Derivation K A A) (φ : ι → A) (γ : ι → ι → K) (f : Form) : A :=
  (f.map fun t => (t.1 : K) • Dsym d φ γ t.2.1 t.2.2).sum

/-- unit multi-index of axis `i` -/
abbrev e (i : Fin 3) : Comp := Comp.e i.val

variable (d : Fin 3 → Derivation K A A) (φ : ι → A) (γ : ι → ι → K)

/-- `∂^p` as a linear map -/
def dpowL (p : Comp) : Module.End K A :=
  (d 0).toLinearMap ^ p.1 * ((d 1).toLinearMap ^ p.2.1 * (d 2).toLinearMap ^ p.2.2)

theorem dpow_eq (p : Comp) (f : A) : dpow d p f = dpowL d p f := by
  simp [dpow, dpowL, Module.End.mul_apply, Module.End.pow_apply]

@[simp] theorem dpow_zero (f : A) : dpow d 0 f = f := by simp [dpow]

theorem dpow_add_map (p : Comp) (f g : A) : dpow d p (f + g) = dpow d p f + dpow d p g := by
  simp [dpow_eq]

theorem dpow_smul_map (p : Comp) (c : K) (f : A) : dpow d p (c • f) = c • dpow d p f := by
  simp [dpow_eq]

theorem dpow_sum_map {σ : Type*} (p : Comp) (s : Finset σ) (f : σ → A) :
    dpow d p (∑ x ∈ s, f x) = ∑ x ∈ s, dpow d p (f x) := by
  simp [dpow_eq]

variable {d}

theorem CommD.iter (hd : CommD d) (i j : Fin 3) (n : ℕ) (f : A) :
    d i ((d j)^[n] f) = (d j)^[n] (d i f) :=
  ((show Function.Commute (d i) (d j) from fun f => hd i j f).iterate_right n).eq f

/-- `∂_i ∂^p = ∂^{p + e_i}` -/
theorem d_dpow (hd : CommD d) (i : Fin 3) (p : Comp) (f : A) :
    d i (dpow d p f) = dpow d (p + e i) f := by
  obtain ⟨a, b, c⟩ := p
  fin_cases i
  · simp [dpow, e, Comp.e, Function.iterate_succ_apply']
  · simp [dpow, e, Comp.e, Function.iterate_succ_apply', hd.iter]
  · simp [dpow, e, Comp.e, Function.iterate_succ_apply', hd.iter]

/-- `∂^{p + e_i} f = ∂^p ∂_i f` -/
theorem dpow_d (hd : CommD d) (i : Fin 3) (p : Comp) (f : A) :
    dpow d (p + e i) f = dpow d p (d i f) := by
  rw [← d_dpow hd]
  simp [dpow, hd.iter]

variable {φ γ}

/-- item 1a: Leibniz rule for the symbols -/
theorem d_Dsym (hd : CommD d) (i : Fin 3) (p q : Comp) :
    d i (Dsym d φ γ p q) = Dsym d φ γ (p + e i) q + Dsym d φ γ p (q + e i) := by
  simp only [Dsym, map_sum, ← sum_add_distrib]
  refine sum_congr rfl fun a _ => sum_congr rfl fun b _ => ?_
  rw [Derivation.map_smul, Derivation.leibniz, d_dpow hd, d_dpow hd, smul_eq_mul, smul_eq_mul,
    ← smul_add]
  congr 1; ring

/-- item 1b: symmetry of the symbols for a symmetric density matrix -/
theorem Dsym_symm (hγ : SymmG γ) (p q : Comp) : Dsym d φ γ p q = Dsym d φ γ q p := by
  unfold Dsym
  rw [sum_comm]
  refine sum_congr rfl fun a _ => sum_congr rfl fun b _ => ?_
  rw [hγ a b, mul_comm]

/-! ## Evaluation of forms -/

local notation "⟪" f "⟫" => Form.evalA d φ γ f
local notation "D" => Dsym d φ γ
local notation "ρ" => rho d φ γ

@[simp] theorem evalA_nil : ⟪[]⟫ = 0 := rfl

@[simp] theorem evalA_cons (t : Rat × Comp × Comp) (f : Form) :
    ⟪t :: f⟫ = (t.1 : K) • D t.2.1 t.2.2 + ⟪f⟫ := by
  simp [Form.evalA]

@[simp] theorem evalA_append (f g : Form) : ⟪f ++ g⟫ = ⟪f⟫ + ⟪g⟫ := by
  simp [Form.evalA]

theorem evalA_flatMap_range (n : ℕ) (g : ℕ → Form) :
    ⟪(List.range n).flatMap g⟫ = ∑ i ∈ range n, ⟪g i⟫ := by
  induction n with
  | zero => simp
  | succ n ih => simp [List.range_succ, List.flatMap_append, ih, Finset.sum_range_succ]

theorem evalA_map_range (n : ℕ) (g : ℕ → Rat × Comp × Comp) :
    ⟪(List.range n).map g⟫ = ∑ i ∈ range n, ((g i).1 : K) • D (g i).2.1 (g i).2.2 := by
  induction n with
  | zero => simp
  | succ n ih => simp [List.range_succ, ih, Finset.sum_range_succ]

/-- a skipped block whose value is zero anyway may be un-skipped -/
theorem evalA_skip (b : Bool) (l : Form) (h : b = false → ⟪l⟫ = 0) :
    ⟪if b then l else []⟫ = ⟪l⟫ := by
  cases b with
  | true => simp
  | false => simp [h rfl]

/-! ## Item 2: the general Leibniz rule -/

/-- one-axis Leibniz rule for the symbols -/
theorem pow_d_Dsym (hd : CommD d) (i : Fin 3) (n : ℕ) (p q : Comp) :
    ((d i).toLinearMap ^ n) (D p q)
      = ∑ l ∈ range (n + 1), n.choose l • D (p + l • e i) (q + (n - l) • e i) := by
  have h := pow_leibniz (d i).toLinearMap (fun a b => D (p + a • e i) (q + b • e i))
    (fun a b => by
      show d i _ = _
      rw [d_Dsym hd, succ_nsmul, succ_nsmul, add_assoc, add_assoc]) n 0 0
  simpa using h

theorem dpow_Dsym (hd : CommD d) (L p q : Comp) :
    dpow d L (D p q) = ∑ lx ∈ range (L.1 + 1), ∑ ly ∈ range (L.2.1 + 1), ∑ lz ∈ range (L.2.2 + 1),
      (L.1.choose lx * L.2.1.choose ly * L.2.2.choose lz) •
        D (p + (lx, ly, lz)) (q + (L.1 - lx, L.2.1 - ly, L.2.2 - lz)) := by
  obtain ⟨Lx, Ly, Lz⟩ := L
  rw [dpow_eq, dpowL]
  simp only [Module.End.mul_apply, pow_d_Dsym hd, map_sum, map_nsmul, smul_sum]
  rw [sum_comm3 (range (Lz + 1)) (range (Ly + 1)) (range (Lx + 1))]
  refine sum_congr rfl fun lx _ => sum_congr rfl fun ly _ => sum_congr rfl fun lz _ => ?_
  have hc : ∀ (r : Comp) (a b c : ℕ), r + c • e 2 + b • e 1 + a • e 0 = r + ((a, b, c) : Comp) := by
    intro r a b c
    obtain ⟨r1, r2, r3⟩ := r
    simp [e, Comp.e]
  rw [hc, hc, smul_smul, smul_smul]
  congr 1; ring

theorem leibniz_eval (L : Comp) :
    ⟪leibnizForm L⟫ = ∑ lx ∈ range (L.1 + 1), ∑ ly ∈ range (L.2.1 + 1), ∑ lz ∈ range (L.2.2 + 1),
      (L.1.choose lx * L.2.1.choose ly * L.2.2.choose lz) •
        D (lx, ly, lz) (L.1 - lx, L.2.1 - ly, L.2.2 - lz) := by
  unfold leibnizForm
  rw [evalA_flatMap_range]
  refine sum_congr rfl fun lx _ => ?_
  rw [evalA_flatMap_range]
  refine sum_congr rfl fun ly _ => ?_
  rw [evalA_map_range]
  refine sum_congr rfl fun lz _ => ?_
  simp only [choose_eq_nat, Rat.cast_natCast, Nat.cast_smul_eq_nsmul, Comp.sub]

/-- item 2: the full Leibniz sum is the `L`-th derivative of the density -/
theorem leibniz_eq (hd : CommD d) (L : Comp) : ⟪leibnizForm L⟫ = dpow d L ρ := by
  rw [leibniz_eval, rho, dpow_Dsym hd]
  simp

/-! ## Item 3: the half-range shortcut of `evaluate_deriv_density` -/

theorem derivDensity_eval (L : Comp) :
    ⟪derivDensityForm L⟫ = ∑ lx ∈ range (L.1 / 2 + 1),
      (if L.1 % 2 = 0 ∧ 2 * lx = L.1 then 1 else 2) •
        ∑ ly ∈ range (L.2.1 + 1), ∑ lz ∈ range (L.2.2 + 1),
          (L.1.choose lx * L.2.1.choose ly * L.2.2.choose lz) •
            D (lx, ly, lz) (L.1 - lx, L.2.1 - ly, L.2.2 - lz) := by
  unfold derivDensityForm
  rw [evalA_flatMap_range]
  refine sum_congr rfl fun lx _ => ?_
  rw [evalA_flatMap_range, smul_sum]
  refine sum_congr rfl fun ly _ => ?_
  rw [evalA_map_range, smul_sum]
  refine sum_congr rfl fun lz _ => ?_
  have hf : (if (L.1 % 2 == 0 && 2 * lx == L.1) then (1 : ℚ) else 2)
      = ((if L.1 % 2 = 0 ∧ 2 * lx = L.1 then 1 else 2 : ℕ) : ℚ) := by
    by_cases h : L.1 % 2 = 0 ∧ 2 * lx = L.1
    · simp [h]
    · rw [if_neg h]
      simp only [Bool.and_eq_true, beq_iff_eq]
      rw [if_neg h]; norm_num
  simp only [hf, choose_eq_nat, ← Nat.cast_mul, Rat.cast_natCast, Nat.cast_smul_eq_nsmul, Comp.sub,
    mul_smul]

/-- item 3: for a symmetric density matrix the half-range loop of the code equals the full
Leibniz sum -/
theorem derivDensity_eq_leibniz (hγ : SymmG γ) (L : Comp) :
    ⟪derivDensityForm L⟫ = ⟪leibnizForm L⟫ := by
  rw [derivDensity_eval, leibniz_eval]
  symm
  apply half_sum
  intro lx hlx
  rw [sum_range_succ_reflect]
  refine sum_congr rfl fun ly hly => ?_
  rw [sum_range_succ_reflect]
  refine sum_congr rfl fun lz hlz => ?_
  have hly' : ly ≤ L.2.1 := by simpa [Nat.lt_succ_iff] using hly
  have hlz' : lz ≤ L.2.2 := by simpa [Nat.lt_succ_iff] using hlz
  rw [Nat.choose_symm hlx, Nat.choose_symm hly', Nat.choose_symm hlz',
    Nat.sub_sub_self hlx, Nat.sub_sub_self hly', Nat.sub_sub_self hlz', Dsym_symm hγ]

theorem derivDensity_eq (hd : CommD d) (hγ : SymmG γ) (L : Comp) :
    ⟪derivDensityForm L⟫ = dpow d L ρ := by
  rw [derivDensity_eq_leibniz hγ, leibniz_eq hd]

/-! ## Item 4: gradient, Laplacian, Hessian of the density -/

/-- `∇²ρ` -/
def lap (d : Fin 3 → Derivation K A A) (φ : ι → A) (γ : ι → ι → K) : A :=
  ∑ i : Fin 3, d i (d i (rho d φ γ))

local notation "Δρ" => lap d φ γ

theorem evalA_flatMap_range3 (g : ℕ → Form) :
    ⟪(List.range 3).flatMap g⟫ = ∑ k : Fin 3, ⟪g k⟫ := by
  rw [evalA_flatMap_range, Finset.sum_range]

theorem evalA_map_range3 (g : ℕ → Rat × Comp × Comp) :
    ⟪(List.range 3).map g⟫ = ∑ k : Fin 3, ((g k).1 : K) • D (g k).2.1 (g k).2.2 := by
  rw [evalA_map_range, Finset.sum_range]

theorem dd_rho (hd : CommD d) (r c : Fin 3) :
    d r (d c ρ) = D (e c + e r) 0 + D (e c) (e r) + (D (e r) (e c) + D 0 (e c + e r)) := by
  rw [rho, d_Dsym hd, map_add, d_Dsym hd, d_Dsym hd]
  simp

theorem dd_rho_symm (hd : CommD d) (hγ : SymmG γ) (r c : Fin 3) :
    d r (d c ρ) = (2 : K) • D (e r + e c) 0 + (2 : K) • D (e r) (e c) := by
  rw [dd_rho hd, Dsym_symm hγ 0, Dsym_symm hγ (e c) (e r), add_comm (e c) (e r)]
  module

theorem gradient_eq (hd : CommD d) (hγ : SymmG γ) (i : Fin 3) :
    ⟪gradientForm i⟫ = d i ρ := by
  rw [rho, d_Dsym hd, Dsym_symm hγ 0 (0 + e i)]
  simp [gradientForm, Comp.zero_eq, two_smul]

theorem laplacian_eval :
    ⟪laplacianForm⟫ = ∑ i : Fin 3, ((2 : K) • D (e i + e i) 0 + (2 : K) • D (e i) (e i)) := by
  unfold laplacianForm
  rw [evalA_append, evalA_map_range3, evalA_map_range3, ← sum_add_distrib]
  simp [Comp.smul_two, Comp.zero_eq]

theorem laplacian_eq (hd : CommD d) (hγ : SymmG γ) : ⟪laplacianForm⟫ = Δρ := by
  rw [laplacian_eval, lap]
  refine sum_congr rfl fun i _ => ?_
  rw [dd_rho_symm hd hγ]

theorem hessianForm_symm (r c : ℕ) : hessianForm r c = hessianForm c r := by
  simp [hessianForm, min_comm, max_comm]

theorem hessian_symm (r c : Fin 3) : ⟪hessianForm r c⟫ = ⟪hessianForm c r⟫ := by
  rw [hessianForm_symm]

theorem hessian_eq (hd : CommD d) (hγ : SymmG γ) (r c : Fin 3) :
    ⟪hessianForm r c⟫ = d r (d c ρ) := by
  wlog h : (r : ℕ) ≤ c generalizing r c
  · have h' : (c : ℕ) ≤ r := by omega
    rw [hessian_symm, this c r h', hd r c]
  rw [dd_rho_symm hd hγ, Dsym_symm hγ (e r + e c) 0]
  simp [hessianForm, min_eq_left h, max_eq_right h, Comp.zero_eq, Comp.add_eq]

theorem hessian_trace (hγ : SymmG γ) :
    ∑ r : Fin 3, ⟪hessianForm r r⟫ = ⟪laplacianForm⟫ := by
  rw [laplacian_eval]
  refine sum_congr rfl fun r _ => ?_
  rw [Dsym_symm hγ (e r + e r) 0]
  simp [hessianForm, Comp.zero_eq, Comp.add_eq]

/-! ## Item 5: kinetic energy densities -/

variable [CharZero K]

theorem evalA_scale (c : ℚ) (f : Form) : ⟪f.scale c⟫ = (c : K) • ⟪f⟫ := by
  induction f with
  | nil => simp [Form.scale]
  | cons t f ih =>
    simp only [Form.scale, List.map_cons, evalA_cons] at ih ⊢
    rw [ih]; push_cast; module

theorem generalKE_eq (α : ℚ) :
    ⟪generalKEForm α⟫ = ⟪posdefForm⟫ + (α : K) • ⟪laplacianForm⟫ := by
  unfold generalKEForm
  rw [evalA_append, evalA_skip, evalA_scale]
  intro h
  have : α = 0 := by simpa using h
  rw [this, evalA_scale]; simp

theorem posdef_eval : ⟪posdefForm⟫ = (1 / 2 : K) • ∑ i : Fin 3, D (e i) (e i) := by
  unfold posdefForm
  rw [evalA_map_range3, smul_sum]
  simp

/-! ## Item 7: stress tensor, Ehrenfest force, Ehrenfest Hessian -/

omit [CharZero K] in
theorem evalA_skip_single (b : Bool) (c : ℚ) (p q : Comp) (h : b = false → c = 0) :
    ⟪if b then [(c, p, q)] else []⟫ = (c : K) • D p q := by
  rw [evalA_skip]
  · simp
  · intro hb; simp [h hb]

omit [CharZero K] in
theorem evalA_skip_pair (b : Bool) (c : ℚ) (p q p' q' : Comp) (h : b = false → c = 0) :
    ⟪if b then [(c, p, q), (c, p', q')] else []⟫ = (c : K) • D p q + (c : K) • D p' q' := by
  rw [evalA_skip]
  · simp
  · intro hb; simp [h hb]

theorem evalA_skip_scale (b : Bool) (c : ℚ) (f : Form) (h : b = false → c = 0) :
    ⟪if b then f.scale c else []⟫ = (c : K) • ⟪f⟫ := by
  rw [evalA_skip, evalA_scale]
  intro hb; rw [evalA_scale, h hb]; simp

theorem bne_zero_false {α : ℚ} (h : (α != 0) = false) : α = 0 := by simpa using h
theorem bne_zero_false_neg {α : ℚ} (h : (α != 0) = false) : -α = 0 := by
  rw [bne_zero_false h]; norm_num
theorem bne_one_false {α : ℚ} (h : (α != 1) = false) : 1 - α = 0 := by
  have : α = 1 := by simpa using h
  rw [this]; norm_num
theorem bne_one_false' {α : ℚ} (h : (α != 1) = false) : -(1 - α) = 0 := by
  rw [bne_one_false h]; norm_num
theorem bne_half_false {α : ℚ} (h : (α != 1 / 2) = false) : -(1 - 2 * α) = 0 := by
  have : α = 1 / 2 := by simpa using h
  rw [this]; norm_num
theorem bne_zero_false_mul {β : ℚ} (c : ℚ) (h : (β != 0) = false) : c * β = 0 := by
  rw [bne_zero_false h]; ring

theorem stressForm_symm (α β : ℚ) (i j : ℕ) : stressForm α β i j = stressForm α β j i := by
  simp [stressForm, min_comm, max_comm]

omit [CharZero K] in
/-- item 7b: the stress tensor is symmetric -/
theorem stress_symm (α β : ℚ) (i j : Fin 3) :
    ⟪stressForm α β i j⟫ = ⟪stressForm α β j i⟫ := by
  rw [stressForm_symm]

theorem stress_eval_le (α β : ℚ) (i j : Fin 3) (h : (i : ℕ) ≤ j) :
    ⟪stressForm α β i j⟫ = -(α : K) • D (e j) (e i) + (1 - (α : K)) • D (e j + e i) 0
      - (if i = j then ((β : K) / 2) • ⟪laplacianForm⟫ else 0) := by
  simp only [stressForm, min_eq_left h, max_eq_right h, evalA_append]
  rw [evalA_skip_single _ _ _ _ bne_zero_false_neg, evalA_skip_single _ _ _ _ bne_one_false]
  by_cases hij : i = j
  · subst hij
    simp only [beq_self_eq_true, Bool.true_and, if_true]
    rw [evalA_skip_scale _ _ _ (bne_zero_false_mul _)]
    push_cast
    simp only [Comp.add_eq, Comp.zero_eq]
    module
  · have hne : ((i : ℕ) == (j : ℕ)) = false := by
      simpa [Fin.val_inj] using hij
    simp only [hne, Bool.false_and, if_neg hij]
    push_cast
    simp [Comp.add_eq, Comp.zero_eq]

theorem stress_simple (hd : CommD d) (hγ : SymmG γ) (α β : ℚ) (i j : Fin 3) :
    ⟪stressForm α β i j⟫ = -(α : K) • D (e i) (e j) + (1 - (α : K)) • D (e i + e j) 0
      - (if i = j then ((β : K) / 2) • Δρ else 0) := by
  rw [← laplacian_eq hd hγ]
  rcases le_total (i : ℕ) j with h | h
  · rw [stress_eval_le α β i j h, Dsym_symm hγ (e j) (e i), add_comm (e j) (e i)]
  · rw [stress_symm, stress_eval_le α β j i h]
    simp only [eq_comm]

/-- item 7a: the documented definition of the stress tensor, uniformly in `α`, `β` -/
theorem stress_doc (hd : CommD d) (hγ : SymmG γ) (α β : ℚ) (i j : Fin 3) :
    ⟪stressForm α β i j⟫ =
      -(1 / 2 : K) • ((α : K) • (D (e i) (e j) + D (e j) (e i))
          - (1 - (α : K)) • (D (e i + e j) 0 + D 0 (e i + e j)))
        - (1 / 2 : K) • ((if i = j then (1 : K) else 0) * (β : K)) • Δρ := by
  rw [stress_simple hd hγ, Dsym_symm hγ (e j) (e i), Dsym_symm hγ 0 (e i + e j)]
  by_cases hij : i = j
  · simp only [if_pos hij]; module
  · simp only [if_neg hij]; module

omit [CharZero K] in
theorem dpow_e (hd : CommD d) (k : Fin 3) (f : A) : dpow d (e k) f = d k f := by
  have := d_dpow hd k 0 f
  simpa using this.symm

omit [CharZero K] in
theorem dpow_eee (hd : CommD d) (k k' i : Fin 3) (f : A) :
    dpow d (e k + e k' + e i) f = d i (d k' (d k f)) := by
  rw [← d_dpow hd i, ← d_dpow hd k', dpow_e hd]

omit [CharZero K] in
theorem dpow_eeee (hd : CommD d) (k k' i j : Fin 3) (f : A) :
    dpow d (e k + e k' + e i + e j) f = d j (d i (d k' (d k f))) := by
  rw [← d_dpow hd j, dpow_eee hd]

theorem force_eval (hd : CommD d) (hγ : SymmG γ) (α β : ℚ) (i : Fin 3) :
    ⟪forceForm α β i⟫ = ∑ k : Fin 3,
      ((α : K) • D (e k + e k) (e i) - (1 - (α : K)) • D (e k + e k + e i) 0
        - (1 - 2 * (α : K)) • D (e k + e i) (e k) + ((β : K) / 2) • d i (d k (d k ρ))) := by
  unfold forceForm
  rw [evalA_flatMap_range3]
  refine sum_congr rfl fun k _ => ?_
  simp only [evalA_append]
  rw [evalA_skip_single _ _ _ _ bne_zero_false, evalA_skip_single _ _ _ _ bne_one_false',
    evalA_skip_single _ _ _ _ bne_half_false, evalA_skip_scale _ _ _ (bne_zero_false_mul _),
    derivDensity_eq hd hγ]
  simp only [Comp.smul_two, Comp.add_eq, Comp.zero_eq, dpow_eee hd]
  push_cast
  module

/-- item 7c: the Ehrenfest force is minus the divergence of the stress tensor -/
theorem force_eq_neg_div_stress (hd : CommD d) (hγ : SymmG γ) (α β : ℚ) (i : Fin 3) :
    ⟪forceForm α β i⟫ = -∑ j : Fin 3, d j ⟪stressForm α β i j⟫ := by
  have hs : ∀ j : Fin 3, d j ⟪stressForm α β i j⟫
      = (-(α : K) • (D (e i + e j) (e j) + D (e i) (e j + e j))
          + (1 - (α : K)) • (D (e i + e j + e j) 0 + D (e i + e j) (e j)))
        - (if i = j then ((β : K) / 2) • d i Δρ else 0) := by
    intro j
    rw [stress_simple hd hγ, map_sub, map_add, Derivation.map_smul, Derivation.map_smul,
      d_Dsym hd, d_Dsym hd, apply_ite (d j), map_zero, Derivation.map_smul, zero_add]
    by_cases hij : i = j
    · subst hij; simp
    · simp [hij]
  simp only [hs]
  rw [sum_sub_distrib, Finset.sum_ite_eq, if_pos (mem_univ i), lap, map_sum, smul_sum,
    ← sum_sub_distrib, ← sum_neg_distrib, force_eval hd hγ]
  refine sum_congr rfl fun k _ => ?_
  rw [Dsym_symm hγ (e k + e k) (e i), show e k + e k + e i = e i + e k + e k by abel,
    add_comm (e k) (e i)]
  module

theorem hessianRaw_eval (hd : CommD d) (hγ : SymmG γ) (α β : ℚ) (i j : Fin 3) :
    ⟪ehrenfestHessianRaw α β i j⟫ = ∑ k : Fin 3,
      ((α : K) • (D (e k + e k + e j) (e i) + D (e k + e k) (e i + e j))
        - (1 - (α : K)) • (D (e k + e k + e i + e j) 0 + D (e k + e k + e i) (e j))
        - (1 - 2 * (α : K)) • (D (e k + e i + e j) (e k) + D (e k + e i) (e k + e j))
        + ((β : K) / 2) • d j (d i (d k (d k ρ)))) := by
  unfold ehrenfestHessianRaw
  rw [evalA_flatMap_range3]
  refine sum_congr rfl fun k _ => ?_
  simp only [evalA_append]
  rw [evalA_skip_pair _ _ _ _ _ _ bne_zero_false, evalA_skip_pair _ _ _ _ _ _ bne_one_false',
    evalA_skip_pair _ _ _ _ _ _ bne_half_false, evalA_skip_scale _ _ _ (bne_zero_false_mul _),
    derivDensity_eq hd hγ]
  simp only [Comp.smul_two, Comp.add_eq, Comp.zero_eq, dpow_eeee hd]
  push_cast
  module

/-- item 7d: the Ehrenfest Hessian (before symmetrisation) is the Jacobian of the force -/
theorem ehrenfest_hessian_eq_jacobian (hd : CommD d) (hγ : SymmG γ) (α β : ℚ) (i j : Fin 3) :
    ⟪ehrenfestHessianRaw α β i j⟫ = d j ⟪forceForm α β i⟫ := by
  rw [hessianRaw_eval hd hγ, force_eval hd hγ, map_sum]
  refine sum_congr rfl fun k _ => ?_
  simp only [map_add, map_sub, Derivation.map_smul, d_Dsym hd, zero_add]

omit [CharZero K] in
theorem ehrenfest_hessian_unsymmetrised (α β : ℚ) (i j : Fin 3) :
    ⟪ehrenfestHessianForm α β false i j⟫ = ⟪ehrenfestHessianRaw α β i j⟫ := by
  simp [ehrenfestHessianForm]

/-- item 7e: `symmetric=True` returns `(H + Hᵀ)/2` -/
theorem ehrenfest_hessian_symmetrised (α β : ℚ) (i j : Fin 3) :
    ⟪ehrenfestHessianForm α β true i j⟫
      = (1 / 2 : K) • (⟪ehrenfestHessianRaw α β i j⟫ + ⟪ehrenfestHessianRaw α β j i⟫) := by
  simp [ehrenfestHessianForm, evalA_scale]

end Setup

/-! ## Bonus: the model's own `Form.eval` -/

section ModelEval

/-- a commutative ring as a `Num` (division is never used by `Form.eval`) -/
@[reducible] def ringNum (A : Type) [CommRing A] : Num A :=
  { toAdd := inferInstance, toSub := inferInstance, toMul := inferInstance,
    toDiv := ⟨fun _ _ => 0⟩, toNeg := inferInstance, nat := fun n => (n : A) }

theorem eval_eq_evalA {K A ι : Type} [Field K] [CommRing A] [Algebra K A] [Fintype ι]
    (d : Fin 3 → Derivation K A A) (φ : ι → A) (γ : ι → ι → K) (f : Form) :
    @Form.eval A (ringNum A) (fun r => algebraMap K A (r : K)) (Dsym d φ γ) f
      = Form.evalA d φ γ f := by
  unfold Form.eval
  induction f with
  | nil => simp only [List.map_nil, sumL, evalA_nil]; exact Nat.cast_zero
  | cons t f ih =>
    rw [evalA_cons, ← ih]
    simp [sumL, Algebra.smul_def]

end ModelEval

/-! ## Non-vacuity: a concrete instance of the set-up -/

section Instance

open MvPolynomial

theorem pderiv_comm (i j : Fin 3) (f : MvPolynomial (Fin 3) ℚ) :
    pderiv i (pderiv j f) = pderiv j (pderiv i f) := by
  induction f using MvPolynomial.induction_on with
  | C a => simp
  | add p q hp hq => simp [hp, hq]
  | mul_X p k hp =>
    by_cases h1 : i = k
    · subst h1
      by_cases h2 : j = i
      · subst h2; rfl
      · have h2' : ¬ i = j := fun h => h2 h.symm
        simp [Derivation.leibniz, pderiv_X, h2', hp, add_comm]
    · have h1' : ¬ k = i := fun h => h1 h.symm
      by_cases h2 : j = k
      · subst h2
        simp [Derivation.leibniz, pderiv_X, h1', hp, add_comm]
      · have h2' : ¬ k = j := fun h => h2 h.symm
        simp [Derivation.leibniz, pderiv_X, h1', h2', hp]

/-- `∂/∂x, ∂/∂y, ∂/∂z` on `ℚ[x, y, z]` -/
noncomputable def exD : Fin 3 → Derivation ℚ (MvPolynomial (Fin 3) ℚ) (MvPolynomial (Fin 3) ℚ) :=
  fun i => pderiv i

theorem exD_comm : CommD exD := fun i j f => pderiv_comm i j f

/-- one basis function `x`, `γ = 1` -/
noncomputable def exφ : Fin 1 → MvPolynomial (Fin 3) ℚ := fun _ => X 0
def exγ : Fin 1 → Fin 1 → ℚ := fun _ _ => 1

theorem exγ_symm : SymmG exγ := fun _ _ => rfl

example : ∃ (d : Fin 3 → Derivation ℚ (MvPolynomial (Fin 3) ℚ) (MvPolynomial (Fin 3) ℚ))
    (φ : Fin 1 → MvPolynomial (Fin 3) ℚ) (γ : Fin 1 → Fin 1 → ℚ),
    CommD d ∧ SymmG γ ∧ rho d φ γ ≠ 0 :=
  ⟨exD, exφ, exγ, exD_comm, exγ_symm, by
    simp [rho, Dsym, exφ, exγ]⟩

/-- the theorems apply: the gradient form of the instance evaluates to `∂ₓ(x²) = 2x` -/
example : Form.evalA exD exφ exγ (gradientForm 0) = 2 * X 0 := by
  have := gradient_eq exD_comm exγ_symm (φ := exφ) 0
  simp only [Fin.val_zero] at this
  rw [this]
  simp [rho, Dsym, exD, exφ, exγ, Derivation.leibniz, two_mul]

/-! ### the symmetry hypothesis of item 3 cannot be dropped -/

/-- basis functions `1, x` and the non-symmetric matrix `γ₀₁ = 1`, otherwise `0` -/
noncomputable def cexφ : Fin 2 → MvPolynomial (Fin 3) ℚ := ![1, X 0]
def cexγ : Fin 2 → Fin 2 → ℚ := fun a b => if a = 0 ∧ b = 1 then 1 else 0

/-- for `ρ = x` (built from a non-symmetric `γ`) the code's shortcut gives `2`, the Leibniz
sum gives `∂ₓρ = 1` -/
theorem derivDensity_ne_leibniz_nonsymm :
    Form.evalA exD cexφ cexγ (derivDensityForm (1, 0, 0)) = 2 ∧
    Form.evalA exD cexφ cexγ (leibnizForm (1, 0, 0)) = 1 ∧
    Form.evalA exD cexφ cexγ (derivDensityForm (1, 0, 0))
      ≠ Form.evalA exD cexφ cexγ (leibnizForm (1, 0, 0)) := by
  have h1 : Form.evalA exD cexφ cexγ (derivDensityForm (1, 0, 0)) = 2 := by
    simp [derivDensityForm, Form.evalA, Dsym, dpow, Comp.sub, GB.choose, Fin.sum_univ_two,
      exD, cexφ, cexγ, List.range_succ, MvPolynomial.smul_eq_C_mul]
    exact map_ofNat C 2
  have h2 : Form.evalA exD cexφ cexγ (leibnizForm (1, 0, 0)) = 1 := by
    simp [leibnizForm, Form.evalA, Dsym, dpow, Comp.sub, GB.choose, Fin.sum_univ_two,
      exD, cexφ, cexγ, List.range_succ]
  refine ⟨h1, h2, ?_⟩
  rw [h1, h2]
  intro h
  have := congrArg (MvPolynomial.eval (fun _ => (0 : ℚ))) h
  rw [map_ofNat, map_one] at this
  norm_num at this

end Instance

end GB

