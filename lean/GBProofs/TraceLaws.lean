import GBProofs.Definiteness
import GBProofs.EspLaws
import GBProofs.RigidMotion
import Mathlib.Analysis.Calculus.LineDeriv.Basic
import Mathlib.Analysis.InnerProductSpace.Dual
import Mathlib.Analysis.InnerProductSpace.Calculus

/-!
# Trace laws: `Σ_ab γ_ab M_ab = ∫ (operator density)` for an arbitrary matrix `γ` (C16, C14)

`ι` is a finite index type (all (shell, contraction, component) triples of a basis), `γ : ι → ι → ℝ`
an *arbitrary* real matrix (no symmetry, no definiteness), `ρ(r) = Σ_ab γ_ab φ_a(r) φ_b(r)`.

* `density_integral_eq_trace` : `∫ ρ = Σ γ_ab S_ab`;
* `posdef_kinetic_density_integral_eq_trace` : `∫ ½ Σ γ_ab ∇φ_a·∇φ_b = Σ γ_ab T_ab`;
* `electronic_potential_eq_integral` : `Σ γ_ab V_ab(q, C) = -q ∫ ρ(r)/|r-C|`;
* `espValue_eq` : nuclear term of the model minus the Hartree term `= Σ_{d_A ≥ t} Z_A/d_A - ∫ ρ(r)/|r-R|`;
* `moment_integral_eq_trace` : `Σ γ_ab ⟨a|(x-O_x)^i (y-O_y)^j (z-O_z)^k|b⟩ = ∫ (x-O_x)^i … ρ(r)`;
* `kineticBlock_moved` : the kinetic block under every rigid motion (translations, proper and improper
  rotations) transforms with the representation matrices `repMat` of the two shells;
  `kineticBlock_translate_E3`; `kineticBlock_eq_integral_E3` (`T_ab = ½ ∫_{E3} ∇φ_a·∇φ_b` with Fréchet
  differentials), `covDot_fderiv_moved` (covariance of `∇ψ₁·∇ψ₂` under an isometry).
-/
open MeasureTheory Real

namespace GB

section Abstract
variable {ι : Type*} [Fintype ι]

/-- exchange of the finite double sum `Σ_ab γ_ab ·` with the integral -/
lemma trace_integral {α : Type*} [MeasurableSpace α] (μ : Measure α) (g : ι → ι → α → ℝ)
    (hg : ∀ i j, Integrable (g i j) μ) (γ : ι → ι → ℝ) :
    ∑ a, ∑ b, γ a b * (∫ x, g a b x ∂μ) = ∫ x, ∑ a, ∑ b, γ a b * g a b x ∂μ := by
  rw [integral_finsetSum _ fun a _ => integrable_finsetSum _ fun b _ => (hg a b).const_mul (γ a b)]
  refine Finset.sum_congr rfl fun a _ => ?_
  rw [integral_finsetSum _ fun b _ => (hg a b).const_mul (γ a b)]
  refine Finset.sum_congr rfl fun b _ => ?_
  rw [integral_const_mul]

lemma trace_integrable {α : Type*} [MeasurableSpace α] (μ : Measure α) (g : ι → ι → α → ℝ)
    (hg : ∀ i j, Integrable (g i j) μ) (γ : ι → ι → ℝ) :
    Integrable (fun x => ∑ a, ∑ b, γ a b * g a b x) μ :=
  integrable_finsetSum _ fun a _ => integrable_finsetSum _ fun b _ => (hg a b).const_mul (γ a b)

end Abstract

/-! ## 1. The density integrates to `tr(γ S)` -/
section Overlap
variable {ι : Type*} [Fintype ι]

/-- the density `ρ(r) = Σ_ab γ_ab φ_a(r) φ_b(r)` on the carrier `ℝ × ℝ × ℝ` -/
noncomputable def density (γ : ι → ι → ℝ) (s : ι → Shell ℝ) (m c : ι → ℕ) (r : ℝ × ℝ × ℝ) : ℝ :=
  ∑ a, ∑ b, γ a b * shellFn (s a) (m a) (c a) r * shellFn (s b) (m b) (c b) r

theorem integrable_density (γ : ι → ι → ℝ) (s : ι → Shell ℝ) (m c : ι → ℕ)
    (hs : ∀ i, ∀ k < (s i).nprim, 0 < (s i).exp! k) :
    Integrable (density γ s m c) := by
  have h := trace_integrable volume
    (fun a b r => shellFn (s a) (m a) (c a) r * shellFn (s b) (m b) (c b) r)
    (fun a b => integrable_shellFn_mul _ _ _ _ _ _ (hs a) (hs b)) γ
  refine h.congr (Filter.Eventually.of_forall fun r => ?_)
  simp only [density, mul_assoc]

/-- **The density integrates to the trace of density matrix times overlap matrix**:
`∫ Σ_ab γ_ab φ_a φ_b = Σ_ab γ_ab S_ab`, for an arbitrary matrix `γ`. -/
theorem density_integral_eq_trace (γ : ι → ι → ℝ) (s : ι → Shell ℝ) (m c : ι → ℕ)
    (hs : ∀ i, ∀ k < (s i).nprim, 0 < (s i).exp! k) :
    ∫ r : ℝ × ℝ × ℝ, (∑ a, ∑ b, γ a b * shellFn (s a) (m a) (c a) r * shellFn (s b) (m b) (c b) r)
      = ∑ a, ∑ b, γ a b * overlapMat s m c a b := by
  unfold overlapMat
  simp_rw [fun a b => overlapBlock_eq_integral (s a) (s b) (m a) (c a) (m b) (c b) (hs a) (hs b)]
  rw [trace_integral volume (fun a b r => shellFn (s a) (m a) (c a) r * shellFn (s b) (m b) (c b) r)
    (fun a b => integrable_shellFn_mul _ _ _ _ _ _ (hs a) (hs b))]
  simp only [mul_assoc]

/-- the same with the named density -/
theorem integral_density (γ : ι → ι → ℝ) (s : ι → Shell ℝ) (m c : ι → ℕ)
    (hs : ∀ i, ∀ k < (s i).nprim, 0 < (s i).exp! k) :
    ∫ r, density γ s m c r = ∑ a, ∑ b, γ a b * overlapMat s m c a b :=
  density_integral_eq_trace γ s m c hs

end Overlap

/-! ## 2. The positive-definite kinetic-energy density integrates to `tr(γ T)` -/
section Kinetic
variable {ι : Type*} [Fintype ι]

/-- `∇φ_a · ∇φ_b` -/
noncomputable def gradDot (s t : Shell ℝ) (ma ca mb cb : ℕ) (r : ℝ × ℝ × ℝ) : ℝ :=
  shellDerivFn s ma ca (1,0,0) r * shellDerivFn t mb cb (1,0,0) r
    + shellDerivFn s ma ca (0,1,0) r * shellDerivFn t mb cb (0,1,0) r
    + shellDerivFn s ma ca (0,0,1) r * shellDerivFn t mb cb (0,0,1) r

lemma integrable_gradDot (s t : Shell ℝ) (ma ca mb cb : ℕ)
    (hs : ∀ k < s.nprim, 0 < s.exp! k) (ht : ∀ k < t.nprim, 0 < t.exp! k) :
    Integrable (gradDot s t ma ca mb cb) :=
  ((integrable_shellDeriv_mul s t _ _ ma ca mb cb hs ht).add
    (integrable_shellDeriv_mul s t _ _ ma ca mb cb hs ht)).add
    (integrable_shellDeriv_mul s t _ _ ma ca mb cb hs ht)

/-- the kinetic block is `½ ∫ ∇φ_a · ∇φ_b` (single integral) -/
theorem kineticBlock_eq_gradDot (s t : Shell ℝ) (ma ca mb cb : ℕ)
    (hs : ∀ k < s.nprim, 0 < s.exp! k) (ht : ∀ k < t.nprim, 0 < t.exp! k)
    (hc : (s.comp! ca).1 ≤ s.l ∧ (s.comp! ca).2.1 ≤ s.l ∧ (s.comp! ca).2.2 ≤ s.l) :
    (kineticBlock s t).get4 ma ca mb cb = 1 / 2 * ∫ r, gradDot s t ma ca mb cb r := by
  rw [kineticBlock_eq_gradient s t ma ca mb cb hs ht hc]
  unfold gradDot
  have h1 := integrable_shellDeriv_mul s t (1,0,0) (1,0,0) ma ca mb cb hs ht
  have h2 := integrable_shellDeriv_mul s t (0,1,0) (0,1,0) ma ca mb cb hs ht
  have h3 := integrable_shellDeriv_mul s t (0,0,1) (0,0,1) ma ca mb cb hs ht
  have h12 : Integrable fun r : ℝ × ℝ × ℝ =>
      shellDerivFn s ma ca (1,0,0) r * shellDerivFn t mb cb (1,0,0) r
        + shellDerivFn s ma ca (0,1,0) r * shellDerivFn t mb cb (0,1,0) r := h1.add h2
  rw [integral_add h12 h3, integral_add h1 h2]

/-- **The positive-definite kinetic-energy density integrates to the trace of density matrix times
kinetic-energy matrix**: `∫ ½ Σ_ab γ_ab ∇φ_a·∇φ_b = Σ_ab γ_ab T_ab`, for an arbitrary matrix `γ`. -/
theorem posdef_kinetic_density_integral_eq_trace (γ : ι → ι → ℝ) (s : ι → Shell ℝ) (m c : ι → ℕ)
    (hs : ∀ i, ∀ k < (s i).nprim, 0 < (s i).exp! k)
    (hc : ∀ i, ((s i).comp! (c i)).1 ≤ (s i).l ∧ ((s i).comp! (c i)).2.1 ≤ (s i).l
      ∧ ((s i).comp! (c i)).2.2 ≤ (s i).l) :
    ∫ r : ℝ × ℝ × ℝ, 1 / 2 * ∑ a, ∑ b, γ a b *
        (shellDerivFn (s a) (m a) (c a) (1,0,0) r * shellDerivFn (s b) (m b) (c b) (1,0,0) r
          + shellDerivFn (s a) (m a) (c a) (0,1,0) r * shellDerivFn (s b) (m b) (c b) (0,1,0) r
          + shellDerivFn (s a) (m a) (c a) (0,0,1) r * shellDerivFn (s b) (m b) (c b) (0,0,1) r)
      = ∑ a, ∑ b, γ a b * kineticMat s m c a b := by
  unfold kineticMat
  simp_rw [fun a b => kineticBlock_eq_gradDot (s a) (s b) (m a) (c a) (m b) (c b) (hs a) (hs b)
    (hc a)]
  have e : ∀ a b, γ a b * (1 / 2 * ∫ r, gradDot (s a) (s b) (m a) (c a) (m b) (c b) r)
      = 1 / 2 * (γ a b * ∫ r, gradDot (s a) (s b) (m a) (c a) (m b) (c b) r) := fun a b => by ring
  simp_rw [e, ← Finset.mul_sum]
  rw [trace_integral volume (fun a b r => gradDot (s a) (s b) (m a) (c a) (m b) (c b) r)
    (fun a b => integrable_gradDot _ _ _ _ _ _ (hs a) (hs b)), integral_const_mul]
  rfl

/-- the same as the sum over the three axes of the integrals of `Σ γ_ab ∂_k φ_a ∂_k φ_b` -/
theorem posdef_kinetic_trace_axes (γ : ι → ι → ℝ) (s : ι → Shell ℝ) (m c : ι → ℕ)
    (hs : ∀ i, ∀ k < (s i).nprim, 0 < (s i).exp! k)
    (hc : ∀ i, ((s i).comp! (c i)).1 ≤ (s i).l ∧ ((s i).comp! (c i)).2.1 ≤ (s i).l
      ∧ ((s i).comp! (c i)).2.2 ≤ (s i).l) :
    ∑ a, ∑ b, γ a b * kineticMat s m c a b
      = 1 / 2 * ((∫ r : ℝ × ℝ × ℝ, ∑ a, ∑ b, γ a b *
            (shellDerivFn (s a) (m a) (c a) (1,0,0) r * shellDerivFn (s b) (m b) (c b) (1,0,0) r))
          + (∫ r : ℝ × ℝ × ℝ, ∑ a, ∑ b, γ a b *
            (shellDerivFn (s a) (m a) (c a) (0,1,0) r * shellDerivFn (s b) (m b) (c b) (0,1,0) r))
          + (∫ r : ℝ × ℝ × ℝ, ∑ a, ∑ b, γ a b *
            (shellDerivFn (s a) (m a) (c a) (0,0,1) r * shellDerivFn (s b) (m b) (c b) (0,0,1) r))) := by
  rw [← trace_integral volume (fun a b r => shellDerivFn (s a) (m a) (c a) (1,0,0) r
      * shellDerivFn (s b) (m b) (c b) (1,0,0) r)
      (fun a b => integrable_shellDeriv_mul _ _ _ _ _ _ _ _ (hs a) (hs b)),
    ← trace_integral volume (fun a b r => shellDerivFn (s a) (m a) (c a) (0,1,0) r
      * shellDerivFn (s b) (m b) (c b) (0,1,0) r)
      (fun a b => integrable_shellDeriv_mul _ _ _ _ _ _ _ _ (hs a) (hs b)),
    ← trace_integral volume (fun a b r => shellDerivFn (s a) (m a) (c a) (0,0,1) r
      * shellDerivFn (s b) (m b) (c b) (0,0,1) r)
      (fun a b => integrable_shellDeriv_mul _ _ _ _ _ _ _ _ (hs a) (hs b))]
  unfold kineticMat
  simp_rw [fun a b => kineticBlock_eq_gradient (s a) (s b) (m a) (c a) (m b) (c b) (hs a) (hs b)
    (hc a)]
  rw [← Finset.sum_add_distrib, ← Finset.sum_add_distrib, Finset.mul_sum]
  refine Finset.sum_congr rfl fun a _ => ?_
  rw [← Finset.sum_add_distrib, ← Finset.sum_add_distrib, Finset.mul_sum]
  refine Finset.sum_congr rfl fun b _ => ?_
  ring

end Kinetic

/-! ## 3. The electronic potential of the density -/
section PointCharge
variable {ι : Type*} [Fintype ι]

/-- the density `ρ(r) = Σ_ab γ_ab φ_a(r) φ_b(r)` on `E3` -/
noncomputable def densityE (γ : ι → ι → ℝ) (s : ι → Shell ℝ) (m c : ι → ℕ) (r : E3) : ℝ :=
  ∑ a, ∑ b, γ a b * shellFnE (s a) (m a) (c a) r * shellFnE (s b) (m b) (c b) r

lemma densityE_div (γ : ι → ι → ℝ) (s : ι → Shell ℝ) (m c : ι → ℕ) (Cc : E3) (r : E3) :
    (∑ a, ∑ b, γ a b * shellFnE (s a) (m a) (c a) r * shellFnE (s b) (m b) (c b) r) / ‖r - Cc‖
      = ∑ a, ∑ b, γ a b
          * (shellFnE (s a) (m a) (c a) r * shellFnE (s b) (m b) (c b) r / ‖r - Cc‖) := by
  rw [Finset.sum_div]
  refine Finset.sum_congr rfl fun a _ => ?_
  rw [Finset.sum_div]
  refine Finset.sum_congr rfl fun b _ => ?_
  ring

/-- `ρ(r)/|r - C|` is integrable -/
theorem integrable_densityE_div (γ : ι → ι → ℝ) (s : ι → Shell ℝ) (m c : ι → ℕ) (Cc : E3)
    (hs : ∀ i, ∀ k, k < (s i).nprim → 0 < (s i).exp! k) :
    Integrable fun r : E3 => densityE γ s m c r / ‖r - Cc‖ := by
  unfold densityE
  simp_rw [densityE_div]
  exact trace_integrable volume (fun a b r => shellFnE (s a) (m a) (c a) r
      * shellFnE (s b) (m b) (c b) r / ‖r - Cc‖)
    (fun a b => integrable_shellFnE_mul_div _ _ _ _ _ _ _ (hs a) (hs b)) γ

/-- **The density matrix contracted with the point-charge matrix is `-q` times the Coulomb
potential of the density at the charge**: `Σ_ab γ_ab V_ab = -q ∫ ρ(r)/|r - C|`, for an arbitrary
matrix `γ`. -/
theorem electronic_potential_eq_integral (boysT : ℝ → ℕ → Tab ℝ)
    (hboys : ∀ T n m, m < n → (boysT T n).get m = boys T m) (Cpt : ℕ → ℝ) (q : ℝ)
    (γ : ι → ι → ℝ) (s : ι → Shell ℝ) (m c : ι → ℕ)
    (hs : ∀ i, ∀ k, k < (s i).nprim → 0 < (s i).exp! k)
    (hc : ∀ i, ((s i).comp! (c i)).1 + ((s i).comp! (c i)).2.1 + ((s i).comp! (c i)).2.2 ≤ (s i).l) :
    ∑ a, ∑ b, γ a b * pointChargeMat boysT Cpt q s m c a b
      = -q * ∫ r : E3,
          (∑ a, ∑ b, γ a b * shellFnE (s a) (m a) (c a) r * shellFnE (s b) (m b) (c b) r)
            / ‖r - toE3 Cpt‖ := by
  unfold pointChargeMat
  simp_rw [fun a b => pointChargeBlock_eq_integral boysT hboys (s a) (s b) Cpt q (m a) (c a)
    (m b) (c b) (hs a) (hs b) (hc a) (hc b)]
  have e : ∀ a b, γ a b * (-q * ∫ r : E3, shellFnE (s a) (m a) (c a) r
        * shellFnE (s b) (m b) (c b) r / ‖r - toE3 Cpt‖)
      = -q * (γ a b * ∫ r : E3, shellFnE (s a) (m a) (c a) r
        * shellFnE (s b) (m b) (c b) r / ‖r - toE3 Cpt‖) := fun a b => by ring
  simp_rw [e, ← Finset.mul_sum]
  congr 1
  rw [trace_integral volume (fun a b r => shellFnE (s a) (m a) (c a) r
      * shellFnE (s b) (m b) (c b) r / ‖r - toE3 Cpt‖)
    (fun a b => integrable_shellFnE_mul_div _ _ _ _ _ _ _ (hs a) (hs b))]
  simp_rw [densityE_div]

/-- with the named density -/
theorem electronic_potential_eq_integral_density (boysT : ℝ → ℕ → Tab ℝ)
    (hboys : ∀ T n m, m < n → (boysT T n).get m = boys T m) (Cpt : ℕ → ℝ) (q : ℝ)
    (γ : ι → ι → ℝ) (s : ι → Shell ℝ) (m c : ι → ℕ)
    (hs : ∀ i, ∀ k, k < (s i).nprim → 0 < (s i).exp! k)
    (hc : ∀ i, ((s i).comp! (c i)).1 + ((s i).comp! (c i)).2.1 + ((s i).comp! (c i)).2.2 ≤ (s i).l) :
    ∑ a, ∑ b, γ a b * pointChargeMat boysT Cpt q s m c a b
      = -q * ∫ r : E3, densityE γ s m c r / ‖r - toE3 Cpt‖ :=
  electronic_potential_eq_integral boysT hboys Cpt q γ s m c hs hc

/-! ### The electrostatic potential of the model -/

/-- the Hartree term of the model at the point `R`: the density matrix contracted with the
point-charge integrals of a charge at `R`, with the sign that makes it `+∫ ρ/|r-R|`
(`-Σ γ_ab V_ab` for `q = 1`; see `espHartree_eq_neg_one` for the equivalent `q = -1` reading) -/
noncomputable def espHartree (boysT : ℝ → ℕ → Tab ℝ) (R : ℕ → ℝ) (γ : ι → ι → ℝ)
    (s : ι → Shell ℝ) (m c : ι → ℕ) : ℝ :=
  -∑ a, ∑ b, γ a b * pointChargeMat boysT R 1 s m c a b

/-- the electrostatic potential of the model at `R`: nuclear term `espNuclear` of the model (charges
`Zs`, distances `ds` of the nuclei to `R`, threshold `t`) minus the Hartree term -/
noncomputable def espValue (boysT : ℝ → ℕ → Tab ℝ) (R : ℕ → ℝ) (Zs ds : List ℚ) (t : ℚ)
    (γ : ι → ι → ℝ) (s : ι → Shell ℝ) (m c : ι → ℕ) : ℝ :=
  ((espNuclear Zs ds t : ℚ) : ℝ) - espHartree boysT R γ s m c

/-- **The Hartree term is the Coulomb potential of the density**: `∫ ρ(r)/|r - R|`. -/
theorem espHartree_eq_integral (boysT : ℝ → ℕ → Tab ℝ)
    (hboys : ∀ T n m, m < n → (boysT T n).get m = boys T m) (R : ℕ → ℝ)
    (γ : ι → ι → ℝ) (s : ι → Shell ℝ) (m c : ι → ℕ)
    (hs : ∀ i, ∀ k, k < (s i).nprim → 0 < (s i).exp! k)
    (hc : ∀ i, ((s i).comp! (c i)).1 + ((s i).comp! (c i)).2.1 + ((s i).comp! (c i)).2.2 ≤ (s i).l) :
    espHartree boysT R γ s m c = ∫ r : E3, densityE γ s m c r / ‖r - toE3 R‖ := by
  unfold espHartree
  rw [electronic_potential_eq_integral_density boysT hboys R 1 γ s m c hs hc]
  ring

/-- the reading of the code: point-charge integrals with the charges `-1`, contracted with `γ` -/
theorem espHartree_eq_neg_one (boysT : ℝ → ℕ → Tab ℝ)
    (hboys : ∀ T n m, m < n → (boysT T n).get m = boys T m) (R : ℕ → ℝ)
    (γ : ι → ι → ℝ) (s : ι → Shell ℝ) (m c : ι → ℕ)
    (hs : ∀ i, ∀ k, k < (s i).nprim → 0 < (s i).exp! k)
    (hc : ∀ i, ((s i).comp! (c i)).1 + ((s i).comp! (c i)).2.1 + ((s i).comp! (c i)).2.2 ≤ (s i).l) :
    espHartree boysT R γ s m c = ∑ a, ∑ b, γ a b * pointChargeMat boysT R (-1) s m c a b := by
  rw [espHartree_eq_integral boysT hboys R γ s m c hs hc,
    electronic_potential_eq_integral_density boysT hboys R (-1) γ s m c hs hc]
  ring

omit [Fintype ι] in
/-- the nuclear term of the model over the reals: `Σ_A (if d_A < t then 0 else Z_A/d_A)` -/
theorem espNuclear_cast (Zs ds : List ℚ) (t : ℚ) (ht : 0 ≤ t) (hds : ∀ d ∈ ds, 0 ≤ d) :
    ((espNuclear Zs ds t : ℚ) : ℝ)
      = ((Zs.zip ds).map fun p : ℚ × ℚ =>
          if (p.2 : ℝ) < (t : ℝ) then (0 : ℝ) else (p.1 : ℝ) / (p.2 : ℝ)).sum := by
  unfold espNuclear
  have hl : ∀ p ∈ Zs.zip ds, (0 : ℚ) ≤ p.2 := fun p hp => hds p.2 (List.of_mem_zip hp).2
  generalize Zs.zip ds = l at hl
  induction l with
  | nil => simp
  | cons p l ih =>
    have hp : 0 ≤ p.2 := hl p List.mem_cons_self
    have ih' := ih fun q hq => hl q (List.mem_cons_of_mem _ hq)
    rw [List.map_cons, List.sum_cons, List.map_cons, List.sum_cons, Rat.cast_add, ih']
    congr 1
    by_cases h : p.2 < t
    · have hm : espMasked (p.2 * p.2) t = true := (espMasked_iff p.2 t hp ht).mpr h
      have h' : (p.2 : ℝ) < (t : ℝ) := by exact_mod_cast h
      simp [hm, h']
    · have hm : espMasked (p.2 * p.2) t = false := by
        rw [espMasked_eq_false_iff p.2 t hp ht]; exact not_lt.mp h
      have h' : ¬ (p.2 : ℝ) < (t : ℝ) := by exact_mod_cast h
      simp [hm, h']

/-- **The electrostatic potential of the model** at the point `R`:
`Σ_A (if d_A < t then 0 else Z_A/d_A) - ∫ ρ(r)/|r - R|`, for an arbitrary density matrix `γ`,
nuclei of charges `Z_A` at the (non-negative) distances `d_A` from `R`, threshold `t ≥ 0`. -/
theorem espValue_eq (boysT : ℝ → ℕ → Tab ℝ)
    (hboys : ∀ T n m, m < n → (boysT T n).get m = boys T m) (R : ℕ → ℝ)
    (Zs ds : List ℚ) (t : ℚ) (ht : 0 ≤ t) (hds : ∀ d ∈ ds, 0 ≤ d)
    (γ : ι → ι → ℝ) (s : ι → Shell ℝ) (m c : ι → ℕ)
    (hs : ∀ i, ∀ k, k < (s i).nprim → 0 < (s i).exp! k)
    (hc : ∀ i, ((s i).comp! (c i)).1 + ((s i).comp! (c i)).2.1 + ((s i).comp! (c i)).2.2 ≤ (s i).l) :
    espValue boysT R Zs ds t γ s m c
      = ((Zs.zip ds).map fun p : ℚ × ℚ =>
            if (p.2 : ℝ) < (t : ℝ) then (0 : ℝ) else (p.1 : ℝ) / (p.2 : ℝ)).sum
        - ∫ r : E3,
            (∑ a, ∑ b, γ a b * shellFnE (s a) (m a) (c a) r * shellFnE (s b) (m b) (c b) r)
              / ‖r - toE3 R‖ := by
  unfold espValue
  rw [espNuclear_cast Zs ds t ht hds, espHartree_eq_integral boysT hboys R γ s m c hs hc]
  rfl

/-- with the filtered form of `espNuclear_spec`: only the nuclei at distance `≥ t` contribute -/
theorem espValue_eq_filter (boysT : ℝ → ℕ → Tab ℝ)
    (hboys : ∀ T n m, m < n → (boysT T n).get m = boys T m) (R : ℕ → ℝ)
    (Zs ds : List ℚ) (t : ℚ) (ht : 0 ≤ t) (hds : ∀ d ∈ ds, 0 ≤ d)
    (γ : ι → ι → ℝ) (s : ι → Shell ℝ) (m c : ι → ℕ)
    (hs : ∀ i, ∀ k, k < (s i).nprim → 0 < (s i).exp! k)
    (hc : ∀ i, ((s i).comp! (c i)).1 + ((s i).comp! (c i)).2.1 + ((s i).comp! (c i)).2.2 ≤ (s i).l) :
    espValue boysT R Zs ds t γ s m c
      = (((((Zs.zip ds).filter fun p => decide (¬ p.2 < t)).map fun p => p.1 / p.2).sum : ℚ) : ℝ)
        - ∫ r : E3, densityE γ s m c r / ‖r - toE3 R‖ := by
  unfold espValue
  rw [espNuclear_spec Zs ds t ht hds, espHartree_eq_integral boysT hboys R γ s m c hs hc]

/-- a point without nuclei: the potential is minus the Coulomb potential of the density -/
theorem espValue_no_nuclei (boysT : ℝ → ℕ → Tab ℝ)
    (hboys : ∀ T n m, m < n → (boysT T n).get m = boys T m) (R : ℕ → ℝ) (t : ℚ)
    (γ : ι → ι → ℝ) (s : ι → Shell ℝ) (m c : ι → ℕ)
    (hs : ∀ i, ∀ k, k < (s i).nprim → 0 < (s i).exp! k)
    (hc : ∀ i, ((s i).comp! (c i)).1 + ((s i).comp! (c i)).2.1 + ((s i).comp! (c i)).2.2 ≤ (s i).l) :
    espValue boysT R [] [] t γ s m c = -∫ r : E3, densityE γ s m c r / ‖r - toE3 R‖ := by
  unfold espValue
  rw [espHartree_eq_integral boysT hboys R γ s m c hs hc]
  simp [espNuclear]

end PointCharge

/-! ## 4. Multipole moments of the density -/
section Moment
variable {ι : Type*} [Fintype ι]

/-- the moment matrix number `d` of the order list, about `O` -/
noncomputable def momentMat (O : ℕ → ℝ) (orders : List Comp) (d : ℕ)
    (s : ι → Shell ℝ) (m c : ι → ℕ) (i j : ι) : ℝ :=
  ((momentBlock (s i) (s j) O orders).get d).get4 (m i) (c i) (m j) (c j)

/-- **The density matrix contracted with a moment matrix is the moment of the density**:
`Σ_ab γ_ab ⟨a|(x-O_x)^i (y-O_y)^j (z-O_z)^k|b⟩ = ∫ ρ(r) (x-O_x)^i (y-O_y)^j (z-O_z)^k`, for an
arbitrary matrix `γ` and every order `(i,j,k) = orders[d]` (e.g. the dipole moments). -/
theorem moment_integral_eq_trace (O : ℕ → ℝ) (orders : List Comp) (d : ℕ)
    (γ : ι → ι → ℝ) (s : ι → Shell ℝ) (m c : ι → ℕ)
    (hs : ∀ i, ∀ k < (s i).nprim, 0 < (s i).exp! k) :
    ∑ a, ∑ b, γ a b * momentMat O orders d s m c a b
      = ∫ r : ℝ × ℝ × ℝ,
          (∑ a, ∑ b, γ a b * shellFn (s a) (m a) (c a) r * shellFn (s b) (m b) (c b) r)
            * ((r.1 - O 0)^(orders.getD d (0,0,0)).1 * (r.2.1 - O 1)^(orders.getD d (0,0,0)).2.1
                * (r.2.2 - O 2)^(orders.getD d (0,0,0)).2.2) := by
  unfold momentMat
  simp_rw [fun a b => momentBlock_eq_integral_mono (s a) (s b) O orders d (m a) (c a) (m b) (c b)
    (hs a) (hs b)]
  rw [trace_integral volume (fun a b r => shellFn (s a) (m a) (c a) r * shellFn (s b) (m b) (c b) r
      * monoFn O (orders.getD d (0,0,0)) r)
    (fun a b => integrable_shell_mul _ _ _ _ _ _ _ _ (hs a) (hs b))]
  refine integral_congr_ae (Filter.Eventually.of_forall fun r => ?_)
  simp only [monoFn]
  rw [Finset.sum_mul]
  refine Finset.sum_congr rfl fun a _ => ?_
  rw [Finset.sum_mul]
  refine Finset.sum_congr rfl fun b _ => ?_
  ring

/-- the three dipole components, for the order list `[(1,0,0), (0,1,0), (0,0,1)]` -/
theorem dipole_integral_eq_trace (O : ℕ → ℝ) (γ : ι → ι → ℝ) (s : ι → Shell ℝ) (m c : ι → ℕ)
    (hs : ∀ i, ∀ k < (s i).nprim, 0 < (s i).exp! k) :
    (∑ a, ∑ b, γ a b * momentMat O [(1,0,0), (0,1,0), (0,0,1)] 0 s m c a b
        = ∫ r : ℝ × ℝ × ℝ, density γ s m c r * (r.1 - O 0))
    ∧ (∑ a, ∑ b, γ a b * momentMat O [(1,0,0), (0,1,0), (0,0,1)] 1 s m c a b
        = ∫ r : ℝ × ℝ × ℝ, density γ s m c r * (r.2.1 - O 1))
    ∧ (∑ a, ∑ b, γ a b * momentMat O [(1,0,0), (0,1,0), (0,0,1)] 2 s m c a b
        = ∫ r : ℝ × ℝ × ℝ, density γ s m c r * (r.2.2 - O 2)) := by
  refine ⟨?_, ?_, ?_⟩
  · rw [moment_integral_eq_trace O _ 0 γ s m c hs]
    simp [density]
  · rw [moment_integral_eq_trace O _ 1 γ s m c hs]
    simp [density]
  · rw [moment_integral_eq_trace O _ 2 γ s m c hs]
    simp [density]

end Moment

/-! ## 5. The kinetic-energy block under rigid motions -/
section KineticRigid
open Finset InnerProductSpace

lemma differentiable_primFnE (α : ℝ) (A : E3) (c : Comp) : Differentiable ℝ (primFnE α A c) := by
  have h1 : Differentiable ℝ fun r : E3 => ‖r - A‖^2 := (differentiable_id.sub_const A).norm_sq ℝ
  have h0 : ∀ k : Fin 3, Differentiable ℝ fun r : E3 => r k :=
    fun k => (EuclideanSpace.proj k : E3 →L[ℝ] ℝ).differentiable
  unfold primFnE
  exact ((((((h0 0).sub_const _).pow _).mul (((h0 1).sub_const _).pow _)).mul
    (((h0 2).sub_const _).pow _))).mul (Real.differentiable_exp.comp (h1.const_mul _))

lemma differentiable_shellFnE (s : Shell ℝ) (m c : ℕ) : Differentiable ℝ (shellFnE s m c) := by
  unfold shellFnE
  exact Differentiable.fun_sum fun k _ => (differentiable_primFnE _ _ _).const_mul _

/-- the standard unit vector of axis `k` -/
noncomputable def eAx (k : Fin 3) : E3 := EuclideanSpace.single k 1

lemma fderiv_shellFnE_ax0 (s : Shell ℝ) (m c : ℕ) (r : E3) :
    fderiv ℝ (shellFnE s m c) r (eAx 0) = shellDerivFn s m c (1,0,0) (e3Equiv r) := by
  rw [← (differentiable_shellFnE s m c r).lineDeriv_eq_fderiv]
  unfold lineDeriv
  have e : (fun t : ℝ => shellFnE s m c (r + t • eAx 0))
      = fun t => shellFn s m c (r 0 + t, r 1, r 2) := by
    funext t
    rw [← shellFn_e3Equiv, e3Equiv_apply]
    simp [eAx]
  rw [e, e3Equiv_apply]
  have h := hasDerivAt_shellFn_x s m c (r 0) (r 1) (r 2)
  have h' : HasDerivAt (fun x' => shellFn s m c (x', r 1, r 2))
      (shellDerivFn s m c (1,0,0) (r 0, r 1, r 2)) (r 0 + 0) := by rwa [add_zero]
  exact (h'.comp_const_add (r 0) 0).deriv

lemma fderiv_shellFnE_ax1 (s : Shell ℝ) (m c : ℕ) (r : E3) :
    fderiv ℝ (shellFnE s m c) r (eAx 1) = shellDerivFn s m c (0,1,0) (e3Equiv r) := by
  rw [← (differentiable_shellFnE s m c r).lineDeriv_eq_fderiv]
  unfold lineDeriv
  have e : (fun t : ℝ => shellFnE s m c (r + t • eAx 1))
      = fun t => shellFn s m c (r 0, r 1 + t, r 2) := by
    funext t
    rw [← shellFn_e3Equiv, e3Equiv_apply]
    simp [eAx]
  rw [e, e3Equiv_apply]
  have h := hasDerivAt_shellFn_y s m c (r 0) (r 1) (r 2)
  have h' : HasDerivAt (fun y' => shellFn s m c (r 0, y', r 2))
      (shellDerivFn s m c (0,1,0) (r 0, r 1, r 2)) (r 1 + 0) := by rwa [add_zero]
  exact (h'.comp_const_add (r 1) 0).deriv

lemma fderiv_shellFnE_ax2 (s : Shell ℝ) (m c : ℕ) (r : E3) :
    fderiv ℝ (shellFnE s m c) r (eAx 2) = shellDerivFn s m c (0,0,1) (e3Equiv r) := by
  rw [← (differentiable_shellFnE s m c r).lineDeriv_eq_fderiv]
  unfold lineDeriv
  have e : (fun t : ℝ => shellFnE s m c (r + t • eAx 2))
      = fun t => shellFn s m c (r 0, r 1, r 2 + t) := by
    funext t
    rw [← shellFn_e3Equiv, e3Equiv_apply]
    simp [eAx]
  rw [e, e3Equiv_apply]
  have h := hasDerivAt_shellFn_z s m c (r 0) (r 1) (r 2)
  have h' : HasDerivAt (fun z' => shellFn s m c (r 0, r 1, z'))
      (shellDerivFn s m c (0,0,1) (r 0, r 1, r 2)) (r 2 + 0) := by rwa [add_zero]
  exact (h'.comp_const_add (r 2) 0).deriv

/-- Euclidean dot product of two covectors (differentials), in the standard basis:
`Σ_k L₁(e_k) L₂(e_k)` -/
noncomputable def covDot (L₁ L₂ : E3 →L[ℝ] ℝ) : ℝ := ∑ k : Fin 3, L₁ (eAx k) * L₂ (eAx k)

lemma covDot_eq_inner (L₁ L₂ : E3 →L[ℝ] ℝ) :
    covDot L₁ L₂ = ⟪(toDual ℝ E3).symm L₁, (toDual ℝ E3).symm L₂⟫_ℝ := by
  unfold covDot
  rw [← (EuclideanSpace.basisFun (Fin 3) ℝ).sum_inner_mul_inner]
  refine Finset.sum_congr rfl fun k _ => ?_
  rw [EuclideanSpace.basisFun_apply, toDual_symm_apply, real_inner_comm, toDual_symm_apply]
  rfl

/-- **the dot product of covectors is invariant under every linear isometry** -/
lemma covDot_comp (R : E3 ≃ₗᵢ[ℝ] E3) (L₁ L₂ : E3 →L[ℝ] ℝ) :
    covDot (L₁.comp (R : E3 →L[ℝ] E3)) (L₂.comp (R : E3 →L[ℝ] E3)) = covDot L₁ L₂ := by
  rw [covDot_eq_inner L₁ L₂, ← ((EuclideanSpace.basisFun (Fin 3) ℝ).map R).sum_inner_mul_inner]
  unfold covDot
  refine Finset.sum_congr rfl fun k _ => ?_
  rw [OrthonormalBasis.map_apply, EuclideanSpace.basisFun_apply, toDual_symm_apply, real_inner_comm,
    toDual_symm_apply]
  rfl

lemma covDot_sum_sum {ι₁ ι₂ : Type*} (S₁ : Finset ι₁) (S₂ : Finset ι₂) (D₁ : ι₁ → ℝ) (D₂ : ι₂ → ℝ)
    (L₁ : ι₁ → E3 →L[ℝ] ℝ) (L₂ : ι₂ → E3 →L[ℝ] ℝ) :
    covDot (∑ j ∈ S₁, D₁ j • L₁ j) (∑ l ∈ S₂, D₂ l • L₂ l)
      = ∑ j ∈ S₁, ∑ l ∈ S₂, D₁ j * D₂ l * covDot (L₁ j) (L₂ l) := by
  unfold covDot
  simp only [_root_.sum_apply, _root_.smul_apply, smul_eq_mul,
    Fin.sum_univ_three]
  simp only [Finset.sum_mul_sum, ← Finset.sum_add_distrib]
  refine Finset.sum_congr rfl fun j _ => Finset.sum_congr rfl fun l _ => ?_
  ring

/-- the differential of an affine isometry is its linear part -/
lemma affineIso_hasFDerivAt (g : E3 ≃ᵃⁱ[ℝ] E3) (r : E3) :
    HasFDerivAt (g : E3 → E3) ((g.linearIsometryEquiv : E3 ≃ₗᵢ[ℝ] E3) : E3 →L[ℝ] E3) r := by
  have e : (g : E3 → E3) = fun r => g.linearIsometryEquiv r + g 0 := funext (affineIso_apply g)
  rw [e]
  exact ((g.linearIsometryEquiv : E3 →L[ℝ] E3).hasFDerivAt).add_const (g 0)

/-- chain rule: the differential of `ψ` at `g r`, composed with the linear part of `g` -/
lemma fderiv_comp_moved {κ : Type*} (g : E3 ≃ᵃⁱ[ℝ] E3) (S : Finset κ) (ψ : E3 → ℝ)
    (φ : κ → E3 → ℝ) (D : κ → ℝ) (h : ∀ r, ψ (g r) = ∑ j ∈ S, D j * φ j r)
    (hψ : Differentiable ℝ ψ) (hφ : ∀ j, Differentiable ℝ (φ j)) (r : E3) :
    (fderiv ℝ ψ (g r)).comp ((g.linearIsometryEquiv : E3 ≃ₗᵢ[ℝ] E3) : E3 →L[ℝ] E3)
      = ∑ j ∈ S, D j • fderiv ℝ (φ j) r := by
  have hc : HasFDerivAt (ψ ∘ g)
      ((fderiv ℝ ψ (g r)).comp ((g.linearIsometryEquiv : E3 ≃ₗᵢ[ℝ] E3) : E3 →L[ℝ] E3)) r :=
    (hψ (g r)).hasFDerivAt.comp r (affineIso_hasFDerivAt g r)
  have e : (ψ ∘ g) = fun r => ∑ j ∈ S, D j * φ j r := funext h
  rw [e] at hc
  have hs : HasFDerivAt (fun r => ∑ j ∈ S, D j * φ j r) (∑ j ∈ S, D j • fderiv ℝ (φ j) r) r :=
    HasFDerivAt.fun_sum fun j _ => ((hφ j r).hasFDerivAt).const_mul (D j)
  exact hc.unique hs

/-- **Covariance of `∇ψ₁·∇ψ₂`**: if `ψ_i ∘ g` are linear combinations of the `φ`, the dot product of
the gradients of the `ψ` at `g r` is the bilinear combination of those of the `φ` at `r`. -/
theorem covDot_fderiv_moved {ι₁ ι₂ : Type*} (g : E3 ≃ᵃⁱ[ℝ] E3) (S₁ : Finset ι₁) (S₂ : Finset ι₂)
    (ψ₁ ψ₂ : E3 → ℝ) (φ₁ : ι₁ → E3 → ℝ) (φ₂ : ι₂ → E3 → ℝ) (D₁ : ι₁ → ℝ) (D₂ : ι₂ → ℝ)
    (h₁ : ∀ r, ψ₁ (g r) = ∑ j ∈ S₁, D₁ j * φ₁ j r) (h₂ : ∀ r, ψ₂ (g r) = ∑ l ∈ S₂, D₂ l * φ₂ l r)
    (hψ₁ : Differentiable ℝ ψ₁) (hψ₂ : Differentiable ℝ ψ₂)
    (hφ₁ : ∀ j, Differentiable ℝ (φ₁ j)) (hφ₂ : ∀ l, Differentiable ℝ (φ₂ l)) (r : E3) :
    covDot (fderiv ℝ ψ₁ (g r)) (fderiv ℝ ψ₂ (g r))
      = ∑ j ∈ S₁, ∑ l ∈ S₂, D₁ j * D₂ l * covDot (fderiv ℝ (φ₁ j) r) (fderiv ℝ (φ₂ l) r) := by
  rw [← covDot_comp g.linearIsometryEquiv, fderiv_comp_moved g S₁ ψ₁ φ₁ D₁ h₁ hψ₁ hφ₁ r, fderiv_comp_moved g S₂ ψ₂ φ₂ D₂ h₂ hψ₂ hφ₂ r,
    covDot_sum_sum]

/-- `∇φ_a·∇φ_b` on `E3` is `gradDot` in coordinates -/
lemma covDot_shellFnE (s t : Shell ℝ) (ma ca mb cb : ℕ) (r : E3) :
    covDot (fderiv ℝ (shellFnE s ma ca) r) (fderiv ℝ (shellFnE t mb cb) r)
      = gradDot s t ma ca mb cb (e3Equiv r) := by
  unfold covDot gradDot
  rw [Fin.sum_univ_three]
  simp only [fderiv_shellFnE_ax0, fderiv_shellFnE_ax1, fderiv_shellFnE_ax2]

lemma integrable_covDot_shellFnE (s t : Shell ℝ) (ma ca mb cb : ℕ)
    (hs : ∀ k < s.nprim, 0 < s.exp! k) (ht : ∀ k < t.nprim, 0 < t.exp! k) :
    Integrable fun r : E3 =>
      covDot (fderiv ℝ (shellFnE s ma ca) r) (fderiv ℝ (shellFnE t mb cb) r) := by
  simp_rw [covDot_shellFnE]
  exact (e3Equiv_measurePreserving.integrable_comp_emb e3Equiv.measurableEmbedding).mpr
    (integrable_gradDot s t ma ca mb cb hs ht)

/-- **the kinetic block as an integral over `E3`**: `½ ∫ ∇φ_a · ∇φ_b` with the Fréchet
differentials of the functions `shellFnE` -/
theorem kineticBlock_eq_integral_E3 (s t : Shell ℝ) (ma ca mb cb : ℕ)
    (hs : ∀ k < s.nprim, 0 < s.exp! k) (ht : ∀ k < t.nprim, 0 < t.exp! k)
    (hc : (s.comp! ca).1 ≤ s.l ∧ (s.comp! ca).2.1 ≤ s.l ∧ (s.comp! ca).2.2 ≤ s.l) :
    (kineticBlock s t).get4 ma ca mb cb
      = 1 / 2 * ∫ r : E3,
          covDot (fderiv ℝ (shellFnE s ma ca) r) (fderiv ℝ (shellFnE t mb cb) r) := by
  rw [kineticBlock_eq_gradDot s t ma ca mb cb hs ht hc,
    ← e3Equiv_measurePreserving.integral_comp' (gradDot s t ma ca mb cb)]
  simp only [covDot_shellFnE]

lemma FullCart.each_le {s : Shell ℝ} (hf : FullCart s.l s.cart) {c : ℕ} (hc : c < s.ncart) :
    (s.comp! c).1 ≤ s.l ∧ (s.comp! c).2.1 ≤ s.l ∧ (s.comp! c).2.2 ≤ s.l := by
  have h := hf.degree_le hc
  omega

/-- **Kinetic-energy block under a rigid motion.**  Moving both shells by the same affine isometry
`g` (translation, proper or improper rotation) transforms the block by the representation matrices
of the two shells on the two component indices. -/
theorem kineticBlock_moved (g : E3 ≃ᵃⁱ[ℝ] E3) (s t : Shell ℝ) (ma ca mb cb : ℕ)
    (hs : ∀ k, k < s.nprim → 0 < s.exp! k) (ht : ∀ k, k < t.nprim → 0 < t.exp! k)
    (hfs : FullCart s.l s.cart) (hft : FullCart t.l t.cart)
    (hca : ca < s.ncart) (hcb : cb < t.ncart) :
    (kineticBlock (s.moved g) (t.moved g)).get4 ma ca mb cb
      = ∑ ca' ∈ range s.ncart, ∑ cb' ∈ range t.ncart,
          repMat (linPart g) s.cart ca ca' * repMat (linPart g) t.cart cb cb'
            * (kineticBlock s t).get4 ma ca' mb cb' := by
  rw [kineticBlock_eq_integral_E3 (s.moved g) (t.moved g) ma ca mb cb hs ht (hfs.each_le hca)]
  have h := lift_core (affineIso_measurePreserving g) (affineIso_measurableEmbedding g)
    (range s.ncart ×ˢ range t.ncart)
    (fun r => covDot (fderiv ℝ (shellFnE (s.moved g) ma ca) r)
      (fderiv ℝ (shellFnE (t.moved g) mb cb) r))
    (fun x r => covDot (fderiv ℝ (shellFnE s ma x.1) r) (fderiv ℝ (shellFnE t mb x.2) r))
    (fun x => repMat (linPart g) s.cart ca x.1 * repMat (linPart g) t.cart cb x.2)
    (fun r => by
      rw [covDot_fderiv_moved g (range s.ncart) (range t.ncart) (shellFnE (s.moved g) ma ca)
        (shellFnE (t.moved g) mb cb) (fun j => shellFnE s ma j) (fun l => shellFnE t mb l)
        (repMat (linPart g) s.cart ca) (repMat (linPart g) t.cart cb)
        (shellFnE_moved g s hfs ma ca hca) (shellFnE_moved g t hft mb cb hcb)
        (differentiable_shellFnE _ _ _) (differentiable_shellFnE _ _ _)
        (fun j => differentiable_shellFnE _ _ _) (fun l => differentiable_shellFnE _ _ _) r,
        Finset.sum_product])
    (fun x _ => integrable_covDot_shellFnE s t ma x.1 mb x.2 hs ht)
  rw [h, Finset.sum_product, Finset.mul_sum]
  refine Finset.sum_congr rfl fun j hj => ?_
  rw [Finset.mul_sum]
  refine Finset.sum_congr rfl fun l hl => ?_
  rw [kineticBlock_eq_integral_E3 s t ma j mb l hs ht (hfs.each_le (Finset.mem_range.mp hj))]
  ring

/-- **Invariance of the kinetic block under rigid motions with trivial linear part** (in particular
translations), for arbitrary component lists -/
theorem kineticBlock_moved_of_linear_eq_id (g : E3 ≃ᵃⁱ[ℝ] E3)
    (hg : ∀ u, g.linearIsometryEquiv u = u) (s t : Shell ℝ) (ma ca mb cb : ℕ)
    (hs : ∀ k, k < s.nprim → 0 < s.exp! k) (ht : ∀ k, k < t.nprim → 0 < t.exp! k)
    (hc : (s.comp! ca).1 ≤ s.l ∧ (s.comp! ca).2.1 ≤ s.l ∧ (s.comp! ca).2.2 ≤ s.l) :
    (kineticBlock (s.moved g) (t.moved g)).get4 ma ca mb cb
      = (kineticBlock s t).get4 ma ca mb cb := by
  rw [kineticBlock_eq_integral_E3 (s.moved g) (t.moved g) ma ca mb cb hs ht hc,
    kineticBlock_eq_integral_E3 s t ma ca mb cb hs ht hc]
  have h := lift_core (affineIso_measurePreserving g) (affineIso_measurableEmbedding g)
    (univ : Finset Unit)
    (fun r => covDot (fderiv ℝ (shellFnE (s.moved g) ma ca) r)
      (fderiv ℝ (shellFnE (t.moved g) mb cb) r))
    (fun _ r => covDot (fderiv ℝ (shellFnE s ma ca) r) (fderiv ℝ (shellFnE t mb cb) r))
    (fun _ => 1)
    (fun r => by
      rw [covDot_fderiv_moved g (univ : Finset Unit) (univ : Finset Unit)
        (shellFnE (s.moved g) ma ca) (shellFnE (t.moved g) mb cb)
        (fun _ => shellFnE s ma ca) (fun _ => shellFnE t mb cb) (fun _ => 1) (fun _ => 1)
        (fun r => by simp [shellFnE_moved_of_linear_eq_id g hg])
        (fun r => by simp [shellFnE_moved_of_linear_eq_id g hg])
        (differentiable_shellFnE _ _ _) (differentiable_shellFnE _ _ _)
        (fun _ => differentiable_shellFnE _ _ _) (fun _ => differentiable_shellFnE _ _ _) r]
      simp)
    (fun _ _ => integrable_covDot_shellFnE s t ma ca mb cb hs ht)
  rw [h]
  simp

/-- **Translation invariance of the kinetic block** -/
theorem kineticBlock_translate_E3 (v : E3) (s t : Shell ℝ) (ma ca mb cb : ℕ)
    (hs : ∀ k, k < s.nprim → 0 < s.exp! k) (ht : ∀ k, k < t.nprim → 0 < t.exp! k)
    (hc : (s.comp! ca).1 ≤ s.l ∧ (s.comp! ca).2.1 ≤ s.l ∧ (s.comp! ca).2.2 ≤ s.l) :
    (kineticBlock (s.moved (translation v)) (t.moved (translation v))).get4 ma ca mb cb
      = (kineticBlock s t).get4 ma ca mb cb :=
  kineticBlock_moved_of_linear_eq_id (translation v) (translation_linear v) s t ma ca mb cb hs ht hc

end KineticRigid

end GB

