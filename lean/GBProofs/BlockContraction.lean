import GBProofs.EriBlock
import GBProofs.Block3D

/-!
# Contractions behave as the linear combinations they denote — at the level of the blocks (C13)

`ContractionLaws.lean` proves the laws of the function `contract`.  This file lifts them to the
**blocks** of the model, i.e. to what the user-visible arrays are made of, with the modifications
of a shell expressed as functions `Shell K → Shell K`:

* `Shell.column s m` — the single-column shell carrying the `m`-th coefficient column of `s`;
* `Shell.permPrims s σ` — the primitives (exponents and coefficient rows) listed in the order `σ`;
* `Shell.splitPrim s j x` — primitive `j` replaced by two primitives with the same exponent and the
  coefficients `x·c_j` (at position `j`) and `(1-x)·c_j` (appended at the end);
* `Shell.scaleColumn s m c` — coefficient column `m` multiplied by `c`.

(The lemmas `column_coef`, `permPrims_nprim/_exp/_coef`, `splitPrim_nprim/_exp_lt/_exp_last/_coef_ne/
_coef_j/_coef_last`, `scaleColumn_coef` say what these operations do to `nprim`, `exp!`, `coef!`; every
other field of the shell is untouched by definition.)

## The generic route

Every entry of every block, seen as a function of **one** of its shells `s` and of the index pair
`(m, c)` = (segment, component) belonging to it — everything else fixed — has the form

  `E s m c = Σ_{k < K_s} c_s[k, m] · G(α_k)`     (`osum`),

where `G` depends on `s` only through its *frame* (`Shell.frame`: everything but the exponents and
the coefficients).  This is the predicate `SlotLinear E` (`SlotLinearOn ok E` when the closed form of
the entry needs a side condition `ok s c`).  The four laws are proved **once** for such entries
(`SlotLinear.column / .permPrims / .splitPrim / .scaleColumn`, and over ℝ
`SlotLinearOn.normalised_scaleColumn_pos / _neg / _other` for the entries multiplied by `normCont`)
and then instantiated:

* blocks formed by `blockTab`/`contract` from a primitive-level function that is *local*
  (`PrimLocal`: its value for primitives `ka, kb` of `s, t` is its value for the two single-primitive
  shells): `contract_slotLinear_left/right`; instances `momentBlock`, `overlapBlock`, `diffBlock`,
  `kineticBlock`, `momentumBlock`, `angmomBlock`;
* `pointChargeBlock`, through `pointChargeBlock_eq_rys` (side condition `Shell.degOK`);
* `evalBlock` (one slot);
* `eriBlock`, all four slots, through `eriBlock_eq_rys` (side condition `EriOK`).

Statements 1–3 and the raw form of 4 hold over any field `K` (instance `fieldTransc e sq pi`, as in
`ContractionLaws.lean`; `realTransc` is definitionally `fieldTransc Real.exp Real.sqrt Real.pi`, so
they apply verbatim to `Shell ℝ`, see the `example`s at the end); the normalised form of 4 is over ℝ.

Entries are read with `get4`/`get3`/`get8`, which are total (`tab4_get`), so no bounds on the indices
are needed; hypotheses that the mathematics forces are explicit: `σ` maps `{0,…,K_s-1}` injectively
into itself (hence is a permutation of it), `j < K_s`, and for the normalised statements
`s.unitNorm = true` (otherwise `normCont` is identically 1 and nothing is normalised) and a positive
raw self-overlap of the function in question (`selfOverlap_pos`: true for positive exponents unless
the contracted function vanishes identically).
-/
namespace GB

/-! ## The operations on shells -/
section Ops
variable {K : Type} [Transc K]

/-- everything of a shell but its exponents and coefficients -/
def Shell.frame (s : Shell K) : Shell K := { s with exps := #[], coefs := #[] }

/-- the frame `fr` with the single exponent `α` (no coefficients) -/
def Shell.prim1 (fr : Shell K) (α : K) : Shell K := { fr with exps := #[α], coefs := #[] }

/-- the frame `fr` with the single primitive `α`, coefficient 1 -/
def Shell.unitPrim (fr : Shell K) (α : K) : Shell K :=
  { fr with exps := #[α], coefs := #[#[Num.nat 1]] }

/-- the single-primitive shell made of primitive `k` of `s` -/
def Shell.atPrim (s : Shell K) (k : Nat) : Shell K := s.frame.prim1 (s.exp! k)

/-- the single-column shell with the `m`-th coefficient column of `s` (same primitives) -/
def Shell.column (s : Shell K) (m : Nat) : Shell K :=
  { s with coefs := s.coefs.map fun r => #[r.getD m (Num.nat 0)] }

/-- primitives (exponents and coefficient rows) listed in the order `σ 0, σ 1, …, σ (K-1)` -/
def Shell.permPrims (s : Shell K) (σ : Nat → Nat) : Shell K :=
  { s with
    exps := Array.ofFn (n := s.nprim) fun k => s.exp! (σ k.val)
    coefs := Array.ofFn (n := s.nprim) fun k => s.coefs.getD (σ k.val) #[] }

/-- primitive `j` replaced by two primitives with the same exponent: coefficients `x·c_j` at position
`j` and `(1-x)·c_j` at the new last position `K` -/
def Shell.splitPrim (s : Shell K) (j : Nat) (x : K) : Shell K :=
  { s with
    exps := s.exps.push (s.exp! j)
    coefs := Array.ofFn (n := s.nprim + 1) fun k =>
      if k.val = j then (s.coefs.getD j #[]).map fun c => x * c
      else if k.val = s.nprim then (s.coefs.getD j #[]).map fun c => (Num.nat 1 - x) * c
      else s.coefs.getD k.val #[] }

/-- coefficient column `m` multiplied by `c` -/
def Shell.scaleColumn (s : Shell K) (m : Nat) (c : K) : Shell K :=
  { s with coefs := s.coefs.map fun r => r.modify m fun v => c * v }

omit [Transc K] in
@[simp] theorem Shell.frame_l (s : Shell K) : s.frame.l = s.l := rfl
omit [Transc K] in
@[simp] theorem Shell.frame_ctr (s : Shell K) : s.frame.ctr = s.ctr := rfl
omit [Transc K] in
@[simp] theorem Shell.frame_comp (s : Shell K) (c : Nat) : s.frame.comp! c = s.comp! c := rfl

/-- the total degree of component `c` of the shell does not exceed its angular momentum (true of
every well-formed shell, where it is an equality) -/
def Shell.degOK (s : Shell K) (c : Nat) : Prop :=
  (s.comp! c).1 + (s.comp! c).2.1 + (s.comp! c).2.2 ≤ s.l

end Ops

/-! ## What the operations do to `nprim`, `exp!`, `coef!` -/
section Field
variable {K : Type} [Field K] (e sq : K → K) (pi : K)

/-- column 0 of `s.column m` is column `m` of `s` (for every primitive index) -/
theorem column_coef (s : Shell K) (m k : ℕ) :
    letI := fieldTransc e sq pi
    (s.column m).coef! k 0 = s.coef! k m := by
  simp only [Shell.column, Shell.coef!]
  by_cases h : k < s.coefs.size
  · simp [Array.getD, h]
  · simp [Array.getD, h]

theorem permPrims_nprim (s : Shell K) (σ : ℕ → ℕ) :
    letI := fieldTransc e sq pi
    (s.permPrims σ).nprim = s.nprim := by
  simp [Shell.permPrims, Shell.nprim]

theorem permPrims_exp (s : Shell K) (σ : ℕ → ℕ) (k : ℕ) :
    letI := fieldTransc e sq pi
    k < s.nprim → (s.permPrims σ).exp! k = s.exp! (σ k) := by
  intro h
  simp [Shell.permPrims, Shell.exp!, Array.getD, h]

theorem permPrims_coef (s : Shell K) (σ : ℕ → ℕ) (k m : ℕ) :
    letI := fieldTransc e sq pi
    k < s.nprim → (s.permPrims σ).coef! k m = s.coef! (σ k) m := by
  intro h
  simp [Shell.permPrims, Shell.coef!, Array.getD, h]

theorem splitPrim_nprim (s : Shell K) (j : ℕ) (x : K) :
    letI := fieldTransc e sq pi
    (s.splitPrim j x).nprim = s.nprim + 1 := by
  simp [Shell.splitPrim, Shell.nprim]

theorem splitPrim_exp_lt (s : Shell K) (j : ℕ) (x : K) (k : ℕ) :
    letI := fieldTransc e sq pi
    k < s.nprim → (s.splitPrim j x).exp! k = s.exp! k := by
  intro h
  have h' : k < s.exps.size := h
  simp [Shell.splitPrim, Shell.exp!, Array.getD, h', Array.getElem_push]
  omega

theorem splitPrim_exp_last (s : Shell K) (j : ℕ) (x : K) :
    letI := fieldTransc e sq pi
    (s.splitPrim j x).exp! s.nprim = s.exp! j := by
  simp [Shell.splitPrim, Shell.exp!, Shell.nprim, Array.getD]

theorem splitPrim_coef_ne (s : Shell K) (j : ℕ) (x : K) (k m : ℕ) :
    letI := fieldTransc e sq pi
    k < s.nprim → k ≠ j → (s.splitPrim j x).coef! k m = s.coef! k m := by
  intro h hj
  have h1 : k < s.nprim + 1 := by omega
  have h2 : k ≠ s.nprim := by omega
  simp [Shell.splitPrim, Shell.coef!, Array.getD, h1, h2, hj]

/-- `s.splitPrim j x`: primitive `j` keeps the fraction `x` of its coefficients … -/
theorem splitPrim_coef_j (s : Shell K) (j : ℕ) (x : K) (m : ℕ) :
    letI := fieldTransc e sq pi
    j < s.nprim → (s.splitPrim j x).coef! j m = x * s.coef! j m := by
  intro h
  have h1 : j < s.nprim + 1 := by omega
  simp only [Shell.splitPrim, Shell.coef!]
  simp [Array.getD, h1]

/-- … and the new last primitive carries the fraction `1 - x` -/
theorem splitPrim_coef_last (s : Shell K) (j : ℕ) (x : K) (m : ℕ) :
    letI := fieldTransc e sq pi
    j < s.nprim → (s.splitPrim j x).coef! s.nprim m = (1 - x) * s.coef! j m := by
  intro h
  have h2 : s.nprim ≠ j := by omega
  simp only [Shell.splitPrim, Shell.coef!]
  simp [Array.getD, h2]

/-- `s.scaleColumn m c`: column `m` is multiplied by `c`, the other columns are unchanged -/
theorem scaleColumn_coef (s : Shell K) (m : ℕ) (c : K) (k m' : ℕ) :
    letI := fieldTransc e sq pi
    (s.scaleColumn m c).coef! k m' = if m' = m then c * s.coef! k m' else s.coef! k m' := by
  simp only [Shell.scaleColumn, Shell.coef!]
  by_cases hk : k < s.coefs.size
  · by_cases hm : m' < (s.coefs[k]).size
    · by_cases hmm : m' = m
      · subst hmm; simp [Array.getD, hk, hm, Array.getElem_modify_self]
      · have : m ≠ m' := fun h => hmm h.symm
        simp [Array.getD, hk, hm, hmm, Array.getElem_modify, this]
    · by_cases hmm : m' = m
      · subst hmm; simp [Array.getD, hk, hm]
      · simp [Array.getD, hk, hm, hmm]
  · by_cases hmm : m' = m
    · subst hmm; simp [Array.getD, hk]
    · simp [Array.getD, hk, hmm]

/-- `s.column m` has exactly one segment (if `s` has a primitive row at all) -/
theorem column_nseg (s : Shell K) (m : ℕ) (h : 0 < s.coefs.size) :
    letI := fieldTransc e sq pi
    (s.column m).nseg = 1 := by
  simp [Shell.column, Shell.nseg, h]

/-! ### permutations of `Fin K` as maps `ℕ → ℕ` -/

/-- a permutation of `Fin n` as a map `ℕ → ℕ` (identity outside `{0,…,n-1}`), for use as the
argument `σ` of `Shell.permPrims` -/
def permOfFin {n : ℕ} (σ : Equiv.Perm (Fin n)) (k : ℕ) : ℕ :=
  if h : k < n then (σ ⟨k, h⟩ : ℕ) else k

omit [Field K] in
theorem permOfFin_lt {n : ℕ} (σ : Equiv.Perm (Fin n)) : ∀ k < n, permOfFin σ k < n := by
  intro k hk
  simp only [permOfFin, hk, dif_pos]
  exact (σ ⟨k, hk⟩).isLt

omit [Field K] in
theorem permOfFin_inj {n : ℕ} (σ : Equiv.Perm (Fin n)) :
    ∀ k < n, ∀ k' < n, permOfFin σ k = permOfFin σ k' → k = k' := by
  intro k hk k' hk' h
  simp only [permOfFin, hk, hk', dif_pos] at h
  have := σ.injective (Fin.ext h)
  exact congrArg Fin.val this

/-! ## One-slot contractions and their laws -/

/-- `Σ_k c[k,m] · G(α_k)` over the primitives of `s` -/
def osum (s : Shell K) (m : ℕ) (G : K → K) : K :=
  letI := fieldTransc e sq pi
  ∑ k ∈ Finset.range s.nprim, s.coef! k m * G (s.exp! k)

/-- **column law** for a one-slot contraction -/
theorem osum_column (s : Shell K) (m : ℕ) (G : K → K) :
    letI := fieldTransc e sq pi
    osum e sq pi (s.column m) 0 G = osum e sq pi s m G := by
  unfold osum
  refine Finset.sum_congr rfl fun k _ => ?_
  rw [column_coef]
  rfl

/-- **permutation law** for a one-slot contraction: `σ` maps `{0,…,K-1}` injectively into itself -/
theorem osum_permPrims (s : Shell K) (σ : ℕ → ℕ) (m : ℕ) (G : K → K)
    (hmap : ∀ k < s.nprim, σ k < s.nprim)
    (hinj : ∀ k < s.nprim, ∀ k' < s.nprim, σ k = σ k' → k = k') :
    letI := fieldTransc e sq pi
    osum e sq pi (s.permPrims σ) m G = osum e sq pi s m G := by
  unfold osum
  rw [permPrims_nprim]
  have hinj' : Set.InjOn σ (Finset.range s.nprim : Set ℕ) := by
    intro a ha b hb hab
    exact hinj a (Finset.mem_range.mp ha) b (Finset.mem_range.mp hb) hab
  have himg : (Finset.range s.nprim).image σ = Finset.range s.nprim := by
    refine Finset.eq_of_subset_of_card_le ?_ ?_
    · intro x hx
      obtain ⟨k, hk, rfl⟩ := Finset.mem_image.mp hx
      exact Finset.mem_range.mpr (hmap k (Finset.mem_range.mp hk))
    · rw [Finset.card_image_of_injOn hinj']
  conv_rhs => rw [← himg, Finset.sum_image hinj']
  refine Finset.sum_congr rfl fun k hk => ?_
  have hk := Finset.mem_range.mp hk
  rw [permPrims_coef e sq pi s σ k m hk, permPrims_exp e sq pi s σ k hk]

/-- **splitting law** for a one-slot contraction (`j < K`) -/
theorem osum_splitPrim (s : Shell K) (j : ℕ) (x : K) (m : ℕ) (G : K → K) (hj : j < s.nprim) :
    letI := fieldTransc e sq pi
    osum e sq pi (s.splitPrim j x) m G = osum e sq pi s m G := by
  let _ := fieldTransc e sq pi
  unfold osum
  rw [splitPrim_nprim, Finset.sum_range_succ, splitPrim_coef_last e sq pi s j x m hj,
    splitPrim_exp_last]
  have h1 : ∀ k ∈ Finset.range s.nprim,
      (s.splitPrim j x).coef! k m * G ((s.splitPrim j x).exp! k)
        = s.coef! k m * G (s.exp! k)
          - (if k = j then (1 - x) * s.coef! j m * G (s.exp! j) else 0) := by
    intro k hk
    have hk := Finset.mem_range.mp hk
    rw [splitPrim_exp_lt e sq pi s j x k hk]
    by_cases hkj : k = j
    · subst hkj
      rw [splitPrim_coef_j e sq pi s k x m hk, if_pos rfl]; ring
    · rw [splitPrim_coef_ne e sq pi s j x k m hk hkj, if_neg hkj]; ring
  rw [Finset.sum_congr rfl h1, Finset.sum_sub_distrib, Finset.sum_ite_eq', if_pos
      (Finset.mem_range.mpr hj)]
  ring

/-- **linearity** of a one-slot contraction in the coefficient column -/
theorem osum_scaleColumn (s : Shell K) (m : ℕ) (c : K) (m' : ℕ) (G : K → K) :
    letI := fieldTransc e sq pi
    osum e sq pi (s.scaleColumn m c) m' G
      = if m' = m then c * osum e sq pi s m' G else osum e sq pi s m' G := by
  unfold osum
  by_cases h : m' = m
  · rw [if_pos h, Finset.mul_sum]
    refine Finset.sum_congr rfl fun k _ => ?_
    rw [scaleColumn_coef, if_pos h, mul_assoc]
    rfl
  · rw [if_neg h]
    refine Finset.sum_congr rfl fun k _ => ?_
    rw [scaleColumn_coef, if_neg h]
    rfl

/-! ## Slot-linear entries: the four laws, once -/

theorem column_frame (s : Shell K) (m : ℕ) :
    letI := fieldTransc e sq pi
    (s.column m).frame = s.frame := rfl

theorem permPrims_frame (s : Shell K) (σ : ℕ → ℕ) :
    letI := fieldTransc e sq pi
    (s.permPrims σ).frame = s.frame := rfl

theorem splitPrim_frame (s : Shell K) (j : ℕ) (x : K) :
    letI := fieldTransc e sq pi
    (s.splitPrim j x).frame = s.frame := rfl

theorem scaleColumn_frame (s : Shell K) (m : ℕ) (c : K) :
    letI := fieldTransc e sq pi
    (s.scaleColumn m c).frame = s.frame := rfl

/-- `E s m c` — an entry of a block as a function of one of its shells `s` and of the (segment,
component) index pair `(m, c)` that belongs to it — **is a contraction over the primitives of `s`**:
`E s m c = Σ_k c_s[k,m] · G(α_k)` where `G` depends on `s` only through its frame (angular momentum,
centre, component lists, flags) and on `c`. -/
def SlotLinear (E : Shell K → ℕ → ℕ → K) : Prop :=
  letI := fieldTransc e sq pi
  ∃ G : Shell K → ℕ → K → K, ∀ s m c, E s m c = osum e sq pi s m (G s.frame c)

variable {e sq pi}

theorem SlotLinear.congr {E E' : Shell K → ℕ → ℕ → K} (h : SlotLinear e sq pi E')
    (hE : ∀ s m c, E s m c = E' s m c) : SlotLinear e sq pi E := by
  obtain ⟨G, hG⟩ := h
  exact ⟨G, fun s m c => by rw [hE, hG]⟩

theorem SlotLinear.add {E E' : Shell K → ℕ → ℕ → K} (h : SlotLinear e sq pi E)
    (h' : SlotLinear e sq pi E') : SlotLinear e sq pi (fun s m c => E s m c + E' s m c) := by
  obtain ⟨G, hG⟩ := h
  obtain ⟨G', hG'⟩ := h'
  refine ⟨fun fr c α => G fr c α + G' fr c α, fun s m c => ?_⟩
  simp only [hG, hG', osum, ← Finset.sum_add_distrib, mul_add]

theorem SlotLinear.const_mul {E : Shell K → ℕ → ℕ → K} (h : SlotLinear e sq pi E) (x : K) :
    SlotLinear e sq pi (fun s m c => x * E s m c) := by
  obtain ⟨G, hG⟩ := h
  refine ⟨fun fr c α => x * G fr c α, fun s m c => ?_⟩
  simp only [hG, osum, Finset.mul_sum]
  exact Finset.sum_congr rfl fun k _ => by ring

/-- **1. a generalized contraction is the stack of its segmented contractions** -/
theorem SlotLinear.column {E : Shell K → ℕ → ℕ → K} (h : SlotLinear e sq pi E)
    (s : Shell K) (m c : ℕ) :
    letI := fieldTransc e sq pi
    E (s.column m) 0 c = E s m c := by
  obtain ⟨G, hG⟩ := h
  rw [hG, hG, column_frame]
  exact osum_column e sq pi s m _

/-- **2. the order of the primitives is immaterial** (`σ` maps `{0,…,K_s-1}` injectively into itself) -/
theorem SlotLinear.permPrims {E : Shell K → ℕ → ℕ → K} (h : SlotLinear e sq pi E)
    (s : Shell K) (σ : ℕ → ℕ) (m c : ℕ) :
    letI := fieldTransc e sq pi
    (∀ k < s.nprim, σ k < s.nprim) → (∀ k < s.nprim, ∀ k' < s.nprim, σ k = σ k' → k = k') →
    E (s.permPrims σ) m c = E s m c := by
  intro hmap hinj
  obtain ⟨G, hG⟩ := h
  rw [hG, hG, permPrims_frame]
  exact osum_permPrims e sq pi s σ m _ hmap hinj

/-- **3. splitting a primitive** (same exponent, coefficients `x·c_j` and `(1-x)·c_j`) changes nothing -/
theorem SlotLinear.splitPrim {E : Shell K → ℕ → ℕ → K} (h : SlotLinear e sq pi E)
    (s : Shell K) (j : ℕ) (x : K) (m c : ℕ) :
    letI := fieldTransc e sq pi
    j < s.nprim → E (s.splitPrim j x) m c = E s m c := by
  intro hj
  obtain ⟨G, hG⟩ := h
  rw [hG, hG, splitPrim_frame]
  exact osum_splitPrim e sq pi s j x m _ hj

/-- **4 (raw form). linearity in the coefficient column** -/
theorem SlotLinear.scaleColumn {E : Shell K → ℕ → ℕ → K} (h : SlotLinear e sq pi E)
    (s : Shell K) (m : ℕ) (x : K) (m' c : ℕ) :
    letI := fieldTransc e sq pi
    E (s.scaleColumn m x) m' c = if m' = m then x * E s m' c else E s m' c := by
  obtain ⟨G, hG⟩ := h
  rw [hG, hG, scaleColumn_frame]
  exact osum_scaleColumn e sq pi s m x m' _

/-! ### entries that are contractions under a side condition on the shell -/

variable (e sq pi)

/-- `SlotLinear` under a side condition `ok s c` on the shell and the component (needed where the
closed form of the block entry is only available under hypotheses) -/
def SlotLinearOn (ok : Shell K → ℕ → Prop) (E : Shell K → ℕ → ℕ → K) : Prop :=
  letI := fieldTransc e sq pi
  ∃ G : Shell K → ℕ → K → K, ∀ s m c, ok s c → E s m c = osum e sq pi s m (G s.frame c)

variable {e sq pi}

theorem SlotLinear.on {E : Shell K → ℕ → ℕ → K} (h : SlotLinear e sq pi E)
    (ok : Shell K → ℕ → Prop) : SlotLinearOn e sq pi ok E := by
  obtain ⟨G, hG⟩ := h
  exact ⟨G, fun s m c _ => hG s m c⟩

theorem SlotLinearOn.congr {ok : Shell K → ℕ → Prop} {E E' : Shell K → ℕ → ℕ → K}
    (h : SlotLinearOn e sq pi ok E') (hE : ∀ s m c, ok s c → E s m c = E' s m c) :
    SlotLinearOn e sq pi ok E := by
  obtain ⟨G, hG⟩ := h
  exact ⟨G, fun s m c hs => by rw [hE s m c hs, hG s m c hs]⟩

theorem SlotLinearOn.const_mul {ok : Shell K → ℕ → Prop} {E : Shell K → ℕ → ℕ → K}
    (h : SlotLinearOn e sq pi ok E) (x : K) :
    SlotLinearOn e sq pi ok (fun s m c => x * E s m c) := by
  obtain ⟨G, hG⟩ := h
  refine ⟨fun fr c α => x * G fr c α, fun s m c hs => ?_⟩
  simp only [hG s m c hs, osum, Finset.mul_sum]
  exact Finset.sum_congr rfl fun k _ => by ring

theorem SlotLinearOn.column {ok : Shell K → ℕ → Prop} {E : Shell K → ℕ → ℕ → K}
    (h : SlotLinearOn e sq pi ok E) (s : Shell K) (m c : ℕ) :
    letI := fieldTransc e sq pi
    ok s c → ok (s.column m) c → E (s.column m) 0 c = E s m c := by
  intro hs hs'
  obtain ⟨G, hG⟩ := h
  rw [hG _ _ _ hs, hG _ _ _ hs', column_frame]
  exact osum_column e sq pi s m _

theorem SlotLinearOn.permPrims {ok : Shell K → ℕ → Prop} {E : Shell K → ℕ → ℕ → K}
    (h : SlotLinearOn e sq pi ok E) (s : Shell K) (σ : ℕ → ℕ) (m c : ℕ) :
    letI := fieldTransc e sq pi
    ok s c → ok (s.permPrims σ) c →
    (∀ k < s.nprim, σ k < s.nprim) → (∀ k < s.nprim, ∀ k' < s.nprim, σ k = σ k' → k = k') →
    E (s.permPrims σ) m c = E s m c := by
  intro hs hs' hmap hinj
  obtain ⟨G, hG⟩ := h
  rw [hG _ _ _ hs, hG _ _ _ hs', permPrims_frame]
  exact osum_permPrims e sq pi s σ m _ hmap hinj

theorem SlotLinearOn.splitPrim {ok : Shell K → ℕ → Prop} {E : Shell K → ℕ → ℕ → K}
    (h : SlotLinearOn e sq pi ok E) (s : Shell K) (j : ℕ) (x : K) (m c : ℕ) :
    letI := fieldTransc e sq pi
    ok s c → ok (s.splitPrim j x) c → j < s.nprim → E (s.splitPrim j x) m c = E s m c := by
  intro hs hs' hj
  obtain ⟨G, hG⟩ := h
  rw [hG _ _ _ hs, hG _ _ _ hs', splitPrim_frame]
  exact osum_splitPrim e sq pi s j x m _ hj

theorem SlotLinearOn.scaleColumn {ok : Shell K → ℕ → Prop} {E : Shell K → ℕ → ℕ → K}
    (h : SlotLinearOn e sq pi ok E) (s : Shell K) (m : ℕ) (x : K) (m' c : ℕ) :
    letI := fieldTransc e sq pi
    ok s c → ok (s.scaleColumn m x) c →
    E (s.scaleColumn m x) m' c = if m' = m then x * E s m' c else E s m' c := by
  intro hs hs'
  obtain ⟨G, hG⟩ := h
  rw [hG _ _ _ hs, hG _ _ _ hs', scaleColumn_frame]
  exact osum_scaleColumn e sq pi s m x m' _

/-! ## The generic block former `blockTab`/`contract` -/

variable (e sq pi)

/-- the primitive-level function `P s t ka kb a b` of a block former is **local**: it depends on `s`,
`ka` only through the frame of `s` and the exponent `α_{ka}` (and likewise on `t`, `kb`), i.e. its value
is its value for the two single-primitive shells `s.atPrim ka`, `t.atPrim kb` -/
def PrimLocal (P : Shell K → Shell K → ℕ → ℕ → Comp → Comp → K) : Prop :=
  letI := fieldTransc e sq pi
  ∀ s t ka kb a b, P s t ka kb a b = P (s.atPrim ka) (t.atPrim kb) 0 0 a b

variable {e sq pi}

/-- **Generic block former, left slot**: every entry of `blockTab s t (contract s t s.normTab t.normTab
(P s t))` with a local `P` is a contraction over the primitives of `s` -/
theorem contract_slotLinear_left {P : Shell K → Shell K → ℕ → ℕ → Comp → Comp → K}
    (hP : PrimLocal e sq pi P) (t : Shell K) (mb cb : ℕ) :
    letI := fieldTransc e sq pi
    SlotLinear e sq pi (fun s m c => contract s t s.normTab t.normTab (P s t) m c mb cb) := by
  let _ := fieldTransc e sq pi
  refine ⟨fun fr c α => normPrim α fr.l (fr.comp! c)
    * ∑ kb ∈ Finset.range t.nprim, t.coef! kb mb * t.normTab.get2 kb cb
        * P (fr.prim1 α) (t.atPrim kb) 0 0 (fr.comp! c) (t.comp! cb), fun s m c => ?_⟩
  beta_reduce
  rw [contract_eq_csum e sq pi, csum_left]
  unfold osum
  refine Finset.sum_congr rfl fun ka _ => ?_
  simp only [Shell.normTab, tab2_get]
  congr 2
  refine Finset.sum_congr rfl fun kb _ => ?_
  rw [hP s t ka kb]
  rfl

/-- **Generic block former, right slot** -/
theorem contract_slotLinear_right {P : Shell K → Shell K → ℕ → ℕ → Comp → Comp → K}
    (hP : PrimLocal e sq pi P) (s : Shell K) (ma ca : ℕ) :
    letI := fieldTransc e sq pi
    SlotLinear e sq pi (fun t m c => contract s t s.normTab t.normTab (P s t) ma ca m c) := by
  let _ := fieldTransc e sq pi
  refine ⟨fun fr c β => normPrim β fr.l (fr.comp! c)
    * ∑ ka ∈ Finset.range s.nprim, s.coef! ka ma * s.normTab.get2 ka ca
        * P (s.atPrim ka) (fr.prim1 β) 0 0 (s.comp! ca) (fr.comp! c), fun t m c => ?_⟩
  beta_reduce
  rw [contract_eq_csum e sq pi, csum_right]
  unfold osum
  refine Finset.sum_congr rfl fun kb _ => ?_
  simp only [Shell.normTab, tab2_get]
  congr 2
  refine Finset.sum_congr rfl fun ka _ => ?_
  rw [hP s t ka kb]
  rfl

/-! ## The blocks are slot-linear -/

theorem momentPrim_local (O : ℕ → K) (nk : ℕ) (o : Comp) :
    letI := fieldTransc e sq pi
    PrimLocal e sq pi (fun s t => prod3 (pairTabs s t (momAx s t O nk)) o) := by
  intro s t ka kb a b
  simp only [prod3, pairTabs, tab3_get]
  rfl

theorem diffPrim_local (dmax : ℕ) (o : Comp) :
    letI := fieldTransc e sq pi
    PrimLocal e sq pi (fun s t => prod3 (pairTabs s t (diffAx s t dmax)) o) := by
  intro s t ka kb a b
  simp only [prod3, pairTabs, tab3_get]
  rfl

variable (e sq pi)

/-- `momentBlock` (every order triple `d`), left slot -/
theorem momentBlock_slotLinear_left (t : Shell K) (O : ℕ → K) (orders : List Comp) (d mb cb : ℕ) :
    letI := fieldTransc e sq pi
    SlotLinear e sq pi (fun s m c => ((momentBlock s t O orders).get d).get4 m c mb cb) := by
  refine (contract_slotLinear_left (momentPrim_local O
    ((orders.foldl (fun m o => max m (max o.1 (max o.2.1 o.2.2))) 0) + 1) (orders.getD d (0,0,0))) t
        mb cb).congr ?_
  intro s m c
  simp only [momentBlock, tab_get, blockTab, tab4_get]

theorem momentBlock_slotLinear_right (s : Shell K) (O : ℕ → K) (orders : List Comp) (d ma ca : ℕ) :
    letI := fieldTransc e sq pi
    SlotLinear e sq pi (fun t m c => ((momentBlock s t O orders).get d).get4 ma ca m c) := by
  refine (contract_slotLinear_right (momentPrim_local O
    ((orders.foldl (fun m o => max m (max o.1 (max o.2.1 o.2.2))) 0) + 1) (orders.getD d (0,0,0))) s
        ma ca).congr ?_
  intro t m c
  simp only [momentBlock, tab_get, blockTab, tab4_get]

theorem overlapBlock_slotLinear_left (t : Shell K) (mb cb : ℕ) :
    letI := fieldTransc e sq pi
    SlotLinear e sq pi (fun s m c => (overlapBlock s t).get4 m c mb cb) :=
  momentBlock_slotLinear_left e sq pi t _ _ 0 mb cb

theorem overlapBlock_slotLinear_right (s : Shell K) (ma ca : ℕ) :
    letI := fieldTransc e sq pi
    SlotLinear e sq pi (fun t m c => (overlapBlock s t).get4 ma ca m c) :=
  momentBlock_slotLinear_right e sq pi s _ _ 0 ma ca

/-- `diffBlock` (every order triple `d`), left slot -/
theorem diffBlock_slotLinear_left (t : Shell K) (orders : List Comp) (d mb cb : ℕ) :
    letI := fieldTransc e sq pi
    SlotLinear e sq pi (fun s m c => ((diffBlock s t orders).get d).get4 m c mb cb) := by
  refine (contract_slotLinear_left (diffPrim_local
    (orders.foldl (fun m o => max m (max o.1 (max o.2.1 o.2.2))) 0) (orders.getD d (0,0,0))) t mb
        cb).congr ?_
  intro s m c
  simp only [diffBlock, tab_get, blockTab, tab4_get]

theorem diffBlock_slotLinear_right (s : Shell K) (orders : List Comp) (d ma ca : ℕ) :
    letI := fieldTransc e sq pi
    SlotLinear e sq pi (fun t m c => ((diffBlock s t orders).get d).get4 ma ca m c) := by
  refine (contract_slotLinear_right (diffPrim_local
    (orders.foldl (fun m o => max m (max o.1 (max o.2.1 o.2.2))) 0) (orders.getD d (0,0,0))) s ma
        ca).congr ?_
  intro t m c
  simp only [diffBlock, tab_get, blockTab, tab4_get]

/-- `kineticBlock` = `-½ Σ` of three `diffBlock`s, left slot -/
theorem kineticBlock_slotLinear_left (t : Shell K) (mb cb : ℕ) :
    letI := fieldTransc e sq pi
    SlotLinear e sq pi (fun s m c => (kineticBlock s t).get4 m c mb cb) := by
  have h := fun d => diffBlock_slotLinear_left e sq pi t [(2,0,0), (0,2,0), (0,0,2)] d mb cb
  refine (((h 0).add (h 1)).add (h 2)).const_mul (-(1 / 2)) |>.congr ?_
  intro s m c
  simp only [kineticBlock, blockTab, tab4_get, num_nat, Nat.cast_one, Nat.cast_ofNat]

theorem kineticBlock_slotLinear_right (s : Shell K) (ma ca : ℕ) :
    letI := fieldTransc e sq pi
    SlotLinear e sq pi (fun t m c => (kineticBlock s t).get4 ma ca m c) := by
  have h := fun d => diffBlock_slotLinear_right e sq pi s [(2,0,0), (0,2,0), (0,0,2)] d ma ca
  refine (((h 0).add (h 1)).add (h 2)).const_mul (-(1 / 2)) |>.congr ?_
  intro t m c
  simp only [kineticBlock, blockTab, tab4_get, num_nat, Nat.cast_one, Nat.cast_ofNat]

theorem momentumBlock_slotLinear_left (t : Shell K) (axis mb cb : ℕ) :
    letI := fieldTransc e sq pi
    SlotLinear e sq pi (fun s m c => ((momentumBlock s t).get axis).get4 m c mb cb) :=
  diffBlock_slotLinear_left e sq pi t _ axis mb cb

theorem momentumBlock_slotLinear_right (s : Shell K) (axis ma ca : ℕ) :
    letI := fieldTransc e sq pi
    SlotLinear e sq pi (fun t m c => ((momentumBlock s t).get axis).get4 ma ca m c) :=
  diffBlock_slotLinear_right e sq pi s _ axis ma ca

/-! ### angular momentum -/

/-- primitive-level kernel of `angmomBlock` for `axis` -/
def angmomPrim (axis : ℕ) (s t : Shell K) (ka kb : ℕ) (a b : Comp) : K :=
  letI := fieldTransc e sq pi
  let dt := pairTabs s t (diffAx s t 1)
  let mt := pairTabs s t (momAx s t (fun _ => Num.nat 0) 2)
  let u := axis
  let v := (axis + 1) % 3
  let w := (axis + 2) % 3
  (mt.get3 ka kb u).get3 0 (b.ax u) (a.ax u) *
    ((mt.get3 ka kb v).get3 1 (b.ax v) (a.ax v) * (dt.get3 ka kb w).get3 1 (b.ax w) (a.ax w)
      - (mt.get3 ka kb w).get3 1 (b.ax w) (a.ax w) * (dt.get3 ka kb v).get3 1 (b.ax v) (a.ax v))

theorem angmomPrim_local (axis : ℕ) : PrimLocal e sq pi (angmomPrim e sq pi axis) := by
  intro s t ka kb a b
  simp only [angmomPrim, pairTabs, tab3_get]
  rfl

/-- `angmomBlock`, left slot -/
theorem angmomBlock_slotLinear_left (t : Shell K) (axis mb cb : ℕ) :
    letI := fieldTransc e sq pi
    SlotLinear e sq pi (fun s m c => ((angmomBlock s t).get axis).get4 m c mb cb) := by
  refine (contract_slotLinear_left (angmomPrim_local e sq pi axis) t mb cb).congr ?_
  intro s m c
  simp only [angmomBlock, tab_get, blockTab, tab4_get]
  rfl

theorem angmomBlock_slotLinear_right (s : Shell K) (axis ma ca : ℕ) :
    letI := fieldTransc e sq pi
    SlotLinear e sq pi (fun t m c => ((angmomBlock s t).get axis).get4 ma ca m c) := by
  refine (contract_slotLinear_right (angmomPrim_local e sq pi axis) s ma ca).congr ?_
  intro t m c
  simp only [angmomBlock, tab_get, blockTab, tab4_get]
  rfl

/-! ### point charge -/

/-- the contracted Rys form of the point-charge integrals is a contraction over the primitives of `s` -/
theorem rysBlock_slotLinear_left (Fb : K → ℕ → K) (t : Shell K) (Cpt : ℕ → K) (mb cb : ℕ) :
    SlotLinear e sq pi (fun s m c => rysBlock e sq pi Fb s t Cpt m c mb cb) := by
  let _ := fieldTransc e sq pi
  refine ⟨fun fr c α => normRad α fr.l
    * (∑ kb ∈ Finset.range t.nprim, t.coef! kb mb * normRad (t.exp! kb) t.l
        * rysPrim e sq pi Fb (fr.prim1 α) (t.atPrim kb) Cpt 0 0 (fr.comp! c) (t.comp! cb))
    * normAng (fr.comp! c) * normAng (t.comp! cb), fun s m c => ?_⟩
  simp only [rysBlock, osum, Finset.sum_mul, Finset.mul_sum]
  refine Finset.sum_congr rfl fun ka _ => Finset.sum_congr rfl fun kb _ => ?_
  have h : rysPrim e sq pi Fb s t Cpt ka kb (s.comp! c) (t.comp! cb)
      = rysPrim e sq pi Fb (s.frame.prim1 (s.exp! ka)) (t.atPrim kb) Cpt 0 0
          (s.frame.comp! c) (t.comp! cb) := rfl
  rw [h]
  have h2 : s.frame.l = s.l := rfl
  have h3 : s.frame.comp! c = s.comp! c := rfl
  rw [h2, h3]
  ring

/-- … and of `t` -/
theorem rysBlock_slotLinear_right (Fb : K → ℕ → K) (s : Shell K) (Cpt : ℕ → K) (ma ca : ℕ) :
    SlotLinear e sq pi (fun t m c => rysBlock e sq pi Fb s t Cpt ma ca m c) := by
  refine (rysBlock_slotLinear_left e sq pi Fb s Cpt ma ca).congr ?_
  intro t m c
  exact rysBlock_swap e sq pi Fb t s Cpt m c ma ca

/-- `pointChargeBlock` (whole code path: vertical recursion, contraction, horizontal recursion, shell
swap), left slot, for components whose degree does not exceed the angular momentum -/
theorem pointChargeBlock_slotLinear_left (boys : K → ℕ → Tab K) (t : Shell K) (Cpt : ℕ → K) (q : K)
    (mb cb : ℕ) :
    letI := fieldTransc e sq pi
    t.degOK cb →
    SlotLinearOn e sq pi Shell.degOK
      (fun s m c => (pointChargeBlock boys s t Cpt q).get4 m c mb cb) := by
  intro hb
  let _ := fieldTransc e sq pi
  have h := fun Fb => rysBlock_slotLinear_left e sq pi Fb t Cpt mb cb
  choose G hG using h
  replace hG : ∀ Fb s m c, rysBlock e sq pi Fb s t Cpt m c mb cb
      = osum e sq pi s m (G Fb s.frame c) := hG
  refine ⟨fun fr c α => -q * G (fun T m => (boys T (fr.l + t.l + 1)).get m) fr c α,
    fun s m c hs => ?_⟩
  beta_reduce
  rw [pointChargeBlock_eq_rys_self e sq pi boys s t Cpt q m c mb cb hs hb, hG]
  simp only [osum, Finset.mul_sum]
  refine Finset.sum_congr rfl fun k _ => ?_
  have h2 : s.frame.l = s.l := rfl
  rw [h2]
  ring

/-- `pointChargeBlock`, right slot -/
theorem pointChargeBlock_slotLinear_right (boys : K → ℕ → Tab K) (s : Shell K) (Cpt : ℕ → K) (q : K)
    (ma ca : ℕ) :
    letI := fieldTransc e sq pi
    s.degOK ca →
    SlotLinearOn e sq pi Shell.degOK
      (fun t m c => (pointChargeBlock boys s t Cpt q).get4 ma ca m c) := by
  intro ha
  let _ := fieldTransc e sq pi
  have h := fun Fb => rysBlock_slotLinear_right e sq pi Fb s Cpt ma ca
  choose G hG using h
  replace hG : ∀ Fb t m c, rysBlock e sq pi Fb s t Cpt ma ca m c
      = osum e sq pi t m (G Fb t.frame c) := hG
  refine ⟨fun fr c α => -q * G (fun T m => (boys T (s.l + fr.l + 1)).get m) fr c α,
    fun t m c ht => ?_⟩
  beta_reduce
  rw [pointChargeBlock_eq_rys_self e sq pi boys s t Cpt q ma ca m c ha ht, hG]
  simp only [osum, Finset.mul_sum]
  refine Finset.sum_congr rfl fun k _ => ?_
  have h2 : t.frame.l = t.l := rfl
  rw [h2]
  ring

/-! ### evaluation -/

/-- `evalBlock` (either back-end, any derivative orders, any point): `G` is the entry of the shell with
the single primitive `α`, coefficient 1 -/
theorem evalBlock_slotLinear (be : Backend) (orders : Comp) (pts : Array (ℕ → K)) (p : ℕ) :
    letI := fieldTransc e sq pi
    SlotLinear e sq pi (fun s m c => (evalBlock s be orders pts).get3 m c p) := by
  let _ := fieldTransc e sq pi
  refine ⟨fun fr c α => (evalBlock (fr.unitPrim α) be orders pts).get3 0 c p, fun s m c => ?_⟩
  simp only [evalBlock, tab3_get, tab4_get, Shell.normTab, tab2_get, sumN_eq_sum, osum]
  refine Finset.sum_congr rfl fun k _ => ?_
  have hn : (s.frame.unitPrim (s.exp! k)).nprim = 1 := rfl
  rw [hn, Finset.sum_range_one]
  have hc : (s.frame.unitPrim (s.exp! k)).coef! 0 0 = 1 := by
    simp [Shell.unitPrim, Shell.coef!]
  rw [hc, one_mul]
  rfl

/-! ### electron repulsion -/

theorem sum3_rot (A B C : Finset ℕ) (f : ℕ → ℕ → ℕ → K) :
    ∑ a ∈ A, ∑ b ∈ B, ∑ c ∈ C, f a b c = ∑ c ∈ C, ∑ a ∈ A, ∑ b ∈ B, f a b c :=
  (Finset.sum_congr rfl fun _ _ => Finset.sum_comm).trans Finset.sum_comm

theorem sum4_rot (A B C D : Finset ℕ) (f : ℕ → ℕ → ℕ → ℕ → K) :
    ∑ a ∈ A, ∑ b ∈ B, ∑ c ∈ C, ∑ d ∈ D, f a b c d
      = ∑ d ∈ D, ∑ a ∈ A, ∑ b ∈ B, ∑ c ∈ C, f a b c d :=
  (Finset.sum_congr rfl fun _ _ => sum3_rot B C D _).trans Finset.sum_comm

theorem eriRys_slotLinear_a (Fb : K → ℕ → K) (sb sc sd : Shell K) (mb cb mc cc md cd : ℕ) :
    SlotLinear e sq pi (fun sa m c => eriRys e sq pi Fb sa sb sc sd m c mb cb mc cc md cd) := by
  let _ := fieldTransc e sq pi
  refine ⟨fun fr c α => normRad α fr.l
    * (∑ kb ∈ Finset.range sb.nprim, ∑ kc ∈ Finset.range sc.nprim, ∑ kd ∈ Finset.range sd.nprim,
        (sb.coef! kb mb * normRad (sb.exp! kb) sb.l) * (sc.coef! kc mc * normRad (sc.exp! kc) sc.l)
          * (sd.coef! kd md * normRad (sd.exp! kd) sd.l)
          * eriQuartet e sq pi Fb α (sb.exp! kb) (sc.exp! kc) (sd.exp! kd) fr.ctr sb.ctr sc.ctr
              sd.ctr
              (fr.comp! c) (sb.comp! cb) (sc.comp! cc) (sd.comp! cd))
    * normAng (fr.comp! c) * normAng (sb.comp! cb) * normAng (sc.comp! cc) * normAng (sd.comp! cd),
    fun sa m c => ?_⟩
  simp only [eriRys, eriContr, eriPrim, osum, Finset.sum_mul, Finset.mul_sum, Shell.frame_l,
    Shell.frame_ctr, Shell.frame_comp]
  refine Finset.sum_congr rfl fun ka _ => Finset.sum_congr rfl fun kb _ =>
    Finset.sum_congr rfl fun kc _ => Finset.sum_congr rfl fun kd _ => ?_
  ring

theorem eriRys_slotLinear_b (Fb : K → ℕ → K) (sa sc sd : Shell K) (ma ca mc cc md cd : ℕ) :
    SlotLinear e sq pi (fun sb m c => eriRys e sq pi Fb sa sb sc sd ma ca m c mc cc md cd) := by
  let _ := fieldTransc e sq pi
  refine ⟨fun fr c β => normRad β fr.l
    * (∑ ka ∈ Finset.range sa.nprim, ∑ kc ∈ Finset.range sc.nprim, ∑ kd ∈ Finset.range sd.nprim,
        (sa.coef! ka ma * normRad (sa.exp! ka) sa.l) * (sc.coef! kc mc * normRad (sc.exp! kc) sc.l)
          * (sd.coef! kd md * normRad (sd.exp! kd) sd.l)
          * eriQuartet e sq pi Fb (sa.exp! ka) β (sc.exp! kc) (sd.exp! kd) sa.ctr fr.ctr sc.ctr
              sd.ctr
              (sa.comp! ca) (fr.comp! c) (sc.comp! cc) (sd.comp! cd))
    * normAng (sa.comp! ca) * normAng (fr.comp! c) * normAng (sc.comp! cc) * normAng (sd.comp! cd),
    fun sb m c => ?_⟩
  simp only [eriRys, eriContr, eriPrim, osum, Finset.sum_mul, Finset.mul_sum, Shell.frame_l,
    Shell.frame_ctr, Shell.frame_comp]
  conv_lhs => rw [Finset.sum_comm]
  refine Finset.sum_congr rfl fun kb _ => Finset.sum_congr rfl fun ka _ =>
    Finset.sum_congr rfl fun kc _ => Finset.sum_congr rfl fun kd _ => ?_
  ring

theorem eriRys_slotLinear_c (Fb : K → ℕ → K) (sa sb sd : Shell K) (ma ca mb cb md cd : ℕ) :
    SlotLinear e sq pi (fun sc m c => eriRys e sq pi Fb sa sb sc sd ma ca mb cb m c md cd) := by
  let _ := fieldTransc e sq pi
  refine ⟨fun fr c γ => normRad γ fr.l
    * (∑ ka ∈ Finset.range sa.nprim, ∑ kb ∈ Finset.range sb.nprim, ∑ kd ∈ Finset.range sd.nprim,
        (sa.coef! ka ma * normRad (sa.exp! ka) sa.l) * (sb.coef! kb mb * normRad (sb.exp! kb) sb.l)
          * (sd.coef! kd md * normRad (sd.exp! kd) sd.l)
          * eriQuartet e sq pi Fb (sa.exp! ka) (sb.exp! kb) γ (sd.exp! kd) sa.ctr sb.ctr fr.ctr
              sd.ctr
              (sa.comp! ca) (sb.comp! cb) (fr.comp! c) (sd.comp! cd))
    * normAng (sa.comp! ca) * normAng (sb.comp! cb) * normAng (fr.comp! c) * normAng (sd.comp! cd),
    fun sc m c => ?_⟩
  simp only [eriRys, eriContr, eriPrim, osum, Finset.sum_mul, Finset.mul_sum, Shell.frame_l,
    Shell.frame_ctr, Shell.frame_comp]
  conv_lhs => rw [sum3_rot]
  refine Finset.sum_congr rfl fun kc _ => Finset.sum_congr rfl fun ka _ =>
    Finset.sum_congr rfl fun kb _ => Finset.sum_congr rfl fun kd _ => ?_
  ring

theorem eriRys_slotLinear_d (Fb : K → ℕ → K) (sa sb sc : Shell K) (ma ca mb cb mc cc : ℕ) :
    SlotLinear e sq pi (fun sd m c => eriRys e sq pi Fb sa sb sc sd ma ca mb cb mc cc m c) := by
  let _ := fieldTransc e sq pi
  refine ⟨fun fr c δ => normRad δ fr.l
    * (∑ ka ∈ Finset.range sa.nprim, ∑ kb ∈ Finset.range sb.nprim, ∑ kc ∈ Finset.range sc.nprim,
        (sa.coef! ka ma * normRad (sa.exp! ka) sa.l) * (sb.coef! kb mb * normRad (sb.exp! kb) sb.l)
          * (sc.coef! kc mc * normRad (sc.exp! kc) sc.l)
          * eriQuartet e sq pi Fb (sa.exp! ka) (sb.exp! kb) (sc.exp! kc) δ sa.ctr sb.ctr sc.ctr
              fr.ctr
              (sa.comp! ca) (sb.comp! cb) (sc.comp! cc) (fr.comp! c))
    * normAng (sa.comp! ca) * normAng (sb.comp! cb) * normAng (sc.comp! cc) * normAng (fr.comp! c),
    fun sd m c => ?_⟩
  simp only [eriRys, eriContr, eriPrim, osum, Finset.sum_mul, Finset.mul_sum, Shell.frame_l,
    Shell.frame_ctr, Shell.frame_comp]
  conv_lhs => rw [sum4_rot]
  refine Finset.sum_congr rfl fun kd _ => Finset.sum_congr rfl fun ka _ =>
    Finset.sum_congr rfl fun kb _ => Finset.sum_congr rfl fun kc _ => ?_
  ring

/-- every exponent of `s'` is an exponent of `s` -/
def Shell.ExpsIn (s' s : Shell K) : Prop :=
  letI := fieldTransc e sq pi
  ∀ k < s'.nprim, ∃ k' < s.nprim, s'.exp! k = s.exp! k'

theorem Shell.ExpsIn.refl (s : Shell K) : s.ExpsIn e sq pi s := fun k hk => ⟨k, hk, rfl⟩

theorem column_expsIn (s : Shell K) (m : ℕ) :
    letI := fieldTransc e sq pi
    (s.column m).ExpsIn e sq pi s := fun k hk => ⟨k, hk, rfl⟩

theorem scaleColumn_expsIn (s : Shell K) (m : ℕ) (x : K) :
    letI := fieldTransc e sq pi
    (s.scaleColumn m x).ExpsIn e sq pi s := fun k hk => ⟨k, hk, rfl⟩

theorem permPrims_expsIn (s : Shell K) (σ : ℕ → ℕ) (hmap : ∀ k < s.nprim, σ k < s.nprim) :
    letI := fieldTransc e sq pi
    (s.permPrims σ).ExpsIn e sq pi s := by
  intro k hk
  rw [permPrims_nprim] at hk
  exact ⟨σ k, hmap k hk, permPrims_exp e sq pi s σ k hk⟩

theorem splitPrim_expsIn (s : Shell K) (j : ℕ) (x : K) (hj : j < s.nprim) :
    letI := fieldTransc e sq pi
    (s.splitPrim j x).ExpsIn e sq pi s := by
  intro k hk
  rw [splitPrim_nprim] at hk
  by_cases h : k < s.nprim
  · exact ⟨k, h, splitPrim_exp_lt e sq pi s j x k h⟩
  · have hk' : k = s.nprim := by omega
    subst hk'
    exact ⟨j, hj, splitPrim_exp_last e sq pi s j x⟩

/-- the hypotheses under which `eriBlock_eq_rys` identifies the entry `[·][ca][·][cb][·][cc][·][cd]`
of `eriBlock` with the contracted Rys form: `sqrt 1 = 1`, non-vanishing `p = α+β`, `q = γ+δ`, `p+q`
for all primitive quartets, component degrees within the angular momenta -/
structure EriOK (sa sb sc sd : Shell K) (ca cb cc cd : ℕ) : Prop where
  sq_one : sq 1 = 1
  hp : letI := fieldTransc e sq pi
    ∀ ka kb, ka < sa.nprim → kb < sb.nprim → sa.exp! ka + sb.exp! kb ≠ 0
  hq : letI := fieldTransc e sq pi
    ∀ kc kd, kc < sc.nprim → kd < sd.nprim → sc.exp! kc + sd.exp! kd ≠ 0
  hpq : letI := fieldTransc e sq pi
    ∀ ka kb kc kd, ka < sa.nprim → kb < sb.nprim → kc < sc.nprim → kd < sd.nprim →
      (sa.exp! ka + sb.exp! kb) + (sc.exp! kc + sd.exp! kd) ≠ 0
  da : sa.degOK ca
  db : sb.degOK cb
  dc : sc.degOK cc
  dd : sd.degOK cd

variable {e sq pi}

theorem EriOK.mono {sa sb sc sd sa' sb' sc' sd' : Shell K} {ca cb cc cd : ℕ}
    (h : EriOK e sq pi sa sb sc sd ca cb cc cd)
    (ha : sa'.ExpsIn e sq pi sa) (hb : sb'.ExpsIn e sq pi sb) (hc : sc'.ExpsIn e sq pi sc)
    (hd : sd'.ExpsIn e sq pi sd)
    (da : sa'.degOK ca) (db : sb'.degOK cb) (dc : sc'.degOK cc) (dd : sd'.degOK cd) :
    EriOK e sq pi sa' sb' sc' sd' ca cb cc cd := by
  refine ⟨h.sq_one, ?_, ?_, ?_, da, db, dc, dd⟩
  · intro ka kb hka hkb
    obtain ⟨ka', hka', ea⟩ := ha ka hka
    obtain ⟨kb', hkb', eb⟩ := hb kb hkb
    rw [ea, eb]; exact h.hp ka' kb' hka' hkb'
  · intro kc kd hkc hkd
    obtain ⟨kc', hkc', ec⟩ := hc kc hkc
    obtain ⟨kd', hkd', ed⟩ := hd kd hkd
    rw [ec, ed]; exact h.hq kc' kd' hkc' hkd'
  · intro ka kb kc kd hka hkb hkc hkd
    obtain ⟨ka', hka', ea⟩ := ha ka hka
    obtain ⟨kb', hkb', eb⟩ := hb kb hkb
    obtain ⟨kc', hkc', ec⟩ := hc kc hkc
    obtain ⟨kd', hkd', ed⟩ := hd kd hkd
    rw [ea, eb, ec, ed]; exact h.hpq ka' kb' kc' kd' hka' hkb' hkc' hkd'

variable (e sq pi)

end Field

section FieldChar
variable {K : Type} [Field K] [CharZero K] (e sq : K → K) (pi : K)

/-- `eriBlock` (dispatch, recursions, contraction in the code's order), slot `a` of `(ab|cd)` -/
theorem eriBlock_slotLinear_a (boys : K → ℕ → Tab K) (sb sc sd : Shell K)
    (mb cb mc cc md cd : ℕ) :
    letI := fieldTransc e sq pi
    SlotLinearOn e sq pi (fun sa c => EriOK e sq pi sa sb sc sd c cb cc cd)
      (fun sa m c => (eriBlock boys sa sb sc sd).get8 m c mb cb mc cc md cd) := by
  let _ := fieldTransc e sq pi
  have h := fun Fb => eriRys_slotLinear_a e sq pi Fb sb sc sd mb cb mc cc md cd
  choose G hG using h
  replace hG : ∀ Fb sa m c, eriRys e sq pi Fb sa sb sc sd m c mb cb mc cc md cd
      = osum e sq pi sa m (G Fb sa.frame c) := hG
  refine ⟨fun fr c α => G (fun T m => (boys T (fr.l + sb.l + sc.l + sd.l + 1)).get m) fr c α,
    fun sa m c h => ?_⟩
  beta_reduce
  rw [eriBlock_eq_rys_self e sq pi boys sa sb sc sd m c mb cb mc cc md cd h.sq_one h.hp h.hq h.hpq
    h.da h.db h.dc h.dd, hG]
  rfl

/-- `eriBlock`, slot `b` -/
theorem eriBlock_slotLinear_b (boys : K → ℕ → Tab K) (sa sc sd : Shell K)
    (ma ca mc cc md cd : ℕ) :
    letI := fieldTransc e sq pi
    SlotLinearOn e sq pi (fun sb c => EriOK e sq pi sa sb sc sd ca c cc cd)
      (fun sb m c => (eriBlock boys sa sb sc sd).get8 ma ca m c mc cc md cd) := by
  let _ := fieldTransc e sq pi
  have h := fun Fb => eriRys_slotLinear_b e sq pi Fb sa sc sd ma ca mc cc md cd
  choose G hG using h
  replace hG : ∀ Fb sb m c, eriRys e sq pi Fb sa sb sc sd ma ca m c mc cc md cd
      = osum e sq pi sb m (G Fb sb.frame c) := hG
  refine ⟨fun fr c α => G (fun T m => (boys T (sa.l + fr.l + sc.l + sd.l + 1)).get m) fr c α,
    fun sb m c h => ?_⟩
  beta_reduce
  rw [eriBlock_eq_rys_self e sq pi boys sa sb sc sd ma ca m c mc cc md cd h.sq_one h.hp h.hq h.hpq
    h.da h.db h.dc h.dd, hG]
  rfl

/-- `eriBlock`, slot `c` -/
theorem eriBlock_slotLinear_c (boys : K → ℕ → Tab K) (sa sb sd : Shell K)
    (ma ca mb cb md cd : ℕ) :
    letI := fieldTransc e sq pi
    SlotLinearOn e sq pi (fun sc c => EriOK e sq pi sa sb sc sd ca cb c cd)
      (fun sc m c => (eriBlock boys sa sb sc sd).get8 ma ca mb cb m c md cd) := by
  let _ := fieldTransc e sq pi
  have h := fun Fb => eriRys_slotLinear_c e sq pi Fb sa sb sd ma ca mb cb md cd
  choose G hG using h
  replace hG : ∀ Fb sc m c, eriRys e sq pi Fb sa sb sc sd ma ca mb cb m c md cd
      = osum e sq pi sc m (G Fb sc.frame c) := hG
  refine ⟨fun fr c α => G (fun T m => (boys T (sa.l + sb.l + fr.l + sd.l + 1)).get m) fr c α,
    fun sc m c h => ?_⟩
  beta_reduce
  rw [eriBlock_eq_rys_self e sq pi boys sa sb sc sd ma ca mb cb m c md cd h.sq_one h.hp h.hq h.hpq
    h.da h.db h.dc h.dd, hG]
  rfl

/-- `eriBlock`, slot `d` -/
theorem eriBlock_slotLinear_d (boys : K → ℕ → Tab K) (sa sb sc : Shell K)
    (ma ca mb cb mc cc : ℕ) :
    letI := fieldTransc e sq pi
    SlotLinearOn e sq pi (fun sd c => EriOK e sq pi sa sb sc sd ca cb cc c)
      (fun sd m c => (eriBlock boys sa sb sc sd).get8 ma ca mb cb mc cc m c) := by
  let _ := fieldTransc e sq pi
  have h := fun Fb => eriRys_slotLinear_d e sq pi Fb sa sb sc ma ca mb cb mc cc
  choose G hG using h
  replace hG : ∀ Fb sd m c, eriRys e sq pi Fb sa sb sc sd ma ca mb cb mc cc m c
      = osum e sq pi sd m (G Fb sd.frame c) := hG
  refine ⟨fun fr c α => G (fun T m => (boys T (sa.l + sb.l + sc.l + fr.l + 1)).get m) fr c α,
    fun sd m c h => ?_⟩
  beta_reduce
  rw [eriBlock_eq_rys_self e sq pi boys sa sb sc sd ma ca mb cb mc cc m c h.sq_one h.hp h.hq h.hpq
    h.da h.db h.dc h.dd, hG]
  rfl

end FieldChar

/-! ## Normalised entries and the scale of a coefficient column (ℝ) -/
section Real

/-- raw self-overlap of a shell one of whose columns is scaled -/
theorem overlapBlock_scaleColumn_self (s : Shell ℝ) (m : ℕ) (x : ℝ) (m' c : ℕ) :
    (overlapBlock (s.scaleColumn m x) (s.scaleColumn m x)).get4 m' c m' c
      = if m' = m then x * x * (overlapBlock s s).get4 m' c m' c
        else (overlapBlock s s).get4 m' c m' c := by
  have h1 := (overlapBlock_slotLinear_left Real.exp Real.sqrt Real.pi (s.scaleColumn m x) m' c
    ).scaleColumn s m x m' c
  have h2 := (overlapBlock_slotLinear_right Real.exp Real.sqrt Real.pi s m' c).scaleColumn s m x m'
      c
  beta_reduce at h1 h2
  rw [h1, h2]
  split_ifs
  · ring
  · rfl

/-- the contraction norms of the other columns do not change -/
theorem normCont_scaleColumn_other (s : Shell ℝ) (m : ℕ) (x : ℝ) (m' c : ℕ) (h : m' ≠ m) :
    (normCont (s.scaleColumn m x)).get2 m' c = (normCont s).get2 m' c := by
  have hu : (s.scaleColumn m x).unitNorm = s.unitNorm := rfl
  unfold normCont
  rw [hu]
  cases s.unitNorm
  · simp only [Bool.false_eq_true, if_false, tab2_get]
  · simp only [if_true, tab2_get, overlapBlock_scaleColumn_self, if_neg h]

/-- the contraction norm of the scaled column -/
theorem normCont_scaleColumn_self (s : Shell ℝ) (m : ℕ) (x : ℝ) (c : ℕ) (hn : s.unitNorm = true) :
    (normCont (s.scaleColumn m x)).get2 m c
      = 1 / Real.sqrt (x * x * (overlapBlock s s).get4 m c m c) := by
  have hu : (s.scaleColumn m x).unitNorm = true := hn
  simp only [normCont, hu, if_true, tab2_get, overlapBlock_scaleColumn_self, Transc.sqrt, num_nat,
    Nat.cast_one]

theorem normCont_unit (s : Shell ℝ) (m c : ℕ) (hn : s.unitNorm = true) :
    (normCont s).get2 m c = 1 / Real.sqrt ((overlapBlock s s).get4 m c m c) := by
  simp only [normCont, hn, if_true, tab2_get, Transc.sqrt, num_nat, Nat.cast_one]

variable {ok : Shell ℝ → ℕ → Prop} {E : Shell ℝ → ℕ → ℕ → ℝ}

/-- **4 (normalised form).**  For a shell that normalises itself and a function `(m, c)` with positive raw
self-overlap: scaling column `m` by `x ≠ 0` multiplies the normalised entry by the sign `x/|x|`. -/
theorem SlotLinearOn.normalised_scaleColumn (h : SlotLinearOn Real.exp Real.sqrt Real.pi ok E)
    (s : Shell ℝ) (m : ℕ) (x : ℝ) (c : ℕ) (hs : ok s c) (hs' : ok (s.scaleColumn m x) c)
    (hn : s.unitNorm = true) (hx : x ≠ 0) (hov : 0 < (overlapBlock s s).get4 m c m c) :
    E (s.scaleColumn m x) m c * (normCont (s.scaleColumn m x)).get2 m c
      = x / |x| * (E s m c * (normCont s).get2 m c) := by
  rw [h.scaleColumn s m x m c hs hs', if_pos rfl, normCont_scaleColumn_self s m x c hn,
    normCont_unit s m c hn]
  exact scale_norm x _ _ hov hx

/-- `x > 0`: the normalised entry is unchanged -/
theorem SlotLinearOn.normalised_scaleColumn_pos (h : SlotLinearOn Real.exp Real.sqrt Real.pi ok E)
    (s : Shell ℝ) (m : ℕ) (x : ℝ) (c : ℕ) (hs : ok s c) (hs' : ok (s.scaleColumn m x) c)
    (hn : s.unitNorm = true) (hx : 0 < x) (hov : 0 < (overlapBlock s s).get4 m c m c) :
    E (s.scaleColumn m x) m c * (normCont (s.scaleColumn m x)).get2 m c
      = E s m c * (normCont s).get2 m c := by
  rw [h.normalised_scaleColumn s m x c hs hs' hn hx.ne' hov, abs_of_pos hx, div_self hx.ne',
      one_mul]

/-- `x < 0`: the normalised entry changes sign -/
theorem SlotLinearOn.normalised_scaleColumn_neg (h : SlotLinearOn Real.exp Real.sqrt Real.pi ok E)
    (s : Shell ℝ) (m : ℕ) (x : ℝ) (c : ℕ) (hs : ok s c) (hs' : ok (s.scaleColumn m x) c)
    (hn : s.unitNorm = true) (hx : x < 0) (hov : 0 < (overlapBlock s s).get4 m c m c) :
    E (s.scaleColumn m x) m c * (normCont (s.scaleColumn m x)).get2 m c
      = -(E s m c * (normCont s).get2 m c) := by
  rw [h.normalised_scaleColumn s m x c hs hs' hn hx.ne hov, abs_of_neg hx, div_neg, div_self hx.ne,
    neg_one_mul]

/-- the normalised entries of the other columns are unchanged (any `x`, no positivity needed) -/
theorem SlotLinearOn.normalised_scaleColumn_other (h : SlotLinearOn Real.exp Real.sqrt Real.pi ok E)
    (s : Shell ℝ) (m : ℕ) (x : ℝ) (m' c : ℕ) (hs : ok s c) (hs' : ok (s.scaleColumn m x) c)
    (hm : m' ≠ m) :
    E (s.scaleColumn m x) m' c * (normCont (s.scaleColumn m x)).get2 m' c
      = E s m' c * (normCont s).get2 m' c := by
  rw [h.scaleColumn s m x m' c hs hs', if_neg hm, normCont_scaleColumn_other s m x m' c hm]

/-- **Both slots at once** (the diagonal blocks of the arrays): in the same-shell overlap block the
two signs cancel — the normalised entries of the scaled column against itself are unchanged for
every `x ≠ 0`.  (Obtained by chaining the left-slot and the right-slot law; the same chaining works
for every block.) -/
theorem overlapBlock_normalised_scaleColumn_same (s : Shell ℝ) (m : ℕ) (x : ℝ) (ca cb : ℕ)
    (hn : s.unitNorm = true) (hx : x ≠ 0) (hova : 0 < (overlapBlock s s).get4 m ca m ca)
    (hovb : 0 < (overlapBlock s s).get4 m cb m cb) :
    (overlapBlock (s.scaleColumn m x) (s.scaleColumn m x)).get4 m ca m cb
        * (normCont (s.scaleColumn m x)).get2 m ca * (normCont (s.scaleColumn m x)).get2 m cb
      = (overlapBlock s s).get4 m ca m cb * (normCont s).get2 m ca * (normCont s).get2 m cb := by
  have h1 := ((overlapBlock_slotLinear_left Real.exp Real.sqrt Real.pi (s.scaleColumn m x) m cb).on
    fun _ _ => True).normalised_scaleColumn s m x ca trivial trivial hn hx hova
  have h2 := ((overlapBlock_slotLinear_right Real.exp Real.sqrt Real.pi s m ca).on
    fun _ _ => True).normalised_scaleColumn s m x cb trivial trivial hn hx hovb
  beta_reduce at h1 h2
  have hsq : x / |x| * (x / |x|) = 1 := by
    rw [div_mul_div_comm, abs_mul_abs_self, div_self (mul_self_ne_zero.mpr hx)]
  linear_combination (normCont (s.scaleColumn m x)).get2 m cb * h1
    + x / |x| * (normCont s).get2 m ca * h2
    + (overlapBlock s s).get4 m ca m cb * (normCont s).get2 m ca * (normCont s).get2 m cb * hsq

end Real

/-! ## The laws, block by block -/
section BlocksField
variable {K : Type} [Field K] (e sq : K → K) (pi : K)

/-! ### `overlapBlock` -/

/-- **A generalized contraction is the stack of its segmented contractions** (overlap block, left
slot): segment 0 of the shell `s.column m` gives the entries of segment `m` of `s`. -/
theorem overlapBlock_column (s t : Shell K) (m ca mb cb : ℕ) :
    letI := fieldTransc e sq pi
    (overlapBlock (s.column m) t).get4 0 ca mb cb = (overlapBlock s t).get4 m ca mb cb :=
  (overlapBlock_slotLinear_left e sq pi t mb cb).column s m ca

/-- the same in the right slot -/
theorem overlapBlock_column_right (s t : Shell K) (ma ca m cb : ℕ) :
    letI := fieldTransc e sq pi
    (overlapBlock s (t.column m)).get4 ma ca 0 cb = (overlapBlock s t).get4 ma ca m cb :=
  (overlapBlock_slotLinear_right e sq pi s ma ca).column t m cb

/-- **The order of the primitives is immaterial** (overlap block, left slot): `σ` maps
`{0,…,K_s-1}` injectively into itself (i.e. is a permutation of it). -/
theorem overlapBlock_permPrims (s t : Shell K) (σ : ℕ → ℕ) (ma ca mb cb : ℕ)
    (hmap : ∀ k < s.nprim, σ k < s.nprim)
    (hinj : ∀ k < s.nprim, ∀ k' < s.nprim, σ k = σ k' → k = k') :
    letI := fieldTransc e sq pi
    (overlapBlock (s.permPrims σ) t).get4 ma ca mb cb = (overlapBlock s t).get4 ma ca mb cb :=
  (overlapBlock_slotLinear_left e sq pi t mb cb).permPrims s σ ma ca hmap hinj

/-- the same in the right slot -/
theorem overlapBlock_permPrims_right (s t : Shell K) (σ : ℕ → ℕ) (ma ca mb cb : ℕ)
    (hmap : ∀ k < t.nprim, σ k < t.nprim)
    (hinj : ∀ k < t.nprim, ∀ k' < t.nprim, σ k = σ k' → k = k') :
    letI := fieldTransc e sq pi
    (overlapBlock s (t.permPrims σ)).get4 ma ca mb cb = (overlapBlock s t).get4 ma ca mb cb :=
  (overlapBlock_slotLinear_right e sq pi s ma ca).permPrims t σ mb cb hmap hinj

/-- **Splitting a primitive** `j` in two with the same exponent and coefficients `x·c_j`, `(1-x)·c_j`
leaves the overlap block unchanged (left slot; `j < K_s`). -/
theorem overlapBlock_splitPrim (s t : Shell K) (j : ℕ) (x : K) (ma ca mb cb : ℕ)
    (hj : j < s.nprim) :
    letI := fieldTransc e sq pi
    (overlapBlock (s.splitPrim j x) t).get4 ma ca mb cb = (overlapBlock s t).get4 ma ca mb cb :=
  (overlapBlock_slotLinear_left e sq pi t mb cb).splitPrim s j x ma ca hj

/-- the same in the right slot -/
theorem overlapBlock_splitPrim_right (s t : Shell K) (j : ℕ) (x : K) (ma ca mb cb : ℕ)
    (hj : j < t.nprim) :
    letI := fieldTransc e sq pi
    (overlapBlock s (t.splitPrim j x)).get4 ma ca mb cb = (overlapBlock s t).get4 ma ca mb cb :=
  (overlapBlock_slotLinear_right e sq pi s ma ca).splitPrim t j x mb cb hj

/-- **Linearity in a coefficient column** (raw overlap block, left slot): multiplying column `m` by
`x` multiplies the entries of segment `m` by `x` and leaves the other segments unchanged. -/
theorem overlapBlock_scaleColumn (s t : Shell K) (m : ℕ) (x : K) (ma ca mb cb : ℕ) :
    letI := fieldTransc e sq pi
    (overlapBlock (s.scaleColumn m x) t).get4 ma ca mb cb
      = if ma = m then x * (overlapBlock s t).get4 ma ca mb cb
        else (overlapBlock s t).get4 ma ca mb cb :=
  (overlapBlock_slotLinear_left e sq pi t mb cb).scaleColumn s m x ma ca

/-- the same in the right slot -/
theorem overlapBlock_scaleColumn_right (s t : Shell K) (m : ℕ) (x : K) (ma ca mb cb : ℕ) :
    letI := fieldTransc e sq pi
    (overlapBlock s (t.scaleColumn m x)).get4 ma ca mb cb
      = if mb = m then x * (overlapBlock s t).get4 ma ca mb cb
        else (overlapBlock s t).get4 ma ca mb cb :=
  (overlapBlock_slotLinear_right e sq pi s ma ca).scaleColumn t m x mb cb

/-! ### `kineticBlock` -/

/-- **A generalized contraction is the stack of its segmented contractions** (kinetic-energy block, left
slot): segment 0 of the shell `s.column m` gives the entries of segment `m` of `s`. -/
theorem kineticBlock_column (s t : Shell K) (m ca mb cb : ℕ) :
    letI := fieldTransc e sq pi
    (kineticBlock (s.column m) t).get4 0 ca mb cb = (kineticBlock s t).get4 m ca mb cb :=
  (kineticBlock_slotLinear_left e sq pi t mb cb).column s m ca

/-- the same in the right slot -/
theorem kineticBlock_column_right (s t : Shell K) (ma ca m cb : ℕ) :
    letI := fieldTransc e sq pi
    (kineticBlock s (t.column m)).get4 ma ca 0 cb = (kineticBlock s t).get4 ma ca m cb :=
  (kineticBlock_slotLinear_right e sq pi s ma ca).column t m cb

/-- **The order of the primitives is immaterial** (kinetic-energy block, left slot): `σ` maps
`{0,…,K_s-1}` injectively into itself (i.e. is a permutation of it). -/
theorem kineticBlock_permPrims (s t : Shell K) (σ : ℕ → ℕ) (ma ca mb cb : ℕ)
    (hmap : ∀ k < s.nprim, σ k < s.nprim)
    (hinj : ∀ k < s.nprim, ∀ k' < s.nprim, σ k = σ k' → k = k') :
    letI := fieldTransc e sq pi
    (kineticBlock (s.permPrims σ) t).get4 ma ca mb cb = (kineticBlock s t).get4 ma ca mb cb :=
  (kineticBlock_slotLinear_left e sq pi t mb cb).permPrims s σ ma ca hmap hinj

/-- the same in the right slot -/
theorem kineticBlock_permPrims_right (s t : Shell K) (σ : ℕ → ℕ) (ma ca mb cb : ℕ)
    (hmap : ∀ k < t.nprim, σ k < t.nprim)
    (hinj : ∀ k < t.nprim, ∀ k' < t.nprim, σ k = σ k' → k = k') :
    letI := fieldTransc e sq pi
    (kineticBlock s (t.permPrims σ)).get4 ma ca mb cb = (kineticBlock s t).get4 ma ca mb cb :=
  (kineticBlock_slotLinear_right e sq pi s ma ca).permPrims t σ mb cb hmap hinj

/-- **Splitting a primitive** `j` in two with the same exponent and coefficients `x·c_j`, `(1-x)·c_j`
leaves the kinetic-energy block unchanged (left slot; `j < K_s`). -/
theorem kineticBlock_splitPrim (s t : Shell K) (j : ℕ) (x : K) (ma ca mb cb : ℕ)
    (hj : j < s.nprim) :
    letI := fieldTransc e sq pi
    (kineticBlock (s.splitPrim j x) t).get4 ma ca mb cb = (kineticBlock s t).get4 ma ca mb cb :=
  (kineticBlock_slotLinear_left e sq pi t mb cb).splitPrim s j x ma ca hj

/-- the same in the right slot -/
theorem kineticBlock_splitPrim_right (s t : Shell K) (j : ℕ) (x : K) (ma ca mb cb : ℕ)
    (hj : j < t.nprim) :
    letI := fieldTransc e sq pi
    (kineticBlock s (t.splitPrim j x)).get4 ma ca mb cb = (kineticBlock s t).get4 ma ca mb cb :=
  (kineticBlock_slotLinear_right e sq pi s ma ca).splitPrim t j x mb cb hj

/-- **Linearity in a coefficient column** (raw kinetic-energy block, left slot): multiplying column `m` by
`x` multiplies the entries of segment `m` by `x` and leaves the other segments unchanged. -/
theorem kineticBlock_scaleColumn (s t : Shell K) (m : ℕ) (x : K) (ma ca mb cb : ℕ) :
    letI := fieldTransc e sq pi
    (kineticBlock (s.scaleColumn m x) t).get4 ma ca mb cb
      = if ma = m then x * (kineticBlock s t).get4 ma ca mb cb
        else (kineticBlock s t).get4 ma ca mb cb :=
  (kineticBlock_slotLinear_left e sq pi t mb cb).scaleColumn s m x ma ca

/-- the same in the right slot -/
theorem kineticBlock_scaleColumn_right (s t : Shell K) (m : ℕ) (x : K) (ma ca mb cb : ℕ) :
    letI := fieldTransc e sq pi
    (kineticBlock s (t.scaleColumn m x)).get4 ma ca mb cb
      = if mb = m then x * (kineticBlock s t).get4 ma ca mb cb
        else (kineticBlock s t).get4 ma ca mb cb :=
  (kineticBlock_slotLinear_right e sq pi s ma ca).scaleColumn t m x mb cb

/-! ### `momentBlock` -/

/-- **A generalized contraction is the stack of its segmented contractions** (moment block, left
slot): segment 0 of the shell `s.column m` gives the entries of segment `m` of `s`. -/
theorem momentBlock_column (O : ℕ → K) (orders : List Comp) (d : ℕ) (s t : Shell K) (m ca mb cb : ℕ)
    :
    letI := fieldTransc e sq pi
    ((momentBlock (s.column m) t O orders).get d).get4 0 ca mb cb =
        ((momentBlock s t O orders).get d).get4 m ca mb cb :=
  (momentBlock_slotLinear_left e sq pi t O orders d mb cb).column s m ca

/-- the same in the right slot -/
theorem momentBlock_column_right (O : ℕ → K) (orders : List Comp) (d : ℕ) (s t : Shell K)
    (ma ca m cb : ℕ) :
    letI := fieldTransc e sq pi
    ((momentBlock s (t.column m) O orders).get d).get4 ma ca 0 cb =
        ((momentBlock s t O orders).get d).get4 ma ca m cb :=
  (momentBlock_slotLinear_right e sq pi s O orders d ma ca).column t m cb

/-- **The order of the primitives is immaterial** (moment block, left slot): `σ` maps
`{0,…,K_s-1}` injectively into itself (i.e. is a permutation of it). -/
theorem momentBlock_permPrims (O : ℕ → K) (orders : List Comp) (d : ℕ) (s t : Shell K) (σ : ℕ → ℕ)
    (ma ca mb cb : ℕ)
    (hmap : ∀ k < s.nprim, σ k < s.nprim)
    (hinj : ∀ k < s.nprim, ∀ k' < s.nprim, σ k = σ k' → k = k') :
    letI := fieldTransc e sq pi
    ((momentBlock (s.permPrims σ) t O orders).get d).get4 ma ca mb cb =
        ((momentBlock s t O orders).get d).get4 ma ca mb cb :=
  (momentBlock_slotLinear_left e sq pi t O orders d mb cb).permPrims s σ ma ca hmap hinj

/-- the same in the right slot -/
theorem momentBlock_permPrims_right (O : ℕ → K) (orders : List Comp) (d : ℕ) (s t : Shell K)
    (σ : ℕ → ℕ) (ma ca mb cb : ℕ)
    (hmap : ∀ k < t.nprim, σ k < t.nprim)
    (hinj : ∀ k < t.nprim, ∀ k' < t.nprim, σ k = σ k' → k = k') :
    letI := fieldTransc e sq pi
    ((momentBlock s (t.permPrims σ) O orders).get d).get4 ma ca mb cb =
        ((momentBlock s t O orders).get d).get4 ma ca mb cb :=
  (momentBlock_slotLinear_right e sq pi s O orders d ma ca).permPrims t σ mb cb hmap hinj

/-- **Splitting a primitive** `j` in two with the same exponent and coefficients `x·c_j`, `(1-x)·c_j`
leaves the moment block unchanged (left slot; `j < K_s`). -/
theorem momentBlock_splitPrim (O : ℕ → K) (orders : List Comp) (d : ℕ) (s t : Shell K) (j : ℕ)
    (x : K) (ma ca mb cb : ℕ)
    (hj : j < s.nprim) :
    letI := fieldTransc e sq pi
    ((momentBlock (s.splitPrim j x) t O orders).get d).get4 ma ca mb cb =
        ((momentBlock s t O orders).get d).get4 ma ca mb cb :=
  (momentBlock_slotLinear_left e sq pi t O orders d mb cb).splitPrim s j x ma ca hj

/-- the same in the right slot -/
theorem momentBlock_splitPrim_right (O : ℕ → K) (orders : List Comp) (d : ℕ) (s t : Shell K) (j : ℕ)
    (x : K) (ma ca mb cb : ℕ)
    (hj : j < t.nprim) :
    letI := fieldTransc e sq pi
    ((momentBlock s (t.splitPrim j x) O orders).get d).get4 ma ca mb cb =
        ((momentBlock s t O orders).get d).get4 ma ca mb cb :=
  (momentBlock_slotLinear_right e sq pi s O orders d ma ca).splitPrim t j x mb cb hj

/-- **Linearity in a coefficient column** (raw moment block, left slot): multiplying column `m` by
`x` multiplies the entries of segment `m` by `x` and leaves the other segments unchanged. -/
theorem momentBlock_scaleColumn (O : ℕ → K) (orders : List Comp) (d : ℕ) (s t : Shell K) (m : ℕ)
    (x : K) (ma ca mb cb : ℕ) :
    letI := fieldTransc e sq pi
    ((momentBlock (s.scaleColumn m x) t O orders).get d).get4 ma ca mb cb
      = if ma = m then x * ((momentBlock s t O orders).get d).get4 ma ca mb cb
        else ((momentBlock s t O orders).get d).get4 ma ca mb cb :=
  (momentBlock_slotLinear_left e sq pi t O orders d mb cb).scaleColumn s m x ma ca

/-- the same in the right slot -/
theorem momentBlock_scaleColumn_right (O : ℕ → K) (orders : List Comp) (d : ℕ) (s t : Shell K)
    (m : ℕ) (x : K) (ma ca mb cb : ℕ) :
    letI := fieldTransc e sq pi
    ((momentBlock s (t.scaleColumn m x) O orders).get d).get4 ma ca mb cb
      = if mb = m then x * ((momentBlock s t O orders).get d).get4 ma ca mb cb
        else ((momentBlock s t O orders).get d).get4 ma ca mb cb :=
  (momentBlock_slotLinear_right e sq pi s O orders d ma ca).scaleColumn t m x mb cb

/-! ### `pointChargeBlock` -/

/-- **A generalized contraction is the stack of its segmented contractions** (point-charge block, left
slot): segment 0 of the shell `s.column m` gives the entries of segment `m` of `s` (`degOK`: the component degrees do not exceed the angular momenta, as `pointChargeBlock_eq_rys` needs). -/
theorem pointChargeBlock_column (boys : K → ℕ → Tab K) (Cpt : ℕ → K) (q : K) (s t : Shell K)
    (m ca mb cb : ℕ)
    (ha : s.degOK ca) (hb : t.degOK cb) :
    letI := fieldTransc e sq pi
    (pointChargeBlock boys (s.column m) t Cpt q).get4 0 ca mb cb =
        (pointChargeBlock boys s t Cpt q).get4 m ca mb cb :=
  (pointChargeBlock_slotLinear_left e sq pi boys t Cpt q mb cb hb).column s m ca ha ha

/-- the same in the right slot -/
theorem pointChargeBlock_column_right (boys : K → ℕ → Tab K) (Cpt : ℕ → K) (q : K) (s t : Shell K)
    (ma ca m cb : ℕ)
    (ha : s.degOK ca) (hb : t.degOK cb) :
    letI := fieldTransc e sq pi
    (pointChargeBlock boys s (t.column m) Cpt q).get4 ma ca 0 cb =
        (pointChargeBlock boys s t Cpt q).get4 ma ca m cb :=
  (pointChargeBlock_slotLinear_right e sq pi boys s Cpt q ma ca ha).column t m cb hb hb

/-- **The order of the primitives is immaterial** (point-charge block, left slot): `σ` maps
`{0,…,K_s-1}` injectively into itself (i.e. is a permutation of it). -/
theorem pointChargeBlock_permPrims (boys : K → ℕ → Tab K) (Cpt : ℕ → K) (q : K) (s t : Shell K)
    (σ : ℕ → ℕ) (ma ca mb cb : ℕ)
    (hmap : ∀ k < s.nprim, σ k < s.nprim)
    (hinj : ∀ k < s.nprim, ∀ k' < s.nprim, σ k = σ k' → k = k')
    (ha : s.degOK ca) (hb : t.degOK cb) :
    letI := fieldTransc e sq pi
    (pointChargeBlock boys (s.permPrims σ) t Cpt q).get4 ma ca mb cb =
        (pointChargeBlock boys s t Cpt q).get4 ma ca mb cb :=
  (pointChargeBlock_slotLinear_left e sq pi boys t Cpt q mb cb hb).permPrims s σ ma ca ha ha hmap
      hinj

/-- the same in the right slot -/
theorem pointChargeBlock_permPrims_right (boys : K → ℕ → Tab K) (Cpt : ℕ → K) (q : K)
    (s t : Shell K) (σ : ℕ → ℕ) (ma ca mb cb : ℕ)
    (hmap : ∀ k < t.nprim, σ k < t.nprim)
    (hinj : ∀ k < t.nprim, ∀ k' < t.nprim, σ k = σ k' → k = k')
    (ha : s.degOK ca) (hb : t.degOK cb) :
    letI := fieldTransc e sq pi
    (pointChargeBlock boys s (t.permPrims σ) Cpt q).get4 ma ca mb cb =
        (pointChargeBlock boys s t Cpt q).get4 ma ca mb cb :=
  (pointChargeBlock_slotLinear_right e sq pi boys s Cpt q ma ca ha).permPrims t σ mb cb hb hb hmap
      hinj

/-- **Splitting a primitive** `j` in two with the same exponent and coefficients `x·c_j`, `(1-x)·c_j`
leaves the point-charge block unchanged (left slot; `j < K_s`). -/
theorem pointChargeBlock_splitPrim (boys : K → ℕ → Tab K) (Cpt : ℕ → K) (q : K) (s t : Shell K)
    (j : ℕ) (x : K) (ma ca mb cb : ℕ)
    (hj : j < s.nprim)
    (ha : s.degOK ca) (hb : t.degOK cb) :
    letI := fieldTransc e sq pi
    (pointChargeBlock boys (s.splitPrim j x) t Cpt q).get4 ma ca mb cb =
        (pointChargeBlock boys s t Cpt q).get4 ma ca mb cb :=
  (pointChargeBlock_slotLinear_left e sq pi boys t Cpt q mb cb hb).splitPrim s j x ma ca ha ha hj

/-- the same in the right slot -/
theorem pointChargeBlock_splitPrim_right (boys : K → ℕ → Tab K) (Cpt : ℕ → K) (q : K)
    (s t : Shell K) (j : ℕ) (x : K) (ma ca mb cb : ℕ)
    (hj : j < t.nprim)
    (ha : s.degOK ca) (hb : t.degOK cb) :
    letI := fieldTransc e sq pi
    (pointChargeBlock boys s (t.splitPrim j x) Cpt q).get4 ma ca mb cb =
        (pointChargeBlock boys s t Cpt q).get4 ma ca mb cb :=
  (pointChargeBlock_slotLinear_right e sq pi boys s Cpt q ma ca ha).splitPrim t j x mb cb hb hb hj

/-- **Linearity in a coefficient column** (raw point-charge block, left slot): multiplying column `m` by
`x` multiplies the entries of segment `m` by `x` and leaves the other segments unchanged. -/
theorem pointChargeBlock_scaleColumn (boys : K → ℕ → Tab K) (Cpt : ℕ → K) (q : K) (s t : Shell K)
    (m : ℕ) (x : K) (ma ca mb cb : ℕ)
    (ha : s.degOK ca) (hb : t.degOK cb) :
    letI := fieldTransc e sq pi
    (pointChargeBlock boys (s.scaleColumn m x) t Cpt q).get4 ma ca mb cb
      = if ma = m then x * (pointChargeBlock boys s t Cpt q).get4 ma ca mb cb
        else (pointChargeBlock boys s t Cpt q).get4 ma ca mb cb :=
  (pointChargeBlock_slotLinear_left e sq pi boys t Cpt q mb cb hb).scaleColumn s m x ma ca ha ha

/-- the same in the right slot -/
theorem pointChargeBlock_scaleColumn_right (boys : K → ℕ → Tab K) (Cpt : ℕ → K) (q : K)
    (s t : Shell K) (m : ℕ) (x : K) (ma ca mb cb : ℕ)
    (ha : s.degOK ca) (hb : t.degOK cb) :
    letI := fieldTransc e sq pi
    (pointChargeBlock boys s (t.scaleColumn m x) Cpt q).get4 ma ca mb cb
      = if mb = m then x * (pointChargeBlock boys s t Cpt q).get4 ma ca mb cb
        else (pointChargeBlock boys s t Cpt q).get4 ma ca mb cb :=
  (pointChargeBlock_slotLinear_right e sq pi boys s Cpt q ma ca ha).scaleColumn t m x mb cb hb hb

/-! ### `momentumBlock` -/

/-- **A generalized contraction is the stack of its segmented contractions** (momentum block, left
slot): segment 0 of the shell `s.column m` gives the entries of segment `m` of `s`. -/
theorem momentumBlock_column (axis : ℕ) (s t : Shell K) (m ca mb cb : ℕ) :
    letI := fieldTransc e sq pi
    ((momentumBlock (s.column m) t).get axis).get4 0 ca mb cb = ((momentumBlock s t).get axis).get4
        m ca mb cb :=
  (momentumBlock_slotLinear_left e sq pi t axis mb cb).column s m ca

/-- the same in the right slot -/
theorem momentumBlock_column_right (axis : ℕ) (s t : Shell K) (ma ca m cb : ℕ) :
    letI := fieldTransc e sq pi
    ((momentumBlock s (t.column m)).get axis).get4 ma ca 0 cb = ((momentumBlock s t).get axis).get4
        ma ca m cb :=
  (momentumBlock_slotLinear_right e sq pi s axis ma ca).column t m cb

/-- **The order of the primitives is immaterial** (momentum block, left slot): `σ` maps
`{0,…,K_s-1}` injectively into itself (i.e. is a permutation of it). -/
theorem momentumBlock_permPrims (axis : ℕ) (s t : Shell K) (σ : ℕ → ℕ) (ma ca mb cb : ℕ)
    (hmap : ∀ k < s.nprim, σ k < s.nprim)
    (hinj : ∀ k < s.nprim, ∀ k' < s.nprim, σ k = σ k' → k = k') :
    letI := fieldTransc e sq pi
    ((momentumBlock (s.permPrims σ) t).get axis).get4 ma ca mb cb =
        ((momentumBlock s t).get axis).get4 ma ca mb cb :=
  (momentumBlock_slotLinear_left e sq pi t axis mb cb).permPrims s σ ma ca hmap hinj

/-- the same in the right slot -/
theorem momentumBlock_permPrims_right (axis : ℕ) (s t : Shell K) (σ : ℕ → ℕ) (ma ca mb cb : ℕ)
    (hmap : ∀ k < t.nprim, σ k < t.nprim)
    (hinj : ∀ k < t.nprim, ∀ k' < t.nprim, σ k = σ k' → k = k') :
    letI := fieldTransc e sq pi
    ((momentumBlock s (t.permPrims σ)).get axis).get4 ma ca mb cb =
        ((momentumBlock s t).get axis).get4 ma ca mb cb :=
  (momentumBlock_slotLinear_right e sq pi s axis ma ca).permPrims t σ mb cb hmap hinj

/-- **Splitting a primitive** `j` in two with the same exponent and coefficients `x·c_j`, `(1-x)·c_j`
leaves the momentum block unchanged (left slot; `j < K_s`). -/
theorem momentumBlock_splitPrim (axis : ℕ) (s t : Shell K) (j : ℕ) (x : K) (ma ca mb cb : ℕ)
    (hj : j < s.nprim) :
    letI := fieldTransc e sq pi
    ((momentumBlock (s.splitPrim j x) t).get axis).get4 ma ca mb cb =
        ((momentumBlock s t).get axis).get4 ma ca mb cb :=
  (momentumBlock_slotLinear_left e sq pi t axis mb cb).splitPrim s j x ma ca hj

/-- the same in the right slot -/
theorem momentumBlock_splitPrim_right (axis : ℕ) (s t : Shell K) (j : ℕ) (x : K) (ma ca mb cb : ℕ)
    (hj : j < t.nprim) :
    letI := fieldTransc e sq pi
    ((momentumBlock s (t.splitPrim j x)).get axis).get4 ma ca mb cb =
        ((momentumBlock s t).get axis).get4 ma ca mb cb :=
  (momentumBlock_slotLinear_right e sq pi s axis ma ca).splitPrim t j x mb cb hj

/-- **Linearity in a coefficient column** (raw momentum block, left slot): multiplying column `m` by
`x` multiplies the entries of segment `m` by `x` and leaves the other segments unchanged. -/
theorem momentumBlock_scaleColumn (axis : ℕ) (s t : Shell K) (m : ℕ) (x : K) (ma ca mb cb : ℕ) :
    letI := fieldTransc e sq pi
    ((momentumBlock (s.scaleColumn m x) t).get axis).get4 ma ca mb cb
      = if ma = m then x * ((momentumBlock s t).get axis).get4 ma ca mb cb
        else ((momentumBlock s t).get axis).get4 ma ca mb cb :=
  (momentumBlock_slotLinear_left e sq pi t axis mb cb).scaleColumn s m x ma ca

/-- the same in the right slot -/
theorem momentumBlock_scaleColumn_right (axis : ℕ) (s t : Shell K) (m : ℕ) (x : K) (ma ca mb cb : ℕ)
    :
    letI := fieldTransc e sq pi
    ((momentumBlock s (t.scaleColumn m x)).get axis).get4 ma ca mb cb
      = if mb = m then x * ((momentumBlock s t).get axis).get4 ma ca mb cb
        else ((momentumBlock s t).get axis).get4 ma ca mb cb :=
  (momentumBlock_slotLinear_right e sq pi s axis ma ca).scaleColumn t m x mb cb

/-! ### `angmomBlock` -/

/-- **A generalized contraction is the stack of its segmented contractions** (angular-momentum block, left
slot): segment 0 of the shell `s.column m` gives the entries of segment `m` of `s`. -/
theorem angmomBlock_column (axis : ℕ) (s t : Shell K) (m ca mb cb : ℕ) :
    letI := fieldTransc e sq pi
    ((angmomBlock (s.column m) t).get axis).get4 0 ca mb cb = ((angmomBlock s t).get axis).get4 m ca
        mb cb :=
  (angmomBlock_slotLinear_left e sq pi t axis mb cb).column s m ca

/-- the same in the right slot -/
theorem angmomBlock_column_right (axis : ℕ) (s t : Shell K) (ma ca m cb : ℕ) :
    letI := fieldTransc e sq pi
    ((angmomBlock s (t.column m)).get axis).get4 ma ca 0 cb = ((angmomBlock s t).get axis).get4 ma
        ca m cb :=
  (angmomBlock_slotLinear_right e sq pi s axis ma ca).column t m cb

/-- **The order of the primitives is immaterial** (angular-momentum block, left slot): `σ` maps
`{0,…,K_s-1}` injectively into itself (i.e. is a permutation of it). -/
theorem angmomBlock_permPrims (axis : ℕ) (s t : Shell K) (σ : ℕ → ℕ) (ma ca mb cb : ℕ)
    (hmap : ∀ k < s.nprim, σ k < s.nprim)
    (hinj : ∀ k < s.nprim, ∀ k' < s.nprim, σ k = σ k' → k = k') :
    letI := fieldTransc e sq pi
    ((angmomBlock (s.permPrims σ) t).get axis).get4 ma ca mb cb = ((angmomBlock s t).get axis).get4
        ma ca mb cb :=
  (angmomBlock_slotLinear_left e sq pi t axis mb cb).permPrims s σ ma ca hmap hinj

/-- the same in the right slot -/
theorem angmomBlock_permPrims_right (axis : ℕ) (s t : Shell K) (σ : ℕ → ℕ) (ma ca mb cb : ℕ)
    (hmap : ∀ k < t.nprim, σ k < t.nprim)
    (hinj : ∀ k < t.nprim, ∀ k' < t.nprim, σ k = σ k' → k = k') :
    letI := fieldTransc e sq pi
    ((angmomBlock s (t.permPrims σ)).get axis).get4 ma ca mb cb = ((angmomBlock s t).get axis).get4
        ma ca mb cb :=
  (angmomBlock_slotLinear_right e sq pi s axis ma ca).permPrims t σ mb cb hmap hinj

/-- **Splitting a primitive** `j` in two with the same exponent and coefficients `x·c_j`, `(1-x)·c_j`
leaves the angular-momentum block unchanged (left slot; `j < K_s`). -/
theorem angmomBlock_splitPrim (axis : ℕ) (s t : Shell K) (j : ℕ) (x : K) (ma ca mb cb : ℕ)
    (hj : j < s.nprim) :
    letI := fieldTransc e sq pi
    ((angmomBlock (s.splitPrim j x) t).get axis).get4 ma ca mb cb =
        ((angmomBlock s t).get axis).get4 ma ca mb cb :=
  (angmomBlock_slotLinear_left e sq pi t axis mb cb).splitPrim s j x ma ca hj

/-- the same in the right slot -/
theorem angmomBlock_splitPrim_right (axis : ℕ) (s t : Shell K) (j : ℕ) (x : K) (ma ca mb cb : ℕ)
    (hj : j < t.nprim) :
    letI := fieldTransc e sq pi
    ((angmomBlock s (t.splitPrim j x)).get axis).get4 ma ca mb cb =
        ((angmomBlock s t).get axis).get4 ma ca mb cb :=
  (angmomBlock_slotLinear_right e sq pi s axis ma ca).splitPrim t j x mb cb hj

/-- **Linearity in a coefficient column** (raw angular-momentum block, left slot): multiplying column `m` by
`x` multiplies the entries of segment `m` by `x` and leaves the other segments unchanged. -/
theorem angmomBlock_scaleColumn (axis : ℕ) (s t : Shell K) (m : ℕ) (x : K) (ma ca mb cb : ℕ) :
    letI := fieldTransc e sq pi
    ((angmomBlock (s.scaleColumn m x) t).get axis).get4 ma ca mb cb
      = if ma = m then x * ((angmomBlock s t).get axis).get4 ma ca mb cb
        else ((angmomBlock s t).get axis).get4 ma ca mb cb :=
  (angmomBlock_slotLinear_left e sq pi t axis mb cb).scaleColumn s m x ma ca

/-- the same in the right slot -/
theorem angmomBlock_scaleColumn_right (axis : ℕ) (s t : Shell K) (m : ℕ) (x : K) (ma ca mb cb : ℕ) :
    letI := fieldTransc e sq pi
    ((angmomBlock s (t.scaleColumn m x)).get axis).get4 ma ca mb cb
      = if mb = m then x * ((angmomBlock s t).get axis).get4 ma ca mb cb
        else ((angmomBlock s t).get axis).get4 ma ca mb cb :=
  (angmomBlock_slotLinear_right e sq pi s axis ma ca).scaleColumn t m x mb cb


/-! ### `evalBlock` -/

/-- **A generalized contraction is the stack of its segmented contractions** (evaluation block
`[m][c][point]`, any derivative orders, either back-end). -/
theorem evalBlock_column (be : Backend) (orders : Comp) (pts : Array (ℕ → K)) (p : ℕ) (s : Shell K)
    (m c : ℕ) :
    letI := fieldTransc e sq pi
    (evalBlock (s.column m) be orders pts).get3 0 c p = (evalBlock s be orders pts).get3 m c p :=
  (evalBlock_slotLinear e sq pi be orders pts p).column s m c

/-- **The order of the primitives is immaterial** (evaluation block). -/
theorem evalBlock_permPrims (be : Backend) (orders : Comp) (pts : Array (ℕ → K)) (p : ℕ)
    (s : Shell K) (σ : ℕ → ℕ) (m c : ℕ)
    (hmap : ∀ k < s.nprim, σ k < s.nprim)
    (hinj : ∀ k < s.nprim, ∀ k' < s.nprim, σ k = σ k' → k = k') :
    letI := fieldTransc e sq pi
    (evalBlock (s.permPrims σ) be orders pts).get3 m c p = (evalBlock s be orders pts).get3 m c p :=
  (evalBlock_slotLinear e sq pi be orders pts p).permPrims s σ m c hmap hinj

/-- **Splitting a primitive** leaves the evaluation block unchanged (`j < K_s`). -/
theorem evalBlock_splitPrim (be : Backend) (orders : Comp) (pts : Array (ℕ → K)) (p : ℕ)
    (s : Shell K) (j : ℕ) (x : K) (m c : ℕ)
    (hj : j < s.nprim) :
    letI := fieldTransc e sq pi
    (evalBlock (s.splitPrim j x) be orders pts).get3 m c p = (evalBlock s be orders pts).get3 m c p
        :=
  (evalBlock_slotLinear e sq pi be orders pts p).splitPrim s j x m c hj

/-- **Linearity in a coefficient column** (raw evaluation block). -/
theorem evalBlock_scaleColumn (be : Backend) (orders : Comp) (pts : Array (ℕ → K)) (p : ℕ)
    (s : Shell K) (m : ℕ) (x : K) (m' c : ℕ) :
    letI := fieldTransc e sq pi
    (evalBlock (s.scaleColumn m x) be orders pts).get3 m' c p
      = if m' = m then x * (evalBlock s be orders pts).get3 m' c p else
          (evalBlock s be orders pts).get3 m' c p :=
  (evalBlock_slotLinear e sq pi be orders pts p).scaleColumn s m x m' c


end BlocksField

section BlocksEri
variable {K : Type} [Field K] [CharZero K] (e sq : K → K) (pi : K)

/-! ### `eriBlock` -/

/-- **A generalized contraction is the stack of its segmented contractions** (`(ab|cd)` block, slot
`a`; `EriOK`: the hypotheses of `eriBlock_eq_rys` on the quartet). -/
theorem eriBlock_column_a (boys : K → ℕ → Tab K) (sa sb sc sd : Shell K)
    (m ca mb cb mc cc md cd : ℕ)
    (h : EriOK e sq pi sa sb sc sd ca cb cc cd) :
    letI := fieldTransc e sq pi
    (eriBlock boys (sa.column m) sb sc sd).get8 0 ca mb cb mc cc md cd
      = (eriBlock boys sa sb sc sd).get8 m ca mb cb mc cc md cd :=
  (eriBlock_slotLinear_a e sq pi boys sb sc sd mb cb mc cc md cd).column sa m ca h
    (h.mono (column_expsIn e sq pi sa m) (.refl e sq pi sb) (.refl e sq pi sc) (.refl e sq pi sd)
        h.da h.db h.dc h.dd)

/-- **The order of the primitives is immaterial** (`(ab|cd)` block, slot `a`). -/
theorem eriBlock_permPrims_a (boys : K → ℕ → Tab K) (sa sb sc sd : Shell K) (σ : ℕ → ℕ)
    (ma ca mb cb mc cc md cd : ℕ) (h : EriOK e sq pi sa sb sc sd ca cb cc cd)
    (hmap : ∀ k < sa.nprim, σ k < sa.nprim)
    (hinj : ∀ k < sa.nprim, ∀ k' < sa.nprim, σ k = σ k' → k = k') :
    letI := fieldTransc e sq pi
    (eriBlock boys (sa.permPrims σ) sb sc sd).get8 ma ca mb cb mc cc md cd
      = (eriBlock boys sa sb sc sd).get8 ma ca mb cb mc cc md cd :=
  (eriBlock_slotLinear_a e sq pi boys sb sc sd mb cb mc cc md cd).permPrims sa σ ma ca h
    (h.mono (permPrims_expsIn e sq pi sa σ hmap) (.refl e sq pi sb) (.refl e sq pi sc)
        (.refl e sq pi sd) h.da h.db h.dc h.dd) hmap hinj

/-- **Splitting a primitive** leaves the `(ab|cd)` block unchanged (slot `a`). -/
theorem eriBlock_splitPrim_a (boys : K → ℕ → Tab K) (sa sb sc sd : Shell K) (j : ℕ) (x : K)
    (ma ca mb cb mc cc md cd : ℕ) (h : EriOK e sq pi sa sb sc sd ca cb cc cd) (hj : j < sa.nprim) :
    letI := fieldTransc e sq pi
    (eriBlock boys (sa.splitPrim j x) sb sc sd).get8 ma ca mb cb mc cc md cd
      = (eriBlock boys sa sb sc sd).get8 ma ca mb cb mc cc md cd :=
  (eriBlock_slotLinear_a e sq pi boys sb sc sd mb cb mc cc md cd).splitPrim sa j x ma ca h
    (h.mono (splitPrim_expsIn e sq pi sa j x hj) (.refl e sq pi sb) (.refl e sq pi sc)
        (.refl e sq pi sd) h.da h.db h.dc h.dd) hj

/-- **Linearity in a coefficient column** (raw `(ab|cd)` block, slot `a`). -/
theorem eriBlock_scaleColumn_a (boys : K → ℕ → Tab K) (sa sb sc sd : Shell K) (m : ℕ) (x : K)
    (ma ca mb cb mc cc md cd : ℕ) (h : EriOK e sq pi sa sb sc sd ca cb cc cd) :
    letI := fieldTransc e sq pi
    (eriBlock boys (sa.scaleColumn m x) sb sc sd).get8 ma ca mb cb mc cc md cd
      = if ma = m then x * (eriBlock boys sa sb sc sd).get8 ma ca mb cb mc cc md cd
        else (eriBlock boys sa sb sc sd).get8 ma ca mb cb mc cc md cd :=
  (eriBlock_slotLinear_a e sq pi boys sb sc sd mb cb mc cc md cd).scaleColumn sa m x ma ca h
    (h.mono (scaleColumn_expsIn e sq pi sa m x) (.refl e sq pi sb) (.refl e sq pi sc)
        (.refl e sq pi sd) h.da h.db h.dc h.dd)

/-- **A generalized contraction is the stack of its segmented contractions** (`(ab|cd)` block, slot
`b`; `EriOK`: the hypotheses of `eriBlock_eq_rys` on the quartet). -/
theorem eriBlock_column_b (boys : K → ℕ → Tab K) (sa sb sc sd : Shell K)
    (m ma ca cb mc cc md cd : ℕ)
    (h : EriOK e sq pi sa sb sc sd ca cb cc cd) :
    letI := fieldTransc e sq pi
    (eriBlock boys sa (sb.column m) sc sd).get8 ma ca 0 cb mc cc md cd
      = (eriBlock boys sa sb sc sd).get8 ma ca m cb mc cc md cd :=
  (eriBlock_slotLinear_b e sq pi boys sa sc sd ma ca mc cc md cd).column sb m cb h
    (h.mono (.refl e sq pi sa) (column_expsIn e sq pi sb m) (.refl e sq pi sc) (.refl e sq pi sd)
        h.da h.db h.dc h.dd)

/-- **The order of the primitives is immaterial** (`(ab|cd)` block, slot `b`). -/
theorem eriBlock_permPrims_b (boys : K → ℕ → Tab K) (sa sb sc sd : Shell K) (σ : ℕ → ℕ)
    (ma ca mb cb mc cc md cd : ℕ) (h : EriOK e sq pi sa sb sc sd ca cb cc cd)
    (hmap : ∀ k < sb.nprim, σ k < sb.nprim)
    (hinj : ∀ k < sb.nprim, ∀ k' < sb.nprim, σ k = σ k' → k = k') :
    letI := fieldTransc e sq pi
    (eriBlock boys sa (sb.permPrims σ) sc sd).get8 ma ca mb cb mc cc md cd
      = (eriBlock boys sa sb sc sd).get8 ma ca mb cb mc cc md cd :=
  (eriBlock_slotLinear_b e sq pi boys sa sc sd ma ca mc cc md cd).permPrims sb σ mb cb h
    (h.mono (.refl e sq pi sa) (permPrims_expsIn e sq pi sb σ hmap) (.refl e sq pi sc)
        (.refl e sq pi sd) h.da h.db h.dc h.dd) hmap hinj

/-- **Splitting a primitive** leaves the `(ab|cd)` block unchanged (slot `b`). -/
theorem eriBlock_splitPrim_b (boys : K → ℕ → Tab K) (sa sb sc sd : Shell K) (j : ℕ) (x : K)
    (ma ca mb cb mc cc md cd : ℕ) (h : EriOK e sq pi sa sb sc sd ca cb cc cd) (hj : j < sb.nprim) :
    letI := fieldTransc e sq pi
    (eriBlock boys sa (sb.splitPrim j x) sc sd).get8 ma ca mb cb mc cc md cd
      = (eriBlock boys sa sb sc sd).get8 ma ca mb cb mc cc md cd :=
  (eriBlock_slotLinear_b e sq pi boys sa sc sd ma ca mc cc md cd).splitPrim sb j x mb cb h
    (h.mono (.refl e sq pi sa) (splitPrim_expsIn e sq pi sb j x hj) (.refl e sq pi sc)
        (.refl e sq pi sd) h.da h.db h.dc h.dd) hj

/-- **Linearity in a coefficient column** (raw `(ab|cd)` block, slot `b`). -/
theorem eriBlock_scaleColumn_b (boys : K → ℕ → Tab K) (sa sb sc sd : Shell K) (m : ℕ) (x : K)
    (ma ca mb cb mc cc md cd : ℕ) (h : EriOK e sq pi sa sb sc sd ca cb cc cd) :
    letI := fieldTransc e sq pi
    (eriBlock boys sa (sb.scaleColumn m x) sc sd).get8 ma ca mb cb mc cc md cd
      = if mb = m then x * (eriBlock boys sa sb sc sd).get8 ma ca mb cb mc cc md cd
        else (eriBlock boys sa sb sc sd).get8 ma ca mb cb mc cc md cd :=
  (eriBlock_slotLinear_b e sq pi boys sa sc sd ma ca mc cc md cd).scaleColumn sb m x mb cb h
    (h.mono (.refl e sq pi sa) (scaleColumn_expsIn e sq pi sb m x) (.refl e sq pi sc)
        (.refl e sq pi sd) h.da h.db h.dc h.dd)

/-- **A generalized contraction is the stack of its segmented contractions** (`(ab|cd)` block, slot
`c`; `EriOK`: the hypotheses of `eriBlock_eq_rys` on the quartet). -/
theorem eriBlock_column_c (boys : K → ℕ → Tab K) (sa sb sc sd : Shell K)
    (m ma ca mb cb cc md cd : ℕ)
    (h : EriOK e sq pi sa sb sc sd ca cb cc cd) :
    letI := fieldTransc e sq pi
    (eriBlock boys sa sb (sc.column m) sd).get8 ma ca mb cb 0 cc md cd
      = (eriBlock boys sa sb sc sd).get8 ma ca mb cb m cc md cd :=
  (eriBlock_slotLinear_c e sq pi boys sa sb sd ma ca mb cb md cd).column sc m cc h
    (h.mono (.refl e sq pi sa) (.refl e sq pi sb) (column_expsIn e sq pi sc m) (.refl e sq pi sd)
        h.da h.db h.dc h.dd)

/-- **The order of the primitives is immaterial** (`(ab|cd)` block, slot `c`). -/
theorem eriBlock_permPrims_c (boys : K → ℕ → Tab K) (sa sb sc sd : Shell K) (σ : ℕ → ℕ)
    (ma ca mb cb mc cc md cd : ℕ) (h : EriOK e sq pi sa sb sc sd ca cb cc cd)
    (hmap : ∀ k < sc.nprim, σ k < sc.nprim)
    (hinj : ∀ k < sc.nprim, ∀ k' < sc.nprim, σ k = σ k' → k = k') :
    letI := fieldTransc e sq pi
    (eriBlock boys sa sb (sc.permPrims σ) sd).get8 ma ca mb cb mc cc md cd
      = (eriBlock boys sa sb sc sd).get8 ma ca mb cb mc cc md cd :=
  (eriBlock_slotLinear_c e sq pi boys sa sb sd ma ca mb cb md cd).permPrims sc σ mc cc h
    (h.mono (.refl e sq pi sa) (.refl e sq pi sb) (permPrims_expsIn e sq pi sc σ hmap)
        (.refl e sq pi sd) h.da h.db h.dc h.dd) hmap hinj

/-- **Splitting a primitive** leaves the `(ab|cd)` block unchanged (slot `c`). -/
theorem eriBlock_splitPrim_c (boys : K → ℕ → Tab K) (sa sb sc sd : Shell K) (j : ℕ) (x : K)
    (ma ca mb cb mc cc md cd : ℕ) (h : EriOK e sq pi sa sb sc sd ca cb cc cd) (hj : j < sc.nprim) :
    letI := fieldTransc e sq pi
    (eriBlock boys sa sb (sc.splitPrim j x) sd).get8 ma ca mb cb mc cc md cd
      = (eriBlock boys sa sb sc sd).get8 ma ca mb cb mc cc md cd :=
  (eriBlock_slotLinear_c e sq pi boys sa sb sd ma ca mb cb md cd).splitPrim sc j x mc cc h
    (h.mono (.refl e sq pi sa) (.refl e sq pi sb) (splitPrim_expsIn e sq pi sc j x hj)
        (.refl e sq pi sd) h.da h.db h.dc h.dd) hj

/-- **Linearity in a coefficient column** (raw `(ab|cd)` block, slot `c`). -/
theorem eriBlock_scaleColumn_c (boys : K → ℕ → Tab K) (sa sb sc sd : Shell K) (m : ℕ) (x : K)
    (ma ca mb cb mc cc md cd : ℕ) (h : EriOK e sq pi sa sb sc sd ca cb cc cd) :
    letI := fieldTransc e sq pi
    (eriBlock boys sa sb (sc.scaleColumn m x) sd).get8 ma ca mb cb mc cc md cd
      = if mc = m then x * (eriBlock boys sa sb sc sd).get8 ma ca mb cb mc cc md cd
        else (eriBlock boys sa sb sc sd).get8 ma ca mb cb mc cc md cd :=
  (eriBlock_slotLinear_c e sq pi boys sa sb sd ma ca mb cb md cd).scaleColumn sc m x mc cc h
    (h.mono (.refl e sq pi sa) (.refl e sq pi sb) (scaleColumn_expsIn e sq pi sc m x)
        (.refl e sq pi sd) h.da h.db h.dc h.dd)

/-- **A generalized contraction is the stack of its segmented contractions** (`(ab|cd)` block, slot
`d`; `EriOK`: the hypotheses of `eriBlock_eq_rys` on the quartet). -/
theorem eriBlock_column_d (boys : K → ℕ → Tab K) (sa sb sc sd : Shell K)
    (m ma ca mb cb mc cc cd : ℕ)
    (h : EriOK e sq pi sa sb sc sd ca cb cc cd) :
    letI := fieldTransc e sq pi
    (eriBlock boys sa sb sc (sd.column m)).get8 ma ca mb cb mc cc 0 cd
      = (eriBlock boys sa sb sc sd).get8 ma ca mb cb mc cc m cd :=
  (eriBlock_slotLinear_d e sq pi boys sa sb sc ma ca mb cb mc cc).column sd m cd h
    (h.mono (.refl e sq pi sa) (.refl e sq pi sb) (.refl e sq pi sc) (column_expsIn e sq pi sd m)
        h.da h.db h.dc h.dd)

/-- **The order of the primitives is immaterial** (`(ab|cd)` block, slot `d`). -/
theorem eriBlock_permPrims_d (boys : K → ℕ → Tab K) (sa sb sc sd : Shell K) (σ : ℕ → ℕ)
    (ma ca mb cb mc cc md cd : ℕ) (h : EriOK e sq pi sa sb sc sd ca cb cc cd)
    (hmap : ∀ k < sd.nprim, σ k < sd.nprim)
    (hinj : ∀ k < sd.nprim, ∀ k' < sd.nprim, σ k = σ k' → k = k') :
    letI := fieldTransc e sq pi
    (eriBlock boys sa sb sc (sd.permPrims σ)).get8 ma ca mb cb mc cc md cd
      = (eriBlock boys sa sb sc sd).get8 ma ca mb cb mc cc md cd :=
  (eriBlock_slotLinear_d e sq pi boys sa sb sc ma ca mb cb mc cc).permPrims sd σ md cd h
    (h.mono (.refl e sq pi sa) (.refl e sq pi sb) (.refl e sq pi sc)
        (permPrims_expsIn e sq pi sd σ hmap) h.da h.db h.dc h.dd) hmap hinj

/-- **Splitting a primitive** leaves the `(ab|cd)` block unchanged (slot `d`). -/
theorem eriBlock_splitPrim_d (boys : K → ℕ → Tab K) (sa sb sc sd : Shell K) (j : ℕ) (x : K)
    (ma ca mb cb mc cc md cd : ℕ) (h : EriOK e sq pi sa sb sc sd ca cb cc cd) (hj : j < sd.nprim) :
    letI := fieldTransc e sq pi
    (eriBlock boys sa sb sc (sd.splitPrim j x)).get8 ma ca mb cb mc cc md cd
      = (eriBlock boys sa sb sc sd).get8 ma ca mb cb mc cc md cd :=
  (eriBlock_slotLinear_d e sq pi boys sa sb sc ma ca mb cb mc cc).splitPrim sd j x md cd h
    (h.mono (.refl e sq pi sa) (.refl e sq pi sb) (.refl e sq pi sc)
        (splitPrim_expsIn e sq pi sd j x hj) h.da h.db h.dc h.dd) hj

/-- **Linearity in a coefficient column** (raw `(ab|cd)` block, slot `d`). -/
theorem eriBlock_scaleColumn_d (boys : K → ℕ → Tab K) (sa sb sc sd : Shell K) (m : ℕ) (x : K)
    (ma ca mb cb mc cc md cd : ℕ) (h : EriOK e sq pi sa sb sc sd ca cb cc cd) :
    letI := fieldTransc e sq pi
    (eriBlock boys sa sb sc (sd.scaleColumn m x)).get8 ma ca mb cb mc cc md cd
      = if md = m then x * (eriBlock boys sa sb sc sd).get8 ma ca mb cb mc cc md cd
        else (eriBlock boys sa sb sc sd).get8 ma ca mb cb mc cc md cd :=
  (eriBlock_slotLinear_d e sq pi boys sa sb sc ma ca mb cb mc cc).scaleColumn sd m x md cd h
    (h.mono (.refl e sq pi sa) (.refl e sq pi sb) (.refl e sq pi sc)
        (scaleColumn_expsIn e sq pi sd m x) h.da h.db h.dc h.dd)


end BlocksEri

section BlocksReal

/-! ### `overlapBlock`, normalised -/

/-- **Multiplying a coefficient column by `x > 0` leaves the normalised overlap entries unchanged**
(left slot; `s` normalises itself, the raw self-overlap of `(m, ca)` is positive). -/
theorem overlapBlock_normalised_scaleColumn_pos (s t : Shell ℝ) (m : ℕ) (x : ℝ) (ca mb cb : ℕ)
    (hn : s.unitNorm = true) (hx : 0 < x) (hov : 0 < (overlapBlock s s).get4 m ca m ca) :
    (overlapBlock (s.scaleColumn m x) t).get4 m ca mb cb * (normCont (s.scaleColumn m x)).get2 m ca
        * (normCont t).get2 mb cb
      = (overlapBlock s t).get4 m ca mb cb * (normCont s).get2 m ca
        * (normCont t).get2 mb cb :=
  congrArg (fun z => z * (normCont t).get2 mb cb)
    (((overlapBlock_slotLinear_left Real.exp Real.sqrt Real.pi t mb cb).on fun _ _ =>
        True).normalised_scaleColumn_pos s m x ca trivial trivial hn hx hov)

/-- **Multiplying a coefficient column by `x < 0` flips the sign of the normalised overlap entries of
that column** (left slot). -/
theorem overlapBlock_normalised_scaleColumn_neg (s t : Shell ℝ) (m : ℕ) (x : ℝ) (ca mb cb : ℕ)
    (hn : s.unitNorm = true) (hx : x < 0) (hov : 0 < (overlapBlock s s).get4 m ca m ca) :
    (overlapBlock (s.scaleColumn m x) t).get4 m ca mb cb * (normCont (s.scaleColumn m x)).get2 m ca
        * (normCont t).get2 mb cb
      = -((overlapBlock s t).get4 m ca mb cb * (normCont s).get2 m ca
        * (normCont t).get2 mb cb) := by
  rw [← neg_mul]
  exact congrArg (fun z => z * (normCont t).get2 mb cb)
    (((overlapBlock_slotLinear_left Real.exp Real.sqrt Real.pi t mb cb).on fun _ _ =>
        True).normalised_scaleColumn_neg s m x ca trivial trivial hn hx hov)

/-- … and leaves the normalised entries of every other column `ma ≠ m` unchanged (any `x`). -/
theorem overlapBlock_normalised_scaleColumn_other (s t : Shell ℝ) (m : ℕ) (x : ℝ) (ma ca mb cb : ℕ)
    (hm : ma ≠ m) :
    (overlapBlock (s.scaleColumn m x) t).get4 ma ca mb cb * (normCont (s.scaleColumn m x)).get2 ma
        ca
        * (normCont t).get2 mb cb
      = (overlapBlock s t).get4 ma ca mb cb * (normCont s).get2 ma ca
        * (normCont t).get2 mb cb :=
  congrArg (fun z => z * (normCont t).get2 mb cb)
    (((overlapBlock_slotLinear_left Real.exp Real.sqrt Real.pi t mb cb).on fun _ _ =>
        True).normalised_scaleColumn_other s m x ma ca trivial trivial hm)

/-- right slot, `x > 0` -/
theorem overlapBlock_normalised_scaleColumn_pos_right (s t : Shell ℝ) (m : ℕ) (x : ℝ) (ma ca cb : ℕ)
    (hn : t.unitNorm = true) (hx : 0 < x) (hov : 0 < (overlapBlock t t).get4 m cb m cb) :
    (overlapBlock s (t.scaleColumn m x)).get4 ma ca m cb * (normCont s).get2 ma ca
        * (normCont (t.scaleColumn m x)).get2 m cb
      = (overlapBlock s t).get4 ma ca m cb * (normCont s).get2 ma ca
        * (normCont t).get2 m cb := by
  have h := ((overlapBlock_slotLinear_right Real.exp Real.sqrt Real.pi s ma ca).on fun _ _ =>
      True).normalised_scaleColumn_pos t m x cb trivial trivial hn hx hov
  beta_reduce at h
  rw [mul_right_comm, h, mul_right_comm]

/-- right slot, `x < 0` -/
theorem overlapBlock_normalised_scaleColumn_neg_right (s t : Shell ℝ) (m : ℕ) (x : ℝ) (ma ca cb : ℕ)
    (hn : t.unitNorm = true) (hx : x < 0) (hov : 0 < (overlapBlock t t).get4 m cb m cb) :
    (overlapBlock s (t.scaleColumn m x)).get4 ma ca m cb * (normCont s).get2 ma ca
        * (normCont (t.scaleColumn m x)).get2 m cb
      = -((overlapBlock s t).get4 ma ca m cb * (normCont s).get2 ma ca
        * (normCont t).get2 m cb) := by
  have h := ((overlapBlock_slotLinear_right Real.exp Real.sqrt Real.pi s ma ca).on fun _ _ =>
      True).normalised_scaleColumn_neg t m x cb trivial trivial hn hx hov
  beta_reduce at h
  rw [mul_right_comm, h, neg_mul, mul_right_comm]

/-- right slot, other columns -/
theorem overlapBlock_normalised_scaleColumn_other_right (s t : Shell ℝ) (m : ℕ) (x : ℝ)
    (ma ca mb cb : ℕ)
    (hm : mb ≠ m) :
    (overlapBlock s (t.scaleColumn m x)).get4 ma ca mb cb * (normCont s).get2 ma ca
        * (normCont (t.scaleColumn m x)).get2 mb cb
      = (overlapBlock s t).get4 ma ca mb cb * (normCont s).get2 ma ca
        * (normCont t).get2 mb cb := by
  have h := ((overlapBlock_slotLinear_right Real.exp Real.sqrt Real.pi s ma ca).on fun _ _ =>
      True).normalised_scaleColumn_other t m x mb cb trivial trivial hm
  beta_reduce at h
  rw [mul_right_comm, h, mul_right_comm]

/-! ### `kineticBlock`, normalised -/

/-- **Multiplying a coefficient column by `x > 0` leaves the normalised kinetic-energy entries unchanged**
(left slot; `s` normalises itself, the raw self-overlap of `(m, ca)` is positive). -/
theorem kineticBlock_normalised_scaleColumn_pos (s t : Shell ℝ) (m : ℕ) (x : ℝ) (ca mb cb : ℕ)
    (hn : s.unitNorm = true) (hx : 0 < x) (hov : 0 < (overlapBlock s s).get4 m ca m ca) :
    (kineticBlock (s.scaleColumn m x) t).get4 m ca mb cb * (normCont (s.scaleColumn m x)).get2 m ca
        * (normCont t).get2 mb cb
      = (kineticBlock s t).get4 m ca mb cb * (normCont s).get2 m ca
        * (normCont t).get2 mb cb :=
  congrArg (fun z => z * (normCont t).get2 mb cb)
    (((kineticBlock_slotLinear_left Real.exp Real.sqrt Real.pi t mb cb).on fun _ _ =>
        True).normalised_scaleColumn_pos s m x ca trivial trivial hn hx hov)

/-- **Multiplying a coefficient column by `x < 0` flips the sign of the normalised kinetic-energy entries of
that column** (left slot). -/
theorem kineticBlock_normalised_scaleColumn_neg (s t : Shell ℝ) (m : ℕ) (x : ℝ) (ca mb cb : ℕ)
    (hn : s.unitNorm = true) (hx : x < 0) (hov : 0 < (overlapBlock s s).get4 m ca m ca) :
    (kineticBlock (s.scaleColumn m x) t).get4 m ca mb cb * (normCont (s.scaleColumn m x)).get2 m ca
        * (normCont t).get2 mb cb
      = -((kineticBlock s t).get4 m ca mb cb * (normCont s).get2 m ca
        * (normCont t).get2 mb cb) := by
  rw [← neg_mul]
  exact congrArg (fun z => z * (normCont t).get2 mb cb)
    (((kineticBlock_slotLinear_left Real.exp Real.sqrt Real.pi t mb cb).on fun _ _ =>
        True).normalised_scaleColumn_neg s m x ca trivial trivial hn hx hov)

/-- … and leaves the normalised entries of every other column `ma ≠ m` unchanged (any `x`). -/
theorem kineticBlock_normalised_scaleColumn_other (s t : Shell ℝ) (m : ℕ) (x : ℝ) (ma ca mb cb : ℕ)
    (hm : ma ≠ m) :
    (kineticBlock (s.scaleColumn m x) t).get4 ma ca mb cb * (normCont (s.scaleColumn m x)).get2 ma
        ca
        * (normCont t).get2 mb cb
      = (kineticBlock s t).get4 ma ca mb cb * (normCont s).get2 ma ca
        * (normCont t).get2 mb cb :=
  congrArg (fun z => z * (normCont t).get2 mb cb)
    (((kineticBlock_slotLinear_left Real.exp Real.sqrt Real.pi t mb cb).on fun _ _ =>
        True).normalised_scaleColumn_other s m x ma ca trivial trivial hm)

/-- right slot, `x > 0` -/
theorem kineticBlock_normalised_scaleColumn_pos_right (s t : Shell ℝ) (m : ℕ) (x : ℝ) (ma ca cb : ℕ)
    (hn : t.unitNorm = true) (hx : 0 < x) (hov : 0 < (overlapBlock t t).get4 m cb m cb) :
    (kineticBlock s (t.scaleColumn m x)).get4 ma ca m cb * (normCont s).get2 ma ca
        * (normCont (t.scaleColumn m x)).get2 m cb
      = (kineticBlock s t).get4 ma ca m cb * (normCont s).get2 ma ca
        * (normCont t).get2 m cb := by
  have h := ((kineticBlock_slotLinear_right Real.exp Real.sqrt Real.pi s ma ca).on fun _ _ =>
      True).normalised_scaleColumn_pos t m x cb trivial trivial hn hx hov
  beta_reduce at h
  rw [mul_right_comm, h, mul_right_comm]

/-- right slot, `x < 0` -/
theorem kineticBlock_normalised_scaleColumn_neg_right (s t : Shell ℝ) (m : ℕ) (x : ℝ) (ma ca cb : ℕ)
    (hn : t.unitNorm = true) (hx : x < 0) (hov : 0 < (overlapBlock t t).get4 m cb m cb) :
    (kineticBlock s (t.scaleColumn m x)).get4 ma ca m cb * (normCont s).get2 ma ca
        * (normCont (t.scaleColumn m x)).get2 m cb
      = -((kineticBlock s t).get4 ma ca m cb * (normCont s).get2 ma ca
        * (normCont t).get2 m cb) := by
  have h := ((kineticBlock_slotLinear_right Real.exp Real.sqrt Real.pi s ma ca).on fun _ _ =>
      True).normalised_scaleColumn_neg t m x cb trivial trivial hn hx hov
  beta_reduce at h
  rw [mul_right_comm, h, neg_mul, mul_right_comm]

/-- right slot, other columns -/
theorem kineticBlock_normalised_scaleColumn_other_right (s t : Shell ℝ) (m : ℕ) (x : ℝ)
    (ma ca mb cb : ℕ)
    (hm : mb ≠ m) :
    (kineticBlock s (t.scaleColumn m x)).get4 ma ca mb cb * (normCont s).get2 ma ca
        * (normCont (t.scaleColumn m x)).get2 mb cb
      = (kineticBlock s t).get4 ma ca mb cb * (normCont s).get2 ma ca
        * (normCont t).get2 mb cb := by
  have h := ((kineticBlock_slotLinear_right Real.exp Real.sqrt Real.pi s ma ca).on fun _ _ =>
      True).normalised_scaleColumn_other t m x mb cb trivial trivial hm
  beta_reduce at h
  rw [mul_right_comm, h, mul_right_comm]

/-! ### `momentBlock`, normalised -/

/-- **Multiplying a coefficient column by `x > 0` leaves the normalised moment entries unchanged**
(left slot; `s` normalises itself, the raw self-overlap of `(m, ca)` is positive). -/
theorem momentBlock_normalised_scaleColumn_pos (O : ℕ → ℝ) (orders : List Comp) (d : ℕ)
    (s t : Shell ℝ) (m : ℕ) (x : ℝ) (ca mb cb : ℕ)
    (hn : s.unitNorm = true) (hx : 0 < x) (hov : 0 < (overlapBlock s s).get4 m ca m ca) :
    ((momentBlock (s.scaleColumn m x) t O orders).get d).get4 m ca mb cb *
        (normCont (s.scaleColumn m x)).get2 m ca
        * (normCont t).get2 mb cb
      = ((momentBlock s t O orders).get d).get4 m ca mb cb * (normCont s).get2 m ca
        * (normCont t).get2 mb cb :=
  congrArg (fun z => z * (normCont t).get2 mb cb)
    (((momentBlock_slotLinear_left Real.exp Real.sqrt Real.pi t O orders d mb cb).on fun _ _ =>
        True).normalised_scaleColumn_pos s m x ca trivial trivial hn hx hov)

/-- **Multiplying a coefficient column by `x < 0` flips the sign of the normalised moment entries of
that column** (left slot). -/
theorem momentBlock_normalised_scaleColumn_neg (O : ℕ → ℝ) (orders : List Comp) (d : ℕ)
    (s t : Shell ℝ) (m : ℕ) (x : ℝ) (ca mb cb : ℕ)
    (hn : s.unitNorm = true) (hx : x < 0) (hov : 0 < (overlapBlock s s).get4 m ca m ca) :
    ((momentBlock (s.scaleColumn m x) t O orders).get d).get4 m ca mb cb *
        (normCont (s.scaleColumn m x)).get2 m ca
        * (normCont t).get2 mb cb
      = -(((momentBlock s t O orders).get d).get4 m ca mb cb * (normCont s).get2 m ca
        * (normCont t).get2 mb cb) := by
  rw [← neg_mul]
  exact congrArg (fun z => z * (normCont t).get2 mb cb)
    (((momentBlock_slotLinear_left Real.exp Real.sqrt Real.pi t O orders d mb cb).on fun _ _ =>
        True).normalised_scaleColumn_neg s m x ca trivial trivial hn hx hov)

/-- … and leaves the normalised entries of every other column `ma ≠ m` unchanged (any `x`). -/
theorem momentBlock_normalised_scaleColumn_other (O : ℕ → ℝ) (orders : List Comp) (d : ℕ)
    (s t : Shell ℝ) (m : ℕ) (x : ℝ) (ma ca mb cb : ℕ)
    (hm : ma ≠ m) :
    ((momentBlock (s.scaleColumn m x) t O orders).get d).get4 ma ca mb cb *
        (normCont (s.scaleColumn m x)).get2 ma ca
        * (normCont t).get2 mb cb
      = ((momentBlock s t O orders).get d).get4 ma ca mb cb * (normCont s).get2 ma ca
        * (normCont t).get2 mb cb :=
  congrArg (fun z => z * (normCont t).get2 mb cb)
    (((momentBlock_slotLinear_left Real.exp Real.sqrt Real.pi t O orders d mb cb).on fun _ _ =>
        True).normalised_scaleColumn_other s m x ma ca trivial trivial hm)

/-- right slot, `x > 0` -/
theorem momentBlock_normalised_scaleColumn_pos_right (O : ℕ → ℝ) (orders : List Comp) (d : ℕ)
    (s t : Shell ℝ) (m : ℕ) (x : ℝ) (ma ca cb : ℕ)
    (hn : t.unitNorm = true) (hx : 0 < x) (hov : 0 < (overlapBlock t t).get4 m cb m cb) :
    ((momentBlock s (t.scaleColumn m x) O orders).get d).get4 ma ca m cb * (normCont s).get2 ma ca
        * (normCont (t.scaleColumn m x)).get2 m cb
      = ((momentBlock s t O orders).get d).get4 ma ca m cb * (normCont s).get2 ma ca
        * (normCont t).get2 m cb := by
  have h := ((momentBlock_slotLinear_right Real.exp Real.sqrt Real.pi s O orders d ma ca).on fun _ _
      => True).normalised_scaleColumn_pos t m x cb trivial trivial hn hx hov
  beta_reduce at h
  rw [mul_right_comm, h, mul_right_comm]

/-- right slot, `x < 0` -/
theorem momentBlock_normalised_scaleColumn_neg_right (O : ℕ → ℝ) (orders : List Comp) (d : ℕ)
    (s t : Shell ℝ) (m : ℕ) (x : ℝ) (ma ca cb : ℕ)
    (hn : t.unitNorm = true) (hx : x < 0) (hov : 0 < (overlapBlock t t).get4 m cb m cb) :
    ((momentBlock s (t.scaleColumn m x) O orders).get d).get4 ma ca m cb * (normCont s).get2 ma ca
        * (normCont (t.scaleColumn m x)).get2 m cb
      = -(((momentBlock s t O orders).get d).get4 ma ca m cb * (normCont s).get2 ma ca
        * (normCont t).get2 m cb) := by
  have h := ((momentBlock_slotLinear_right Real.exp Real.sqrt Real.pi s O orders d ma ca).on fun _ _
      => True).normalised_scaleColumn_neg t m x cb trivial trivial hn hx hov
  beta_reduce at h
  rw [mul_right_comm, h, neg_mul, mul_right_comm]

/-- right slot, other columns -/
theorem momentBlock_normalised_scaleColumn_other_right (O : ℕ → ℝ) (orders : List Comp) (d : ℕ)
    (s t : Shell ℝ) (m : ℕ) (x : ℝ) (ma ca mb cb : ℕ)
    (hm : mb ≠ m) :
    ((momentBlock s (t.scaleColumn m x) O orders).get d).get4 ma ca mb cb * (normCont s).get2 ma ca
        * (normCont (t.scaleColumn m x)).get2 mb cb
      = ((momentBlock s t O orders).get d).get4 ma ca mb cb * (normCont s).get2 ma ca
        * (normCont t).get2 mb cb := by
  have h := ((momentBlock_slotLinear_right Real.exp Real.sqrt Real.pi s O orders d ma ca).on fun _ _
      => True).normalised_scaleColumn_other t m x mb cb trivial trivial hm
  beta_reduce at h
  rw [mul_right_comm, h, mul_right_comm]

/-! ### `pointChargeBlock`, normalised -/

/-- **Multiplying a coefficient column by `x > 0` leaves the normalised point-charge entries unchanged**
(left slot; `s` normalises itself, the raw self-overlap of `(m, ca)` is positive). -/
theorem pointChargeBlock_normalised_scaleColumn_pos (boys : ℝ → ℕ → Tab ℝ) (Cpt : ℕ → ℝ) (q : ℝ)
    (s t : Shell ℝ) (m : ℕ) (x : ℝ) (ca mb cb : ℕ)
    (ha : s.degOK ca) (hb : t.degOK cb)
    (hn : s.unitNorm = true) (hx : 0 < x) (hov : 0 < (overlapBlock s s).get4 m ca m ca) :
    (pointChargeBlock boys (s.scaleColumn m x) t Cpt q).get4 m ca mb cb *
        (normCont (s.scaleColumn m x)).get2 m ca
        * (normCont t).get2 mb cb
      = (pointChargeBlock boys s t Cpt q).get4 m ca mb cb * (normCont s).get2 m ca
        * (normCont t).get2 mb cb :=
  congrArg (fun z => z * (normCont t).get2 mb cb)
    ((pointChargeBlock_slotLinear_left Real.exp Real.sqrt Real.pi boys t Cpt q mb cb
        hb).normalised_scaleColumn_pos s m x ca ha ha hn hx hov)

/-- **Multiplying a coefficient column by `x < 0` flips the sign of the normalised point-charge entries of
that column** (left slot). -/
theorem pointChargeBlock_normalised_scaleColumn_neg (boys : ℝ → ℕ → Tab ℝ) (Cpt : ℕ → ℝ) (q : ℝ)
    (s t : Shell ℝ) (m : ℕ) (x : ℝ) (ca mb cb : ℕ)
    (ha : s.degOK ca) (hb : t.degOK cb)
    (hn : s.unitNorm = true) (hx : x < 0) (hov : 0 < (overlapBlock s s).get4 m ca m ca) :
    (pointChargeBlock boys (s.scaleColumn m x) t Cpt q).get4 m ca mb cb *
        (normCont (s.scaleColumn m x)).get2 m ca
        * (normCont t).get2 mb cb
      = -((pointChargeBlock boys s t Cpt q).get4 m ca mb cb * (normCont s).get2 m ca
        * (normCont t).get2 mb cb) := by
  rw [← neg_mul]
  exact congrArg (fun z => z * (normCont t).get2 mb cb)
    ((pointChargeBlock_slotLinear_left Real.exp Real.sqrt Real.pi boys t Cpt q mb cb
        hb).normalised_scaleColumn_neg s m x ca ha ha hn hx hov)

/-- … and leaves the normalised entries of every other column `ma ≠ m` unchanged (any `x`). -/
theorem pointChargeBlock_normalised_scaleColumn_other (boys : ℝ → ℕ → Tab ℝ) (Cpt : ℕ → ℝ) (q : ℝ)
    (s t : Shell ℝ) (m : ℕ) (x : ℝ) (ma ca mb cb : ℕ)
    (ha : s.degOK ca) (hb : t.degOK cb)
    (hm : ma ≠ m) :
    (pointChargeBlock boys (s.scaleColumn m x) t Cpt q).get4 ma ca mb cb *
        (normCont (s.scaleColumn m x)).get2 ma ca
        * (normCont t).get2 mb cb
      = (pointChargeBlock boys s t Cpt q).get4 ma ca mb cb * (normCont s).get2 ma ca
        * (normCont t).get2 mb cb :=
  congrArg (fun z => z * (normCont t).get2 mb cb)
    ((pointChargeBlock_slotLinear_left Real.exp Real.sqrt Real.pi boys t Cpt q mb cb
        hb).normalised_scaleColumn_other s m x ma ca ha ha hm)

/-- right slot, `x > 0` -/
theorem pointChargeBlock_normalised_scaleColumn_pos_right (boys : ℝ → ℕ → Tab ℝ) (Cpt : ℕ → ℝ)
    (q : ℝ) (s t : Shell ℝ) (m : ℕ) (x : ℝ) (ma ca cb : ℕ)
    (ha : s.degOK ca) (hb : t.degOK cb)
    (hn : t.unitNorm = true) (hx : 0 < x) (hov : 0 < (overlapBlock t t).get4 m cb m cb) :
    (pointChargeBlock boys s (t.scaleColumn m x) Cpt q).get4 ma ca m cb * (normCont s).get2 ma ca
        * (normCont (t.scaleColumn m x)).get2 m cb
      = (pointChargeBlock boys s t Cpt q).get4 ma ca m cb * (normCont s).get2 ma ca
        * (normCont t).get2 m cb := by
  have h := (pointChargeBlock_slotLinear_right Real.exp Real.sqrt Real.pi boys s Cpt q ma ca
      ha).normalised_scaleColumn_pos t m x cb hb hb hn hx hov
  beta_reduce at h
  rw [mul_right_comm, h, mul_right_comm]

/-- right slot, `x < 0` -/
theorem pointChargeBlock_normalised_scaleColumn_neg_right (boys : ℝ → ℕ → Tab ℝ) (Cpt : ℕ → ℝ)
    (q : ℝ) (s t : Shell ℝ) (m : ℕ) (x : ℝ) (ma ca cb : ℕ)
    (ha : s.degOK ca) (hb : t.degOK cb)
    (hn : t.unitNorm = true) (hx : x < 0) (hov : 0 < (overlapBlock t t).get4 m cb m cb) :
    (pointChargeBlock boys s (t.scaleColumn m x) Cpt q).get4 ma ca m cb * (normCont s).get2 ma ca
        * (normCont (t.scaleColumn m x)).get2 m cb
      = -((pointChargeBlock boys s t Cpt q).get4 ma ca m cb * (normCont s).get2 ma ca
        * (normCont t).get2 m cb) := by
  have h := (pointChargeBlock_slotLinear_right Real.exp Real.sqrt Real.pi boys s Cpt q ma ca
      ha).normalised_scaleColumn_neg t m x cb hb hb hn hx hov
  beta_reduce at h
  rw [mul_right_comm, h, neg_mul, mul_right_comm]

/-- right slot, other columns -/
theorem pointChargeBlock_normalised_scaleColumn_other_right (boys : ℝ → ℕ → Tab ℝ) (Cpt : ℕ → ℝ)
    (q : ℝ) (s t : Shell ℝ) (m : ℕ) (x : ℝ) (ma ca mb cb : ℕ)
    (ha : s.degOK ca) (hb : t.degOK cb)
    (hm : mb ≠ m) :
    (pointChargeBlock boys s (t.scaleColumn m x) Cpt q).get4 ma ca mb cb * (normCont s).get2 ma ca
        * (normCont (t.scaleColumn m x)).get2 mb cb
      = (pointChargeBlock boys s t Cpt q).get4 ma ca mb cb * (normCont s).get2 ma ca
        * (normCont t).get2 mb cb := by
  have h := (pointChargeBlock_slotLinear_right Real.exp Real.sqrt Real.pi boys s Cpt q ma ca
      ha).normalised_scaleColumn_other t m x mb cb hb hb hm
  beta_reduce at h
  rw [mul_right_comm, h, mul_right_comm]

/-! ### `momentumBlock`, normalised -/

/-- **Multiplying a coefficient column by `x > 0` leaves the normalised momentum entries unchanged**
(left slot; `s` normalises itself, the raw self-overlap of `(m, ca)` is positive). -/
theorem momentumBlock_normalised_scaleColumn_pos (axis : ℕ) (s t : Shell ℝ) (m : ℕ) (x : ℝ)
    (ca mb cb : ℕ)
    (hn : s.unitNorm = true) (hx : 0 < x) (hov : 0 < (overlapBlock s s).get4 m ca m ca) :
    ((momentumBlock (s.scaleColumn m x) t).get axis).get4 m ca mb cb *
        (normCont (s.scaleColumn m x)).get2 m ca
        * (normCont t).get2 mb cb
      = ((momentumBlock s t).get axis).get4 m ca mb cb * (normCont s).get2 m ca
        * (normCont t).get2 mb cb :=
  congrArg (fun z => z * (normCont t).get2 mb cb)
    (((momentumBlock_slotLinear_left Real.exp Real.sqrt Real.pi t axis mb cb).on fun _ _ =>
        True).normalised_scaleColumn_pos s m x ca trivial trivial hn hx hov)

/-- **Multiplying a coefficient column by `x < 0` flips the sign of the normalised momentum entries of
that column** (left slot). -/
theorem momentumBlock_normalised_scaleColumn_neg (axis : ℕ) (s t : Shell ℝ) (m : ℕ) (x : ℝ)
    (ca mb cb : ℕ)
    (hn : s.unitNorm = true) (hx : x < 0) (hov : 0 < (overlapBlock s s).get4 m ca m ca) :
    ((momentumBlock (s.scaleColumn m x) t).get axis).get4 m ca mb cb *
        (normCont (s.scaleColumn m x)).get2 m ca
        * (normCont t).get2 mb cb
      = -(((momentumBlock s t).get axis).get4 m ca mb cb * (normCont s).get2 m ca
        * (normCont t).get2 mb cb) := by
  rw [← neg_mul]
  exact congrArg (fun z => z * (normCont t).get2 mb cb)
    (((momentumBlock_slotLinear_left Real.exp Real.sqrt Real.pi t axis mb cb).on fun _ _ =>
        True).normalised_scaleColumn_neg s m x ca trivial trivial hn hx hov)

/-- … and leaves the normalised entries of every other column `ma ≠ m` unchanged (any `x`). -/
theorem momentumBlock_normalised_scaleColumn_other (axis : ℕ) (s t : Shell ℝ) (m : ℕ) (x : ℝ)
    (ma ca mb cb : ℕ)
    (hm : ma ≠ m) :
    ((momentumBlock (s.scaleColumn m x) t).get axis).get4 ma ca mb cb *
        (normCont (s.scaleColumn m x)).get2 ma ca
        * (normCont t).get2 mb cb
      = ((momentumBlock s t).get axis).get4 ma ca mb cb * (normCont s).get2 ma ca
        * (normCont t).get2 mb cb :=
  congrArg (fun z => z * (normCont t).get2 mb cb)
    (((momentumBlock_slotLinear_left Real.exp Real.sqrt Real.pi t axis mb cb).on fun _ _ =>
        True).normalised_scaleColumn_other s m x ma ca trivial trivial hm)

/-- right slot, `x > 0` -/
theorem momentumBlock_normalised_scaleColumn_pos_right (axis : ℕ) (s t : Shell ℝ) (m : ℕ) (x : ℝ)
    (ma ca cb : ℕ)
    (hn : t.unitNorm = true) (hx : 0 < x) (hov : 0 < (overlapBlock t t).get4 m cb m cb) :
    ((momentumBlock s (t.scaleColumn m x)).get axis).get4 ma ca m cb * (normCont s).get2 ma ca
        * (normCont (t.scaleColumn m x)).get2 m cb
      = ((momentumBlock s t).get axis).get4 ma ca m cb * (normCont s).get2 ma ca
        * (normCont t).get2 m cb := by
  have h := ((momentumBlock_slotLinear_right Real.exp Real.sqrt Real.pi s axis ma ca).on fun _ _ =>
      True).normalised_scaleColumn_pos t m x cb trivial trivial hn hx hov
  beta_reduce at h
  rw [mul_right_comm, h, mul_right_comm]

/-- right slot, `x < 0` -/
theorem momentumBlock_normalised_scaleColumn_neg_right (axis : ℕ) (s t : Shell ℝ) (m : ℕ) (x : ℝ)
    (ma ca cb : ℕ)
    (hn : t.unitNorm = true) (hx : x < 0) (hov : 0 < (overlapBlock t t).get4 m cb m cb) :
    ((momentumBlock s (t.scaleColumn m x)).get axis).get4 ma ca m cb * (normCont s).get2 ma ca
        * (normCont (t.scaleColumn m x)).get2 m cb
      = -(((momentumBlock s t).get axis).get4 ma ca m cb * (normCont s).get2 ma ca
        * (normCont t).get2 m cb) := by
  have h := ((momentumBlock_slotLinear_right Real.exp Real.sqrt Real.pi s axis ma ca).on fun _ _ =>
      True).normalised_scaleColumn_neg t m x cb trivial trivial hn hx hov
  beta_reduce at h
  rw [mul_right_comm, h, neg_mul, mul_right_comm]

/-- right slot, other columns -/
theorem momentumBlock_normalised_scaleColumn_other_right (axis : ℕ) (s t : Shell ℝ) (m : ℕ) (x : ℝ)
    (ma ca mb cb : ℕ)
    (hm : mb ≠ m) :
    ((momentumBlock s (t.scaleColumn m x)).get axis).get4 ma ca mb cb * (normCont s).get2 ma ca
        * (normCont (t.scaleColumn m x)).get2 mb cb
      = ((momentumBlock s t).get axis).get4 ma ca mb cb * (normCont s).get2 ma ca
        * (normCont t).get2 mb cb := by
  have h := ((momentumBlock_slotLinear_right Real.exp Real.sqrt Real.pi s axis ma ca).on fun _ _ =>
      True).normalised_scaleColumn_other t m x mb cb trivial trivial hm
  beta_reduce at h
  rw [mul_right_comm, h, mul_right_comm]

/-! ### `angmomBlock`, normalised -/

/-- **Multiplying a coefficient column by `x > 0` leaves the normalised angular-momentum entries unchanged**
(left slot; `s` normalises itself, the raw self-overlap of `(m, ca)` is positive). -/
theorem angmomBlock_normalised_scaleColumn_pos (axis : ℕ) (s t : Shell ℝ) (m : ℕ) (x : ℝ)
    (ca mb cb : ℕ)
    (hn : s.unitNorm = true) (hx : 0 < x) (hov : 0 < (overlapBlock s s).get4 m ca m ca) :
    ((angmomBlock (s.scaleColumn m x) t).get axis).get4 m ca mb cb *
        (normCont (s.scaleColumn m x)).get2 m ca
        * (normCont t).get2 mb cb
      = ((angmomBlock s t).get axis).get4 m ca mb cb * (normCont s).get2 m ca
        * (normCont t).get2 mb cb :=
  congrArg (fun z => z * (normCont t).get2 mb cb)
    (((angmomBlock_slotLinear_left Real.exp Real.sqrt Real.pi t axis mb cb).on fun _ _ =>
        True).normalised_scaleColumn_pos s m x ca trivial trivial hn hx hov)

/-- **Multiplying a coefficient column by `x < 0` flips the sign of the normalised angular-momentum entries of
that column** (left slot). -/
theorem angmomBlock_normalised_scaleColumn_neg (axis : ℕ) (s t : Shell ℝ) (m : ℕ) (x : ℝ)
    (ca mb cb : ℕ)
    (hn : s.unitNorm = true) (hx : x < 0) (hov : 0 < (overlapBlock s s).get4 m ca m ca) :
    ((angmomBlock (s.scaleColumn m x) t).get axis).get4 m ca mb cb *
        (normCont (s.scaleColumn m x)).get2 m ca
        * (normCont t).get2 mb cb
      = -(((angmomBlock s t).get axis).get4 m ca mb cb * (normCont s).get2 m ca
        * (normCont t).get2 mb cb) := by
  rw [← neg_mul]
  exact congrArg (fun z => z * (normCont t).get2 mb cb)
    (((angmomBlock_slotLinear_left Real.exp Real.sqrt Real.pi t axis mb cb).on fun _ _ =>
        True).normalised_scaleColumn_neg s m x ca trivial trivial hn hx hov)

/-- … and leaves the normalised entries of every other column `ma ≠ m` unchanged (any `x`). -/
theorem angmomBlock_normalised_scaleColumn_other (axis : ℕ) (s t : Shell ℝ) (m : ℕ) (x : ℝ)
    (ma ca mb cb : ℕ)
    (hm : ma ≠ m) :
    ((angmomBlock (s.scaleColumn m x) t).get axis).get4 ma ca mb cb *
        (normCont (s.scaleColumn m x)).get2 ma ca
        * (normCont t).get2 mb cb
      = ((angmomBlock s t).get axis).get4 ma ca mb cb * (normCont s).get2 ma ca
        * (normCont t).get2 mb cb :=
  congrArg (fun z => z * (normCont t).get2 mb cb)
    (((angmomBlock_slotLinear_left Real.exp Real.sqrt Real.pi t axis mb cb).on fun _ _ =>
        True).normalised_scaleColumn_other s m x ma ca trivial trivial hm)

/-- right slot, `x > 0` -/
theorem angmomBlock_normalised_scaleColumn_pos_right (axis : ℕ) (s t : Shell ℝ) (m : ℕ) (x : ℝ)
    (ma ca cb : ℕ)
    (hn : t.unitNorm = true) (hx : 0 < x) (hov : 0 < (overlapBlock t t).get4 m cb m cb) :
    ((angmomBlock s (t.scaleColumn m x)).get axis).get4 ma ca m cb * (normCont s).get2 ma ca
        * (normCont (t.scaleColumn m x)).get2 m cb
      = ((angmomBlock s t).get axis).get4 ma ca m cb * (normCont s).get2 ma ca
        * (normCont t).get2 m cb := by
  have h := ((angmomBlock_slotLinear_right Real.exp Real.sqrt Real.pi s axis ma ca).on fun _ _ =>
      True).normalised_scaleColumn_pos t m x cb trivial trivial hn hx hov
  beta_reduce at h
  rw [mul_right_comm, h, mul_right_comm]

/-- right slot, `x < 0` -/
theorem angmomBlock_normalised_scaleColumn_neg_right (axis : ℕ) (s t : Shell ℝ) (m : ℕ) (x : ℝ)
    (ma ca cb : ℕ)
    (hn : t.unitNorm = true) (hx : x < 0) (hov : 0 < (overlapBlock t t).get4 m cb m cb) :
    ((angmomBlock s (t.scaleColumn m x)).get axis).get4 ma ca m cb * (normCont s).get2 ma ca
        * (normCont (t.scaleColumn m x)).get2 m cb
      = -(((angmomBlock s t).get axis).get4 ma ca m cb * (normCont s).get2 ma ca
        * (normCont t).get2 m cb) := by
  have h := ((angmomBlock_slotLinear_right Real.exp Real.sqrt Real.pi s axis ma ca).on fun _ _ =>
      True).normalised_scaleColumn_neg t m x cb trivial trivial hn hx hov
  beta_reduce at h
  rw [mul_right_comm, h, neg_mul, mul_right_comm]

/-- right slot, other columns -/
theorem angmomBlock_normalised_scaleColumn_other_right (axis : ℕ) (s t : Shell ℝ) (m : ℕ) (x : ℝ)
    (ma ca mb cb : ℕ)
    (hm : mb ≠ m) :
    ((angmomBlock s (t.scaleColumn m x)).get axis).get4 ma ca mb cb * (normCont s).get2 ma ca
        * (normCont (t.scaleColumn m x)).get2 mb cb
      = ((angmomBlock s t).get axis).get4 ma ca mb cb * (normCont s).get2 ma ca
        * (normCont t).get2 mb cb := by
  have h := ((angmomBlock_slotLinear_right Real.exp Real.sqrt Real.pi s axis ma ca).on fun _ _ =>
      True).normalised_scaleColumn_other t m x mb cb trivial trivial hm
  beta_reduce at h
  rw [mul_right_comm, h, mul_right_comm]


/-! ### `evalBlock`, normalised -/

/-- **Multiplying a coefficient column by `x > 0` leaves the normalised values (and derivatives) of the
contracted functions unchanged.** -/
theorem evalBlock_normalised_scaleColumn_pos (be : Backend) (orders : Comp) (pts : Array (ℕ → ℝ))
    (p : ℕ) (s : Shell ℝ) (m : ℕ) (x : ℝ) (c : ℕ)
    (hn : s.unitNorm = true) (hx : 0 < x) (hov : 0 < (overlapBlock s s).get4 m c m c) :
    (evalBlock (s.scaleColumn m x) be orders pts).get3 m c p * (normCont (s.scaleColumn m x)).get2 m
        c
      = (evalBlock s be orders pts).get3 m c p * (normCont s).get2 m c :=
  ((evalBlock_slotLinear Real.exp Real.sqrt Real.pi be orders pts p).on fun _ _ =>
      True).normalised_scaleColumn_pos s m x c trivial trivial hn hx hov

/-- **Multiplying a coefficient column by `x < 0` flips the sign of the normalised functions of that
column.** -/
theorem evalBlock_normalised_scaleColumn_neg (be : Backend) (orders : Comp) (pts : Array (ℕ → ℝ))
    (p : ℕ) (s : Shell ℝ) (m : ℕ) (x : ℝ) (c : ℕ)
    (hn : s.unitNorm = true) (hx : x < 0) (hov : 0 < (overlapBlock s s).get4 m c m c) :
    (evalBlock (s.scaleColumn m x) be orders pts).get3 m c p * (normCont (s.scaleColumn m x)).get2 m
        c
      = -((evalBlock s be orders pts).get3 m c p * (normCont s).get2 m c) :=
  ((evalBlock_slotLinear Real.exp Real.sqrt Real.pi be orders pts p).on fun _ _ =>
      True).normalised_scaleColumn_neg s m x c trivial trivial hn hx hov

/-- … and leaves the functions of every other column unchanged. -/
theorem evalBlock_normalised_scaleColumn_other (be : Backend) (orders : Comp) (pts : Array (ℕ → ℝ))
    (p : ℕ) (s : Shell ℝ) (m : ℕ) (x : ℝ) (m' c : ℕ)
    (hm : m' ≠ m) :
    (evalBlock (s.scaleColumn m x) be orders pts).get3 m' c p * (normCont (s.scaleColumn m x)).get2
        m' c
      = (evalBlock s be orders pts).get3 m' c p * (normCont s).get2 m' c :=
  ((evalBlock_slotLinear Real.exp Real.sqrt Real.pi be orders pts p).on fun _ _ =>
      True).normalised_scaleColumn_other s m x m' c trivial trivial hm


/-- over ℝ, positive exponents (and component degrees within the angular momenta) give `EriOK` -/
theorem EriOK.of_pos (sa sb sc sd : Shell ℝ) (ca cb cc cd : ℕ)
    (ha : ∀ k < sa.nprim, 0 < sa.exp! k) (hb : ∀ k < sb.nprim, 0 < sb.exp! k)
    (hc : ∀ k < sc.nprim, 0 < sc.exp! k) (hd : ∀ k < sd.nprim, 0 < sd.exp! k)
    (da : sa.degOK ca) (db : sb.degOK cb) (dc : sc.degOK cc) (dd : sd.degOK cd) :
    EriOK Real.exp Real.sqrt Real.pi sa sb sc sd ca cb cc cd :=
  ⟨Real.sqrt_one, fun ka kb hka hkb => (add_pos (ha ka hka) (hb kb hkb)).ne',
    fun kc kd hkc hkd => (add_pos (hc kc hkc) (hd kd hkd)).ne',
    fun ka kb kc kd hka hkb hkc hkd =>
      (add_pos (add_pos (ha ka hka) (hb kb hkb)) (add_pos (hc kc hkc) (hd kd hkd))).ne',
    da, db, dc, dd⟩

/-! ### `eriBlock`, normalised -/

/-- **Multiplying a coefficient column by `x > 0` leaves the normalised `(ab|cd)` entries unchanged**
(slot `a`). -/
theorem eriBlock_normalised_scaleColumn_pos_a (boys : ℝ → ℕ → Tab ℝ) (sa sb sc sd : Shell ℝ)
    (m : ℕ) (x : ℝ) (ca mb cb mc cc md cd : ℕ)
        (h : EriOK Real.exp Real.sqrt Real.pi sa sb sc sd ca cb cc cd)
    (hn : sa.unitNorm = true) (hx : 0 < x) (hov : 0 < (overlapBlock sa sa).get4 m ca m ca) :
    (eriBlock boys (sa.scaleColumn m x) sb sc sd).get8 m ca mb cb mc cc md cd
        * ((normCont (sa.scaleColumn m x)).get2 m ca * (normCont sb).get2 mb cb * (normCont sc).get2
            mc cc * (normCont sd).get2 md cd)
      = (eriBlock boys sa sb sc sd).get8 m ca mb cb mc cc md cd
        * ((normCont sa).get2 m ca * (normCont sb).get2 mb cb * (normCont sc).get2 mc cc *
            (normCont sd).get2 md cd) := by
  have h' := (eriBlock_slotLinear_a Real.exp Real.sqrt Real.pi boys sb sc sd mb cb mc cc md
      cd).normalised_scaleColumn_pos sa m x ca h
    (h.mono (scaleColumn_expsIn Real.exp Real.sqrt Real.pi sa m x)
        (.refl Real.exp Real.sqrt Real.pi sb) (.refl Real.exp Real.sqrt Real.pi sc)
        (.refl Real.exp Real.sqrt Real.pi sd) h.da h.db h.dc h.dd) hn hx hov
  beta_reduce at h'
  linear_combination
      ((normCont sb).get2 mb cb * (normCont sc).get2 mc cc * (normCont sd).get2 md cd) * h'

/-- **Multiplying a coefficient column by `x < 0` flips the sign of the normalised `(ab|cd)` entries of
that column** (slot `a`). -/
theorem eriBlock_normalised_scaleColumn_neg_a (boys : ℝ → ℕ → Tab ℝ) (sa sb sc sd : Shell ℝ)
    (m : ℕ) (x : ℝ) (ca mb cb mc cc md cd : ℕ)
        (h : EriOK Real.exp Real.sqrt Real.pi sa sb sc sd ca cb cc cd)
    (hn : sa.unitNorm = true) (hx : x < 0) (hov : 0 < (overlapBlock sa sa).get4 m ca m ca) :
    (eriBlock boys (sa.scaleColumn m x) sb sc sd).get8 m ca mb cb mc cc md cd
        * ((normCont (sa.scaleColumn m x)).get2 m ca * (normCont sb).get2 mb cb * (normCont sc).get2
            mc cc * (normCont sd).get2 md cd)
      = -((eriBlock boys sa sb sc sd).get8 m ca mb cb mc cc md cd
        * ((normCont sa).get2 m ca * (normCont sb).get2 mb cb * (normCont sc).get2 mc cc *
            (normCont sd).get2 md cd)) := by
  have h' := (eriBlock_slotLinear_a Real.exp Real.sqrt Real.pi boys sb sc sd mb cb mc cc md
      cd).normalised_scaleColumn_neg sa m x ca h
    (h.mono (scaleColumn_expsIn Real.exp Real.sqrt Real.pi sa m x)
        (.refl Real.exp Real.sqrt Real.pi sb) (.refl Real.exp Real.sqrt Real.pi sc)
        (.refl Real.exp Real.sqrt Real.pi sd) h.da h.db h.dc h.dd) hn hx hov
  beta_reduce at h'
  linear_combination
      ((normCont sb).get2 mb cb * (normCont sc).get2 mc cc * (normCont sd).get2 md cd) * h'

/-- … and leaves the entries of every other column unchanged (slot `a`). -/
theorem eriBlock_normalised_scaleColumn_other_a (boys : ℝ → ℕ → Tab ℝ) (sa sb sc sd : Shell ℝ)
    (m : ℕ) (x : ℝ) (ma ca mb cb mc cc md cd : ℕ)
        (h : EriOK Real.exp Real.sqrt Real.pi sa sb sc sd ca cb cc cd)
    (hm : ma ≠ m) :
    (eriBlock boys (sa.scaleColumn m x) sb sc sd).get8 ma ca mb cb mc cc md cd
        * ((normCont (sa.scaleColumn m x)).get2 ma ca * (normCont sb).get2 mb cb *
            (normCont sc).get2 mc cc * (normCont sd).get2 md cd)
      = (eriBlock boys sa sb sc sd).get8 ma ca mb cb mc cc md cd
        * ((normCont sa).get2 ma ca * (normCont sb).get2 mb cb * (normCont sc).get2 mc cc *
            (normCont sd).get2 md cd) := by
  have h' := (eriBlock_slotLinear_a Real.exp Real.sqrt Real.pi boys sb sc sd mb cb mc cc md
      cd).normalised_scaleColumn_other sa m x ma ca h
    (h.mono (scaleColumn_expsIn Real.exp Real.sqrt Real.pi sa m x)
        (.refl Real.exp Real.sqrt Real.pi sb) (.refl Real.exp Real.sqrt Real.pi sc)
        (.refl Real.exp Real.sqrt Real.pi sd) h.da h.db h.dc h.dd) hm
  beta_reduce at h'
  linear_combination
      ((normCont sb).get2 mb cb * (normCont sc).get2 mc cc * (normCont sd).get2 md cd) * h'

/-- **Multiplying a coefficient column by `x > 0` leaves the normalised `(ab|cd)` entries unchanged**
(slot `b`). -/
theorem eriBlock_normalised_scaleColumn_pos_b (boys : ℝ → ℕ → Tab ℝ) (sa sb sc sd : Shell ℝ)
    (m : ℕ) (x : ℝ) (ma ca cb mc cc md cd : ℕ)
        (h : EriOK Real.exp Real.sqrt Real.pi sa sb sc sd ca cb cc cd)
    (hn : sb.unitNorm = true) (hx : 0 < x) (hov : 0 < (overlapBlock sb sb).get4 m cb m cb) :
    (eriBlock boys sa (sb.scaleColumn m x) sc sd).get8 ma ca m cb mc cc md cd
        * ((normCont sa).get2 ma ca * (normCont (sb.scaleColumn m x)).get2 m cb * (normCont sc).get2
            mc cc * (normCont sd).get2 md cd)
      = (eriBlock boys sa sb sc sd).get8 ma ca m cb mc cc md cd
        * ((normCont sa).get2 ma ca * (normCont sb).get2 m cb * (normCont sc).get2 mc cc *
            (normCont sd).get2 md cd) := by
  have h' := (eriBlock_slotLinear_b Real.exp Real.sqrt Real.pi boys sa sc sd ma ca mc cc md
      cd).normalised_scaleColumn_pos sb m x cb h
    (h.mono (.refl Real.exp Real.sqrt Real.pi sa)
        (scaleColumn_expsIn Real.exp Real.sqrt Real.pi sb m x) (.refl Real.exp Real.sqrt Real.pi sc)
        (.refl Real.exp Real.sqrt Real.pi sd) h.da h.db h.dc h.dd) hn hx hov
  beta_reduce at h'
  linear_combination
      ((normCont sa).get2 ma ca * (normCont sc).get2 mc cc * (normCont sd).get2 md cd) * h'

/-- **Multiplying a coefficient column by `x < 0` flips the sign of the normalised `(ab|cd)` entries of
that column** (slot `b`). -/
theorem eriBlock_normalised_scaleColumn_neg_b (boys : ℝ → ℕ → Tab ℝ) (sa sb sc sd : Shell ℝ)
    (m : ℕ) (x : ℝ) (ma ca cb mc cc md cd : ℕ)
        (h : EriOK Real.exp Real.sqrt Real.pi sa sb sc sd ca cb cc cd)
    (hn : sb.unitNorm = true) (hx : x < 0) (hov : 0 < (overlapBlock sb sb).get4 m cb m cb) :
    (eriBlock boys sa (sb.scaleColumn m x) sc sd).get8 ma ca m cb mc cc md cd
        * ((normCont sa).get2 ma ca * (normCont (sb.scaleColumn m x)).get2 m cb * (normCont sc).get2
            mc cc * (normCont sd).get2 md cd)
      = -((eriBlock boys sa sb sc sd).get8 ma ca m cb mc cc md cd
        * ((normCont sa).get2 ma ca * (normCont sb).get2 m cb * (normCont sc).get2 mc cc *
            (normCont sd).get2 md cd)) := by
  have h' := (eriBlock_slotLinear_b Real.exp Real.sqrt Real.pi boys sa sc sd ma ca mc cc md
      cd).normalised_scaleColumn_neg sb m x cb h
    (h.mono (.refl Real.exp Real.sqrt Real.pi sa)
        (scaleColumn_expsIn Real.exp Real.sqrt Real.pi sb m x) (.refl Real.exp Real.sqrt Real.pi sc)
        (.refl Real.exp Real.sqrt Real.pi sd) h.da h.db h.dc h.dd) hn hx hov
  beta_reduce at h'
  linear_combination
      ((normCont sa).get2 ma ca * (normCont sc).get2 mc cc * (normCont sd).get2 md cd) * h'

/-- … and leaves the entries of every other column unchanged (slot `b`). -/
theorem eriBlock_normalised_scaleColumn_other_b (boys : ℝ → ℕ → Tab ℝ) (sa sb sc sd : Shell ℝ)
    (m : ℕ) (x : ℝ) (ma ca mb cb mc cc md cd : ℕ)
        (h : EriOK Real.exp Real.sqrt Real.pi sa sb sc sd ca cb cc cd)
    (hm : mb ≠ m) :
    (eriBlock boys sa (sb.scaleColumn m x) sc sd).get8 ma ca mb cb mc cc md cd
        * ((normCont sa).get2 ma ca * (normCont (sb.scaleColumn m x)).get2 mb cb *
            (normCont sc).get2 mc cc * (normCont sd).get2 md cd)
      = (eriBlock boys sa sb sc sd).get8 ma ca mb cb mc cc md cd
        * ((normCont sa).get2 ma ca * (normCont sb).get2 mb cb * (normCont sc).get2 mc cc *
            (normCont sd).get2 md cd) := by
  have h' := (eriBlock_slotLinear_b Real.exp Real.sqrt Real.pi boys sa sc sd ma ca mc cc md
      cd).normalised_scaleColumn_other sb m x mb cb h
    (h.mono (.refl Real.exp Real.sqrt Real.pi sa)
        (scaleColumn_expsIn Real.exp Real.sqrt Real.pi sb m x) (.refl Real.exp Real.sqrt Real.pi sc)
        (.refl Real.exp Real.sqrt Real.pi sd) h.da h.db h.dc h.dd) hm
  beta_reduce at h'
  linear_combination
      ((normCont sa).get2 ma ca * (normCont sc).get2 mc cc * (normCont sd).get2 md cd) * h'

/-- **Multiplying a coefficient column by `x > 0` leaves the normalised `(ab|cd)` entries unchanged**
(slot `c`). -/
theorem eriBlock_normalised_scaleColumn_pos_c (boys : ℝ → ℕ → Tab ℝ) (sa sb sc sd : Shell ℝ)
    (m : ℕ) (x : ℝ) (ma ca mb cb cc md cd : ℕ)
        (h : EriOK Real.exp Real.sqrt Real.pi sa sb sc sd ca cb cc cd)
    (hn : sc.unitNorm = true) (hx : 0 < x) (hov : 0 < (overlapBlock sc sc).get4 m cc m cc) :
    (eriBlock boys sa sb (sc.scaleColumn m x) sd).get8 ma ca mb cb m cc md cd
        * ((normCont sa).get2 ma ca * (normCont sb).get2 mb cb *
            (normCont (sc.scaleColumn m x)).get2 m cc * (normCont sd).get2 md cd)
      = (eriBlock boys sa sb sc sd).get8 ma ca mb cb m cc md cd
        * ((normCont sa).get2 ma ca * (normCont sb).get2 mb cb * (normCont sc).get2 m cc *
            (normCont sd).get2 md cd) := by
  have h' := (eriBlock_slotLinear_c Real.exp Real.sqrt Real.pi boys sa sb sd ma ca mb cb md
      cd).normalised_scaleColumn_pos sc m x cc h
    (h.mono (.refl Real.exp Real.sqrt Real.pi sa) (.refl Real.exp Real.sqrt Real.pi sb)
        (scaleColumn_expsIn Real.exp Real.sqrt Real.pi sc m x) (.refl Real.exp Real.sqrt Real.pi sd)
        h.da h.db h.dc h.dd) hn hx hov
  beta_reduce at h'
  linear_combination
      ((normCont sa).get2 ma ca * (normCont sb).get2 mb cb * (normCont sd).get2 md cd) * h'

/-- **Multiplying a coefficient column by `x < 0` flips the sign of the normalised `(ab|cd)` entries of
that column** (slot `c`). -/
theorem eriBlock_normalised_scaleColumn_neg_c (boys : ℝ → ℕ → Tab ℝ) (sa sb sc sd : Shell ℝ)
    (m : ℕ) (x : ℝ) (ma ca mb cb cc md cd : ℕ)
        (h : EriOK Real.exp Real.sqrt Real.pi sa sb sc sd ca cb cc cd)
    (hn : sc.unitNorm = true) (hx : x < 0) (hov : 0 < (overlapBlock sc sc).get4 m cc m cc) :
    (eriBlock boys sa sb (sc.scaleColumn m x) sd).get8 ma ca mb cb m cc md cd
        * ((normCont sa).get2 ma ca * (normCont sb).get2 mb cb *
            (normCont (sc.scaleColumn m x)).get2 m cc * (normCont sd).get2 md cd)
      = -((eriBlock boys sa sb sc sd).get8 ma ca mb cb m cc md cd
        * ((normCont sa).get2 ma ca * (normCont sb).get2 mb cb * (normCont sc).get2 m cc *
            (normCont sd).get2 md cd)) := by
  have h' := (eriBlock_slotLinear_c Real.exp Real.sqrt Real.pi boys sa sb sd ma ca mb cb md
      cd).normalised_scaleColumn_neg sc m x cc h
    (h.mono (.refl Real.exp Real.sqrt Real.pi sa) (.refl Real.exp Real.sqrt Real.pi sb)
        (scaleColumn_expsIn Real.exp Real.sqrt Real.pi sc m x) (.refl Real.exp Real.sqrt Real.pi sd)
        h.da h.db h.dc h.dd) hn hx hov
  beta_reduce at h'
  linear_combination
      ((normCont sa).get2 ma ca * (normCont sb).get2 mb cb * (normCont sd).get2 md cd) * h'

/-- … and leaves the entries of every other column unchanged (slot `c`). -/
theorem eriBlock_normalised_scaleColumn_other_c (boys : ℝ → ℕ → Tab ℝ) (sa sb sc sd : Shell ℝ)
    (m : ℕ) (x : ℝ) (ma ca mb cb mc cc md cd : ℕ)
        (h : EriOK Real.exp Real.sqrt Real.pi sa sb sc sd ca cb cc cd)
    (hm : mc ≠ m) :
    (eriBlock boys sa sb (sc.scaleColumn m x) sd).get8 ma ca mb cb mc cc md cd
        * ((normCont sa).get2 ma ca * (normCont sb).get2 mb cb *
            (normCont (sc.scaleColumn m x)).get2 mc cc * (normCont sd).get2 md cd)
      = (eriBlock boys sa sb sc sd).get8 ma ca mb cb mc cc md cd
        * ((normCont sa).get2 ma ca * (normCont sb).get2 mb cb * (normCont sc).get2 mc cc *
            (normCont sd).get2 md cd) := by
  have h' := (eriBlock_slotLinear_c Real.exp Real.sqrt Real.pi boys sa sb sd ma ca mb cb md
      cd).normalised_scaleColumn_other sc m x mc cc h
    (h.mono (.refl Real.exp Real.sqrt Real.pi sa) (.refl Real.exp Real.sqrt Real.pi sb)
        (scaleColumn_expsIn Real.exp Real.sqrt Real.pi sc m x) (.refl Real.exp Real.sqrt Real.pi sd)
        h.da h.db h.dc h.dd) hm
  beta_reduce at h'
  linear_combination
      ((normCont sa).get2 ma ca * (normCont sb).get2 mb cb * (normCont sd).get2 md cd) * h'

/-- **Multiplying a coefficient column by `x > 0` leaves the normalised `(ab|cd)` entries unchanged**
(slot `d`). -/
theorem eriBlock_normalised_scaleColumn_pos_d (boys : ℝ → ℕ → Tab ℝ) (sa sb sc sd : Shell ℝ)
    (m : ℕ) (x : ℝ) (ma ca mb cb mc cc cd : ℕ)
        (h : EriOK Real.exp Real.sqrt Real.pi sa sb sc sd ca cb cc cd)
    (hn : sd.unitNorm = true) (hx : 0 < x) (hov : 0 < (overlapBlock sd sd).get4 m cd m cd) :
    (eriBlock boys sa sb sc (sd.scaleColumn m x)).get8 ma ca mb cb mc cc m cd
        * ((normCont sa).get2 ma ca * (normCont sb).get2 mb cb * (normCont sc).get2 mc cc *
            (normCont (sd.scaleColumn m x)).get2 m cd)
      = (eriBlock boys sa sb sc sd).get8 ma ca mb cb mc cc m cd
        * ((normCont sa).get2 ma ca * (normCont sb).get2 mb cb * (normCont sc).get2 mc cc *
            (normCont sd).get2 m cd) := by
  have h' := (eriBlock_slotLinear_d Real.exp Real.sqrt Real.pi boys sa sb sc ma ca mb cb mc
      cc).normalised_scaleColumn_pos sd m x cd h
    (h.mono (.refl Real.exp Real.sqrt Real.pi sa) (.refl Real.exp Real.sqrt Real.pi sb)
        (.refl Real.exp Real.sqrt Real.pi sc) (scaleColumn_expsIn Real.exp Real.sqrt Real.pi sd m x)
        h.da h.db h.dc h.dd) hn hx hov
  beta_reduce at h'
  linear_combination
      ((normCont sa).get2 ma ca * (normCont sb).get2 mb cb * (normCont sc).get2 mc cc) * h'

/-- **Multiplying a coefficient column by `x < 0` flips the sign of the normalised `(ab|cd)` entries of
that column** (slot `d`). -/
theorem eriBlock_normalised_scaleColumn_neg_d (boys : ℝ → ℕ → Tab ℝ) (sa sb sc sd : Shell ℝ)
    (m : ℕ) (x : ℝ) (ma ca mb cb mc cc cd : ℕ)
        (h : EriOK Real.exp Real.sqrt Real.pi sa sb sc sd ca cb cc cd)
    (hn : sd.unitNorm = true) (hx : x < 0) (hov : 0 < (overlapBlock sd sd).get4 m cd m cd) :
    (eriBlock boys sa sb sc (sd.scaleColumn m x)).get8 ma ca mb cb mc cc m cd
        * ((normCont sa).get2 ma ca * (normCont sb).get2 mb cb * (normCont sc).get2 mc cc *
            (normCont (sd.scaleColumn m x)).get2 m cd)
      = -((eriBlock boys sa sb sc sd).get8 ma ca mb cb mc cc m cd
        * ((normCont sa).get2 ma ca * (normCont sb).get2 mb cb * (normCont sc).get2 mc cc *
            (normCont sd).get2 m cd)) := by
  have h' := (eriBlock_slotLinear_d Real.exp Real.sqrt Real.pi boys sa sb sc ma ca mb cb mc
      cc).normalised_scaleColumn_neg sd m x cd h
    (h.mono (.refl Real.exp Real.sqrt Real.pi sa) (.refl Real.exp Real.sqrt Real.pi sb)
        (.refl Real.exp Real.sqrt Real.pi sc) (scaleColumn_expsIn Real.exp Real.sqrt Real.pi sd m x)
        h.da h.db h.dc h.dd) hn hx hov
  beta_reduce at h'
  linear_combination
      ((normCont sa).get2 ma ca * (normCont sb).get2 mb cb * (normCont sc).get2 mc cc) * h'

/-- … and leaves the entries of every other column unchanged (slot `d`). -/
theorem eriBlock_normalised_scaleColumn_other_d (boys : ℝ → ℕ → Tab ℝ) (sa sb sc sd : Shell ℝ)
    (m : ℕ) (x : ℝ) (ma ca mb cb mc cc md cd : ℕ)
        (h : EriOK Real.exp Real.sqrt Real.pi sa sb sc sd ca cb cc cd)
    (hm : md ≠ m) :
    (eriBlock boys sa sb sc (sd.scaleColumn m x)).get8 ma ca mb cb mc cc md cd
        * ((normCont sa).get2 ma ca * (normCont sb).get2 mb cb * (normCont sc).get2 mc cc *
            (normCont (sd.scaleColumn m x)).get2 md cd)
      = (eriBlock boys sa sb sc sd).get8 ma ca mb cb mc cc md cd
        * ((normCont sa).get2 ma ca * (normCont sb).get2 mb cb * (normCont sc).get2 mc cc *
            (normCont sd).get2 md cd) := by
  have h' := (eriBlock_slotLinear_d Real.exp Real.sqrt Real.pi boys sa sb sc ma ca mb cb mc
      cc).normalised_scaleColumn_other sd m x md cd h
    (h.mono (.refl Real.exp Real.sqrt Real.pi sa) (.refl Real.exp Real.sqrt Real.pi sb)
        (.refl Real.exp Real.sqrt Real.pi sc) (scaleColumn_expsIn Real.exp Real.sqrt Real.pi sd m x)
        h.da h.db h.dc h.dd) hm
  beta_reduce at h'
  linear_combination
      ((normCont sa).get2 ma ca * (normCont sb).get2 mb cb * (normCont sc).get2 mc cc) * h'


/-! ## The statements over an arbitrary field apply verbatim to `Shell ℝ` -/

example (s t : Shell ℝ) (m ca mb cb : ℕ) :
    (overlapBlock (s.column m) t).get4 0 ca mb cb = (overlapBlock s t).get4 m ca mb cb :=
  overlapBlock_column Real.exp Real.sqrt Real.pi s t m ca mb cb

example (s t : Shell ℝ) (σ : Equiv.Perm (Fin s.nprim)) (ma ca mb cb : ℕ) :
    (kineticBlock (s.permPrims (permOfFin σ)) t).get4 ma ca mb cb
      = (kineticBlock s t).get4 ma ca mb cb :=
  kineticBlock_permPrims Real.exp Real.sqrt Real.pi s t _ ma ca mb cb (permOfFin_lt σ)
    (permOfFin_inj σ)

example (boys : ℝ → ℕ → Tab ℝ) (sa sb sc sd : Shell ℝ) (j : ℕ) (x : ℝ)
    (ma ca mb cb mc cc md cd : ℕ)
    (ha : ∀ k < sa.nprim, 0 < sa.exp! k) (hb : ∀ k < sb.nprim, 0 < sb.exp! k)
    (hc : ∀ k < sc.nprim, 0 < sc.exp! k) (hd : ∀ k < sd.nprim, 0 < sd.exp! k)
    (da : sa.degOK ca) (db : sb.degOK cb) (dc : sc.degOK cc) (dd : sd.degOK cd)
    (hj : j < sc.nprim) :
    (eriBlock boys sa sb (sc.splitPrim j x) sd).get8 ma ca mb cb mc cc md cd
      = (eriBlock boys sa sb sc sd).get8 ma ca mb cb mc cc md cd :=
  eriBlock_splitPrim_c Real.exp Real.sqrt Real.pi boys sa sb sc sd j x ma ca mb cb mc cc md cd
    (EriOK.of_pos sa sb sc sd ca cb cc cd ha hb hc hd da db dc dd) hj

end BlocksReal

end GB
