import GBProofs.ArrayMotion2

/-!
# Definiteness of the assembled electron-repulsion array (C17)

All statements are about the four-index array the model assembles for a whole basis,
`entry4 b b b b (quartetBlocks b b b b (eriBlk boysT b))` (and the flat `assemble4 b (eriBlk boysT b)`):
every shell, Cartesian and spherical, after `norm_cont` and the Cartesian → spherical transformation.

* §1 `entry4_eq_sum_eri`: an entry is the `cw`-weighted four-fold sum of raw Cartesian block entries.
* §2 `basisPair`, `eri_array_eq_integral`: every entry is the six-dimensional Coulomb integral of the
  four basis functions `basisFnE b r` of the array.
* §3 `eri_array_psd`, `eri_array_quadForm_eq`, `eri_array_self_nonneg`, `eri_array_schwarz`,
  `eri_array_abs_le`: the array as a matrix over index pairs is symmetric positive semi-definite.
* §4 `eri_array_transform_psd` …: the same after a further (rectangular) transformation of the indices.
* §5 the flat array.
-/
open MeasureTheory Real Finset

namespace GB

/-! ## 1. Entries of an assembled four-index array as sums over Cartesian components -/
section Entries

/-- **Entries of an assembled four-index array.**  For `r₁ … r₄ < b.total`, the entry is the four-fold
sum over the Cartesian components of the raw block entries of the four shells, weighted by `cw`. -/
theorem entry4_eq_sum_eri (b : Basis ℝ) (blk : ℕ → ℕ → ℕ → ℕ → Tab8 ℝ) (r₁ r₂ r₃ r₄ : ℕ)
    (h₁ : r₁ < b.total) (h₂ : r₂ < b.total) (h₃ : r₃ < b.total) (h₄ : r₄ < b.total) :
    entry4 b b b b (quartetBlocks b b b b blk) r₁ r₂ r₃ r₄
      = ∑ a₁ ∈ range (shellOf b r₁).ncart, ∑ a₂ ∈ range (shellOf b r₂).ncart,
          ∑ a₃ ∈ range (shellOf b r₃).ncart, ∑ a₄ ∈ range (shellOf b r₄).ncart,
            cw b r₁ a₁ * cw b r₂ a₂ * cw b r₃ a₃ * cw b r₄ a₄
              * (blk (b.locate r₁).1 (b.locate r₂).1 (b.locate r₃).1 (b.locate r₄).1).get8
                  (segOf b r₁) a₁ (segOf b r₂) a₂ (segOf b r₃) a₃ (segOf b r₄) a₄ := by
  obtain ⟨hi, -, hf₁, -⟩ := locate_lt b r₁ h₁
  obtain ⟨hj, -, hf₂, -⟩ := locate_lt b r₂ h₂
  obtain ⟨hk, -, hf₃, -⟩ := locate_lt b r₃ h₃
  obtain ⟨hl, -, hf₄, -⟩ := locate_lt b r₄ h₄
  unfold entry4
  simp only []
  rw [quartetBlocks_get b b b b blk _ _ _ _ hi hj hk hl]
  unfold cw segOf funOf
  rw [shellOf_eq b r₁ hi, shellOf_eq b r₂ hj, shellOf_eq b r₃ hk, shellOf_eq b r₄ hl]
  exact wBlock4_get8_eq_sum _ _ _ _ _ _ _ _ _ _ _ _ _ hf₁ hf₂ hf₃ hf₄

end Entries

/-! ## 2. The entries of the electron-repulsion array as six-dimensional integrals -/
section Integral

theorem Basis.WellFormed.expsPos {b : Basis ℝ} (hb : b.WellFormed) : b.ExpsPos :=
  fun i hi k hk => hb.exp_pos i hi k hk

theorem Basis.WellFormed.compsLe {b : Basis ℝ} (hb : b.WellFormed) : b.CompsLe :=
  fun i hi a ha => hb.comp_le i hi a ha

/-- **pair density `χ_{r₁} χ_{r₂}` of two basis functions of the array** -/
noncomputable def basisPair (b : Basis ℝ) (r₁ r₂ : ℕ) (x : E3) : ℝ :=
  basisFnE b r₁ x * basisFnE b r₂ x

/-- the pair density of two basis functions as a `cw`-weighted double sum of pair densities of
Cartesian contracted functions -/
theorem basisPair_expand (b : Basis ℝ) (r₁ r₂ : ℕ) (x : E3) :
    basisPair b r₁ r₂ x
      = ∑ a₁ ∈ range (shellOf b r₁).ncart, ∑ a₂ ∈ range (shellOf b r₂).ncart,
          (cw b r₁ a₁ * cw b r₂ a₂)
            * pairDensity (shellOf b r₁) (shellOf b r₂) (segOf b r₁) a₁ (segOf b r₂) a₂ x := by
  unfold basisPair basisFnE basisLin pairDensity
  rw [Finset.sum_mul_sum]
  refine Finset.sum_congr rfl fun a₁ _ => Finset.sum_congr rfl fun a₂ _ => ?_
  ring

theorem continuous_basisFnE (b : Basis ℝ) (r : ℕ) : Continuous (basisFnE b r) := by
  unfold basisFnE basisLin
  exact continuous_finsetSum _ fun a _ => (continuous_shellFnE _ _ _).const_mul _

theorem gaussBdd_basisFnE (b : Basis ℝ) (hb : b.ExpsPos) (r : ℕ) (hr : r < b.total) :
    GaussBdd (basisFnE b r) := by
  unfold basisFnE basisLin
  exact GaussBdd.sum _ _ fun a _ =>
    (gaussBdd_shellFnE _ _ _ (shellOf_exps_pos b hb r hr)).const_mul _

theorem continuous_basisPair (b : Basis ℝ) (r₁ r₂ : ℕ) : Continuous (basisPair b r₁ r₂) :=
  (continuous_basisFnE b r₁).mul (continuous_basisFnE b r₂)

theorem gaussBdd_basisPair (b : Basis ℝ) (hb : b.ExpsPos) (r₁ r₂ : ℕ) (h₁ : r₁ < b.total)
    (h₂ : r₂ < b.total) : GaussBdd (basisPair b r₁ r₂) :=
  (gaussBdd_basisFnE b hb r₁ h₁).mul (gaussBdd_basisFnE b hb r₂ h₂)

/-- the Coulomb integrand of four basis functions is integrable over `E3 × E3` -/
theorem integrable_basisPair_coulomb (b : Basis ℝ) (hb : b.ExpsPos) (r₁ r₂ r₃ r₄ : ℕ)
    (h₁ : r₁ < b.total) (h₂ : r₂ < b.total) (h₃ : r₃ < b.total) (h₄ : r₄ < b.total) :
    Integrable fun p : E3 × E3 => basisPair b r₁ r₂ p.1 * basisPair b r₃ r₄ p.2 / ‖p.1 - p.2‖ :=
  integrable_coulomb_pair (continuous_basisPair b r₁ r₂).aestronglyMeasurable
    (continuous_basisPair b r₃ r₄).aestronglyMeasurable (gaussBdd_basisPair b hb r₁ r₂ h₁ h₂)
    (gaussBdd_basisPair b hb r₃ r₄ h₃ h₄)

/-- the entries of the electron-repulsion array in terms of the pair densities of the basis
functions -/
theorem eri_array_eq_coulombPair (boysT : ℝ → ℕ → Tab ℝ)
    (hboys : ∀ T n m, m < n → (boysT T n).get m = boys T m) (b : Basis ℝ) (hb : b.WellFormed)
    (r₁ r₂ r₃ r₄ : ℕ) (h₁ : r₁ < b.total) (h₂ : r₂ < b.total) (h₃ : r₃ < b.total)
    (h₄ : r₄ < b.total) :
    entry4 b b b b (quartetBlocks b b b b (eriBlk boysT b)) r₁ r₂ r₃ r₄
      = ∫ p : E3 × E3, basisPair b r₁ r₂ p.1 * basisPair b r₃ r₄ p.2 / ‖p.1 - p.2‖ := by
  have he := hb.expsPos
  have hc := hb.compsLe
  have hI := integral_sum4 (shellOf b r₁).ncart (shellOf b r₂).ncart (shellOf b r₃).ncart
    (shellOf b r₄).ncart (fun a₁ a₂ => cw b r₁ a₁ * cw b r₂ a₂) (fun a₃ a₄ => cw b r₃ a₃ * cw b r₄ a₄)
    (fun a₁ a₂ => pairDensity (shellOf b r₁) (shellOf b r₂) (segOf b r₁) a₁ (segOf b r₂) a₂)
    (fun a₃ a₄ => pairDensity (shellOf b r₃) (shellOf b r₄) (segOf b r₃) a₃ (segOf b r₄) a₄)
    (fun a₁ a₂ a₃ a₄ _ _ _ _ =>
      integrable_coulomb_pair (continuous_pairDensity _ _ _ _ _ _).aestronglyMeasurable
        (continuous_pairDensity _ _ _ _ _ _).aestronglyMeasurable
        (gaussBdd_pairDensity _ _ _ _ _ _ (shellOf_exps_pos b he r₁ h₁) (shellOf_exps_pos b he r₂ h₂))
        (gaussBdd_pairDensity _ _ _ _ _ _ (shellOf_exps_pos b he r₃ h₃)
          (shellOf_exps_pos b he r₄ h₄)))
  simp_rw [basisPair_expand]
  rw [hI, entry4_eq_sum_eri b (eriBlk boysT b) r₁ r₂ r₃ r₄ h₁ h₂ h₃ h₄]
  refine Finset.sum_congr rfl fun a₁ ha₁ => Finset.sum_congr rfl fun a₂ ha₂ =>
    Finset.sum_congr rfl fun a₃ ha₃ => Finset.sum_congr rfl fun a₄ ha₄ => ?_
  have hE := eriBlock_eq_integral boysT hboys (shellOf b r₁) (shellOf b r₂) (shellOf b r₃)
    (shellOf b r₄) (segOf b r₁) a₁ (segOf b r₂) a₂ (segOf b r₃) a₃ (segOf b r₄) a₄
    (shellOf_exps_pos b he r₁ h₁) (shellOf_exps_pos b he r₂ h₂) (shellOf_exps_pos b he r₃ h₃)
    (shellOf_exps_pos b he r₄ h₄)
    (shellOf_comps_le b hc r₁ h₁ a₁ (Finset.mem_range.mp ha₁))
    (shellOf_comps_le b hc r₂ h₂ a₂ (Finset.mem_range.mp ha₂))
    (shellOf_comps_le b hc r₃ h₃ a₃ (Finset.mem_range.mp ha₃))
    (shellOf_comps_le b hc r₄ h₄ a₄ (Finset.mem_range.mp ha₄))
  have hE' : (eriBlk boysT b (b.locate r₁).1 (b.locate r₂).1 (b.locate r₃).1 (b.locate r₄).1).get8
      (segOf b r₁) a₁ (segOf b r₂) a₂ (segOf b r₃) a₃ (segOf b r₄) a₄ = _ := hE
  rw [hE']
  unfold eriExact
  ring

/-- **C17, electron-repulsion array: every entry is the six-dimensional Coulomb integral of the four
basis functions.**  For a well-formed basis (positive exponents, Cartesian components of total degree
at most `l`) and the true Boys function in the blocks (`hboys`), for `r₁ … r₄ < b.total`
`(r₁ r₂ | r₃ r₄) = ∬ χ_{r₁}(x) χ_{r₂}(x) χ_{r₃}(y) χ_{r₄}(y) / |x - y| dx dy`
with `χ_r = basisFnE b r` the (normalised, for spherical shells transformed) basis functions of the
array. -/
theorem eri_array_eq_integral (boysT : ℝ → ℕ → Tab ℝ)
    (hboys : ∀ T n m, m < n → (boysT T n).get m = boys T m) (b : Basis ℝ) (hb : b.WellFormed)
    (r₁ r₂ r₃ r₄ : ℕ) (h₁ : r₁ < b.total) (h₂ : r₂ < b.total) (h₃ : r₃ < b.total)
    (h₄ : r₄ < b.total) :
    entry4 b b b b (quartetBlocks b b b b (eriBlk boysT b)) r₁ r₂ r₃ r₄
      = ∫ p : E3 × E3, basisFnE b r₁ p.1 * basisFnE b r₂ p.1
          * (basisFnE b r₃ p.2 * basisFnE b r₄ p.2) / ‖p.1 - p.2‖ :=
  eri_array_eq_coulombPair boysT hboys b hb r₁ r₂ r₃ r₄ h₁ h₂ h₃ h₄

/-- the same as an iterated integral `∫ (∫ … dy) dx` -/
theorem eri_array_eq_integral_iterated (boysT : ℝ → ℕ → Tab ℝ)
    (hboys : ∀ T n m, m < n → (boysT T n).get m = boys T m) (b : Basis ℝ) (hb : b.WellFormed)
    (r₁ r₂ r₃ r₄ : ℕ) (h₁ : r₁ < b.total) (h₂ : r₂ < b.total) (h₃ : r₃ < b.total)
    (h₄ : r₄ < b.total) :
    entry4 b b b b (quartetBlocks b b b b (eriBlk boysT b)) r₁ r₂ r₃ r₄
      = ∫ x : E3, ∫ y : E3, basisFnE b r₁ x * basisFnE b r₂ x
          * (basisFnE b r₃ y * basisFnE b r₄ y) / ‖x - y‖ := by
  rw [eri_array_eq_integral boysT hboys b hb r₁ r₂ r₃ r₄ h₁ h₂ h₃ h₄,
    show (volume : Measure (E3 × E3)) = (volume : Measure E3).prod volume from rfl]
  exact integral_prod _ (integrable_basisPair_coulomb b hb.expsPos r₁ r₂ r₃ r₄ h₁ h₂ h₃ h₄)

end Integral


/-! ## 3. The array as a matrix over index pairs is symmetric positive semi-definite -/
section PSD

/-- index pairs `(r₁, r₂)` of basis functions -/
abbrev PairIx (b : Basis ℝ) : Type := Fin b.total × Fin b.total

/-- the pair densities of the basis functions, indexed by pairs -/
noncomputable def basisPairFam (b : Basis ℝ) (p : PairIx b) : E3 → ℝ := basisPair b p.1.1 p.2.1

/-- **the electron-repulsion array as a matrix over index pairs**: row `(r₁, r₂)`, column `(r₃, r₄)` -/
noncomputable def eriMat (boysT : ℝ → ℕ → Tab ℝ) (b : Basis ℝ) (p q : PairIx b) : ℝ :=
  entry4 b b b b (quartetBlocks b b b b (eriBlk boysT b)) p.1.1 p.2.1 q.1.1 q.2.1

theorem aesm_basisPairFam (b : Basis ℝ) (p : PairIx b) :
    AEStronglyMeasurable (basisPairFam b p) volume :=
  (continuous_basisPair b p.1.1 p.2.1).aestronglyMeasurable

theorem gaussBdd_basisPairFam (b : Basis ℝ) (hb : b.ExpsPos) (p : PairIx b) :
    GaussBdd (basisPairFam b p) :=
  gaussBdd_basisPair b hb p.1.1 p.2.1 p.1.2 p.2.2

/-- the pair matrix of the array is the Coulomb matrix of the pair densities of the basis functions -/
theorem eriMat_eq_coulombMat (boysT : ℝ → ℕ → Tab ℝ)
    (hboys : ∀ T n m, m < n → (boysT T n).get m = boys T m) (b : Basis ℝ) (hb : b.WellFormed) :
    eriMat boysT b = coulombMat (basisPairFam b) := by
  funext p q
  exact eri_array_eq_coulombPair boysT hboys b hb p.1.1 p.2.1 q.1.1 q.2.1 p.1.2 p.2.2 q.1.2 q.2.2

/-- pair-matrix form of positive semi-definiteness -/
theorem eriMat_psd (boysT : ℝ → ℕ → Tab ℝ)
    (hboys : ∀ T n m, m < n → (boysT T n).get m = boys T m) (b : Basis ℝ) (hb : b.WellFormed)
    (x : PairIx b → ℝ) : 0 ≤ quadForm (eriMat boysT b) x := by
  rw [eriMat_eq_coulombMat boysT hboys b hb]
  exact coulomb_psd _ (aesm_basisPairFam b) (gaussBdd_basisPairFam b hb.expsPos) x

/-- pair-matrix form of the symmetry `(r₁ r₂ | r₃ r₄) = (r₃ r₄ | r₁ r₂)` -/
theorem eriMat_symm (boysT : ℝ → ℕ → Tab ℝ)
    (hboys : ∀ T n m, m < n → (boysT T n).get m = boys T m) (b : Basis ℝ) (hb : b.WellFormed)
    (p q : PairIx b) : eriMat boysT b p q = eriMat boysT b q p := by
  rw [eriMat_eq_coulombMat boysT hboys b hb]
  exact coulombMat_symm _ p q

/-- a quadratic form over pairs written with four single sums -/
theorem quadForm_pairs {ι : Type*} [Fintype ι] (M : ι × ι → ι × ι → ℝ) (v : ι → ι → ℝ) :
    quadForm M (fun p => v p.1 p.2)
      = ∑ r₁, ∑ r₂, ∑ r₃, ∑ r₄, v r₁ r₂ * v r₃ r₄ * M (r₁, r₂) (r₃, r₄) := by
  unfold quadForm
  simp only [Fintype.sum_prod_type]
  refine Finset.sum_congr rfl fun r₁ _ => Finset.sum_congr rfl fun r₂ _ =>
    Finset.sum_congr rfl fun r₃ _ => Finset.sum_congr rfl fun r₄ _ => ?_
  ring

/-- **C17, electron-repulsion array: positive semi-definite as a matrix over index pairs.**  For a
well-formed basis and the true Boys function, for every real `v` indexed by pairs of basis functions,
`Σ_{r₁ r₂ r₃ r₄} v_{r₁ r₂} v_{r₃ r₄} (r₁ r₂ | r₃ r₄) ≥ 0`. -/
theorem eri_array_psd (boysT : ℝ → ℕ → Tab ℝ)
    (hboys : ∀ T n m, m < n → (boysT T n).get m = boys T m) (b : Basis ℝ) (hb : b.WellFormed)
    (v : Fin b.total → Fin b.total → ℝ) :
    0 ≤ ∑ r₁ : Fin b.total, ∑ r₂ : Fin b.total, ∑ r₃ : Fin b.total, ∑ r₄ : Fin b.total,
      v r₁ r₂ * v r₃ r₄
        * entry4 b b b b (quartetBlocks b b b b (eriBlk boysT b)) r₁ r₂ r₃ r₄ := by
  have h := eriMat_psd boysT hboys b hb (fun p => v p.1 p.2)
  rw [quadForm_pairs] at h
  exact h

/-- **`vᵀ (ERI) v = ∬ ρ_v(x) ρ_v(y) / |x - y|`** with the "density" `ρ_v = Σ v_{r₁ r₂} χ_{r₁} χ_{r₂}`:
the quadratic form of the array is the Coulomb self-energy of `ρ_v`. -/
theorem eri_array_quadForm_eq (boysT : ℝ → ℕ → Tab ℝ)
    (hboys : ∀ T n m, m < n → (boysT T n).get m = boys T m) (b : Basis ℝ) (hb : b.WellFormed)
    (v : Fin b.total → Fin b.total → ℝ) :
    ∑ r₁ : Fin b.total, ∑ r₂ : Fin b.total, ∑ r₃ : Fin b.total, ∑ r₄ : Fin b.total,
        v r₁ r₂ * v r₃ r₄
          * entry4 b b b b (quartetBlocks b b b b (eriBlk boysT b)) r₁ r₂ r₃ r₄
      = ∫ p : E3 × E3,
          (∑ r₁ : Fin b.total, ∑ r₂ : Fin b.total, v r₁ r₂ * (basisFnE b r₁ p.1 * basisFnE b r₂ p.1))
          * (∑ r₁ : Fin b.total, ∑ r₂ : Fin b.total,
              v r₁ r₂ * (basisFnE b r₁ p.2 * basisFnE b r₂ p.2)) / ‖p.1 - p.2‖ := by
  have h := coulomb_quadForm_eq (basisPairFam b) (aesm_basisPairFam b)
    (gaussBdd_basisPairFam b hb.expsPos) (fun p => v p.1 p.2)
  rw [← eriMat_eq_coulombMat boysT hboys b hb, quadForm_pairs] at h
  simp only [Fintype.sum_prod_type] at h
  exact h

/-- **C17: `(r₁ r₂ | r₁ r₂) ≥ 0`** -/
theorem eri_array_self_nonneg (boysT : ℝ → ℕ → Tab ℝ)
    (hboys : ∀ T n m, m < n → (boysT T n).get m = boys T m) (b : Basis ℝ) (hb : b.WellFormed)
    (r₁ r₂ : ℕ) (h₁ : r₁ < b.total) (h₂ : r₂ < b.total) :
    0 ≤ entry4 b b b b (quartetBlocks b b b b (eriBlk boysT b)) r₁ r₂ r₁ r₂ := by
  classical
  exact psd_diag_nonneg (eriMat boysT b) (eriMat_psd boysT hboys b hb) (⟨r₁, h₁⟩, ⟨r₂, h₂⟩)

/-- **C17, Schwarz inequality of the array: `(r₁ r₂ | r₃ r₄)² ≤ (r₁ r₂ | r₁ r₂) (r₃ r₄ | r₃ r₄)`** -/
theorem eri_array_schwarz (boysT : ℝ → ℕ → Tab ℝ)
    (hboys : ∀ T n m, m < n → (boysT T n).get m = boys T m) (b : Basis ℝ) (hb : b.WellFormed)
    (r₁ r₂ r₃ r₄ : ℕ) (h₁ : r₁ < b.total) (h₂ : r₂ < b.total) (h₃ : r₃ < b.total)
    (h₄ : r₄ < b.total) :
    entry4 b b b b (quartetBlocks b b b b (eriBlk boysT b)) r₁ r₂ r₃ r₄ ^ 2
      ≤ entry4 b b b b (quartetBlocks b b b b (eriBlk boysT b)) r₁ r₂ r₁ r₂
        * entry4 b b b b (quartetBlocks b b b b (eriBlk boysT b)) r₃ r₄ r₃ r₄ := by
  classical
  exact psd_sq_le (eriMat boysT b) (eriMat_symm boysT hboys b hb) (eriMat_psd boysT hboys b hb)
    (⟨r₁, h₁⟩, ⟨r₂, h₂⟩) (⟨r₃, h₃⟩, ⟨r₄, h₄⟩)

/-- the screening form `|(r₁ r₂ | r₃ r₄)| ≤ √(r₁ r₂ | r₁ r₂) √(r₃ r₄ | r₃ r₄)` -/
theorem eri_array_abs_le (boysT : ℝ → ℕ → Tab ℝ)
    (hboys : ∀ T n m, m < n → (boysT T n).get m = boys T m) (b : Basis ℝ) (hb : b.WellFormed)
    (r₁ r₂ r₃ r₄ : ℕ) (h₁ : r₁ < b.total) (h₂ : r₂ < b.total) (h₃ : r₃ < b.total)
    (h₄ : r₄ < b.total) :
    |entry4 b b b b (quartetBlocks b b b b (eriBlk boysT b)) r₁ r₂ r₃ r₄|
      ≤ √(entry4 b b b b (quartetBlocks b b b b (eriBlk boysT b)) r₁ r₂ r₁ r₂)
        * √(entry4 b b b b (quartetBlocks b b b b (eriBlk boysT b)) r₃ r₄ r₃ r₄) := by
  classical
  exact psd_abs_le (eriMat boysT b) (eriMat_symm boysT hboys b hb) (eriMat_psd boysT hboys b hb)
    (⟨r₁, h₁⟩, ⟨r₂, h₂⟩) (⟨r₃, h₃⟩, ⟨r₄, h₄⟩)

/-- an entry whose "bra" or "ket" self-repulsion vanishes is zero -/
theorem eri_array_eq_zero_of_self_eq_zero (boysT : ℝ → ℕ → Tab ℝ)
    (hboys : ∀ T n m, m < n → (boysT T n).get m = boys T m) (b : Basis ℝ) (hb : b.WellFormed)
    (r₁ r₂ r₃ r₄ : ℕ) (h₁ : r₁ < b.total) (h₂ : r₂ < b.total) (h₃ : r₃ < b.total)
    (h₄ : r₄ < b.total)
    (h0 : entry4 b b b b (quartetBlocks b b b b (eriBlk boysT b)) r₁ r₂ r₁ r₂ = 0) :
    entry4 b b b b (quartetBlocks b b b b (eriBlk boysT b)) r₁ r₂ r₃ r₄ = 0 := by
  have h := eri_array_schwarz boysT hboys b hb r₁ r₂ r₃ r₄ h₁ h₂ h₃ h₄
  rw [h0, zero_mul] at h
  exact pow_eq_zero_iff (two_ne_zero) |>.mp (le_antisymm h (sq_nonneg _))

end PSD

/-! ## 4. A further transformation of the four indices -/
section Transform
variable {κ : Type*} [Fintype κ]

/-- the array after a further linear transformation (rectangular allowed) of its four indices:
`T` on the first and third index, `T'` on the second and fourth (`transform=` uses `T' = T`) -/
noncomputable def eriTransformed (boysT : ℝ → ℕ → Tab ℝ) (b : Basis ℝ)
    (T T' : κ → Fin b.total → ℝ) (i j k l : κ) : ℝ :=
  ∑ r₁ : Fin b.total, ∑ r₂ : Fin b.total, ∑ r₃ : Fin b.total, ∑ r₄ : Fin b.total,
    T i r₁ * T' j r₂ * T k r₃ * T' l r₄
      * entry4 b b b b (quartetBlocks b b b b (eriBlk boysT b)) r₁ r₂ r₃ r₄

/-- the transformation of index pairs induced by `T`, `T'` -/
def pairT {n : ℕ} (T T' : κ → Fin n → ℝ) (I : κ × κ) (p : Fin n × Fin n) : ℝ := T I.1 p.1 * T' I.2 p.2

omit [Fintype κ] in
/-- the transformed array is `U M Uᵀ` of the pair matrix with `U = T ⊗ T'` -/
theorem eriTransformed_eq_congr (boysT : ℝ → ℕ → Tab ℝ) (b : Basis ℝ)
    (T T' : κ → Fin b.total → ℝ) (I J : κ × κ) :
    eriTransformed boysT b T T' I.1 I.2 J.1 J.2
      = ∑ p, ∑ q, pairT T T' I p * eriMat boysT b p q * pairT T T' J q := by
  unfold eriTransformed pairT eriMat
  simp only [Fintype.sum_prod_type]
  refine Finset.sum_congr rfl fun r₁ _ => Finset.sum_congr rfl fun r₂ _ =>
    Finset.sum_congr rfl fun r₃ _ => Finset.sum_congr rfl fun r₄ _ => ?_
  ring

/-- **C17, transformed electron-repulsion array: still positive semi-definite over index pairs**, for
any (rectangular) `T`, `T'` -/
theorem eri_array_transform_psd (boysT : ℝ → ℕ → Tab ℝ)
    (hboys : ∀ T n m, m < n → (boysT T n).get m = boys T m) (b : Basis ℝ) (hb : b.WellFormed)
    (T T' : κ → Fin b.total → ℝ) (w : κ → κ → ℝ) :
    0 ≤ ∑ i, ∑ j, ∑ k, ∑ l, w i j * w k l * eriTransformed boysT b T T' i j k l := by
  have h := psd_congr (eriMat boysT b) (pairT T T') (eriMat_psd boysT hboys b hb)
    (fun I => w I.1 I.2)
  simp_rw [← eriTransformed_eq_congr boysT b T T'] at h
  rw [quadForm_pairs (fun I J : κ × κ => eriTransformed boysT b T T' I.1 I.2 J.1 J.2)] at h
  exact h

omit [Fintype κ] in
/-- the transformed array keeps the symmetry `(ij|kl) = (kl|ij)` -/
theorem eri_array_transform_symm (boysT : ℝ → ℕ → Tab ℝ)
    (hboys : ∀ T n m, m < n → (boysT T n).get m = boys T m) (b : Basis ℝ) (hb : b.WellFormed)
    (T T' : κ → Fin b.total → ℝ) (i j k l : κ) :
    eriTransformed boysT b T T' i j k l = eriTransformed boysT b T T' k l i j := by
  rw [eriTransformed_eq_congr boysT b T T' (i, j) (k, l),
    eriTransformed_eq_congr boysT b T T' (k, l) (i, j)]
  exact symm_congr (eriMat boysT b) (pairT T T') (eriMat_symm boysT hboys b hb) (i, j) (k, l)

/-- pair-matrix form of `eri_array_transform_psd` -/
theorem eriTransformed_pair_psd (boysT : ℝ → ℕ → Tab ℝ)
    (hboys : ∀ T n m, m < n → (boysT T n).get m = boys T m) (b : Basis ℝ) (hb : b.WellFormed)
    (T T' : κ → Fin b.total → ℝ) (x : κ × κ → ℝ) :
    0 ≤ quadForm (fun I J : κ × κ => eriTransformed boysT b T T' I.1 I.2 J.1 J.2) x := by
  simp_rw [eriTransformed_eq_congr boysT b T T']
  exact psd_congr (eriMat boysT b) (pairT T T') (eriMat_psd boysT hboys b hb) x

/-- `(ij|ij) ≥ 0` after the transformation -/
theorem eri_array_transform_self_nonneg (boysT : ℝ → ℕ → Tab ℝ)
    (hboys : ∀ T n m, m < n → (boysT T n).get m = boys T m) (b : Basis ℝ) (hb : b.WellFormed)
    (T T' : κ → Fin b.total → ℝ) (i j : κ) : 0 ≤ eriTransformed boysT b T T' i j i j := by
  classical
  exact psd_diag_nonneg (fun I J : κ × κ => eriTransformed boysT b T T' I.1 I.2 J.1 J.2)
    (eriTransformed_pair_psd boysT hboys b hb T T') (i, j)

/-- Schwarz inequality `(ij|kl)² ≤ (ij|ij) (kl|kl)` after the transformation -/
theorem eri_array_transform_schwarz (boysT : ℝ → ℕ → Tab ℝ)
    (hboys : ∀ T n m, m < n → (boysT T n).get m = boys T m) (b : Basis ℝ) (hb : b.WellFormed)
    (T T' : κ → Fin b.total → ℝ) (i j k l : κ) :
    eriTransformed boysT b T T' i j k l ^ 2
      ≤ eriTransformed boysT b T T' i j i j * eriTransformed boysT b T T' k l k l := by
  classical
  exact psd_sq_le (fun I J : κ × κ => eriTransformed boysT b T T' I.1 I.2 J.1 J.2)
    (fun I J => eri_array_transform_symm boysT hboys b hb T T' I.1 I.2 J.1 J.2)
    (eriTransformed_pair_psd boysT hboys b hb T T') (i, j) (k, l)

end Transform

/-! ## 5. The flat array `assemble4 b (eriBlk boysT b)` that the driver prints -/
section Flat

/-- **C17 for the flat electron-repulsion array** (row-major `[r₁][r₂][r₃][r₄]`, chemists' notation):
positive semi-definite over index pairs -/
theorem eri_flat_psd (boysT : ℝ → ℕ → Tab ℝ)
    (hboys : ∀ T n m, m < n → (boysT T n).get m = boys T m) (b : Basis ℝ) (hb : b.WellFormed)
    (v : Fin b.total → Fin b.total → ℝ) :
    0 ≤ ∑ r₁ : Fin b.total, ∑ r₂ : Fin b.total, ∑ r₃ : Fin b.total, ∑ r₄ : Fin b.total,
      v r₁ r₂ * v r₃ r₄ * (assemble4 b (eriBlk boysT b))[
        ((r₁.1 * b.total + r₂.1) * b.total + r₃.1) * b.total + r₄.1]! := by
  simp_rw [fun r₁ r₂ r₃ r₄ : Fin b.total =>
    assemble4_get b (eriBlk boysT b) r₁.1 r₂.1 r₃.1 r₄.1 r₁.2 r₂.2 r₃.2 r₄.2]
  exact eri_array_psd boysT hboys b hb v

theorem eri_flat_self_nonneg (boysT : ℝ → ℕ → Tab ℝ)
    (hboys : ∀ T n m, m < n → (boysT T n).get m = boys T m) (b : Basis ℝ) (hb : b.WellFormed)
    (r₁ r₂ : ℕ) (h₁ : r₁ < b.total) (h₂ : r₂ < b.total) :
    0 ≤ (assemble4 b (eriBlk boysT b))[((r₁ * b.total + r₂) * b.total + r₁) * b.total + r₂]! := by
  rw [assemble4_get b (eriBlk boysT b) r₁ r₂ r₁ r₂ h₁ h₂ h₁ h₂]
  exact eri_array_self_nonneg boysT hboys b hb r₁ r₂ h₁ h₂

theorem eri_flat_schwarz (boysT : ℝ → ℕ → Tab ℝ)
    (hboys : ∀ T n m, m < n → (boysT T n).get m = boys T m) (b : Basis ℝ) (hb : b.WellFormed)
    (r₁ r₂ r₃ r₄ : ℕ) (h₁ : r₁ < b.total) (h₂ : r₂ < b.total) (h₃ : r₃ < b.total)
    (h₄ : r₄ < b.total) :
    (assemble4 b (eriBlk boysT b))[((r₁ * b.total + r₂) * b.total + r₃) * b.total + r₄]! ^ 2
      ≤ (assemble4 b (eriBlk boysT b))[((r₁ * b.total + r₂) * b.total + r₁) * b.total + r₂]!
        * (assemble4 b (eriBlk boysT b))[((r₃ * b.total + r₄) * b.total + r₃) * b.total + r₄]! := by
  rw [assemble4_get b (eriBlk boysT b) r₁ r₂ r₃ r₄ h₁ h₂ h₃ h₄,
    assemble4_get b (eriBlk boysT b) r₁ r₂ r₁ r₂ h₁ h₂ h₁ h₂,
    assemble4_get b (eriBlk boysT b) r₃ r₄ r₃ r₄ h₃ h₄ h₃ h₄]
  exact eri_array_schwarz boysT hboys b hb r₁ r₂ r₃ r₄ h₁ h₂ h₃ h₄

end Flat

end GB
