import GBProofs.GaussFunctional

/-!
# The moment-type recursion table equals the Gaussian-functional specification

`momPlanes` (model of `_compute_multipole_moment_integrals_intermediate`) for **all**
orders `k`, right indices `j`, left indices `i`, and any table sizes.
-/
namespace GB
variable {K : Type} [Field K] [CharZero K]

theorem lin2_spec (f0 f1 : K) (s : ℕ → K → K → K) (T : ℕ → K)
    (h0 : T 0 = f0) (h1 : T 1 = f1) (hs : ∀ n, T (n+2) = s n (T n) (T (n+1))) (n : ℕ) :
    lin2 f0 f1 s n = (T n, T (n+1)) := by
  induction n with
  | zero => simp [lin2, h0, h1]
  | succ n ih => simp [lin2, ih, hs]

theorem momRow0_eq (p PA PB PC base : K) (hp : p ≠ 0) (i : ℕ) :
    momRow0 (1/(2*p)) PA base i = base * S3 p PA PB PC i 0 0 := by
  unfold momRow0
  rw [lin2_spec _ _ _ (fun i => base * S3 p PA PB PC i 0 0)]
  · simp [S3_zero]
  · rw [S3_succ_i p PA PB PC hp 0 0 0]; simp [S3_zero, mul_comm]
  · intro n
    rw [S3_succ_i p PA PB PC hp (n+1) 0 0]
    simp only [num_nat, Nat.add_sub_cancel]
    push_cast
    ring

theorem momRows_eq (p PA PB PC base : K) (hp : p ≠ 0) (ni : ℕ) (j : ℕ) :
    (∀ i, (momRows (1/(2*p)) PA PB base ni j).1.get i = base * S3 p PA PB PC i j 0) ∧
    (∀ i, 0 < j → (momRows (1/(2*p)) PA PB base ni j).2.get i = base * S3 p PA PB PC i (j-1) 0) := by
  induction j with
  | zero =>
    refine ⟨fun i => ?_, fun i h => absurd h (lt_irrefl 0)⟩
    simp only [momRows, tab_get]
    exact momRow0_eq p PA PB PC base hp i
  | succ j ih =>
    obtain ⟨ih1, ih2⟩ := ih
    refine ⟨fun i => ?_, fun i _ => ?_⟩
    · simp only [momRows, tab_get, ih1]
      rw [S3_succ_j p PA PB PC hp i j 0]
      rcases Nat.eq_zero_or_pos j with rfl | hj
      · simp only [num_nat]; push_cast; ring
      · rw [ih2 i hj]; simp only [num_nat]; push_cast; ring
    · simp only [momRows, Nat.add_sub_cancel]
      exact ih1 i

/-- **Main table theorem.** Every entry of the table which the Python code fills is
`base` times the Gaussian-functional value — for all orders and angular indices. -/
theorem momPlanes_eq (p PA PB PC base : K) (hp : p ≠ 0) (nj ni : ℕ) (k : ℕ) :
    (∀ j i, (momPlanes (1/(2*p)) PA PB PC base nj ni k).1.get2 j i = base * S3 p PA PB PC i j k) ∧
    (∀ j i, 0 < k → (momPlanes (1/(2*p)) PA PB PC base nj ni k).2.get2 j i
        = base * S3 p PA PB PC i j (k-1)) := by
  induction k with
  | zero =>
    refine ⟨fun j i => ?_, fun j i h => absurd h (lt_irrefl 0)⟩
    simp only [momPlanes, Tab.get2, tab_get]
    exact (momRows_eq p PA PB PC base hp ni j).1 i
  | succ k ih =>
    obtain ⟨ih1, ih2⟩ := ih
    refine ⟨fun j i => ?_, fun j i _ => ?_⟩
    · simp only [momPlanes, tab2_get, ih1]
      rw [S3_succ_k p PA PB PC hp i j k]
      rcases Nat.eq_zero_or_pos k with rfl | hk
      · simp only [num_nat]; ring
      · rw [ih2 j i hk]; simp only [num_nat]; push_cast; ring
    · simp only [momPlanes, Nat.add_sub_cancel]
      exact ih1 j i

theorem momTab_eq (p PA PB PC base : K) (hp : p ≠ 0) (nk nj ni : ℕ) (k j i : ℕ) :
    (momTab (1/(2*p)) PA PB PC base nk nj ni).get3 k j i = base * S3 p PA PB PC i j k := by
  simp only [momTab, Tab.get3, tab_get]
  exact (momPlanes_eq p PA PB PC base hp nj ni k).1 j i

end GB
