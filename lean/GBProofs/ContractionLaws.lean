import GBProofs.RealInst
import Mathlib.Algebra.BigOperators.Ring.Finset
import Mathlib.Algebra.Order.BigOperators.Group.Finset
import Mathlib.Analysis.SpecialFunctions.Sqrt
import Mathlib.Tactic.Linarith
import Mathlib.Tactic.LinearCombination

/-!
# Contractions behave as the linear combinations they denote

`contract s t na nb prim ma ca mb cb`
`  = Σ_{ka < K_s} Σ_{kb < K_t} c_s[ka,ma]·na[ka,ca]·(c_t[kb,mb]·nb[kb,cb])·prim ka kb a b`
(model of `_cleanup_intermediate_integrals`).

The model functions on shells carry a `[Transc K]` instance argument (they live in a section that
also defines the primitive norms).  Over an arbitrary field `K` the laws are stated for the
instance `fieldTransc e sq pi` — the field operations together with *arbitrary* interpretations
`e sq : K → K`, `pi : K` of `exp`, `sqrt`, `π` (none of which `contract` uses); `realTransc` is
definitionally `fieldTransc Real.exp Real.sqrt Real.pi` (`realTransc_eq`), so every law applies
verbatim to `Shell ℝ` (see the `_real` corollaries at the end).

* `contract_eq_csum` : `contract` is the double `Finset` sum `csum`;
* `contract_congr`, `contract_column` : segment `ma` depends only on column `ma` of the coefficients;
* `contract_linear`, `contract_smul_left`, `contract_smul_right` : linearity in a coefficient column;
* `contract_prim_perm` : invariance under a permutation of the primitives;
* `contract_split` : splitting a primitive in two whose coefficients add up;
* `scale_norm`, `scale_pos_inv`, `scale_neg_flip` (ℝ) : normalisation removes a positive scale factor
  of a coefficient column and keeps the sign of a negative one;
  `normalised_scale_pos`, `normalised_scale_neg` put the pieces together.
-/
namespace GB

section Field
variable {K : Type} [Field K]

/-- field operations plus arbitrary interpretations of the transcendental operations -/
@[reducible] def fieldTransc (e sq : K → K) (pi : K) : Transc K :=
  { toNum := fieldNum, exp := e, sqrt := sq, pi := pi }

/-- the double sum that `contract` denotes: coefficient columns `c c'`, primitive norms `N N'`,
primitive integrals `P` -/
def csum (n n' : ℕ) (c N c' N' : ℕ → K) (P : ℕ → ℕ → K) : K :=
  ∑ ka ∈ Finset.range n, ∑ kb ∈ Finset.range n', c ka * N ka * (c' kb * N' kb) * P ka kb

/-- `csum` as a single sum over the left primitives, the left coefficient factored out -/
theorem csum_left (n n' : ℕ) (c N c' N' : ℕ → K) (P : ℕ → ℕ → K) :
    csum n n' c N c' N' P
      = ∑ ka ∈ Finset.range n, c ka * (N ka * ∑ kb ∈ Finset.range n', c' kb * N' kb * P ka kb) := by
  unfold csum
  refine Finset.sum_congr rfl fun ka _ => ?_
  rw [Finset.mul_sum, Finset.mul_sum]
  refine Finset.sum_congr rfl fun kb _ => ?_
  ring

/-- `csum` as a single sum over the right primitives, the right coefficient factored out -/
theorem csum_right (n n' : ℕ) (c N c' N' : ℕ → K) (P : ℕ → ℕ → K) :
    csum n n' c N c' N' P
      = ∑ kb ∈ Finset.range n', c' kb * (N' kb * ∑ ka ∈ Finset.range n, c ka * N ka * P ka kb) := by
  unfold csum
  rw [Finset.sum_comm]
  refine Finset.sum_congr rfl fun kb _ => ?_
  rw [Finset.mul_sum, Finset.mul_sum]
  refine Finset.sum_congr rfl fun ka _ => ?_
  ring

/-- only the values below the bounds matter -/
theorem csum_congr {n n' : ℕ} {c N c' N' d M d' M' : ℕ → K} {P Q : ℕ → ℕ → K}
    (hc : ∀ k < n, c k = d k) (hN : ∀ k < n, N k = M k)
    (hc' : ∀ k < n', c' k = d' k) (hN' : ∀ k < n', N' k = M' k)
    (hP : ∀ ka < n, ∀ kb < n', P ka kb = Q ka kb) :
    csum n n' c N c' N' P = csum n n' d M d' M' Q := by
  unfold csum
  refine Finset.sum_congr rfl fun ka hka => Finset.sum_congr rfl fun kb hkb => ?_
  have hka := Finset.mem_range.mp hka
  have hkb := Finset.mem_range.mp hkb
  rw [hc ka hka, hN ka hka, hc' kb hkb, hN' kb hkb, hP ka hka kb hkb]

theorem csum_linear_left (n n' : ℕ) (x y : K) (c₁ c₂ N c' N' : ℕ → K) (P : ℕ → ℕ → K) :
    csum n n' (fun k => x * c₁ k + y * c₂ k) N c' N' P
      = x * csum n n' c₁ N c' N' P + y * csum n n' c₂ N c' N' P := by
  rw [csum_left, csum_left, csum_left, Finset.mul_sum, Finset.mul_sum, ← Finset.sum_add_distrib]
  refine Finset.sum_congr rfl fun ka _ => ?_
  ring

theorem csum_linear_right (n n' : ℕ) (x y : K) (c N c₁ c₂ N' : ℕ → K) (P : ℕ → ℕ → K) :
    csum n n' c N (fun k => x * c₁ k + y * c₂ k) N' P
      = x * csum n n' c N c₁ N' P + y * csum n n' c N c₂ N' P := by
  rw [csum_right, csum_right, csum_right, Finset.mul_sum, Finset.mul_sum, ← Finset.sum_add_distrib]
  refine Finset.sum_congr rfl fun kb _ => ?_
  ring

/-- reindexing the left primitives by a map `σ` that is injective from `{0,…,n-1}` to itself
(hence a permutation of it) -/
theorem csum_perm_left (n n' : ℕ) (σ : ℕ → ℕ) (hmap : ∀ k < n, σ k < n)
    (hinj : ∀ k < n, ∀ k' < n, σ k = σ k' → k = k') (c N c' N' : ℕ → K) (P : ℕ → ℕ → K) :
    csum n n' (fun k => c (σ k)) (fun k => N (σ k)) c' N' (fun ka kb => P (σ ka) kb)
      = csum n n' c N c' N' P := by
  have hinj' : Set.InjOn σ (Finset.range n : Set ℕ) := by
    intro a ha b hb hab
    exact hinj a (Finset.mem_range.mp ha) b (Finset.mem_range.mp hb) hab
  have himg : (Finset.range n).image σ = Finset.range n := by
    refine Finset.eq_of_subset_of_card_le ?_ ?_
    · intro x hx
      obtain ⟨k, hk, rfl⟩ := Finset.mem_image.mp hx
      exact Finset.mem_range.mpr (hmap k (Finset.mem_range.mp hk))
    · rw [Finset.card_image_of_injOn hinj']
  unfold csum
  conv_rhs => rw [← himg, Finset.sum_image hinj']

/-- splitting primitive `j` of `n` into the two primitives `j` and `n` of `n+1`, with the same
norm and primitive integrals and coefficients adding up to the original one -/
theorem csum_split_left (n n' j : ℕ) (hj : j < n) (c d N M c' N' : ℕ → K) (P Q : ℕ → ℕ → K)
    (hd : ∀ k < n, k ≠ j → d k = c k) (hdj : d j + d n = c j)
    (hM : ∀ k < n, M k = N k) (hMn : M n = N j)
    (hQ : ∀ k < n, ∀ kb < n', Q k kb = P k kb) (hQn : ∀ kb < n', Q n kb = P j kb) :
    csum (n+1) n' d M c' N' Q = csum n n' c N c' N' P := by
  simp only [csum_left]
  rw [Finset.sum_range_succ]
  set F : ℕ → K := fun ka => N ka * ∑ kb ∈ Finset.range n', c' kb * N' kb * P ka kb with hF
  have h1 : ∀ ka ∈ Finset.range n,
      d ka * (M ka * ∑ kb ∈ Finset.range n', c' kb * N' kb * Q ka kb) = d ka * F ka := by
    intro ka hka
    have hka := Finset.mem_range.mp hka
    rw [hF, hM ka hka]
    congr 2
    exact Finset.sum_congr rfl fun kb hkb => by rw [hQ ka hka kb (Finset.mem_range.mp hkb)]
  have h2 : d n * (M n * ∑ kb ∈ Finset.range n', c' kb * N' kb * Q n kb) = d n * F j := by
    rw [hF, hMn]
    congr 2
    exact Finset.sum_congr rfl fun kb hkb => by rw [hQn kb (Finset.mem_range.mp hkb)]
  rw [Finset.sum_congr rfl h1, h2]
  change ∑ ka ∈ Finset.range n, d ka * F ka + d n * F j = ∑ ka ∈ Finset.range n, c ka * F ka
  have h3 : ∑ ka ∈ Finset.range n, c ka * F ka - ∑ ka ∈ Finset.range n, d ka * F ka
      = (c j - d j) * F j := by
    rw [← Finset.sum_sub_distrib]
    rw [Finset.sum_eq_single_of_mem j (Finset.mem_range.mpr hj)]
    · ring
    · intro k hk hkj
      rw [hd k (Finset.mem_range.mp hk) hkj]; ring
  have h4 : c j - d j = d n := by rw [← hdj]; ring
  rw [h4] at h3
  linear_combination -h3

/-! ## The model function -/
section Model
variable (e sq : K → K) (pi : K)

/-- `contract` is the double sum it denotes -/
theorem contract_eq_csum (s t : Shell K) (na nb : Tab (Tab K)) (prim : ℕ → ℕ → Comp → Comp → K)
    (ma ca mb cb : ℕ) :
    letI := fieldTransc e sq pi
    contract s t na nb prim ma ca mb cb
      = csum s.nprim t.nprim (fun k => s.coef! k ma) (fun k => na.get2 k ca)
          (fun k => t.coef! k mb) (fun k => nb.get2 k cb)
          (fun ka kb => prim ka kb (s.comp! ca) (t.comp! cb)) := by
  simp only [contract, csum, sumN_eq_sum]

/-- **Congruence.**  `contract` depends on the left shell only through its number of primitives,
the selected coefficient column and the selected component (and likewise on the right shell). -/
theorem contract_congr (s s' t t' : Shell K) (na nb : Tab (Tab K))
    (prim : ℕ → ℕ → Comp → Comp → K) (ma ma' ca mb mb' cb : ℕ) :
    letI := fieldTransc e sq pi
    s'.nprim = s.nprim → t'.nprim = t.nprim →
    (∀ k < s.nprim, s'.coef! k ma' = s.coef! k ma) → (∀ k < t.nprim, t'.coef! k mb' = t.coef! k mb) →
    s'.comp! ca = s.comp! ca → t'.comp! cb = t.comp! cb →
    contract s' t' na nb prim ma' ca mb' cb = contract s t na nb prim ma ca mb cb := by
  intro hn hn' hc hc' ha hb
  rw [contract_eq_csum, contract_eq_csum, hn, hn', ha, hb]
  exact csum_congr hc (fun _ _ => rfl) hc' (fun _ _ => rfl) (fun _ _ _ _ => rfl)

/-- **A generalized contraction is the stack of its segmented contractions.**  If `s'` has the
exponents, component list of `s` and, as its column 0, column `m` of the coefficient matrix of `s`,
then segment 0 of `s'` gives the same contraction as segment `m` of `s`. -/
theorem contract_column (s s' t : Shell K) (na nb : Tab (Tab K))
    (prim : ℕ → ℕ → Comp → Comp → K) (m ca mb cb : ℕ) :
    letI := fieldTransc e sq pi
    s'.exps = s.exps → s'.cart = s.cart → (∀ k, s'.coef! k 0 = s.coef! k m) →
    contract s' t na nb prim 0 ca mb cb = contract s t na nb prim m ca mb cb := by
  intro he hcart hc
  refine contract_congr e sq pi s s' t t na nb prim m 0 ca mb mb cb ?_ rfl (fun k _ => hc k)
    (fun _ _ => rfl) ?_ rfl
  · simp only [Shell.nprim, he]
  · simp only [Shell.comp!, hcart]

/-- **Linearity in the left coefficient column.** -/
theorem contract_linear (s₁ s₂ s₃ t : Shell K) (na nb : Tab (Tab K))
    (prim : ℕ → ℕ → Comp → Comp → K) (x y : K) (m ca mb cb : ℕ) :
    letI := fieldTransc e sq pi
    s₁.nprim = s₃.nprim → s₂.nprim = s₃.nprim →
    s₁.comp! ca = s₃.comp! ca → s₂.comp! ca = s₃.comp! ca →
    (∀ k < s₃.nprim, s₃.coef! k m = x * s₁.coef! k m + y * s₂.coef! k m) →
    contract s₃ t na nb prim m ca mb cb
      = x * contract s₁ t na nb prim m ca mb cb + y * contract s₂ t na nb prim m ca mb cb := by
  intro h1 h2 ha1 ha2 hc
  rw [contract_eq_csum, contract_eq_csum, contract_eq_csum, h1, h2, ha1, ha2, ← csum_linear_left]
  exact csum_congr hc (fun _ _ => rfl) (fun _ _ => rfl) (fun _ _ => rfl) (fun _ _ _ _ => rfl)

/-- **Linearity in the right coefficient column.** -/
theorem contract_linear_right (s t₁ t₂ t₃ : Shell K) (na nb : Tab (Tab K))
    (prim : ℕ → ℕ → Comp → Comp → K) (x y : K) (ma ca m cb : ℕ) :
    letI := fieldTransc e sq pi
    t₁.nprim = t₃.nprim → t₂.nprim = t₃.nprim →
    t₁.comp! cb = t₃.comp! cb → t₂.comp! cb = t₃.comp! cb →
    (∀ k < t₃.nprim, t₃.coef! k m = x * t₁.coef! k m + y * t₂.coef! k m) →
    contract s t₃ na nb prim ma ca m cb
      = x * contract s t₁ na nb prim ma ca m cb + y * contract s t₂ na nb prim ma ca m cb := by
  intro h1 h2 hb1 hb2 hc
  rw [contract_eq_csum, contract_eq_csum, contract_eq_csum, h1, h2, hb1, hb2, ← csum_linear_right]
  exact csum_congr (fun _ _ => rfl) (fun _ _ => rfl) hc (fun _ _ => rfl) (fun _ _ _ _ => rfl)

/-- scaling the left coefficient column by `x` scales the contraction by `x` -/
theorem contract_smul_left (s s' t : Shell K) (na nb : Tab (Tab K))
    (prim : ℕ → ℕ → Comp → Comp → K) (x : K) (m ca mb cb : ℕ) :
    letI := fieldTransc e sq pi
    s'.nprim = s.nprim → s'.comp! ca = s.comp! ca →
    (∀ k < s.nprim, s'.coef! k m = x * s.coef! k m) →
    contract s' t na nb prim m ca mb cb = x * contract s t na nb prim m ca mb cb := by
  intro hn ha hc
  have h := contract_linear e sq pi s s s' t na nb prim x 0 m ca mb cb hn.symm hn.symm ha.symm
    ha.symm (fun k hk => by rw [hc k (hn ▸ hk)]; ring)
  rw [h]; ring

/-- scaling the right coefficient column by `x` scales the contraction by `x` -/
theorem contract_smul_right (s t t' : Shell K) (na nb : Tab (Tab K))
    (prim : ℕ → ℕ → Comp → Comp → K) (x : K) (ma ca m cb : ℕ) :
    letI := fieldTransc e sq pi
    t'.nprim = t.nprim → t'.comp! cb = t.comp! cb →
    (∀ k < t.nprim, t'.coef! k m = x * t.coef! k m) →
    contract s t' na nb prim ma ca m cb = x * contract s t na nb prim ma ca m cb := by
  intro hn hb hc
  have h := contract_linear_right e sq pi s t t t' na nb prim x 0 ma ca m cb hn.symm hn.symm hb.symm
    hb.symm (fun k hk => by rw [hc k (hn ▸ hk)]; ring)
  rw [h]; ring

/-- **Invariance under a permutation of the primitives** of the left shell: `σ` maps
`{0,…,K_s-1}` injectively into itself; `s'`, `na'`, `prim'` are `s`, `na`, `prim` with the
primitives listed in the order `σ 0, σ 1, …`. -/
theorem contract_prim_perm (s s' t : Shell K) (na na' nb : Tab (Tab K))
    (prim prim' : ℕ → ℕ → Comp → Comp → K) (σ : ℕ → ℕ) (m ca mb cb : ℕ) :
    letI := fieldTransc e sq pi
    (∀ k < s.nprim, σ k < s.nprim) → (∀ k < s.nprim, ∀ k' < s.nprim, σ k = σ k' → k = k') →
    s'.nprim = s.nprim → s'.comp! ca = s.comp! ca →
    (∀ k < s.nprim, s'.coef! k m = s.coef! (σ k) m) →
    (∀ k < s.nprim, na'.get2 k ca = na.get2 (σ k) ca) →
    (∀ k < s.nprim, ∀ kb < t.nprim, ∀ a b, prim' k kb a b = prim (σ k) kb a b) →
    contract s' t na' nb prim' m ca mb cb = contract s t na nb prim m ca mb cb := by
  intro hmap hinj hn ha hc hna hprim
  rw [contract_eq_csum, contract_eq_csum, hn, ha]
  refine Eq.trans ?_ (csum_perm_left s.nprim t.nprim σ hmap hinj _ _ _ _ _)
  exact csum_congr hc hna (fun _ _ => rfl) (fun _ _ => rfl)
    (fun ka hka kb hkb => hprim ka hka kb hkb _ _)

/-- **Splitting a primitive.**  `s'` has one primitive more than `s`; primitives `j` and `K_s`
of `s'` are two copies of primitive `j` of `s` (same primitive norm, same primitive integrals)
whose coefficients add up to the coefficient of the original; all other primitives are unchanged.
The contraction is unchanged. -/
theorem contract_split (s s' t : Shell K) (na na' nb : Tab (Tab K))
    (prim prim' : ℕ → ℕ → Comp → Comp → K) (j m ca mb cb : ℕ) :
    letI := fieldTransc e sq pi
    j < s.nprim → s'.nprim = s.nprim + 1 → s'.comp! ca = s.comp! ca →
    (∀ k < s.nprim, k ≠ j → s'.coef! k m = s.coef! k m) →
    s'.coef! j m + s'.coef! s.nprim m = s.coef! j m →
    (∀ k < s.nprim, na'.get2 k ca = na.get2 k ca) → na'.get2 s.nprim ca = na.get2 j ca →
    (∀ k < s.nprim, ∀ kb < t.nprim, ∀ a b, prim' k kb a b = prim k kb a b) →
    (∀ kb < t.nprim, ∀ a b, prim' s.nprim kb a b = prim j kb a b) →
    contract s' t na' nb prim' m ca mb cb = contract s t na nb prim m ca mb cb := by
  intro hj hn ha hc hcj hna hnaj hprim hprimj
  rw [contract_eq_csum, contract_eq_csum, hn, ha]
  exact csum_split_left s.nprim t.nprim j hj _ _ _ _ _ _ _ _ hc hcj hna hnaj
    (fun k hk kb hkb => hprim k hk kb hkb _ _) (fun kb hkb => hprimj kb hkb _ _)

end Model

end Field

theorem realTransc_eq : realTransc = fieldTransc Real.exp Real.sqrt Real.pi := rfl

/-! ## Normalisation and the scale of a coefficient column (over ℝ) -/

/-- a column scaled by `c ≠ 0` has raw self-overlap `c·c·ov`; dividing by its square root leaves
the sign of `c` -/
theorem scale_norm (c x ov : ℝ) (hov : 0 < ov) (hc : c ≠ 0) :
    c * x * (1 / Real.sqrt (c * c * ov)) = (c / |c|) * (x * (1 / Real.sqrt ov)) := by
  have h1 : Real.sqrt (c * c * ov) = |c| * Real.sqrt ov := by
    rw [Real.sqrt_mul (mul_self_nonneg c), Real.sqrt_mul_self_eq_abs]
  have h2 : |c| ≠ 0 := abs_ne_zero.mpr hc
  have h3 : Real.sqrt ov ≠ 0 := (Real.sqrt_pos.mpr hov).ne'
  rw [h1]
  field_simp

/-- a positive scale factor of the coefficient column drops out of the normalised function -/
theorem scale_pos_inv (c x ov : ℝ) (hov : 0 < ov) (hc : 0 < c) :
    c * x * (1 / Real.sqrt (c * c * ov)) = x * (1 / Real.sqrt ov) := by
  rw [scale_norm c x ov hov hc.ne', abs_of_pos hc, div_self hc.ne', one_mul]

/-- a negative scale factor of the coefficient column flips the sign of the normalised function -/
theorem scale_neg_flip (c x ov : ℝ) (hov : 0 < ov) (hc : c < 0) :
    c * x * (1 / Real.sqrt (c * c * ov)) = -(x * (1 / Real.sqrt ov)) := by
  rw [scale_norm c x ov hov hc.ne, abs_of_neg hc, div_neg, div_self hc.ne, neg_one_mul]

/-- raw self-"overlap" (any bilinear primitive kernel `prim`) of a shell whose column `m` is scaled
by `c` -/
theorem contract_self_scale (s s' : Shell ℝ) (na : Tab (Tab ℝ)) (prim : ℕ → ℕ → Comp → Comp → ℝ)
    (c : ℝ) (m ca : ℕ) (hn : s'.nprim = s.nprim) (ha : s'.comp! ca = s.comp! ca)
    (hc : ∀ k < s.nprim, s'.coef! k m = c * s.coef! k m) :
    contract s' s' na na prim m ca m ca = c * c * contract s s na na prim m ca m ca := by
  rw [contract_smul_left Real.exp Real.sqrt Real.pi s s' s' na na prim c m ca m ca hn ha hc,
    contract_smul_right Real.exp Real.sqrt Real.pi s s s' na na prim c m ca m ca hn ha hc]
  ring

/-- **Multiplying a coefficient column by `c > 0` leaves the normalised contraction unchanged**:
with the normalisation constant computed, as the code does, from the shell's own raw
self-overlap (`ovk` the primitive overlap kernel, positive self-overlap), every integral
(`prim` arbitrary) against every shell `t` is the same for `s'` (column scaled) and `s`. -/
theorem normalised_scale_pos (s s' t : Shell ℝ) (na nb : Tab (Tab ℝ))
    (ovk prim : ℕ → ℕ → Comp → Comp → ℝ) (c : ℝ) (m ca mb cb : ℕ)
    (hn : s'.nprim = s.nprim) (ha : s'.comp! ca = s.comp! ca)
    (hc : ∀ k < s.nprim, s'.coef! k m = c * s.coef! k m) (hpos : 0 < c)
    (hov : 0 < contract s s na na ovk m ca m ca) :
    contract s' t na nb prim m ca mb cb * (1 / Real.sqrt (contract s' s' na na ovk m ca m ca))
      = contract s t na nb prim m ca mb cb * (1 / Real.sqrt (contract s s na na ovk m ca m ca)) := by
  rw [contract_self_scale s s' na ovk c m ca hn ha hc,
    contract_smul_left Real.exp Real.sqrt Real.pi s s' t na nb prim c m ca mb cb hn ha hc]
  exact scale_pos_inv c _ _ hov hpos

/-- **Multiplying a coefficient column by `c < 0` flips the sign of the normalised contraction.** -/
theorem normalised_scale_neg (s s' t : Shell ℝ) (na nb : Tab (Tab ℝ))
    (ovk prim : ℕ → ℕ → Comp → Comp → ℝ) (c : ℝ) (m ca mb cb : ℕ)
    (hn : s'.nprim = s.nprim) (ha : s'.comp! ca = s.comp! ca)
    (hc : ∀ k < s.nprim, s'.coef! k m = c * s.coef! k m) (hneg : c < 0)
    (hov : 0 < contract s s na na ovk m ca m ca) :
    contract s' t na nb prim m ca mb cb * (1 / Real.sqrt (contract s' s' na na ovk m ca m ca))
      = -(contract s t na nb prim m ca mb cb
            * (1 / Real.sqrt (contract s s na na ovk m ca m ca))) := by
  rw [contract_self_scale s s' na ovk c m ca hn ha hc,
    contract_smul_left Real.exp Real.sqrt Real.pi s s' t na nb prim c m ca mb cb hn ha hc]
  exact scale_neg_flip c _ _ hov hneg

/-! ## The laws for `Shell ℝ` with the instance the property files use -/

theorem contract_column_real (s s' t : Shell ℝ) (na nb : Tab (Tab ℝ))
    (prim : ℕ → ℕ → Comp → Comp → ℝ) (m ca mb cb : ℕ)
    (he : s'.exps = s.exps) (hcart : s'.cart = s.cart) (hc : ∀ k, s'.coef! k 0 = s.coef! k m) :
    contract s' t na nb prim 0 ca mb cb = contract s t na nb prim m ca mb cb :=
  contract_column Real.exp Real.sqrt Real.pi s s' t na nb prim m ca mb cb he hcart hc

theorem contract_linear_real (s₁ s₂ s₃ t : Shell ℝ) (na nb : Tab (Tab ℝ))
    (prim : ℕ → ℕ → Comp → Comp → ℝ) (x y : ℝ) (m ca mb cb : ℕ)
    (h1 : s₁.nprim = s₃.nprim) (h2 : s₂.nprim = s₃.nprim)
    (ha1 : s₁.comp! ca = s₃.comp! ca) (ha2 : s₂.comp! ca = s₃.comp! ca)
    (hc : ∀ k < s₃.nprim, s₃.coef! k m = x * s₁.coef! k m + y * s₂.coef! k m) :
    contract s₃ t na nb prim m ca mb cb
      = x * contract s₁ t na nb prim m ca mb cb + y * contract s₂ t na nb prim m ca mb cb :=
  contract_linear Real.exp Real.sqrt Real.pi s₁ s₂ s₃ t na nb prim x y m ca mb cb h1 h2 ha1 ha2 hc

theorem contract_prim_perm_real (s s' t : Shell ℝ) (na na' nb : Tab (Tab ℝ))
    (prim prim' : ℕ → ℕ → Comp → Comp → ℝ) (σ : ℕ → ℕ) (m ca mb cb : ℕ)
    (hmap : ∀ k < s.nprim, σ k < s.nprim)
    (hinj : ∀ k < s.nprim, ∀ k' < s.nprim, σ k = σ k' → k = k')
    (hn : s'.nprim = s.nprim) (ha : s'.comp! ca = s.comp! ca)
    (hc : ∀ k < s.nprim, s'.coef! k m = s.coef! (σ k) m)
    (hna : ∀ k < s.nprim, na'.get2 k ca = na.get2 (σ k) ca)
    (hprim : ∀ k < s.nprim, ∀ kb < t.nprim, ∀ a b, prim' k kb a b = prim (σ k) kb a b) :
    contract s' t na' nb prim' m ca mb cb = contract s t na nb prim m ca mb cb :=
  contract_prim_perm Real.exp Real.sqrt Real.pi s s' t na na' nb prim prim' σ m ca mb cb
    hmap hinj hn ha hc hna hprim

theorem contract_split_real (s s' t : Shell ℝ) (na na' nb : Tab (Tab ℝ))
    (prim prim' : ℕ → ℕ → Comp → Comp → ℝ) (j m ca mb cb : ℕ)
    (hj : j < s.nprim) (hn : s'.nprim = s.nprim + 1) (ha : s'.comp! ca = s.comp! ca)
    (hc : ∀ k < s.nprim, k ≠ j → s'.coef! k m = s.coef! k m)
    (hcj : s'.coef! j m + s'.coef! s.nprim m = s.coef! j m)
    (hna : ∀ k < s.nprim, na'.get2 k ca = na.get2 k ca) (hnaj : na'.get2 s.nprim ca = na.get2 j ca)
    (hprim : ∀ k < s.nprim, ∀ kb < t.nprim, ∀ a b, prim' k kb a b = prim k kb a b)
    (hprimj : ∀ kb < t.nprim, ∀ a b, prim' s.nprim kb a b = prim j kb a b) :
    contract s' t na' nb prim' m ca mb cb = contract s t na nb prim m ca mb cb :=
  contract_split Real.exp Real.sqrt Real.pi s s' t na na' nb prim prim' j m ca mb cb
    hj hn ha hc hcj hna hnaj hprim hprimj


end GB
