import GBProofs.AngMom

/-!
# C12 — the angular-momentum blocks under rigid motions: a pseudo-vector

`angmomBlock s t` is the triple of real arrays `L_k = ∫ φ_a (r × ∇)_k φ_b` about the COORDINATE ORIGIN
(the arrays of the code are `-i` times them).  `(v, w) = crossIdx k = (k+1, k+2) mod 3`.

* `angmomBlock_eq_integral_E3` : block `k : Fin 3` as an integral over `E3` of `shellFnE s ma ca`
  times `r_v ∂_w − r_w ∂_v` (Fréchet differential) of `shellFnE t mb cb`;
* `angmomBlock_moved_linear` : an affine isometry `g` with `g 0 = 0` (rotation or reflection
  `R = linPart g` about the coordinate origin) transforms the anti-symmetric tensor `L_{vw}` with
  `R ⊗ R`, i.e. `L'_k = Σ_j cof R k j · (representation-transformed L_j)` with the cofactors of `matOf R`;
* `cof_eq_det_smul`, `detOf_eq_one_or_neg_one` : for a linear isometry `cof R k j = det R · R_kj`,
  `det R = ±1`  (`cofM_eq_adjugate` : `cofM` is the transposed `Matrix.adjugate`);
* `angmomBlock_moved_pseudovector` : `L'_k = det R · Σ_j R_kj (representation-transformed L_j)`;
* `angmomBlock_translate_E3` : the origin law of `AngMom.lean` for `k : Fin 3`, `Shell.moved`;
* `angmomBlock_moved`, `angmomBlock_moved_det` : every affine isometry `g = (translation by g 0) ∘ R`:
  `L' = (R ⊗ R) L + (g 0) × (R P)` with `P` the momentum blocks.

Hypotheses (as in `momentumBlock_moved`): positive exponents, full Cartesian component lists for both
shells (`FullCart`; this gives `hfs.each_le`, the "no exponent above `l`" hypothesis of
`angmomBlock_eq_integral`), component indices in range.
-/
open MeasureTheory Real Finset

namespace GB

/-! ## 1. The block as an integral over `E3` -/

/-- the cyclic successors `(v, w) = (k+1, k+2) mod 3` of the axis `k` (addition in `Fin 3`) -/
def crossIdx (k : Fin 3) : Fin 3 × Fin 3 := (k + 1, k + 2)

lemma crossIdx_zero : crossIdx 0 = (1, 2) := rfl
lemma crossIdx_one : crossIdx 1 = (2, 0) := rfl
lemma crossIdx_two : crossIdx 2 = (0, 1) := rfl

/-- component `k` of `(r × ∇) ψ` (about the coordinate origin) for a function on `E3` -/
noncomputable def rotDerivE (ψ : E3 → ℝ) (k : Fin 3) (r : E3) : ℝ :=
  r (crossIdx k).1 * fderiv ℝ ψ r (eAx (crossIdx k).2)
    - r (crossIdx k).2 * fderiv ℝ ψ r (eAx (crossIdx k).1)

lemma rotDerivFn_e3Equiv (t : Shell ℝ) (m c : ℕ) (k : Fin 3) (r : E3) :
    rotDerivFn t m c k (e3Equiv r) = rotDerivE (shellFnE t m c) k r := by
  unfold rotDerivFn rotDerivE crossIdx
  simp only [fderiv_shellFnE_ax, e3Equiv_apply]
  fin_cases k <;> rfl

lemma integrable_shellFnE_mul_rotDerivE (s t : Shell ℝ) (ma ca mb cb : ℕ) (k : Fin 3)
    (hs : ∀ k < s.nprim, 0 < s.exp! k) (ht : ∀ k < t.nprim, 0 < t.exp! k) :
    Integrable fun r : E3 => shellFnE s ma ca r * rotDerivE (shellFnE t mb cb) k r := by
  simp_rw [← rotDerivFn_e3Equiv, ← shellFn_e3Equiv]
  exact (e3Equiv_measurePreserving.integrable_comp_emb e3Equiv.measurableEmbedding).mpr
    (integrable_shell_rotDeriv s t ma ca mb cb k hs ht)

/-- **the angular-momentum block as an integral over `E3`**: `∫ φ_a (r_v ∂_w − r_w ∂_v) φ_b`,
`(v, w) = crossIdx k = (k+1, k+2) mod 3`, i.e. component `k` of `r × ∇` about the coordinate origin,
with the Fréchet differential of `shellFnE` applied to the standard unit vectors.  Hypotheses: those of
`angmomBlock_eq_integral`. -/
theorem angmomBlock_eq_integral_E3 (s t : Shell ℝ) (k : Fin 3) (ma ca mb cb : ℕ)
    (hs : ∀ k < s.nprim, 0 < s.exp! k) (ht : ∀ k < t.nprim, 0 < t.exp! k)
    (hc : (s.comp! ca).1 ≤ s.l ∧ (s.comp! ca).2.1 ≤ s.l ∧ (s.comp! ca).2.2 ≤ s.l) :
    ((angmomBlock s t).get k).get4 ma ca mb cb
      = ∫ r : E3, shellFnE s ma ca r
          * (r (crossIdx k).1 * fderiv ℝ (shellFnE t mb cb) r (eAx (crossIdx k).2)
              - r (crossIdx k).2 * fderiv ℝ (shellFnE t mb cb) r (eAx (crossIdx k).1)) := by
  rw [angmomBlock_eq_integral s t k ma ca mb cb k.isLt hs ht hc,
    ← e3Equiv_measurePreserving.integral_comp'
      (fun r => shellFn s ma ca r * rotDerivFn t mb cb k r)]
  simp only [shellFn_e3Equiv, rotDerivFn_e3Equiv]
  rfl

/-! ## 2. Cofactors -/

/-- the `(k, j)` cofactor of a `3 × 3` array: the `2 × 2` minor obtained by deleting row `k` and
column `j`, with its sign (cyclic indices: `M_{k+1,j+1} M_{k+2,j+2} − M_{k+1,j+2} M_{k+2,j+1}`) -/
def cofM (M : Fin 3 → Fin 3 → ℝ) (k j : Fin 3) : ℝ :=
  M (k + 1) (j + 1) * M (k + 2) (j + 2) - M (k + 1) (j + 2) * M (k + 2) (j + 1)

/-- the `(k, j)` cofactor of the matrix `matOf R` of a linear map of `E3` -/
noncomputable def cof (R : E3 →ₗ[ℝ] E3) (k j : Fin 3) : ℝ := cofM (matOf R) k j

/-- `(M x) × (M G) = cof(M) (x × G)`, componentwise -/
lemma cross_expand (M : Fin 3 → Fin 3 → ℝ) (x G : Fin 3 → ℝ) (k : Fin 3) :
    (∑ p, M (k + 1) p * x p) * (∑ q, M (k + 2) q * G q)
        - (∑ p, M (k + 2) p * x p) * (∑ q, M (k + 1) q * G q)
      = ∑ j : Fin 3, cofM M k j * (x (j + 1) * G (j + 2) - x (j + 2) * G (j + 1)) := by
  fin_cases k <;> simp [Fin.sum_univ_three, cofM] <;> ring

/-! ## 3. Rotations / reflections about the origin -/

/-- an affine isometry that fixes the origin is its linear part -/
lemma affineIso_apply_of_fix (g : E3 ≃ᵃⁱ[ℝ] E3) (h0 : g 0 = 0) (r : E3) (v : Fin 3) :
    g r v = ∑ p, matOf (linPart g) v p * r p := by
  rw [affineIso_apply g r, h0, add_zero, ← matOf_apply]
  rfl

/-- `(r × ∇)_k ψ` at the image point in terms of `(r × ∇)_j φ_l` at the original point -/
lemma rotDerivE_moved {κ : Type*} (g : E3 ≃ᵃⁱ[ℝ] E3) (h0 : g 0 = 0) (S : Finset κ) (ψ : E3 → ℝ)
    (φ : κ → E3 → ℝ) (D : κ → ℝ) (h : ∀ r, ψ (g r) = ∑ j ∈ S, D j * φ j r)
    (hψ : Differentiable ℝ ψ) (hφ : ∀ j, Differentiable ℝ (φ j)) (r : E3) (k : Fin 3) :
    rotDerivE ψ k (g r)
      = ∑ j : Fin 3, cof (linPart g) k j * ∑ l ∈ S, D l * rotDerivE (φ l) j r := by
  unfold rotDerivE crossIdx cof
  simp only [fderiv_moved_ax g S ψ φ D h hψ hφ r, affineIso_apply_of_fix g h0 r]
  rw [cross_expand]
  refine Finset.sum_congr rfl fun j _ => ?_
  congr 1
  rw [Finset.mul_sum, Finset.mul_sum, ← Finset.sum_sub_distrib]
  refine Finset.sum_congr rfl fun l _ => ?_
  ring

/-- **C12, angular momentum under a rotation / reflection about the coordinate origin.**  For an affine
isometry `g` with `g 0 = 0` (linear part `R`), moving both shells by `g`: the anti-symmetric tensor
`L_{vw} = ∫ φ_a (r_v ∂_w − r_w ∂_v) φ_b` transforms with `R ⊗ R`, i.e. in terms of the three blocks
`L'_k[ma ca mb cb] = Σ_j cof(R)_kj Σ_{ca', cb'} D^s_{ca ca'} D^t_{cb cb'} L_j[ma ca' mb cb']`
with the cofactors of `matOf R` and the representation matrices of the two shells.  (The hypothesis
`g 0 = 0` is forced: the blocks are about the coordinate origin; see `angmomBlock_moved` for the
general case.) -/
theorem angmomBlock_moved_linear (g : E3 ≃ᵃⁱ[ℝ] E3) (h0 : g 0 = 0) (s t : Shell ℝ) (k : Fin 3)
    (ma ca mb cb : ℕ)
    (hs : ∀ k, k < s.nprim → 0 < s.exp! k) (ht : ∀ k, k < t.nprim → 0 < t.exp! k)
    (hfs : FullCart s.l s.cart) (hft : FullCart t.l t.cart)
    (hca : ca < s.ncart) (hcb : cb < t.ncart) :
    ((angmomBlock (s.moved g) (t.moved g)).get k).get4 ma ca mb cb
      = ∑ j : Fin 3, cof (linPart g) k j *
          ∑ ca' ∈ range s.ncart, ∑ cb' ∈ range t.ncart,
            repMat (linPart g) s.cart ca ca' * repMat (linPart g) t.cart cb cb'
              * ((angmomBlock s t).get j).get4 ma ca' mb cb' := by
  rw [angmomBlock_eq_integral_E3 (s.moved g) (t.moved g) k ma ca mb cb hs ht (hfs.each_le hca)]
  have h := lift_core (affineIso_measurePreserving g) (affineIso_measurableEmbedding g)
    ((univ : Finset (Fin 3)) ×ˢ (range s.ncart ×ˢ range t.ncart))
    (fun r => shellFnE (s.moved g) ma ca r * rotDerivE (shellFnE (t.moved g) mb cb) k r)
    (fun x r => shellFnE s ma x.2.1 r * rotDerivE (shellFnE t mb x.2.2) x.1 r)
    (fun x => cof (linPart g) k x.1
      * (repMat (linPart g) s.cart ca x.2.1 * repMat (linPart g) t.cart cb x.2.2))
    (fun r => by
      rw [shellFnE_moved g s hfs ma ca hca,
        rotDerivE_moved g h0 (range t.ncart) (shellFnE (t.moved g) mb cb)
          (fun l => shellFnE t mb l)
          (repMat (linPart g) t.cart cb) (shellFnE_moved g t hft mb cb hcb)
          (differentiable_shellFnE _ _ _) (fun l => differentiable_shellFnE _ _ _) r k,
        Finset.sum_product, Finset.mul_sum]
      refine Finset.sum_congr rfl fun j _ => ?_
      rw [Finset.sum_product, mul_left_comm, Finset.sum_mul_sum, Finset.mul_sum]
      refine Finset.sum_congr rfl fun a _ => ?_
      rw [Finset.mul_sum]
      refine Finset.sum_congr rfl fun l _ => ?_
      ring)
    (fun x _ => integrable_shellFnE_mul_rotDerivE s t ma x.2.1 mb x.2.2 x.1 hs ht)
  have h' : ∀ (s' t' : Shell ℝ) (k' : Fin 3) (a b : ℕ),
      (∫ r : E3, shellFnE s' ma a r
          * (r (crossIdx k').1 * fderiv ℝ (shellFnE t' mb b) r (eAx (crossIdx k').2)
              - r (crossIdx k').2 * fderiv ℝ (shellFnE t' mb b) r (eAx (crossIdx k').1)))
        = ∫ r : E3, shellFnE s' ma a r * rotDerivE (shellFnE t' mb b) k' r := fun _ _ _ _ _ => rfl
  rw [h', h, Finset.sum_product]
  refine Finset.sum_congr rfl fun j _ => ?_
  rw [Finset.sum_product, Finset.mul_sum]
  refine Finset.sum_congr rfl fun a ha => ?_
  rw [Finset.mul_sum]
  refine Finset.sum_congr rfl fun l _ => ?_
  rw [angmomBlock_eq_integral_E3 s t j ma a mb l hs ht (hfs.each_le (Finset.mem_range.mp ha)), h']
  ring

/-! ## 4. Orthogonal matrices: cofactor = determinant × entry -/
section Orth
open Matrix InnerProductSpace

/-- the matrix of `R` in the standard basis, as a `Matrix` -/
noncomputable def matrixOf (R : E3 →ₗ[ℝ] E3) : Matrix (Fin 3) (Fin 3) ℝ := Matrix.of (matOf R)

/-- the determinant of the matrix of `R` -/
noncomputable def detOf (R : E3 →ₗ[ℝ] E3) : ℝ := (matrixOf R).det

/-- the columns of the matrix of a linear isometry are orthonormal -/
lemma matrixOf_transpose_mul_self (R : E3 ≃ₗᵢ[ℝ] E3) :
    (matrixOf R.toLinearEquiv.toLinearMap)ᵀ * matrixOf R.toLinearEquiv.toLinearMap = 1 := by
  ext j k
  have h : ⟪R (EuclideanSpace.single j (1:ℝ)), R (EuclideanSpace.single k (1:ℝ))⟫_ℝ
      = ⟪EuclideanSpace.single j (1:ℝ), EuclideanSpace.single k (1:ℝ)⟫_ℝ := R.inner_map_map _ _
  rw [PiLp.inner_apply, EuclideanSpace.inner_single_left] at h
  simp only [Matrix.mul_apply, Matrix.transpose_apply, matrixOf, Matrix.of_apply, matOf,
    Matrix.one_apply]
  simp only [LinearEquiv.coe_coe, LinearIsometryEquiv.coe_toLinearEquiv]
  convert h using 1
  · refine Finset.sum_congr rfl fun i _ => ?_
    simp [mul_comm]
  · simp

/-- `cofM` is the cofactor matrix: the transpose of Mathlib's `Matrix.adjugate` -/
lemma cofM_eq_adjugate (A : Matrix (Fin 3) (Fin 3) ℝ) (k j : Fin 3) :
    cofM A k j = A.adjugate j k := by
  rw [Matrix.adjugate_fin_three]
  fin_cases k <;> fin_cases j <;> simp [cofM] <;> ring

/-- the determinant of the matrix of a linear isometry is `±1` -/
theorem detOf_eq_one_or_neg_one (R : E3 ≃ₗᵢ[ℝ] E3) :
    detOf R.toLinearEquiv.toLinearMap = 1 ∨ detOf R.toLinearEquiv.toLinearMap = -1 := by
  have h := congrArg Matrix.det (matrixOf_transpose_mul_self R)
  rw [Matrix.det_mul, Matrix.det_transpose, Matrix.det_one] at h
  unfold detOf
  exact mul_self_eq_one_iff.mp h

/-- **for an orthogonal matrix the cofactor matrix is `det ·` the matrix itself** -/
theorem cof_eq_det_smul (R : E3 ≃ₗᵢ[ℝ] E3) (k j : Fin 3) :
    cof R.toLinearEquiv.toLinearMap k j
      = detOf R.toLinearEquiv.toLinearMap * matOf R.toLinearEquiv.toLinearMap k j := by
  set A := matrixOf R.toLinearEquiv.toLinearMap with hA
  have h1 : Aᵀ * A = 1 := matrixOf_transpose_mul_self R
  have h2 : A * Aᵀ = 1 := mul_eq_one_comm.mp h1
  have h3 : A.adjugate = A.det • Aᵀ := by
    calc A.adjugate = A.adjugate * (A * Aᵀ) := by rw [h2, mul_one]
      _ = (A.adjugate * A) * Aᵀ := by rw [Matrix.mul_assoc]
      _ = A.det • Aᵀ := by rw [Matrix.adjugate_mul, Matrix.smul_mul, Matrix.one_mul]
  have h4 : cof R.toLinearEquiv.toLinearMap k j = A.adjugate j k := cofM_eq_adjugate A k j
  rw [h4, h3]
  rfl

end Orth

/-! ## 5. The pseudo-vector law -/

/-- **C12: the angular momentum is a pseudo-vector.**  For an affine isometry `g` with `g 0 = 0` and
linear part `R`: `L'_k = det(R) Σ_j R_kj (representation-transformed L_j)` — proper rotations
(`det R = 1`) rotate `L` like a vector, reflections (`det R = −1`) give an extra sign
(`detOf_eq_one_or_neg_one`). -/
theorem angmomBlock_moved_pseudovector (g : E3 ≃ᵃⁱ[ℝ] E3) (h0 : g 0 = 0) (s t : Shell ℝ)
    (k : Fin 3) (ma ca mb cb : ℕ)
    (hs : ∀ k, k < s.nprim → 0 < s.exp! k) (ht : ∀ k, k < t.nprim → 0 < t.exp! k)
    (hfs : FullCart s.l s.cart) (hft : FullCart t.l t.cart)
    (hca : ca < s.ncart) (hcb : cb < t.ncart) :
    ((angmomBlock (s.moved g) (t.moved g)).get k).get4 ma ca mb cb
      = detOf (linPart g) * ∑ j : Fin 3, matOf (linPart g) k j *
          ∑ ca' ∈ range s.ncart, ∑ cb' ∈ range t.ncart,
            repMat (linPart g) s.cart ca ca' * repMat (linPart g) t.cart cb cb'
              * ((angmomBlock s t).get j).get4 ma ca' mb cb' := by
  rw [angmomBlock_moved_linear g h0 s t k ma ca mb cb hs ht hfs hft hca hcb, Finset.mul_sum]
  refine Finset.sum_congr rfl fun j _ => ?_
  have h := cof_eq_det_smul g.linearIsometryEquiv k j
  unfold linPart
  rw [h, mul_assoc]

/-! ## 6. General rigid motions -/

/-- the vector `v : E3` as a function `ℕ → ℝ` (zero beyond the third axis) -/
noncomputable def vecOf (v : E3) : ℕ → ℝ := fun i => if h : i < 3 then v ⟨i, h⟩ else 0

lemma moved_translation_eq_translate (s : Shell ℝ) (v : E3) :
    s.moved (translation v) = s.translate (vecOf v) := by
  unfold Shell.moved Shell.translate
  congr 1
  funext i
  unfold movedPt vecOf
  by_cases h : i < 3
  · simp only [h, dif_pos, translation_apply, PiLp.add_apply, toE3_apply]
    ring
  · simp only [h, dif_neg, not_false_eq_true, add_zero]

lemma moved_rigid_split (s : Shell ℝ) (R : E3 ≃ₗᵢ[ℝ] E3) (v : E3) :
    s.moved (rigid R v) = (s.moved (rigid R 0)).moved (translation v) := by
  unfold Shell.moved
  congr 1
  funext i
  unfold movedPt
  by_cases h : i < 3
  · simp only [h, dif_pos]
    have e : toE3 (fun i => if h : i < 3 then (rigid R 0) (toE3 s.ctr) ⟨i, h⟩ else s.ctr i)
        = (rigid R 0) (toE3 s.ctr) := toE3_movedPt (rigid R 0) s.ctr
    rw [e]
    simp only [rigid_apply, translation_apply, zero_add]
  · simp only [h, dif_neg, not_false_eq_true]

/-- the origin law for `k : Fin 3` and a translation vector in `E3` -/
theorem angmomBlock_translate_E3 (s t : Shell ℝ) (v : E3) (k : Fin 3) (ma ca mb cb : ℕ)
    (hs : ∀ k < s.nprim, 0 < s.exp! k) (ht : ∀ k < t.nprim, 0 < t.exp! k)
    (hc : (s.comp! ca).1 ≤ s.l ∧ (s.comp! ca).2.1 ≤ s.l ∧ (s.comp! ca).2.2 ≤ s.l) :
    ((angmomBlock (s.moved (translation v)) (t.moved (translation v))).get k).get4 ma ca mb cb
      = ((angmomBlock s t).get k).get4 ma ca mb cb
        + (v (k + 1) * ((momentumBlock s t).get (k + 2 : Fin 3)).get4 ma ca mb cb
            - v (k + 2) * ((momentumBlock s t).get (k + 1 : Fin 3)).get4 ma ca mb cb) := by
  rw [moved_translation_eq_translate, moved_translation_eq_translate]
  have h := angmomBlock_translate s t (vecOf v) k ma ca mb cb k.isLt hs ht hc
  rw [h]
  fin_cases k <;> rfl

/-- **C12, angular momentum under every rigid motion** `g r = g 0 + R r`:
`L'_k = Σ_j cof(R)_kj L^D_j + (g 0)_v (R P^D)_w − (g 0)_w (R P^D)_v`, `(v, w) = (k+1, k+2) mod 3`, where
`X^D` is `X` transformed by the representation matrices of the two shells on the component indices and
`P` are the momentum blocks: the rotated angular momentum plus `(g 0) × (rotated momentum)`. -/
theorem angmomBlock_moved (g : E3 ≃ᵃⁱ[ℝ] E3) (s t : Shell ℝ) (k : Fin 3) (ma ca mb cb : ℕ)
    (hs : ∀ k, k < s.nprim → 0 < s.exp! k) (ht : ∀ k, k < t.nprim → 0 < t.exp! k)
    (hfs : FullCart s.l s.cart) (hft : FullCart t.l t.cart)
    (hca : ca < s.ncart) (hcb : cb < t.ncart) :
    ((angmomBlock (s.moved g) (t.moved g)).get k).get4 ma ca mb cb
      = ∑ j : Fin 3, cof (linPart g) k j *
          ∑ ca' ∈ range s.ncart, ∑ cb' ∈ range t.ncart,
            repMat (linPart g) s.cart ca ca' * repMat (linPart g) t.cart cb cb'
              * ((angmomBlock s t).get j).get4 ma ca' mb cb'
        + (g 0 (k + 1) * ∑ j : Fin 3, matOf (linPart g) (k + 2) j *
              ∑ ca' ∈ range s.ncart, ∑ cb' ∈ range t.ncart,
                repMat (linPart g) s.cart ca ca' * repMat (linPart g) t.cart cb cb'
                  * ((momentumBlock s t).get j).get4 ma ca' mb cb'
          - g 0 (k + 2) * ∑ j : Fin 3, matOf (linPart g) (k + 1) j *
              ∑ ca' ∈ range s.ncart, ∑ cb' ∈ range t.ncart,
                repMat (linPart g) s.cart ca ca' * repMat (linPart g) t.cart cb cb'
                  * ((momentumBlock s t).get j).get4 ma ca' mb cb') := by
  set R := g.linearIsometryEquiv with hR
  have hg : g = rigid R (g 0) := affineIso_eq_rigid g
  have hl : linPart (rigid R 0) = linPart g := by
    unfold linPart
    rw [rigid_linear]
  have h00 : (rigid R 0) 0 = 0 := by simp
  have e : ∀ u : Shell ℝ, u.moved g = (u.moved (rigid R 0)).moved (translation (g 0)) := by
    intro u
    conv_lhs => rw [hg]
    exact moved_rigid_split u R (g 0)
  rw [e s, e t,
    angmomBlock_translate_E3 (s.moved (rigid R 0)) (t.moved (rigid R 0)) (g 0) k ma ca mb cb hs ht
      (hfs.each_le hca),
    angmomBlock_moved_linear (rigid R 0) h00 s t k ma ca mb cb hs ht hfs hft hca hcb,
    momentumBlock_moved (rigid R 0) s t (k + 2) ma ca mb cb hs ht hfs hft hca hcb,
    momentumBlock_moved (rigid R 0) s t (k + 1) ma ca mb cb hs ht hfs hft hca hcb, hl]

/-- the same with `cof R = det R · R` -/
theorem angmomBlock_moved_det (g : E3 ≃ᵃⁱ[ℝ] E3) (s t : Shell ℝ) (k : Fin 3) (ma ca mb cb : ℕ)
    (hs : ∀ k, k < s.nprim → 0 < s.exp! k) (ht : ∀ k, k < t.nprim → 0 < t.exp! k)
    (hfs : FullCart s.l s.cart) (hft : FullCart t.l t.cart)
    (hca : ca < s.ncart) (hcb : cb < t.ncart) :
    ((angmomBlock (s.moved g) (t.moved g)).get k).get4 ma ca mb cb
      = detOf (linPart g) * ∑ j : Fin 3, matOf (linPart g) k j *
          ∑ ca' ∈ range s.ncart, ∑ cb' ∈ range t.ncart,
            repMat (linPart g) s.cart ca ca' * repMat (linPart g) t.cart cb cb'
              * ((angmomBlock s t).get j).get4 ma ca' mb cb'
        + (g 0 (k + 1) * ∑ j : Fin 3, matOf (linPart g) (k + 2) j *
              ∑ ca' ∈ range s.ncart, ∑ cb' ∈ range t.ncart,
                repMat (linPart g) s.cart ca ca' * repMat (linPart g) t.cart cb cb'
                  * ((momentumBlock s t).get j).get4 ma ca' mb cb'
          - g 0 (k + 2) * ∑ j : Fin 3, matOf (linPart g) (k + 1) j *
              ∑ ca' ∈ range s.ncart, ∑ cb' ∈ range t.ncart,
                repMat (linPart g) s.cart ca ca' * repMat (linPart g) t.cart cb cb'
                  * ((momentumBlock s t).get j).get4 ma ca' mb cb') := by
  rw [angmomBlock_moved g s t k ma ca mb cb hs ht hfs hft hca hcb]
  congr 1
  rw [Finset.mul_sum]
  refine Finset.sum_congr rfl fun j _ => ?_
  have h := cof_eq_det_smul g.linearIsometryEquiv k j
  unfold linPart
  rw [h, mul_assoc]

end GB
