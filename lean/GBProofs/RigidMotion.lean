import GBProofs.EriIntegral
import GBProofs.EvalDeriv
import Mathlib.Analysis.InnerProductSpace.PiL2
import Mathlib.MeasureTheory.Measure.Haar.InnerProductSpace
import Mathlib.RingTheory.MvPolynomial.Homogeneous

/-!
# Rigid motions (C12): translations, proper and improper rotations

`g : E3 ≃ᵃⁱ[ℝ] E3` is an arbitrary affine isometry of Euclidean 3-space (every translation, proper
or improper rotation and their compositions; `rigid R t` builds `r ↦ t + R r`).

* §1 lifting: `g` and `(g, g)` preserve the Lebesgue measure; if `ψ_i ∘ g = Σ_j D_ij φ_j` then the
  overlap / point-charge (charge moved to `g C`) / Coulomb integrals of the `ψ` are the multilinear
  `D`-combinations of those of the `φ` (`lift_overlap`, `lift_pointCharge`, `lift_coulomb`; primed
  versions: a different family and matrix in every slot).
* §2 covariance of `shellFnE`: `Shell.moved`; translations (`shellFnE_translate`); every rigid
  motion for shells with a full component list (`shellFnE_moved`, `exists_repMat`) with the
  explicit representation matrix `repMat` (depends on the linear part and the component list only);
  `repMat_s`, `repMat_p`; `fullCart_defaultCart`.
* §3 blocks of the model: `pointChargeBlock_moved`, `eriBlock_moved`, `overlapBlock_moved`,
  `pointChargeBlock_translate`, `eriBlock_translate`.
-/
open MeasureTheory Real Finset

namespace GB

/-! ## 1. Lifting theorem -/
section Lifting

/-- every affine isometry of `E3` is `r ↦ R r + g 0` with `R` its linear part -/
lemma affineIso_apply (g : E3 ≃ᵃⁱ[ℝ] E3) (r : E3) :
    g r = g.linearIsometryEquiv r + g 0 := by
  have h := g.map_vsub r 0
  simp only [vsub_eq_sub, sub_zero] at h
  rw [h]; abel

/-- the difference of two images is the linear part applied to the difference -/
lemma affineIso_sub (g : E3 ≃ᵃⁱ[ℝ] E3) (r A : E3) :
    g r - g A = g.linearIsometryEquiv (r - A) := by
  have h := g.map_vsub r A
  simp only [vsub_eq_sub] at h
  exact h.symm

lemma affineIso_norm_sub (g : E3 ≃ᵃⁱ[ℝ] E3) (r A : E3) : ‖g r - g A‖ = ‖r - A‖ := by
  rw [affineIso_sub, LinearIsometryEquiv.norm_map]

/-- **Every affine isometry of `E3` (translation, proper or improper rotation, and their
compositions) preserves the Lebesgue measure.** -/
theorem affineIso_measurePreserving (g : E3 ≃ᵃⁱ[ℝ] E3) :
    MeasurePreserving (g : E3 → E3) volume volume := by
  have h1 : MeasurePreserving (g.linearIsometryEquiv : E3 → E3) volume volume :=
    g.linearIsometryEquiv.measurePreserving
  have h2 : MeasurePreserving (fun x : E3 => x + g 0) volume volume :=
    measurePreserving_add_right volume (g 0)
  have h := h2.comp h1
  have e : (fun x : E3 => x + g 0) ∘ (g.linearIsometryEquiv : E3 → E3) = (g : E3 → E3) := by
    funext r
    simp only [Function.comp_apply]
    exact (affineIso_apply g r).symm
  rwa [e] at h

lemma affineIso_measurableEmbedding (g : E3 ≃ᵃⁱ[ℝ] E3) : MeasurableEmbedding (g : E3 → E3) :=
  g.toHomeomorph.measurableEmbedding

/-- the pair map `(r₁, r₂) ↦ (g r₁, g r₂)` preserves the measure of `E3 × E3` -/
theorem affineIso_prod_measurePreserving (g : E3 ≃ᵃⁱ[ℝ] E3) :
    MeasurePreserving (Prod.map g g : E3 × E3 → E3 × E3) volume volume :=
  (affineIso_measurePreserving g).prod (affineIso_measurePreserving g)

lemma affineIso_prod_measurableEmbedding (g : E3 ≃ᵃⁱ[ℝ] E3) :
    MeasurableEmbedding (Prod.map g g : E3 × E3 → E3 × E3) :=
  (g.toHomeomorph.prodCongr g.toHomeomorph).measurableEmbedding

/-- core: if `Ψ ∘ T` is a finite linear combination of integrable `Φ_j` and `T` preserves the
measure, the integral of `Ψ` is the same combination of the integrals -/
theorem lift_core {α : Type*} [MeasurableSpace α] {μ : Measure α} {T : α → α}
    (hT : MeasurePreserving T μ μ) (hTe : MeasurableEmbedding T) {κ : Type*} (S : Finset κ)
    (Ψ : α → ℝ) (Φ : κ → α → ℝ) (M : κ → ℝ) (h : ∀ x, Ψ (T x) = ∑ j ∈ S, M j * Φ j x)
    (hint : ∀ j ∈ S, Integrable (Φ j) μ) :
    ∫ x, Ψ x ∂μ = ∑ j ∈ S, M j * ∫ x, Φ j x ∂μ := by
  rw [← hT.integral_comp hTe Ψ]
  simp_rw [h]
  rw [integral_finsetSum _ fun j hj => (hint j hj).const_mul (M j)]
  exact Finset.sum_congr rfl fun j _ => integral_const_mul _ _

/-- **Lifting, one-electron integrals with a weight.**  If `ψ₁ ∘ g`, `ψ₂ ∘ g` are linear combinations
of the `φ₁ j`, `φ₂ l` and the weight is carried along (`w' ∘ g = w`), the integral
`∫ ψ₁ ψ₂ w'` is the bilinear combination of the integrals `∫ φ₁ j φ₂ l w`. -/
theorem lift_pair_weight {ι₁ ι₂ : Type*} (g : E3 ≃ᵃⁱ[ℝ] E3) (S₁ : Finset ι₁) (S₂ : Finset ι₂)
    (ψ₁ ψ₂ : E3 → ℝ) (φ₁ : ι₁ → E3 → ℝ) (φ₂ : ι₂ → E3 → ℝ) (D₁ : ι₁ → ℝ) (D₂ : ι₂ → ℝ)
    (w w' : E3 → ℝ)
    (h₁ : ∀ r, ψ₁ (g r) = ∑ j ∈ S₁, D₁ j * φ₁ j r) (h₂ : ∀ r, ψ₂ (g r) = ∑ l ∈ S₂, D₂ l * φ₂ l r)
    (hw : ∀ r, w' (g r) = w r)
    (hint : ∀ j ∈ S₁, ∀ l ∈ S₂, Integrable fun r => φ₁ j r * φ₂ l r * w r) :
    ∫ r, ψ₁ r * ψ₂ r * w' r
      = ∑ j ∈ S₁, ∑ l ∈ S₂, D₁ j * D₂ l * ∫ r, φ₁ j r * φ₂ l r * w r := by
  have h := lift_core (affineIso_measurePreserving g) (affineIso_measurableEmbedding g)
    (S₁ ×ˢ S₂) (fun r => ψ₁ r * ψ₂ r * w' r)
    (fun x r => φ₁ x.1 r * φ₂ x.2 r * w r) (fun x => D₁ x.1 * D₂ x.2)
    (fun r => by
      simp only [h₁, h₂, hw]
      rw [Finset.sum_product, Finset.sum_mul_sum, Finset.sum_mul]
      refine Finset.sum_congr rfl fun j _ => ?_
      rw [Finset.sum_mul]
      refine Finset.sum_congr rfl fun l _ => ?_
      ring)
    (fun x hx => hint x.1 (Finset.mem_product.mp hx).1 x.2 (Finset.mem_product.mp hx).2)
  rw [h, Finset.sum_product]

/-- **Lifting (a): overlap.** -/
theorem lift_overlap' {ι₁ ι₂ : Type*} (g : E3 ≃ᵃⁱ[ℝ] E3) (S₁ : Finset ι₁) (S₂ : Finset ι₂)
    (ψ₁ ψ₂ : E3 → ℝ) (φ₁ : ι₁ → E3 → ℝ) (φ₂ : ι₂ → E3 → ℝ) (D₁ : ι₁ → ℝ) (D₂ : ι₂ → ℝ)
    (h₁ : ∀ r, ψ₁ (g r) = ∑ j ∈ S₁, D₁ j * φ₁ j r) (h₂ : ∀ r, ψ₂ (g r) = ∑ l ∈ S₂, D₂ l * φ₂ l r)
    (hint : ∀ j ∈ S₁, ∀ l ∈ S₂, Integrable fun r => φ₁ j r * φ₂ l r) :
    ∫ r, ψ₁ r * ψ₂ r = ∑ j ∈ S₁, ∑ l ∈ S₂, D₁ j * D₂ l * ∫ r, φ₁ j r * φ₂ l r := by
  have h := lift_pair_weight g S₁ S₂ ψ₁ ψ₂ φ₁ φ₂ D₁ D₂ (fun _ => 1) (fun _ => 1) h₁ h₂
    (fun _ => rfl) (by simpa using hint)
  simpa using h

/-- **Lifting (b): point charge** at `C`, moved to `g C`. -/
theorem lift_pointCharge' {ι₁ ι₂ : Type*} (g : E3 ≃ᵃⁱ[ℝ] E3) (S₁ : Finset ι₁) (S₂ : Finset ι₂)
    (ψ₁ ψ₂ : E3 → ℝ) (φ₁ : ι₁ → E3 → ℝ) (φ₂ : ι₂ → E3 → ℝ) (D₁ : ι₁ → ℝ) (D₂ : ι₂ → ℝ) (Cc : E3)
    (h₁ : ∀ r, ψ₁ (g r) = ∑ j ∈ S₁, D₁ j * φ₁ j r) (h₂ : ∀ r, ψ₂ (g r) = ∑ l ∈ S₂, D₂ l * φ₂ l r)
    (hint : ∀ j ∈ S₁, ∀ l ∈ S₂, Integrable fun r => φ₁ j r * φ₂ l r / ‖r - Cc‖) :
    ∫ r, ψ₁ r * ψ₂ r / ‖r - g Cc‖
      = ∑ j ∈ S₁, ∑ l ∈ S₂, D₁ j * D₂ l * ∫ r, φ₁ j r * φ₂ l r / ‖r - Cc‖ := by
  simp only [div_eq_mul_inv] at hint ⊢
  exact lift_pair_weight g S₁ S₂ ψ₁ ψ₂ φ₁ φ₂ D₁ D₂ (fun r => ‖r - Cc‖⁻¹) (fun r => ‖r - g Cc‖⁻¹)
    h₁ h₂ (fun r => by simp only [affineIso_norm_sub]) hint

lemma four_sum_expand {ι₁ ι₂ ι₃ ι₄ : Type*} (S₁ : Finset ι₁) (S₂ : Finset ι₂) (S₃ : Finset ι₃)
    (S₄ : Finset ι₄) (a : ι₁ → ℝ) (b : ι₂ → ℝ) (c : ι₃ → ℝ) (d : ι₄ → ℝ) (n : ℝ) :
    (∑ j ∈ S₁, a j) * (∑ l ∈ S₂, b l) * ((∑ p ∈ S₃, c p) * (∑ q ∈ S₄, d q)) / n
      = ∑ j ∈ S₁, ∑ l ∈ S₂, ∑ p ∈ S₃, ∑ q ∈ S₄, a j * b l * (c p * d q) / n := by
  rw [Finset.sum_mul_sum, Finset.sum_mul_sum, Finset.sum_mul, Finset.sum_div]
  refine Finset.sum_congr rfl fun j _ => ?_
  rw [Finset.sum_mul, Finset.sum_div]
  refine Finset.sum_congr rfl fun l _ => ?_
  rw [Finset.mul_sum, Finset.sum_div]
  refine Finset.sum_congr rfl fun p _ => ?_
  rw [Finset.mul_sum, Finset.sum_div]

/-- **Lifting (c): Coulomb (electron-repulsion) integrals** over `E3 × E3`. -/
theorem lift_coulomb' {ι₁ ι₂ ι₃ ι₄ : Type*} (g : E3 ≃ᵃⁱ[ℝ] E3)
    (S₁ : Finset ι₁) (S₂ : Finset ι₂) (S₃ : Finset ι₃) (S₄ : Finset ι₄)
    (ψ₁ ψ₂ ψ₃ ψ₄ : E3 → ℝ) (φ₁ : ι₁ → E3 → ℝ) (φ₂ : ι₂ → E3 → ℝ) (φ₃ : ι₃ → E3 → ℝ)
    (φ₄ : ι₄ → E3 → ℝ) (D₁ : ι₁ → ℝ) (D₂ : ι₂ → ℝ) (D₃ : ι₃ → ℝ) (D₄ : ι₄ → ℝ)
    (h₁ : ∀ r, ψ₁ (g r) = ∑ j ∈ S₁, D₁ j * φ₁ j r) (h₂ : ∀ r, ψ₂ (g r) = ∑ l ∈ S₂, D₂ l * φ₂ l r)
    (h₃ : ∀ r, ψ₃ (g r) = ∑ p ∈ S₃, D₃ p * φ₃ p r) (h₄ : ∀ r, ψ₄ (g r) = ∑ q ∈ S₄, D₄ q * φ₄ q r)
    (hint : ∀ j ∈ S₁, ∀ l ∈ S₂, ∀ p ∈ S₃, ∀ q ∈ S₄, Integrable fun z : E3 × E3 =>
      φ₁ j z.1 * φ₂ l z.1 * (φ₃ p z.2 * φ₄ q z.2) / ‖z.1 - z.2‖) :
    ∫ z : E3 × E3, ψ₁ z.1 * ψ₂ z.1 * (ψ₃ z.2 * ψ₄ z.2) / ‖z.1 - z.2‖
      = ∑ j ∈ S₁, ∑ l ∈ S₂, ∑ p ∈ S₃, ∑ q ∈ S₄, D₁ j * D₂ l * D₃ p * D₄ q
          * ∫ z : E3 × E3, φ₁ j z.1 * φ₂ l z.1 * (φ₃ p z.2 * φ₄ q z.2) / ‖z.1 - z.2‖ := by
  have h := lift_core (affineIso_prod_measurePreserving g) (affineIso_prod_measurableEmbedding g)
    (S₁ ×ˢ S₂ ×ˢ S₃ ×ˢ S₄)
    (fun z : E3 × E3 => ψ₁ z.1 * ψ₂ z.1 * (ψ₃ z.2 * ψ₄ z.2) / ‖z.1 - z.2‖)
    (fun x z => φ₁ x.1 z.1 * φ₂ x.2.1 z.1 * (φ₃ x.2.2.1 z.2 * φ₄ x.2.2.2 z.2) / ‖z.1 - z.2‖)
    (fun x => D₁ x.1 * D₂ x.2.1 * D₃ x.2.2.1 * D₄ x.2.2.2)
    (fun z => by
      simp only [Prod.map_fst, Prod.map_snd, h₁, h₂, h₃, h₄, affineIso_norm_sub]
      rw [four_sum_expand, Finset.sum_product]
      refine Finset.sum_congr rfl fun j _ => ?_
      rw [Finset.sum_product]
      refine Finset.sum_congr rfl fun l _ => ?_
      rw [Finset.sum_product]
      refine Finset.sum_congr rfl fun p _ => Finset.sum_congr rfl fun q _ => ?_
      ring)
    (fun x hx => by
      simp only [Finset.mem_product] at hx
      exact hint x.1 hx.1 x.2.1 hx.2.1 x.2.2.1 hx.2.2.1 x.2.2.2 hx.2.2.2)
  rw [h, Finset.sum_product]
  refine Finset.sum_congr rfl fun j _ => ?_
  rw [Finset.sum_product]
  refine Finset.sum_congr rfl fun l _ => ?_
  rw [Finset.sum_product]

/-! ### The single-family forms (one family `φ`, `ψ`, one matrix `D`) -/

variable {ι : Type*} [Fintype ι]

/-- **(a)** `∫ ψ_i ψ_k = Σ_{jl} D_ij D_kl ∫ φ_j φ_l` -/
theorem lift_overlap (g : E3 ≃ᵃⁱ[ℝ] E3) (φ ψ : ι → E3 → ℝ) (D : ι → ι → ℝ)
    (h : ∀ i r, ψ i (g r) = ∑ j, D i j * φ j r)
    (hint : ∀ j l, Integrable fun r => φ j r * φ l r) (i k : ι) :
    ∫ r, ψ i r * ψ k r = ∑ j, ∑ l, D i j * D k l * ∫ r, φ j r * φ l r :=
  lift_overlap' g univ univ (ψ i) (ψ k) φ φ (D i) (D k) (h i) (h k) fun j _ l _ => hint j l

/-- **(b)** `∫ ψ_i ψ_k / |r - g C| = Σ_{jl} D_ij D_kl ∫ φ_j φ_l / |r - C|` -/
theorem lift_pointCharge (g : E3 ≃ᵃⁱ[ℝ] E3) (φ ψ : ι → E3 → ℝ) (D : ι → ι → ℝ) (Cc : E3)
    (h : ∀ i r, ψ i (g r) = ∑ j, D i j * φ j r)
    (hint : ∀ j l, Integrable fun r => φ j r * φ l r / ‖r - Cc‖) (i k : ι) :
    ∫ r, ψ i r * ψ k r / ‖r - g Cc‖ = ∑ j, ∑ l, D i j * D k l * ∫ r, φ j r * φ l r / ‖r - Cc‖ :=
  lift_pointCharge' g univ univ (ψ i) (ψ k) φ φ (D i) (D k) Cc (h i) (h k) fun j _ l _ => hint j l

/-- **(c)** `(ψ_i ψ_k | ψ_m ψ_n) = Σ_{jlpq} D_ij D_kl D_mp D_nq (φ_j φ_l | φ_p φ_q)` -/
theorem lift_coulomb (g : E3 ≃ᵃⁱ[ℝ] E3) (φ ψ : ι → E3 → ℝ) (D : ι → ι → ℝ)
    (h : ∀ i r, ψ i (g r) = ∑ j, D i j * φ j r)
    (hint : ∀ j l p q, Integrable fun z : E3 × E3 =>
      φ j z.1 * φ l z.1 * (φ p z.2 * φ q z.2) / ‖z.1 - z.2‖) (i k m n : ι) :
    ∫ z : E3 × E3, ψ i z.1 * ψ k z.1 * (ψ m z.2 * ψ n z.2) / ‖z.1 - z.2‖
      = ∑ j, ∑ l, ∑ p, ∑ q, D i j * D k l * D m p * D n q
          * ∫ z : E3 × E3, φ j z.1 * φ l z.1 * (φ p z.2 * φ q z.2) / ‖z.1 - z.2‖ :=
  lift_coulomb' g univ univ univ univ (ψ i) (ψ k) (ψ m) (ψ n) φ φ φ φ (D i) (D k) (D m) (D n)
    (h i) (h k) (h m) (h n) fun j _ l _ p _ q _ => hint j l p q

/-- the integrability hypotheses of (a)–(c) hold for continuous Gaussian-bounded families -/
theorem lift_hyps_of_gaussBdd {κ : Type*} (φ : κ → E3 → ℝ) (hc : ∀ j, Continuous (φ j))
    (hb : ∀ j, GaussBdd (φ j)) (Cc : E3) :
    (∀ j l, Integrable fun r => φ j r * φ l r)
    ∧ (∀ j l, Integrable fun r => φ j r * φ l r / ‖r - Cc‖)
    ∧ (∀ j l p q, Integrable fun z : E3 × E3 =>
        φ j z.1 * φ l z.1 * (φ p z.2 * φ q z.2) / ‖z.1 - z.2‖) := by
  refine ⟨fun j l => ?_, fun j l => ?_, fun j l p q => ?_⟩
  · exact ((hb j).mul (hb l)).integrable ((hc j).mul (hc l)).aestronglyMeasurable
  · obtain ⟨K, a, ha, hK⟩ := (hb j).mul (hb l)
    exact (GaussBdd.integrable_div_norm ((hc j).mul (hc l)).aestronglyMeasurable K a ha hK Cc).1
  · exact integrable_coulomb_pair (F := fun r => φ j r * φ l r) (G := fun r => φ p r * φ q r)
      ((hc j).mul (hc l)).aestronglyMeasurable ((hc p).mul (hc q)).aestronglyMeasurable
      ((hb j).mul (hb l)) ((hb p).mul (hb q))

end Lifting

/-! ## 2. Covariance of the Cartesian shell functions -/
section Covariance
open MvPolynomial

/-- axis ↦ coordinate of the image of a point (`v` itself beyond the third axis) -/
noncomputable def movedPt (g : E3 → E3) (v : ℕ → ℝ) : ℕ → ℝ :=
  fun i => if h : i < 3 then g (toE3 v) ⟨i, h⟩ else v i

@[simp] lemma toE3_movedPt (g : E3 → E3) (v : ℕ → ℝ) : toE3 (movedPt g v) = g (toE3 v) := by
  ext u
  have hu : (u : ℕ) < 3 := u.isLt
  simp only [toE3_apply, movedPt, hu, dif_pos, Fin.eta]

/-- **the moved shell**: the same shell with its centre carried to `g (centre)` -/
noncomputable def Shell.moved (s : Shell ℝ) (g : E3 → E3) : Shell ℝ :=
  { s with ctr := movedPt g s.ctr }

@[simp] lemma Shell.moved_l (s : Shell ℝ) (g : E3 → E3) : (s.moved g).l = s.l := rfl
@[simp] lemma Shell.moved_cart (s : Shell ℝ) (g : E3 → E3) : (s.moved g).cart = s.cart := rfl
@[simp] lemma Shell.moved_ncart (s : Shell ℝ) (g : E3 → E3) : (s.moved g).ncart = s.ncart := rfl
@[simp] lemma Shell.moved_nprim (s : Shell ℝ) (g : E3 → E3) : (s.moved g).nprim = s.nprim := rfl
@[simp] lemma Shell.moved_exp (s : Shell ℝ) (g : E3 → E3) (k : ℕ) :
    (s.moved g).exp! k = s.exp! k := rfl
@[simp] lemma Shell.moved_coef (s : Shell ℝ) (g : E3 → E3) (k m : ℕ) :
    (s.moved g).coef! k m = s.coef! k m := rfl
@[simp] lemma Shell.moved_comp (s : Shell ℝ) (g : E3 → E3) (c : ℕ) :
    (s.moved g).comp! c = s.comp! c := rfl
@[simp] lemma Shell.moved_ctr (s : Shell ℝ) (g : E3 → E3) :
    toE3 (s.moved g).ctr = g (toE3 s.ctr) := toE3_movedPt g s.ctr

/-- the Cartesian monomial `u_x^{c_x} u_y^{c_y} u_z^{c_z}` -/
def monoE (c : Comp) (u : Fin 3 → ℝ) : ℝ := u 0 ^ c.1 * u 1 ^ c.2.1 * u 2 ^ c.2.2

lemma primFnE_eq_mono (α : ℝ) (A : E3) (c : Comp) (r : E3) :
    primFnE α A c r = monoE c (fun i => (r - A) i) * exp (-α * ‖r - A‖ ^ 2) := by
  unfold primFnE monoE
  simp only [PiLp.sub_apply]

/-- a primitive at the image point, about the image centre -/
lemma primFnE_moved (g : E3 ≃ᵃⁱ[ℝ] E3) (α : ℝ) (A : E3) (c : Comp) (r : E3) :
    primFnE α (g A) c (g r)
      = monoE c (fun i => g.linearIsometryEquiv (r - A) i) * exp (-α * ‖r - A‖ ^ 2) := by
  rw [primFnE_eq_mono, affineIso_norm_sub, affineIso_sub]

/-! ### (a) translations -/

/-- the translation by `t` as an affine isometry -/
noncomputable def translation (t : E3) : E3 ≃ᵃⁱ[ℝ] E3 := AffineIsometryEquiv.constVAdd ℝ E3 t

@[simp] lemma translation_apply (t r : E3) : translation t r = t + r := rfl

lemma translation_linear (t : E3) (u : E3) : (translation t).linearIsometryEquiv u = u := by
  have h := affineIso_sub (translation t) u 0
  simp only [translation_apply, sub_zero, add_zero] at h
  rw [← h]; abel

/-- **Translation invariance of the shell functions** (every shell, every component list) -/
theorem shellFnE_translate (s : Shell ℝ) (t : E3) (m c : ℕ) (r : E3) :
    shellFnE (s.moved (translation t)) m c (translation t r) = shellFnE s m c r := by
  unfold shellFnE
  refine Finset.sum_congr rfl fun k _ => ?_
  simp only [Shell.moved_coef, Shell.moved_exp, Shell.moved_l, Shell.moved_comp, Shell.moved_ctr]
  rw [primFnE_moved, primFnE_eq_mono]
  simp only [translation_linear]

/-- more generally: any affine isometry whose linear part is the identity -/
theorem shellFnE_moved_of_linear_eq_id (g : E3 ≃ᵃⁱ[ℝ] E3)
    (hg : ∀ u, g.linearIsometryEquiv u = u) (s : Shell ℝ) (m c : ℕ) (r : E3) :
    shellFnE (s.moved g) m c (g r) = shellFnE s m c r := by
  unfold shellFnE
  refine Finset.sum_congr rfl fun k _ => ?_
  simp only [Shell.moved_coef, Shell.moved_exp, Shell.moved_l, Shell.moved_comp, Shell.moved_ctr]
  rw [primFnE_moved, primFnE_eq_mono]
  simp only [hg]

/-! ### (b) linear isometries: the representation matrix -/

/-- the matrix of a linear map of `E3` in the standard basis -/
noncomputable def matOf (R : E3 →ₗ[ℝ] E3) (i j : Fin 3) : ℝ := R (EuclideanSpace.single j 1) i

lemma matOf_apply (R : E3 →ₗ[ℝ] E3) (u : E3) (i : Fin 3) :
    R u i = ∑ j, matOf R i j * u j := by
  have hu : u = ∑ j, u j • EuclideanSpace.single j (1:ℝ) := by
    ext k
    simp [Fin.sum_univ_three]
    fin_cases k <;> simp
  conv_lhs => rw [hu]
  simp only [map_sum, map_smul, WithLp.ofLp_sum, WithLp.ofLp_smul, Finset.sum_apply, Pi.smul_apply,
    smul_eq_mul, matOf, mul_comm]

/-- the linear form `Σ_j M_ij X_j` -/
noncomputable def rotLin (M : Fin 3 → Fin 3 → ℝ) (i : Fin 3) : MvPolynomial (Fin 3) ℝ :=
  ∑ j, C (M i j) * X j

/-- the polynomial `(M X)_x^{c_x} (M X)_y^{c_y} (M X)_z^{c_z}` -/
noncomputable def rotPoly (M : Fin 3 → Fin 3 → ℝ) (c : Comp) : MvPolynomial (Fin 3) ℝ :=
  rotLin M 0 ^ c.1 * rotLin M 1 ^ c.2.1 * rotLin M 2 ^ c.2.2

lemma eval_rotLin (M : Fin 3 → Fin 3 → ℝ) (i : Fin 3) (u : Fin 3 → ℝ) :
    eval u (rotLin M i) = ∑ j, M i j * u j := by
  simp [rotLin]

lemma eval_rotPoly (M : Fin 3 → Fin 3 → ℝ) (c : Comp) (u : Fin 3 → ℝ) :
    eval u (rotPoly M c) = monoE c (fun i => ∑ j, M i j * u j) := by
  simp only [rotPoly, map_mul, map_pow, eval_rotLin, monoE]

lemma rotLin_homog (M : Fin 3 → Fin 3 → ℝ) (i : Fin 3) : (rotLin M i).IsHomogeneous 1 :=
  IsHomogeneous.sum _ _ _ fun _ _ => isHomogeneous_C_mul_X _ _

lemma rotPoly_homog (M : Fin 3 → Fin 3 → ℝ) (c : Comp) :
    (rotPoly M c).IsHomogeneous (c.1 + c.2.1 + c.2.2) := by
  have h := (((rotLin_homog M 0).pow c.1).mul ((rotLin_homog M 1).pow c.2.1)).mul
    ((rotLin_homog M 2).pow c.2.2)
  simp only [one_mul] at h
  exact h

/-- exponent triple ↦ finitely supported exponent function -/
noncomputable def compFs (c : Comp) : Fin 3 →₀ ℕ := Finsupp.equivFunOnFinite.symm ![c.1, c.2.1, c.2.2]

@[simp] lemma compFs_zero (c : Comp) : compFs c 0 = c.1 := rfl
@[simp] lemma compFs_one (c : Comp) : compFs c 1 = c.2.1 := rfl
@[simp] lemma compFs_two (c : Comp) : compFs c 2 = c.2.2 := rfl

lemma compFs_injective : Function.Injective compFs := by
  intro c c' h
  have h0 := DFunLike.congr_fun h 0
  have h1 := DFunLike.congr_fun h 1
  have h2 := DFunLike.congr_fun h 2
  simp only [compFs_zero, compFs_one, compFs_two] at h0 h1 h2
  exact Prod.ext h0 (Prod.ext h1 h2)

lemma compFs_of (d : Fin 3 →₀ ℕ) : compFs (d 0, d 1, d 2) = d := by
  ext k
  fin_cases k <;> rfl

lemma prod_compFs (c : Comp) (u : Fin 3 → ℝ) : ∏ i, u i ^ (compFs c i) = monoE c u := by
  simp only [Fin.prod_univ_three, compFs_zero, compFs_one, compFs_two, monoE]

lemma list_sum_map_eq_range {β : Type*} (l : List β) (d : β) (f : β → ℝ) :
    (l.map f).sum = ∑ i ∈ range l.length, f (l.getD i d) := by
  induction l with
  | nil => simp
  | cons x xs ih =>
    rw [List.map_cons, List.sum_cons, List.length_cons, Finset.sum_range_succ', ih]
    simp only [List.getD_cons_succ, List.getD_cons_zero]
    ring

/-- **a homogeneous polynomial of degree `l` in three variables is the combination of the
monomials of any duplicate-free list that contains all exponent triples of degree `l`** -/
theorem eval_homog_expand (P : MvPolynomial (Fin 3) ℝ) (l : ℕ) (hP : P.IsHomogeneous l)
    (cart : List Comp) (hnd : cart.Nodup) (hmem : ∀ c : Comp, c.1 + c.2.1 + c.2.2 = l → c ∈ cart)
    (u : Fin 3 → ℝ) :
    eval u P = ∑ i ∈ range cart.length,
      coeff (compFs (cart.getD i (0,0,0))) P * monoE (cart.getD i (0,0,0)) u := by
  classical
  rw [eval_eq']
  have hsub : P.support ⊆ cart.toFinset.image compFs := by
    intro d hd
    have hdeg : Finsupp.degree d = l := by
      by_contra hne
      exact (mem_support_iff.mp hd) (hP.coeff_eq_zero hne)
    rw [Finsupp.degree_eq_sum, Fin.sum_univ_three] at hdeg
    refine Finset.mem_image.mpr ⟨(d 0, d 1, d 2), ?_, compFs_of d⟩
    exact List.mem_toFinset.mpr (hmem _ hdeg)
  rw [Finset.sum_subset hsub (fun d _ hd => by
      rw [notMem_support_iff.mp hd, zero_mul]),
    Finset.sum_image (fun a _ b _ h => compFs_injective h)]
  simp only [prod_compFs]
  rw [List.sum_toFinset _ hnd, list_sum_map_eq_range _ (0,0,0)]

/-- coefficient of the monomial `u^{c'}` in `(R u)^c` -/
noncomputable def rotCoef (R : E3 →ₗ[ℝ] E3) (c c' : Comp) : ℝ :=
  coeff (compFs c') (rotPoly (matOf R) c)

/-- `cart` is a full component list for the angular momentum `l`: every exponent triple of total
degree `l` occurs exactly once, and nothing else occurs -/
def FullCart (l : ℕ) (cart : List Comp) : Prop :=
  cart.Nodup ∧ ∀ c : Comp, c ∈ cart ↔ c.1 + c.2.1 + c.2.2 = l

lemma FullCart.degree {l : ℕ} {cart : List Comp} (hf : FullCart l cart) {c : ℕ}
    (hc : c < cart.length) :
    (cart.getD c (0,0,0)).1 + (cart.getD c (0,0,0)).2.1 + (cart.getD c (0,0,0)).2.2 = l := by
  rw [← List.getElem_eq_getD (h := hc) (0,0,0)]
  exact (hf.2 _).mp (List.getElem_mem hc)

/-- `(R u)^c` is the combination of the monomials `u^{c'}` of the full list, with the coefficients
`rotCoef R c c'` -/
theorem monoE_rot_expand (R : E3 →ₗ[ℝ] E3) {l : ℕ} {cart : List Comp} (hf : FullCart l cart)
    (c : Comp) (hc : c.1 + c.2.1 + c.2.2 = l) (u : E3) :
    monoE c (fun i => R u i)
      = ∑ i ∈ range cart.length,
          rotCoef R c (cart.getD i (0,0,0)) * monoE (cart.getD i (0,0,0)) (fun i => u i) := by
  have h := eval_homog_expand (rotPoly (matOf R) c) l (hc ▸ rotPoly_homog (matOf R) c) cart hf.1
    (fun c' hc' => (hf.2 c').mpr hc') (fun i => u i)
  rw [eval_rotPoly] at h
  simp only [← matOf_apply] at h
  exact h

/-- **Primitive level**: a Cartesian primitive of degree `l` at the image point about the image
centre is the combination of the primitives of degree `l` at the original point -/
theorem primFnE_moved_expand (g : E3 ≃ᵃⁱ[ℝ] E3) {l : ℕ} {cart : List Comp} (hf : FullCart l cart)
    (α : ℝ) (A : E3) (c : Comp) (hc : c.1 + c.2.1 + c.2.2 = l) (r : E3) :
    primFnE α (g A) c (g r)
      = ∑ i ∈ range cart.length,
          rotCoef g.linearIsometryEquiv.toLinearEquiv.toLinearMap c (cart.getD i (0,0,0))
            * primFnE α A (cart.getD i (0,0,0)) r := by
  rw [primFnE_moved]
  have h := monoE_rot_expand g.linearIsometryEquiv.toLinearEquiv.toLinearMap hf c hc (r - A)
  simp only [LinearEquiv.coe_coe, LinearIsometryEquiv.coe_toLinearEquiv] at h
  rw [h, Finset.sum_mul]
  refine Finset.sum_congr rfl fun i _ => ?_
  rw [primFnE_eq_mono]
  ring

lemma dfactOdd_pos (n : ℕ) : 0 < dfactOdd n := by
  induction n with
  | zero => simp [dfactOdd]
  | succ k ih => simp only [dfactOdd]; positivity

lemma normAng_pos (c : Comp) : 0 < (normAng c : ℝ) := by
  unfold normAng
  have h : (0:ℝ) < ((dfactOdd c.1 * dfactOdd c.2.1 * dfactOdd c.2.2 : ℕ) : ℝ) := by
    have := Nat.mul_pos (Nat.mul_pos (dfactOdd_pos c.1) (dfactOdd_pos c.2.1)) (dfactOdd_pos c.2.2)
    exact_mod_cast this
  exact div_pos (by simp) (Real.sqrt_pos.mpr h)

/-- **the representation matrix of a shell** with component list `cart` under the linear map `R`:
`D_{cc'} = [u^{c'}] (R u)^c · N^ang(c) / N^ang(c')`.  It depends on `R` and the component list
only — not on exponents, coefficients, centre or contraction. -/
noncomputable def repMat (R : E3 →ₗ[ℝ] E3) (cart : List Comp) (c c' : ℕ) : ℝ :=
  rotCoef R (cart.getD c (0,0,0)) (cart.getD c' (0,0,0)) * normAng (cart.getD c (0,0,0))
    / normAng (cart.getD c' (0,0,0))

/-- the linear part of an affine isometry, as a linear map -/
noncomputable def linPart (g : E3 ≃ᵃⁱ[ℝ] E3) : E3 →ₗ[ℝ] E3 :=
  g.linearIsometryEquiv.toLinearEquiv.toLinearMap

/-- **Covariance of the contracted Cartesian shell functions under every rigid motion**
(translations, proper and improper rotations): for a shell with a full component list,
`φ^{moved}_{m,c}(g r) = Σ_{c'} D_{cc'} φ_{m,c'}(r)` with the representation matrix `repMat`. -/
theorem shellFnE_moved (g : E3 ≃ᵃⁱ[ℝ] E3) (s : Shell ℝ) (hf : FullCart s.l s.cart) (m c : ℕ)
    (hc : c < s.ncart) (r : E3) :
    shellFnE (s.moved g) m c (g r)
      = ∑ c' ∈ range s.ncart, repMat (linPart g) s.cart c c' * shellFnE s m c' r := by
  unfold shellFnE
  simp only [Shell.moved_coef, Shell.moved_exp, Shell.moved_l, Shell.moved_comp, Shell.moved_ctr,
    Shell.moved_nprim]
  have hdeg := hf.degree hc
  simp_rw [primFnE_moved_expand g hf _ _ (s.comp! c) hdeg, Finset.mul_sum]
  rw [Finset.sum_comm]
  refine Finset.sum_congr rfl fun i _ => Finset.sum_congr rfl fun k _ => ?_
  have hn : (normAng (s.cart.getD i (0,0,0)) : ℝ) ≠ 0 := (normAng_pos _).ne'
  unfold repMat normPrim linPart Shell.comp!
  field_simp

/-- **Existence form**: for a linear isometry `R`, an angular momentum `l` and a full component
list there is ONE matrix that transforms the functions of every shell with that `l` and that
list — whatever its exponents, contraction coefficients, centre — under every rigid motion with
linear part `R`. -/
theorem exists_repMat (R : E3 ≃ₗᵢ[ℝ] E3) (l : ℕ) (cart : List Comp) :
    ∃ D : ℕ → ℕ → ℝ, ∀ (g : E3 ≃ᵃⁱ[ℝ] E3), g.linearIsometryEquiv = R →
      ∀ s : Shell ℝ, s.l = l → s.cart = cart → FullCart s.l s.cart →
        ∀ m c, c < s.ncart → ∀ r,
          shellFnE (s.moved g) m c (g r) = ∑ c' ∈ range s.ncart, D c c' * shellFnE s m c' r := by
  refine ⟨repMat R.toLinearEquiv.toLinearMap cart, ?_⟩
  intro g hg s _ hcart hf m c hc r
  rw [shellFnE_moved g s hf m c hc r]
  unfold linPart
  rw [hg, hcart]

/-- the default component order of the library is a full list -/
theorem fullCart_defaultCart (l : ℕ) : FullCart l (defaultCart l) := by
  refine ⟨?_, mem_defaultCart l⟩
  unfold defaultCart
  rw [List.nodup_flatMap]
  refine ⟨fun x _ => ?_, ?_⟩
  · refine List.Nodup.map ?_ (List.nodup_reverse.mpr List.nodup_range)
    intro y y' h
    simp only [Prod.mk.injEq, true_and] at h
    exact h.1
  · refine List.Pairwise.imp_of_mem ?_ (List.nodup_reverse.mpr List.nodup_range)
    intro x x' _ _ hne
    simp only [Function.onFun, List.disjoint_left, List.mem_map, List.mem_reverse, List.mem_range]
    rintro c ⟨y, _, rfl⟩ ⟨y', _, h⟩
    simp only [Prod.mk.injEq] at h
    exact hne h.1.symm

/-! ### The representation matrices of `s` and `p` shells -/

lemma compFs_000 : compFs (0,0,0) = 0 := by
  ext k; fin_cases k <;> rfl
lemma compFs_100 : compFs (1,0,0) = Finsupp.single 0 1 := by
  ext k; fin_cases k <;> simp
lemma compFs_010 : compFs (0,1,0) = Finsupp.single 1 1 := by
  ext k; fin_cases k <;> simp
lemma compFs_001 : compFs (0,0,1) = Finsupp.single 2 1 := by
  ext k; fin_cases k <;> simp

lemma normAng_000 : (normAng (0,0,0) : ℝ) = 1 := by
  simp only [normAng, dfactOdd, num_nat]
  show ((1:ℕ):ℝ) / Real.sqrt _ = 1
  simp
lemma normAng_100 : (normAng (1,0,0) : ℝ) = 1 := by
  simp only [normAng, dfactOdd, num_nat]
  show ((1:ℕ):ℝ) / Real.sqrt _ = 1
  simp
lemma normAng_010 : (normAng (0,1,0) : ℝ) = 1 := by
  simp only [normAng, dfactOdd, num_nat]
  show ((1:ℕ):ℝ) / Real.sqrt _ = 1
  simp
lemma normAng_001 : (normAng (0,0,1) : ℝ) = 1 := by
  simp only [normAng, dfactOdd, num_nat]
  show ((1:ℕ):ℝ) / Real.sqrt _ = 1
  simp

/-- `l = 0`: the representation matrix is `1` -/
theorem repMat_s (R : E3 →ₗ[ℝ] E3) : repMat R (defaultCart 0) 0 0 = 1 := by
  have hc : defaultCart 0 = [(0,0,0)] := by decide
  rw [hc]
  simp [repMat, rotCoef, rotPoly, compFs_000, normAng_000]

lemma coeff_single_rotLin (M : Fin 3 → Fin 3 → ℝ) (i j : Fin 3) :
    coeff (Finsupp.single j 1) (rotLin M i) = M i j := by
  unfold rotLin
  rw [coeff_sum]
  simp only [coeff_C_mul, coeff_X, Finsupp.single_left_inj (one_ne_zero), mul_ite, mul_one,
    mul_zero, Finset.sum_ite_eq', Finset.mem_univ, if_true]

/-- `l = 1` (default order `x, y, z`): the representation matrix is the matrix of `R` itself -/
theorem repMat_p (R : E3 →ₗ[ℝ] E3) (i j : Fin 3) :
    repMat R (defaultCart 1) i j = matOf R i j := by
  have hc : defaultCart 1 = [(1,0,0), (0,1,0), (0,0,1)] := by decide
  rw [hc]
  fin_cases i <;> fin_cases j <;>
    simp [repMat, rotCoef, rotPoly, compFs_100, compFs_010, compFs_001, normAng_100, normAng_010,
      normAng_001, coeff_single_rotLin]

/-! ### Rigid motions from a linear isometry and a translation vector -/

/-- the rigid motion `r ↦ t + R r` (`R` any linear isometry of `E3`: proper or improper rotation) -/
noncomputable def rigid (R : E3 ≃ₗᵢ[ℝ] E3) (t : E3) : E3 ≃ᵃⁱ[ℝ] E3 :=
  R.toAffineIsometryEquiv.trans (translation t)

@[simp] lemma rigid_apply (R : E3 ≃ₗᵢ[ℝ] E3) (t r : E3) : rigid R t r = t + R r := rfl

lemma rigid_linear (R : E3 ≃ₗᵢ[ℝ] E3) (t : E3) : (rigid R t).linearIsometryEquiv = R := by
  ext1 u
  have h := affineIso_sub (rigid R t) u 0
  simp only [rigid_apply, map_zero, add_zero, sub_zero, add_sub_cancel_left] at h
  exact h.symm

/-- every affine isometry of `E3` is of this form -/
lemma affineIso_eq_rigid (g : E3 ≃ᵃⁱ[ℝ] E3) : g = rigid g.linearIsometryEquiv (g 0) := by
  ext1 r
  rw [rigid_apply, affineIso_apply g r, add_comm]

/-- the covariance theorem for `r ↦ t + R r`: the matrix is that of `R`, whatever `t` -/
theorem shellFnE_rigid (R : E3 ≃ₗᵢ[ℝ] E3) (t : E3) (s : Shell ℝ) (hf : FullCart s.l s.cart)
    (m c : ℕ) (hc : c < s.ncart) (r : E3) :
    shellFnE (s.moved (rigid R t)) m c (t + R r)
      = ∑ c' ∈ range s.ncart,
          repMat R.toLinearEquiv.toLinearMap s.cart c c' * shellFnE s m c' r := by
  have h := shellFnE_moved (rigid R t) s hf m c hc r
  unfold linPart at h
  rw [rigid_linear] at h
  exact h

end Covariance

/-! ## 3. The blocks of the model under rigid motions -/
section Blocks

lemma FullCart.degree_le {s : Shell ℝ} (hf : FullCart s.l s.cart) {c : ℕ} (hc : c < s.ncart) :
    (s.comp! c).1 + (s.comp! c).2.1 + (s.comp! c).2.2 ≤ s.l :=
  (hf.degree hc).le

/-- **Point-charge block under a rigid motion.**  Moving both shells and the charge by the same
affine isometry `g` (translation, proper or improper rotation) transforms the block by the
representation matrices of the two shells on the two component indices. -/
theorem pointChargeBlock_moved (boysT : ℝ → ℕ → Tab ℝ)
    (hboys : ∀ T n m, m < n → (boysT T n).get m = boys T m) (g : E3 ≃ᵃⁱ[ℝ] E3)
    (s t : Shell ℝ) (Cpt : ℕ → ℝ) (q : ℝ) (ma ca mb cb : ℕ)
    (hs : ∀ k, k < s.nprim → 0 < s.exp! k) (ht : ∀ k, k < t.nprim → 0 < t.exp! k)
    (hfs : FullCart s.l s.cart) (hft : FullCart t.l t.cart)
    (hca : ca < s.ncart) (hcb : cb < t.ncart) :
    (pointChargeBlock boysT (s.moved g) (t.moved g) (movedPt g Cpt) q).get4 ma ca mb cb
      = ∑ ca' ∈ range s.ncart, ∑ cb' ∈ range t.ncart,
          repMat (linPart g) s.cart ca ca' * repMat (linPart g) t.cart cb cb'
            * (pointChargeBlock boysT s t Cpt q).get4 ma ca' mb cb' := by
  rw [pointChargeBlock_eq_integral boysT hboys (s.moved g) (t.moved g) (movedPt g Cpt) q ma ca mb cb
    hs ht (hfs.degree_le hca) (hft.degree_le hcb), toE3_movedPt,
    lift_pointCharge' g (range s.ncart) (range t.ncart) (shellFnE (s.moved g) ma ca)
      (shellFnE (t.moved g) mb cb) (fun j => shellFnE s ma j) (fun l => shellFnE t mb l)
      (repMat (linPart g) s.cart ca) (repMat (linPart g) t.cart cb) (toE3 Cpt)
      (shellFnE_moved g s hfs ma ca hca) (shellFnE_moved g t hft mb cb hcb)
      (fun j _ l _ => integrable_shellFnE_mul_div s t ma j mb l (toE3 Cpt) hs ht),
    Finset.mul_sum]
  refine Finset.sum_congr rfl fun j hj => ?_
  rw [Finset.mul_sum]
  refine Finset.sum_congr rfl fun l hl => ?_
  rw [pointChargeBlock_eq_integral boysT hboys s t Cpt q ma j mb l hs ht
    (hfs.degree_le (Finset.mem_range.mp hj)) (hft.degree_le (Finset.mem_range.mp hl))]
  ring

/-- **Invariance of the point-charge block under rigid motions with trivial linear part**, for
arbitrary component lists (entries of total degree `≤ l`) -/
theorem pointChargeBlock_moved_of_linear_eq_id (boysT : ℝ → ℕ → Tab ℝ)
    (hboys : ∀ T n m, m < n → (boysT T n).get m = boys T m) (g : E3 ≃ᵃⁱ[ℝ] E3)
    (hg : ∀ u, g.linearIsometryEquiv u = u)
    (s t : Shell ℝ) (Cpt : ℕ → ℝ) (q : ℝ) (ma ca mb cb : ℕ)
    (hs : ∀ k, k < s.nprim → 0 < s.exp! k) (ht : ∀ k, k < t.nprim → 0 < t.exp! k)
    (ha : (s.comp! ca).1 + (s.comp! ca).2.1 + (s.comp! ca).2.2 ≤ s.l)
    (hb : (t.comp! cb).1 + (t.comp! cb).2.1 + (t.comp! cb).2.2 ≤ t.l) :
    (pointChargeBlock boysT (s.moved g) (t.moved g) (movedPt g Cpt) q).get4 ma ca mb cb
      = (pointChargeBlock boysT s t Cpt q).get4 ma ca mb cb := by
  rw [pointChargeBlock_eq_integral boysT hboys (s.moved g) (t.moved g) (movedPt g Cpt) q ma ca mb cb
    hs ht ha hb, toE3_movedPt,
    pointChargeBlock_eq_integral boysT hboys s t Cpt q ma ca mb cb hs ht ha hb,
    lift_pointCharge' g (univ : Finset Unit) (univ : Finset Unit) (shellFnE (s.moved g) ma ca)
      (shellFnE (t.moved g) mb cb) (fun _ => shellFnE s ma ca) (fun _ => shellFnE t mb cb)
      (fun _ => 1) (fun _ => 1) (toE3 Cpt)
      (fun r => by simp [shellFnE_moved_of_linear_eq_id g hg])
      (fun r => by simp [shellFnE_moved_of_linear_eq_id g hg])
      (fun _ _ _ _ => integrable_shellFnE_mul_div s t ma ca mb cb (toE3 Cpt) hs ht)]
  simp

/-- **Translation invariance of the point-charge block** (shells and charge translated by `v`) -/
theorem pointChargeBlock_translate (boysT : ℝ → ℕ → Tab ℝ)
    (hboys : ∀ T n m, m < n → (boysT T n).get m = boys T m) (v : E3)
    (s t : Shell ℝ) (Cpt : ℕ → ℝ) (q : ℝ) (ma ca mb cb : ℕ)
    (hs : ∀ k, k < s.nprim → 0 < s.exp! k) (ht : ∀ k, k < t.nprim → 0 < t.exp! k)
    (ha : (s.comp! ca).1 + (s.comp! ca).2.1 + (s.comp! ca).2.2 ≤ s.l)
    (hb : (t.comp! cb).1 + (t.comp! cb).2.1 + (t.comp! cb).2.2 ≤ t.l) :
    (pointChargeBlock boysT (s.moved (translation v)) (t.moved (translation v))
        (movedPt (translation v) Cpt) q).get4 ma ca mb cb
      = (pointChargeBlock boysT s t Cpt q).get4 ma ca mb cb :=
  pointChargeBlock_moved_of_linear_eq_id boysT hboys (translation v) (translation_linear v)
    s t Cpt q ma ca mb cb hs ht ha hb

/-- the coordinates of a translated point, explicitly -/
lemma movedPt_translation (v : E3) (w : ℕ → ℝ) (i : ℕ) (hi : i < 3) :
    movedPt (translation v) w i = v ⟨i, hi⟩ + w i := by
  simp only [movedPt, hi, dif_pos, translation_apply, PiLp.add_apply, toE3_apply]

lemma integrable_eri_shellFnE (sa sb sc sd : Shell ℝ) (ma ca mb cb mc cc md cd : ℕ)
    (hsa : ∀ k, k < sa.nprim → 0 < sa.exp! k) (hsb : ∀ k, k < sb.nprim → 0 < sb.exp! k)
    (hsc : ∀ k, k < sc.nprim → 0 < sc.exp! k) (hsd : ∀ k, k < sd.nprim → 0 < sd.exp! k) :
    Integrable fun z : E3 × E3 => shellFnE sa ma ca z.1 * shellFnE sb mb cb z.1
      * (shellFnE sc mc cc z.2 * shellFnE sd md cd z.2) / ‖z.1 - z.2‖ :=
  integrable_coulomb_pair (continuous_pairDensity sa sb ma ca mb cb).aestronglyMeasurable
    (continuous_pairDensity sc sd mc cc md cd).aestronglyMeasurable
    (gaussBdd_pairDensity sa sb ma ca mb cb hsa hsb) (gaussBdd_pairDensity sc sd mc cc md cd hsc hsd)

lemma eriExact_def' (sa sb sc sd : Shell ℝ) (ma ca mb cb mc cc md cd : ℕ) :
    eriExact sa sb sc sd ma ca mb cb mc cc md cd
      = ∫ z : E3 × E3, shellFnE sa ma ca z.1 * shellFnE sb mb cb z.1
          * (shellFnE sc mc cc z.2 * shellFnE sd md cd z.2) / ‖z.1 - z.2‖ := rfl

/-- **The exact electron-repulsion integrals under a rigid motion** -/
theorem eriExact_moved (g : E3 ≃ᵃⁱ[ℝ] E3) (sa sb sc sd : Shell ℝ) (ma ca mb cb mc cc md cd : ℕ)
    (hsa : ∀ k, k < sa.nprim → 0 < sa.exp! k) (hsb : ∀ k, k < sb.nprim → 0 < sb.exp! k)
    (hsc : ∀ k, k < sc.nprim → 0 < sc.exp! k) (hsd : ∀ k, k < sd.nprim → 0 < sd.exp! k)
    (hfa : FullCart sa.l sa.cart) (hfb : FullCart sb.l sb.cart)
    (hfc : FullCart sc.l sc.cart) (hfd : FullCart sd.l sd.cart)
    (hca : ca < sa.ncart) (hcb : cb < sb.ncart) (hcc : cc < sc.ncart) (hcd : cd < sd.ncart) :
    eriExact (sa.moved g) (sb.moved g) (sc.moved g) (sd.moved g) ma ca mb cb mc cc md cd
      = ∑ ca' ∈ range sa.ncart, ∑ cb' ∈ range sb.ncart, ∑ cc' ∈ range sc.ncart,
          ∑ cd' ∈ range sd.ncart,
            repMat (linPart g) sa.cart ca ca' * repMat (linPart g) sb.cart cb cb'
              * repMat (linPart g) sc.cart cc cc' * repMat (linPart g) sd.cart cd cd'
              * eriExact sa sb sc sd ma ca' mb cb' mc cc' md cd' := by
  simp only [eriExact_def']
  exact lift_coulomb' g (range sa.ncart) (range sb.ncart) (range sc.ncart) (range sd.ncart)
    (shellFnE (sa.moved g) ma ca) (shellFnE (sb.moved g) mb cb) (shellFnE (sc.moved g) mc cc)
    (shellFnE (sd.moved g) md cd) (fun j => shellFnE sa ma j) (fun j => shellFnE sb mb j)
    (fun j => shellFnE sc mc j) (fun j => shellFnE sd md j)
    (repMat (linPart g) sa.cart ca) (repMat (linPart g) sb.cart cb)
    (repMat (linPart g) sc.cart cc) (repMat (linPart g) sd.cart cd)
    (shellFnE_moved g sa hfa ma ca hca) (shellFnE_moved g sb hfb mb cb hcb)
    (shellFnE_moved g sc hfc mc cc hcc) (shellFnE_moved g sd hfd md cd hcd)
    (fun j _ l _ p _ q _ => integrable_eri_shellFnE sa sb sc sd ma j mb l mc p md q hsa hsb hsc hsd)

/-- **Electron-repulsion block under a rigid motion.**  Moving the four shells by the same affine
isometry transforms the block by the representation matrices of the four shells on the four
component indices. -/
theorem eriBlock_moved (boysT : ℝ → ℕ → Tab ℝ)
    (hboys : ∀ T n m, m < n → (boysT T n).get m = boys T m) (g : E3 ≃ᵃⁱ[ℝ] E3)
    (sa sb sc sd : Shell ℝ) (ma ca mb cb mc cc md cd : ℕ)
    (hsa : ∀ k, k < sa.nprim → 0 < sa.exp! k) (hsb : ∀ k, k < sb.nprim → 0 < sb.exp! k)
    (hsc : ∀ k, k < sc.nprim → 0 < sc.exp! k) (hsd : ∀ k, k < sd.nprim → 0 < sd.exp! k)
    (hfa : FullCart sa.l sa.cart) (hfb : FullCart sb.l sb.cart)
    (hfc : FullCart sc.l sc.cart) (hfd : FullCart sd.l sd.cart)
    (hca : ca < sa.ncart) (hcb : cb < sb.ncart) (hcc : cc < sc.ncart) (hcd : cd < sd.ncart) :
    (eriBlock boysT (sa.moved g) (sb.moved g) (sc.moved g) (sd.moved g)).get8
        ma ca mb cb mc cc md cd
      = ∑ ca' ∈ range sa.ncart, ∑ cb' ∈ range sb.ncart, ∑ cc' ∈ range sc.ncart,
          ∑ cd' ∈ range sd.ncart,
            repMat (linPart g) sa.cart ca ca' * repMat (linPart g) sb.cart cb cb'
              * repMat (linPart g) sc.cart cc cc' * repMat (linPart g) sd.cart cd cd'
              * (eriBlock boysT sa sb sc sd).get8 ma ca' mb cb' mc cc' md cd' := by
  rw [eriBlock_eq_integral boysT hboys (sa.moved g) (sb.moved g) (sc.moved g) (sd.moved g)
    ma ca mb cb mc cc md cd hsa hsb hsc hsd (hfa.degree_le hca) (hfb.degree_le hcb)
    (hfc.degree_le hcc) (hfd.degree_le hcd),
    eriExact_moved g sa sb sc sd ma ca mb cb mc cc md cd hsa hsb hsc hsd hfa hfb hfc hfd
      hca hcb hcc hcd]
  refine Finset.sum_congr rfl fun j hj => Finset.sum_congr rfl fun l hl =>
    Finset.sum_congr rfl fun p hp => Finset.sum_congr rfl fun q hq => ?_
  rw [eriBlock_eq_integral boysT hboys sa sb sc sd ma j mb l mc p md q hsa hsb hsc hsd
    (hfa.degree_le (Finset.mem_range.mp hj)) (hfb.degree_le (Finset.mem_range.mp hl))
    (hfc.degree_le (Finset.mem_range.mp hp)) (hfd.degree_le (Finset.mem_range.mp hq))]

/-- invariance of the exact integrals under rigid motions with trivial linear part -/
theorem eriExact_moved_of_linear_eq_id (g : E3 ≃ᵃⁱ[ℝ] E3) (hg : ∀ u, g.linearIsometryEquiv u = u)
    (sa sb sc sd : Shell ℝ) (ma ca mb cb mc cc md cd : ℕ)
    (hsa : ∀ k, k < sa.nprim → 0 < sa.exp! k) (hsb : ∀ k, k < sb.nprim → 0 < sb.exp! k)
    (hsc : ∀ k, k < sc.nprim → 0 < sc.exp! k) (hsd : ∀ k, k < sd.nprim → 0 < sd.exp! k) :
    eriExact (sa.moved g) (sb.moved g) (sc.moved g) (sd.moved g) ma ca mb cb mc cc md cd
      = eriExact sa sb sc sd ma ca mb cb mc cc md cd := by
  simp only [eriExact_def']
  rw [lift_coulomb' g (univ : Finset Unit) (univ : Finset Unit) (univ : Finset Unit)
    (univ : Finset Unit)
    (shellFnE (sa.moved g) ma ca) (shellFnE (sb.moved g) mb cb) (shellFnE (sc.moved g) mc cc)
    (shellFnE (sd.moved g) md cd) (fun _ => shellFnE sa ma ca) (fun _ => shellFnE sb mb cb)
    (fun _ => shellFnE sc mc cc) (fun _ => shellFnE sd md cd)
    (fun _ => 1) (fun _ => 1) (fun _ => 1) (fun _ => 1)
    (fun r => by simp [shellFnE_moved_of_linear_eq_id g hg])
    (fun r => by simp [shellFnE_moved_of_linear_eq_id g hg])
    (fun r => by simp [shellFnE_moved_of_linear_eq_id g hg])
    (fun r => by simp [shellFnE_moved_of_linear_eq_id g hg])
    (fun _ _ _ _ _ _ _ _ =>
      integrable_eri_shellFnE sa sb sc sd ma ca mb cb mc cc md cd hsa hsb hsc hsd)]
  simp

/-- **Translation invariance of the electron-repulsion block** (arbitrary component lists, entries
of total degree `≤ l`) -/
theorem eriBlock_translate (boysT : ℝ → ℕ → Tab ℝ)
    (hboys : ∀ T n m, m < n → (boysT T n).get m = boys T m) (v : E3)
    (sa sb sc sd : Shell ℝ) (ma ca mb cb mc cc md cd : ℕ)
    (hsa : ∀ k, k < sa.nprim → 0 < sa.exp! k) (hsb : ∀ k, k < sb.nprim → 0 < sb.exp! k)
    (hsc : ∀ k, k < sc.nprim → 0 < sc.exp! k) (hsd : ∀ k, k < sd.nprim → 0 < sd.exp! k)
    (ha : (sa.comp! ca).1 + (sa.comp! ca).2.1 + (sa.comp! ca).2.2 ≤ sa.l)
    (hb : (sb.comp! cb).1 + (sb.comp! cb).2.1 + (sb.comp! cb).2.2 ≤ sb.l)
    (hc : (sc.comp! cc).1 + (sc.comp! cc).2.1 + (sc.comp! cc).2.2 ≤ sc.l)
    (hd : (sd.comp! cd).1 + (sd.comp! cd).2.1 + (sd.comp! cd).2.2 ≤ sd.l) :
    (eriBlock boysT (sa.moved (translation v)) (sb.moved (translation v))
        (sc.moved (translation v)) (sd.moved (translation v))).get8 ma ca mb cb mc cc md cd
      = (eriBlock boysT sa sb sc sd).get8 ma ca mb cb mc cc md cd := by
  rw [eriBlock_eq_integral boysT hboys (sa.moved (translation v)) (sb.moved (translation v))
      (sc.moved (translation v)) (sd.moved (translation v)) ma ca mb cb mc cc md cd
      hsa hsb hsc hsd ha hb hc hd,
    eriBlock_eq_integral boysT hboys sa sb sc sd ma ca mb cb mc cc md cd hsa hsb hsc hsd ha hb hc hd]
  exact eriExact_moved_of_linear_eq_id (translation v) (translation_linear v) sa sb sc sd
    ma ca mb cb mc cc md cd hsa hsb hsc hsd

/-! ### The overlap block: bridge `ℝ × ℝ × ℝ` ↔ `E3` -/

/-- coordinates: `E3 ≃ᵐ ℝ × ℝ × ℝ` -/
noncomputable def e3Equiv : E3 ≃ᵐ ℝ × ℝ × ℝ :=
  (MeasurableEquiv.toLp 2 (Fin 3 → ℝ)).symm.trans
    ((MeasurableEquiv.piFinSuccAbove (fun _ => ℝ) 0).trans
      (MeasurableEquiv.prodCongr (MeasurableEquiv.refl ℝ) (MeasurableEquiv.piFinTwo (fun _ => ℝ))))

lemma e3Equiv_apply (r : E3) : e3Equiv r = (r 0, r 1, r 2) := rfl

lemma e3Equiv_measurePreserving : MeasurePreserving e3Equiv volume volume := by
  have h1 : MeasurePreserving (MeasurableEquiv.toLp 2 (Fin 3 → ℝ)).symm volume volume :=
    PiLp.volume_preserving_ofLp (Fin 3)
  have h2 := volume_preserving_piFinSuccAbove (fun _ : Fin 3 => ℝ) 0
  have h3 : MeasurePreserving
      (MeasurableEquiv.prodCongr (MeasurableEquiv.refl ℝ) (MeasurableEquiv.piFinTwo (fun _ => ℝ)))
      (volume : Measure (ℝ × (Fin 2 → ℝ))) (volume : Measure (ℝ × ℝ × ℝ)) :=
    (MeasurePreserving.id volume).prod (volume_preserving_piFinTwo (fun _ => ℝ))
  exact h1.trans (h2.trans h3)

lemma shellFn_e3Equiv (s : Shell ℝ) (m c : ℕ) (r : E3) :
    shellFn s m c (e3Equiv r) = shellFnE s m c r := by
  unfold shellFn shellFnE
  refine Finset.sum_congr rfl fun k _ => ?_
  congr 1
  unfold primFn primFnE
  rw [e3Equiv_apply, EuclideanSpace.real_norm_sq_eq]
  simp only [Fin.sum_univ_three, PiLp.sub_apply, toE3_apply]
  rfl

/-- **the overlap block as an integral over `E3`** of the functions `shellFnE` -/
theorem overlapBlock_eq_integral_E3 (s t : Shell ℝ) (ma ca mb cb : ℕ)
    (hs : ∀ k < s.nprim, 0 < s.exp! k) (ht : ∀ k < t.nprim, 0 < t.exp! k) :
    (overlapBlock s t).get4 ma ca mb cb = ∫ r : E3, shellFnE s ma ca r * shellFnE t mb cb r := by
  rw [overlapBlock_eq_integral s t ma ca mb cb hs ht,
    ← e3Equiv_measurePreserving.integral_comp' (fun r => shellFn s ma ca r * shellFn t mb cb r)]
  simp only [shellFn_e3Equiv]

lemma integrable_shellFnE_mul (s t : Shell ℝ) (ma ca mb cb : ℕ)
    (hs : ∀ k, k < s.nprim → 0 < s.exp! k) (ht : ∀ k, k < t.nprim → 0 < t.exp! k) :
    Integrable fun r : E3 => shellFnE s ma ca r * shellFnE t mb cb r :=
  (gaussBdd_pairDensity s t ma ca mb cb hs ht).integrable
    (continuous_pairDensity s t ma ca mb cb).aestronglyMeasurable

/-- **Overlap block under a rigid motion** -/
theorem overlapBlock_moved (g : E3 ≃ᵃⁱ[ℝ] E3) (s t : Shell ℝ) (ma ca mb cb : ℕ)
    (hs : ∀ k, k < s.nprim → 0 < s.exp! k) (ht : ∀ k, k < t.nprim → 0 < t.exp! k)
    (hfs : FullCart s.l s.cart) (hft : FullCart t.l t.cart)
    (hca : ca < s.ncart) (hcb : cb < t.ncart) :
    (overlapBlock (s.moved g) (t.moved g)).get4 ma ca mb cb
      = ∑ ca' ∈ range s.ncart, ∑ cb' ∈ range t.ncart,
          repMat (linPart g) s.cart ca ca' * repMat (linPart g) t.cart cb cb'
            * (overlapBlock s t).get4 ma ca' mb cb' := by
  rw [overlapBlock_eq_integral_E3 (s.moved g) (t.moved g) ma ca mb cb hs ht,
    lift_overlap' g (range s.ncart) (range t.ncart) (shellFnE (s.moved g) ma ca)
      (shellFnE (t.moved g) mb cb) (fun j => shellFnE s ma j) (fun l => shellFnE t mb l)
      (repMat (linPart g) s.cart ca) (repMat (linPart g) t.cart cb)
      (shellFnE_moved g s hfs ma ca hca) (shellFnE_moved g t hft mb cb hcb)
      (fun j _ l _ => integrable_shellFnE_mul s t ma j mb l hs ht)]
  refine Finset.sum_congr rfl fun j _ => Finset.sum_congr rfl fun l _ => ?_
  rw [overlapBlock_eq_integral_E3 s t ma j mb l hs ht]

end Blocks

end GB

