import GBProofs.Props.C01
import GBProofs.Props.C02
import GBProofs.EvalDeriv
import Mathlib.MeasureTheory.Integral.Prod
import Mathlib.MeasureTheory.Group.Integral
import Mathlib.MeasureTheory.Measure.OpenPos
import Mathlib.Analysis.Calculus.IteratedDeriv.Lemmas

/-!
# Contracted three-dimensional shell blocks are integrals over ℝ³

`ℝ³` is `ℝ × ℝ × ℝ` with the product Lebesgue measure.  The one-dimensional table theorems
(`C01.table_entry_eq_integral`, `C02.table_entry_eq_integral`) are lifted to the contracted
blocks of `momentBlock` / `overlapBlock` / `diffBlock` / `kineticBlock`, and the integrands are the
very functions that the pointwise evaluation model `evalBlock` computes.
-/
open MeasureTheory Real Polynomial

namespace GB

/-! ## Primitive and contracted functions -/

/-- Cartesian primitive `(x-A_x)^{c_x} (y-A_y)^{c_y} (z-A_z)^{c_z} e^{-α |r-A|²}` -/
noncomputable def primFn (α : ℝ) (A : ℕ → ℝ) (c : Comp) (r : ℝ × ℝ × ℝ) : ℝ :=
  (r.1 - A 0)^c.1 * (r.2.1 - A 1)^c.2.1 * (r.2.2 - A 2)^c.2.2
    * exp (-α * ((r.1 - A 0)^2 + (r.2.1 - A 1)^2 + (r.2.2 - A 2)^2))

/-- un-normalised contraction `m`, Cartesian component number `c` of the shell -/
noncomputable def shellFn (s : Shell ℝ) (m c : ℕ) (r : ℝ × ℝ × ℝ) : ℝ :=
  ∑ k ∈ Finset.range s.nprim,
    s.coef! k m * normPrim (s.exp! k) s.l (s.comp! c) * primFn (s.exp! k) s.ctr (s.comp! c) r

/-- the moment monomial `(x-O_x)^{o_x} (y-O_y)^{o_y} (z-O_z)^{o_z}` -/
def monoFn (O : ℕ → ℝ) (o : Comp) (r : ℝ × ℝ × ℝ) : ℝ :=
  (r.1 - O 0)^o.1 * (r.2.1 - O 1)^o.2.1 * (r.2.2 - O 2)^o.2.2

/-- one-dimensional factor: the integrand of `C01.table_entry_eq_integral` -/
noncomputable def g1 (a b A B O : ℝ) (i j k : ℕ) (x : ℝ) : ℝ :=
  (x - A)^i * (x - B)^j * (x - O)^k * (exp (-a * (x - A)^2) * exp (-b * (x - B)^2))

lemma exp_neg_mul_add3 (α x y z : ℝ) :
    exp (-α * (x + y + z)) = exp (-α * x) * exp (-α * y) * exp (-α * z) := by
  rw [← Real.exp_add, ← Real.exp_add]; congr 1; ring

/-! ## Pointwise evaluation at order zero -/

/-- **The evaluation model at derivative order `(0,0,0)` computes `shellFn`.** -/
theorem evalBlock_eq_shellFn (s : Shell ℝ) (pts : Array (ℕ → ℝ)) (m c p : ℕ) (r : ℝ × ℝ × ℝ)
    (hp : p < pts.size) (h0 : pts[p] 0 = r.1) (h1 : pts[p] 1 = r.2.1) (h2 : pts[p] 2 = r.2.2) :
    (evalBlock s .general (0,0,0) pts).get3 m c p = shellFn s m c r := by
  have hg : pts.getD p (fun _ => Num.nat 0) = pts[p] := by
    simp [Array.getD, hp]
  simp only [evalBlock, tab3_get, tab4_get, Shell.normTab, tab2_get, axisGeneral, Comp.ax, if_true,
    hg, h0, h1, h2, powN_eq_pow, Transc.exp]
  rw [sumN_eq_sum]
  unfold shellFn primFn
  refine Finset.sum_congr rfl fun k _ => ?_
  rw [exp_neg_mul_add3]
  have e : ∀ α x : ℝ, -(α * (x * x)) = -α * x^2 := fun α x => by ring
  rw [e, e, e]
  ring

/-! ## One-dimensional factors -/

lemma integrable_g1 (a b A B O : ℝ) (ha : 0 < a) (hb : 0 < b) (i j k : ℕ) :
    Integrable (g1 a b A B O i j k) := by
  have hp : 0 < a + b := by linarith
  set p := a + b with hpdef
  set P := (a * A + b * B) / p with hP
  have key : ∀ t : ℝ, g1 a b A B O i j k (t + P)
      = exp (-(a * b / p * ((A - B) * (A - B)))) *
          (((X + C (P - A))^i * (X + C (P - B))^j * (X + C (P - O))^k : ℝ[X]).eval t
            * exp (-p * t^2)) := by
    intro t
    have e1 : exp (-a * (t + P - A)^2) * exp (-b * (t + P - B)^2)
        = exp (-(a * b / p * ((A - B) * (A - B)))) * exp (-p * t^2) := by
      rw [← Real.exp_add, ← Real.exp_add]
      congr 1
      rw [hP]
      field_simp
      ring
    unfold g1
    rw [e1]
    simp only [eval_mul, eval_pow, eval_add, eval_X, eval_C]
    ring
  have h1 : Integrable (fun t => g1 a b A B O i j k (t + P)) := by
    simp_rw [key]
    exact (integrable_poly_mul_gauss hp _).const_mul _
  have h2 := h1.comp_sub_right P
  simpa using h2

/-- the product of two primitives and a moment monomial separates into three 1-D factors -/
lemma prim_mul_eq (a b : ℝ) (A B O : ℕ → ℝ) (ca cb o : Comp) (r : ℝ × ℝ × ℝ) :
    primFn a A ca r * primFn b B cb r * monoFn O o r
      = g1 a b (A 0) (B 0) (O 0) ca.1 cb.1 o.1 r.1
        * (g1 a b (A 1) (B 1) (O 1) ca.2.1 cb.2.1 o.2.1 r.2.1
          * g1 a b (A 2) (B 2) (O 2) ca.2.2 cb.2.2 o.2.2 r.2.2) := by
  unfold primFn monoFn g1
  rw [exp_neg_mul_add3, exp_neg_mul_add3]
  ring

lemma integrable_prim_mul (a b : ℝ) (A B O : ℕ → ℝ) (ca cb o : Comp) (ha : 0 < a) (hb : 0 < b) :
    Integrable (fun r : ℝ × ℝ × ℝ => primFn a A ca r * primFn b B cb r * monoFn O o r) := by
  simp_rw [prim_mul_eq]
  have hyz : Integrable (fun q : ℝ × ℝ => g1 a b (A 1) (B 1) (O 1) ca.2.1 cb.2.1 o.2.1 q.1
      * g1 a b (A 2) (B 2) (O 2) ca.2.2 cb.2.2 o.2.2 q.2) :=
    Integrable.mul_prod (integrable_g1 a b _ _ _ ha hb _ _ _) (integrable_g1 a b _ _ _ ha hb _ _ _)
  exact Integrable.mul_prod (integrable_g1 a b (A 0) (B 0) (O 0) ha hb ca.1 cb.1 o.1) hyz

lemma integral_prim_mul (a b : ℝ) (A B O : ℕ → ℝ) (ca cb o : Comp) :
    ∫ r : ℝ × ℝ × ℝ, primFn a A ca r * primFn b B cb r * monoFn O o r
      = (∫ x, g1 a b (A 0) (B 0) (O 0) ca.1 cb.1 o.1 x)
        * (∫ x, g1 a b (A 1) (B 1) (O 1) ca.2.1 cb.2.1 o.2.1 x)
        * (∫ x, g1 a b (A 2) (B 2) (O 2) ca.2.2 cb.2.2 o.2.2 x) := by
  simp_rw [prim_mul_eq]
  rw [Measure.volume_eq_prod ℝ (ℝ × ℝ),
    integral_prod_mul (g1 a b (A 0) (B 0) (O 0) ca.1 cb.1 o.1)
      (fun q : ℝ × ℝ => g1 a b (A 1) (B 1) (O 1) ca.2.1 cb.2.1 o.2.1 q.1
          * g1 a b (A 2) (B 2) (O 2) ca.2.2 cb.2.2 o.2.2 q.2),
    Measure.volume_eq_prod ℝ ℝ, integral_prod_mul, mul_assoc]

/-- **Three-dimensional primitive moment integral = product of the three 1-D integrals**
(the right-hand sides of `C01.table_entry_eq_integral`). -/
theorem prim_moment_integral (a b : ℝ) (A B O : ℕ → ℝ) (ca cb o : Comp) :
    ∫ r : ℝ × ℝ × ℝ, primFn a A ca r * primFn b B cb r
        * ((r.1 - O 0)^o.1 * (r.2.1 - O 1)^o.2.1 * (r.2.2 - O 2)^o.2.2)
      = (∫ x : ℝ, (x - A 0)^ca.1 * (x - B 0)^cb.1 * (x - O 0)^o.1
            * (exp (-a * (x - A 0)^2) * exp (-b * (x - B 0)^2)))
        * (∫ x : ℝ, (x - A 1)^ca.2.1 * (x - B 1)^cb.2.1 * (x - O 1)^o.2.1
            * (exp (-a * (x - A 1)^2) * exp (-b * (x - B 1)^2)))
        * (∫ x : ℝ, (x - A 2)^ca.2.2 * (x - B 2)^cb.2.2 * (x - O 2)^o.2.2
            * (exp (-a * (x - A 2)^2) * exp (-b * (x - B 2)^2))) :=
  integral_prim_mul a b A B O ca cb o

/-! ## Contracted blocks -/

/-- coefficient × primitive norm of primitive `k` in contraction `m`, component `c` -/
noncomputable def cN (s : Shell ℝ) (m c k : ℕ) : ℝ :=
  s.coef! k m * normPrim (s.exp! k) s.l (s.comp! c)

lemma shellFn_mul_expand (s t : Shell ℝ) (ma ca mb cb : ℕ) (w : ℝ × ℝ × ℝ → ℝ) (r : ℝ × ℝ × ℝ) :
    shellFn s ma ca r * shellFn t mb cb r * w r
      = ∑ ka ∈ Finset.range s.nprim, ∑ kb ∈ Finset.range t.nprim,
          (cN s ma ca ka * cN t mb cb kb)
            * (primFn (s.exp! ka) s.ctr (s.comp! ca) r * primFn (t.exp! kb) t.ctr (t.comp! cb) r
                * w r) := by
  unfold shellFn cN
  rw [Finset.sum_mul_sum, Finset.sum_mul]
  refine Finset.sum_congr rfl fun ka _ => ?_
  rw [Finset.sum_mul]
  refine Finset.sum_congr rfl fun kb _ => ?_
  ring

/-- the integrand of every contracted moment integral is integrable -/
lemma integrable_shell_mul (s t : Shell ℝ) (O : ℕ → ℝ) (o : Comp) (ma ca mb cb : ℕ)
    (hs : ∀ k < s.nprim, 0 < s.exp! k) (ht : ∀ k < t.nprim, 0 < t.exp! k) :
    Integrable (fun r : ℝ × ℝ × ℝ => shellFn s ma ca r * shellFn t mb cb r * monoFn O o r) := by
  simp_rw [shellFn_mul_expand]
  refine integrable_finsetSum _ fun ka hka => integrable_finsetSum _ fun kb hkb => ?_
  exact (integrable_prim_mul _ _ _ _ _ _ _ _ (hs ka (Finset.mem_range.mp hka))
    (ht kb (Finset.mem_range.mp hkb))).const_mul _

lemma integral_shell_mul (s t : Shell ℝ) (O : ℕ → ℝ) (o : Comp) (ma ca mb cb : ℕ)
    (hs : ∀ k < s.nprim, 0 < s.exp! k) (ht : ∀ k < t.nprim, 0 < t.exp! k) :
    ∫ r : ℝ × ℝ × ℝ, shellFn s ma ca r * shellFn t mb cb r * monoFn O o r
      = ∑ ka ∈ Finset.range s.nprim, ∑ kb ∈ Finset.range t.nprim,
          (cN s ma ca ka * cN t mb cb kb)
            * ∫ r : ℝ × ℝ × ℝ, primFn (s.exp! ka) s.ctr (s.comp! ca) r
                * primFn (t.exp! kb) t.ctr (t.comp! cb) r * monoFn O o r := by
  simp_rw [shellFn_mul_expand]
  rw [integral_finsetSum]
  · refine Finset.sum_congr rfl fun ka hka => ?_
    rw [integral_finsetSum]
    · refine Finset.sum_congr rfl fun kb hkb => ?_
      rw [integral_const_mul]
    · intro kb hkb
      exact (integrable_prim_mul _ _ _ _ _ _ _ _ (hs ka (Finset.mem_range.mp hka))
        (ht kb (Finset.mem_range.mp hkb))).const_mul _
  · intro ka hka
    refine integrable_finsetSum _ fun kb hkb => ?_
    exact (integrable_prim_mul _ _ _ _ _ _ _ _ (hs ka (Finset.mem_range.mp hka))
      (ht kb (Finset.mem_range.mp hkb))).const_mul _

/-- `momentBlock` entry in terms of `monoFn` -/
theorem momentBlock_eq_integral_mono (s t : Shell ℝ) (O : ℕ → ℝ) (orders : List Comp)
    (d ma ca mb cb : ℕ)
    (hs : ∀ k < s.nprim, 0 < s.exp! k) (ht : ∀ k < t.nprim, 0 < t.exp! k) :
    ((momentBlock s t O orders).get d).get4 ma ca mb cb
      = ∫ r : ℝ × ℝ × ℝ, shellFn s ma ca r * shellFn t mb cb r
          * monoFn O (orders.getD d (0,0,0)) r := by
  rw [integral_shell_mul s t O _ ma ca mb cb hs ht]
  simp only [momentBlock, blockTab, tab_get, tab4_get, contract, Shell.normTab, tab2_get, prod3,
    pairTabs, tab3_get]
  rw [sumN_eq_sum]
  refine Finset.sum_congr rfl fun ka hka => ?_
  rw [sumN_eq_sum]
  refine Finset.sum_congr rfl fun kb hkb => ?_
  have ha := hs ka (Finset.mem_range.mp hka)
  have hb := ht kb (Finset.mem_range.mp hkb)
  rw [C01.table_entry_eq_integral s t O _ ka kb 0 _ _ _ ha hb,
    C01.table_entry_eq_integral s t O _ ka kb 1 _ _ _ ha hb,
    C01.table_entry_eq_integral s t O _ ka kb 2 _ _ _ ha hb,
    integral_prim_mul]
  unfold cN g1
  ring

/-- **MAIN THEOREM.  The contracted multipole-moment block of the code is the integral over ℝ³**
of the product of the two contracted functions (the functions `evalBlock` evaluates, see
`evalBlock_eq_shellFn`) and the moment monomial about `O`, for every order in the list
(outside the list the model uses the order `(0,0,0)`; no bound on `d` is needed). -/
theorem momentBlock_eq_integral (s t : Shell ℝ) (O : ℕ → ℝ) (orders : List Comp)
    (d ma ca mb cb : ℕ)
    (hs : ∀ k < s.nprim, 0 < s.exp! k) (ht : ∀ k < t.nprim, 0 < t.exp! k) :
    ((momentBlock s t O orders).get d).get4 ma ca mb cb
      = ∫ r : ℝ × ℝ × ℝ, shellFn s ma ca r * shellFn t mb cb r
          * ((r.1 - O 0)^(orders.getD d (0,0,0)).1 * (r.2.1 - O 1)^(orders.getD d (0,0,0)).2.1
              * (r.2.2 - O 2)^(orders.getD d (0,0,0)).2.2) :=
  momentBlock_eq_integral_mono s t O orders d ma ca mb cb hs ht

/-- **The contracted overlap block is the integral of the product of the two functions.** -/
theorem overlapBlock_eq_integral (s t : Shell ℝ) (ma ca mb cb : ℕ)
    (hs : ∀ k < s.nprim, 0 < s.exp! k) (ht : ∀ k < t.nprim, 0 < t.exp! k) :
    (overlapBlock s t).get4 ma ca mb cb
      = ∫ r : ℝ × ℝ × ℝ, shellFn s ma ca r * shellFn t mb cb r := by
  unfold overlapBlock
  rw [momentBlock_eq_integral_mono s t _ _ 0 ma ca mb cb hs ht]
  simp [monoFn]

/-- **Symmetry**: the block of `(t, s)` is the transpose of the block of `(s, t)` — what allows
the code to fill the lower triangle by transposition. -/
theorem overlapBlock_symm (s t : Shell ℝ) (ma ca mb cb : ℕ)
    (hs : ∀ k < s.nprim, 0 < s.exp! k) (ht : ∀ k < t.nprim, 0 < t.exp! k) :
    (overlapBlock s t).get4 ma ca mb cb = (overlapBlock t s).get4 mb cb ma ca := by
  rw [overlapBlock_eq_integral s t ma ca mb cb hs ht, overlapBlock_eq_integral t s mb cb ma ca ht hs]
  simp_rw [mul_comm]

/-! ## Self-overlap: non-negative, and positive for a non-zero function -/

lemma continuous_primFn (α : ℝ) (A : ℕ → ℝ) (c : Comp) : Continuous (primFn α A c) := by
  unfold primFn; fun_prop

lemma continuous_shellFn (s : Shell ℝ) (m c : ℕ) : Continuous (shellFn s m c) := by
  unfold shellFn
  exact continuous_finsetSum _ fun k _ => (continuous_primFn _ _ _).const_mul _

lemma integrable_shellFn_mul (s t : Shell ℝ) (ma ca mb cb : ℕ)
    (hs : ∀ k < s.nprim, 0 < s.exp! k) (ht : ∀ k < t.nprim, 0 < t.exp! k) :
    Integrable (fun r : ℝ × ℝ × ℝ => shellFn s ma ca r * shellFn t mb cb r) := by
  simpa [monoFn] using integrable_shell_mul s t (fun _ => 0) (0,0,0) ma ca mb cb hs ht

/-- the raw self-overlap is the integral of a square -/
theorem selfOverlap_nonneg (s : Shell ℝ) (m c : ℕ) (hs : ∀ k < s.nprim, 0 < s.exp! k) :
    0 ≤ (overlapBlock s s).get4 m c m c := by
  rw [overlapBlock_eq_integral s s m c m c hs hs]
  exact integral_nonneg fun r => mul_self_nonneg _

/-- **The raw self-overlap is strictly positive** as soon as the contracted function does not
vanish identically (this is the hypothesis of `C01.cart_diag_one`). -/
theorem selfOverlap_pos (s : Shell ℝ) (m c : ℕ) (hs : ∀ k < s.nprim, 0 < s.exp! k)
    (r₀ : ℝ × ℝ × ℝ) (h0 : shellFn s m c r₀ ≠ 0) :
    0 < (overlapBlock s s).get4 m c m c := by
  rw [overlapBlock_eq_integral s s m c m c hs hs,
    integral_pos_iff_support_of_nonneg (fun r => mul_self_nonneg _)
      (integrable_shellFn_mul s s m c m c hs hs)]
  have hc : Continuous fun r : ℝ × ℝ × ℝ => shellFn s m c r * shellFn s m c r :=
    (continuous_shellFn s m c).mul (continuous_shellFn s m c)
  refine hc.isOpen_support.measure_pos volume ⟨r₀, ?_⟩
  simp [Function.mem_support, h0]

/-! ## Differential-operator blocks (kinetic energy, momentum) -/

/-- one-dimensional primitive factor `(x-A)^n e^{-α(x-A)²}` -/
noncomputable def prim1 (α A : ℝ) (n : ℕ) (x : ℝ) : ℝ := (x - A)^n * exp (-α * (x - A)^2)

lemma primFn_eq_prod (α : ℝ) (A : ℕ → ℝ) (c : Comp) (r : ℝ × ℝ × ℝ) :
    primFn α A c r = prim1 α (A 0) c.1 r.1 * prim1 α (A 1) c.2.1 r.2.1 * prim1 α (A 2) c.2.2 r.2.2 := by
  unfold primFn prim1
  rw [exp_neg_mul_add3]
  ring

/-- mixed partial derivative `∂_x^{o_x} ∂_y^{o_y} ∂_z^{o_z}` of the primitive: the product of the
one-dimensional iterated derivatives of its three factors (see `mixedPartial_primFn`) -/
noncomputable def primDerivFn (α : ℝ) (A : ℕ → ℝ) (c o : Comp) (r : ℝ × ℝ × ℝ) : ℝ :=
  iteratedDeriv o.1 (prim1 α (A 0) c.1) r.1 * iteratedDeriv o.2.1 (prim1 α (A 1) c.2.1) r.2.1
    * iteratedDeriv o.2.2 (prim1 α (A 2) c.2.2) r.2.2

/-- `primDerivFn` is the genuine mixed partial derivative of `primFn`: differentiate `o_z` times
in `z`, then `o_y` times in `y`, then `o_x` times in `x`. -/
theorem mixedPartial_primFn (α : ℝ) (A : ℕ → ℝ) (c o : Comp) (r : ℝ × ℝ × ℝ) :
    iteratedDeriv o.1 (fun x => iteratedDeriv o.2.1 (fun y =>
        iteratedDeriv o.2.2 (fun z => primFn α A c (x, y, z)) r.2.2) r.2.1) r.1
      = primDerivFn α A c o r := by
  have hz : ∀ x y : ℝ, iteratedDeriv o.2.2 (fun z => primFn α A c (x, y, z)) r.2.2
      = prim1 α (A 0) c.1 x * prim1 α (A 1) c.2.1 y
          * iteratedDeriv o.2.2 (prim1 α (A 2) c.2.2) r.2.2 := by
    intro x y
    have e : (fun z => primFn α A c (x, y, z))
        = fun z => (prim1 α (A 0) c.1 x * prim1 α (A 1) c.2.1 y) * prim1 α (A 2) c.2.2 z := by
      funext z; rw [primFn_eq_prod]
    rw [e, iteratedDeriv_const_mul_field]
  have hy : ∀ x : ℝ, iteratedDeriv o.2.1 (fun y =>
        iteratedDeriv o.2.2 (fun z => primFn α A c (x, y, z)) r.2.2) r.2.1
      = prim1 α (A 0) c.1 x * (iteratedDeriv o.2.1 (prim1 α (A 1) c.2.1) r.2.1
          * iteratedDeriv o.2.2 (prim1 α (A 2) c.2.2) r.2.2) := by
    intro x
    have e : (fun y => iteratedDeriv o.2.2 (fun z => primFn α A c (x, y, z)) r.2.2)
        = fun y => prim1 α (A 0) c.1 x * ((fun y => prim1 α (A 1) c.2.1 y
            * iteratedDeriv o.2.2 (prim1 α (A 2) c.2.2) r.2.2) y) := by
      funext y; rw [hz]; ring
    rw [e, iteratedDeriv_const_mul_field, iteratedDeriv_mul_const_field]
  have e : (fun x => iteratedDeriv o.2.1 (fun y =>
        iteratedDeriv o.2.2 (fun z => primFn α A c (x, y, z)) r.2.2) r.2.1)
      = fun x => prim1 α (A 0) c.1 x * (iteratedDeriv o.2.1 (prim1 α (A 1) c.2.1) r.2.1
          * iteratedDeriv o.2.2 (prim1 α (A 2) c.2.2) r.2.2) := funext hy
  rw [e, iteratedDeriv_mul_const_field]
  unfold primDerivFn
  ring

lemma primDerivFn_zero (α : ℝ) (A : ℕ → ℝ) (c : Comp) (r : ℝ × ℝ × ℝ) :
    primDerivFn α A c (0,0,0) r = primFn α A c r := by
  rw [primFn_eq_prod]; simp [primDerivFn]

/-- `∂^o` of the un-normalised contraction -/
noncomputable def shellDerivFn (s : Shell ℝ) (m c : ℕ) (o : Comp) (r : ℝ × ℝ × ℝ) : ℝ :=
  ∑ k ∈ Finset.range s.nprim,
    s.coef! k m * normPrim (s.exp! k) s.l (s.comp! c)
      * primDerivFn (s.exp! k) s.ctr (s.comp! c) o r

lemma shellDerivFn_zero (s : Shell ℝ) (m c : ℕ) (r : ℝ × ℝ × ℝ) :
    shellDerivFn s m c (0,0,0) r = shellFn s m c r := by
  unfold shellDerivFn shellFn; simp_rw [primDerivFn_zero]

/-- one-dimensional factor: the integrand of `C02.table_entry_eq_integral` -/
noncomputable def h1 (a b A B : ℝ) (i j k : ℕ) (x : ℝ) : ℝ :=
  (x - A)^i * exp (-a * (x - A)^2) * iteratedDeriv k (prim1 b B j) x

lemma integrable_gaussPoly_mul (a b A B : ℝ) (ha : 0 < a) (hb : 0 < b) (u v : ℝ[X]) :
    Integrable fun x : ℝ => gaussPoly a A ((a * A + b * B) / (a + b)) u x
        * gaussPoly b B ((a * A + b * B) / (a + b)) v x := by
  have hp : 0 < a + b := by linarith
  set p := a + b with hpdef
  set P := (a * A + b * B) / p with hP
  have key : ∀ t : ℝ, gaussPoly a A P u (t + P) * gaussPoly b B P v (t + P)
      = exp (-(a * b / p * ((A - B) * (A - B)))) * ((u * v).eval t * exp (-p * t^2)) := by
    intro t
    have e1 : exp (-a * (t + P - A)^2) * exp (-b * (t + P - B)^2)
        = exp (-(a * b / p * ((A - B) * (A - B)))) * exp (-p * t^2) := by
      rw [← Real.exp_add, ← Real.exp_add]
      congr 1
      rw [hP]
      field_simp
      ring
    simp only [gaussPoly, add_sub_cancel_right, eval_mul]
    calc u.eval t * exp (-a * (t + P - A)^2) * (v.eval t * exp (-b * (t + P - B)^2))
        = u.eval t * v.eval t * (exp (-a * (t + P - A)^2) * exp (-b * (t + P - B)^2)) := by ring
      _ = _ := by rw [e1]; ring
  have h1 : Integrable (fun t => gaussPoly a A P u (t + P) * gaussPoly b B P v (t + P)) := by
    simp_rw [key]
    exact (integrable_poly_mul_gauss hp _).const_mul _
  have h2 := h1.comp_sub_right P
  simpa using h2

lemma integrable_h1 (a b A B : ℝ) (ha : 0 < a) (hb : 0 < b) (i j k : ℕ) :
    Integrable (h1 a b A B i j k) := by
  have h := integrable_gaussPoly_mul a b A B ha hb
    ((X + C ((a * A + b * B) / (a + b) - A))^i)
    ((Dtw b ((a * A + b * B) / (a + b) - B))^[k] ((X + C ((a * A + b * B) / (a + b) - B))^j))
  refine h.congr (Filter.Eventually.of_forall fun x => ?_)
  unfold h1 prim1
  rw [iteratedDeriv_prim b B ((a * A + b * B) / (a + b)) j k x]
  simp [gaussPoly]

lemma prim_mul_deriv_eq (a b : ℝ) (A B : ℕ → ℝ) (ca cb o : Comp) (r : ℝ × ℝ × ℝ) :
    primFn a A ca r * primDerivFn b B cb o r
      = h1 a b (A 0) (B 0) ca.1 cb.1 o.1 r.1
        * (h1 a b (A 1) (B 1) ca.2.1 cb.2.1 o.2.1 r.2.1
          * h1 a b (A 2) (B 2) ca.2.2 cb.2.2 o.2.2 r.2.2) := by
  unfold primFn primDerivFn h1
  rw [exp_neg_mul_add3]
  ring

lemma integrable_prim_mul_deriv (a b : ℝ) (A B : ℕ → ℝ) (ca cb o : Comp) (ha : 0 < a) (hb : 0 < b) :
    Integrable (fun r : ℝ × ℝ × ℝ => primFn a A ca r * primDerivFn b B cb o r) := by
  simp_rw [prim_mul_deriv_eq]
  have hyz : Integrable (fun q : ℝ × ℝ => h1 a b (A 1) (B 1) ca.2.1 cb.2.1 o.2.1 q.1
      * h1 a b (A 2) (B 2) ca.2.2 cb.2.2 o.2.2 q.2) :=
    Integrable.mul_prod (integrable_h1 a b _ _ ha hb _ _ _) (integrable_h1 a b _ _ ha hb _ _ _)
  exact Integrable.mul_prod (integrable_h1 a b (A 0) (B 0) ha hb ca.1 cb.1 o.1) hyz

/-- **Primitive differential-operator integral over ℝ³ = product of the three 1-D integrals**
(the right-hand sides of `C02.table_entry_eq_integral`). -/
theorem prim_deriv_integral (a b : ℝ) (A B : ℕ → ℝ) (ca cb o : Comp) :
    ∫ r : ℝ × ℝ × ℝ, primFn a A ca r * primDerivFn b B cb o r
      = (∫ x, h1 a b (A 0) (B 0) ca.1 cb.1 o.1 x)
        * (∫ x, h1 a b (A 1) (B 1) ca.2.1 cb.2.1 o.2.1 x)
        * (∫ x, h1 a b (A 2) (B 2) ca.2.2 cb.2.2 o.2.2 x) := by
  simp_rw [prim_mul_deriv_eq]
  rw [Measure.volume_eq_prod ℝ (ℝ × ℝ),
    integral_prod_mul (h1 a b (A 0) (B 0) ca.1 cb.1 o.1)
      (fun q : ℝ × ℝ => h1 a b (A 1) (B 1) ca.2.1 cb.2.1 o.2.1 q.1
          * h1 a b (A 2) (B 2) ca.2.2 cb.2.2 o.2.2 q.2),
    Measure.volume_eq_prod ℝ ℝ, integral_prod_mul, mul_assoc]

lemma shellFn_mul_deriv_expand (s t : Shell ℝ) (ma ca mb cb : ℕ) (o : Comp) (r : ℝ × ℝ × ℝ) :
    shellFn s ma ca r * shellDerivFn t mb cb o r
      = ∑ ka ∈ Finset.range s.nprim, ∑ kb ∈ Finset.range t.nprim,
          (cN s ma ca ka * cN t mb cb kb)
            * (primFn (s.exp! ka) s.ctr (s.comp! ca) r
                * primDerivFn (t.exp! kb) t.ctr (t.comp! cb) o r) := by
  unfold shellFn shellDerivFn cN
  rw [Finset.sum_mul_sum]
  refine Finset.sum_congr rfl fun ka _ => ?_
  refine Finset.sum_congr rfl fun kb _ => ?_
  ring

lemma integrable_shell_mul_deriv (s t : Shell ℝ) (o : Comp) (ma ca mb cb : ℕ)
    (hs : ∀ k < s.nprim, 0 < s.exp! k) (ht : ∀ k < t.nprim, 0 < t.exp! k) :
    Integrable (fun r : ℝ × ℝ × ℝ => shellFn s ma ca r * shellDerivFn t mb cb o r) := by
  simp_rw [shellFn_mul_deriv_expand]
  refine integrable_finsetSum _ fun ka hka => integrable_finsetSum _ fun kb hkb => ?_
  exact (integrable_prim_mul_deriv _ _ _ _ _ _ _ (hs ka (Finset.mem_range.mp hka))
    (ht kb (Finset.mem_range.mp hkb))).const_mul _

lemma integral_shell_mul_deriv (s t : Shell ℝ) (o : Comp) (ma ca mb cb : ℕ)
    (hs : ∀ k < s.nprim, 0 < s.exp! k) (ht : ∀ k < t.nprim, 0 < t.exp! k) :
    ∫ r : ℝ × ℝ × ℝ, shellFn s ma ca r * shellDerivFn t mb cb o r
      = ∑ ka ∈ Finset.range s.nprim, ∑ kb ∈ Finset.range t.nprim,
          (cN s ma ca ka * cN t mb cb kb)
            * ∫ r : ℝ × ℝ × ℝ, primFn (s.exp! ka) s.ctr (s.comp! ca) r
                * primDerivFn (t.exp! kb) t.ctr (t.comp! cb) o r := by
  simp_rw [shellFn_mul_deriv_expand]
  rw [integral_finsetSum]
  · refine Finset.sum_congr rfl fun ka hka => ?_
    rw [integral_finsetSum]
    · refine Finset.sum_congr rfl fun kb hkb => ?_
      rw [integral_const_mul]
    · intro kb hkb
      exact (integrable_prim_mul_deriv _ _ _ _ _ _ _ (hs ka (Finset.mem_range.mp hka))
        (ht kb (Finset.mem_range.mp hkb))).const_mul _
  · intro ka hka
    refine integrable_finsetSum _ fun kb hkb => ?_
    exact (integrable_prim_mul_deriv _ _ _ _ _ _ _ (hs ka (Finset.mem_range.mp hka))
      (ht kb (Finset.mem_range.mp hkb))).const_mul _

/-- the running maximum of `diffBlock`/`momentBlock` dominates every entry of the order list -/
lemma le_foldl_max (f : Comp → ℕ) (l : List Comp) :
    ∀ init : ℕ, init ≤ l.foldl (fun m o => max m (f o)) init
      ∧ ∀ o ∈ l, f o ≤ l.foldl (fun m o => max m (f o)) init := by
  induction l with
  | nil => intro init; simp
  | cons x xs ih =>
    intro init
    simp only [List.foldl_cons, List.mem_cons, forall_eq_or_imp]
    have h := ih (max init (f x))
    refine ⟨le_trans (le_max_left _ _) h.1, le_trans (le_max_right _ _) h.1, h.2⟩

lemma getD_le_foldl_max (orders : List Comp) (d : ℕ) :
    max (orders.getD d (0,0,0)).1 (max (orders.getD d (0,0,0)).2.1 (orders.getD d (0,0,0)).2.2)
      ≤ orders.foldl (fun m o => max m (max o.1 (max o.2.1 o.2.2))) 0 := by
  by_cases hd : d < orders.length
  · have hm : orders.getD d (0,0,0) ∈ orders := by
      rw [List.getD_eq_getElem?_getD, List.getElem?_eq_getElem hd]; exact List.getElem_mem hd
    exact (le_foldl_max (fun o => max o.1 (max o.2.1 o.2.2)) orders 0).2 _ hm
  · rw [List.getD_eq_getElem?_getD, List.getElem?_eq_none (not_lt.mp hd)]
    simp

/-- **The contracted differential-operator block of the code is the integral over ℝ³** of the
left contracted function times the mixed partial derivative `∂^o` of the right one, for every
order of the list (`o = orders[d]`), provided the left component has no exponent above the shell's
angular momentum (true for every component of a shell; this is what the padding of the 1-D
tables by `s.l` covers). -/
theorem diffBlock_eq_integral (s t : Shell ℝ) (orders : List Comp) (d ma ca mb cb : ℕ)
    (hs : ∀ k < s.nprim, 0 < s.exp! k) (ht : ∀ k < t.nprim, 0 < t.exp! k)
    (hc : (s.comp! ca).1 ≤ s.l ∧ (s.comp! ca).2.1 ≤ s.l ∧ (s.comp! ca).2.2 ≤ s.l) :
    ((diffBlock s t orders).get d).get4 ma ca mb cb
      = ∫ r : ℝ × ℝ × ℝ, shellFn s ma ca r
          * shellDerivFn t mb cb (orders.getD d (0,0,0)) r := by
  rw [integral_shell_mul_deriv s t _ ma ca mb cb hs ht]
  simp only [diffBlock, blockTab, tab_get, tab4_get, contract, Shell.normTab, tab2_get, prod3,
    pairTabs, tab3_get]
  have hmax := getD_le_foldl_max orders d
  have hx : (orders.getD d (0,0,0)).1
      ≤ orders.foldl (fun m o => max m (max o.1 (max o.2.1 o.2.2))) 0 :=
    le_trans (le_max_left _ _) hmax
  have hy : (orders.getD d (0,0,0)).2.1
      ≤ orders.foldl (fun m o => max m (max o.1 (max o.2.1 o.2.2))) 0 :=
    le_trans (le_trans (le_max_left _ _) (le_max_right _ _)) hmax
  have hz : (orders.getD d (0,0,0)).2.2
      ≤ orders.foldl (fun m o => max m (max o.1 (max o.2.1 o.2.2))) 0 :=
    le_trans (le_trans (le_max_right _ _) (le_max_right _ _)) hmax
  rw [sumN_eq_sum]
  refine Finset.sum_congr rfl fun ka hka => ?_
  rw [sumN_eq_sum]
  refine Finset.sum_congr rfl fun kb hkb => ?_
  have ha := hs ka (Finset.mem_range.mp hka)
  have hb := ht kb (Finset.mem_range.mp hkb)
  rw [C02.table_entry_eq_integral s t _ ka kb 0 _ _ _ ha hb hx hc.1,
    C02.table_entry_eq_integral s t _ ka kb 1 _ _ _ ha hb hy hc.2.1,
    C02.table_entry_eq_integral s t _ ka kb 2 _ _ _ ha hb hz hc.2.2,
    prim_deriv_integral]
  unfold cN h1 prim1
  ring

/-- **Kinetic energy**: the block of the code is `-½ ∫ g_a (∂²_x + ∂²_y + ∂²_z) g_b`. -/
theorem kineticBlock_eq_integral (s t : Shell ℝ) (ma ca mb cb : ℕ)
    (hs : ∀ k < s.nprim, 0 < s.exp! k) (ht : ∀ k < t.nprim, 0 < t.exp! k)
    (hc : (s.comp! ca).1 ≤ s.l ∧ (s.comp! ca).2.1 ≤ s.l ∧ (s.comp! ca).2.2 ≤ s.l) :
    (kineticBlock s t).get4 ma ca mb cb
      = ∫ r : ℝ × ℝ × ℝ, shellFn s ma ca r
          * (-(1/2) * (shellDerivFn t mb cb (2,0,0) r + shellDerivFn t mb cb (0,2,0) r
              + shellDerivFn t mb cb (0,0,2) r)) := by
  have e : ∀ r : ℝ × ℝ × ℝ, shellFn s ma ca r
          * (-(1/2) * (shellDerivFn t mb cb (2,0,0) r + shellDerivFn t mb cb (0,2,0) r
              + shellDerivFn t mb cb (0,0,2) r))
      = -(1/2) * (shellFn s ma ca r * shellDerivFn t mb cb (2,0,0) r
          + shellFn s ma ca r * shellDerivFn t mb cb (0,2,0) r
          + shellFn s ma ca r * shellDerivFn t mb cb (0,0,2) r) := fun r => by ring
  simp_rw [e]
  rw [integral_const_mul, integral_add, integral_add]
  · simp only [kineticBlock, blockTab, tab4_get]
    rw [diffBlock_eq_integral s t _ 0 ma ca mb cb hs ht hc,
      diffBlock_eq_integral s t _ 1 ma ca mb cb hs ht hc,
      diffBlock_eq_integral s t _ 2 ma ca mb cb hs ht hc]
    simp
  · exact integrable_shell_mul_deriv s t _ ma ca mb cb hs ht
  · exact integrable_shell_mul_deriv s t _ ma ca mb cb hs ht
  · exact (integrable_shell_mul_deriv s t _ ma ca mb cb hs ht).add
      (integrable_shell_mul_deriv s t _ ma ca mb cb hs ht)
  · exact integrable_shell_mul_deriv s t _ ma ca mb cb hs ht

/-! ## The derivative evaluations of the model are the `∂^o` in the integrals above -/

lemma axisGeneral_eq_prim1 (α A x : ℝ) (hα : 0 ≤ α) (a n : ℕ) :
    axisGeneral α (x - A) a n = iteratedDeriv n (prim1 α A a) x := by
  rw [axisGeneral_eq_iteratedDeriv α _ hα]
  have e : prim1 α A a
      = fun z => (fun y : ℝ => y ^ a * Real.exp (-(α * (y * y)))) (z - A) := by
    funext z
    simp only [prim1]
    congr 2
    ring
  rw [e, iteratedDeriv_comp_sub_const n (fun y : ℝ => y ^ a * Real.exp (-(α * (y * y)))) A]

/-- **The general back-end of the evaluation model at derivative order `o` computes
`shellDerivFn … o`**, the function integrated in `diffBlock_eq_integral` and
`kineticBlock_eq_integral`. -/
theorem evalBlock_general_eq_shellDerivFn (s : Shell ℝ) (o : Comp) (pts : Array (ℕ → ℝ))
    (m c p : ℕ) (r : ℝ × ℝ × ℝ) (hs : ∀ k < s.nprim, 0 < s.exp! k)
    (hp : p < pts.size) (h0 : pts[p] 0 = r.1) (h1 : pts[p] 1 = r.2.1) (h2 : pts[p] 2 = r.2.2) :
    (evalBlock s .general o pts).get3 m c p = shellDerivFn s m c o r := by
  have hg : pts.getD p (fun _ => Num.nat 0) = pts[p] := by
    simp [Array.getD, hp]
  simp only [evalBlock, tab3_get, tab4_get, Shell.normTab, tab2_get, Comp.ax, hg, h0, h1, h2]
  rw [sumN_eq_sum]
  unfold shellDerivFn primDerivFn
  refine Finset.sum_congr rfl fun k hk => ?_
  have hk' := (hs k (Finset.mem_range.mp hk)).le
  rw [axisGeneral_eq_prim1 _ _ _ hk', axisGeneral_eq_prim1 _ _ _ hk',
    axisGeneral_eq_prim1 _ _ _ hk']
  ring


end GB
