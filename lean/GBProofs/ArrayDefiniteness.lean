import GBProofs.SphericalNorm
import GBProofs.Definiteness
import GBProofs.SmoothInstance
import GBProofs.Layout
import GBProofs.RigidMotion

/-!
# Definiteness of the assembled arrays (C17) and non-negativity of the densities (C06)

All statements are about the arrays the model assembles for a whole basis (`entry2 b b (pairBlocks …)`
and the flat `assemble2 …`): every shell, Cartesian and spherical, after `norm_cont` and the
Cartesian → spherical transformation.

* §1 `quadForm_congr`, `psd_congr`, `nsd_congr`, `symm_congr`: `M ↦ T M Tᵀ` (any shape of `T`).
* §2 `entry2_eq_sum`: an entry is the `cw`-weighted double sum of raw Cartesian block entries.
* §3 `entry2_eq_TMT`: the array is `T · (raw Cartesian matrix) · Tᵀ`; generic lifts.
* §4 `overlap_array_psd / _symm / _abs_le_one`, `kinetic_array_psd / _symm`,
  `pointCharge_array_nsd / _symm / _sum_nsd`, user transformations, flat-array forms.
* §5 `basisFn`, `overlap_entry_eq_integral`, `overlap_array_quadForm_eq`,
  `kinetic_entry_eq_gradient`, `pointCharge_entry_eq_integral`.
* §6 `density_nonneg`, `posdefKE_nonneg_of_values`, `rho_nonneg`, `posdefKE_nonneg`.
-/
open MeasureTheory Real

namespace GB

/-! ## 1. Definiteness is preserved by `T M Tᵀ` -/
section Congr
variable {ι κ : Type*} [Fintype ι] [Fintype κ]

theorem quadForm_congr (M : ι → ι → ℝ) (T : κ → ι → ℝ) (x : κ → ℝ) :
    quadForm (fun i j => ∑ a, ∑ b, T i a * M a b * T j b) x
      = quadForm M (fun a => ∑ i, x i * T i a) := by
  unfold quadForm
  have hR : ∀ a b, (∑ i, x i * T i a) * M a b * (∑ j, x j * T j b)
      = ∑ i, ∑ j, x i * (T i a * M a b * T j b) * x j := by
    intro a b
    rw [Finset.sum_mul, Finset.sum_mul_sum]
    refine Finset.sum_congr rfl fun i _ => ?_
    refine Finset.sum_congr rfl fun j _ => ?_
    ring
  simp_rw [hR]
  have hL : ∀ i j, x i * (∑ a, ∑ b, T i a * M a b * T j b) * x j
      = ∑ a, ∑ b, x i * (T i a * M a b * T j b) * x j := by
    intro i j
    rw [Finset.mul_sum, Finset.sum_mul]
    refine Finset.sum_congr rfl fun a _ => ?_
    rw [Finset.mul_sum, Finset.sum_mul]
  simp_rw [hL]
  -- ∑ i ∑ j ∑ a ∑ b = ∑ a ∑ b ∑ i ∑ j
  calc ∑ i, ∑ j, ∑ a, ∑ b, x i * (T i a * M a b * T j b) * x j
      = ∑ i, ∑ a, ∑ j, ∑ b, x i * (T i a * M a b * T j b) * x j :=
        Finset.sum_congr rfl fun i _ => Finset.sum_comm
    _ = ∑ a, ∑ i, ∑ j, ∑ b, x i * (T i a * M a b * T j b) * x j := Finset.sum_comm
    _ = ∑ a, ∑ i, ∑ b, ∑ j, x i * (T i a * M a b * T j b) * x j :=
        Finset.sum_congr rfl fun a _ => Finset.sum_congr rfl fun i _ => Finset.sum_comm
    _ = ∑ a, ∑ b, ∑ i, ∑ j, x i * (T i a * M a b * T j b) * x j :=
        Finset.sum_congr rfl fun a _ => Finset.sum_comm

/-- positive semi-definiteness is preserved by `M ↦ T M Tᵀ`, `T` of any shape -/
theorem psd_congr (M : ι → ι → ℝ) (T : κ → ι → ℝ) (hM : ∀ y, 0 ≤ quadForm M y) (x : κ → ℝ) :
    0 ≤ quadForm (fun i j => ∑ a, ∑ b, T i a * M a b * T j b) x := by
  rw [quadForm_congr]; exact hM _

/-- negative semi-definiteness is preserved by `M ↦ T M Tᵀ` -/
theorem nsd_congr (M : ι → ι → ℝ) (T : κ → ι → ℝ) (hM : ∀ y, quadForm M y ≤ 0) (x : κ → ℝ) :
    quadForm (fun i j => ∑ a, ∑ b, T i a * M a b * T j b) x ≤ 0 := by
  rw [quadForm_congr]; exact hM _

omit [Fintype κ] in
/-- symmetry is preserved by `M ↦ T M Tᵀ` -/
theorem symm_congr (M : ι → ι → ℝ) (T : κ → ι → ℝ) (hM : ∀ a b, M a b = M b a) (i j : κ) :
    (∑ a, ∑ b, T i a * M a b * T j b) = ∑ a, ∑ b, T j a * M a b * T i b := by
  rw [Finset.sum_comm]
  refine Finset.sum_congr rfl fun b _ => Finset.sum_congr rfl fun a _ => ?_
  rw [hM a b]; ring

end Congr

/-! ## 2. The entries of an assembled two-index array as sums over Cartesian components -/
section Entries

/-- shell, segment and function number of basis index `r` -/
noncomputable def shellOf (b : Basis ℝ) (r : ℕ) : Shell ℝ := b[(b.locate r).1]!
def segOf (b : Basis ℝ) (r : ℕ) : ℕ := (b.locate r).2.1
def funOf (b : Basis ℝ) (r : ℕ) : ℕ := (b.locate r).2.2

/-- weight of Cartesian component `a` in function `(m, f)` of shell `s`, as one expression for both
coordinate types -/
noncomputable def cwS (s : Shell ℝ) (m f a : ℕ) : ℝ :=
  if s.sph then s.weights.get3 m f a else if a = f then s.weights.get3 m f f else 0

/-- weight of Cartesian component `a` (of the shell and segment of `r`) in basis function `r` -/
noncomputable def cw (b : Basis ℝ) (r a : ℕ) : ℝ := cwS (shellOf b r) (segOf b r) (funOf b r) a

theorem stage_eq (s : Shell ℝ) (m f : ℕ) (hf : f < s.nfun) (B : ℕ → ℝ) :
    (if s.sph then ∑ a ∈ Finset.range s.ncart, s.weights.get3 m f a * B a
      else s.weights.get3 m f f * B f)
      = ∑ a ∈ Finset.range s.ncart, cwS s m f a * B a := by
  unfold cwS
  cases hsph : s.sph with
  | true => simp
  | false =>
    have hf' : f < s.ncart := by simpa [Shell.nfun, hsph, Shell.ncart] using hf
    simp only [Bool.false_eq_true, if_false]
    rw [Finset.sum_eq_single f]
    · simp
    · intro a _ hne; simp [hne]
    · intro h; exact absurd (Finset.mem_range.mpr hf') h

/-- entry `(m, f; n, g)` of a normalised, transformed block as a double sum over the Cartesian
components of the two shells -/
theorem wBlock2_get4_eq_sum (s t : Shell ℝ) (blk : Tab4 ℝ) (m f n g : ℕ) (hf : f < s.nfun)
    (hg : g < t.nfun) :
    (wBlock2 s t s.weights t.weights blk).get4 m f n g
      = ∑ a ∈ Finset.range s.ncart, ∑ a' ∈ Finset.range t.ncart,
          cwS s m f a * cwS t n g a' * blk.get4 m a n a' := by
  simp only [wBlock2, tab4_get, sumN_eq_sum]
  refine (stage_eq t n g hg _).trans ?_
  rw [Finset.sum_comm]
  refine Finset.sum_congr rfl fun a' _ => ?_
  rw [stage_eq s m f hf (fun a => blk.get4 m a n a'), Finset.mul_sum]
  refine Finset.sum_congr rfl fun a _ => ?_
  ring

theorem shellOf_eq (b : Basis ℝ) (r : ℕ) (hi : (b.locate r).1 < b.size) :
    shellOf b r = b[(b.locate r).1] := getElem!_pos b _ hi

/-- **Entries of an assembled array.**  For `r, c < b.total`, entry `(r, c, e)` is the double sum over
the Cartesian components of the raw block entries of the two shells, weighted by `cw`. -/
theorem entry2_eq_sum (b : Basis ℝ) (nextra : ℕ) (blk : ℕ → ℕ → Tab (Tab4 ℝ)) (r c e : ℕ)
    (hr : r < b.total) (hc : c < b.total) :
    entry2 b b (pairBlocks b b nextra blk) r c e
      = ∑ a ∈ Finset.range (shellOf b r).ncart, ∑ a' ∈ Finset.range (shellOf b c).ncart,
          cw b r a * cw b c a'
            * ((blk (b.locate r).1 (b.locate c).1).get e).get4 (segOf b r) a (segOf b c) a' := by
  obtain ⟨hi, hm, hf, -⟩ := locate_lt b r hr
  obtain ⟨hj, hn, hg, -⟩ := locate_lt b c hc
  unfold entry2
  simp only []
  rw [pairBlocks_get b b nextra blk _ _ e hi hj]
  unfold cw segOf funOf
  rw [shellOf_eq b r hi, shellOf_eq b c hj]
  exact wBlock2_get4_eq_sum _ _ _ _ _ _ _ hf hg

end Entries

/-! ## 3. The assembled array is `T M Tᵀ` of the matrix of Cartesian contracted functions -/
section TMT

/-- index type of the Cartesian contracted functions underlying the basis functions: (basis index
`r`, Cartesian component `a` of the shell of `r`).  (Several `r` of one shell and segment share their
Cartesian functions; duplicates are harmless.) -/
abbrev CartIx (b : Basis ℝ) : Type := Σ r : Fin b.total, Fin (shellOf b r.1).ncart

/-- the rectangular matrix of weights: row `r` is non-zero only on the components of `r` -/
noncomputable def cwMat (b : Basis ℝ) (r : Fin b.total) (α : CartIx b) : ℝ :=
  if α.1 = r then cw b α.1.1 α.2.1 else 0

theorem sum_cwMat (b : Basis ℝ) (r : Fin b.total) (g : CartIx b → ℝ) :
    ∑ α, cwMat b r α * g α = ∑ a : Fin (shellOf b r.1).ncart, cw b r.1 a.1 * g ⟨r, a⟩ := by
  rw [Fintype.sum_sigma]
  rw [Finset.sum_eq_single r]
  · simp [cwMat]
  · intro r' _ hne
    simp [cwMat, hne]
  · intro h; exact absurd (Finset.mem_univ r) h

/-- the matrix of raw block entries over the Cartesian contracted functions -/
noncomputable def rawMat (b : Basis ℝ) (blk : ℕ → ℕ → Tab (Tab4 ℝ)) (e : ℕ) (α β : CartIx b) : ℝ :=
  ((blk (b.locate α.1.1).1 (b.locate β.1.1).1).get e).get4 (segOf b α.1.1) α.2.1 (segOf b β.1.1) β.2.1

/-- **the assembled array is `T · (raw blocks) · Tᵀ`** -/
theorem entry2_eq_TMT (b : Basis ℝ) (nextra : ℕ) (blk : ℕ → ℕ → Tab (Tab4 ℝ)) (e : ℕ)
    (r c : Fin b.total) :
    entry2 b b (pairBlocks b b nextra blk) r.1 c.1 e
      = ∑ α, ∑ β, cwMat b r α * rawMat b blk e α β * cwMat b c β := by
  rw [entry2_eq_sum b nextra blk r.1 c.1 e r.2 c.2]
  have h1 : ∀ α : CartIx b, ∑ β, cwMat b r α * rawMat b blk e α β * cwMat b c β
      = cwMat b r α * ∑ β, cwMat b c β * rawMat b blk e α β := by
    intro α
    rw [Finset.mul_sum]
    refine Finset.sum_congr rfl fun β _ => ?_
    ring
  simp_rw [h1]
  rw [sum_cwMat b r, Finset.sum_range]
  refine Finset.sum_congr rfl fun a _ => ?_
  rw [sum_cwMat b c, Finset.sum_range, Finset.mul_sum]
  refine Finset.sum_congr rfl fun a' _ => ?_
  unfold rawMat
  ring

/-- generic lift: if the raw block entries form a positive semi-definite matrix over the Cartesian
contracted functions, the assembled array is positive semi-definite -/
theorem array_psd_of_raw (b : Basis ℝ) (nextra : ℕ) (blk : ℕ → ℕ → Tab (Tab4 ℝ)) (e : ℕ)
    (hpsd : ∀ y, 0 ≤ quadForm (rawMat b blk e) y) (x : Fin b.total → ℝ) :
    0 ≤ quadForm (fun r c : Fin b.total => entry2 b b (pairBlocks b b nextra blk) r.1 c.1 e) x := by
  simp_rw [entry2_eq_TMT b nextra blk e]
  exact psd_congr _ _ hpsd x

theorem array_nsd_of_raw (b : Basis ℝ) (nextra : ℕ) (blk : ℕ → ℕ → Tab (Tab4 ℝ)) (e : ℕ)
    (hnsd : ∀ y, quadForm (rawMat b blk e) y ≤ 0) (x : Fin b.total → ℝ) :
    quadForm (fun r c : Fin b.total => entry2 b b (pairBlocks b b nextra blk) r.1 c.1 e) x ≤ 0 := by
  simp_rw [entry2_eq_TMT b nextra blk e]
  exact nsd_congr _ _ hnsd x

theorem array_symm_of_raw (b : Basis ℝ) (nextra : ℕ) (blk : ℕ → ℕ → Tab (Tab4 ℝ)) (e : ℕ)
    (hsymm : ∀ α β, rawMat b blk e α β = rawMat b blk e β α) (r c : Fin b.total) :
    entry2 b b (pairBlocks b b nextra blk) r.1 c.1 e
      = entry2 b b (pairBlocks b b nextra blk) c.1 r.1 e := by
  rw [entry2_eq_TMT b nextra blk e, entry2_eq_TMT b nextra blk e]
  exact symm_congr _ _ hsymm r c

end TMT

/-! ## 4. Overlap, kinetic-energy and point-charge arrays of a basis -/
section Arrays

/-- all exponents of all shells are positive -/
def Basis.ExpsPos (b : Basis ℝ) : Prop :=
  ∀ (i : ℕ) (hi : i < b.size), ∀ k < b[i].nprim, 0 < b[i].exp! k

/-- every Cartesian component in use has total degree at most the angular momentum of its shell
(in gbasis: exactly `l`) -/
def Basis.CompsLe (b : Basis ℝ) : Prop :=
  ∀ (i : ℕ) (hi : i < b.size), ∀ a < b[i].ncart,
    (b[i].comp! a).1 + (b[i].comp! a).2.1 + (b[i].comp! a).2.2 ≤ b[i].l

theorem Basis.Regular.expsPos {b : Basis ℝ} (hb : b.Regular) : b.ExpsPos := hb.exps_pos

theorem shellOf_exps_pos (b : Basis ℝ) (hb : b.ExpsPos) (r : ℕ) (hr : r < b.total) :
    ∀ k < (shellOf b r).nprim, 0 < (shellOf b r).exp! k := by
  obtain ⟨hi, -⟩ := locate_lt b r hr
  rw [shellOf_eq b r hi]; exact hb _ hi

theorem shellOf_comps_le (b : Basis ℝ) (hb : b.CompsLe) (r : ℕ) (hr : r < b.total) :
    ∀ a < (shellOf b r).ncart, ((shellOf b r).comp! a).1 + ((shellOf b r).comp! a).2.1
      + ((shellOf b r).comp! a).2.2 ≤ (shellOf b r).l := by
  obtain ⟨hi, -⟩ := locate_lt b r hr
  rw [shellOf_eq b r hi]; exact hb _ hi

/-- the three families that index the Cartesian contracted functions -/
noncomputable def cartShell (b : Basis ℝ) (α : CartIx b) : Shell ℝ := shellOf b α.1.1
def cartSeg (b : Basis ℝ) (α : CartIx b) : ℕ := segOf b α.1.1
def cartComp (b : Basis ℝ) (α : CartIx b) : ℕ := α.2.1

theorem cartShell_exps_pos (b : Basis ℝ) (hb : b.ExpsPos) (α : CartIx b) :
    ∀ k < (cartShell b α).nprim, 0 < (cartShell b α).exp! k :=
  shellOf_exps_pos b hb α.1.1 α.1.2

theorem cartShell_comps_le (b : Basis ℝ) (hb : b.CompsLe) (α : CartIx b) :
    ((cartShell b α).comp! (cartComp b α)).1 + ((cartShell b α).comp! (cartComp b α)).2.1
      + ((cartShell b α).comp! (cartComp b α)).2.2 ≤ (cartShell b α).l :=
  shellOf_comps_le b hb α.1.1 α.1.2 α.2.1 α.2.2

/-! ### overlap -/

theorem rawMat_overlap (b : Basis ℝ) :
    rawMat b (overlapBlk b) 0 = overlapMat (cartShell b) (cartSeg b) (cartComp b) := by
  funext α β
  simp only [rawMat, overlapBlk, tab_get, overlapMat, cartShell, cartSeg, cartComp, shellOf]

/-- **C17, overlap array: positive semi-definite.** -/
theorem overlap_array_psd (b : Basis ℝ) (hb : b.ExpsPos) (x : Fin b.total → ℝ) :
    0 ≤ ∑ r : Fin b.total, ∑ c : Fin b.total,
      x r * entry2 b b (pairBlocks b b 1 (overlapBlk b)) r c 0 * x c := by
  refine array_psd_of_raw b 1 (overlapBlk b) 0 ?_ x
  rw [rawMat_overlap]
  exact overlap_psd _ _ _ (cartShell_exps_pos b hb)

/-- **C17, overlap array: symmetric.** -/
theorem overlap_array_symm (b : Basis ℝ) (hb : b.ExpsPos) (r c : ℕ) (hr : r < b.total)
    (hc : c < b.total) :
    entry2 b b (pairBlocks b b 1 (overlapBlk b)) r c 0
      = entry2 b b (pairBlocks b b 1 (overlapBlk b)) c r 0 := by
  refine array_symm_of_raw b 1 (overlapBlk b) 0 ?_ ⟨r, hr⟩ ⟨c, hc⟩
  rw [rawMat_overlap]
  exact overlapMat_symm _ _ _ (cartShell_exps_pos b hb)

/-- **C17, overlap array: all elements at most 1 in magnitude.** -/
theorem overlap_array_abs_le_one (b : Basis ℝ) (hb : b.Regular) (r c : ℕ) (hr : r < b.total)
    (hc : c < b.total) :
    |entry2 b b (pairBlocks b b 1 (overlapBlk b)) r c 0| ≤ 1 := by
  have h := psd_abs_le
    (fun r c : Fin b.total => entry2 b b (pairBlocks b b 1 (overlapBlk b)) r.1 c.1 0)
    (fun r c => overlap_array_symm b hb.expsPos r.1 c.1 r.2 c.2)
    (fun x => overlap_array_psd b hb.expsPos x) ⟨r, hr⟩ ⟨c, hc⟩
  simp only [overlap_array_diag_one b hb r hr, overlap_array_diag_one b hb c hc, Real.sqrt_one,
    mul_one] at h
  exact h

/-! ### kinetic energy -/

/-- the `blk` argument with which `Driver.lean` calls `assemble2` for `"kinetic"` -/
noncomputable def kineticBlk (b : Basis ℝ) (i j : ℕ) : Tab (Tab4 ℝ) :=
  tab 1 fun _ => kineticBlock b[i]! b[j]!

theorem rawMat_kinetic (b : Basis ℝ) :
    rawMat b (kineticBlk b) 0 = kineticMat (cartShell b) (cartSeg b) (cartComp b) := by
  funext α β
  simp only [rawMat, kineticBlk, tab_get, kineticMat, cartShell, cartSeg, cartComp, shellOf]

theorem cartShell_comps_le' (b : Basis ℝ) (hb : b.CompsLe) (α : CartIx b) :
    ((cartShell b α).comp! (cartComp b α)).1 ≤ (cartShell b α).l
      ∧ ((cartShell b α).comp! (cartComp b α)).2.1 ≤ (cartShell b α).l
      ∧ ((cartShell b α).comp! (cartComp b α)).2.2 ≤ (cartShell b α).l := by
  have := cartShell_comps_le b hb α
  omega

/-- **C17, kinetic-energy array: positive semi-definite.** -/
theorem kinetic_array_psd (b : Basis ℝ) (hb : b.ExpsPos) (hc : b.CompsLe) (x : Fin b.total → ℝ) :
    0 ≤ ∑ r : Fin b.total, ∑ c : Fin b.total,
      x r * entry2 b b (pairBlocks b b 1 (kineticBlk b)) r c 0 * x c := by
  refine array_psd_of_raw b 1 (kineticBlk b) 0 ?_ x
  rw [rawMat_kinetic]
  exact kinetic_psd _ _ _ (cartShell_exps_pos b hb) (cartShell_comps_le' b hc)

/-- **kinetic-energy array: symmetric.** -/
theorem kinetic_array_symm (b : Basis ℝ) (hb : b.ExpsPos) (hc : b.CompsLe) (r c : ℕ)
    (hr : r < b.total) (hc' : c < b.total) :
    entry2 b b (pairBlocks b b 1 (kineticBlk b)) r c 0
      = entry2 b b (pairBlocks b b 1 (kineticBlk b)) c r 0 := by
  refine array_symm_of_raw b 1 (kineticBlk b) 0 ?_ ⟨r, hr⟩ ⟨c, hc'⟩
  rw [rawMat_kinetic]
  exact kineticMat_symm _ _ _ (cartShell_exps_pos b hb) (cartShell_comps_le' b hc)

/-! ### point charges -/

/-- the `blk` argument with which `Driver.lean` calls `assemble2` for `"pointcharge"`: one trailing
entry `e` per point charge `qs e` at `pts e` -/
noncomputable def pointChargeBlk (boysT : ℝ → ℕ → Tab ℝ) (b : Basis ℝ) (np : ℕ) (pts : ℕ → ℕ → ℝ)
    (qs : ℕ → ℝ) (i j : ℕ) : Tab (Tab4 ℝ) :=
  tab np fun e => pointChargeBlock boysT b[i]! b[j]! (pts e) (qs e)

theorem rawMat_pointCharge (boysT : ℝ → ℕ → Tab ℝ) (b : Basis ℝ) (np : ℕ) (pts : ℕ → ℕ → ℝ)
    (qs : ℕ → ℝ) (e : ℕ) :
    rawMat b (pointChargeBlk boysT b np pts qs) e
      = pointChargeMat boysT (pts e) (qs e) (cartShell b) (cartSeg b) (cartComp b) := by
  funext α β
  simp only [rawMat, pointChargeBlk, tab_get, pointChargeMat, cartShell, cartSeg, cartComp, shellOf]

/-- **C17, point-charge array: negative semi-definite for every charge `qs e ≥ 0`** (slice `e` of the
array `[r][c][e]`). -/
theorem pointCharge_array_nsd (boysT : ℝ → ℕ → Tab ℝ)
    (hboys : ∀ T n m, m < n → (boysT T n).get m = boys T m) (b : Basis ℝ) (hb : b.ExpsPos)
    (hc : b.CompsLe) (np : ℕ) (pts : ℕ → ℕ → ℝ) (qs : ℕ → ℝ) (e : ℕ) (hq : 0 ≤ qs e)
    (x : Fin b.total → ℝ) :
    ∑ r : Fin b.total, ∑ c : Fin b.total,
      x r * entry2 b b (pairBlocks b b np (pointChargeBlk boysT b np pts qs)) r c e * x c ≤ 0 := by
  refine array_nsd_of_raw b np (pointChargeBlk boysT b np pts qs) e ?_ x
  rw [rawMat_pointCharge]
  exact pointCharge_nsd boysT hboys _ _ hq _ _ _ (cartShell_exps_pos b hb) (cartShell_comps_le b hc)

/-- **point-charge array: symmetric.** -/
theorem pointCharge_array_symm (boysT : ℝ → ℕ → Tab ℝ)
    (hboys : ∀ T n m, m < n → (boysT T n).get m = boys T m) (b : Basis ℝ) (hb : b.ExpsPos)
    (hc : b.CompsLe) (np : ℕ) (pts : ℕ → ℕ → ℝ) (qs : ℕ → ℝ) (e r c : ℕ) (hr : r < b.total)
    (hc' : c < b.total) :
    entry2 b b (pairBlocks b b np (pointChargeBlk boysT b np pts qs)) r c e
      = entry2 b b (pairBlocks b b np (pointChargeBlk boysT b np pts qs)) c r e := by
  refine array_symm_of_raw b np (pointChargeBlk boysT b np pts qs) e ?_ ⟨r, hr⟩ ⟨c, hc'⟩
  rw [rawMat_pointCharge]
  exact pointChargeMat_symm boysT hboys _ _ _ _ _ (cartShell_exps_pos b hb)
    (cartShell_comps_le b hc)

/-- the single-charge form: `blk i j = tab 1 fun _ => pointChargeBlock boysT b[i]! b[j]! Cpt q` -/
theorem pointCharge_array_nsd_one (boysT : ℝ → ℕ → Tab ℝ)
    (hboys : ∀ T n m, m < n → (boysT T n).get m = boys T m) (b : Basis ℝ) (hb : b.ExpsPos)
    (hc : b.CompsLe) (Cpt : ℕ → ℝ) (q : ℝ) (hq : 0 ≤ q) (x : Fin b.total → ℝ) :
    ∑ r : Fin b.total, ∑ c : Fin b.total,
      x r * entry2 b b (pairBlocks b b 1
        (fun i j => tab 1 fun _ => pointChargeBlock boysT b[i]! b[j]! Cpt q)) r c 0 * x c ≤ 0 :=
  pointCharge_array_nsd boysT hboys b hb hc 1 (fun _ => Cpt) (fun _ => q) 0 hq x

/-- the matrix of the total potential of `np` non-negative charges (the sum of the slices, as in the
nuclear-attraction matrix) is negative semi-definite -/
theorem pointCharge_array_sum_nsd (boysT : ℝ → ℕ → Tab ℝ)
    (hboys : ∀ T n m, m < n → (boysT T n).get m = boys T m) (b : Basis ℝ) (hb : b.ExpsPos)
    (hc : b.CompsLe) (np : ℕ) (pts : ℕ → ℕ → ℝ) (qs : ℕ → ℝ) (hq : ∀ e < np, 0 ≤ qs e)
    (x : Fin b.total → ℝ) :
    ∑ r : Fin b.total, ∑ c : Fin b.total,
      x r * (∑ e ∈ Finset.range np,
        entry2 b b (pairBlocks b b np (pointChargeBlk boysT b np pts qs)) r c e) * x c ≤ 0 := by
  have e1 : ∑ r : Fin b.total, ∑ c : Fin b.total,
        x r * (∑ e ∈ Finset.range np,
          entry2 b b (pairBlocks b b np (pointChargeBlk boysT b np pts qs)) r c e) * x c
      = ∑ e ∈ Finset.range np, ∑ r : Fin b.total, ∑ c : Fin b.total,
          x r * entry2 b b (pairBlocks b b np (pointChargeBlk boysT b np pts qs)) r c e * x c := by
    simp_rw [Finset.mul_sum, Finset.sum_mul]
    exact (Finset.sum_congr rfl fun r _ => Finset.sum_comm).trans Finset.sum_comm
  rw [e1]
  exact Finset.sum_nonpos fun e he =>
    pointCharge_array_nsd boysT hboys b hb hc np pts qs e (hq e (Finset.mem_range.mp he)) x

/-! ### a further (user) transformation `T · array · Tᵀ` -/

/-- the overlap array after any further linear transformation `T` (rectangular allowed), as done by
the `transform=` argument, is still symmetric positive semi-definite -/
theorem overlap_array_transform_psd {κ : Type*} [Fintype κ] (b : Basis ℝ) (hb : b.ExpsPos)
    (T : κ → Fin b.total → ℝ) (x : κ → ℝ) :
    0 ≤ ∑ i, ∑ j, x i * (∑ r : Fin b.total, ∑ c : Fin b.total,
      T i r * entry2 b b (pairBlocks b b 1 (overlapBlk b)) r c 0 * T j c) * x j :=
  psd_congr (fun r c : Fin b.total => entry2 b b (pairBlocks b b 1 (overlapBlk b)) r.1 c.1 0) T
    (fun y => overlap_array_psd b hb y) x

theorem overlap_array_transform_symm {κ : Type*} (b : Basis ℝ) (hb : b.ExpsPos)
    (T : κ → Fin b.total → ℝ) (i j : κ) :
    (∑ r : Fin b.total, ∑ c : Fin b.total,
      T i r * entry2 b b (pairBlocks b b 1 (overlapBlk b)) r c 0 * T j c)
    = ∑ r : Fin b.total, ∑ c : Fin b.total,
      T j r * entry2 b b (pairBlocks b b 1 (overlapBlk b)) r c 0 * T i c :=
  symm_congr (fun r c : Fin b.total => entry2 b b (pairBlocks b b 1 (overlapBlk b)) r.1 c.1 0) T
    (fun r c => overlap_array_symm b hb r.1 c.1 r.2 c.2) i j

theorem kinetic_array_transform_psd {κ : Type*} [Fintype κ] (b : Basis ℝ) (hb : b.ExpsPos)
    (hc : b.CompsLe) (T : κ → Fin b.total → ℝ) (x : κ → ℝ) :
    0 ≤ ∑ i, ∑ j, x i * (∑ r : Fin b.total, ∑ c : Fin b.total,
      T i r * entry2 b b (pairBlocks b b 1 (kineticBlk b)) r c 0 * T j c) * x j :=
  psd_congr (fun r c : Fin b.total => entry2 b b (pairBlocks b b 1 (kineticBlk b)) r.1 c.1 0) T
    (fun y => kinetic_array_psd b hb hc y) x

theorem pointCharge_array_transform_nsd {κ : Type*} [Fintype κ] (boysT : ℝ → ℕ → Tab ℝ)
    (hboys : ∀ T n m, m < n → (boysT T n).get m = boys T m) (b : Basis ℝ) (hb : b.ExpsPos)
    (hc : b.CompsLe) (np : ℕ) (pts : ℕ → ℕ → ℝ) (qs : ℕ → ℝ) (e : ℕ) (hq : 0 ≤ qs e)
    (T : κ → Fin b.total → ℝ) (x : κ → ℝ) :
    ∑ i, ∑ j, x i * (∑ r : Fin b.total, ∑ c : Fin b.total,
      T i r * entry2 b b (pairBlocks b b np (pointChargeBlk boysT b np pts qs)) r c e * T j c) * x j
      ≤ 0 :=
  nsd_congr (fun r c : Fin b.total =>
      entry2 b b (pairBlocks b b np (pointChargeBlk boysT b np pts qs)) r.1 c.1 e) T
    (fun y => pointCharge_array_nsd boysT hboys b hb hc np pts qs e hq y) x

/-! ### the flat arrays `assemble2 …` that the driver prints -/

theorem overlap_flat_abs_le_one (b : Basis ℝ) (hb : b.Regular) (r c : ℕ) (hr : r < b.total)
    (hc : c < b.total) :
    |(assemble2 b b 1 (overlapBlk b))[(r * b.total + c) * 1 + 0]!| ≤ 1 := by
  rw [assemble2_get b b 1 (overlapBlk b) r c 0 hr hc (by omega)]
  exact overlap_array_abs_le_one b hb r c hr hc

theorem overlap_flat_symm (b : Basis ℝ) (hb : b.ExpsPos) (r c : ℕ) (hr : r < b.total)
    (hc : c < b.total) :
    (assemble2 b b 1 (overlapBlk b))[(r * b.total + c) * 1 + 0]!
      = (assemble2 b b 1 (overlapBlk b))[(c * b.total + r) * 1 + 0]! := by
  rw [assemble2_get b b 1 (overlapBlk b) r c 0 hr hc (by omega),
    assemble2_get b b 1 (overlapBlk b) c r 0 hc hr (by omega)]
  exact overlap_array_symm b hb r c hr hc

theorem overlap_flat_psd (b : Basis ℝ) (hb : b.ExpsPos) (x : Fin b.total → ℝ) :
    0 ≤ ∑ r : Fin b.total, ∑ c : Fin b.total,
      x r * (assemble2 b b 1 (overlapBlk b))[(r.1 * b.total + c.1) * 1 + 0]! * x c := by
  simp_rw [fun r c : Fin b.total => assemble2_get b b 1 (overlapBlk b) r.1 c.1 0 r.2 c.2 (by omega)]
  exact overlap_array_psd b hb x

theorem kinetic_flat_psd (b : Basis ℝ) (hb : b.ExpsPos) (hc : b.CompsLe) (x : Fin b.total → ℝ) :
    0 ≤ ∑ r : Fin b.total, ∑ c : Fin b.total,
      x r * (assemble2 b b 1 (kineticBlk b))[(r.1 * b.total + c.1) * 1 + 0]! * x c := by
  simp_rw [fun r c : Fin b.total => assemble2_get b b 1 (kineticBlk b) r.1 c.1 0 r.2 c.2 (by omega)]
  exact kinetic_array_psd b hb hc x

theorem pointCharge_flat_nsd (boysT : ℝ → ℕ → Tab ℝ)
    (hboys : ∀ T n m, m < n → (boysT T n).get m = boys T m) (b : Basis ℝ) (hb : b.ExpsPos)
    (hc : b.CompsLe) (np : ℕ) (pts : ℕ → ℕ → ℝ) (qs : ℕ → ℝ) (e : ℕ) (he : e < np) (hq : 0 ≤ qs e)
    (x : Fin b.total → ℝ) :
    ∑ r : Fin b.total, ∑ c : Fin b.total,
      x r * (assemble2 b b np (pointChargeBlk boysT b np pts qs))[(r.1 * b.total + c.1) * np + e]!
        * x c ≤ 0 := by
  simp_rw [fun r c : Fin b.total =>
    assemble2_get b b np (pointChargeBlk boysT b np pts qs) r.1 c.1 e r.2 c.2 he]
  exact pointCharge_array_nsd boysT hboys b hb hc np pts qs e hq x

end Arrays

/-! ## 5. The basis functions of the array; entries as integrals -/
section BasisFunctions

/-- **basis function number `r` of the assembled arrays**: with `(i, m, f) = b.locate r`, `s = b[i]`,
the contraction of the Cartesian contracted functions of segment `m` of `s` with the weights
(`norm_cont` · Cartesian → spherical matrix) if `s` is spherical, the weighted Cartesian function
`f` otherwise -/
noncomputable def basisFn (b : Basis ℝ) (r : ℕ) (x : ℝ × ℝ × ℝ) : ℝ :=
  if (shellOf b r).sph then
    ∑ a ∈ Finset.range (shellOf b r).ncart,
      (shellOf b r).weights.get3 (segOf b r) (funOf b r) a * shellFn (shellOf b r) (segOf b r) a x
  else (shellOf b r).weights.get3 (segOf b r) (funOf b r) (funOf b r)
    * shellFn (shellOf b r) (segOf b r) (funOf b r) x

/-- the linear combination with the weights `cw` of a family of functions attached to the Cartesian
components of the shell and segment of `r` -/
noncomputable def basisLin {α : Type*} (b : Basis ℝ) (r : ℕ) (F : Shell ℝ → ℕ → ℕ → α → ℝ)
    (x : α) : ℝ :=
  ∑ a ∈ Finset.range (shellOf b r).ncart, cw b r a * F (shellOf b r) (segOf b r) a x

theorem funOf_lt (b : Basis ℝ) (r : ℕ) (hr : r < b.total) : funOf b r < (shellOf b r).nfun := by
  obtain ⟨hi, -, hf, -⟩ := locate_lt b r hr
  rw [shellOf_eq b r hi]; exact hf

theorem basisFn_eq_basisLin (b : Basis ℝ) (r : ℕ) (hr : r < b.total) :
    basisFn b r = basisLin b r shellFn := by
  funext x
  exact stage_eq (shellOf b r) (segOf b r) (funOf b r) (funOf_lt b r hr)
    (fun a => shellFn (shellOf b r) (segOf b r) a x)

/-- `∫ (Σ_a u_a F_a) (Σ_a' u'_a' G_a') = Σ_a Σ_a' u_a u'_a' ∫ F_a G_a'` -/
theorem integral_sum_mul_sum {α : Type*} [MeasurableSpace α] (μ : Measure α) (N N' : ℕ)
    (u u' : ℕ → ℝ) (F G : ℕ → α → ℝ) (h : ∀ a a', Integrable (fun x => F a x * G a' x) μ) :
    ∫ x, (∑ a ∈ Finset.range N, u a * F a x) * (∑ a' ∈ Finset.range N', u' a' * G a' x) ∂μ
      = ∑ a ∈ Finset.range N, ∑ a' ∈ Finset.range N', u a * u' a' * ∫ x, F a x * G a' x ∂μ := by
  have e : ∀ x, (∑ a ∈ Finset.range N, u a * F a x) * (∑ a' ∈ Finset.range N', u' a' * G a' x)
      = ∑ a ∈ Finset.range N, ∑ a' ∈ Finset.range N', u a * u' a' * (F a x * G a' x) := by
    intro x
    rw [Finset.sum_mul_sum]
    refine Finset.sum_congr rfl fun a _ => Finset.sum_congr rfl fun a' _ => ?_
    ring
  simp_rw [e]
  rw [integral_finsetSum _ fun a _ => integrable_finsetSum _ fun a' _ => (h a a').const_mul _]
  refine Finset.sum_congr rfl fun a _ => ?_
  rw [integral_finsetSum _ fun a' _ => (h a a').const_mul _]
  refine Finset.sum_congr rfl fun a' _ => ?_
  rw [integral_const_mul]

theorem integrable_basisLin_mul {α : Type*} [MeasurableSpace α] (μ : Measure α) (b : Basis ℝ)
    (r c : ℕ) (F G : Shell ℝ → ℕ → ℕ → α → ℝ)
    (h : ∀ a a', Integrable (fun x => F (shellOf b r) (segOf b r) a x
      * G (shellOf b c) (segOf b c) a' x) μ) :
    Integrable (fun x => basisLin b r F x * basisLin b c G x) μ := by
  unfold basisLin
  have e : ∀ x, (∑ a ∈ Finset.range (shellOf b r).ncart, cw b r a * F (shellOf b r) (segOf b r) a x)
        * (∑ a' ∈ Finset.range (shellOf b c).ncart, cw b c a' * G (shellOf b c) (segOf b c) a' x)
      = ∑ a ∈ Finset.range (shellOf b r).ncart, ∑ a' ∈ Finset.range (shellOf b c).ncart,
          cw b r a * cw b c a' * (F (shellOf b r) (segOf b r) a x
            * G (shellOf b c) (segOf b c) a' x) := by
    intro x
    rw [Finset.sum_mul_sum]
    refine Finset.sum_congr rfl fun a _ => Finset.sum_congr rfl fun a' _ => ?_
    ring
  simp_rw [e]
  exact integrable_finsetSum _ fun a _ => integrable_finsetSum _ fun a' _ => (h a a').const_mul _

/-- **Every entry of the assembled overlap array is the overlap integral of two basis functions.** -/
theorem overlap_entry_eq_integral (b : Basis ℝ) (hb : b.ExpsPos) (r c : ℕ) (hr : r < b.total)
    (hc : c < b.total) :
    entry2 b b (pairBlocks b b 1 (overlapBlk b)) r c 0
      = ∫ x : ℝ × ℝ × ℝ, basisFn b r x * basisFn b c x := by
  have hI := integral_sum_mul_sum volume (shellOf b r).ncart (shellOf b c).ncart (cw b r) (cw b c)
    (fun a => shellFn (shellOf b r) (segOf b r) a) (fun a' => shellFn (shellOf b c) (segOf b c) a')
    (fun a a' => integrable_shellFn_mul _ _ _ _ _ _ (shellOf_exps_pos b hb r hr)
      (shellOf_exps_pos b hb c hc))
  rw [entry2_eq_sum b 1 (overlapBlk b) r c 0 hr hc, basisFn_eq_basisLin b r hr,
    basisFn_eq_basisLin b c hc]
  refine Eq.trans ?_ hI.symm
  refine Finset.sum_congr rfl fun a _ => Finset.sum_congr rfl fun a' _ => ?_
  simp only [overlapBlk, tab_get]
  rw [← overlapBlock_eq_integral (shellOf b r) (shellOf b c) (segOf b r) a (segOf b c) a'
    (shellOf_exps_pos b hb r hr) (shellOf_exps_pos b hb c hc)]
  rfl

theorem integrable_basisFn_mul (b : Basis ℝ) (hb : b.ExpsPos) (r c : ℕ) (hr : r < b.total)
    (hc : c < b.total) :
    Integrable (fun x : ℝ × ℝ × ℝ => basisFn b r x * basisFn b c x) := by
  rw [basisFn_eq_basisLin b r hr, basisFn_eq_basisLin b c hc]
  exact integrable_basisLin_mul volume b r c shellFn shellFn
    (fun a a' => integrable_shellFn_mul _ _ _ _ _ _ (shellOf_exps_pos b hb r hr)
      (shellOf_exps_pos b hb c hc))

/-- **`xᵀ S x = ∫ (Σ_r x_r χ_r)²`** for the assembled overlap array and its basis functions `χ_r` -/
theorem overlap_array_quadForm_eq (b : Basis ℝ) (hb : b.ExpsPos) (x : Fin b.total → ℝ) :
    ∑ r : Fin b.total, ∑ c : Fin b.total,
        x r * entry2 b b (pairBlocks b b 1 (overlapBlk b)) r c 0 * x c
      = ∫ y : ℝ × ℝ × ℝ, (∑ r : Fin b.total, x r * basisFn b r y) ^ 2 := by
  simp_rw [fun r c : Fin b.total => overlap_entry_eq_integral b hb r.1 c.1 r.2 c.2]
  rw [quad_integral volume (fun (r c : Fin b.total) y => basisFn b r.1 y * basisFn b c.1 y)
    (fun r c => integrable_basisFn_mul b hb r.1 c.1 r.2 c.2)]
  refine integral_congr_ae (Filter.Eventually.of_forall fun y => ?_)
  have h := quad_pointwise (fun r : Fin b.total => basisFn b r.1 y) 1 x
  simpa using h

/-! ### kinetic energy: gradient form over the basis functions of the array -/

/-- mixed partial derivative of order `o` of basis function `r` (same weights, `shellDerivFn`) -/
noncomputable def basisDerivFn (b : Basis ℝ) (r : ℕ) (o : Comp) : ℝ × ℝ × ℝ → ℝ :=
  basisLin b r (fun s m a => shellDerivFn s m a o)

theorem basisDerivFn_zero (b : Basis ℝ) (r : ℕ) (hr : r < b.total) :
    basisDerivFn b r (0,0,0) = basisFn b r := by
  rw [basisFn_eq_basisLin b r hr]
  funext x
  simp only [basisDerivFn, basisLin, shellDerivFn_zero]

/-- the first-order `basisDerivFn` are the partial derivatives of `basisFn` -/
theorem hasDerivAt_basisFn_x (b : Basis ℝ) (r : ℕ) (hr : r < b.total) (x y z : ℝ) :
    HasDerivAt (fun x' => basisFn b r (x', y, z)) (basisDerivFn b r (1,0,0) (x, y, z)) x := by
  rw [basisFn_eq_basisLin b r hr]
  unfold basisDerivFn basisLin
  exact HasDerivAt.fun_sum fun a _ => (hasDerivAt_shellFn_x _ _ _ x y z).const_mul _

theorem hasDerivAt_basisFn_y (b : Basis ℝ) (r : ℕ) (hr : r < b.total) (x y z : ℝ) :
    HasDerivAt (fun y' => basisFn b r (x, y', z)) (basisDerivFn b r (0,1,0) (x, y, z)) y := by
  rw [basisFn_eq_basisLin b r hr]
  unfold basisDerivFn basisLin
  exact HasDerivAt.fun_sum fun a _ => (hasDerivAt_shellFn_y _ _ _ x y z).const_mul _

theorem hasDerivAt_basisFn_z (b : Basis ℝ) (r : ℕ) (hr : r < b.total) (x y z : ℝ) :
    HasDerivAt (fun z' => basisFn b r (x, y, z')) (basisDerivFn b r (0,0,1) (x, y, z)) z := by
  rw [basisFn_eq_basisLin b r hr]
  unfold basisDerivFn basisLin
  exact HasDerivAt.fun_sum fun a _ => (hasDerivAt_shellFn_z _ _ _ x y z).const_mul _

theorem integral_basisDerivFn_mul (b : Basis ℝ) (hb : b.ExpsPos) (r c : ℕ) (hr : r < b.total)
    (hc : c < b.total) (o : Comp) :
    ∫ x : ℝ × ℝ × ℝ, basisDerivFn b r o x * basisDerivFn b c o x
      = ∑ a ∈ Finset.range (shellOf b r).ncart, ∑ a' ∈ Finset.range (shellOf b c).ncart,
          cw b r a * cw b c a' * ∫ x : ℝ × ℝ × ℝ, shellDerivFn (shellOf b r) (segOf b r) a o x
            * shellDerivFn (shellOf b c) (segOf b c) a' o x :=
  integral_sum_mul_sum volume (shellOf b r).ncart (shellOf b c).ncart (cw b r) (cw b c)
    (fun a => shellDerivFn (shellOf b r) (segOf b r) a o)
    (fun a' => shellDerivFn (shellOf b c) (segOf b c) a' o)
    (fun _ _ => integrable_shellDeriv_mul _ _ _ _ _ _ _ _ (shellOf_exps_pos b hb r hr)
      (shellOf_exps_pos b hb c hc))

/-- **Every entry of the assembled kinetic-energy array is `½ ∫ ∇χ_r · ∇χ_c`.** -/
theorem kinetic_entry_eq_gradient (b : Basis ℝ) (hb : b.ExpsPos) (hcomp : b.CompsLe) (r c : ℕ)
    (hr : r < b.total) (hc : c < b.total) :
    entry2 b b (pairBlocks b b 1 (kineticBlk b)) r c 0
      = 1 / 2 * ((∫ x : ℝ × ℝ × ℝ, basisDerivFn b r (1,0,0) x * basisDerivFn b c (1,0,0) x)
          + (∫ x : ℝ × ℝ × ℝ, basisDerivFn b r (0,1,0) x * basisDerivFn b c (0,1,0) x)
          + (∫ x : ℝ × ℝ × ℝ, basisDerivFn b r (0,0,1) x * basisDerivFn b c (0,0,1) x)) := by
  rw [entry2_eq_sum b 1 (kineticBlk b) r c 0 hr hc, integral_basisDerivFn_mul b hb r c hr hc,
    integral_basisDerivFn_mul b hb r c hr hc, integral_basisDerivFn_mul b hb r c hr hc,
    ← Finset.sum_add_distrib, ← Finset.sum_add_distrib, Finset.mul_sum]
  refine Finset.sum_congr rfl fun a ha => ?_
  rw [← Finset.sum_add_distrib, ← Finset.sum_add_distrib, Finset.mul_sum]
  refine Finset.sum_congr rfl fun a' _ => ?_
  have hle := shellOf_comps_le b hcomp r hr a (Finset.mem_range.mp ha)
  have hK := kineticBlock_eq_gradient (shellOf b r) (shellOf b c) (segOf b r) a (segOf b c) a'
    (shellOf_exps_pos b hb r hr) (shellOf_exps_pos b hb c hc) (by omega)
  simp only [kineticBlk, tab_get]
  have hK' : (kineticBlock b[(b.locate r).1]! b[(b.locate c).1]!).get4 (segOf b r) a (segOf b c) a'
      = _ := hK
  rw [hK']
  ring

/-! ### point charges: attraction integrals over the basis functions of the array -/

/-- basis function `r` of the array as a function on `E3 = EuclideanSpace ℝ (Fin 3)` -/
noncomputable def basisFnE (b : Basis ℝ) (r : ℕ) : E3 → ℝ := basisLin b r shellFnE

theorem basisFnE_eq (b : Basis ℝ) (r : ℕ) (hr : r < b.total) (x : E3) :
    basisFnE b r x = basisFn b r (e3Equiv x) := by
  rw [basisFn_eq_basisLin b r hr]
  simp only [basisFnE, basisLin, shellFn_e3Equiv]

/-- **Every entry of slice `e` of the assembled point-charge array is `-q_e ∫ χ_r χ_c / |x - C_e|`.** -/
theorem pointCharge_entry_eq_integral (boysT : ℝ → ℕ → Tab ℝ)
    (hboys : ∀ T n m, m < n → (boysT T n).get m = boys T m) (b : Basis ℝ) (hb : b.ExpsPos)
    (hcomp : b.CompsLe) (np : ℕ) (pts : ℕ → ℕ → ℝ) (qs : ℕ → ℝ) (e r c : ℕ) (hr : r < b.total)
    (hc : c < b.total) :
    entry2 b b (pairBlocks b b np (pointChargeBlk boysT b np pts qs)) r c e
      = -(qs e) * ∫ x : E3, basisFnE b r x * basisFnE b c x / ‖x - toE3 (pts e)‖ := by
  have hI := integral_sum_mul_sum volume (shellOf b r).ncart (shellOf b c).ncart (cw b r) (cw b c)
    (fun a => shellFnE (shellOf b r) (segOf b r) a)
    (fun a' x => shellFnE (shellOf b c) (segOf b c) a' x / ‖x - toE3 (pts e)‖)
    (fun a a' => by
      have := integrable_shellFnE_mul_div (shellOf b r) (shellOf b c) (segOf b r) a (segOf b c) a'
        (toE3 (pts e)) (shellOf_exps_pos b hb r hr) (shellOf_exps_pos b hb c hc)
      simpa only [mul_div_assoc] using this)
  have e1 : ∀ x : E3, basisFnE b r x * basisFnE b c x / ‖x - toE3 (pts e)‖
      = (∑ a ∈ Finset.range (shellOf b r).ncart, cw b r a * shellFnE (shellOf b r) (segOf b r) a x)
        * (∑ a' ∈ Finset.range (shellOf b c).ncart,
            cw b c a' * (shellFnE (shellOf b c) (segOf b c) a' x / ‖x - toE3 (pts e)‖)) := by
    intro x
    simp only [basisFnE, basisLin]
    rw [mul_div_assoc, Finset.sum_div]
    simp only [mul_div_assoc]
  simp_rw [e1]
  rw [hI, entry2_eq_sum b np (pointChargeBlk boysT b np pts qs) r c e hr hc, Finset.mul_sum]
  refine Finset.sum_congr rfl fun a ha => ?_
  rw [Finset.mul_sum]
  refine Finset.sum_congr rfl fun a' ha' => ?_
  have hP := pointChargeBlock_eq_integral boysT hboys (shellOf b r) (shellOf b c) (pts e) (qs e)
    (segOf b r) a (segOf b c) a' (shellOf_exps_pos b hb r hr) (shellOf_exps_pos b hb c hc)
    (shellOf_comps_le b hcomp r hr a (Finset.mem_range.mp ha))
    (shellOf_comps_le b hcomp c hc a' (Finset.mem_range.mp ha'))
  simp only [pointChargeBlk, tab_get]
  have hP' : (pointChargeBlock boysT b[(b.locate r).1]! b[(b.locate c).1]! (pts e) (qs e)).get4
      (segOf b r) a (segOf b c) a' = _ := hP
  rw [hP']
  simp only [mul_div_assoc]
  ring

end BasisFunctions

/-! ## 6. Non-negativity of the density and of the positive-definite kinetic-energy density (C06) -/
section Density
variable {ι : Type*} [Fintype ι]

/-- a quadratic form that is non-negative on all vectors is non-negative on the vector of values of
any family of functions -/
theorem psd_values_nonneg (γ : ι → ι → ℝ) (hγ : ∀ x : ι → ℝ, 0 ≤ ∑ a, ∑ b, x a * γ a b * x b)
    (v : ι → ℝ) : 0 ≤ ∑ a, ∑ b, γ a b * v a * v b := by
  have h := hγ v
  have e : ∑ a, ∑ b, γ a b * v a * v b = ∑ a, ∑ b, v a * γ a b * v b :=
    Finset.sum_congr rfl fun a _ => Finset.sum_congr rfl fun b _ => by ring
  rw [e]; exact h

/-- **the electron density of a positive semi-definite one-density matrix is non-negative at every
point**, for any real basis functions on any space -/
theorem density_nonneg {E : Type*} (γ : ι → ι → ℝ)
    (hγ : ∀ x : ι → ℝ, 0 ≤ ∑ a, ∑ b, x a * γ a b * x b) (φ : ι → E → ℝ) (x : E) :
    0 ≤ ∑ a, ∑ b, γ a b * φ a x * φ b x :=
  psd_values_nonneg γ hγ fun a => φ a x

/-- **the positive-definite kinetic-energy density `½ Σ_k Σ_ab γ_ab ∂_k φ_a ∂_k φ_b` of a positive
semi-definite one-density matrix is non-negative**, for any values `D k a` of the derivatives -/
theorem posdefKE_nonneg_of_values {κ : Type*} [Fintype κ] (γ : ι → ι → ℝ)
    (hγ : ∀ x : ι → ℝ, 0 ≤ ∑ a, ∑ b, x a * γ a b * x b) (D : κ → ι → ℝ) :
    0 ≤ 1 / 2 * ∑ k, ∑ a, ∑ b, γ a b * D k a * D k b :=
  mul_nonneg (by norm_num) (Finset.sum_nonneg fun k _ => psd_values_nonneg γ hγ (D k))

/-- `γ = C n Cᵀ` with non-negative occupations `n` is positive semi-definite as a quadratic form -/
theorem psd_of_occupations {κ : Type*} [Fintype κ] (C : ι → κ → ℝ) (n : κ → ℝ)
    (hn : ∀ i, 0 ≤ n i) (x : ι → ℝ) :
    0 ≤ ∑ a, ∑ b, x a * (∑ i, C a i * n i * C b i) * x b := by
  have e : ∑ a, ∑ b, x a * (∑ i, C a i * n i * C b i) * x b
      = ∑ i, n i * (∑ a, x a * C a i) ^ 2 := by
    have e1 : ∀ a b, x a * (∑ i, C a i * n i * C b i) * x b
        = ∑ i, n i * ((x a * C a i) * (x b * C b i)) := by
      intro a b
      rw [Finset.mul_sum, Finset.sum_mul]
      refine Finset.sum_congr rfl fun i _ => ?_
      ring
    simp_rw [e1]
    calc ∑ a, ∑ b, ∑ i, n i * ((x a * C a i) * (x b * C b i))
        = ∑ a, ∑ i, ∑ b, n i * ((x a * C a i) * (x b * C b i)) :=
          Finset.sum_congr rfl fun a _ => Finset.sum_comm
      _ = ∑ i, ∑ a, ∑ b, n i * ((x a * C a i) * (x b * C b i)) := Finset.sum_comm
      _ = ∑ i, n i * (∑ a, x a * C a i) ^ 2 := by
          refine Finset.sum_congr rfl fun i _ => ?_
          rw [sq, Finset.sum_mul_sum, Finset.mul_sum]
          refine Finset.sum_congr rfl fun a _ => ?_
          rw [Finset.mul_sum]
  rw [e]
  exact Finset.sum_nonneg fun i _ => mul_nonneg (hn i) (sq_nonneg _)

/-- **C06: `evaluate_density` is non-negative** for a positive semi-definite one-density matrix
(instance of smooth functions on `E3` of `FormsProofs`/`SmoothInstance`) -/
theorem rho_nonneg (φ : ι → Smooth3) (γ : ι → ι → ℝ)
    (hγ : ∀ x : ι → ℝ, 0 ≤ ∑ a, ∑ b, x a * γ a b * x b) (x : E3) :
    0 ≤ (rho pd φ γ).1 x := by
  rw [rho_apply]
  exact density_nonneg γ hγ (fun a => (φ a).1) x

/-- **C06: `evaluate_posdef_kinetic_energy_density` is non-negative** for a positive semi-definite
one-density matrix -/
theorem posdefKE_nonneg (φ : ι → Smooth3) (γ : ι → ι → ℝ)
    (hγ : ∀ x : ι → ℝ, 0 ≤ ∑ a, ∑ b, x a * γ a b * x b) (x : E3) :
    0 ≤ (Form.evalA pd φ γ posdefForm).1 x := by
  rw [posdefKE_pointwise]
  exact posdefKE_nonneg_of_values γ hγ fun k a => fderiv ℝ (φ a).1 x (ei k)

end Density

end GB

section Axioms
open GB
end Axioms
