import GBProofs.RysAnalytic
import Mathlib.MeasureTheory.Integral.Pi

/-!
# The Rys-form specification `Vspec` with the true Boys function is the 3-D Coulomb integral
-/
open MeasureTheory Real Polynomial Set

namespace GB

/-! ## 1. One axis -/

/-- per-axis integrand: `(x-A)^i (x-B)^j e^{-a(x-A)²} e^{-b(x-B)²} e^{-w²(x-C)²}` -/
noncomputable def axisFn (a b A B Cc : ℝ) (i j : ℕ) (w x : ℝ) : ℝ :=
  (x - A)^i * (x - B)^j * (exp (-a * (x - A)^2) * exp (-b * (x - B)^2) * exp (-w^2 * (x - Cc)^2))

lemma axisFn_eq (a b A B Cc : ℝ) (hab : a + b ≠ 0) (i j : ℕ) (w x : ℝ) :
    axisFn a b A B Cc i j w x
      = exp (-(a * b / (a + b)) * (A - B)^2)
        * ((x - A)^i * (x - B)^j
            * (exp (-(a + b) * (x - (a * A + b * B) / (a + b))^2) * exp (-w^2 * (x - Cc)^2))) := by
  rw [axisFn, gauss_product_exp a b A B x hab]
  ring

lemma axisFn_eq' (a b A B Cc : ℝ) (ha : 0 < a) (hb : 0 < b) (i j : ℕ) (w x : ℝ) :
    axisFn a b A B Cc i j w x
      = exp (-(a * b / (a + b)) * (A - B)^2)
        * exp (-((a + b) * w^2 / (a + b + w^2)) * ((a * A + b * B) / (a + b) - Cc)^2)
        * ((x - A)^i * (x - B)^j
            * exp (-(a + b + w^2) * (x - ((a + b) * ((a * A + b * B) / (a + b)) + w^2 * Cc)
                / (a + b + w^2))^2)) := by
  have hq : 0 < a + b + w^2 := by positivity
  rw [axisFn_eq a b A B Cc (by positivity), gauss_product_exp (a + b) (w^2) _ Cc x hq.ne']
  ring

lemma axisFn_integrable (a b A B Cc : ℝ) (ha : 0 < a) (hb : 0 < b) (i j : ℕ) (w : ℝ) :
    Integrable (axisFn a b A B Cc i j w) := by
  have hq : 0 < a + b + w^2 := by positivity
  obtain ⟨R, hR⟩ : ∃ R : ℝ, R = ((a + b) * ((a * A + b * B) / (a + b)) + w^2 * Cc)
      / (a + b + w^2) := ⟨_, rfl⟩
  have base := (integrable_poly_mul_gauss hq
    ((X + C (R - A))^i * (X + C (R - B))^j)).comp_sub_right R
  have h2 := base.const_mul (exp (-(a * b / (a + b)) * (A - B)^2)
        * exp (-((a + b) * w^2 / (a + b + w^2)) * ((a * A + b * B) / (a + b) - Cc)^2))
  refine h2.congr (Filter.Eventually.of_forall fun x => ?_)
  simp only [axisFn_eq' a b A B Cc ha hb, ← hR, eval_mul, eval_pow, eval_add, eval_X, eval_C,
    sub_add_sub_cancel]

/-- **One axis of the Coulomb integral for fixed `w`.** -/
theorem axisFn_integral (a b A B Cc : ℝ) (ha : 0 < a) (hb : 0 < b) (i j : ℕ) (w : ℝ) :
    ∫ x : ℝ, axisFn a b A B Cc i j w x
      = exp (-(a * b / (a + b)) * (A - B)^2)
        * (√(π / (a + b + w^2))
            * exp (-((a + b) * w^2 / (a + b + w^2)) * ((a * A + b * B) / (a + b) - Cc)^2)
            * (rys1 (a + b) ((a * A + b * B) / (a + b) - A) ((a * A + b * B) / (a + b) - B)
                ((a * A + b * B) / (a + b) - Cc) i j).eval (w^2 / (a + b + w^2))) := by
  have hp : 0 < a + b := by positivity
  have hq : 0 < a + b + w^2 := by positivity
  obtain ⟨P, hP⟩ : ∃ P : ℝ, P = (a * A + b * B) / (a + b) := ⟨_, rfl⟩
  obtain ⟨s, hs⟩ : ∃ s : ℝ, s = w^2 / (a + b + w^2) := ⟨_, rfl⟩
  have hs1 : s < 1 := by rw [hs, div_lt_one hq]; linarith
  have hsw : (a + b) * s / (1 - s) = w^2 := by
    have : 1 - s = (a + b) / (a + b + w^2) := by rw [hs]; field_simp; ring
    rw [this, hs]; field_simp
  have h := rys1_eval_eq_weighted_integral (a + b) P A B Cc s hp hs1 i j
  rw [hsw] at h
  -- the denominator
  have hden : ∫ x : ℝ, exp (-(a + b) * (x - P)^2) * exp (-w^2 * (x - Cc)^2)
      = exp (-((a + b) * w^2 / (a + b + w^2)) * (P - Cc)^2) * √(π / (a + b + w^2)) := by
    simp_rw [gauss_product_exp (a + b) (w^2) P Cc _ hq.ne']
    rw [MeasureTheory.integral_const_mul,
      integral_sub_right_eq_self (fun x : ℝ => exp (-(a + b + w^2) * x^2)),
      integral_gaussian]
  have hden0 : ∫ x : ℝ, exp (-(a + b) * (x - P)^2) * exp (-w^2 * (x - Cc)^2) ≠ 0 := by
    rw [hden]
    exact (mul_pos (Real.exp_pos _) (Real.sqrt_pos.mpr (div_pos pi_pos hq))).ne'
  rw [eq_div_iff hden0, hden] at h
  simp_rw [axisFn_eq a b A B Cc hp.ne', ← hP, ← hs]
  rw [MeasureTheory.integral_const_mul, ← h]
  ring

lemma axisFn_abs_le (a b A B Cc : ℝ) (i j : ℕ) (w x : ℝ) :
    |axisFn a b A B Cc i j w x|
      ≤ axisFn a b A B Cc 0 0 w x + axisFn a b A B Cc (2*i) (2*j) w x := by
  unfold axisFn
  set t := (x - A)^i * (x - B)^j with ht
  set g := exp (-a * (x - A)^2) * exp (-b * (x - B)^2) * exp (-w^2 * (x - Cc)^2) with hg
  have hg0 : 0 < g := by positivity
  have e : (x - A)^(2*i) * (x - B)^(2*j) = t^2 := by rw [ht]; ring
  rw [e, abs_mul, abs_of_pos hg0]
  have : |t| ≤ 1 + t^2 := by
    rw [abs_le]; constructor <;> nlinarith [sq_nonneg (t - 1), sq_nonneg (t + 1)]
  have := mul_le_mul_of_nonneg_right this hg0.le
  simpa [add_mul] using this

lemma axisFn_even_nonneg (a b A B Cc : ℝ) (i j : ℕ) (w x : ℝ) :
    0 ≤ axisFn a b A B Cc (2*i) (2*j) w x := by
  unfold axisFn
  have : 0 ≤ (x - A)^(2*i) * (x - B)^(2*j) := by
    rw [pow_mul, pow_mul]; positivity
  positivity

lemma axisFn_continuous2 (a b A B Cc : ℝ) (i j : ℕ) :
    Continuous fun q : ℝ × ℝ => axisFn a b A B Cc i j q.1 q.2 := by
  unfold axisFn
  fun_prop

/-! ## 2. The `w`-integral with a polynomial in `s = w²/(p+w²)` -/

lemma rysK_poly_eq (p D w : ℝ) (hp : 0 < p) (Q : ℝ[X]) :
    exp (-(p * w^2 / (p + w^2)) * D) * (π / (p + w^2)) ^ ((3:ℝ)/2) * Q.eval (w^2 / (p + w^2))
      = (π * √π / p) * (p / ((p + w^2) * √(p + w^2))
          * (exp (-(p * D) * (rysSub p w)^2) * Q.eval ((rysSub p w)^2))) := by
  rw [gaussK_eq p D w hp, rysSub_sq p hp]
  ring

lemma rysK_poly_continuous (p D : ℝ) (Q : ℝ[X]) :
    Continuous fun t : ℝ => exp (-(p * D) * t^2) * Q.eval (t^2) := by
  have h : Continuous fun t : ℝ => Q.eval (t^2) := Q.continuous.comp (continuous_pow 2)
  exact (by fun_prop : Continuous fun t : ℝ => exp (-(p * D) * t^2)).mul h

lemma integrableOn_rysK_poly (p D : ℝ) (hp : 0 < p) (Q : ℝ[X]) :
    IntegrableOn (fun w : ℝ => exp (-(p * w^2 / (p + w^2)) * D) * (π / (p + w^2)) ^ ((3:ℝ)/2)
      * Q.eval (w^2 / (p + w^2))) (Ioi 0) := by
  simp_rw [rysK_poly_eq p D _ hp]
  apply Integrable.const_mul
  apply integrableOn_rysSub p hp (fun t => exp (-(p * D) * t^2) * Q.eval (t^2))
  exact ((rysK_poly_continuous p D Q).integrableOn_Icc).mono_set Ioo_subset_Icc_self

/-- `∫₀^∞ (π/(p+w²))^{3/2} e^{-(p w²/(p+w²)) D} Q(w²/(p+w²)) dw = (π√π/p) · boysF (boys (pD)) 0 Q` -/
theorem integral_rysK_poly (p D : ℝ) (hp : 0 < p) (Q : ℝ[X]) :
    ∫ w in Ioi (0:ℝ), exp (-(p * w^2 / (p + w^2)) * D) * (π / (p + w^2)) ^ ((3:ℝ)/2)
        * Q.eval (w^2 / (p + w^2))
      = (π * √π / p) * boysF (boys (p * D)) 0 Q := by
  simp_rw [rysK_poly_eq p D _ hp]
  rw [MeasureTheory.integral_const_mul,
    ← integral_rysSub p hp (fun t => exp (-(p * D) * t^2) * Q.eval (t^2)),
    boysF_eq_integral, intervalIntegral.integral_of_le zero_le_one, integral_Ioc_eq_integral_Ioo]
  congr 2
  ext t
  simp only [mul_zero, pow_zero, one_mul]
  ring

/-! ## 3. Three dimensions -/

/-- Euclidean 3-space -/
abbrev E3 := EuclideanSpace ℝ (Fin 3)

lemma integral_E3_prod (f : Fin 3 → ℝ → ℝ) :
    ∫ r : E3, ∏ u, f u (r u) = ∏ u, ∫ x, f u x := by
  rw [← (PiLp.volume_preserving_toLp (Fin 3)).integral_comp
    (MeasurableEquiv.toLp 2 _).measurableEmbedding]
  exact integral_fintype_prod_volume_eq_prod f

lemma integrable_E3_prod (f : Fin 3 → ℝ → ℝ) (hf : ∀ u, Integrable (f u)) :
    Integrable fun r : E3 => ∏ u, f u (r u) := by
  rw [← (PiLp.volume_preserving_toLp (Fin 3)).integrable_comp_emb
    (MeasurableEquiv.toLp 2 _).measurableEmbedding]
  exact Integrable.fintype_prod hf

lemma continuous_E3_prod (g : Fin 3 → ℝ → ℝ → ℝ)
    (hg : ∀ u, Continuous fun q : ℝ × ℝ => g u q.1 q.2) :
    Continuous fun q : E3 × ℝ => ∏ u, g u q.2 (q.1 u) := by
  refine continuous_finsetProd _ fun u _ => ?_
  have hu : Continuous fun r : E3 => r u := (EuclideanSpace.proj u).continuous
  exact (hg u).comp (continuous_snd.prodMk (hu.comp continuous_fst))

lemma prod_axis_closed (c d : Fin 3 → ℝ) (Q : Fin 3 → ℝ[X]) (p w : ℝ) (hq : 0 < p + w^2) :
    ∏ u, (c u * (√(π / (p + w^2)) * exp (-(p * w^2 / (p + w^2)) * d u)
        * (Q u).eval (w^2 / (p + w^2))))
      = (∏ u, c u) * (exp (-(p * w^2 / (p + w^2)) * ∑ u, d u) * (π / (p + w^2)) ^ ((3:ℝ)/2)
          * (∏ u, Q u).eval (w^2 / (p + w^2))) := by
  have hx : 0 < π / (p + w^2) := div_pos pi_pos hq
  have hy : √(π / (p + w^2)) * √(π / (p + w^2)) = π / (p + w^2) := Real.mul_self_sqrt hx.le
  simp only [Fin.prod_univ_three, Fin.sum_univ_three, eval_mul, mul_add, Real.exp_add]
  rw [rpow_three_half _ hx]
  obtain ⟨y, hy'⟩ : ∃ y : ℝ, y = √(π / (p + w^2)) := ⟨_, rfl⟩
  rw [← hy'] at hy ⊢
  rw [← hy]
  ring

/-- joint integrability in `(r, w)` of a non-negative product of per-axis functions whose spatial
integrals have the Rys closed form -/
lemma joint_integrable (p : ℝ) (hp : 0 < p) (g : Fin 3 → ℝ → ℝ → ℝ)
    (hcont : ∀ u, Continuous fun q : ℝ × ℝ => g u q.1 q.2)
    (hint : ∀ u w, Integrable (g u w)) (hnn : ∀ u w x, 0 ≤ g u w x)
    (c d : Fin 3 → ℝ) (Q : Fin 3 → ℝ[X])
    (hval : ∀ u w, ∫ x, g u w x = c u * (√(π / (p + w^2)) * exp (-(p * w^2 / (p + w^2)) * d u)
        * (Q u).eval (w^2 / (p + w^2)))) :
    Integrable (Function.uncurry fun (r : E3) (w : ℝ) => ∏ u, g u w (r u))
      ((volume : Measure E3).prod (volume.restrict (Ioi (0:ℝ)))) := by
  have hm : AEStronglyMeasurable (Function.uncurry fun (r : E3) (w : ℝ) => ∏ u, g u w (r u))
      ((volume : Measure E3).prod (volume.restrict (Ioi (0:ℝ)))) :=
    (continuous_E3_prod g hcont).aestronglyMeasurable
  rw [integrable_prod_iff' hm]
  refine ⟨Filter.Eventually.of_forall fun w => integrable_E3_prod _ (fun u => hint u w), ?_⟩
  have : ∀ w : ℝ, ∫ r : E3, ‖Function.uncurry (fun (r : E3) (w : ℝ) => ∏ u, g u w (r u)) (r, w)‖
      = (∏ u, c u) * (exp (-(p * w^2 / (p + w^2)) * ∑ u, d u) * (π / (p + w^2)) ^ ((3:ℝ)/2)
          * (∏ u, Q u).eval (w^2 / (p + w^2))) := by
    intro w
    have hq : 0 < p + w^2 := by positivity
    rw [← prod_axis_closed c d Q p w hq]
    simp_rw [← hval]
    rw [← integral_E3_prod (fun u => g u w)]
    congr 1
    ext r
    simp only [Function.uncurry_apply_pair, Real.norm_eq_abs]
    exact abs_of_nonneg (Finset.prod_nonneg fun u _ => hnn u w (r u))
  simp_rw [this]
  exact (integrableOn_rysK_poly p _ hp _).const_mul _

/-- the 3-D integrand is the product of the per-axis integrands -/
lemma E3_integrand_eq (a b : ℝ) (A B Cc : E3) (ca cb : Fin 3 → ℕ) (w : ℝ) (r : E3) :
    (∏ u, (r u - A u)^(ca u) * (r u - B u)^(cb u)) * exp (-a * ‖r - A‖^2) * exp (-b * ‖r - B‖^2)
        * exp (-w^2 * ‖r - Cc‖^2)
      = ∏ u, axisFn a b (A u) (B u) (Cc u) (ca u) (cb u) w (r u) := by
  simp only [EuclideanSpace.real_norm_sq_eq, PiLp.sub_apply, Finset.mul_sum, Real.exp_sum,
    ← Finset.prod_mul_distrib, axisFn]
  refine Finset.prod_congr rfl fun u _ => ?_
  ring

/-- **Fixed-`w` factorisation**: the spatial integral of the product of the three per-axis
integrands in closed (Rys) form -/
theorem E3_spatial_integral (a b : ℝ) (ha : 0 < a) (hb : 0 < b) (A B Cc : E3)
    (ca cb : Fin 3 → ℕ) (w : ℝ) :
    ∫ r : E3, ∏ u, axisFn a b (A u) (B u) (Cc u) (ca u) (cb u) w (r u)
      = (∏ u, exp (-(a * b / (a + b)) * (A u - B u)^2))
        * (exp (-((a + b) * w^2 / (a + b + w^2))
              * ∑ u, ((a * A u + b * B u) / (a + b) - Cc u)^2)
            * (π / (a + b + w^2)) ^ ((3:ℝ)/2)
            * (∏ u, rys1 (a + b) ((a * A u + b * B u) / (a + b) - A u)
                ((a * A u + b * B u) / (a + b) - B u) ((a * A u + b * B u) / (a + b) - Cc u)
                (ca u) (cb u)).eval (w^2 / (a + b + w^2))) := by
  have hq : 0 < a + b + w^2 := by positivity
  rw [integral_E3_prod (fun u => axisFn a b (A u) (B u) (Cc u) (ca u) (cb u) w)]
  simp_rw [axisFn_integral a b _ _ _ ha hb]
  exact prod_axis_closed _ _ _ (a + b) w hq

/-- joint integrability of the Coulomb integrand in `(r, w)` -/
lemma coulomb_joint_integrable (a b : ℝ) (ha : 0 < a) (hb : 0 < b) (A B Cc : E3)
    (ca cb : Fin 3 → ℕ) :
    Integrable (Function.uncurry fun (r : E3) (w : ℝ) =>
        ∏ u, axisFn a b (A u) (B u) (Cc u) (ca u) (cb u) w (r u))
      ((volume : Measure E3).prod (volume.restrict (Ioi (0:ℝ)))) := by
  have hp : 0 < a + b := by positivity
  -- the dominating non-negative function
  have hdom := joint_integrable (a + b) hp
    (fun u w x => axisFn a b (A u) (B u) (Cc u) 0 0 w x
        + axisFn a b (A u) (B u) (Cc u) (2 * ca u) (2 * cb u) w x)
    (fun u => (axisFn_continuous2 _ _ _ _ _ _ _).add (axisFn_continuous2 _ _ _ _ _ _ _))
    (fun u w => (axisFn_integrable a b _ _ _ ha hb _ _ w).add
      (axisFn_integrable a b _ _ _ ha hb _ _ w))
    (fun u w x => add_nonneg (by simpa using axisFn_even_nonneg a b (A u) (B u) (Cc u) 0 0 w x)
      (axisFn_even_nonneg a b _ _ _ _ _ w x))
    (fun u => exp (-(a * b / (a + b)) * (A u - B u)^2))
    (fun u => ((a * A u + b * B u) / (a + b) - Cc u)^2)
    (fun u => 1 + rys1 (a + b) ((a * A u + b * B u) / (a + b) - A u)
                ((a * A u + b * B u) / (a + b) - B u) ((a * A u + b * B u) / (a + b) - Cc u)
                (2 * ca u) (2 * cb u))
    (by
      intro u w
      rw [integral_add (axisFn_integrable a b _ _ _ ha hb _ _ w)
        (axisFn_integrable a b _ _ _ ha hb _ _ w), axisFn_integral a b _ _ _ ha hb,
        axisFn_integral a b _ _ _ ha hb, rys1_zero, eval_add, eval_one]
      ring)
  refine hdom.mono' ?_ (Filter.Eventually.of_forall ?_)
  · exact (continuous_E3_prod (fun u w x => axisFn a b (A u) (B u) (Cc u) (ca u) (cb u) w x)
      (fun u => axisFn_continuous2 _ _ _ _ _ _ _)).aestronglyMeasurable
  · rintro ⟨r, w⟩
    simp only [Function.uncurry_apply_pair, Real.norm_eq_abs, Finset.abs_prod]
    exact Finset.prod_le_prod (fun u _ => abs_nonneg _) (fun u _ => axisFn_abs_le _ _ _ _ _ _ _ _ _)

/-- **The Rys-form specification is the Coulomb integral** (version indexed by `Fin 3`).
For exponents `a, b > 0`, centres `A B Cc`, Cartesian powers `ca cb`, with `p = a + b`,
`P = (aA + bB)/p`, `μ = ab/p`:
`∫ Π_u (r_u-A_u)^{ca_u} (r_u-B_u)^{cb_u} e^{-a|r-A|²} e^{-b|r-B|²} / |r-C| dr
   = (2π/p) e^{-μ|A-B|²} boysF (boys (p|P-C|²)) 0 (Π_u rys1 p (P-A)_u (P-B)_u (P-C)_u ca_u cb_u)`. -/
theorem coulomb_general_fin (a b : ℝ) (ha : 0 < a) (hb : 0 < b) (A B Cc P : E3)
    (hP : P = (a + b)⁻¹ • (a • A + b • B)) (ca cb : Fin 3 → ℕ) :
    ∫ r : E3, (∏ u, (r u - A u)^(ca u) * (r u - B u)^(cb u))
        * exp (-a * ‖r - A‖^2) * exp (-b * ‖r - B‖^2) / ‖r - Cc‖
      = (2 * π / (a + b)) * exp (-(a * b / (a + b)) * ‖A - B‖^2)
        * boysF (boys ((a + b) * ‖P - Cc‖^2)) 0
            (∏ u, rys1 (a + b) (P u - A u) (P u - B u) (P u - Cc u) (ca u) (cb u)) := by
  have hp : 0 < a + b := by positivity
  have hPu : ∀ u, (a * A u + b * B u) / (a + b) = P u := by
    intro u
    rw [hP]
    simp only [PiLp.smul_apply, PiLp.add_apply, smul_eq_mul]
    field_simp
  have hpt : ∀ r : E3, (∏ u, (r u - A u)^(ca u) * (r u - B u)^(cb u))
        * exp (-a * ‖r - A‖^2) * exp (-b * ‖r - B‖^2) / ‖r - Cc‖
      = 2 / √π * ∫ w in Ioi (0:ℝ),
          ∏ u, axisFn a b (A u) (B u) (Cc u) (ca u) (cb u) w (r u) := by
    intro r
    simp_rw [← E3_integrand_eq]
    rw [MeasureTheory.integral_const_mul, div_eq_mul_one_div,
      inv_eq_integral_gauss _ (norm_nonneg _)]
    have : ∀ w : ℝ, -‖r - Cc‖^2 * w^2 = -w^2 * ‖r - Cc‖^2 := by intro w; ring
    simp_rw [this]
    ring
  have hK := E3_spatial_integral a b ha hb A B Cc ca cb
  simp_rw [hPu] at hK
  have hAB : ∏ u, exp (-(a * b / (a + b)) * (A u - B u)^2)
      = exp (-(a * b / (a + b)) * ‖A - B‖^2) := by
    rw [← Real.exp_sum, ← Finset.mul_sum, EuclideanSpace.real_norm_sq_eq]
    simp only [PiLp.sub_apply]
  have hPC : ∑ u, (P u - Cc u)^2 = ‖P - Cc‖^2 := by
    rw [EuclideanSpace.real_norm_sq_eq]
    simp only [PiLp.sub_apply]
  rw [hAB, hPC] at hK
  simp_rw [hpt]
  rw [MeasureTheory.integral_const_mul,
    integral_integral_swap (coulomb_joint_integrable a b ha hb A B Cc ca cb)]
  simp_rw [hK]
  rw [MeasureTheory.integral_const_mul, integral_rysK_poly (a + b) _ hp]
  have hsp : √π ≠ 0 := (Real.sqrt_pos.mpr pi_pos).ne'
  field_simp

/-- axis ↦ component function of a point of `E3` (`0` beyond the third axis): the form in which
`Vspec` takes its geometric arguments -/
def comp3 (v : E3) : ℕ → ℝ := fun n => if h : n < 3 then v ⟨n, h⟩ else 0

/-- **The Rys-form specification `Vspec` with the true Boys function is the three-dimensional
nuclear-attraction integral** of two primitive Cartesian Gaussians of arbitrary angular momenta
`ca cb : ℕ × ℕ × ℕ`, at auxiliary order `m = 0`. -/
theorem coulomb_general (a b : ℝ) (ha : 0 < a) (hb : 0 < b) (A B Cc P : E3)
    (hP : P = (a + b)⁻¹ • (a • A + b • B)) (ca cb : ℕ × ℕ × ℕ) :
    ∫ r : E3, ((r 0 - A 0)^ca.1 * (r 0 - B 0)^cb.1
          * ((r 1 - A 1)^ca.2.1 * (r 1 - B 1)^cb.2.1)
          * ((r 2 - A 2)^ca.2.2 * (r 2 - B 2)^cb.2.2))
        * exp (-a * ‖r - A‖^2) * exp (-b * ‖r - B‖^2) / ‖r - Cc‖
      = (2 * π / (a + b)) * exp (-(a * b / (a + b)) * ‖A - B‖^2)
        * Vspec (boys ((a + b) * ‖P - Cc‖^2)) (a + b)
            (comp3 (P - A)) (comp3 (P - B)) (comp3 (P - Cc)) 0 ca cb := by
  have h := coulomb_general_fin a b ha hb A B Cc P hP
    ![ca.1, ca.2.1, ca.2.2] ![cb.1, cb.2.1, cb.2.2]
  simp only [Fin.prod_univ_three, Matrix.cons_val_zero, Matrix.cons_val_one,
    Matrix.cons_val_two, Matrix.head_cons, Matrix.tail_cons] at h
  have e0 : ∀ v : E3, comp3 v 0 = v 0 := fun v => rfl
  have e1 : ∀ v : E3, comp3 v 1 = v 1 := fun v => rfl
  have e2 : ∀ v : E3, comp3 v 2 = v 2 := fun v => rfl
  simp only [Vspec, rysAx, e0, e1, e2, PiLp.sub_apply]
  exact h


end GB
