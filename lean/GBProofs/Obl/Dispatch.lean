import GBModel.Dispatch
import GBExtracted.Dispatch
/-! Obligation: the coordinate-type dispatch of every public wrapper, as extracted from the source on this run,
is the documented four-way decision over a *list* of the shells' coordinate types collected from the right basis
argument, with every remaining parameter forwarded by keyword in every branch (`GB.Dispatch.wrapperOk`), and all ten
wrappers are present.  By `GB.Dispatch.stdOk_sound` this implies the canonical selection for every basis. -/
namespace GB.Obl
theorem dispatch_ok : GB.Dispatch.allOk GBExtracted.wrappers = true := by decide +kernel
end GB.Obl
