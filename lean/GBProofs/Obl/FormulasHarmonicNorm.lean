import GBModel.Formulas
import GBExtracted.Formulas
/-! Obligation (C10): the formulas of group `HarmonicNorm` extracted from the source on this run are the expected trees of
`GBModel/Formulas.lean` (see `GBProofs/FormulaProofs.lean` for their meaning). -/
namespace GB.Obl
theorem formulas_harmonicnorm_ok :
    (GBExtracted.formulas.filter fun (n, _) => n.startsWith "harmonic_norm.") = (GB.Formula.expected.filter fun (n, _) => n.startsWith "harmonic_norm.") := by decide +kernel
end GB.Obl
