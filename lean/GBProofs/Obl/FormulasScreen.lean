import GBModel.Formulas
import GBExtracted.Formulas
/-! Obligation (C20): the formulas of group `Screen` extracted from the source on this run are the expected trees of
`GBModel/Formulas.lean` (see `GBProofs/FormulaProofs.lean` for their meaning). -/
namespace GB.Obl
theorem formulas_screen_ok :
    (GBExtracted.formulas.filter fun (n, _) => n.startsWith "screen.") = (GB.Formula.expected.filter fun (n, _) => n.startsWith "screen.") := by decide +kernel
end GB.Obl
