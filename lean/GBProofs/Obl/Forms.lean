import GBModel
import GBExtracted.Forms

/-! Obligation: the linear forms read off the running implementation (exact probing of
`density.py` and `stress_tensor.py`) are the model's forms, at every probed parameter point. -/
namespace GB.Obl

def qq (x : GBExtracted.QQ) : Rat := mkRat x.1 x.2

def formMatches (e : GBExtracted.FormRow) : Bool :=
  match formOf e.1 (e.2.1.map qq) e.2.2.1 with
  | some f => f.canon.map (fun t => ((t.1.num, t.1.den), t.2.1, t.2.2)) == e.2.2.2
  | none => false

theorem forms_ok : GBExtracted.forms.all formMatches = true := by decide +kernel

end GB.Obl
