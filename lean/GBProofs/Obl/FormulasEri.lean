import GBModel.Formulas
import GBExtracted.Formulas
/-! Obligation (C04, C11, C17): the formulas of group `Eri` extracted from the source on this run are the expected trees of
`GBModel/Formulas.lean` (see `GBProofs/FormulaProofs.lean` for their meaning). -/
namespace GB.Obl
theorem formulas_eri_ok :
    (GBExtracted.formulas.filter fun (n, _) => n.startsWith "eri.") = (GB.Formula.expected.filter fun (n, _) => n.startsWith "eri.") := by decide +kernel
end GB.Obl
