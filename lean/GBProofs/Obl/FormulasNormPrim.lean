import GBModel.Formulas
import GBExtracted.Formulas
/-! Obligation (C01): the formulas of group `NormPrim` extracted from the source on this run are the expected trees of
`GBModel/Formulas.lean` (see `GBProofs/FormulaProofs.lean` for their meaning). -/
namespace GB.Obl
theorem formulas_normprim_ok :
    (GBExtracted.formulas.filter fun (n, _) => n.startsWith "norm_prim.") = (GB.Formula.expected.filter fun (n, _) => n.startsWith "norm_prim.") := by decide +kernel
end GB.Obl
