import GBModel.Formulas
import GBExtracted.Formulas
/-! Obligation (C03): the formulas of group `Boys` extracted from the source on this run are the expected trees of
`GBModel/Formulas.lean` (see `GBProofs/FormulaProofs.lean` for their meaning). -/
namespace GB.Obl
theorem formulas_boys_ok :
    (GBExtracted.formulas.filter fun (n, _) => n.startsWith "boys.") = (GB.Formula.expected.filter fun (n, _) => n.startsWith "boys.") := by decide +kernel
end GB.Obl
