import GBModel
import GBExtracted.Pipelines

/-! Obligations: every assembly pipeline extracted from `base_*.py` produces, symbolically (hence
for all shapes, by the soundness of the axis calculus), what C09 demands. -/
namespace GB.Obl

/-- every `construct_array_{cartesian,spherical,mix}` pipeline, with 0 and with 1 trailing axis -/
theorem pipelines_ok :
    GBExtracted.pipelines.all (fun p => pipelineOk p.2.2 p.2.1 0 && pipelineOk p.2.2 p.2.1 1) = true := by
  decide +kernel

/-- all four classes, all three methods, all flag patterns are present: 4 + 6 + 6 + 18 = 34 programs -/
theorem pipelines_complete : GBExtracted.pipelines.length = 34 := by decide +kernel

/-- `construct_array_lincomb`: the asymmetric class uses `transform_one` on axis 0 and `transform_two`
on axis 1, the others one matrix on every axis -/
theorem lincombs_ok :
    GBExtracted.lincombs.all (fun p =>
      lincombOk p.2.2.2 p.2.1 (fun s => if p.2.2.1 == 1 then 0 else s)) = true := by
  decide +kernel

/-- the lower triangle of the symmetric two-index array is the conjugate transpose of the upper one -/
theorem fills_ok : GBExtracted.fills.all (fun p => p.2 == "conj-transpose") = true := by
  decide +kernel

end GB.Obl
