import GBModel.Signatures
import GBExtracted.Signatures
/-! Obligation (C06, C09, C14, C15, C19): the signatures of the public functions extracted from the source on this run — parameter
names, their order and the text of their defaults — are the published ones of `GBModel/Signatures.lean`. -/
namespace GB.Obl
theorem signatures_ok : GBExtracted.signatures = GB.Signatures.published := by decide +kernel

/-- examples of what the table pins: the threshold of the positive-definite kinetic energy density is the sixth parameter, after
the back-end; the default screening tolerance of the overlap is `None`; the default distance threshold of the potential is `0.0` -/
example : GB.Signatures.position "evaluate_posdef_kinetic_energy_density" "threshold" = some 5 := by decide +kernel
example : GB.Signatures.position "evaluate_posdef_kinetic_energy_density" "deriv_type" = some 4 := by decide +kernel
example : GB.Signatures.default? "overlap_integral" "tol_screen" = some "None" := by decide +kernel
example : GB.Signatures.default? "electrostatic_potential" "threshold_dist" = some "0.0" := by decide +kernel
end GB.Obl
