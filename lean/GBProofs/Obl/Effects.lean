import GBModel.Purity
import GBExtracted.Effects

/-! Obligation: every function of the library, as extracted from the source, has a pure summary —
it writes only to objects it created itself (or, inside the shell class, to the shell's own state) and
scopes any change of the floating-point error state.  This is the hypothesis of `history_pure`. -/
namespace GB.Obl

theorem effects_ok : GBExtracted.summaries.all GB.Purity.Summary.pure = true := by decide +kernel

/-- the public catalogue is covered: the extraction sees (at least) the known entry points -/
theorem catalogue_present :
    ["gbasis.parsers.make_contractions", "gbasis.evals.electrostatic_potential.electrostatic_potential",
     "gbasis.integrals.overlap.overlap_integral", "gbasis.evals.density.evaluate_density",
     "gbasis.contractions.GeneralizedContractionShell.assign_norm_cont",
     "gbasis.base_two_symm.BaseTwoIndexSymmetric.construct_array_cartesian"].all
      (fun n => GBExtracted.summaries.any (fun s => s.fn == n)) = true := by decide +kernel

end GB.Obl
