import GBModel.Formulas
import GBExtracted.Formulas
/-! Obligation (C06): the formulas of group `Density` extracted from the source on this run are the expected trees of
`GBModel/Formulas.lean` (see `GBProofs/FormulaProofs.lean` for their meaning). -/
namespace GB.Obl
theorem formulas_density_ok :
    (GBExtracted.formulas.filter fun (n, _) => (n.startsWith "density." || n.startsWith "tplus." || n.startsWith "generalke.")) = (GB.Formula.expected.filter fun (n, _) => (n.startsWith "density." || n.startsWith "tplus." || n.startsWith "generalke.")) := by decide +kernel
end GB.Obl
