import GBProofs.AxisCalculus
import GBProofs.Obl.Pipelines

/-! The soundness theorems of the axis calculus instantiated with the programs extracted from the
source: every extracted pipeline computes, for all shapes, the array C09 demands. -/
namespace GB

/-- every extracted `construct_array_{cartesian,spherical,mix}` pipeline passes the check for *any*
number of trailing axes (the obligation `Obl.pipelines_ok` checks 0 and 1) -/
theorem extracted_pipelineOk {p : String × List Bool × List ArrOp} (hp : p ∈ GBExtracted.pipelines)
    (nextra : ℕ) : pipelineOk p.2.2 p.2.1 nextra = true := by
  have h := List.all_eq_true.mp GB.Obl.pipelines_ok p hp
  simp only [Bool.and_eq_true] at h
  exact pipelineOk_frame _ _ h.1 nextra

/-- **C09 for the code as extracted**: every assembly pipeline of the four base classes computes,
for all shapes and any number of trailing axes, the normalised, transformed, segment-major
flattened block (`nest`). -/
theorem extracted_pipelines_sound {K : Type} [Field K] {env : Label → ℕ} {mats norms : ℕ → Arr K}
    {blk : Arr K} {p : String × List Bool × List ArrOp} (hp : p ∈ GBExtracted.pipelines) (nextra : ℕ)
    (hblk : blk.dims = ((List.range p.2.1.length).flatMap fun s => [env (Label.seg s), env (Label.cart s)])
      ++ (List.range nextra).map (fun k => env (Label.extra k)))
    (hT : ∀ s < p.2.1.length, p.2.1.getD s false = true →
      (mats s).dims = [env (Label.sph s), env (Label.cart s)]) :
    (runOps mats norms p.2.2 blk).dims
      = ((List.range p.2.1.length).map fun s =>
          env (Label.seg s) * env (fnLabel (p.2.1.getD s false) s))
        ++ (List.range nextra).map (fun k => env (Label.extra k)) ∧
    ∀ (m f : ℕ → ℕ) (es : List ℕ),
      (∀ s < p.2.1.length, m s < env (Label.seg s)) →
      (∀ s < p.2.1.length, f s < env (fnLabel (p.2.1.getD s false) s)) →
      es.length = nextra → (∀ k < nextra, es.getD k 0 < env (Label.extra k)) →
      (runOps mats norms p.2.2 blk).get
          (((List.range p.2.1.length).map fun s =>
              m s * env (fnLabel (p.2.1.getD s false) s) + f s) ++ es)
        = nest env mats norms blk p.2.1 m f es (List.range p.2.1.length).reverse f :=
  c09_general p.2.2 p.2.1 nextra (extracted_pipelineOk hp nextra) hblk hT

/-- **`construct_array_lincomb` as extracted**: axis `s` is contracted with `transform` (one matrix)
resp. with `transform_one`/`transform_two` (asymmetric class), axes in the original order. -/
theorem extracted_lincombs_sound {K : Type} [Field K] {env : Label → ℕ} {mats norms : ℕ → Arr K}
    {blk : Arr K} {p : String × ℕ × ℕ × List ArrOp} (hp : p ∈ GBExtracted.lincombs)
    (hblk : blk.dims = (List.range p.2.1).map fun s => env (Label.cart s))
    (hT : ∀ s < p.2.1, (mats (if p.2.2.1 == 1 then 0 else s)).dims
      = [env (Label.sph s), env (Label.cart s)]) :
    (runOps mats norms p.2.2.2 blk).dims = ((List.range p.2.1).map fun s => env (Label.sph s)) ∧
    ∀ f : ℕ → ℕ, (∀ s < p.2.1, f s < env (Label.sph s)) →
      (runOps mats norms p.2.2.2 blk).get ((List.range p.2.1).map f)
        = lnest env mats blk p.2.1 (fun s => if p.2.2.1 == 1 then 0 else s) f
            (List.range p.2.1).reverse f :=
  lincombOk_sound p.2.2.2 p.2.1 _ (List.all_eq_true.mp GB.Obl.lincombs_ok p hp) hblk hT

end GB
