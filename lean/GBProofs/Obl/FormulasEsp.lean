import GBModel.Formulas
import GBExtracted.Formulas
/-! Obligation (C14): the formulas of group `Esp` extracted from the source on this run are the expected trees of
`GBModel/Formulas.lean` (see `GBProofs/FormulaProofs.lean` for their meaning). -/
namespace GB.Obl
theorem formulas_esp_ok :
    (GBExtracted.formulas.filter fun (n, _) => n.startsWith "esp.") = (GB.Formula.expected.filter fun (n, _) => n.startsWith "esp.") := by decide +kernel
end GB.Obl
