import GBModel
import GBExtracted.Tables

/-! Obligations tying tables extracted from /repo's source to the model's tables. -/
namespace GB.Obl

def sphName (x : SphLabel) : String := (if x.negSign then "-" else "") ++ SphLabel.name x.sine x.m

/-- the default Cartesian component order in the source (`angmom_components_cart`, evaluated for
`l = 0 … 10`) is the model's `defaultCart` -/
theorem defaultCart_ok : GBExtracted.defaultCart = (List.range 11).map defaultCart := by
  decide +kernel

/-- the default spherical order in the source (`angmom_components_sph`) is the model's `defaultSph` -/
theorem defaultSph_ok :
    GBExtracted.defaultSph = (List.range 11).map (fun l => (defaultSph l).map sphName) := by
  decide +kernel

/-- accepted spellings of `coord_type` -/
theorem coordType_ok : GBExtracted.coordTypeSpellings =
    [("c", "cartesian"), ("cartesian", "cartesian"), ("spherical", "spherical"), ("p", "spherical")] := by
  decide +kernel

end GB.Obl

namespace GB.Obl
/-- the angular-momentum letter tables of both parsers are the model's -/
theorem dictAngmom_ok :
    GBExtracted.dictAngmomNwchem = GB.Parse.dictAngmom.map (fun p => (String.singleton p.1, p.2)) ∧
    GBExtracted.dictAngmomGbs = GB.Parse.dictAngmom.map (fun p => (String.singleton p.1, p.2)) := by
  decide +kernel
end GB.Obl
