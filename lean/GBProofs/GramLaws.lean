import Mathlib.Analysis.InnerProductSpace.Basic
import Mathlib.Analysis.SpecialFunctions.Sqrt
import Mathlib.Algebra.BigOperators.Ring.Finset
import Mathlib.Tactic.Linarith
import Mathlib.Tactic.Ring

/-!
# Positivity and Schwarz bounds of Gram matrices

Every one-electron "metric-like" matrix of the library is a Gram matrix
`S a b = ⟪f a, f b⟫` of the basis functions in a suitable real inner-product space:

* the **overlap** matrix: `f a = φ_a` in `L²(ℝ³)`;
* the **kinetic-energy** matrix: `T a b = ½ ⟪∇φ_a, ∇φ_b⟫` — one half of the Gram matrix of the
  gradients in `L²(ℝ³; ℝ³)`;
* **minus the point-charge (nuclear-attraction) matrix of a positive charge** `q`:
  `-V a b = q ∫ φ_a φ_b / |r - C|`, the Gram matrix of `φ_a |r-C|^{-1/2}` in `L²(ℝ³)`, times `q ≥ 0`;
* the **electron-repulsion pair matrix** `(ab|cd)` indexed by the pairs `(ab)`, `(cd)`: the Gram
  matrix of the pair densities `φ_a φ_b` in the Coulomb-weighted space `⟪ρ, σ⟫ = ∬ ρ(r) σ(r') / |r-r'|`.

That the last space is an inner-product space (positive definiteness of the Coulomb kernel) — and the
identification of the matrices computed by the code with these Gram matrices — is **not** formalised
here; the theorems below are the abstract consequences for *any* Gram matrix:

* `gram_quadratic_eq`, `gram_psd` : `xᵀ S x = ‖Σ x_a f_a‖² ≥ 0`;
* `gram_symm`; `gram_diag_nonneg`;
* `gram_abs_le` : `|S a b| ≤ √(S a a) √(S b b)` (Cauchy–Schwarz), `gram_sq_le : S a b² ≤ S a a · S b b`
  (the Schwarz screening bound `(ab|cd)² ≤ (ab|ab)(cd|cd)`), `gram_abs_le_one` for unit diagonal
  (normalised basis functions: `|S a b| ≤ 1`);
* `neg_gram_nsd` : `V = -q • S`, `q ≥ 0` is negative semidefinite (point-charge matrix of a positive
  charge); `half_gram_psd` for the kinetic energy.
-/
namespace GB

section Gram
variable {E : Type*} [NormedAddCommGroup E] [InnerProductSpace ℝ E] {n : ℕ}

/-- Gram matrix of the family `f` -/
noncomputable def gramMat (f : Fin n → E) (a b : Fin n) : ℝ := inner ℝ (f a) (f b)

/-- `xᵀ S x = ‖Σ_a x_a f_a‖²` -/
theorem gram_quadratic_eq (f : Fin n → E) (x : Fin n → ℝ) :
    ∑ a, ∑ b, x a * gramMat f a b * x b = ‖∑ a, x a • f a‖ ^ 2 := by
  rw [← real_inner_self_eq_norm_sq, sum_inner]
  refine Finset.sum_congr rfl fun a _ => ?_
  rw [inner_sum]
  refine Finset.sum_congr rfl fun b _ => ?_
  rw [real_inner_smul_left, real_inner_smul_right, gramMat]
  ring

/-- **A Gram matrix is positive semidefinite.** -/
theorem gram_psd (f : Fin n → E) (x : Fin n → ℝ) : 0 ≤ ∑ a, ∑ b, x a * gramMat f a b * x b := by
  rw [gram_quadratic_eq]
  exact sq_nonneg _

/-- the quadratic form vanishes only on the combinations that are the zero vector -/
theorem gram_quadratic_eq_zero_iff (f : Fin n → E) (x : Fin n → ℝ) :
    ∑ a, ∑ b, x a * gramMat f a b * x b = 0 ↔ ∑ a, x a • f a = 0 := by
  rw [gram_quadratic_eq, sq_eq_zero_iff, norm_eq_zero]

/-- hence positive definite for linearly independent functions -/
theorem gram_pd (f : Fin n → E) (hf : LinearIndependent ℝ f) (x : Fin n → ℝ) (hx : x ≠ 0) :
    0 < ∑ a, ∑ b, x a * gramMat f a b * x b := by
  refine lt_of_le_of_ne (gram_psd f x) fun h => hx ?_
  have h0 := (gram_quadratic_eq_zero_iff f x).mp h.symm
  funext a
  exact Fintype.linearIndependent_iff.mp hf x h0 a

theorem gram_symm (f : Fin n → E) (a b : Fin n) : gramMat f a b = gramMat f b a :=
  real_inner_comm _ _

theorem gram_diag (f : Fin n → E) (a : Fin n) : gramMat f a a = ‖f a‖ ^ 2 :=
  real_inner_self_eq_norm_sq _

theorem gram_diag_nonneg (f : Fin n → E) (a : Fin n) : 0 ≤ gramMat f a a := by
  rw [gram_diag]; exact sq_nonneg _

theorem sqrt_gram_diag (f : Fin n → E) (a : Fin n) : Real.sqrt (gramMat f a a) = ‖f a‖ := by
  rw [gram_diag, Real.sqrt_sq (norm_nonneg _)]

/-- **Cauchy–Schwarz**: `|S a b| ≤ √(S a a) √(S b b)` -/
theorem gram_abs_le (f : Fin n → E) (a b : Fin n) :
    |gramMat f a b| ≤ Real.sqrt (gramMat f a a) * Real.sqrt (gramMat f b b) := by
  rw [sqrt_gram_diag, sqrt_gram_diag]
  exact abs_real_inner_le_norm _ _

/-- **Schwarz bound** `S a b² ≤ S a a · S b b` -/
theorem gram_sq_le (f : Fin n → E) (a b : Fin n) :
    gramMat f a b ^ 2 ≤ gramMat f a a * gramMat f b b := by
  have h := gram_abs_le f a b
  rw [sqrt_gram_diag, sqrt_gram_diag] at h
  rw [gram_diag, gram_diag, ← sq_abs, ← mul_pow]
  exact pow_le_pow_left₀ (abs_nonneg _) h 2

/-- with unit diagonal (normalised functions) every entry is at most 1 in absolute value -/
theorem gram_abs_le_one (f : Fin n → E) (a b : Fin n) (ha : gramMat f a a = 1) (hb : gramMat f b b = 1) :
    |gramMat f a b| ≤ 1 := by
  have h := gram_abs_le f a b
  rwa [ha, hb, Real.sqrt_one, one_mul] at h

/-- equality `S a b = 1` between normalised functions forces them to coincide -/
theorem gram_eq_one_iff (f : Fin n → E) (a b : Fin n) (ha : gramMat f a a = 1) (hb : gramMat f b b = 1) :
    gramMat f a b = 1 ↔ f a = f b := by
  have na : ‖f a‖ = 1 := by rw [← sqrt_gram_diag, ha, Real.sqrt_one]
  have nb : ‖f b‖ = 1 := by rw [← sqrt_gram_diag, hb, Real.sqrt_one]
  exact inner_eq_one_iff_of_norm_eq_one na nb

/-- **Minus a Gram matrix times a non-negative charge is negative semidefinite**
(the point-charge matrix of a positive charge). -/
theorem neg_gram_nsd (f : Fin n → E) (q : ℝ) (hq : 0 ≤ q) (V : Fin n → Fin n → ℝ)
    (hV : ∀ a b, V a b = -(q * gramMat f a b)) (x : Fin n → ℝ) :
    ∑ a, ∑ b, x a * V a b * x b ≤ 0 := by
  have h : ∑ a, ∑ b, x a * V a b * x b = -(q * ∑ a, ∑ b, x a * gramMat f a b * x b) := by
    rw [Finset.mul_sum, ← Finset.sum_neg_distrib]
    refine Finset.sum_congr rfl fun a _ => ?_
    rw [Finset.mul_sum, ← Finset.sum_neg_distrib]
    refine Finset.sum_congr rfl fun b _ => ?_
    rw [hV]; ring
  rw [h]
  exact neg_nonpos.mpr (mul_nonneg hq (gram_psd f x))

/-- one half of a Gram matrix (the kinetic-energy matrix, `f a = ∇φ_a`) is positive semidefinite -/
theorem half_gram_psd (f : Fin n → E) (T : Fin n → Fin n → ℝ)
    (hT : ∀ a b, T a b = 1 / 2 * gramMat f a b) (x : Fin n → ℝ) :
    0 ≤ ∑ a, ∑ b, x a * T a b * x b := by
  have h : ∑ a, ∑ b, x a * T a b * x b = 1 / 2 * ∑ a, ∑ b, x a * gramMat f a b * x b := by
    rw [Finset.mul_sum]
    refine Finset.sum_congr rfl fun a _ => ?_
    rw [Finset.mul_sum]
    refine Finset.sum_congr rfl fun b _ => ?_
    rw [hT]; ring
  rw [h]
  exact mul_nonneg (by norm_num) (gram_psd f x)

end Gram


end GB
