import GBProofs.Harmonics.Defs
import Mathlib.Algebra.MvPolynomial.PDeriv
import Mathlib.Algebra.MvPolynomial.CommRing
import Mathlib.RingTheory.MvPolynomial.Homogeneous
import Mathlib.Tactic.Ring
import Mathlib.Tactic.LinearCombination
/-!
# The list polynomials as genuine polynomials

`toMv : Poly3 → MvPolynomial (Fin 3) ℚ`, compatibility of the list operations
(`addTerm`, `Poly3.sum`, `mulRaw`, `sort`, `canon`) with it, and soundness of the list Laplacian:
`toMv (laplacian p) = Σ_i ∂_i ∂_i (toMv p)`.
-/
namespace GB
open MvPolynomial

/-- the monomial `k · x^a y^b z^c` -/
noncomputable def monoMv (c : Comp) (k : ℚ) : MvPolynomial (Fin 3) ℚ :=
  C k * X 0 ^ c.1 * X 1 ^ c.2.1 * X 2 ^ c.2.2

/-- the polynomial denoted by a list of terms (repeated monomials add up) -/
noncomputable def toMv (p : Poly3) : MvPolynomial (Fin 3) ℚ := (p.map fun t => monoMv t.1 t.2).sum

@[simp] theorem toMv_nil : toMv [] = 0 := rfl
@[simp] theorem toMv_cons (t : Comp × ℚ) (p : Poly3) : toMv (t :: p) = monoMv t.1 t.2 + toMv p := by
  simp [toMv]
@[simp] theorem toMv_append (p q : Poly3) : toMv (p ++ q) = toMv p + toMv q := by
  simp [toMv]
theorem monoMv_add (m : Comp) (a b : ℚ) : monoMv m (a + b) = monoMv m a + monoMv m b := by
  simp only [monoMv, C_add]; ring
@[simp] theorem monoMv_zero (m : Comp) : monoMv m 0 = 0 := by simp [monoMv]

theorem toMv_addTerm (p : Poly3) (m : Comp) (c : ℚ) : toMv (p.addTerm m c) = toMv p + monoMv m c := by
  induction p with
  | nil =>
    by_cases h : c = 0
    · simp [Poly3.addTerm, h]
    · simp [Poly3.addTerm, h]
  | cons t p ih =>
    obtain ⟨m', c'⟩ := t
    by_cases hm : m' = m
    · subst hm
      by_cases hc : c' + c = 0
      · have : monoMv m' c' + monoMv m' c = 0 := by rw [← monoMv_add, hc, monoMv_zero]
        simp only [Poly3.addTerm, beq_self_eq_true, if_true, hc, toMv_cons]
        linear_combination -this
      · simp only [Poly3.addTerm, beq_self_eq_true, if_true, beq_iff_eq, hc, if_false, toMv_cons,
          monoMv_add]
        ring
    · have hb : (m' == m) = false := by simpa using hm
      simp only [Poly3.addTerm, hb, Bool.false_eq_true, if_false, toMv_cons]
      rw [ih]; ring

theorem toMv_foldl_addTerm (l : List (Comp × ℚ)) (acc : Poly3) :
    toMv (l.foldl (fun acc (t : Comp × ℚ) => acc.addTerm t.1 t.2) acc) = toMv acc + toMv l := by
  induction l generalizing acc with
  | nil => simp
  | cons t l ih => rw [List.foldl_cons, ih, toMv_addTerm, toMv_cons]; ring

/-- collecting like terms does not change the polynomial -/
@[simp] theorem toMv_sum (l : List (Comp × ℚ)) : toMv (Poly3.sum l) = toMv l := by
  have := toMv_foldl_addTerm l []
  simpa [Poly3.sum] using this

theorem toMv_insertSorted (t : Comp × ℚ) (p : Poly3) :
    toMv (Poly3.insertSorted t p) = monoMv t.1 t.2 + toMv p := by
  induction p with
  | nil => simp [Poly3.insertSorted]
  | cons h r ih =>
    by_cases hlt : Comp.lt t.1 h.1 = true
    · simp [Poly3.insertSorted, hlt]
    · simp only [Poly3.insertSorted, hlt, Bool.false_eq_true, if_false, toMv_cons]
      rw [ih]; ring

@[simp] theorem toMv_sort (p : Poly3) : toMv p.sort = toMv p := by
  induction p with
  | nil => simp [Poly3.sort]
  | cons t p ih =>
    have : Poly3.sort (t :: p) = Poly3.insertSorted t (Poly3.sort p) := rfl
    rw [this, toMv_insertSorted, ih, toMv_cons]

/-- the canonical form denotes the same polynomial -/
@[simp] theorem toMv_canon (p : Poly3) : toMv p.canon = toMv p := by simp [Poly3.canon]

theorem toMv_eq_of_canon {p q : Poly3} (h : p.canon = q.canon) : toMv p = toMv q := by
  rw [← toMv_canon p, h, toMv_canon]

theorem monoMv_mul (a b : Comp) (x y : ℚ) :
    monoMv (a.1 + b.1, a.2.1 + b.2.1, a.2.2 + b.2.2) (x * y) = monoMv a x * monoMv b y := by
  simp only [monoMv, C_mul, pow_add]; ring

theorem toMv_map_mul (s : Comp × ℚ) (q : Poly3) :
    toMv (q.map fun t => ((s.1.1 + t.1.1, s.1.2.1 + t.1.2.1, s.1.2.2 + t.1.2.2), s.2 * t.2))
        = monoMv s.1 s.2 * toMv q := by
  induction q with
  | nil => simp
  | cons t q ihq => simp only [List.map_cons, toMv_cons, monoMv_mul]; rw [ihq]; ring

theorem toMv_mulRaw (p q : Poly3) : toMv (Poly3.mulRaw p q) = toMv p * toMv q := by
  induction p with
  | nil => simp [Poly3.mulRaw]
  | cons s p ih =>
    have h1 : Poly3.mulRaw (s :: p) q =
        (q.map fun t => ((s.1.1 + t.1.1, s.1.2.1 + t.1.2.1, s.1.2.2 + t.1.2.2), s.2 * t.2))
          ++ Poly3.mulRaw p q := by simp [Poly3.mulRaw]
    rw [h1, toMv_append, toMv_map_mul, ih, toMv_cons]; ring

/-! ## The Laplacian -/

theorem pderiv_X_pow (i j : Fin 3) (n : ℕ) :
    pderiv i (X j ^ n : MvPolynomial (Fin 3) ℚ) = if i = j then (n : MvPolynomial (Fin 3) ℚ) * X j ^ (n - 1) else 0 := by
  rw [pderiv_pow]
  by_cases h : i = j
  · subst h; simp
  · rw [pderiv_X_of_ne (Ne.symm h)]; simp [h]

/-- second derivative of a power, with the guard the list Laplacian uses -/
theorem pderiv2_X_pow (i : Fin 3) (n : ℕ) :
    pderiv i (pderiv i (X i ^ n : MvPolynomial (Fin 3) ℚ)) =
      if n ≥ 2 then C ((n * (n - 1) : ℕ) : ℚ) * X i ^ (n - 2) else 0 := by
  rcases n with _ | _ | n
  · simp
  · simp
  · have h2 : n + 1 + 1 ≥ 2 := by omega
    simp only [pderiv_X_pow, if_true, h2, Derivation.leibniz, smul_eq_mul]
    have : pderiv i ((↑(n + 1 + 1) : MvPolynomial (Fin 3) ℚ)) = 0 := by
      rw [← map_natCast (C : ℚ →+* MvPolynomial (Fin 3) ℚ)]; exact pderiv_C
    rw [this]
    simp only [Nat.add_sub_cancel, mul_zero, add_zero, Nat.cast_mul,
      Nat.cast_add, Nat.cast_one, map_mul, map_add, map_natCast, map_one]
    have e : n + 1 + 1 - 2 = n := by omega
    rw [e]
    ring

theorem laplacian_monoMv (c : Comp) (k : ℚ) :
    toMv (laplacianRaw [(c, k)]) = ∑ i : Fin 3, pderiv i (pderiv i (monoMv c k)) := by
  obtain ⟨a, b, d⟩ := c
  have hx : pderiv 0 (pderiv 0 (monoMv (a, b, d) k)) =
      C k * pderiv 0 (pderiv 0 (X 0 ^ a)) * X 1 ^ b * X 2 ^ d := by
    simp only [monoMv, Derivation.leibniz, pderiv_C, pderiv_X_pow, smul_eq_mul]
    simp
    ring
  have hy : pderiv 1 (pderiv 1 (monoMv (a, b, d) k)) =
      C k * X 0 ^ a * pderiv 1 (pderiv 1 (X 1 ^ b)) * X 2 ^ d := by
    simp only [monoMv, Derivation.leibniz, pderiv_C, pderiv_X_pow, smul_eq_mul]
    simp
    ring
  have hz : pderiv 2 (pderiv 2 (monoMv (a, b, d) k)) =
      C k * X 0 ^ a * X 1 ^ b * pderiv 2 (pderiv 2 (X 2 ^ d)) := by
    simp only [monoMv, Derivation.leibniz, pderiv_C, pderiv_X_pow, smul_eq_mul]
    simp
  rw [Fin.sum_univ_three, hx, hy, hz, pderiv2_X_pow, pderiv2_X_pow, pderiv2_X_pow]
  simp only [laplacianRaw, List.flatMap_cons, List.flatMap_nil, List.append_nil, toMv_append]
  by_cases ha : a ≥ 2 <;> by_cases hb : b ≥ 2 <;> by_cases hd : d ≥ 2 <;>
    simp only [ha, hb, hd, if_true, if_false, toMv_cons, toMv_nil, monoMv, C_mul] <;> ring

theorem laplacianRaw_cons (t : Comp × ℚ) (p : Poly3) :
    laplacianRaw (t :: p) = laplacianRaw [t] ++ laplacianRaw p := by
  simp [laplacianRaw]

/-- **Soundness of the list Laplacian**: it denotes `∂²/∂x² + ∂²/∂y² + ∂²/∂z²` of the denoted
polynomial. -/
theorem laplacian_sound (p : Poly3) :
    toMv (laplacian p) = ∑ i : Fin 3, pderiv i (pderiv i (toMv p)) := by
  rw [laplacian, toMv_sum]
  induction p with
  | nil => simp [laplacianRaw]
  | cons t p ih =>
    rw [laplacianRaw_cons, toMv_append, ih, laplacian_monoMv, toMv_cons, ← Finset.sum_add_distrib]
    simp

/-- an empty list Laplacian means the genuine Laplacian vanishes -/
theorem laplacian_eq_zero_of_isEmpty {p : Poly3} (h : (laplacian p).isEmpty = true) :
    ∑ i : Fin 3, pderiv i (pderiv i (toMv p)) = 0 := by
  rw [← laplacian_sound, List.isEmpty_iff.1 h, toMv_nil]

/-- a list polynomial all of whose monomials have degree `n` denotes a homogeneous polynomial -/
theorem toMv_isHomogeneous {p : Poly3} {n : ℕ} (h : p.all (fun t => t.1.deg == n) = true) :
    (toMv p).IsHomogeneous n := by
  induction p with
  | nil => simpa using MvPolynomial.isHomogeneous_zero (σ := Fin 3) ℚ n
  | cons t p ih =>
    simp only [List.all_cons, Bool.and_eq_true, beq_iff_eq] at h
    rw [toMv_cons]
    refine IsHomogeneous.add ?_ (ih h.2)
    have : t.1.1 + t.1.2.1 + t.1.2.2 = n := h.1
    rw [← this, monoMv]
    exact (((isHomogeneous_C_mul_X_pow _ _ _).mul (isHomogeneous_X_pow _ _)).mul
      (isHomogeneous_X_pow _ _))

end GB
