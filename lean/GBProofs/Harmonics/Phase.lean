import GBProofs.Harmonics.Check.Phase
import GBProofs.Harmonics.Sound
import Mathlib.Data.Complex.Basic
import Mathlib.Data.Rat.Cast.CharZero
import Mathlib.Data.Nat.Choose.Sum
import Mathlib.Algebra.MvPolynomial.Eval
/-!
# Azimuthal form and phase convention of the harmonics

For `1 ≤ m ≤ l ≤ 10`: `c_m = f · Re (x+iy)^m` and `s_m = f · Im (x+iy)^m` with the same
`f = Σ_i a_i (x²+y²)^i z^{l-m-2i}`, whose value on the positive `z` axis is `C(l,m) z^{l-m} > 0`
(no Condon–Shortley sign; cosine ↔ `Re`, sine ↔ `Im`).
-/
namespace GB
open MvPolynomial

theorem choose_eq (n k : ℕ) : choose n k = Nat.choose n k := by
  induction n generalizing k with
  | zero => cases k <;> simp [choose]
  | succ n ih =>
    cases k with
    | zero => simp [choose]
    | succ k => simp [choose, ih, Nat.choose_succ_succ]

theorem toMv_map_range (n : ℕ) (g : ℕ → Comp × ℚ) :
    toMv ((List.range n).map g) = ∑ j ∈ Finset.range n, monoMv (g j).1 (g j).2 := by
  induction n with
  | zero => simp
  | succ n ih => simp [List.range_succ, Finset.sum_range_succ, ih]

theorem toMv_flatMap_range (n : ℕ) (g : ℕ → Poly3) :
    toMv ((List.range n).flatMap g) = ∑ i ∈ Finset.range n, toMv (g i) := by
  induction n with
  | zero => simp
  | succ n ih => simp [List.range_succ, Finset.sum_range_succ, ih]

/-! ## `reXY`, `imXY` are the real and imaginary part of `(x + i y)^m` (every `m`) -/

/-- a rational list polynomial read in `ℂ[x, y, z]` -/
noncomputable def toC (p : Poly3) : MvPolynomial (Fin 3) ℂ := map (Rat.castHom ℂ) (toMv p)

theorem toMv_reXY_succ (m : ℕ) :
    toMv (reXY (m + 1)) = X 0 * toMv (reXY m) - X 1 * toMv (imXY m) := by
  have : reXY (m + 1) = Poly3.sum (Poly3.mulRaw [((1, 0, 0), 1)] (reXY m)
      ++ Poly3.mulRaw [((0, 1, 0), -1)] (imXY m)) := rfl
  rw [this, toMv_sum, toMv_append, toMv_mulRaw, toMv_mulRaw]
  simp [monoMv]
  ring

theorem toMv_imXY_succ (m : ℕ) :
    toMv (imXY (m + 1)) = X 0 * toMv (imXY m) + X 1 * toMv (reXY m) := by
  have : imXY (m + 1) = Poly3.sum (Poly3.mulRaw [((1, 0, 0), 1)] (imXY m)
      ++ Poly3.mulRaw [((0, 1, 0), 1)] (reXY m)) := rfl
  rw [this, toMv_sum, toMv_append, toMv_mulRaw, toMv_mulRaw]
  simp [monoMv]

/-- **`reXY m + i · imXY m = (x + i y)^m`** in `ℂ[x, y, z]`, for every `m`. -/
theorem reim_spec (m : ℕ) :
    toC (reXY m) + C Complex.I * toC (imXY m) = (X 0 + C Complex.I * X 1) ^ m := by
  have hI : (C Complex.I : MvPolynomial (Fin 3) ℂ) * C Complex.I = -1 := by
    rw [← C_mul, Complex.I_mul_I]; simp
  induction m with
  | zero => simp [toC, reXY, imXY, reimXY, monoMv]
  | succ m ih =>
    rw [pow_succ, ← ih]
    simp only [toC, toMv_reXY_succ, toMv_imXY_succ, map_sub, map_add, map_mul, map_X]
    linear_combination (-(X 1 : MvPolynomial (Fin 3) ℂ) * map (Rat.castHom ℂ) (toMv (imXY m))) * hI

/-! ## The common factor `f` -/

theorem toMv_rhoTerm (a : ℚ) (i e : ℕ) :
    toMv (rhoTerm a i e) = C a * (X 0 ^ 2 + X 1 ^ 2) ^ i * X 2 ^ e := by
  rw [rhoTerm, toMv_map_range, add_comm (X 0 ^ 2), add_pow, Finset.mul_sum, Finset.sum_mul]
  refine Finset.sum_congr rfl fun j _ => ?_
  simp only [monoMv, choose_eq, C_mul, ← pow_mul]
  rw [← map_natCast (C : ℚ →+* MvPolynomial (Fin 3) ℚ)]
  ring

/-- **`f` is a polynomial in `z` and `x² + y²` only**:
`f_{l,m} = Σ_i a_i (x²+y²)^i z^{l-m-2i}`, `a_i = (-1)^i 4^{-i} C(l,i) C(l-i,m+i)` (every `l`, `m`) -/
theorem fPoly_spec (l m : ℕ) :
    toMv (fPoly l m) = ∑ i ∈ Finset.range ((l - m) / 2 + 1),
      C (fCoef l m i) * (X 0 ^ 2 + X 1 ^ 2) ^ i * X 2 ^ (l - m - 2 * i) := by
  rw [fPoly, toMv_flatMap_range]
  exact Finset.sum_congr rfl fun i _ => toMv_rhoTerm _ _ _

/-- **Sign convention at the pole**: on the `z` axis `f_{l,m}(0, 0, z) = C(l,m) · z^{l-m}`, which
is positive for `z > 0` and `m ≤ l` (every `l`, `m`). -/
theorem fPoly_pole (l m : ℕ) (z : ℚ) :
    eval (fun i : Fin 3 => if i = 2 then z else 0) (toMv (fPoly l m)) = (Nat.choose l m : ℚ) * z ^ (l - m) := by
  rw [fPoly_spec, map_sum, Finset.sum_eq_single 0]
  · simp [fCoef, choose_eq]
  · intro i _ hi
    simp [hi]
  · simp

/-! ## The kernel-checked factorisation for `l ≤ 10` -/

theorem phaseOK_le_10 (l : ℕ) (hl : l ≤ 10) (m : ℕ) (hm1 : 1 ≤ m) (hm : m ≤ l) : phaseOK l m = true := by
  have h := phaseAll_10
  simp only [phaseAll, List.all_eq_true, List.mem_range, Bool.and_eq_true] at h
  have := (h l (by omega)).2 (m - 1) (by omega)
  rwa [Nat.sub_add_cancel hm1] at this

/-- **Azimuthal form.**  For `1 ≤ m ≤ l ≤ 10`, in `ℚ[x, y, z]`:
`c_m = f · Re (x+iy)^m`, `s_m = f · Im (x+iy)^m` with the same `f = fPoly l m`, and the coefficient
of `z^{l-m}` in (the collected form of) `f` is positive. -/
theorem phase_le_10 (l : ℕ) (hl : l ≤ 10) (m : ℕ) (hm1 : 1 ≤ m) (hm : m ≤ l) :
    toMv (harmonic l m false) = toMv (fPoly l m) * toMv (reXY m) ∧
    toMv (harmonic l m true) = toMv (fPoly l m) * toMv (imXY m) ∧
    0 < (Poly3.sum (fPoly l m)).coeff (0, 0, l - m) := by
  have h := phaseOK_le_10 l hl m hm1 hm
  simp only [phaseOK, Bool.and_eq_true, decide_eq_true_eq] at h
  obtain ⟨⟨h1, h2⟩, h3⟩ := h
  exact ⟨by rw [toMv_eq_of_canon h1, toMv_mulRaw], by rw [toMv_eq_of_canon h2, toMv_mulRaw], h3⟩

/-- the same on the level of canonical (collected, sorted) term lists -/
theorem phase_le_10_canon (l : ℕ) (hl : l ≤ 10) (m : ℕ) (hm1 : 1 ≤ m) (hm : m ≤ l) :
    Poly3.canon (harmonic l m false) = Poly3.canon (Poly3.mulRaw (fPoly l m) (reXY m)) ∧
    Poly3.canon (harmonic l m true) = Poly3.canon (Poly3.mulRaw (fPoly l m) (imXY m)) := by
  have h := phaseOK_le_10 l hl m hm1 hm
  simp only [phaseOK, Bool.and_eq_true, decide_eq_true_eq] at h
  exact h.1

/-- **`m = 0`**: `c_0 = f_{l,0}(z, x²+y²)` and the coefficient of `z^l` is positive (`l ≤ 10`). -/
theorem phase_zero_le_10 (l : ℕ) (hl : l ≤ 10) :
    toMv (harmonic l 0 false) = toMv (fPoly l 0) ∧ 0 < (harmonic l 0 false).coeff (0, 0, l) := by
  have h := phaseAll_10
  simp only [phaseAll, List.all_eq_true, List.mem_range, Bool.and_eq_true, decide_eq_true_eq] at h
  obtain ⟨⟨h1, h2⟩, _⟩ := h l (by omega)
  exact ⟨toMv_eq_of_canon h2, h1⟩

/-- the recursive `Re/Im (x+iy)^m` coincide with the binomial expansions
`Σ_k (-1)^k C(m,2k) x^{m-2k} y^{2k}`, `Σ_k (-1)^k C(m,2k+1) x^{m-2k-1} y^{2k+1}` (`m ≤ 10`) -/
theorem reim_binom_le_10 (m : ℕ) (hm : m ≤ 10) :
    toMv (reXY m) = toMv (reXYbinom m) ∧ toMv (imXY m) = toMv (imXYbinom m) := by
  have h := binomAll_10
  simp only [binomAll, List.all_eq_true, List.mem_range, Bool.and_eq_true, decide_eq_true_eq] at h
  exact ⟨toMv_eq_of_canon (h m (by omega)).1, toMv_eq_of_canon (h m (by omega)).2⟩

end GB
