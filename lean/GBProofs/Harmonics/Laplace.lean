import GBProofs.Harmonics.Check.Laplace
import GBProofs.Harmonics.Sound
/-!
# The model's polynomials are harmonic and homogeneous (`l ≤ 10`, every `m`)
-/
namespace GB
open MvPolynomial

/-- **Harmonicity.**  For every `l ≤ 10`, `m ≤ l`, cosine (`neg = false`) and sine (`neg = true`,
`m ≥ 1`): the list Laplacian of `harmonic l m neg` is the zero polynomial (empty list). -/
theorem harmonic_le_10 (l : ℕ) (hl : l ≤ 10) (m : ℕ) (neg : Bool) (hm : m ≤ l)
    (hneg : neg = true → 1 ≤ m) : laplacian (harmonic l m neg) = [] := by
  have h := allHarmonic_10
  simp only [allHarmonic, List.all_eq_true, List.mem_range] at h
  have := h l (by omega) (m, neg) ((mem_harmonics l m neg).2 ⟨hm, hneg⟩)
  simpa using this

/-- the same statement about the genuine Laplacian `Σ_i ∂_i²` of the denoted polynomial in
`ℚ[x, y, z]` -/
theorem harmonic_le_10_mv (l : ℕ) (hl : l ≤ 10) (m : ℕ) (neg : Bool) (hm : m ≤ l)
    (hneg : neg = true → 1 ≤ m) :
    ∑ i : Fin 3, pderiv i (pderiv i (toMv (harmonic l m neg))) = 0 := by
  rw [← laplacian_sound, harmonic_le_10 l hl m neg hm hneg, toMv_nil]

/-- **Homogeneity.**  Every monomial of `harmonic l m neg` has total degree `l`. -/
theorem homogeneous_le_10 (l : ℕ) (hl : l ≤ 10) (m : ℕ) (neg : Bool) (hm : m ≤ l)
    (hneg : neg = true → 1 ≤ m) : ∀ t ∈ harmonic l m neg, t.1.deg = l := by
  have h := allHomogeneous_10
  simp only [allHomogeneous, List.all_eq_true, List.mem_range, beq_iff_eq] at h
  exact h l (by omega) (m, neg) ((mem_harmonics l m neg).2 ⟨hm, hneg⟩)

theorem homogeneous_le_10_mv (l : ℕ) (hl : l ≤ 10) (m : ℕ) (neg : Bool) (hm : m ≤ l)
    (hneg : neg = true → 1 ≤ m) : (toMv (harmonic l m neg)).IsHomogeneous l := by
  apply toMv_isHomogeneous
  simp only [List.all_eq_true, beq_iff_eq]
  exact homogeneous_le_10 l hl m neg hm hneg

end GB
