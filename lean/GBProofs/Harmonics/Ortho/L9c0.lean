import GBProofs.Harmonics.Defs
/-! Kernel-checked part of the orthonormality table of the solid harmonics (generated layout:
one chunk of rows per file so that Lake checks them in parallel). -/
namespace GB
set_option maxRecDepth 100000
theorem orthoPart_9_c_0_5 :
    orthoPart 9 (fun k => (k.2 == false) && (decide (0 ≤ k.1) && decide (k.1 < 5))) = true := by
  decide +kernel
end GB
