import GBProofs.Harmonics.Defs
/-! Kernel-checked part of the orthonormality table of the solid harmonics (generated layout:
one chunk of rows per file so that Lake checks them in parallel). -/
namespace GB
set_option maxRecDepth 100000
theorem orthoPart_10_c_3_6 :
    orthoPart 10 (fun k => (k.2 == false) && (decide (3 ≤ k.1) && decide (k.1 < 6))) = true := by
  decide +kernel
end GB
