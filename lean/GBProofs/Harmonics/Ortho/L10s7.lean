import GBProofs.Harmonics.Defs
/-! Kernel-checked part of the orthonormality table of the solid harmonics (generated layout:
one chunk of rows per file so that Lake checks them in parallel). -/
namespace GB
set_option maxRecDepth 100000
theorem orthoPart_10_s_7_11 :
    orthoPart 10 (fun k => (k.2 == true) && (decide (7 ≤ k.1) && decide (k.1 < 11))) = true := by
  decide +kernel
end GB
