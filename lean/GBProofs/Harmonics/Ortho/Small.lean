import GBProofs.Harmonics.Defs
/-! Kernel-checked part of the orthonormality table of the solid harmonics (generated layout:
one chunk of rows per file so that Lake checks them in parallel). -/
namespace GB
set_option maxRecDepth 100000
theorem orthonormal_0 : orthonormal 0 = true := by decide +kernel
theorem orthonormal_1 : orthonormal 1 = true := by decide +kernel
theorem orthonormal_2 : orthonormal 2 = true := by decide +kernel
theorem orthonormal_3 : orthonormal 3 = true := by decide +kernel
theorem orthonormal_4 : orthonormal 4 = true := by decide +kernel
theorem orthonormal_5 : orthonormal 5 = true := by decide +kernel
theorem orthonormal_6 : orthonormal 6 = true := by decide +kernel
end GB
