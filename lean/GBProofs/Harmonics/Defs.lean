import GBModel.Spherical
/-!
# Definitions for the verification of the solid harmonics (core Lean only)

List-polynomial operations used to state — and let the kernel check — that the polynomials
`GB.harmonic l m neg` of the model are the real regular solid harmonics.  No Mathlib here, so the
`decide +kernel` files depending on this one stay light.
-/
namespace GB

/-- total degree of a monomial -/
def Comp.deg (c : Comp) : Nat := c.1 + c.2.1 + c.2.2

/-- the raw (un-normalised) list of terms of `∂²/∂x² + ∂²/∂y² + ∂²/∂z²` applied to `p` -/
def laplacianRaw (p : Poly3) : Poly3 :=
  p.flatMap fun t =>
    (if t.1.1 ≥ 2 then [((t.1.1 - 2, t.1.2.1, t.1.2.2), t.2 * ((t.1.1 * (t.1.1 - 1) : Nat) : Rat))] else []) ++
    (if t.1.2.1 ≥ 2 then [((t.1.1, t.1.2.1 - 2, t.1.2.2), t.2 * ((t.1.2.1 * (t.1.2.1 - 1) : Nat) : Rat))] else []) ++
    (if t.1.2.2 ≥ 2 then [((t.1.1, t.1.2.1, t.1.2.2 - 2), t.2 * ((t.1.2.2 * (t.1.2.2 - 1) : Nat) : Rat))] else [])

/-- Laplacian of a list polynomial, with like terms collected and zero terms dropped -/
def laplacian (p : Poly3) : Poly3 := Poly3.sum (laplacianRaw p)

/-- the `2l+1` functions of angular momentum `l`: `(m, false)` is the cosine function `c_m`
(`0 ≤ m ≤ l`), `(m, true)` the sine function `s_m` (`1 ≤ m ≤ l`) -/
def harmonics (l : Nat) : List (Nat × Bool) :=
  (List.range (l + 1)).map (·, false) ++ ((List.range l).map (· + 1, true))

/-- membership in the list of the `2l+1` functions of angular momentum `l` -/
theorem mem_harmonics (l m : Nat) (neg : Bool) :
    (m, neg) ∈ harmonics l ↔ m ≤ l ∧ (neg = true → 1 ≤ m) := by
  cases neg
  · simp [harmonics]; omega
  · simp only [harmonics, List.mem_append, List.mem_map, List.mem_range, Prod.mk.injEq,
      Bool.false_eq_true, and_false, exists_false, false_or, and_true, forall_const]
    constructor
    · rintro ⟨a, ha, rfl⟩; omega
    · rintro ⟨h1, h2⟩; exact ⟨m - 1, by omega, by omega⟩

/-- all harmonics of `l ≤ lmax` have an empty (zero) Laplacian -/
def allHarmonic (lmax : Nat) : Bool :=
  (List.range (lmax + 1)).all fun l => (harmonics l).all fun k =>
    (laplacian (harmonic l k.1 k.2)).isEmpty

/-- all harmonics of `l ≤ lmax` are homogeneous of degree `l` -/
def allHomogeneous (lmax : Nat) : Bool :=
  (List.range (lmax + 1)).all fun l => (harmonics l).all fun k =>
    (harmonic l k.1 k.2).all fun t => t.1.deg == l

/-! ## The overlap metric of Cartesian monomials of one shell -/

/-- `Π_i (a_i + b_i - 1)!!` if all `a_i + b_i` are even, else `0`:  up to a factor that depends
only on the exponents and on `l`, this is `∫ x^{a+b} e^{-(α+β) r²}` -/
def metric (a b : Comp) : Rat :=
  if (a.1 + b.1) % 2 == 0 && (a.2.1 + b.2.1) % 2 == 0 && (a.2.2 + b.2.2) % 2 == 0 then
    ((dfactOdd ((a.1 + b.1) / 2) * dfactOdd ((a.2.1 + b.2.1) / 2) * dfactOdd ((a.2.2 + b.2.2) / 2) : Nat) : Rat)
  else 0

/-- the bilinear form `Σ_{a,b} p_a q_b metric a b` on list polynomials -/
def Q (p q : Poly3) : Rat :=
  (p.map fun s => (q.map fun t => s.2 * t.2 * metric s.1 t.1).sum).sum

/-- row `(m, neg)` of the orthonormality table for `l` -/
def orthoRow (l : Nat) (k : Nat × Bool) : Bool :=
  (harmonics l).all fun k' =>
    let q := Q (harmonic l k.1 k.2) (harmonic l k'.1 k'.2)
    if k == k' then normSq l k.1 * q == ((dfactOdd l : Nat) : Rat) else q == 0

def orthonormal (l : Nat) : Bool := (harmonics l).all (orthoRow l)

/-- the rows selected by `P` (used to split the table over several files) -/
def orthoPart (l : Nat) (P : Nat × Bool → Bool) : Bool :=
  (harmonics l).all fun k => !P k || orthoRow l k

theorem orthoPart_split (l : Nat) (P R : Nat × Bool → Bool)
    (h1 : orthoPart l (fun k => R k && P k) = true)
    (h2 : orthoPart l (fun k => R k && !P k) = true) : orthoPart l R = true := by
  simp only [orthoPart, List.all_eq_true] at *
  intro k hk
  have a := h1 k hk
  have b := h2 k hk
  cases hR : R k <;> cases hP : P k <;> simp_all

theorem orthonormal_of_part (l : Nat) (h : orthoPart l (fun _ => true) = true) :
    orthonormal l = true := by
  simpa [orthoPart, orthonormal] using h

/-! ## Products, canonical form -/

/-- raw product of list polynomials (all pairwise products, nothing collected) -/
def Poly3.mulRaw (p q : Poly3) : Poly3 :=
  p.flatMap fun s => q.map fun t => ((s.1.1 + t.1.1, s.1.2.1 + t.1.2.1, s.1.2.2 + t.1.2.2), s.2 * t.2)

def Comp.lt (a b : Comp) : Bool :=
  a.1 < b.1 || (a.1 == b.1 && (a.2.1 < b.2.1 || (a.2.1 == b.2.1 && a.2.2 < b.2.2)))

def Poly3.insertSorted (t : Comp × Rat) : Poly3 → Poly3
  | [] => [t]
  | h :: r => if Comp.lt t.1 h.1 then t :: h :: r else h :: Poly3.insertSorted t r

def Poly3.sort (p : Poly3) : Poly3 := p.foldr Poly3.insertSorted []

/-- canonical form: like terms collected, zero terms dropped, sorted by monomial -/
def Poly3.canon (p : Poly3) : Poly3 := (Poly3.sum p).sort

/-! ## Azimuthal form -/

/-- real and imaginary part of `(x + i y)^m`, by `(x+iy)^{m+1} = (x+iy)(x+iy)^m` -/
def reimXY : Nat → Poly3 × Poly3
  | 0 => ([((0, 0, 0), 1)], [])
  | m + 1 =>
    let r := reimXY m
    (Poly3.sum (Poly3.mulRaw [((1, 0, 0), 1)] r.1 ++ Poly3.mulRaw [((0, 1, 0), -1)] r.2),
     Poly3.sum (Poly3.mulRaw [((1, 0, 0), 1)] r.2 ++ Poly3.mulRaw [((0, 1, 0), 1)] r.1))

def reXY (m : Nat) : Poly3 := (reimXY m).1
def imXY (m : Nat) : Poly3 := (reimXY m).2

/-- the binomial-expansion form of the same polynomials:
`Re (x+iy)^m = Σ_k (-1)^k C(m,2k) x^{m-2k} y^{2k}`, `Im (x+iy)^m = Σ_k (-1)^k C(m,2k+1) x^{m-2k-1} y^{2k+1}` -/
def reXYbinom (m : Nat) : Poly3 :=
  (List.range (m / 2 + 1)).map fun k =>
    ((m - 2 * k, 2 * k, 0), (if k % 2 == 0 then 1 else -1 : Rat) * (choose m (2 * k) : Nat))
def imXYbinom (m : Nat) : Poly3 :=
  (List.range ((m + 1) / 2)).map fun k =>
    ((m - 2 * k - 1, 2 * k + 1, 0), (if k % 2 == 0 then 1 else -1 : Rat) * (choose m (2 * k + 1) : Nat))

/-- coefficient `a_i = (-1)^i 4^{-i} C(l,i) C(l-i,m+i)` of `(x²+y²)^i z^{l-m-2i}` in the common
factor of `c_m` and `s_m` -/
def fCoef (l m i : Nat) : Rat :=
  (if i % 2 == 0 then 1 else -1 : Rat) * (1 / ((4 ^ i : Nat) : Rat)) * (choose l i : Nat) * (choose (l - i) (m + i) : Nat)

/-- `(x² + y²)^i = Σ_j C(i,j) x^{2(i-j)} y^{2j}` times `z^e` times `a` -/
def rhoTerm (a : Rat) (i e : Nat) : Poly3 :=
  (List.range (i + 1)).map fun j => ((2 * (i - j), 2 * j, e), a * (choose i j : Nat))

/-- the common factor `f_{l,m}(z, x²+y²) = Σ_i a_i (x²+y²)^i z^{l-m-2i}` -/
def fPoly (l m : Nat) : Poly3 :=
  (List.range ((l - m) / 2 + 1)).flatMap fun i => rhoTerm (fCoef l m i) i (l - m - 2 * i)

/-- for `1 ≤ m ≤ l`: `c_m = f · Re (x+iy)^m`, `s_m = f · Im (x+iy)^m` with the same `f`, and the
coefficient of `z^{l-m}` in `f` is positive -/
def phaseOK (l m : Nat) : Bool :=
  decide (Poly3.canon (harmonic l m false) = Poly3.canon (Poly3.mulRaw (fPoly l m) (reXY m))) &&
  decide (Poly3.canon (harmonic l m true) = Poly3.canon (Poly3.mulRaw (fPoly l m) (imXY m))) &&
  decide (0 < (Poly3.sum (fPoly l m)).coeff (0, 0, l - m))

def phaseAll (lmax : Nat) : Bool :=
  (List.range (lmax + 1)).all fun l =>
    decide (0 < (harmonic l 0 false).coeff (0, 0, l)) &&
    decide (Poly3.canon (harmonic l 0 false) = Poly3.canon (fPoly l 0)) &&
    (List.range l).all fun m => phaseOK l (m + 1)

def binomAll (mmax : Nat) : Bool :=
  (List.range (mmax + 1)).all fun m =>
    decide (Poly3.canon (reXY m) = Poly3.canon (reXYbinom m)) && decide (Poly3.canon (imXY m) = Poly3.canon (imXYbinom m))

/-! ## Label lists -/

/-- the canonical key list `c0 … cl, s1 … sl` used by `validSphOrder` -/
def sphKeys (l : Nat) : List (Bool × Nat) :=
  ((List.range (l+1)).map fun m => (false, m)) ++ ((List.range l).map fun m => (true, m+1))

end GB
