import GBProofs.Harmonics.Defs
import Mathlib.Data.List.Perm.Subperm
import Mathlib.Data.List.Nodup
import Mathlib.Data.List.Range
/-!
# Label conventions and validation of a caller-supplied spherical order

Decision logic of `parseLabel` / `validSphOrder` and the sign convention of `transEntryQ`.
String computations are evaluated by the kernel (`decide +kernel`).
-/
namespace GB
set_option maxRecDepth 100000

/-! ## `parseLabel` -/

/-- all canonical names, with and without the leading `-`, parse to the expected label -/
def parseNameAll (lmax : Nat) : Bool :=
  (List.range (lmax + 1)).all fun l => (harmonics l).all fun k =>
    decide (parseLabel l (SphLabel.name k.2 k.1) = some ⟨false, k.2, k.1⟩) &&
    decide (parseLabel l ("-" ++ SphLabel.name k.2 k.1) = some ⟨true, k.2, k.1⟩)

theorem parseNameAll_10 : parseNameAll 10 = true := by decide +kernel

/-- for `l ≤ 10`, `m ≤ l` (`m ≥ 1` for a sine label) the canonical name `c{m}` / `s{m}` parses to
the unsigned label and `-c{m}` / `-s{m}` to the negated one -/
theorem parseLabel_name (l : Nat) (hl : l ≤ 10) (m : Nat) (sine : Bool) (hm : m ≤ l)
    (hs : sine = true → 1 ≤ m) :
    parseLabel l (SphLabel.name sine m) = some ⟨false, sine, m⟩ ∧
    parseLabel l ("-" ++ SphLabel.name sine m) = some ⟨true, sine, m⟩ := by
  have h := parseNameAll_10
  simp only [parseNameAll, List.all_eq_true, List.mem_range, Bool.and_eq_true,
    decide_eq_true_eq] at h
  exact h l (by omega) (m, sine) ((mem_harmonics l m sine).2 ⟨hm, hs⟩)

/-- whatever string is accepted, the parsed label is in range: `m ≤ l`, and `m ≥ 1` for a sine
label (every `l`) -/
theorem parseLabel_range (l : Nat) (s : String) (lab : SphLabel) (h : parseLabel l s = some lab) :
    lab.m ≤ l ∧ (lab.sine = true → 1 ≤ lab.m) := by
  unfold parseLabel at h
  simp only at h
  split at h
  · rename_i p hp
    have hmem := List.mem_of_find?_eq_some hp
    simp only [Option.some.injEq] at h
    subst h
    simp only [List.mem_append, List.mem_map, List.mem_range] at hmem
    rcases hmem with ⟨a, ha, rfl⟩ | ⟨a, ha, rfl⟩
    · simp; omega
    · simp; omega
  · simp at h

/-! ## `validSphOrder`: examples for `l = 1` -/

theorem reject_minus_inside : validSphOrder 1 ["c-1", "s1", "c0"] = none := by decide +kernel
theorem reject_double_minus : validSphOrder 1 ["--c1", "s1", "c0"] = none := by decide +kernel
theorem reject_trailing_minus : validSphOrder 1 ["c1-", "s1", "c0"] = none := by decide +kernel
theorem reject_leading_zero : validSphOrder 1 ["c01", "s1", "c0"] = none := by decide +kernel
theorem reject_too_short : validSphOrder 1 ["c1", "s1"] = none := by decide +kernel
theorem reject_duplicate : validSphOrder 1 ["c1", "c1", "c0"] = none := by decide +kernel
theorem reject_out_of_range : validSphOrder 1 ["c1", "s1", "c2"] = none := by decide +kernel
theorem reject_s0 : validSphOrder 1 ["c1", "s1", "s0"] = none := by decide +kernel
theorem reject_empty_label : validSphOrder 1 ["c1", "s1", ""] = none := by decide +kernel
theorem reject_upper_case : validSphOrder 1 ["C1", "s1", "c0"] = none := by decide +kernel
theorem reject_space : validSphOrder 1 ["c1 ", "s1", "c0"] = none := by decide +kernel
theorem reject_plus : validSphOrder 1 ["+c1", "s1", "c0"] = none := by decide +kernel
theorem reject_too_long : validSphOrder 1 ["c1", "s1", "c0", "c0"] = none := by decide +kernel
theorem accept_neg_c1 : validSphOrder 1 ["-c1", "s1", "c0"]
    = some [⟨true, false, 1⟩, ⟨false, true, 1⟩, ⟨false, false, 0⟩] := by decide +kernel
theorem accept_reordered : validSphOrder 1 ["c0", "-s1", "c1"]
    = some [⟨false, false, 0⟩, ⟨true, true, 1⟩, ⟨false, false, 1⟩] := by decide +kernel

/-! ## `validSphOrder`: general characterisation -/

theorem sphKeys_length (l : Nat) : (sphKeys l).length = 2 * l + 1 := by
  simp [sphKeys]; omega

theorem sphKeys_nodup (l : Nat) : (sphKeys l).Nodup := by
  unfold sphKeys
  refine List.Nodup.append ?_ ?_ ?_
  · exact (List.nodup_range).map (fun a b h => by simpa using h)
  · exact (List.nodup_range).map (fun a b h => by simpa using h)
  · intro a ha hb
    simp only [List.mem_map, List.mem_range] at ha hb
    obtain ⟨x, _, rfl⟩ := ha
    obtain ⟨y, _, hy⟩ := hb
    simp at hy

/-- **`validSphOrder` accepts exactly the signed permutations of `c0 … cl, s1 … sl`** (every `l`):
the list is accepted with parse result `ls` iff every entry parses and the `(sine, m)` keys of `ls`
are a permutation of the canonical key list; in particular `ls` has `2l+1` entries, each function
occurs exactly once, and nothing else occurs. -/
theorem valid_iff_perm (l : Nat) (labels : List String) (ls : List SphLabel) :
    validSphOrder l labels = some ls ↔
      labels.mapM (parseLabel l) = some ls ∧
      (ls.map fun x => (x.sine, x.m)).Perm (sphKeys l) := by
  unfold validSphOrder
  cases hmap : labels.mapM (parseLabel l) with
  | none => simp
  | some ls' =>
    simp only [Option.some.injEq]
    have key : ∀ ls'' : List SphLabel,
        ((ls''.length == 2 * l + 1 && (sphKeys l).all fun k => (ls''.map fun x => (x.sine, x.m)).contains k) = true)
          ↔ (ls''.map fun x => (x.sine, x.m)).Perm (sphKeys l) := by
      intro ls''
      simp only [Bool.and_eq_true, beq_iff_eq, List.all_eq_true, List.contains_iff_mem]
      constructor
      · rintro ⟨hlen, hall⟩
        have hsub : sphKeys l ⊆ ls''.map fun x => (x.sine, x.m) := fun k hk => hall k hk
        have hsp := (sphKeys_nodup l).subperm hsub
        exact (hsp.perm_of_length_le (by simp [sphKeys_length, hlen])).symm
      · intro hp
        refine ⟨?_, fun k hk => hp.symm.subset hk⟩
        have := hp.length_eq
        simpa [sphKeys_length] using this
    have key' := key ls'
    simp only [sphKeys] at key'
    by_cases hc : (ls'.map fun x => (x.sine, x.m)).Perm (sphKeys l)
    · have hb := key'.2 hc
      simp only [hb, if_true, Option.some.injEq]
      constructor
      · rintro rfl; exact ⟨rfl, hc⟩
      · rintro ⟨rfl, _⟩; rfl
    · have hb : ¬ _ := fun h => hc (key'.1 h)
      simp only [hb, if_false]
      constructor
      · intro h; cases h
      · rintro ⟨rfl, h⟩; exact absurd h hc

theorem length_of_mapM_some {α β : Type} (f : α → Option β) :
    ∀ (xs : List α) (ys : List β), xs.mapM f = some ys → ys.length = xs.length
  | [], ys, h => by
    simp at h; subst h; rfl
  | x :: xs, ys, h => by
    rw [List.mapM_cons] at h
    cases hx : f x with
    | none => simp [hx] at h
    | some b =>
      cases hxs : xs.mapM f with
      | none => simp [hx, hxs] at h
      | some bs =>
        simp [hx, hxs] at h
        subst h
        simp [length_of_mapM_some f xs bs hxs]

theorem valid_length (l : Nat) (labels : List String) (ls : List SphLabel)
    (h : validSphOrder l labels = some ls) : ls.length = 2 * l + 1 ∧ labels.length = 2 * l + 1 := by
  obtain ⟨h1, h2⟩ := (valid_iff_perm l labels ls).1 h
  have := h2.length_eq
  simp only [List.length_map, sphKeys_length] at this
  refine ⟨this, ?_⟩
  have hl := length_of_mapM_some _ _ _ h1
  omega

/-- in an accepted order no function occurs twice (signs ignored) -/
theorem valid_keys_nodup (l : Nat) (labels : List String) (ls : List SphLabel)
    (h : validSphOrder l labels = some ls) : (ls.map fun x => (x.sine, x.m)).Nodup :=
  ((valid_iff_perm l labels ls).1 h).2.nodup_iff.2 (sphKeys_nodup l)

/-! ## Sign convention -/

/-- flipping `negSign` negates the rational part of the matrix entry and leaves the squared
irrational part unchanged (every `l`, label, component) -/
theorem transEntryQ_sign (l : Nat) (neg sine : Bool) (m : Nat) (c : Comp) :
    (transEntryQ l ⟨!neg, sine, m⟩ c).1 = - (transEntryQ l ⟨neg, sine, m⟩ c).1 ∧
    (transEntryQ l ⟨!neg, sine, m⟩ c).2 = (transEntryQ l ⟨neg, sine, m⟩ c).2 := by
  cases neg <;> simp [transEntryQ]

/-! ## The default order -/

def defaultSphAll (lmax : Nat) : Bool :=
  (List.range (lmax + 1)).all fun l =>
    decide (validSphOrder l ((defaultSph l).map fun x => SphLabel.name x.sine x.m) = some (defaultSph l))

theorem defaultSphAll_10 : defaultSphAll 10 = true := by decide +kernel

/-- for `l ≤ 10` the names of the default order (`c1 s1 c0` for `l = 1`, else `s_l … s_1 c_0 … c_l`)
are accepted by `validSphOrder` and parse back to `defaultSph l` -/
theorem defaultSph_valid (l : Nat) (hl : l ≤ 10) :
    validSphOrder l ((defaultSph l).map fun x => SphLabel.name x.sine x.m) = some (defaultSph l) := by
  have h := defaultSphAll_10
  simp only [defaultSphAll, List.all_eq_true, List.mem_range, decide_eq_true_eq] at h
  exact h l (by omega)

end GB
