import GBProofs.Harmonics.Ortho
import GBProofs.Harmonics.Labels
import GBProofs.Harmonics.Check.Support
import GBProofs.RealInst
import Mathlib.Algebra.BigOperators.Group.List.Basic
import Mathlib.Algebra.BigOperators.Ring.List
import Mathlib.Data.Rat.Cast.Lemmas
import Mathlib.Tactic.FieldSimp
import Mathlib.Tactic.Positivity
/-!
# Why the rational table is orthonormality of the rows of the transformation matrix

Row `r` of the Cartesian → spherical matrix of a shell is `T[r][c] = rat_r(c) · √(normSq_r · dfact c / dfact_l)`
(`transEntry`, real instance).  The overlap of two *unit-normalised* Cartesian functions of one
shell (same centre, same exponents and contraction coefficients) is

  `S[c][c'] = metric c c' / (√(dfact c) · √(dfact c'))`,

because `∫ x^{a+a'} y^{b+b'} z^{c+c'} e^{-(α+β) r²}` is `metric c c'` times a factor that depends
only on `α + β` and on `l = a+b+c = a'+b'+c'`, so the primitive double sum is the same for all
component pairs of the shell and is fixed by `S[c][c] = 1` (`metric c c = dfact c`).  We take this
`S` as the definition of the metric in which the rows are to be orthonormal.

`ortho_reduction`: `(T S Tᵀ)[r][r'] = ± √(normSq_r normSq_r') / dfact_l · Q(h_r, h_r')`.
-/
namespace GB
open Real

/-! ## Sums over a component list versus sums over the terms of a list polynomial -/

theorem coeff_cons (a : Comp) (x : ℚ) (t : Poly3) (c : Comp) :
    Poly3.coeff ((a, x) :: t) c = if a = c then x else Poly3.coeff t c := by
  unfold Poly3.coeff
  by_cases h : a = c
  · simp [h]
  · have : (a == c) = false := by simpa using h
    simp [this, h]

theorem coeff_eq_zero_of_not_mem (t : Poly3) (c : Comp) (h : c ∉ t.map (·.1)) :
    Poly3.coeff t c = 0 := by
  unfold Poly3.coeff
  have : t.find? (fun s => s.1 == c) = none := by
    rw [List.find?_eq_none]
    intro s hs
    simp only [beq_iff_eq]
    intro he
    exact h (List.mem_map.2 ⟨s, hs, he⟩)
  rw [this]

theorem sum_ite_single (cs : List Comp) (hcs : cs.Nodup) (a : Comp) (ha : a ∈ cs) (y : ℚ) :
    (cs.map fun c => if a = c then y else 0).sum = y := by
  rw [← List.sum_toFinset _ hcs, Finset.sum_ite_eq]
  simp [ha]

/-- for a list polynomial with distinct monomials, all in the nodup list `cs`:
`Σ_{c ∈ cs} coeff c · g c = Σ_{terms} coefficient · g monomial` -/
theorem sum_coeff_mul (cs : List Comp) (hcs : cs.Nodup) (g : Comp → ℚ) :
    ∀ (p : Poly3), (p.map (·.1)).Nodup → (∀ t ∈ p, t.1 ∈ cs) →
      (cs.map fun c => p.coeff c * g c).sum = (p.map fun t => t.2 * g t.1).sum
  | [], _, _ => by simp [Poly3.coeff]
  | (a, x) :: t, hnd, hsub => by
    have hnd' : a ∉ t.map (·.1) ∧ (t.map (·.1)).Nodup := by simpa using hnd
    have ih := sum_coeff_mul cs hcs g t hnd'.2 (fun s hs => hsub s (List.mem_cons_of_mem _ hs))
    have ha : a ∈ cs := hsub (a, x) (by simp)
    have h0 := coeff_eq_zero_of_not_mem t a hnd'.1
    have hsplit : ∀ c, Poly3.coeff ((a, x) :: t) c * g c
        = (if a = c then x * g a else 0) + Poly3.coeff t c * g c := by
      intro c
      rw [coeff_cons]
      by_cases h : a = c
      · subst h; simp [h0]
      · simp [h]
    simp only [hsplit, List.sum_map_add, sum_ite_single cs hcs a ha, ih, List.map_cons, List.sum_cons]

/-- the bilinear form with the sums running over a component list -/
def Qc (cs : List Comp) (p q : Poly3) : ℚ :=
  (cs.map fun c => (cs.map fun c' => p.coeff c * q.coeff c' * metric c c').sum).sum

theorem Qc_eq_Q (cs : List Comp) (hcs : cs.Nodup) (p q : Poly3)
    (hp : (p.map (·.1)).Nodup) (hq : (q.map (·.1)).Nodup)
    (hpc : ∀ t ∈ p, t.1 ∈ cs) (hqc : ∀ t ∈ q, t.1 ∈ cs) : Qc cs p q = Q p q := by
  unfold Qc Q
  have h1 : ∀ c, (cs.map fun c' => p.coeff c * q.coeff c' * metric c c').sum
      = p.coeff c * (q.map fun t => t.2 * metric c t.1).sum := by
    intro c
    rw [← sum_coeff_mul cs hcs (fun c' => metric c c') q hq hqc, ← List.sum_map_mul_left]
    congr 1
    apply List.map_congr_left
    intro c' _
    ring
  simp only [h1]
  rw [sum_coeff_mul cs hcs (fun c => (q.map fun t => t.2 * metric c t.1).sum) p hp hpc]
  congr 1
  apply List.map_congr_left
  intro s _
  rw [← List.sum_map_mul_left]
  congr 1
  apply List.map_congr_left
  intro t _
  ring

/-! ## The matrix product over `ℝ` -/

theorem ofInt_real (i : ℤ) : (ofInt i : ℝ) = (i : ℝ) := by
  unfold ofInt
  by_cases h : i < 0
  · simp only [h, if_true, num_nat]
    rw [Nat.cast_natAbs, abs_of_neg h]; simp
  · simp only [h, if_false, num_nat]
    rw [Nat.cast_natAbs, abs_of_nonneg (not_lt.1 h)]

theorem ofRat_real (r : ℚ) : (ofRat r : ℝ) = (r : ℝ) := by
  unfold ofRat
  rw [ofInt_real, num_nat, Rat.cast_def]

/-- the square roots cancel: `√(n d/D) · m/(√d √d') · √(n' d'/D) = √(n n')/D · m` -/
theorem sqrt_cancel (n n' d d' D m : ℝ) (hn : 0 ≤ n) (hn' : 0 ≤ n') (hd : 0 < d) (hd' : 0 < d')
    (hD : 0 < D) :
    √(n * d / D) * (m / (√d * √d')) * √(n' * d' / D) = √(n * n') / D * m := by
  have hsd : √d ≠ 0 := (Real.sqrt_pos.2 hd).ne'
  have hsd' : √d' ≠ 0 := (Real.sqrt_pos.2 hd').ne'
  have hsD : √D ≠ 0 := (Real.sqrt_pos.2 hD).ne'
  have hDD : √D * √D = D := Real.mul_self_sqrt hD.le
  rw [Real.sqrt_div (mul_nonneg hn hd.le), Real.sqrt_div (mul_nonneg hn' hd'.le),
    Real.sqrt_mul hn, Real.sqrt_mul hn', Real.sqrt_mul hn]
  have h : √n * √d / √D * (m / (√d * √d')) * (√n' * √d' / √D) = √n * √n' / (√D * √D) * m := by
    field_simp
  rw [h, hDD]

/-- overlap of the unit-normalised Cartesian functions `c`, `c'` of one shell -/
noncomputable def Sov (c c' : Comp) : ℝ := (metric c c' : ℝ) / (√(c.dfact : ℝ) * √(c'.dfact : ℝ))

/-- `(T S Tᵀ)[r][r']` with the Cartesian sums over the component list `cs` -/
noncomputable def gram (l : ℕ) (cs : List Comp) (r r' : SphLabel) : ℝ :=
  (cs.map fun c => (cs.map fun c' =>
    transEntry (K := ℝ) l r c * Sov c c' * transEntry (K := ℝ) l r' c').sum).sum

/-- sign carried by a label -/
def SphLabel.sgn (r : SphLabel) : ℚ := if r.negSign then -1 else 1

theorem dfactOdd_pos (k : ℕ) : 0 < dfactOdd k := by
  induction k with
  | zero => simp [dfactOdd]
  | succ k ih => simp only [dfactOdd]; positivity

theorem dfact_pos (c : Comp) : 0 < c.dfact := by
  unfold Comp.dfact
  have := dfactOdd_pos c.1; have := dfactOdd_pos c.2.1; have := dfactOdd_pos c.2.2
  positivity

theorem normSq_nonneg (l m : ℕ) : 0 ≤ normSq l m := by
  unfold normSq
  positivity

theorem entry_product (l : ℕ) (r r' : SphLabel) (c c' : Comp) :
    transEntry (K := ℝ) l r c * Sov c c' * transEntry (K := ℝ) l r' c' =
      ((r.sgn * r'.sgn : ℚ) : ℝ) * √((normSq l r.m : ℝ) * (normSq l r'.m : ℝ)) / (dfactOdd l : ℝ) *
        (((harmonic l r.m r.sine).coeff c * (harmonic l r'.m r'.sine).coeff c' * metric c c' : ℚ) : ℝ) := by
  have hn : (0 : ℝ) ≤ (normSq l r.m : ℝ) := by exact_mod_cast normSq_nonneg l r.m
  have hn' : (0 : ℝ) ≤ (normSq l r'.m : ℝ) := by exact_mod_cast normSq_nonneg l r'.m
  have hd : (0 : ℝ) < (c.dfact : ℝ) := by exact_mod_cast dfact_pos c
  have hd' : (0 : ℝ) < (c'.dfact : ℝ) := by exact_mod_cast dfact_pos c'
  have hD : (0 : ℝ) < (dfactOdd l : ℝ) := by exact_mod_cast dfactOdd_pos l
  have key := sqrt_cancel _ _ _ _ _ (metric c c' : ℝ) hn hn' hd hd' hD
  have e1 : ∀ (lab : SphLabel) (c : Comp), transEntry (K := ℝ) l lab c =
      ((lab.sgn * (harmonic l lab.m lab.sine).coeff c : ℚ) : ℝ) *
        √((normSq l lab.m : ℝ) * (c.dfact : ℝ) / (dfactOdd l : ℝ)) := by
    intro lab c
    simp only [transEntry, transEntryQ, ofRat_real, Transc.sqrt, SphLabel.sgn]
    cases lab.negSign <;> simp
  rw [e1 r c, e1 r' c', Sov]
  push_cast
  linear_combination ((r.sgn : ℝ) * ((harmonic l r.m r.sine).coeff c : ℝ) * (r'.sgn : ℝ) *
    ((harmonic l r'.m r'.sine).coeff c' : ℝ)) * key

/-- **Reduction of `T S Tᵀ` to the rational form** (every `l`, every component list, every pair
of labels): the square roots pull out of the double sum. -/
theorem ortho_reduction (l : ℕ) (cs : List Comp) (r r' : SphLabel) :
    gram l cs r r' =
      ((r.sgn * r'.sgn : ℚ) : ℝ) * √((normSq l r.m : ℝ) * (normSq l r'.m : ℝ)) / (dfactOdd l : ℝ) *
        ((Qc cs (harmonic l r.m r.sine) (harmonic l r'.m r'.sine) : ℚ) : ℝ) := by
  unfold gram Qc
  simp only [entry_product, List.sum_map_mul_left]
  congr 1
  rw [Rat.cast_list_sum, List.map_map]
  congr 1
  apply List.map_congr_left
  intro c _
  rw [Function.comp_apply, Rat.cast_list_sum, List.map_map]
  rfl

/-! ## Conclusion for `l ≤ 10` -/

theorem support_le_10 (l : ℕ) (hl : l ≤ 10) (m : ℕ) (neg : Bool) (hm : m ≤ l)
    (hneg : neg = true → 1 ≤ m) :
    (defaultCart l).Nodup ∧ ((harmonic l m neg).map (·.1)).Nodup ∧
      ∀ t ∈ harmonic l m neg, t.1 ∈ defaultCart l := by
  have h := supportAll_10
  simp only [supportAll, List.all_eq_true, List.mem_range, Bool.and_eq_true, decide_eq_true_eq,
    List.contains_iff_mem] at h
  obtain ⟨h1, h2⟩ := h l (by omega)
  obtain ⟨h3, h4⟩ := h2 (m, neg) ((mem_harmonics l m neg).2 ⟨hm, hneg⟩)
  exact ⟨h1, h3, h4⟩

/-- for `l ≤ 10` and the default Cartesian component list, `(T S Tᵀ)[r][r']` is the rational
bilinear form `Q` of the two harmonics times `± √(normSq_r normSq_r') / (2l-1)!!` -/
theorem gram_eq_Q_le_10 (l : ℕ) (hl : l ≤ 10) (r r' : SphLabel) (hm : r.m ≤ l) (hm' : r'.m ≤ l)
    (hs : r.sine = true → 1 ≤ r.m) (hs' : r'.sine = true → 1 ≤ r'.m) :
    gram l (defaultCart l) r r' =
      ((r.sgn * r'.sgn : ℚ) : ℝ) * √((normSq l r.m : ℝ) * (normSq l r'.m : ℝ)) / (dfactOdd l : ℝ) *
        ((Q (harmonic l r.m r.sine) (harmonic l r'.m r'.sine) : ℚ) : ℝ) := by
  obtain ⟨hc, hp, hpc⟩ := support_le_10 l hl r.m r.sine hm hs
  obtain ⟨_, hq, hqc⟩ := support_le_10 l hl r'.m r'.sine hm' hs'
  rw [ortho_reduction, Qc_eq_Q _ hc _ _ hp hq hpc hqc]

/-- **The rows of the transformation matrix are orthonormal** in the overlap metric of the
unit-normalised Cartesian functions, for every `l ≤ 10` and every pair of labels in range:
`(T S Tᵀ)[r][r'] = 0` for two different functions, and `sgn_r · sgn_r'` (`= 1` for `r = r'`) for
the same function. -/
theorem rows_orthonormal_le_10 (l : ℕ) (hl : l ≤ 10) (r r' : SphLabel) (hm : r.m ≤ l)
    (hm' : r'.m ≤ l) (hs : r.sine = true → 1 ≤ r.m) (hs' : r'.sine = true → 1 ≤ r'.m) :
    gram l (defaultCart l) r r' =
      if (r.sine, r.m) = (r'.sine, r'.m) then ((r.sgn * r'.sgn : ℚ) : ℝ) else 0 := by
  rw [gram_eq_Q_le_10 l hl r r' hm hm' hs hs']
  have hD : (0 : ℝ) < (dfactOdd l : ℝ) := by exact_mod_cast dfactOdd_pos l
  obtain ⟨hoff, hdiag⟩ := orthonormal_le_10 l hl r.m r'.m r.sine r'.sine hm hm' hs hs'
  by_cases hk : (r.sine, r.m) = (r'.sine, r'.m)
  · rw [if_pos hk]
    simp only [Prod.mk.injEq] at hk
    obtain ⟨h1, h2⟩ := hk
    rw [← h1, ← h2] at *
    have hn : (0 : ℝ) ≤ (normSq l r.m : ℝ) := by exact_mod_cast normSq_nonneg l r.m
    rw [Real.sqrt_mul_self hn]
    have hq : (normSq l r.m : ℝ) * ((Q (harmonic l r.m r.sine) (harmonic l r.m r.sine) : ℚ) : ℝ)
        = (dfactOdd l : ℝ) := by exact_mod_cast hdiag
    field_simp
    linear_combination ((r.sgn * r'.sgn : ℚ) : ℝ) * hq
  · rw [if_neg hk]
    have hne : (r.m, r.sine) ≠ (r'.m, r'.sine) := by
      intro h; apply hk
      simp only [Prod.mk.injEq] at h ⊢
      exact ⟨h.2, h.1⟩
    rw [hoff hne]
    simp

theorem mem_sphKeys (l : ℕ) (k : Bool × ℕ) (h : k ∈ sphKeys l) : k.2 ≤ l ∧ (k.1 = true → 1 ≤ k.2) := by
  simp only [sphKeys, List.mem_append, List.mem_map, List.mem_range] at h
  rcases h with ⟨a, ha, rfl⟩ | ⟨a, ha, rfl⟩
  · simp; omega
  · simp; omega

theorem sgn_mul_self (r : SphLabel) : r.sgn * r.sgn = 1 := by
  unfold SphLabel.sgn; cases r.negSign <;> simp

/-- **Every accepted spherical order gives an orthonormal set of rows** (`l ≤ 10`): if
`validSphOrder l labels = some ls`, then `(T S Tᵀ)[i][j] = δ_ij` for the rows `ls[i]`, `ls[j]`,
whatever the order and the signs. -/
theorem rows_orthonormal_valid (l : ℕ) (hl : l ≤ 10) (labels : List String) (ls : List SphLabel)
    (h : validSphOrder l labels = some ls) (i j : ℕ) (hi : i < ls.length) (hj : j < ls.length) :
    gram l (defaultCart l) ls[i] ls[j] = if i = j then 1 else 0 := by
  obtain ⟨_, hperm⟩ := (valid_iff_perm l labels ls).1 h
  have hnd := valid_keys_nodup l labels ls h
  have hr : ∀ (i : ℕ) (hi : i < ls.length), ls[i].m ≤ l ∧ (ls[i].sine = true → 1 ≤ ls[i].m) := by
    intro i hi
    have : (ls[i].sine, ls[i].m) ∈ ls.map fun x => (x.sine, x.m) :=
      List.mem_map.2 ⟨ls[i], List.getElem_mem hi, rfl⟩
    exact mem_sphKeys l _ (hperm.subset this)
  rw [rows_orthonormal_le_10 l hl _ _ (hr i hi).1 (hr j hj).1 (hr i hi).2 (hr j hj).2]
  by_cases hij : i = j
  · subst hij
    simp [sgn_mul_self]
  · rw [if_neg hij, if_neg]
    intro hk
    apply hij
    have hi' : i < (ls.map fun x => (x.sine, x.m)).length := by simpa using hi
    have hj' : j < (ls.map fun x => (x.sine, x.m)).length := by simpa using hj
    have := (hnd.getElem_inj_iff (hi := hi') (hj := hj')).1 (by simpa using hk)
    exact this

end GB
