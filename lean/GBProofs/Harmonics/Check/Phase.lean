import GBProofs.Harmonics.Defs
/-! Kernel evaluation: azimuthal factorisation of every harmonic of `l ≤ 10`, and the recursive
`Re/Im (x+iy)^m` against their binomial expansions for `m ≤ 10`. -/
namespace GB
set_option maxRecDepth 100000
theorem phaseAll_10 : phaseAll 10 = true := by decide +kernel
theorem binomAll_10 : binomAll 10 = true := by decide +kernel
end GB
