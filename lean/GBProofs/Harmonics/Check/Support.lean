import GBProofs.Harmonics.Defs
/-! Kernel evaluation: for `l ≤ 10` the default Cartesian component list has no repetition, and
every harmonic is a list of distinct monomials, all of which occur in that component list. -/
namespace GB
set_option maxRecDepth 100000

def supportAll (lmax : Nat) : Bool :=
  (List.range (lmax + 1)).all fun l =>
    decide (defaultCart l).Nodup &&
    (harmonics l).all fun k =>
      decide ((harmonic l k.1 k.2).map (·.1)).Nodup &&
      (harmonic l k.1 k.2).all fun t => (defaultCart l).contains t.1

theorem supportAll_10 : supportAll 10 = true := by decide +kernel
end GB
