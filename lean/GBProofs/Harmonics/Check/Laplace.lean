import GBProofs.Harmonics.Defs
/-! Kernel evaluation: every harmonic of `l ≤ 10` has zero list Laplacian and is homogeneous. -/
namespace GB
set_option maxRecDepth 100000
theorem allHarmonic_10 : allHarmonic 10 = true := by decide +kernel
theorem allHomogeneous_10 : allHomogeneous 10 = true := by decide +kernel
end GB
