import GBProofs.Harmonics.Ortho.Small
import GBProofs.Harmonics.Ortho.L7c0
import GBProofs.Harmonics.Ortho.L7s0
import GBProofs.Harmonics.Ortho.L8c0
import GBProofs.Harmonics.Ortho.L8s0
import GBProofs.Harmonics.Ortho.L9c0
import GBProofs.Harmonics.Ortho.L9c5
import GBProofs.Harmonics.Ortho.L9s0
import GBProofs.Harmonics.Ortho.L9s6
import GBProofs.Harmonics.Ortho.L10c0
import GBProofs.Harmonics.Ortho.L10c3
import GBProofs.Harmonics.Ortho.L10c6
import GBProofs.Harmonics.Ortho.L10s0
import GBProofs.Harmonics.Ortho.L10s4
import GBProofs.Harmonics.Ortho.L10s7
import Mathlib.Tactic.IntervalCases
/-!
# Orthonormality table of the solid harmonics, `l ≤ 10`

`Q(h, h') = 0` for two different harmonics of the same `l`, and
`normSq l m · Q(h, h) = (2l-1)!!`, where `Q` is the bilinear form of the overlap metric of the
Cartesian monomials of degree `l` (see `GBProofs/Harmonics/OrthoReal.lean` for why this is
orthonormality of the rows of the transformation matrix).
-/
namespace GB

theorem orthonormal_of_cover (l : Nat) (Ps : List (Nat × Bool → Bool))
    (h : ∀ P ∈ Ps, orthoPart l P = true)
    (hc : (harmonics l).all (fun k => Ps.any (fun P => P k)) = true) : orthonormal l = true := by
  simp only [orthonormal, List.all_eq_true]
  intro k hk
  simp only [List.all_eq_true, List.any_eq_true] at hc
  obtain ⟨P, hP, hPk⟩ := hc k hk
  have := h P hP
  simp only [orthoPart, List.all_eq_true] at this
  simpa [hPk] using this k hk

theorem orthonormal_7 : orthonormal 7 = true :=
  orthonormal_of_cover 7 [_, _]
    (by
      intro P hP
      simp only [List.mem_cons, List.not_mem_nil, or_false] at hP
      rcases hP with rfl | rfl
      · exact orthoPart_7_c_0_8
      · exact orthoPart_7_s_0_8)
    (by decide)

theorem orthonormal_8 : orthonormal 8 = true :=
  orthonormal_of_cover 8 [_, _]
    (by
      intro P hP
      simp only [List.mem_cons, List.not_mem_nil, or_false] at hP
      rcases hP with rfl | rfl
      · exact orthoPart_8_c_0_9
      · exact orthoPart_8_s_0_9)
    (by decide)

theorem orthonormal_9 : orthonormal 9 = true :=
  orthonormal_of_cover 9 [_, _, _, _]
    (by
      intro P hP
      simp only [List.mem_cons, List.not_mem_nil, or_false] at hP
      rcases hP with rfl | rfl | rfl | rfl
      · exact orthoPart_9_c_0_5
      · exact orthoPart_9_c_5_10
      · exact orthoPart_9_s_0_6
      · exact orthoPart_9_s_6_10)
    (by decide)

theorem orthonormal_10 : orthonormal 10 = true :=
  orthonormal_of_cover 10 [_, _, _, _, _, _]
    (by
      intro P hP
      simp only [List.mem_cons, List.not_mem_nil, or_false] at hP
      rcases hP with rfl | rfl | rfl | rfl | rfl | rfl
      · exact orthoPart_10_c_0_3
      · exact orthoPart_10_c_3_6
      · exact orthoPart_10_c_6_11
      · exact orthoPart_10_s_0_4
      · exact orthoPart_10_s_4_7
      · exact orthoPart_10_s_7_11)
    (by decide)

theorem orthonormal_table (l : Nat) (hl : l ≤ 10) : orthonormal l = true := by
  interval_cases l
  · exact orthonormal_0
  · exact orthonormal_1
  · exact orthonormal_2
  · exact orthonormal_3
  · exact orthonormal_4
  · exact orthonormal_5
  · exact orthonormal_6
  · exact orthonormal_7
  · exact orthonormal_8
  · exact orthonormal_9
  · exact orthonormal_10

/-- **Orthonormality table.**  For every `l ≤ 10` and any two of the `2l+1` functions
(`neg = false`: cosine `c_m`, `0 ≤ m ≤ l`; `neg = true`: sine `s_m`, `1 ≤ m ≤ l`):
`Q = 0` for different functions and `normSq l m · Q(h, h) = (2l-1)!!`. -/
theorem orthonormal_le_10 (l : Nat) (hl : l ≤ 10) (m m' : Nat) (neg neg' : Bool)
    (hm : m ≤ l) (hm' : m' ≤ l) (hneg : neg = true → 1 ≤ m) (hneg' : neg' = true → 1 ≤ m') :
    (((m, neg) ≠ (m', neg') → Q (harmonic l m neg) (harmonic l m' neg') = 0) ∧
     normSq l m * Q (harmonic l m neg) (harmonic l m neg) = ((dfactOdd l : Nat) : Rat)) := by
  have ht := orthonormal_table l hl
  simp only [orthonormal, orthoRow, List.all_eq_true] at ht
  have hk := (mem_harmonics l m neg).2 ⟨hm, hneg⟩
  have hk' := (mem_harmonics l m' neg').2 ⟨hm', hneg'⟩
  constructor
  · intro hne
    have := ht _ hk _ hk'
    have hb : ((m, neg) == (m', neg')) = false := by simpa using hne
    simpa [hb] using this
  · have := ht _ hk _ hk
    simpa using this

end GB
