import GBProofs.Basic
import Mathlib.Tactic.Ring
import Mathlib.Tactic.Linarith
import Mathlib.Data.List.Basic
import Mathlib.Data.List.Perm.Basic
import Mathlib.Data.List.Perm.Subperm
import Mathlib.Data.List.Nodup
import Mathlib.Algebra.BigOperators.Group.List.Basic
import Mathlib.Algebra.BigOperators.Group.Finset.Basic
import Mathlib.Algebra.BigOperators.Ring.Finset

/-!
# Soundness of the symbolic axis calculus (C09) for all shapes

`GBModel/Arr.lean` gives the NumPy instruction set of the assembly code (`ArrOp`), its index-wise
meaning on concrete arrays (`ArrOp.apply`, `runOps`) and a symbolic execution on shapes (`symStep`,
`symEval`) that `pipelineOk` / `lincombOk` decide for every program extracted from `base_*.py`.
This file proves that the symbolic execution is *sound* for arrays of every shape:

* `axSize`, `flatIdx` : size of a fused axis and the row-major flat index of an assignment on it;
* `den` / `denote` : the value a symbolic array denotes under an assignment `σ : Label → ℕ` of its
  free labels (`trans` factors bind their `old` label by a `Finset.sum`, `norm` factors read `σ`);
* `Repr S a` : the concrete array `a` represents the symbolic array `S`; `WF S` well-formedness;
* `symStep_sound`, `symEval_sound` : one-step / whole-program soundness, all five operations;
* `den_perm` : independent factors may be reordered; `pipelineOk_sound` : the checked property gives
  the canonical denotation; `c09_general` (explicit nested-sum form `nest`, any number of slots and
  trailing axes), `c09_one_slot`, `c09_two_slots` (closed formulas);
* `pipelineOk_frame` : passing the check without trailing axes implies passing it with any number;
* `lincombOk_sound` : the same for `construct_array_lincomb`;
* `extracted_pipelines_sound`, `extracted_lincombs_sound` : the above for the extracted programs.
-/

namespace GB

/-! ## flat indices on fused axes -/

/-- size of a (possibly fused) axis -/
def axSize (env : Label → ℕ) (ax : List Label) : ℕ := (ax.map env).prod

/-- row-major flat index of the assignment `σ` on the fused axis `ax` -/
def flatIdx (env : Label → ℕ) (σ : Label → ℕ) : List Label → ℕ
  | [] => 0
  | l :: ls => σ l * axSize env ls + flatIdx env σ ls

@[simp] theorem axSize_nil (env : Label → ℕ) : axSize env [] = 1 := by simp [axSize]
@[simp] theorem axSize_cons (env : Label → ℕ) (l ls) : axSize env (l :: ls) = env l * axSize env ls := by
  simp [axSize]
theorem axSize_append (env : Label → ℕ) (a b) : axSize env (a ++ b) = axSize env a * axSize env b := by
  simp [axSize]
@[simp] theorem flatIdx_nil (env σ) : flatIdx env σ [] = 0 := rfl
@[simp] theorem flatIdx_cons (env σ l ls) :
    flatIdx env σ (l :: ls) = σ l * axSize env ls + flatIdx env σ ls := rfl
theorem flatIdx_single (env σ l) : flatIdx env σ [l] = σ l := by simp

theorem flatIdx_lt (env σ) (ax : List Label) (h : ∀ l ∈ ax, σ l < env l) :
    flatIdx env σ ax < axSize env ax := by
  induction ax with
  | nil => simp
  | cons l ls ih =>
    have h1 : σ l < env l := h l (by simp)
    have h2 := ih (fun l' hl' => h l' (by simp [hl']))
    simp only [flatIdx_cons, axSize_cons]
    calc σ l * axSize env ls + flatIdx env σ ls
        < σ l * axSize env ls + axSize env ls := by omega
      _ = (σ l + 1) * axSize env ls := by ring
      _ ≤ env l * axSize env ls := Nat.mul_le_mul_right _ h1

theorem flatIdx_append (env σ) (a b : List Label) :
    flatIdx env σ (a ++ b) = flatIdx env σ a * axSize env b + flatIdx env σ b := by
  induction a with
  | nil => simp
  | cons l ls ih =>
    simp only [List.cons_append, flatIdx_cons, ih, axSize_append]
    ring

theorem flatIdx_append_div (env σ) (a b : List Label) (hb : ∀ l ∈ b, σ l < env l) :
    flatIdx env σ (a ++ b) / axSize env b = flatIdx env σ a ∧
    flatIdx env σ (a ++ b) % axSize env b = flatIdx env σ b := by
  have hlt := flatIdx_lt env σ b hb
  rw [flatIdx_append]
  constructor
  · rw [Nat.add_comm, Nat.add_mul_div_right _ _ (by omega), Nat.div_eq_of_lt hlt]; simp
  · rw [Nat.add_comm, Nat.add_mul_mod_self_right, Nat.mod_eq_of_lt hlt]

/-- `flatIdx` only looks at the labels of the axis -/
theorem flatIdx_congr (env) {σ τ : Label → ℕ} (ax : List Label) (h : ∀ l ∈ ax, σ l = τ l) :
    flatIdx env σ ax = flatIdx env τ ax := by
  induction ax with
  | nil => rfl
  | cons l ls ih =>
    simp only [flatIdx_cons]
    rw [h l (by simp), ih (fun l' hl' => h l' (by simp [hl']))]

theorem flatIdx_update_of_notMem (env σ) (ax : List Label) (l : Label) (c : ℕ) (h : l ∉ ax) :
    flatIdx env (Function.update σ l c) ax = flatIdx env σ ax := by
  apply flatIdx_congr
  intro l' hl'
  have : l' ≠ l := fun e => h (e ▸ hl')
  simp [Function.update_of_ne this]

/-! ## list lemmas for `swapL` / `insertAt` -/

theorem swapL_of_lt {β : Type} (l : List β) {i j : ℕ} (hi : i < l.length) (hj : j < l.length) :
    swapL l i j = (l.set i l[j]).set j l[i] := by
  simp [swapL, List.getElem?_eq_getElem hi, List.getElem?_eq_getElem hj]

theorem swapL_length {β : Type} (l : List β) (i j : ℕ) : (swapL l i j).length = l.length := by
  unfold swapL
  split <;> simp

theorem swapL_map {β γ : Type} (f : β → γ) (l : List β) (i j : ℕ) :
    swapL (l.map f) i j = (swapL l i j).map f := by
  unfold swapL
  rcases hi : l[i]? with _ | a <;> rcases hj : l[j]? with _ | b <;> simp [hi, hj, List.map_set]

theorem swapL_swapL {β : Type} (l : List β) {i j : ℕ} (hi : i < l.length) (hj : j < l.length) :
    swapL (swapL l i j) i j = l := by
  have hi' : i < (swapL l i j).length := by rw [swapL_length]; exact hi
  have hj' : j < (swapL l i j).length := by rw [swapL_length]; exact hj
  rw [swapL_of_lt _ hi' hj']
  apply List.ext_getElem
  · simp [swapL_length]
  · intro n h1 h2
    simp only [swapL_of_lt l hi hj, List.getElem_set]
    split_ifs <;> simp_all

theorem set_getElem_perm_cons {β : Type} (l : List β) (x : β) {j : ℕ} (hj : j < l.length) :
    (l[j] :: l.set j x).Perm (x :: l) := by
  have h1 := List.set_perm_cons_eraseIdx hj x
  have h2 := List.getElem_cons_eraseIdx_perm hj
  exact ((h1.cons l[j]).trans (List.Perm.swap _ _ _)).trans (h2.cons x)

theorem swapL_perm {β : Type} (l : List β) (i j : ℕ) : (swapL l i j).Perm l := by
  by_cases hi : i < l.length
  · by_cases hj : j < l.length
    · rw [swapL_of_lt l hi hj]
      induction l generalizing i j with
      | nil => simp at hi
      | cons x l ih =>
        rcases i with _ | i <;> rcases j with _ | j
        · simp
        · simpa using set_getElem_perm_cons l x (by simpa using hj)
        · simpa using set_getElem_perm_cons l x (by simpa using hi)
        · simpa using ih i j (by simpa using hi) (by simpa using hj)
    · simp [swapL, List.getElem?_eq_none (not_lt.mp hj)]
  · simp [swapL, List.getElem?_eq_none (not_lt.mp hi)]

theorem getElem?_split {β : Type} {l : List β} {k : ℕ} {x : β} (h : l[k]? = some x) :
    ∃ l1 l2, l = l1 ++ x :: l2 ∧ l1.length = k := by
  obtain ⟨hk, hx⟩ := List.getElem?_eq_some_iff.mp h
  refine ⟨l.take k, l.drop (k + 1), ?_, by simp [Nat.le_of_lt hk]⟩
  rw [← hx, List.getElem_cons_drop, List.take_append_drop]

theorem insertAt_append {β : Type} (l1 l2 : List β) (c : β) :
    insertAt (l1 ++ l2) l1.length c = l1 ++ c :: l2 := by
  simp [insertAt]

theorem eraseIdx_append_cons {β : Type} (l1 l2 : List β) (x : β) {k : ℕ} (hk : l1.length = k) :
    (l1 ++ x :: l2).eraseIdx k = l1 ++ l2 := by
  subst hk
  rw [List.eraseIdx_append_of_length_le (Nat.le_refl _)]
  simp

/-! ## denotation of symbolic arrays -/

section Sound
variable {K : Type} [Field K]
variable (env : Label → ℕ) (mats norms : ℕ → Arr K) (blk : Arr K) (start : List (List Label))

/-- denotation of a factor list, outermost (= applied last) factor first.  A `trans` factor binds its
`old` label (summed over `range (env old)`), a `norm` factor reads the current assignment. -/
def den : List Factor → (Label → ℕ) → K
  | [], σ => blk.get (start.map (flatIdx env σ))
  | Factor.trans t new old :: fs, σ =>
      ∑ c ∈ Finset.range (env old), (mats t).get [σ new, c] * den fs (Function.update σ old c)
  | Factor.norm n m c :: fs, σ => den fs σ * (norms n).get [σ m, σ c]

/-- the value denoted by `S` under the assignment `σ` of its free labels (`S.factors` is in order of
application, so the last one is outermost) -/
def denote (S : Sym) (σ : Label → ℕ) : K := den env mats norms blk start S.factors.reverse σ

/-- the multi-index of a symbolic shape under `σ` -/
def ix (axes : List (List Label)) (σ : Label → ℕ) : List ℕ := axes.map (flatIdx env σ)

/-- the concrete array `a` represents the symbolic array `S` -/
structure Repr (S : Sym) (a : Arr K) : Prop where
  dims : a.dims = S.axes.map (axSize env)
  get : ∀ σ : Label → ℕ, (∀ l ∈ S.axes.flatten, σ l < env l) →
    a.get (ix env S.axes σ) = denote env mats norms blk start S σ

/-- well-formed symbolic states: atomic labels pairwise distinct, and the spherical label of a slot
is not present together with its Cartesian label (so `tdot` creates a fresh label) -/
structure WF (S : Sym) : Prop where
  nodup : S.axes.flatten.Nodup
  fresh : ∀ s, Label.sph s ∈ S.axes.flatten → Label.cart s ∉ S.axes.flatten

/-- the matrices have the shapes the symbolic factors attribute to them -/
def MatsOk (fs : List Factor) : Prop :=
  ∀ t new old, Factor.trans t new old ∈ fs → (mats t).dims = [env new, env old]

variable {env mats norms blk start}

theorem repr_swap {S : Sym} {a : Arr K} (i j : ℕ) (h : Repr env mats norms blk start S a)
    (hi : i < S.axes.length) (hj : j < S.axes.length) :
    Repr env mats norms blk start { S with axes := swapL S.axes i j }
      ((ArrOp.swap i j).apply mats norms a) := by
  constructor
  · simp only [ArrOp.apply, h.dims, swapL_map]
  · intro σ hσ
    simp only [ArrOp.apply, ix, swapL_map, swapL_swapL _ hi hj]
    exact h.get σ (fun l hl => hσ l ((swapL_perm S.axes i j).flatten.mem_iff.mpr hl))

theorem wf_swap {S : Sym} (i j : ℕ) (h : WF S) : WF { S with axes := swapL S.axes i j } := by
  have hp := (swapL_perm S.axes i j).flatten
  exact ⟨hp.nodup_iff.mpr h.nodup, fun s hs hc => h.fresh s (hp.mem_iff.mp hs) (hp.mem_iff.mp hc)⟩

theorem repr_merge0 {a0 a1 : List Label} {rest : List (List Label)} {fs : List Factor} {a : Arr K}
    (h : Repr env mats norms blk start ⟨a0 :: a1 :: rest, fs⟩ a) :
    Repr env mats norms blk start ⟨(a0 ++ a1) :: rest, fs⟩ (ArrOp.merge0.apply mats norms a) := by
  obtain ⟨hd, hg⟩ := h
  obtain ⟨dims, get⟩ := a
  simp only [List.map_cons] at hd
  subst hd
  constructor
  · simp [ArrOp.apply, axSize_append]
  · intro σ hσ
    have hb : ∀ l ∈ a1, σ l < env l := fun l hl => hσ l (by simp [hl])
    obtain ⟨h1, h2⟩ := flatIdx_append_div env σ a0 a1 hb
    have := hg σ (fun l hl => hσ l (by simpa using hl))
    simp only [ArrOp.apply, ix, List.map_cons, h1, h2]
    simpa [ix, denote] using this

theorem repr_scale {S : Sym} {a : Arr K} (n pos : ℕ) (m c : Label)
    (h : Repr env mats norms blk start S a)
    (hm : S.axes[pos]? = some [m]) (hc : S.axes[pos + 1]? = some [c]) :
    Repr env mats norms blk start { S with factors := S.factors ++ [Factor.norm n m c] }
      ((ArrOp.scale n pos).apply mats norms a) := by
  constructor
  · simp only [ArrOp.apply, h.dims]
  · intro σ hσ
    simp only [ArrOp.apply, ix, denote, List.reverse_append, List.reverse_cons, List.reverse_nil,
      List.nil_append, List.singleton_append, den]
    have := h.get σ hσ
    simp only [ix, denote] at this
    rw [this]
    simp [List.getD_eq_getElem?_getD, hm, hc]

theorem repr_tdot {l1 l2 : List (List Label)} {fs : List Factor} {a : Arr K} (t slot : ℕ)
    (h : Repr env mats norms blk start ⟨l1 ++ [Label.cart slot] :: l2, fs⟩ a)
    (hwf : WF ⟨l1 ++ [Label.cart slot] :: l2, fs⟩)
    (hT : (mats t).dims = [env (Label.sph slot), env (Label.cart slot)]) :
    Repr env mats norms blk start
      ⟨[Label.sph slot] :: (l1 ++ l2), fs ++ [Factor.trans t (Label.sph slot) (Label.cart slot)]⟩
      ((ArrOp.tdot t l1.length).apply mats norms a) := by
  obtain ⟨hd, hg⟩ := h
  simp only at hd hg
  have hnd := hwf.nodup
  simp only [List.flatten_append, List.flatten_cons, List.singleton_append] at hnd
  have hn1 : Label.cart slot ∉ l1.flatten := by
    intro hmem
    exact (List.nodup_append.mp hnd).2.2 _ hmem _ (List.mem_cons_self) rfl
  have hn2 : Label.cart slot ∉ l2.flatten :=
    (List.nodup_cons.mp (List.nodup_append.mp hnd).2.1).1
  constructor
  · simp only [ArrOp.apply, hd, hT, List.map_append, List.map_cons]
    rw [eraseIdx_append_cons _ _ _ (by simp)]
    simp
  · intro σ hσ
    simp only [ArrOp.apply, ix, List.map_cons, denote, List.reverse_append, List.reverse_cons,
      List.reverse_nil, List.nil_append, List.singleton_append, den, flatIdx_single]
    have hn : a.dims.getD l1.length 0 = env (Label.cart slot) := by
      simp [hd, List.getD_eq_getElem?_getD]
    rw [hn, sumN_eq_sum]
    apply Finset.sum_congr rfl
    intro c hc
    congr 1
    have hins : insertAt (List.map (flatIdx env σ) (l1 ++ l2)) l1.length c
        = ix env (l1 ++ [Label.cart slot] :: l2) (Function.update σ (Label.cart slot) c) := by
      have e1 : ∀ l : List (List Label), Label.cart slot ∉ l.flatten →
          l.map (flatIdx env (Function.update σ (Label.cart slot) c)) = l.map (flatIdx env σ) := by
        intro l hl
        apply List.map_congr_left
        intro ax hax
        exact flatIdx_update_of_notMem env σ ax _ c (fun hm => hl (List.mem_flatten.mpr ⟨ax, hax, hm⟩))
      simp only [ix, List.map_append, List.map_cons, e1 l1 hn1, e1 l2 hn2, flatIdx_single,
        Function.update_self]
      have := insertAt_append (l1.map (flatIdx env σ)) (l2.map (flatIdx env σ)) c
      simpa using this
    rw [hins]
    apply hg
    intro l hl
    by_cases hlc : l = Label.cart slot
    · subst hlc
      simpa using hc
    · rw [Function.update_of_ne hlc]
      apply hσ
      simp only [List.flatten_append, List.flatten_cons, List.mem_append, List.mem_cons,
        List.singleton_append] at hl ⊢
      rcases hl with hl | hl | hl
      · exact Or.inr (Or.inl hl)
      · exact absurd hl hlc
      · exact Or.inr (Or.inr hl)

theorem wf_tdot {l1 l2 : List (List Label)} {fs fs' : List Factor} (slot : ℕ)
    (hwf : WF ⟨l1 ++ [Label.cart slot] :: l2, fs⟩) :
    WF ⟨[Label.sph slot] :: (l1 ++ l2), fs'⟩ := by
  obtain ⟨hnd, hfr⟩ := hwf
  simp only [List.flatten_append, List.flatten_cons, List.singleton_append] at hnd hfr
  have hp : (l1.flatten ++ Label.cart slot :: l2.flatten).Perm
      (Label.cart slot :: (l1.flatten ++ l2.flatten)) := List.perm_middle
  have hnd' := hp.nodup_iff.mp hnd
  obtain ⟨hc, hrest⟩ := List.nodup_cons.mp hnd'
  constructor
  · simp only [List.flatten_cons, List.flatten_append, List.singleton_append]
    refine List.nodup_cons.mpr ⟨?_, hrest⟩
    intro hs
    refine hfr slot (hp.mem_iff.mpr (List.mem_cons_of_mem _ hs)) (hp.mem_iff.mpr List.mem_cons_self)
  · intro s hs hcs
    simp only [List.flatten_cons, List.flatten_append, List.singleton_append, List.mem_cons,
      reduceCtorEq, false_or, Label.sph.injEq] at hs hcs
    rcases hs with rfl | hs
    · exact hc hcs
    · exact hfr s (hp.mem_iff.mpr (List.mem_cons_of_mem _ hs)) (hp.mem_iff.mpr (List.mem_cons_of_mem _ hcs))

/-- `fusePairs` on symbolic axes versus on dims -/
theorem fuse_go_dims : ∀ (n : ℕ) (axes ax : List (List Label)),
    symStep.go n axes = some ax →
    ArrOp.apply.fuseDims n (axes.map (axSize env)) = ax.map (axSize env) ∧
    ax.flatten = axes.flatten
  | 0, axes, ax, h => by
    simp only [symStep.go, Option.some.injEq] at h
    subst h
    simp [ArrOp.apply.fuseDims]
  | n+1, [], ax, h => by simp [symStep.go] at h
  | n+1, [_], ax, h => by simp [symStep.go] at h
  | n+1, a0 :: a1 :: as, ax, h => by
    simp only [symStep.go, Option.map_eq_some_iff] at h
    obtain ⟨r, hr, rfl⟩ := h
    obtain ⟨h1, h3⟩ := fuse_go_dims n as r hr
    simp [ArrOp.apply.fuseDims, h1, h3, axSize_append]

/-- `fusePairs` on symbolic axes versus on indices -/
theorem fuse_go_split (σ : Label → ℕ) : ∀ (n : ℕ) (axes ax : List (List Label)),
    symStep.go n axes = some ax → (∀ l ∈ axes.flatten, σ l < env l) →
    ArrOp.apply.split n (axes.map (axSize env)) (ax.map (flatIdx env σ)) = axes.map (flatIdx env σ)
  | 0, axes, ax, h, _ => by
    simp only [symStep.go, Option.some.injEq] at h
    subst h
    simp [ArrOp.apply.split]
  | n+1, [], ax, h, _ => by simp [symStep.go] at h
  | n+1, [_], ax, h, _ => by simp [symStep.go] at h
  | n+1, a0 :: a1 :: as, ax, h, hσ => by
    simp only [symStep.go, Option.map_eq_some_iff] at h
    obtain ⟨r, hr, rfl⟩ := h
    have h2 := fuse_go_split σ n as r hr (fun l hl => hσ l (by simp [hl]))
    have hb : ∀ l ∈ a1, σ l < env l := fun l hl => hσ l (by simp [hl])
    obtain ⟨d1, d2⟩ := flatIdx_append_div env σ a0 a1 hb
    simp [ArrOp.apply.split, h2, d1, d2]

theorem repr_fusePairs {S : Sym} {a : Arr K} (np : ℕ) (ax : List (List Label))
    (h : Repr env mats norms blk start S a) (hgo : symStep.go np S.axes = some ax) :
    Repr env mats norms blk start { S with axes := ax } ((ArrOp.fusePairs np).apply mats norms a) := by
  obtain ⟨hd, hfl⟩ := fuse_go_dims (env := env) np S.axes ax hgo
  constructor
  · simp only [ArrOp.apply, h.dims, hd]
  · intro σ hσ
    simp only [hfl] at hσ
    have := fuse_go_split σ np S.axes ax hgo hσ
    simp only [ArrOp.apply, ix, h.dims, this]
    exact h.get σ hσ

theorem wf_fusePairs {S : Sym} (np : ℕ) (ax : List (List Label)) (h : WF S)
    (hgo : symStep.go np S.axes = some ax) : WF { S with axes := ax } := by
  obtain ⟨_, hfl⟩ := fuse_go_dims (env := fun _ => 0) np S.axes ax hgo
  exact ⟨by simpa only [hfl] using h.nodup, by simpa only [hfl] using h.fresh⟩

/-! ## one step and whole programs -/

/-- factors only grow -/
theorem symStep_factors {op : ArrOp} {S S' : Sym} (h : symStep op S = some S') :
    ∀ f ∈ S.factors, f ∈ S'.factors := by
  intro f hf
  cases op with
  | swap i j =>
    simp only [symStep] at h
    split_ifs at h
    cases h; exact hf
  | merge0 =>
    simp only [symStep] at h
    split at h <;> cases h
    exact hf
  | tdot t k =>
    simp only [symStep] at h
    split at h <;> cases h
    exact List.mem_append_left _ hf
  | scale n pos =>
    simp only [symStep] at h
    split at h <;> cases h
    exact List.mem_append_left _ hf
  | fusePairs np =>
    simp only [symStep, Option.map_eq_some_iff] at h
    obtain ⟨ax, _, rfl⟩ := h
    exact hf

theorem symEval_factors : ∀ (prog : List ArrOp) {S S' : Sym}, symEval prog S = some S' →
    ∀ f ∈ S.factors, f ∈ S'.factors
  | [], S, S', hs => by
    simp only [symEval, List.foldlM_nil, pure, Option.some.injEq] at hs
    subst hs
    exact fun f hf => hf
  | op :: prog, S, S', hs => by
    simp only [symEval, List.foldlM_cons, Option.bind_eq_bind, Option.bind_eq_some_iff] at hs
    obtain ⟨S1, h1, h2⟩ := hs
    exact fun f hf => symEval_factors prog h2 f (symStep_factors h1 f hf)

/-- **one-step soundness** of the symbolic calculus -/
theorem symStep_sound {op : ArrOp} {S S' : Sym} {a : Arr K} (hwf : WF S)
    (hr : Repr env mats norms blk start S a) (hs : symStep op S = some S')
    (hm : MatsOk env mats S'.factors) :
    Repr env mats norms blk start S' (op.apply mats norms a) ∧ WF S' := by
  cases op with
  | swap i j =>
    simp only [symStep] at hs
    split_ifs at hs with hij
    cases hs
    exact ⟨repr_swap i j hr hij.1 hij.2, wf_swap i j hwf⟩
  | merge0 =>
    obtain ⟨axes, fs⟩ := S
    simp only [symStep] at hs
    split at hs
    · cases hs
      refine ⟨repr_merge0 hr, ?_⟩
      obtain ⟨h1, h2⟩ := hwf
      exact ⟨by simpa using h1, by simpa using h2⟩
    · cases hs
  | tdot t k =>
    obtain ⟨axes, fs⟩ := S
    simp only [symStep] at hs
    split at hs
    · rename_i slot heq
      obtain ⟨l1, l2, rfl, rfl⟩ := getElem?_split heq
      cases hs
      rw [eraseIdx_append_cons _ _ _ rfl]
      have hT := hm t (Label.sph slot) (Label.cart slot) (by simp)
      exact ⟨repr_tdot t slot hr hwf hT, wf_tdot slot hwf⟩
    · cases hs
  | scale n pos =>
    simp only [symStep] at hs
    split at hs
    · rename_i m c hm' hc'
      cases hs
      exact ⟨repr_scale n pos m c hr hm' hc', ⟨hwf.nodup, hwf.fresh⟩⟩
    · cases hs
  | fusePairs np =>
    simp only [symStep, Option.map_eq_some_iff] at hs
    obtain ⟨ax, hgo, rfl⟩ := hs
    exact ⟨repr_fusePairs np ax hr hgo, wf_fusePairs np ax hwf hgo⟩

/-- **soundness of the symbolic axis calculus for whole programs and all shapes** -/
theorem symEval_sound : ∀ (prog : List ArrOp) {S S' : Sym} {a : Arr K}, WF S →
    Repr env mats norms blk start S a → symEval prog S = some S' →
    MatsOk env mats S'.factors →
    Repr env mats norms blk start S' (runOps mats norms prog a) ∧ WF S'
  | [], S, S', a, hwf, hr, hs, _ => by
    simp only [symEval, List.foldlM_nil, pure, Option.some.injEq] at hs
    subst hs
    exact ⟨hr, hwf⟩
  | op :: prog, S, S', a, hwf, hr, hs, hm => by
    simp only [symEval, List.foldlM_cons, Option.bind_eq_bind, Option.bind_eq_some_iff] at hs
    obtain ⟨S1, h1, h2⟩ := hs
    have hm1 : MatsOk env mats S1.factors := fun t new old hmem =>
      hm t new old (symEval_factors prog h2 _ hmem)
    obtain ⟨hr1, hwf1⟩ := symStep_sound hwf hr h1 hm1
    exact symEval_sound prog hwf1 hr1 h2 hm

/-- the shell block itself represents the start state -/
theorem repr_start (h : blk.dims = start.map (axSize env)) :
    Repr env mats norms blk start ⟨start, []⟩ blk :=
  ⟨h, fun _ _ => rfl⟩

/-! ## the order of independent factors is irrelevant -/

variable (env mats norms blk start) in
/-- two adjacent factors may be exchanged (semantically) -/
def SemComm (g f : Factor) : Prop :=
  ∀ rest σ, den env mats norms blk start (g :: f :: rest) σ = den env mats norms blk start (f :: g :: rest) σ

theorem SemComm.symm {g f : Factor} (h : SemComm env mats norms blk start g f) :
    SemComm env mats norms blk start f g := fun rest σ => (h rest σ).symm

theorem semComm_norm_norm (n m c n' m' c') :
    SemComm env mats norms blk start (Factor.norm n m c) (Factor.norm n' m' c') := by
  intro rest σ
  simp only [den]
  ring

theorem semComm_trans_norm {t new old n m c} (hm : old ≠ m) (hc : old ≠ c) :
    SemComm env mats norms blk start (Factor.trans t new old) (Factor.norm n m c) := by
  intro rest σ
  simp only [den, Finset.sum_mul]
  apply Finset.sum_congr rfl
  intro x _
  rw [Function.update_of_ne hm.symm, Function.update_of_ne hc.symm]
  ring

theorem semComm_trans_trans {t new old t' new' old'} (ho : old ≠ old') (h1 : new ≠ old')
    (h2 : new' ≠ old) :
    SemComm env mats norms blk start (Factor.trans t new old) (Factor.trans t' new' old') := by
  intro rest σ
  simp only [den, Finset.mul_sum]
  rw [Finset.sum_comm]
  apply Finset.sum_congr rfl
  intro x _
  apply Finset.sum_congr rfl
  intro y _
  rw [Function.update_of_ne h2, Function.update_of_ne h1, Function.update_comm ho]
  ring

theorem den_congr (g : Factor) {a b : List Factor}
    (h : ∀ σ, den env mats norms blk start a σ = den env mats norms blk start b σ) :
    ∀ σ, den env mats norms blk start (g :: a) σ = den env mats norms blk start (g :: b) σ := by
  intro σ
  cases g <;> simp [den, h]

theorem den_move_front (f : Factor) (l2 : List Factor) : ∀ (l1 : List Factor),
    (∀ g ∈ l1, SemComm env mats norms blk start g f) →
    ∀ σ, den env mats norms blk start (l1 ++ f :: l2) σ = den env mats norms blk start (f :: (l1 ++ l2)) σ
  | [], _, σ => rfl
  | g :: l1, h, σ => by
    have ih := den_move_front f l2 l1 (fun g' hg' => h g' (List.mem_cons_of_mem _ hg'))
    rw [List.cons_append, den_congr g ih σ]
    exact h g List.mem_cons_self (l1 ++ l2) σ

/-- **reordering**: a factor list may be brought into any order `L` as long as every pair whose
relative order changes commutes -/
theorem den_perm : ∀ (L fs : List Factor), fs.Perm L →
    (∀ g f, [g, f].Sublist fs → [f, g].Sublist L → SemComm env mats norms blk start g f) →
    ∀ σ, den env mats norms blk start fs σ = den env mats norms blk start L σ
  | [], fs, hp, _, σ => by rw [hp.eq_nil]
  | f :: L, fs, hp, hc, σ => by
    have hf : f ∈ fs := hp.mem_iff.mpr List.mem_cons_self
    obtain ⟨l1, l2, rfl⟩ := List.append_of_mem hf
    have hp' : (l1 ++ l2).Perm L := (List.perm_middle.symm.trans hp).cons_inv
    have hfront := den_move_front (env := env) (mats := mats) (norms := norms) (blk := blk)
      (start := start) f l2 l1 (by
        intro g hg
        apply hc g f
        · have h1 : [g].Sublist l1 := List.singleton_sublist.mpr hg
          have h2 : [f].Sublist (f :: l2) := List.singleton_sublist.mpr List.mem_cons_self
          simpa using h1.append h2
        · have : g ∈ L := hp'.mem_iff.mp (List.mem_append_left _ hg)
          exact (List.singleton_sublist.mpr this).cons_cons f)
    rw [hfront σ]
    apply den_congr
    apply den_perm L (l1 ++ l2) hp'
    intro g' f' h1 h2
    apply hc g' f'
    · exact h1.trans (List.Sublist.append (List.Sublist.refl _) (List.sublist_cons_self _ _))
    · exact h2.trans (List.sublist_cons_self _ _)

/-! ## the start state and the expected factors -/

theorem flatten_flatMap_pair {β γ : Type} (f g : β → γ) (l : List β) :
    (l.flatMap fun s => [[f s], [g s]]).flatten = l.flatMap fun s => [f s, g s] := by
  induction l with
  | nil => rfl
  | cons x l ih => simp [List.flatMap_cons, ih]

theorem flatten_map_single {β γ : Type} (f : β → γ) (l : List β) :
    (l.map fun s => [f s]).flatten = l.map f := by
  induction l with
  | nil => rfl
  | cons x l ih => simp [ih]

theorem startSym_flatten (n nextra : ℕ) :
    (startSym n nextra).axes.flatten =
      ((List.range n).flatMap fun s => [Label.seg s, Label.cart s])
        ++ (List.range nextra).map Label.extra := by
  simp only [startSym, List.flatten_append, flatten_flatMap_pair, flatten_map_single]

theorem wf_startSym (n nextra : ℕ) : WF (startSym n nextra) := by
  constructor
  · rw [startSym_flatten]
    refine List.nodup_append.mpr ⟨?_, ?_, ?_⟩
    · refine List.nodup_flatMap.mpr ⟨fun s _ => by simp, ?_⟩
      refine List.Nodup.pairwise_of_forall_ne List.nodup_range ?_
      intro a _ b _ hab
      simp only [Function.onFun, List.disjoint_cons_left, List.mem_cons, Label.seg.injEq,
        reduceCtorEq, List.not_mem_nil, or_false, false_or, Label.cart.injEq,
        List.disjoint_nil_left, and_true]
      exact ⟨hab, hab⟩
    · exact List.Nodup.map (fun a b h => by cases h; rfl) List.nodup_range
    · intro a ha b hb
      simp only [List.mem_flatMap, List.mem_range, List.mem_cons, List.not_mem_nil, or_false,
        List.mem_map] at ha hb
      obtain ⟨s, _, rfl | rfl⟩ := ha <;> obtain ⟨k, _, rfl⟩ := hb <;> simp
  · intro s hs
    rw [startSym_flatten] at hs
    simp at hs

theorem expectedFactors_nodup (sphs : List Bool) : (expectedFactors sphs).Nodup := by
  unfold expectedFactors
  refine List.nodup_append.mpr ⟨?_, ?_, ?_⟩
  · exact List.Nodup.map (fun a b h => by cases h; rfl) List.nodup_range
  · refine List.Nodup.filterMap ?_ List.nodup_range
    intro a b c hc hc'
    simp only [Option.mem_def] at hc hc'
    split_ifs at hc hc'; simp_all
    have := hc.trans hc'.symm
    cases this
    rfl
  · intro a ha b hb
    simp only [List.mem_map, List.mem_filterMap] at ha hb
    obtain ⟨s, _, rfl⟩ := ha
    obtain ⟨k, _, hk⟩ := hb
    split_ifs at hk
    cases hk
    simp

theorem idxOf?_lt_of_sublist {β : Type} [DecidableEq β] : ∀ (l : List β) {x y : β}, l.Nodup →
    [x, y].Sublist l → ∃ i j, l.idxOf? x = some i ∧ l.idxOf? y = some j ∧ i < j
  | [], _, _, _, h => by simp at h
  | z :: l, x, y, hnd, h => by
    obtain ⟨hz, hnd'⟩ := List.nodup_cons.mp hnd
    cases h with
    | cons _ h' =>
      obtain ⟨i, j, hi, hj, hij⟩ := idxOf?_lt_of_sublist l hnd' h'
      have hx : x ∈ l := h'.subset (by simp)
      have hy : y ∈ l := h'.subset (by simp)
      have hzx : z ≠ x := fun e => hz (e ▸ hx)
      have hzy : z ≠ y := fun e => hz (e ▸ hy)
      refine ⟨i + 1, j + 1, ?_, ?_, by omega⟩
      · simp [List.idxOf?_cons, hzx, hi]
      · simp [List.idxOf?_cons, hzy, hj]
    | cons_cons _ h' =>
      have hy : y ∈ l := List.singleton_sublist.mp h'
      have hzy : z ≠ y := fun e => hz (e ▸ hy)
      obtain ⟨j, hj⟩ := Option.isSome_iff_exists.mp (List.isSome_idxOf?.mpr hy)
      refine ⟨0, j + 1, ?_, ?_, by omega⟩
      · simp [List.idxOf?_cons]
      · simp [List.idxOf?_cons, hzy, hj]

theorem mem_right_of_pair_sublist_append {β : Type} {g f : β} {A B : List β}
    (h : [g, f].Sublist (A ++ B)) (hg : g ∉ A) : f ∈ B := by
  obtain ⟨l1, l2, heq, h1, h2⟩ := List.sublist_append_iff.mp h
  rcases l1 with _ | ⟨a, l1⟩
  · simp only [List.nil_append] at heq
    subst heq
    exact h2.subset (by simp)
  · simp only [List.cons_append, List.cons.injEq] at heq
    obtain ⟨rfl, _⟩ := heq
    exact absurd (h1.subset List.mem_cons_self) hg

/-- **C09, general form**: a pipeline accepted by `pipelineOk` computes, for every shape, the array
whose axes are the segment-major fusions `(seg s, sph s | cart s)` followed by the extras, and whose
entries are denoted by the expected factors in canonical order (all normalisations innermost, i.e.
applied on `(seg s, cart s)` before any transformation; then one contraction per spherical slot). -/
theorem pipelineOk_sound (prog : List ArrOp) (sphs : List Bool) (nextra : ℕ)
    (hok : pipelineOk prog sphs nextra = true)
    (hblk : blk.dims = (startSym sphs.length nextra).axes.map (axSize env))
    (hm : MatsOk env mats (expectedFactors sphs)) :
    (runOps mats norms prog blk).dims = (expectedAxes sphs nextra).map (axSize env) ∧
    ∀ σ : Label → ℕ, (∀ l ∈ (expectedAxes sphs nextra).flatten, σ l < env l) →
      (runOps mats norms prog blk).get (ix env (expectedAxes sphs nextra) σ)
        = den env mats norms blk (startSym sphs.length nextra).axes (expectedFactors sphs).reverse σ := by
  unfold pipelineOk at hok
  split at hok
  · cases hok
  · rename_i r hr
    simp only [Bool.and_eq_true, beq_iff_eq, List.all_eq_true, List.contains_iff_mem,
      List.mem_range] at hok
    obtain ⟨⟨⟨hax, hlen⟩, hsub⟩, hord⟩ := hok
    have hperm : (expectedFactors sphs).Perm r.factors :=
      (List.subperm_of_subset (expectedFactors_nodup sphs) (fun f hf => hsub f hf)).perm_of_length_le
        (le_of_eq hlen)
    have hm' : MatsOk env mats r.factors := fun t new old h => hm t new old (hperm.mem_iff.mpr h)
    have hnd : r.factors.Nodup := hperm.nodup_iff.mp (expectedFactors_nodup sphs)
    obtain ⟨⟨hd, hg⟩, _⟩ := symEval_sound (norms := norms) prog (wf_startSym sphs.length nextra)
      (repr_start hblk) hr hm'
    rw [hax] at hd hg
    refine ⟨hd, fun σ hσ => ?_⟩
    rw [hg σ hσ, denote]
    apply den_perm
    · exact (List.reverse_perm _).trans (hperm.symm.trans (List.reverse_perm _).symm)
    · intro g f h1 h2
      have h1' : [f, g].Sublist r.factors := by simpa using List.reverse_sublist.mpr h1
      have h2' : [g, f].Sublist (expectedFactors sphs) := by
        simpa using List.reverse_sublist.mpr h2
      have hne : g ≠ f := by
        intro e
        subst e
        have := (expectedFactors_nodup sphs).sublist h2'
        simp at this
      have hgm : g ∈ expectedFactors sphs := h2'.subset (by simp)
      have hfm : f ∈ expectedFactors sphs := h2'.subset (by simp)
      simp only [expectedFactors, List.mem_append, List.mem_map, List.mem_range,
        List.mem_filterMap] at hgm hfm
      rcases hgm with ⟨s, hs, rfl⟩ | ⟨s, hs, hgs⟩ <;> rcases hfm with ⟨s', hs', rfl⟩ | ⟨s', hs', hfs⟩
      · exact semComm_norm_norm _ _ _ _ _ _
      · split_ifs at hfs
        cases hfs
        by_cases hss : s = s'
        · subst hss
          exfalso
          obtain ⟨i, j, hi, hj, hij⟩ := idxOf?_lt_of_sublist r.factors hnd h1'
          have := hord s hs
          rw [hi, hj] at this
          simp only [decide_eq_true_eq] at this
          omega
        · apply SemComm.symm
          apply semComm_trans_norm <;> simp [Ne.symm hss]
      · exfalso
        split_ifs at hgs
        cases hgs
        have := mem_right_of_pair_sublist_append (by simpa only [expectedFactors] using h2')
          (by simp)
        simp at this
      · split_ifs at hgs hfs
        cases hgs
        cases hfs
        have hss : s ≠ s' := fun e => hne (by rw [e])
        apply semComm_trans_trans <;> simp [hss]

/-! ## explicit form for one and two slots -/

/-- the function label of a slot: spherical or Cartesian component -/
def fnLabel (b : Bool) (s : ℕ) : Label := if b then Label.sph s else Label.cart s

variable (env mats) in
/-- `W_s`: a spherical slot is contracted with its matrix `T_s[f, a]` over the Cartesian components
`a`; a Cartesian slot is left alone (`a = f`) -/
def slotContract (b : Bool) (s f : ℕ) (F : ℕ → K) : K :=
  if b then ∑ a ∈ Finset.range (env (Label.cart s)), (mats s).get [f, a] * F a else F f

theorem extras_ix (σ : Label → ℕ) (es : List ℕ) (nextra : ℕ) (hlen : es.length = nextra)
    (h : ∀ k, σ (Label.extra k) = es.getD k 0) :
    (List.range nextra).map (flatIdx env σ ∘ fun k => [Label.extra k]) = es := by
  subst hlen
  apply List.ext_getElem
  · simp
  · intro i h1 h2
    simp [h, List.getD_eq_getElem?_getD, List.getElem?_eq_getElem h2]

/-- the assignment used to read off explicit indices -/
def sigma2 (m0 f0 m1 f1 : ℕ) (es : List ℕ) : Label → ℕ
  | Label.seg s => if s = 0 then m0 else m1
  | Label.cart s => if s = 0 then f0 else f1
  | Label.sph s => if s = 0 then f0 else f1
  | Label.extra k => es.getD k 0

theorem c09_two_slots (prog : List ArrOp) (b0 b1 : Bool) (nextra : ℕ)
    (hok : pipelineOk prog [b0, b1] nextra = true)
    (hblk : blk.dims = [env (Label.seg 0), env (Label.cart 0), env (Label.seg 1), env (Label.cart 1)]
      ++ (List.range nextra).map (fun k => env (Label.extra k)))
    (hm : MatsOk env mats (expectedFactors [b0, b1]))
    (m0 f0 m1 f1 : ℕ) (es : List ℕ)
    (hm0 : m0 < env (Label.seg 0)) (hf0 : f0 < env (fnLabel b0 0))
    (hm1 : m1 < env (Label.seg 1)) (hf1 : f1 < env (fnLabel b1 1))
    (hes : es.length = nextra) (hesb : ∀ k < nextra, es.getD k 0 < env (Label.extra k)) :
    (runOps mats norms prog blk).get
        ([m0 * env (fnLabel b0 0) + f0, m1 * env (fnLabel b1 1) + f1] ++ es)
      = slotContract env mats b0 0 f0 fun a0 => slotContract env mats b1 1 f1 fun a1 =>
          (norms 0).get [m0, a0] * (norms 1).get [m1, a1] * blk.get ([m0, a0, m1, a1] ++ es) := by
  have hblk' : blk.dims = (startSym [b0, b1].length nextra).axes.map (axSize env) := by
    simp [hblk, startSym, List.range_succ, List.flatMap_cons]
  obtain ⟨_, hg⟩ := pipelineOk_sound (norms := norms) prog [b0, b1] nextra hok hblk' hm
  have hb : ∀ l ∈ (expectedAxes [b0, b1] nextra).flatten, sigma2 m0 f0 m1 f1 es l < env l := by
    intro l hl
    simp only [expectedAxes, List.flatten_append, flatten_map_single, List.mem_append,
      List.mem_flatten, List.mem_map, List.mem_range] at hl
    rcases hl with ⟨ax, ⟨s, hs, rfl⟩, hl⟩ | ⟨k, hk, rfl⟩
    · simp only [List.length_cons, List.length_nil, zero_add, Nat.reduceAdd] at hs
      have : s = 0 ∨ s = 1 := by omega
      rcases this with rfl | rfl
      · cases b0 <;> simp [fnLabel] at hf0 hl <;> rcases hl with rfl | rfl <;> simp [sigma2, *]
      · cases b1 <;> simp [fnLabel] at hf1 hl <;> rcases hl with rfl | rfl <;> simp [sigma2, *]
    · exact hesb k hk
  have hσ := hg (sigma2 m0 f0 m1 f1 es) hb
  have hex := extras_ix (env := env) (sigma2 m0 f0 m1 f1 es) es nextra hes (fun k => rfl)
  have hex1 : ∀ s x, (List.range nextra).map
      (flatIdx env (Function.update (sigma2 m0 f0 m1 f1 es) (Label.cart s) x) ∘
        fun k => [Label.extra k]) = es :=
    fun s x => extras_ix _ es nextra hes (fun k => by simp [sigma2])
  have hex2 : ∀ s x s' y, (List.range nextra).map
      (flatIdx env (Function.update (Function.update (sigma2 m0 f0 m1 f1 es) (Label.cart s) x)
        (Label.cart s') y) ∘ fun k => [Label.extra k]) = es :=
    fun s x s' y => extras_ix _ es nextra hes (fun k => by simp [sigma2])
  cases b0 <;> cases b1 <;>
  simp [ix, expectedAxes, expectedFactors, List.range_succ, fnLabel, slotContract, den, startSym,
    List.flatMap_cons, hex, hex1, hex2, sigma2] at hσ ⊢ <;> rw [hσ]
  · ring
  · exact Finset.sum_congr rfl fun x _ => by ring
  · exact Finset.sum_congr rfl fun x _ => by ring
  · simp only [Finset.mul_sum]
    rw [Finset.sum_comm]
    exact Finset.sum_congr rfl fun x _ => Finset.sum_congr rfl fun y _ => by ring

/-- **C09 for the one-index class**, any number of trailing axes -/
theorem c09_one_slot (prog : List ArrOp) (b0 : Bool) (nextra : ℕ)
    (hok : pipelineOk prog [b0] nextra = true)
    (hblk : blk.dims = [env (Label.seg 0), env (Label.cart 0)]
      ++ (List.range nextra).map (fun k => env (Label.extra k)))
    (hm : MatsOk env mats (expectedFactors [b0]))
    (m0 f0 : ℕ) (es : List ℕ)
    (hm0 : m0 < env (Label.seg 0)) (hf0 : f0 < env (fnLabel b0 0))
    (hes : es.length = nextra) (hesb : ∀ k < nextra, es.getD k 0 < env (Label.extra k)) :
    (runOps mats norms prog blk).get ([m0 * env (fnLabel b0 0) + f0] ++ es)
      = slotContract env mats b0 0 f0 fun a0 =>
          (norms 0).get [m0, a0] * blk.get ([m0, a0] ++ es) := by
  have hblk' : blk.dims = (startSym [b0].length nextra).axes.map (axSize env) := by
    simp [hblk, startSym, List.range_succ, List.flatMap_cons]
  obtain ⟨_, hg⟩ := pipelineOk_sound (norms := norms) prog [b0] nextra hok hblk' hm
  have hb : ∀ l ∈ (expectedAxes [b0] nextra).flatten, sigma2 m0 f0 0 0 es l < env l := by
    intro l hl
    simp only [expectedAxes, List.flatten_append, flatten_map_single, List.mem_append,
      List.mem_flatten, List.mem_map, List.mem_range] at hl
    rcases hl with ⟨ax, ⟨s, hs, rfl⟩, hl⟩ | ⟨k, hk, rfl⟩
    · simp only [List.length_cons, List.length_nil, zero_add, Nat.lt_one_iff] at hs
      subst hs
      cases b0 <;> simp [fnLabel] at hf0 hl <;> rcases hl with rfl | rfl <;> simp [sigma2, *]
    · exact hesb k hk
  have hσ := hg (sigma2 m0 f0 0 0 es) hb
  have hex := extras_ix (env := env) (sigma2 m0 f0 0 0 es) es nextra hes (fun k => rfl)
  have hex1 : ∀ s x, (List.range nextra).map
      (flatIdx env (Function.update (sigma2 m0 f0 0 0 es) (Label.cart s) x) ∘
        fun k => [Label.extra k]) = es :=
    fun s x => extras_ix _ es nextra hes (fun k => by simp [sigma2])
  cases b0 <;>
  simp [ix, expectedAxes, expectedFactors, fnLabel, slotContract, den, startSym,
    List.flatMap_cons, hex, hex1, sigma2] at hσ ⊢ <;> rw [hσ]
  · ring
  · exact Finset.sum_congr rfl fun x _ => by ring

/-! ## explicit form for any number of slots -/

/-- the assignment: segment indices `m`, function indices `f` (spherical labels), Cartesian
component indices `a`, extras `es` -/
def sg (m f a : ℕ → ℕ) (es : List ℕ) : Label → ℕ
  | Label.seg s => m s
  | Label.cart s => a s
  | Label.sph s => f s
  | Label.extra k => es.getD k 0

theorem sg_update (m f a : ℕ → ℕ) (es : List ℕ) (s c : ℕ) :
    Function.update (sg m f a es) (Label.cart s) c = sg m f (Function.update a s c) es := by
  funext l
  cases l <;> simp [sg, Function.update_apply]

variable (env mats norms blk) in
/-- the explicit value C09 demands: going through the slots in the order `L`, a spherical slot `s`
is contracted, `Σ_c T_s[f s, c] · …` with the Cartesian component index of slot `s` set to `c`; a
Cartesian slot keeps the component `f s`.  Innermost: the shell-block entry times the normalisation
constants `norm_s[m s, a s]` at the (segment, *Cartesian* component) indices. -/
def nest (sphs : List Bool) (m f : ℕ → ℕ) (es : List ℕ) : List ℕ → (ℕ → ℕ) → K
  | [], a =>
      blk.get (((List.range sphs.length).flatMap fun s => [m s, a s]) ++ es)
        * ((List.range sphs.length).map fun s => (norms s).get [m s, a s]).prod
  | s :: rest, a =>
      if sphs.getD s false then
        ∑ c ∈ Finset.range (env (Label.cart s)),
          (mats s).get [f s, c] * nest sphs m f es rest (Function.update a s c)
      else nest sphs m f es rest a

theorem den_norms (σ : Label → ℕ) : ∀ l : List ℕ,
    den env mats norms blk start (l.map fun s => Factor.norm s (Label.seg s) (Label.cart s)) σ
      = blk.get (start.map (flatIdx env σ))
        * (l.map fun s => (norms s).get [σ (Label.seg s), σ (Label.cart s)]).prod
  | [] => by simp [den]
  | s :: l => by
    simp only [List.map_cons, den, den_norms σ l, List.prod_cons]
    ring

theorem startSym_ix (n nextra : ℕ) (m f a : ℕ → ℕ) (es : List ℕ) (hes : es.length = nextra) :
    (startSym n nextra).axes.map (flatIdx env (sg m f a es))
      = ((List.range n).flatMap fun s => [m s, a s]) ++ es := by
  have hex := extras_ix (env := env) (sg m f a es) es nextra hes (fun k => rfl)
  simp only [startSym, List.map_append, List.map_map, hex, List.map_flatMap]
  congr 1
  simp [sg]

theorem den_nest (sphs : List Bool) (nextra : ℕ) (m f : ℕ → ℕ) (es : List ℕ)
    (hes : es.length = nextra) : ∀ (L : List ℕ) (a : ℕ → ℕ),
    den env mats norms blk (startSym sphs.length nextra).axes
      (L.filterMap (fun s => if sphs.getD s false
          then some (Factor.trans s (Label.sph s) (Label.cart s)) else none)
        ++ ((List.range sphs.length).map fun s => Factor.norm s (Label.seg s) (Label.cart s)).reverse)
      (sg m f a es)
    = nest env mats norms blk sphs m f es L a
  | [], a => by
    simp only [List.filterMap_nil, List.nil_append, ← List.map_reverse, den_norms, nest,
      startSym_ix (env := env) _ _ m f a es hes]
    congr 1
    rw [List.map_reverse, List.prod_reverse]
    rfl
  | s :: L, a => by
    by_cases hs : sphs.getD s false = true
    · simp only [List.filterMap_cons, hs, if_true, List.cons_append, den, nest, sg_update]
      apply Finset.sum_congr rfl
      intro c _
      rw [den_nest sphs nextra m f es hes L]
      rfl
    · simp only [List.filterMap_cons, hs, if_false, nest, Bool.false_eq_true]
      exact den_nest sphs nextra m f es hes L a

omit [Field K] in
theorem matsOk_expected (sphs : List Bool)
    (hT : ∀ s < sphs.length, sphs.getD s false = true →
      (mats s).dims = [env (Label.sph s), env (Label.cart s)]) :
    MatsOk env mats (expectedFactors sphs) := by
  intro t new old hmem
  simp only [expectedFactors, List.mem_append, List.mem_map, List.mem_range, reduceCtorEq, and_false,
    exists_false, List.mem_filterMap, false_or] at hmem
  obtain ⟨s, hs, h⟩ := hmem
  split_ifs at h with hb
  cases h
  exact hT _ hs hb

/-- **C09 for any number of slots and trailing axes, explicit form.**  For a pipeline accepted by
`pipelineOk`, the entry of the result at `(m_s · L'_s + f_s)_s, extras` (segment-major flattening, with
`L'_s` the number of spherical resp. Cartesian components) is
`Σ_{a_s : spherical slots} Π_s T_s[f_s, a_s] · Π_s norm_s[m_s, a_s] · blk[m_0, a_0, m_1, a_1, …, extras]`
with `a_s = f_s` on Cartesian slots. -/
theorem c09_general (prog : List ArrOp) (sphs : List Bool) (nextra : ℕ)
    (hok : pipelineOk prog sphs nextra = true)
    (hblk : blk.dims = ((List.range sphs.length).flatMap fun s => [env (Label.seg s), env (Label.cart s)])
      ++ (List.range nextra).map (fun k => env (Label.extra k)))
    (hT : ∀ s < sphs.length, sphs.getD s false = true →
      (mats s).dims = [env (Label.sph s), env (Label.cart s)]) :
    (runOps mats norms prog blk).dims
      = ((List.range sphs.length).map fun s =>
          env (Label.seg s) * env (fnLabel (sphs.getD s false) s))
        ++ (List.range nextra).map (fun k => env (Label.extra k)) ∧
    ∀ (m f : ℕ → ℕ) (es : List ℕ),
      (∀ s < sphs.length, m s < env (Label.seg s)) →
      (∀ s < sphs.length, f s < env (fnLabel (sphs.getD s false) s)) →
      es.length = nextra → (∀ k < nextra, es.getD k 0 < env (Label.extra k)) →
      (runOps mats norms prog blk).get
          (((List.range sphs.length).map fun s =>
              m s * env (fnLabel (sphs.getD s false) s) + f s) ++ es)
        = nest env mats norms blk sphs m f es (List.range sphs.length).reverse f := by
  have hblk' : blk.dims = (startSym sphs.length nextra).axes.map (axSize env) := by
    simp only [hblk, startSym, List.map_append, List.map_map, List.map_flatMap]
    congr 1
    · congr 1
      funext s
      simp
    · apply List.map_congr_left
      intro k _
      simp
  obtain ⟨hd, hg⟩ := pipelineOk_sound (norms := norms) prog sphs nextra hok hblk'
    (matsOk_expected sphs hT)
  constructor
  · rw [hd]
    simp only [expectedAxes, List.map_append, List.map_map]
    congr 1
    · apply List.map_congr_left
      intro s _
      simp only [Function.comp, fnLabel]
      split_ifs <;> simp
    · apply List.map_congr_left
      intro k _
      simp
  · intro m f es hm hf hes hesb
    have hb : ∀ l ∈ (expectedAxes sphs nextra).flatten, sg m f f es l < env l := by
      intro l hl
      simp only [expectedAxes, List.flatten_append, flatten_map_single, List.mem_append,
        List.mem_flatten, List.mem_map, List.mem_range] at hl
      rcases hl with ⟨ax, ⟨s, hs, rfl⟩, hl⟩ | ⟨k, hk, rfl⟩
      · have h2 := hf s hs
        simp only [List.mem_cons, List.not_mem_nil, or_false] at hl
        rcases hl with rfl | rfl
        · exact hm s hs
        · simp only [fnLabel] at h2
          split_ifs at h2 ⊢ <;> exact h2
      · exact hesb k hk
    have hσ := hg (sg m f f es) hb
    have hix : ix env (expectedAxes sphs nextra) (sg m f f es)
        = ((List.range sphs.length).map fun s =>
              m s * env (fnLabel (sphs.getD s false) s) + f s) ++ es := by
      have hex := extras_ix (env := env) (sg m f f es) es nextra hes (fun k => rfl)
      simp only [ix, expectedAxes, List.map_append, List.map_map, hex]
      congr 1
      apply List.map_congr_left
      intro s _
      simp only [Function.comp, fnLabel]
      split_ifs <;> simp [sg]
    rw [hix] at hσ
    rw [hσ, ← den_nest sphs nextra m f es hes]
    congr 1
    simp only [expectedFactors, List.reverse_append, List.filterMap_reverse]

/-! ## `construct_array_lincomb` -/

variable (env mats blk) in
/-- `Σ_{a_s} Π_s T_{matOf s}[f s, a_s] · arr[a_0, …, a_{n-1}]`, slots contracted in the order `L` -/
def lnest (n : ℕ) (matOf : ℕ → ℕ) (f : ℕ → ℕ) : List ℕ → (ℕ → ℕ) → K
  | [], a => blk.get ((List.range n).map a)
  | s :: rest, a =>
      ∑ c ∈ Finset.range (env (Label.cart s)),
        (mats (matOf s)).get [f s, c] * lnest n matOf f rest (Function.update a s c)

theorem den_lnest (n : ℕ) (matOf f : ℕ → ℕ) : ∀ (L : List ℕ) (a : ℕ → ℕ),
    den env mats norms blk ((List.range n).map fun s => [Label.cart s])
      (L.map fun s => Factor.trans (matOf s) (Label.sph s) (Label.cart s)) (sg f f a [])
    = lnest env mats blk n matOf f L a
  | [], a => by
    simp only [List.map_nil, den, lnest, List.map_map]
    congr 1
    apply List.map_congr_left
    intro s _
    simp [sg]
  | s :: L, a => by
    simp only [List.map_cons, den, lnest, sg_update]
    apply Finset.sum_congr rfl
    intro c _
    rw [den_lnest n matOf f L]
    rfl

/-- **`construct_array_lincomb`**: a chain accepted by `lincombOk` contracts every axis `s` of the
assembled array with the matrix `matOf s` and leaves the axes in their original order. -/
theorem lincombOk_sound (prog : List ArrOp) (n : ℕ) (matOf : ℕ → ℕ)
    (hok : lincombOk prog n matOf = true)
    (hblk : blk.dims = (List.range n).map fun s => env (Label.cart s))
    (hT : ∀ s < n, (mats (matOf s)).dims = [env (Label.sph s), env (Label.cart s)]) :
    (runOps mats norms prog blk).dims = ((List.range n).map fun s => env (Label.sph s)) ∧
    ∀ f : ℕ → ℕ, (∀ s < n, f s < env (Label.sph s)) →
      (runOps mats norms prog blk).get ((List.range n).map f)
        = lnest env mats blk n matOf f (List.range n).reverse f := by
  unfold lincombOk at hok
  simp only at hok
  split at hok
  · cases hok
  · rename_i r hr
    simp only [Bool.and_eq_true, beq_iff_eq, List.all_eq_true, List.contains_iff_mem,
      List.mem_range] at hok
    obtain ⟨⟨hax, hlen⟩, hsub⟩ := hok
    set L := (List.range n).map fun s => Factor.trans (matOf s) (Label.sph s) (Label.cart s) with hL
    have hLnd : L.Nodup := List.Nodup.map (fun a b h => by
      simp only [Factor.trans.injEq, Label.sph.injEq] at h
      exact h.2.1) List.nodup_range
    have hperm : L.Perm r.factors := by
      refine (List.subperm_of_subset hLnd ?_).perm_of_length_le (by simp [hL, hlen])
      intro g hg
      simp only [hL, List.mem_map, List.mem_range] at hg
      obtain ⟨s, hs, rfl⟩ := hg
      exact hsub s hs
    have hm' : MatsOk env mats r.factors := by
      intro t new old h
      have := hperm.mem_iff.mpr h
      simp only [hL, List.mem_map, List.mem_range, Factor.trans.injEq] at this
      obtain ⟨s, hs, rfl, rfl, rfl⟩ := this
      exact hT s hs
    have hwf : WF ⟨(List.range n).map fun s => [Label.cart s], []⟩ := by
      constructor
      · simp only [flatten_map_single]
        exact List.Nodup.map (fun a b h => by cases h; rfl) List.nodup_range
      · intro s hs
        simp [flatten_map_single] at hs
    have hblk' : blk.dims = ((List.range n).map fun s => [Label.cart s]).map (axSize env) := by
      simp [hblk]
    obtain ⟨⟨hd, hg⟩, _⟩ := symEval_sound (norms := norms) prog hwf (repr_start hblk') hr hm'
    rw [hax] at hd hg
    refine ⟨?_, fun f hf => ?_⟩
    · rw [hd, List.map_map]
      apply List.map_congr_left
      intro s _
      simp
    have hσ := hg (sg f f f []) (by
      intro l hl
      simp only [flatten_map_single, List.mem_map, List.mem_range] at hl
      obtain ⟨s, hs, rfl⟩ := hl
      exact hf s hs)
    have hix : ix env ((List.range n).map fun s => [Label.sph s]) (sg f f f [])
        = (List.range n).map f := by
      simp only [ix, List.map_map]
      apply List.map_congr_left
      intro s _
      simp [sg]
    rw [hix] at hσ
    rw [hσ, denote, ← den_lnest (norms := norms) n matOf f, List.map_reverse]
    apply den_perm
    · exact (List.reverse_perm _).trans (hperm.symm.trans (List.reverse_perm _).symm)
    · intro g f' h1 h2
      have hnd : r.factors.reverse.Nodup := List.nodup_reverse.mpr (hperm.nodup_iff.mp hLnd)
      have hne : g ≠ f' := by
        intro e
        subst e
        have := hnd.sublist h1
        simp at this
      have hgm : g ∈ L := List.mem_reverse.mp (h2.subset (by simp))
      have hfm : f' ∈ L := List.mem_reverse.mp (h2.subset (by simp))
      simp only [hL, List.mem_map, List.mem_range] at hgm hfm
      obtain ⟨s, _, rfl⟩ := hgm
      obtain ⟨s', _, rfl⟩ := hfm
      have hss : s ≠ s' := fun e => hne (by rw [e])
      apply semComm_trans_trans <;> simp [hss]

end Sound

/-! ## trailing axes are a frame: the check with no trailing axis implies the check with any number -/

theorem swapL_append {β : Type} (l e : List β) {i j : ℕ} (hi : i < l.length) (hj : j < l.length) :
    swapL (l ++ e) i j = swapL l i j ++ e := by
  rw [swapL_of_lt _ (by simp; omega) (by simp; omega), swapL_of_lt _ hi hj]
  simp [List.getElem_append_left, hi, hj, List.set_append_left]

theorem symStep_go_frame (e : List (List Label)) : ∀ (n : ℕ) (as r : List (List Label)),
    symStep.go n as = some r → symStep.go n (as ++ e) = some (r ++ e)
  | 0, as, r, h => by
    simp only [symStep.go, Option.some.injEq] at h ⊢
    rw [h]
  | n+1, [], r, h => by simp [symStep.go] at h
  | n+1, [_], r, h => by simp [symStep.go] at h
  | n+1, a0 :: a1 :: as, r, h => by
    simp only [symStep.go, Option.map_eq_some_iff] at h
    obtain ⟨r', hr', rfl⟩ := h
    simp [symStep.go, symStep_go_frame e n as r' hr']

theorem symStep_frame (e : List (List Label)) {op : ArrOp} {S S' : Sym}
    (h : symStep op S = some S') :
    symStep op ⟨S.axes ++ e, S.factors⟩ = some ⟨S'.axes ++ e, S'.factors⟩ := by
  obtain ⟨axes, fs⟩ := S
  cases op with
  | swap i j =>
    simp only [symStep] at h ⊢
    split_ifs at h with hij
    cases h
    rw [if_pos (by simp; omega)]
    simp [swapL_append _ _ hij.1 hij.2]
  | merge0 =>
    simp only [symStep] at h ⊢
    split at h
    · cases h; simp
    · cases h
  | tdot t k =>
    simp only [symStep] at h ⊢
    split at h
    · rename_i slot heq
      cases h
      have hk : k < axes.length := (List.getElem?_eq_some_iff.mp heq).1
      simp [List.getElem?_append_left hk, heq, List.eraseIdx_append_of_lt_length hk]
    · cases h
  | scale n pos =>
    simp only [symStep] at h ⊢
    split at h
    · rename_i m c hm hc
      cases h
      have h1 : pos < axes.length := (List.getElem?_eq_some_iff.mp hm).1
      have h2 : pos + 1 < axes.length := (List.getElem?_eq_some_iff.mp hc).1
      simp [List.getElem?_append_left h1, List.getElem?_append_left h2, hm, hc]
    · cases h
  | fusePairs np =>
    simp only [symStep, Option.map_eq_some_iff] at h ⊢
    obtain ⟨ax, hgo, rfl⟩ := h
    exact ⟨ax ++ e, symStep_go_frame e np axes ax hgo, rfl⟩

theorem symEval_frame (e : List (List Label)) : ∀ (prog : List ArrOp) {S S' : Sym},
    symEval prog S = some S' →
    symEval prog ⟨S.axes ++ e, S.factors⟩ = some ⟨S'.axes ++ e, S'.factors⟩
  | [], S, S', hs => by
    simp only [symEval, List.foldlM_nil, pure, Option.some.injEq] at hs ⊢
    subst hs
    rfl
  | op :: prog, S, S', hs => by
    simp only [symEval, List.foldlM_cons, Option.bind_eq_bind, Option.bind_eq_some_iff] at hs ⊢
    obtain ⟨S1, h1, h2⟩ := hs
    exact ⟨_, symStep_frame e h1, symEval_frame e prog h2⟩

/-- a pipeline that passes the check without trailing axes passes it with any number of them -/
theorem pipelineOk_frame (prog : List ArrOp) (sphs : List Bool)
    (h : pipelineOk prog sphs 0 = true) (nextra : ℕ) : pipelineOk prog sphs nextra = true := by
  unfold pipelineOk at h ⊢
  split at h
  · cases h
  · rename_i r hr
    have hfr := symEval_frame ((List.range nextra).map fun k => [Label.extra k]) prog hr
    have hst : (⟨(startSym sphs.length 0).axes ++ (List.range nextra).map (fun k => [Label.extra k]),
        (startSym sphs.length 0).factors⟩ : Sym) = startSym sphs.length nextra := by
      simp [startSym]
    rw [hst] at hfr
    rw [hfr]
    simp only [Bool.and_eq_true, beq_iff_eq] at h ⊢
    obtain ⟨⟨⟨hax, hlen⟩, hsub⟩, hord⟩ := h
    refine ⟨⟨⟨?_, hlen⟩, hsub⟩, hord⟩
    rw [hax]
    simp [expectedAxes]

/-! ## the pipelines extracted from `base_*.py` -/


/-! ## the hypotheses are satisfiable: a concrete shape -/

section Example
variable {K : Type} [Field K]

/-- two segments per shell, three Cartesian and two spherical components, one point -/
def exEnv : Label → ℕ
  | Label.seg _ => 2
  | Label.cart _ => 3
  | Label.sph _ => 2
  | Label.extra _ => 1

/-- `BaseTwoIndexSymmetric.construct_array_spherical` as extracted -/
def exProg : List ArrOp :=
  [.scale 0 0, .scale 1 2, .tdot 0 1, .swap 0 1, .merge0, .tdot 1 2, .swap 0 1, .swap 0 2, .merge0,
    .swap 0 1]

example (T N : ℕ → Arr K) (hT : ∀ t, (T t).dims = [2, 3]) (blk : Arr K)
    (hblk : blk.dims = [2, 3, 2, 3]) (m0 f0 m1 f1 : ℕ)
    (hm0 : m0 < 2) (hf0 : f0 < 2) (hm1 : m1 < 2) (hf1 : f1 < 2) :
    (runOps T N exProg blk).get [m0 * 2 + f0, m1 * 2 + f1]
      = ∑ a0 ∈ Finset.range 3, (T 0).get [f0, a0] * ∑ a1 ∈ Finset.range 3, (T 1).get [f1, a1] *
          ((N 0).get [m0, a0] * (N 1).get [m1, a1] * blk.get [m0, a0, m1, a1]) := by
  have h := c09_two_slots (env := exEnv) (mats := T) (norms := N) (blk := blk) exProg true true 0
    (by decide) (by simpa [exEnv] using hblk)
    (by intro t new old hmem
        simp [expectedFactors, List.range_succ] at hmem
        rcases hmem with ⟨rfl, rfl, rfl⟩ | ⟨rfl, rfl, rfl⟩ <;> simpa [exEnv] using hT _)
    m0 f0 m1 f1 [] (by simpa [exEnv] using hm0) (by simpa [exEnv, fnLabel] using hf0)
    (by simpa [exEnv] using hm1) (by simpa [exEnv, fnLabel] using hf1) rfl (by simp)
  simpa [slotContract, fnLabel, exEnv] using h

end Example


end GB
