import GBProofs.MomTab
import GBProofs.GaussIntegral
import Mathlib.Analysis.Calculus.Deriv.Shift
import Mathlib.Analysis.Calculus.IteratedDeriv.Defs

/-!
# The differential-operator recursion table

`diffPlanes` (model of `_compute_differential_operator_integrals_intermediate`) computes, for
**all** derivative orders `k` inside the padded width,

`T[k][j][i] = ∫ (x-A)^i e^{-a(x-A)²} (d/dx)^k [ (x-B)^j e^{-b(x-B)²} ] dx`.

* `Dtw b PB` is the polynomial part of `d/dt` acting on `q(t) e^{-b (t+PB)²}` (`t = x - P`);
* `Dspec p b PA PB k i j = G p ((X+PA)^i · (Dtw b PB)^[k] ((X+PB)^j))` is the algebraic spec;
* `G_mul_Dtw` is the integration by parts that moves the twisted derivative from one factor to
  the other (momentum antisymmetry, kinetic symmetry);
* `diffPlanes_eq` is the table theorem, with the side condition `i + k ≤ amax + dmax` that the
  padding of the table buys; `diffPlanes_unpadded_ne` shows the condition matters;
* over `ℝ`, `iteratedDeriv_gaussPoly` and `Dspec_eq_integral` identify `Dspec` with the integral.
-/
open Polynomial

namespace GB

section Algebra
variable {K : Type} [Field K] [CharZero K]

/-- twisted derivative: the polynomial part of `d/dt [ q(t) e^{-b (t+PB)²} ]` -/
noncomputable def Dtw (b PB : K) (q : K[X]) : K[X] :=
  derivative q - C (2*b) * (X + C PB) * q

/-- algebraic specification of the differential-operator table:
normalised integral of `(x-A)^i e^{-a(x-A)²}` against the `k`-th derivative of
`(x-B)^j e^{-b(x-B)²}` -/
noncomputable def Dspec (p b PA PB : K) (k i j : ℕ) : K :=
  G p ((X + C PA)^i * (Dtw b PB)^[k] ((X + C PB)^j))

omit [CharZero K] in
lemma Dtw_iterate_succ (b PB : K) (k : ℕ) (q : K[X]) :
    (Dtw b PB)^[k+1] q = Dtw b PB ((Dtw b PB)^[k] q) :=
  Function.iterate_succ_apply' _ _ _

omit [CharZero K] in
lemma Dspec_zero (p b PA PB PC : K) (i j : ℕ) : Dspec p b PA PB 0 i j = S3 p PA PB PC i j 0 := by
  simp [Dspec, S3]

omit [CharZero K] in
/-- the two twisted derivatives add up to a total derivative minus `2pX` -/
lemma mul_Dtw_add_Dtw_mul (a b PA PB : K) (u v : K[X]) :
    u * Dtw b PB v + Dtw a PA u * v
      = derivative (u * v) - C (2 * (a + b)) * (X * (u * v)) - C (2 * (a * PA + b * PB)) * (u * v) := by
  unfold Dtw
  simp only [derivative_mul, map_mul, map_add]
  ring

/-- **Integration by parts for the twisted derivatives** (general polynomials):
the derivative acting on the right function is minus the derivative acting on the left one. -/
theorem G_mul_Dtw (a b PA PB p : K) (hp : p ≠ 0) (hab : a + b = p) (hPAB : a * PA + b * PB = 0)
    (u v : K[X]) :
    G p (u * Dtw b PB v) = - G p (Dtw a PA u * v) := by
  have h := mul_Dtw_add_Dtw_mul a b PA PB u v
  rw [hPAB, hab] at h
  have h2 : G p (u * Dtw b PB v + Dtw a PA u * v) = 0 := by
    rw [h, map_sub, map_sub, G_derivative p hp, G_C_mul, G_C_mul]
    ring
  rw [map_add] at h2
  linear_combination h2

/-- iterated version: `k` integrations by parts -/
theorem G_mul_Dtw_iterate (a b PA PB p : K) (hp : p ≠ 0) (hab : a + b = p)
    (hPAB : a * PA + b * PB = 0) (k : ℕ) (u v : K[X]) :
    G p (u * (Dtw b PB)^[k] v) = (-1)^k * G p ((Dtw a PA)^[k] u * v) := by
  induction k generalizing u v with
  | zero => simp
  | succ k ih =>
    rw [Dtw_iterate_succ, G_mul_Dtw a b PA PB p hp hab hPAB, ih, Function.iterate_succ_apply]
    ring

/-- second-order symmetric version (kinetic energy) -/
theorem G_mul_Dtw_Dtw (a b PA PB p : K) (hp : p ≠ 0) (hab : a + b = p)
    (hPAB : a * PA + b * PB = 0) (u v : K[X]) :
    G p (u * Dtw b PB (Dtw b PB v)) = G p (Dtw a PA (Dtw a PA u) * v) := by
  rw [G_mul_Dtw a b PA PB p hp hab hPAB, G_mul_Dtw a b PA PB p hp hab hPAB, neg_neg]

omit [CharZero K] in
lemma Dtw_X_add_C_pow (a PA : K) (i : ℕ) :
    Dtw a PA ((X + C PA)^i) = C (i:K) * (X + C PA)^(i-1) - C (2*a) * (X + C PA)^(i+1) := by
  unfold Dtw
  rw [derivative_X_add_C_pow]
  simp only [map_natCast]
  ring

/-- **Key functional identity**: one step of the Python recursion. -/
theorem G_pow_mul_Dtw (a b PA PB p : K) (hp : p ≠ 0) (hab : a + b = p) (hPAB : a * PA + b * PB = 0)
    (i : ℕ) (v : K[X]) :
    G p ((X + C PA)^i * Dtw b PB v)
      = 2 * a * G p ((X + C PA)^(i+1) * v) - (i:K) * G p ((X + C PA)^(i-1) * v) := by
  rw [G_mul_Dtw a b PA PB p hp hab hPAB, Dtw_X_add_C_pow]
  have : (C (i:K) * (X + C PA)^(i-1) - C (2*a) * (X + C PA)^(i+1)) * v
      = C (i:K) * ((X + C PA)^(i-1) * v) - C (2*a) * ((X + C PA)^(i+1) * v) := by ring
  rw [this, map_sub, G_C_mul, G_C_mul]
  ring

/-- the recursion satisfied by the specification -/
theorem Dspec_succ (a b PA PB : K) (hp : a + b ≠ 0) (hPAB : a * PA + b * PB = 0) (k i j : ℕ) :
    Dspec (a+b) b PA PB (k+1) i j
      = 2 * a * Dspec (a+b) b PA PB k (i+1) j - (i:K) * Dspec (a+b) b PA PB k (i-1) j := by
  unfold Dspec
  rw [Dtw_iterate_succ, G_pow_mul_Dtw a b PA PB (a+b) hp rfl hPAB]

/-- momentum antisymmetry: first derivative on the right function is minus the first derivative
on the left function -/
theorem Dspec_one_antisymm (a b PA PB : K) (hp : a + b ≠ 0) (hPAB : a * PA + b * PB = 0) (i j : ℕ) :
    G (a+b) ((X + C PA)^i * Dtw b PB ((X + C PB)^j))
      = - G (a+b) (Dtw a PA ((X + C PA)^i) * (X + C PB)^j) :=
  G_mul_Dtw a b PA PB (a+b) hp rfl hPAB _ _

/-- `Dspec` with the two functions exchanged -/
theorem Dspec_swap (a b PA PB : K) (hp : a + b ≠ 0) (hPAB : a * PA + b * PB = 0) (k i j : ℕ) :
    Dspec (a+b) b PA PB k i j = (-1)^k * Dspec (a+b) a PB PA k j i := by
  unfold Dspec
  rw [G_mul_Dtw_iterate a b PA PB (a+b) hp rfl hPAB, mul_comm ((Dtw a PA)^[k] _)]

/-! ## The table -/

/-- general form: any plane-0 table that agrees with the spec -/
theorem diffPlanes_eq_of_base (a b PA PB base : K) (hp : a + b ≠ 0) (hPAB : a * PA + b * PB = 0)
    (t0 : Tab (Tab K)) (nj w : ℕ)
    (h0 : ∀ j i, t0.get2 j i = base * Dspec (a+b) b PA PB 0 i j) :
    ∀ k j i, i + k < w →
      (diffPlanes a t0 nj w k).get2 j i = base * Dspec (a+b) b PA PB k i j := by
  intro k
  induction k with
  | zero => intro j i _; exact h0 j i
  | succ k ih =>
    intro j i hik
    have h1 : i + 1 < w := by omega
    simp only [diffPlanes, tab2_get, if_pos h1, num_nat]
    rw [ih j (i+1) (by omega), ih j (i-1) (by omega), Dspec_succ a b PA PB hp hPAB]
    push_cast
    ring

/-- **Main table theorem.**  Every entry of the padded table that can influence the returned
slice is `base` times the Gaussian-functional value, for all derivative orders. -/
theorem diffPlanes_eq (a b PA PB base : K) (hp : a + b ≠ 0) (hPAB : a * PA + b * PB = 0) (PC : K)
    (nj amax dmax : ℕ) :
    ∀ k j i, k ≤ dmax → i + k ≤ amax + dmax →
      (diffPlanes a (momPlanes (1/(2*(a+b))) PA PB PC base nj (amax+dmax+1) 0).1 nj
          (amax+dmax+1) k).get2 j i
        = base * Dspec (a+b) b PA PB k i j := by
  intro k j i _ hik
  refine diffPlanes_eq_of_base a b PA PB base hp hPAB _ nj _ (fun j i => ?_) k j i (by omega)
  rw [(momPlanes_eq (a+b) PA PB PC base hp nj (amax+dmax+1) 0).1 j i, Dspec_zero]

/-- the table returned by the model (`[:, :, :a_max+1]` is the part the Python function returns) -/
theorem diffTab_eq (a b PA PB base : K) (hp : a + b ≠ 0) (hPAB : a * PA + b * PB = 0)
    (nj amax dmax : ℕ) (k j i : ℕ) (hk : k ≤ dmax) (hi : i ≤ amax) :
    (diffTab (1/(2*(a+b))) PA PB base a nj amax dmax).get3 k j i
      = base * Dspec (a+b) b PA PB k i j := by
  simp only [diffTab, Tab.get3, tab_get]
  exact diffPlanes_eq a b PA PB base hp hPAB _ nj amax dmax k j i hk (by omega)

omit [CharZero K] in
/-- without padding the last column of every plane `k ≥ 1` is never written -/
theorem diffPlanes_last_col (a : K) (t0 : Tab (Tab K)) (nj w k j i : ℕ) (hi : w ≤ i + 1) :
    (diffPlanes a t0 nj w (k+1)).get2 j i = 0 := by
  simp only [diffPlanes, tab2_get, if_neg (not_lt.mpr hi), num_nat, Nat.cast_zero]

/-- **The side condition matters.**  Exponents `a = b = 1`, `PA = 1`, `PB = -1` (so
`a·PA + b·PB = 0`), `amax = 0`, one derivative, table of width `amax + 1` (no padding):
the entry `[1, 0, 0]` is `0` whereas the spec value is `2·base`. -/
theorem diffPlanes_unpadded_ne (base : K) (hbase : base ≠ 0) :
    (diffPlanes (1:K) (momPlanes (1/(2*(1+1))) 1 (-1) 0 base 1 (0+1) 0).1 1 (0+1) 1).get2 0 0
      ≠ base * Dspec (1+1) 1 1 (-1) 1 0 0 := by
  rw [diffPlanes_last_col _ _ _ _ _ _ _ (le_refl _),
    Dspec_succ 1 1 1 (-1) (by norm_num) (by ring)]
  have h : Dspec ((1:K)+1) 1 1 (-1) 0 (0+1) 0 = 1 := by
    have e : ((X + C (1:K))^(0+1) * (Dtw 1 (-1))^[0] ((X + C (-1))^0) : K[X]) = X^1 + C 1 * X^0 := by
      simp
    rw [Dspec, e, map_add, G_C_mul, G_X_pow, G_X_pow]
    simp [gmom]
  rw [h]
  simp only [Nat.cast_zero, zero_mul, sub_zero, mul_one]
  intro h0
  have : base * 2 = 0 := by linear_combination -h0
  rcases mul_eq_zero.mp this with h | h
  · exact hbase h
  · exact two_ne_zero h

end Algebra

/-! ## Analytic link over `ℝ` -/
section Real
open MeasureTheory Real

/-- `x ↦ q(x - P) e^{-b (x-B)²}` -/
noncomputable def gaussPoly (b B P : ℝ) (q : ℝ[X]) (x : ℝ) : ℝ :=
  q.eval (x - P) * exp (-b * (x - B)^2)

/-- the twisted derivative is the derivative -/
theorem deriv_gauss_poly (b B : ℝ) (q : ℝ[X]) (P : ℝ) (x : ℝ) :
    HasDerivAt (fun x => q.eval (x - P) * exp (-b * (x - B)^2))
      ((Dtw b (P - B) q).eval (x - P) * exp (-b * (x - B)^2)) x := by
  have h1 : HasDerivAt (fun x => q.eval (x - P)) (q.derivative.eval (x - P)) x :=
    HasDerivAt.comp_sub_const x P (q.hasDerivAt (x - P))
  have h2 : HasDerivAt (fun x : ℝ => exp (-b * (x - B) ^ 2))
      (exp (-b * (x - B)^2) * (-b * (2 * (x - B)))) x := by
    have := ((((hasDerivAt_id x).sub_const B).pow 2).const_mul (-b)).exp
    simpa using this
  have h3 := h1.mul h2
  have e : (Dtw b (P - B) q).eval (x - P) * exp (-b * (x - B)^2)
      = q.derivative.eval (x - P) * exp (-b * (x - B) ^ 2)
        + q.eval (x - P) * (exp (-b * (x - B) ^ 2) * (-b * (2 * (x - B)))) := by
    simp only [Dtw, eval_sub, eval_mul, eval_add, eval_C, eval_X]
    ring
  rw [e]
  exact h3

theorem hasDerivAt_gaussPoly (b B P : ℝ) (q : ℝ[X]) (x : ℝ) :
    HasDerivAt (gaussPoly b B P q) (gaussPoly b B P (Dtw b (P - B) q) x) x :=
  deriv_gauss_poly b B q P x

theorem deriv_gaussPoly (b B P : ℝ) (q : ℝ[X]) :
    deriv (gaussPoly b B P q) = gaussPoly b B P (Dtw b (P - B) q) :=
  funext fun x => (hasDerivAt_gaussPoly b B P q x).deriv

/-- the `k`-th derivative of `q(x-P) e^{-b(x-B)²}` is `((Dtw b (P-B))^[k] q)(x-P) e^{-b(x-B)²}` -/
theorem iteratedDeriv_gaussPoly (b B P : ℝ) (q : ℝ[X]) (k : ℕ) :
    iteratedDeriv k (gaussPoly b B P q) = gaussPoly b B P ((Dtw b (P - B))^[k] q) := by
  induction k with
  | zero => simp
  | succ k ih => rw [iteratedDeriv_succ, ih, deriv_gaussPoly, Dtw_iterate_succ]

/-- the `k`-th derivative of the right primitive `(x-B)^j e^{-b(x-B)²}`, for any reference
point `P` -/
theorem iteratedDeriv_prim (b B P : ℝ) (j k : ℕ) (x : ℝ) :
    iteratedDeriv k (fun x : ℝ => (x - B)^j * exp (-b * (x - B)^2)) x
      = ((Dtw b (P - B))^[k] ((X + C (P - B))^j)).eval (x - P) * exp (-b * (x - B)^2) := by
  have e : (fun x : ℝ => (x - B)^j * exp (-b * (x - B)^2))
      = gaussPoly b B P ((X + C (P - B))^j) := by
    funext x; simp [gaussPoly]
  rw [e, iteratedDeriv_gaussPoly]; rfl

/-- Gaussian product rule with arbitrary polynomial prefactors in the variable `x - P` -/
theorem gauss_product_integral_poly (a b A B : ℝ) (ha : 0 < a) (hb : 0 < b) (u v : ℝ[X]) :
    ∫ x : ℝ, gaussPoly a A ((a * A + b * B) / (a + b)) u x
        * gaussPoly b B ((a * A + b * B) / (a + b)) v x
      = √(π / (a + b)) * exp (-(a * b / (a + b) * ((A - B) * (A - B)))) * G (a + b) (u * v) := by
  have hp : 0 < a + b := by linarith
  set p := a + b with hpdef
  set P := (a * A + b * B) / p with hP
  rw [← integral_add_right_eq_self (μ := volume) _ P]
  have key : ∀ t : ℝ, gaussPoly a A P u (t + P) * gaussPoly b B P v (t + P)
      = exp (-(a * b / p * ((A - B) * (A - B)))) * ((u * v).eval t * exp (-p * t^2)) := by
    intro t
    have e1 : exp (-a * (t + P - A)^2) * exp (-b * (t + P - B)^2)
        = exp (-(a * b / p * ((A - B) * (A - B)))) * exp (-p * t^2) := by
      rw [← Real.exp_add, ← Real.exp_add]
      congr 1
      rw [hP]
      field_simp
      ring
    simp only [gaussPoly, add_sub_cancel_right, eval_mul]
    calc u.eval t * exp (-a * (t + P - A)^2) * (v.eval t * exp (-b * (t + P - B)^2))
        = u.eval t * v.eval t * (exp (-a * (t + P - A)^2) * exp (-b * (t + P - B)^2)) := by ring
      _ = _ := by rw [e1]; ring
  simp_rw [key]
  rw [integral_const_mul, integral_poly_mul_gauss hp]
  ring

/-- **`Dspec` is the integral.**  For exponents `a, b > 0`:
`∫ (x-A)^i e^{-a(x-A)²} (d/dx)^k[(x-B)^j e^{-b(x-B)²}] dx
   = √(π/p) e^{-μ(A-B)²} · Dspec p b (P-A) (P-B) k i j`. -/
theorem Dspec_eq_integral (a b A B : ℝ) (ha : 0 < a) (hb : 0 < b) (k i j : ℕ) :
    ∫ x : ℝ, (x - A)^i * exp (-a * (x - A)^2)
        * iteratedDeriv k (fun x : ℝ => (x - B)^j * exp (-b * (x - B)^2)) x
      = √(π / (a + b)) * exp (-(a * b / (a + b) * ((A - B) * (A - B))))
          * Dspec (a + b) b ((a * A + b * B) / (a + b) - A) ((a * A + b * B) / (a + b) - B) k i j := by
  rw [Dspec, ← gauss_product_integral_poly a b A B ha hb]
  congr 1
  funext x
  rw [iteratedDeriv_prim b B ((a * A + b * B) / (a + b)) j k x]
  simp [gaussPoly]

/-- **The table of the code is the integral** (real exponents `a, b > 0`, centres `A, B`,
`P = (aA+bB)/(a+b)`, `base` the Gaussian-product prefactor). -/
theorem diffTab_eq_integral (a b A B : ℝ) (ha : 0 < a) (hb : 0 < b) (nj amax dmax k j i : ℕ)
    (hk : k ≤ dmax) (hi : i ≤ amax) :
    (diffTab (1/(2*(a+b))) ((a * A + b * B) / (a + b) - A) ((a * A + b * B) / (a + b) - B)
        (√(π / (a + b)) * exp (-(a * b / (a + b) * ((A - B) * (A - B))))) a nj amax dmax).get3 k j i
      = ∫ x : ℝ, (x - A)^i * exp (-a * (x - A)^2)
          * iteratedDeriv k (fun x : ℝ => (x - B)^j * exp (-b * (x - B)^2)) x := by
  have hp : a + b ≠ 0 := by positivity
  rw [Dspec_eq_integral a b A B ha hb]
  refine diffTab_eq a b _ _ _ hp ?_ nj amax dmax k j i hk hi
  field_simp
  ring

end Real

end GB

