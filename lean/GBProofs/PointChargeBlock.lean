import GBProofs.Props.C03
import GBProofs.ContractionLaws
import GBProofs.CoulombGeneral
import Mathlib.Algebra.BigOperators.Ring.Finset

/-!
# The point-charge block is the contracted Rys form, and (over ℝ) the Coulomb integral

Step 1 (any field, arbitrary Boys tables): the whole code path of `oneElecBlockOrdered`
(vertical recursion per primitive pair → contraction → horizontal recursion → selection → angular
norms) and of `pointChargeBlock` (shell swap, `-q`) computes the contracted Rys form `rysBlock`.

Step 2 (ℝ, true Boys function): `rysBlock` is `∫ φ_s φ_t / |r - C|` over `EuclideanSpace ℝ (Fin 3)`.
-/
open Finset

namespace GB

/-! ## Step 1: algebra -/
section Field
variable {K : Type} [Field K]

/-- `Vspec` reads its geometric arguments on the three axes only -/
theorem Vspec_congr_geom (F : ℕ → K) (p : K) {PA PB PC PA' PB' PC' : ℕ → K}
    (hA : ∀ u, u < 3 → PA u = PA' u) (hB : ∀ u, u < 3 → PB u = PB' u)
    (hC : ∀ u, u < 3 → PC u = PC' u) (m : ℕ) (a b : ℕ × ℕ × ℕ) :
    Vspec F p PA PB PC m a b = Vspec F p PA' PB' PC' m a b := by
  simp only [Vspec, rysAx, hA 0 (by norm_num), hA 1 (by norm_num), hA 2 (by norm_num),
    hB 0 (by norm_num), hB 1 (by norm_num), hB 2 (by norm_num),
    hC 0 (by norm_num), hC 1 (by norm_num), hC 2 (by norm_num)]

/-- `horiz3_get` for a start table of the shape used in `oneElecBlockOrdered` -/
theorem horiz3_get_guard {AB : ℕ → K} {g : ℕ × ℕ × ℕ → ℕ × ℕ × ℕ → K} (hg : HorizRel AB g)
    (n lb la : ℕ) (f : ℕ → ℕ → ℕ → K)
    (hf : ∀ ax ay az, ax + ay + az < n → f ax ay az = g (ax, ay, az) (0,0,0))
    (bz by' bx ax ay az : ℕ) (hm : ax + ay + az + bx + by' + bz < n) :
    ((horiz3 AB n lb la (tab3 n n n fun ax ay az =>
        if ax + ay + az < n then f ax ay az else Num.nat 0)).get3 bz by' bx).get3 ax ay az
      = g (ax, ay, az) (bx, by', bz) := by
  refine horiz3_get hg ?_ lb la bz by' bx ax ay az hm
  intro ax ay az h
  rw [tab3_get, if_pos h, hf ax ay az h]

variable (e sq : K → K) (pi : K)

/-- **Rys form of one primitive pair** `(ka, kb)` of the shells `s`, `t` for the point `Cpt`:
`(2π/p) e^{-(αβ/p)|A-B|²} · Vspec (Fb (p·|P-C|²)) p (P-A) (P-B) (P-C) 0 a b`
with `p = α + β`, `P = (αA + βB)/p`; `Fb T m` stands for the Boys function `F_m(T)`. -/
noncomputable def rysPrim (Fb : K → ℕ → K) (s t : Shell K) (Cpt : ℕ → K) (ka kb : ℕ)
    (a b : Comp) : K :=
  letI := fieldTransc e sq pi
  2 * pi / (s.exp! ka + t.exp! kb)
    * e (-(s.exp! ka * t.exp! kb / (s.exp! ka + t.exp! kb)
        * ∑ i ∈ range 3, (s.ctr i - t.ctr i) * (s.ctr i - t.ctr i)))
    * Vspec
        (Fb ((s.exp! ka + t.exp! kb) * ∑ i ∈ range 3,
          ((s.exp! ka * s.ctr i + t.exp! kb * t.ctr i) / (s.exp! ka + t.exp! kb) - Cpt i)
            * ((s.exp! ka * s.ctr i + t.exp! kb * t.ctr i) / (s.exp! ka + t.exp! kb) - Cpt i)))
        (s.exp! ka + t.exp! kb)
        (fun i => (s.exp! ka * s.ctr i + t.exp! kb * t.ctr i) / (s.exp! ka + t.exp! kb) - s.ctr i)
        (fun i => (s.exp! ka * s.ctr i + t.exp! kb * t.ctr i) / (s.exp! ka + t.exp! kb) - t.ctr i)
        (fun i => (s.exp! ka * s.ctr i + t.exp! kb * t.ctr i) / (s.exp! ka + t.exp! kb) - Cpt i)
        0 a b

/-- **Contracted Rys form** of the entry `[ma][ca][mb][cb]`:
`(Σ_{ka,kb} c_s[ka,ma] N^rad_s[ka] · c_t[kb,mb] N^rad_t[kb] · rysPrim ka kb a b) · N^ang(a) · N^ang(b)`
with `a = s.comp! ca`, `b = t.comp! cb`. -/
noncomputable def rysBlock (Fb : K → ℕ → K) (s t : Shell K) (Cpt : ℕ → K) (ma ca mb cb : ℕ) : K :=
  letI := fieldTransc e sq pi
  (∑ ka ∈ range s.nprim, ∑ kb ∈ range t.nprim,
      s.coef! ka ma * normRad (s.exp! ka) s.l * (t.coef! kb mb * normRad (t.exp! kb) t.l)
        * rysPrim e sq pi Fb s t Cpt ka kb (s.comp! ca) (t.comp! cb))
    * normAng (s.comp! ca) * normAng (t.comp! cb)

/-- the Rys form of a primitive pair satisfies the horizontal relations with `AB = A - B`, the
same function for every pair -/
theorem horizRel_rysPrim (Fb : K → ℕ → K) (s t : Shell K) (Cpt : ℕ → K) (ka kb : ℕ) :
    HorizRel (fun i => s.ctr i - t.ctr i) (fun a b => rysPrim e sq pi Fb s t Cpt ka kb a b) := by
  let _ := fieldTransc e sq pi
  have h := horizRel_Vspec
    (Fb ((s.exp! ka + t.exp! kb) * ∑ i ∈ range 3,
          ((s.exp! ka * s.ctr i + t.exp! kb * t.ctr i) / (s.exp! ka + t.exp! kb) - Cpt i)
            * ((s.exp! ka * s.ctr i + t.exp! kb * t.ctr i) / (s.exp! ka + t.exp! kb) - Cpt i)))
    (s.exp! ka + t.exp! kb)
    (2 * pi / (s.exp! ka + t.exp! kb)
      * e (-(s.exp! ka * t.exp! kb / (s.exp! ka + t.exp! kb)
        * ∑ i ∈ range 3, (s.ctr i - t.ctr i) * (s.ctr i - t.ctr i))))
    (fun i => (s.exp! ka * s.ctr i + t.exp! kb * t.ctr i) / (s.exp! ka + t.exp! kb) - s.ctr i)
    (fun i => (s.exp! ka * s.ctr i + t.exp! kb * t.ctr i) / (s.exp! ka + t.exp! kb) - t.ctr i)
    (fun i => (s.exp! ka * s.ctr i + t.exp! kb * t.ctr i) / (s.exp! ka + t.exp! kb) - Cpt i) 0
  have hAB : (fun u => ((s.exp! ka * s.ctr u + t.exp! kb * t.ctr u) / (s.exp! ka + t.exp! kb)
        - t.ctr u) - ((s.exp! ka * s.ctr u + t.exp! kb * t.ctr u) / (s.exp! ka + t.exp! kb)
        - s.ctr u)) = fun i => s.ctr i - t.ctr i := by
    funext u; ring
  rw [hAB] at h
  exact h

/-- **Step 1, ordered block.**  For an arbitrary table-valued `boys` whose first `l_s + l_t + 1`
entries are `Fb T m`, every entry of `oneElecBlockOrdered` whose components have total degrees
`≤ l_s`, `≤ l_t` is the contracted Rys form.  (Neither `l_t ≤ l_s` nor `p ≠ 0` is needed: the
materialisation bounds of the horizontal table play no role, and `AB = (P-B) - (P-A)` holds
identically.) -/
theorem oneElecBlockOrdered_eq_rys (boys : K → ℕ → Tab K) (Fb : K → ℕ → K) (s t : Shell K)
    (Cpt : ℕ → K) (ma ca mb cb : ℕ) :
    letI := fieldTransc e sq pi
    (∀ T m, m < s.l + t.l + 1 → (boys T (s.l + t.l + 1)).get m = Fb T m) →
    (s.comp! ca).1 + (s.comp! ca).2.1 + (s.comp! ca).2.2 ≤ s.l →
    (t.comp! cb).1 + (t.comp! cb).2.1 + (t.comp! cb).2.2 ≤ t.l →
    (oneElecBlockOrdered boys s t Cpt).get4 ma ca mb cb
      = rysBlock e sq pi Fb s t Cpt ma ca mb cb := by
  let _ := fieldTransc e sq pi
  intro hF ha hb
  -- the contracted family
  obtain ⟨g, hgdef⟩ : ∃ g : ℕ × ℕ × ℕ → ℕ × ℕ × ℕ → K, g = fun a b =>
      ∑ x ∈ range s.nprim ×ˢ range t.nprim,
        (s.coef! x.1 ma * normRad (s.exp! x.1) s.l * (t.coef! x.2 mb * normRad (t.exp! x.2) t.l))
          * rysPrim e sq pi Fb s t Cpt x.1 x.2 a b := ⟨_, rfl⟩
  have hg : HorizRel (fun i => s.ctr i - t.ctr i) g := by
    rw [hgdef]
    exact HorizRel.sum (fun i => s.ctr i - t.ctr i) (range s.nprim ×ˢ range t.nprim)
      (fun x : ℕ × ℕ => s.coef! x.1 ma * normRad (s.exp! x.1) s.l
        * (t.coef! x.2 mb * normRad (t.exp! x.2) t.l))
      (fun x a b => rysPrim e sq pi Fb s t Cpt x.1 x.2 a b)
      (fun x _ => horizRel_rysPrim e sq pi Fb s t Cpt x.1 x.2)
  simp only [oneElecBlockOrdered, blockTab, tab4_get, tab2_get]
  rw [horiz3_get_guard hg]
  · -- selection, norms
    rw [hgdef, rysBlock]
    simp only [Finset.sum_product]
  · -- the contracted vertical table
    intro ax ay az hlt
    simp only [tab_get, tab2_get, sumN_eq_sum]
    rw [hgdef]
    simp only [Finset.sum_product]
    refine Finset.sum_congr rfl fun ka _ => Finset.sum_congr rfl fun kb _ => ?_
    rw [vertXYZ_eq_Vspec' (F := Fb ((s.exp! ka + t.exp! kb) * ∑ i ∈ range 3,
          ((s.exp! ka * s.ctr i + t.exp! kb * t.ctr i) / (s.exp! ka + t.exp! kb) - Cpt i)
            * ((s.exp! ka * s.ctr i + t.exp! kb * t.ctr i) / (s.exp! ka + t.exp! kb) - Cpt i)))
        (PB := fun i => (s.exp! ka * s.ctr i + t.exp! kb * t.ctr i) / (s.exp! ka + t.exp! kb)
          - t.ctr i)
        (hbase := fun m hm => by rw [hF _ m hm]) (hm := by omega)]
    unfold rysPrim
    simp only [num_nat, Nat.cast_ofNat, Transc.pi, Transc.exp]
    ring
  · omega

/-- exchange of the two primitives (`C03.spec_swap` + commutativity of every pair quantity) -/
theorem rysPrim_swap (Fb : K → ℕ → K) (s t : Shell K) (Cpt : ℕ → K) (ka kb : ℕ) (a b : Comp) :
    rysPrim e sq pi Fb t s Cpt kb ka b a = rysPrim e sq pi Fb s t Cpt ka kb a b := by
  let _ := fieldTransc e sq pi
  unfold rysPrim
  rw [C03.spec_swap]
  have hP : ∀ i, (t.exp! kb * t.ctr i + s.exp! ka * s.ctr i) / (t.exp! kb + s.exp! ka)
      = (s.exp! ka * s.ctr i + t.exp! kb * t.ctr i) / (s.exp! ka + t.exp! kb) := by
    intro i; rw [add_comm (t.exp! kb * t.ctr i), add_comm (t.exp! kb)]
  have h2 : ∑ i ∈ range 3, (t.ctr i - s.ctr i) * (t.ctr i - s.ctr i)
      = ∑ i ∈ range 3, (s.ctr i - t.ctr i) * (s.ctr i - t.ctr i) :=
    Finset.sum_congr rfl fun i _ => by ring
  simp only [hP, h2]
  rw [add_comm (t.exp! kb) (s.exp! ka), mul_comm (t.exp! kb) (s.exp! ka)]

/-- the contracted Rys form is symmetric under the exchange of the two shells -/
theorem rysBlock_swap (Fb : K → ℕ → K) (s t : Shell K) (Cpt : ℕ → K) (ma ca mb cb : ℕ) :
    rysBlock e sq pi Fb t s Cpt mb cb ma ca = rysBlock e sq pi Fb s t Cpt ma ca mb cb := by
  let _ := fieldTransc e sq pi
  unfold rysBlock
  rw [Finset.sum_comm]
  simp only [rysPrim_swap]
  rw [mul_assoc, mul_assoc, mul_comm (normAng (t.comp! cb))]
  congr 1
  refine Finset.sum_congr rfl fun ka _ => Finset.sum_congr rfl fun kb _ => ?_
  ring

/-- **Step 1, `pointChargeBlock`.**  Both branches (shells exchanged when `l_s < l_t`, or not) give
`-q` times the contracted Rys form with the roles of `s` and `t` as given. -/
theorem pointChargeBlock_eq_rys (boys : K → ℕ → Tab K) (Fb : K → ℕ → K) (s t : Shell K)
    (Cpt : ℕ → K) (q : K) (ma ca mb cb : ℕ) :
    letI := fieldTransc e sq pi
    (∀ T m, m < s.l + t.l + 1 → (boys T (s.l + t.l + 1)).get m = Fb T m) →
    (s.comp! ca).1 + (s.comp! ca).2.1 + (s.comp! ca).2.2 ≤ s.l →
    (t.comp! cb).1 + (t.comp! cb).2.1 + (t.comp! cb).2.2 ≤ t.l →
    (pointChargeBlock boys s t Cpt q).get4 ma ca mb cb
      = -q * rysBlock e sq pi Fb s t Cpt ma ca mb cb := by
  intro hF ha hb
  unfold pointChargeBlock
  split
  · simp only [blockTab, tab4_get]
    rw [oneElecBlockOrdered_eq_rys e sq pi boys Fb t s Cpt mb cb ma ca
      (by rw [add_comm t.l s.l]; exact hF) hb ha, rysBlock_swap]
  · simp only [blockTab, tab4_get]
    rw [oneElecBlockOrdered_eq_rys e sq pi boys Fb s t Cpt ma ca mb cb hF ha hb]

/-- the statement with the table entries themselves as the sequence `F` -/
theorem pointChargeBlock_eq_rys_self (boys : K → ℕ → Tab K) (s t : Shell K)
    (Cpt : ℕ → K) (q : K) (ma ca mb cb : ℕ) :
    letI := fieldTransc e sq pi
    (s.comp! ca).1 + (s.comp! ca).2.1 + (s.comp! ca).2.2 ≤ s.l →
    (t.comp! cb).1 + (t.comp! cb).2.1 + (t.comp! cb).2.2 ≤ t.l →
    (pointChargeBlock boys s t Cpt q).get4 ma ca mb cb
      = -q * rysBlock e sq pi (fun T m => (boys T (s.l + t.l + 1)).get m) s t Cpt ma ca mb cb :=
  pointChargeBlock_eq_rys e sq pi boys _ s t Cpt q ma ca mb cb (fun _ _ _ => rfl)

end Field
/-! ## Step 2: over ℝ with the true Boys function -/
section Real
open MeasureTheory Real Set

/-- the point of `E3` with coordinates `v 0, v 1, v 2` -/
noncomputable def toE3 (v : ℕ → ℝ) : E3 := WithLp.toLp 2 (fun u : Fin 3 => v u)

@[simp] lemma toE3_apply (v : ℕ → ℝ) (u : Fin 3) : toE3 v u = v u := rfl

lemma norm_sq_toE3_sub (v w : ℕ → ℝ) :
    ‖toE3 v - toE3 w‖^2 = ∑ i ∈ range 3, (v i - w i) * (v i - w i) := by
  rw [EuclideanSpace.real_norm_sq_eq]
  simp only [PiLp.sub_apply, toE3_apply, Fin.sum_univ_three, Finset.sum_range_succ,
    Finset.sum_range_zero, zero_add, pow_two]
  rfl

lemma comp3_toE3_sub (v w : ℕ → ℝ) (u : ℕ) (hu : u < 3) :
    comp3 (toE3 v - toE3 w) u = v u - w u := by
  simp only [comp3, hu, dif_pos, PiLp.sub_apply, toE3_apply]

/-- Cartesian primitive on `E3`: `(x-A_x)^{c_x} (y-A_y)^{c_y} (z-A_z)^{c_z} e^{-α|r-A|²}` -/
noncomputable def primFnE (α : ℝ) (A : E3) (c : Comp) (r : E3) : ℝ :=
  (r 0 - A 0)^c.1 * (r 1 - A 1)^c.2.1 * (r 2 - A 2)^c.2.2 * exp (-α * ‖r - A‖^2)

/-- contraction `m`, Cartesian component number `c` of the shell, with the primitive norms
(`norm_prim_cart`), as a function on `E3` -/
noncomputable def shellFnE (s : Shell ℝ) (m c : ℕ) (r : E3) : ℝ :=
  ∑ k ∈ range s.nprim, s.coef! k m * normPrim (s.exp! k) s.l (s.comp! c)
    * primFnE (s.exp! k) (toE3 s.ctr) (s.comp! c) r

/-- Gaussian transform of `1/|r-C|` applied to the product of two primitives, pointwise -/
lemma coulomb_pointwise (a b : ℝ) (A B Cc : E3) (ca cb : Fin 3 → ℕ) (r : E3) :
    (∏ u, (r u - A u)^(ca u) * (r u - B u)^(cb u))
        * exp (-a * ‖r - A‖^2) * exp (-b * ‖r - B‖^2) / ‖r - Cc‖
      = 2 / √π * ∫ w in Ioi (0:ℝ),
          ∏ u, axisFn a b (A u) (B u) (Cc u) (ca u) (cb u) w (r u) := by
  simp_rw [← E3_integrand_eq]
  rw [MeasureTheory.integral_const_mul, div_eq_mul_one_div,
    inv_eq_integral_gauss _ (norm_nonneg _)]
  have : ∀ w : ℝ, -‖r - Cc‖^2 * w^2 = -w^2 * ‖r - Cc‖^2 := by intro w; ring
  simp_rw [this]
  ring

/-- the Coulomb integrand of two primitives with positive exponents is integrable on `E3` -/
theorem coulomb_fin_integrable (a b : ℝ) (ha : 0 < a) (hb : 0 < b) (A B Cc : E3)
    (ca cb : Fin 3 → ℕ) :
    Integrable fun r : E3 => (∏ u, (r u - A u)^(ca u) * (r u - B u)^(cb u))
        * exp (-a * ‖r - A‖^2) * exp (-b * ‖r - B‖^2) / ‖r - Cc‖ := by
  simp_rw [coulomb_pointwise]
  exact (coulomb_joint_integrable a b ha hb A B Cc ca cb).integral_prod_left.const_mul _

lemma primFnE_mul_eq (a b : ℝ) (A B Cc : E3) (ca cb : Comp) (r : E3) :
    primFnE a A ca r * primFnE b B cb r / ‖r - Cc‖
      = ((r 0 - A 0)^ca.1 * (r 0 - B 0)^cb.1
          * ((r 1 - A 1)^ca.2.1 * (r 1 - B 1)^cb.2.1)
          * ((r 2 - A 2)^ca.2.2 * (r 2 - B 2)^cb.2.2))
        * exp (-a * ‖r - A‖^2) * exp (-b * ‖r - B‖^2) / ‖r - Cc‖ := by
  unfold primFnE; ring

/-- `g_a g_b / |r - C|` is integrable for primitives with positive exponents -/
theorem coulomb_prim_integrable (a b : ℝ) (ha : 0 < a) (hb : 0 < b) (A B Cc : E3)
    (ca cb : Comp) :
    Integrable fun r : E3 => primFnE a A ca r * primFnE b B cb r / ‖r - Cc‖ := by
  have h := coulomb_fin_integrable a b ha hb A B Cc
    ![ca.1, ca.2.1, ca.2.2] ![cb.1, cb.2.1, cb.2.2]
  simp only [Fin.prod_univ_three, Matrix.cons_val_zero, Matrix.cons_val_one,
    Matrix.cons_val_two, Matrix.head_cons, Matrix.tail_cons] at h
  simp_rw [primFnE_mul_eq]
  exact h

/-- **Primitive level**: the Rys form of a primitive pair with the true Boys function is the
nuclear-attraction integral of the two primitives. -/
theorem rysPrim_eq_integral (s t : Shell ℝ) (Cpt : ℕ → ℝ) (ka kb : ℕ)
    (ha : 0 < s.exp! ka) (hb : 0 < t.exp! kb) (a b : Comp) :
    rysPrim Real.exp Real.sqrt π boys s t Cpt ka kb a b
      = ∫ r : E3, primFnE (s.exp! ka) (toE3 s.ctr) a r * primFnE (t.exp! kb) (toE3 t.ctr) b r
          / ‖r - toE3 Cpt‖ := by
  have hp : s.exp! ka + t.exp! kb ≠ 0 := (add_pos ha hb).ne'
  have hP : toE3 (fun i => (s.exp! ka * s.ctr i + t.exp! kb * t.ctr i) / (s.exp! ka + t.exp! kb))
      = (s.exp! ka + t.exp! kb)⁻¹ • (s.exp! ka • toE3 s.ctr + t.exp! kb • toE3 t.ctr) := by
    ext u
    simp only [toE3_apply, PiLp.smul_apply, PiLp.add_apply, smul_eq_mul]
    rw [div_eq_inv_mul]
  simp_rw [primFnE_mul_eq]
  rw [coulomb_general _ _ ha hb _ _ _ _ hP, norm_sq_toE3_sub, norm_sq_toE3_sub]
  unfold rysPrim
  rw [Vspec_congr_geom _ _ (comp3_toE3_sub _ _) (comp3_toE3_sub _ _) (comp3_toE3_sub _ _)]
  ring_nf

/-- **Step 2.**  With a Boys table whose entries are the true Boys function
`boys T m = ∫₀¹ t^{2m} e^{-T t²} dt`, for shells with positive exponents every entry of
`pointChargeBlock` (components of total degrees `≤ l`) is `-q` times the nuclear-attraction
integral of the two contracted, primitive-normalised shell functions. -/
theorem pointChargeBlock_eq_integral (boysT : ℝ → ℕ → Tab ℝ)
    (hboys : ∀ T n m, m < n → (boysT T n).get m = boys T m)
    (s t : Shell ℝ) (Cpt : ℕ → ℝ) (q : ℝ) (ma ca mb cb : ℕ)
    (hs : ∀ k, k < s.nprim → 0 < s.exp! k) (ht : ∀ k, k < t.nprim → 0 < t.exp! k)
    (ha : (s.comp! ca).1 + (s.comp! ca).2.1 + (s.comp! ca).2.2 ≤ s.l)
    (hb : (t.comp! cb).1 + (t.comp! cb).2.1 + (t.comp! cb).2.2 ≤ t.l) :
    (pointChargeBlock boysT s t Cpt q).get4 ma ca mb cb
      = -q * ∫ r : E3, shellFnE s ma ca r * shellFnE t mb cb r / ‖r - toE3 Cpt‖ := by
  have h1 := pointChargeBlock_eq_rys Real.exp Real.sqrt π boysT boys s t Cpt q ma ca mb cb
    (fun T m hm => hboys T _ m hm) ha hb
  rw [h1]
  congr 1
  have hpt : ∀ r : E3, shellFnE s ma ca r * shellFnE t mb cb r / ‖r - toE3 Cpt‖
      = ∑ ka ∈ range s.nprim, ∑ kb ∈ range t.nprim,
          (s.coef! ka ma * normPrim (s.exp! ka) s.l (s.comp! ca)
            * (t.coef! kb mb * normPrim (t.exp! kb) t.l (t.comp! cb)))
          * (primFnE (s.exp! ka) (toE3 s.ctr) (s.comp! ca) r
              * primFnE (t.exp! kb) (toE3 t.ctr) (t.comp! cb) r / ‖r - toE3 Cpt‖) := by
    intro r
    unfold shellFnE
    rw [Finset.sum_mul_sum, Finset.sum_div]
    refine Finset.sum_congr rfl fun ka _ => ?_
    rw [Finset.sum_div]
    refine Finset.sum_congr rfl fun kb _ => ?_
    ring
  simp_rw [hpt]
  rw [integral_finsetSum _ fun ka hka => integrable_finsetSum _ fun kb hkb =>
    (coulomb_prim_integrable _ _ (hs ka (Finset.mem_range.mp hka)) (ht kb (Finset.mem_range.mp hkb))
      _ _ _ _ _).const_mul _]
  unfold rysBlock
  rw [Finset.sum_mul, Finset.sum_mul]
  refine Finset.sum_congr rfl fun ka hka => ?_
  rw [integral_finsetSum _ fun kb hkb =>
    (coulomb_prim_integrable _ _ (hs ka (Finset.mem_range.mp hka)) (ht kb (Finset.mem_range.mp hkb))
      _ _ _ _ _).const_mul _]
  rw [Finset.sum_mul, Finset.sum_mul]
  refine Finset.sum_congr rfl fun kb hkb => ?_
  rw [MeasureTheory.integral_const_mul,
    rysPrim_eq_integral s t Cpt ka kb (hs ka (Finset.mem_range.mp hka))
      (ht kb (Finset.mem_range.mp hkb))]
  unfold normPrim
  ring

/-- the Boys table of the real-number instantiation: `F_0(T) … F_{n-1}(T)` -/
noncomputable def boysReal (T : ℝ) (n : ℕ) : Tab ℝ := tab n (fun m => boys T m)

/-- Step 2 for the concrete table `boysReal` -/
theorem pointChargeBlock_boysReal_eq_integral
    (s t : Shell ℝ) (Cpt : ℕ → ℝ) (q : ℝ) (ma ca mb cb : ℕ)
    (hs : ∀ k, k < s.nprim → 0 < s.exp! k) (ht : ∀ k, k < t.nprim → 0 < t.exp! k)
    (ha : (s.comp! ca).1 + (s.comp! ca).2.1 + (s.comp! ca).2.2 ≤ s.l)
    (hb : (t.comp! cb).1 + (t.comp! cb).2.1 + (t.comp! cb).2.2 ≤ t.l) :
    (pointChargeBlock boysReal s t Cpt q).get4 ma ca mb cb
      = -q * ∫ r : E3, shellFnE s ma ca r * shellFnE t mb cb r / ‖r - toE3 Cpt‖ :=
  pointChargeBlock_eq_integral boysReal (fun _ n m _ => tab_get n _ m) s t Cpt q ma ca mb cb
    hs ht ha hb

end Real

end GB

