import GBProofs.DiffTab
import GBProofs.RealInst
import Mathlib.Algebra.Polynomial.Eval.Algebra

/-!
# Rigid translations and axis reflections

* `pair1D_translate*` : translating both centres by `d` leaves `h`, `PA`, `PB`, `base` of the
  Gaussian-product parameters unchanged and moves `P` by `d` (general field; any interpretation of
  `exp`, `sqrt`, `π`);
* `momAx_translate`, `diffAx_translate` : the one-dimensional tables of a translated shell pair
  (moment origin translated along) are the *same tables* — hence so is everything assembled from them;
* `momentBlock_translate`, `overlapBlock_translate`, `diffBlock_translate`, `kineticBlock_translate` :
  every entry of the assembled blocks of the translated pair (`Shell.translate`) equals the entry of
  the original pair (`_real`: over ℝ, positive exponents);
* `gmom_odd`, `G_comp_neg` : odd Gaussian moments vanish, the Gaussian functional is even;
* `S3_neg`, `Dspec_neg` : reflecting one axis (`PA, PB, PC ↦ -PA, -PB, -PC`) multiplies the
  one-dimensional factor by `(-1)^(i+j+k)`, for the moment-type and the derivative-type factors.
-/
open Polynomial

namespace GB

/-- field operations plus arbitrary interpretations of the transcendental operations
(`realTransc` is `trOps Real.exp Real.sqrt Real.pi` by `rfl`) -/
@[reducible] def trOps {K : Type} [Field K] (e sq : K → K) (pi : K) : Transc K :=
  { toNum := fieldNum, exp := e, sqrt := sq, pi := pi }

theorem realTransc_eq_trOps : realTransc = trOps Real.exp Real.sqrt Real.pi := rfl

section Translate
variable {K : Type} [Field K] (e sq : K → K) (pi : K)

theorem pair1D_translate_h (a b A B d : K) :
    letI := trOps e sq pi
    (pair1D a b (A + d) (B + d)).h = (pair1D a b A B).h := rfl

theorem pair1D_translate_P (a b A B d : K) (hp : a + b ≠ 0) :
    letI := trOps e sq pi
    (pair1D a b (A + d) (B + d)).P = (pair1D a b A B).P + d := by
  simp only [pair1D]
  field_simp
  ring

theorem pair1D_translate_PA (a b A B d : K) (hp : a + b ≠ 0) :
    letI := trOps e sq pi
    (pair1D a b (A + d) (B + d)).PA = (pair1D a b A B).PA := by
  simp only [pair1D]
  field_simp
  ring

theorem pair1D_translate_PB (a b A B d : K) (hp : a + b ≠ 0) :
    letI := trOps e sq pi
    (pair1D a b (A + d) (B + d)).PB = (pair1D a b A B).PB := by
  simp only [pair1D]
  field_simp
  ring

theorem pair1D_translate_base (a b A B d : K) :
    letI := trOps e sq pi
    (pair1D a b (A + d) (B + d)).base = (pair1D a b A B).base := by
  simp only [pair1D]
  have : (A + d - (B + d)) * (A + d - (B + d)) = (A - B) * (A - B) := by ring
  rw [this]

/-- the moment centre relative to a translated origin -/
theorem pair1D_translate_PC (a b A B d O : K) (hp : a + b ≠ 0) :
    letI := trOps e sq pi
    (pair1D a b (A + d) (B + d)).P - (O + d) = (pair1D a b A B).P - O := by
  have h := pair1D_translate_P e sq pi a b A B d hp
  rw [h]; ring

/-- all five parameters at once -/
theorem pair1D_translate (a b A B d : K) (hp : a + b ≠ 0) :
    letI := trOps e sq pi
    pair1D a b (A + d) (B + d)
      = { pair1D a b A B with P := (pair1D a b A B).P + d } := by
  have h1 := pair1D_translate_h e sq pi a b A B d
  have h2 := pair1D_translate_PA e sq pi a b A B d hp
  have h3 := pair1D_translate_PB e sq pi a b A B d hp
  have h4 := pair1D_translate_P e sq pi a b A B d hp
  have h5 := pair1D_translate_base e sq pi a b A B d
  generalize @pair1D K (trOps e sq pi) a b (A + d) (B + d) = q at *
  cases q
  simp only at h1 h2 h3 h4 h5
  simp only [h1, h2, h3, h4, h5]

/-- **Moment-type tables are translation invariant**: shells `s'`, `t'` are `s`, `t` moved by the
vector `d` (same exponents, same angular momentum), the moment origin is moved along. -/
theorem momAx_translate (s s' t t' : Shell K) (origin origin' d : ℕ → K) (nk ka kb axis : ℕ) :
    letI := trOps e sq pi
    s'.l = s.l → t'.l = t.l → s'.exps = s.exps → t'.exps = t.exps →
    (∀ i, s'.ctr i = s.ctr i + d i) → (∀ i, t'.ctr i = t.ctr i + d i) →
    (∀ i, origin' i = origin i + d i) →
    s.exp! ka + t.exp! kb ≠ 0 →
    momAx s' t' origin' nk ka kb axis = momAx s t origin nk ka kb axis := by
  intro hl hl' he he' hc hc' ho hp
  have e1 : @Shell.exp! K (trOps e sq pi) s' ka = @Shell.exp! K (trOps e sq pi) s ka := by
    simp only [Shell.exp!, he]
  have e2 : @Shell.exp! K (trOps e sq pi) t' kb = @Shell.exp! K (trOps e sq pi) t kb := by
    simp only [Shell.exp!, he']
  simp only [momAx, hl, hl', e1, e2, hc, hc', ho]
  rw [pair1D_translate_h e sq pi, pair1D_translate_PA e sq pi _ _ _ _ _ hp,
    pair1D_translate_PB e sq pi _ _ _ _ _ hp, pair1D_translate_PC e sq pi _ _ _ _ _ _ hp,
    pair1D_translate_base e sq pi]

/-- **Derivative-type tables are translation invariant.** -/
theorem diffAx_translate (s s' t t' : Shell K) (d : ℕ → K) (dmax ka kb axis : ℕ) :
    letI := trOps e sq pi
    s'.l = s.l → t'.l = t.l → s'.exps = s.exps → t'.exps = t.exps →
    (∀ i, s'.ctr i = s.ctr i + d i) → (∀ i, t'.ctr i = t.ctr i + d i) →
    s.exp! ka + t.exp! kb ≠ 0 →
    diffAx s' t' dmax ka kb axis = diffAx s t dmax ka kb axis := by
  intro hl hl' he he' hc hc' hp
  have e1 : @Shell.exp! K (trOps e sq pi) s' ka = @Shell.exp! K (trOps e sq pi) s ka := by
    simp only [Shell.exp!, he]
  have e2 : @Shell.exp! K (trOps e sq pi) t' kb = @Shell.exp! K (trOps e sq pi) t kb := by
    simp only [Shell.exp!, he']
  simp only [diffAx, hl, hl', e1, e2, hc, hc']
  rw [pair1D_translate_h e sq pi, pair1D_translate_PA e sq pi _ _ _ _ _ hp,
    pair1D_translate_PB e sq pi _ _ _ _ _ hp, pair1D_translate_base e sq pi]

/-! ### Whole blocks -/

/-- the shell moved by the vector `d` -/
def Shell.translate (s : Shell K) (d : ℕ → K) : Shell K := { s with ctr := fun i => s.ctr i + d i }

theorem momAx_translate' (s t : Shell K) (origin d : ℕ → K) (nk ka kb axis : ℕ) :
    letI := trOps e sq pi
    s.exp! ka + t.exp! kb ≠ 0 →
    momAx (s.translate d) (t.translate d) (fun i => origin i + d i) nk ka kb axis
      = momAx s t origin nk ka kb axis :=
  momAx_translate e sq pi s (s.translate d) t (t.translate d) origin _ d nk ka kb axis rfl rfl rfl rfl
    (fun _ => rfl) (fun _ => rfl) (fun _ => rfl)

theorem diffAx_translate' (s t : Shell K) (d : ℕ → K) (dmax ka kb axis : ℕ) :
    letI := trOps e sq pi
    s.exp! ka + t.exp! kb ≠ 0 →
    diffAx (s.translate d) (t.translate d) dmax ka kb axis = diffAx s t dmax ka kb axis :=
  diffAx_translate e sq pi s (s.translate d) t (t.translate d) d dmax ka kb axis rfl rfl rfl rfl
    (fun _ => rfl) (fun _ => rfl)

/-- order-0 entries of a moment table do not see the moment origin -/
theorem momAx_order0_origin (s t : Shell K) (origin origin' : ℕ → K) (nk ka kb axis j i : ℕ) :
    letI := trOps e sq pi
    (momAx s t origin nk ka kb axis).get3 0 j i = (momAx s t origin' nk ka kb axis).get3 0 j i := by
  simp only [momAx, momTab, Tab.get3, tab_get, momPlanes]

/-- `contract` only looks at the primitive integrals of the primitives that exist -/
theorem contract_congr_prim (s t : Shell K) (na nb : Tab (Tab K))
    (prim prim' : ℕ → ℕ → Comp → Comp → K) (ma ca mb cb : ℕ) :
    letI := trOps e sq pi
    (∀ ka < s.nprim, ∀ kb < t.nprim, ∀ a b, prim ka kb a b = prim' ka kb a b) →
    contract s t na nb prim ma ca mb cb = contract s t na nb prim' ma ca mb cb := by
  intro h
  simp only [contract, sumN_eq_sum]
  refine Finset.sum_congr rfl fun ka hka => Finset.sum_congr rfl fun kb hkb => ?_
  rw [h ka (Finset.mem_range.mp hka) kb (Finset.mem_range.mp hkb)]

/-- **Moment integrals (all orders) are invariant under a rigid translation** of the two shells
and the moment origin: every entry of every block. -/
theorem momentBlock_translate (s t : Shell K) (origin d : ℕ → K) (orders : List Comp)
    (k ma ca mb cb : ℕ) :
    letI := trOps e sq pi
    (∀ ka < s.nprim, ∀ kb < t.nprim, s.exp! ka + t.exp! kb ≠ 0) →
    ((momentBlock (s.translate d) (t.translate d) (fun i => origin i + d i) orders).get k).get4
        ma ca mb cb
      = ((momentBlock s t origin orders).get k).get4 ma ca mb cb := by
  intro hp
  simp only [momentBlock, tab_get, blockTab, tab4_get]
  refine contract_congr_prim e sq pi s t _ _ _ _ ma ca mb cb fun ka hka kb hkb a b => ?_
  simp only [prod3, pairTabs, tab3_get]
  rw [momAx_translate' e sq pi s t origin d _ ka kb 0 (hp ka hka kb hkb),
    momAx_translate' e sq pi s t origin d _ ka kb 1 (hp ka hka kb hkb),
    momAx_translate' e sq pi s t origin d _ ka kb 2 (hp ka hka kb hkb)]

/-- the order-`(0,0,0)` moment block does not see the moment origin -/
theorem momentBlock_order0_origin (s t : Shell K) (origin origin' : ℕ → K) (ma ca mb cb : ℕ) :
    letI := trOps e sq pi
    ((momentBlock s t origin [(0,0,0)]).get 0).get4 ma ca mb cb
      = ((momentBlock s t origin' [(0,0,0)]).get 0).get4 ma ca mb cb := by
  simp only [momentBlock, tab_get, blockTab, tab4_get]
  refine contract_congr_prim e sq pi _ _ _ _ _ _ ma ca mb cb fun ka hka kb hkb a b => ?_
  simp only [prod3, pairTabs, tab3_get, List.getD_cons_zero]
  rw [momAx_order0_origin e sq pi _ _ origin origin' _ ka kb 0,
    momAx_order0_origin e sq pi _ _ origin origin' _ ka kb 1,
    momAx_order0_origin e sq pi _ _ origin origin' _ ka kb 2]

/-- **Overlap integrals are invariant under a rigid translation.** -/
theorem overlapBlock_translate (s t : Shell K) (d : ℕ → K) (ma ca mb cb : ℕ) :
    letI := trOps e sq pi
    (∀ ka < s.nprim, ∀ kb < t.nprim, s.exp! ka + t.exp! kb ≠ 0) →
    (overlapBlock (s.translate d) (t.translate d)).get4 ma ca mb cb
      = (overlapBlock s t).get4 ma ca mb cb := by
  intro hp
  simp only [overlapBlock]
  rw [momentBlock_order0_origin e sq pi (s.translate d) (t.translate d) (fun _ => Num.nat 0)
    (fun i => (fun _ => Num.nat 0) i + d i)]
  exact momentBlock_translate e sq pi s t (fun _ => Num.nat 0) d [(0,0,0)] 0 ma ca mb cb hp

/-- **Derivative integrals `∫ g_a ∂^o g_b` are invariant under a rigid translation.** -/
theorem diffBlock_translate (s t : Shell K) (d : ℕ → K) (orders : List Comp) (k ma ca mb cb : ℕ) :
    letI := trOps e sq pi
    (∀ ka < s.nprim, ∀ kb < t.nprim, s.exp! ka + t.exp! kb ≠ 0) →
    ((diffBlock (s.translate d) (t.translate d) orders).get k).get4 ma ca mb cb
      = ((diffBlock s t orders).get k).get4 ma ca mb cb := by
  intro hp
  simp only [diffBlock, tab_get, blockTab, tab4_get]
  refine contract_congr_prim e sq pi s t _ _ _ _ ma ca mb cb fun ka hka kb hkb a b => ?_
  simp only [prod3, pairTabs, tab3_get]
  rw [diffAx_translate' e sq pi s t d _ ka kb 0 (hp ka hka kb hkb),
    diffAx_translate' e sq pi s t d _ ka kb 1 (hp ka hka kb hkb),
    diffAx_translate' e sq pi s t d _ ka kb 2 (hp ka hka kb hkb)]

/-- **Kinetic-energy integrals are invariant under a rigid translation.** -/
theorem kineticBlock_translate (s t : Shell K) (d : ℕ → K) (ma ca mb cb : ℕ) :
    letI := trOps e sq pi
    (∀ ka < s.nprim, ∀ kb < t.nprim, s.exp! ka + t.exp! kb ≠ 0) →
    (kineticBlock (s.translate d) (t.translate d)).get4 ma ca mb cb
      = (kineticBlock s t).get4 ma ca mb cb := by
  intro hp
  simp only [kineticBlock, blockTab, tab4_get]
  rw [diffBlock_translate e sq pi s t d _ 0 ma ca mb cb hp,
    diffBlock_translate e sq pi s t d _ 1 ma ca mb cb hp,
    diffBlock_translate e sq pi s t d _ 2 ma ca mb cb hp]

end Translate

/-! ### The same over ℝ with the instance of the property files, positive exponents -/

theorem momentBlock_translate_real (s t : Shell ℝ) (origin d : ℕ → ℝ) (orders : List Comp)
    (k ma ca mb cb : ℕ) (hs : ∀ ka < s.nprim, 0 < s.exp! ka) (ht : ∀ kb < t.nprim, 0 < t.exp! kb) :
    ((momentBlock (s.translate d) (t.translate d) (fun i => origin i + d i) orders).get k).get4
        ma ca mb cb
      = ((momentBlock s t origin orders).get k).get4 ma ca mb cb :=
  momentBlock_translate Real.exp Real.sqrt Real.pi s t origin d orders k ma ca mb cb
    fun ka hka kb hkb => (add_pos (hs ka hka) (ht kb hkb)).ne'

theorem overlapBlock_translate_real (s t : Shell ℝ) (d : ℕ → ℝ) (ma ca mb cb : ℕ)
    (hs : ∀ ka < s.nprim, 0 < s.exp! ka) (ht : ∀ kb < t.nprim, 0 < t.exp! kb) :
    (overlapBlock (s.translate d) (t.translate d)).get4 ma ca mb cb
      = (overlapBlock s t).get4 ma ca mb cb :=
  overlapBlock_translate Real.exp Real.sqrt Real.pi s t d ma ca mb cb
    fun ka hka kb hkb => (add_pos (hs ka hka) (ht kb hkb)).ne'

theorem kineticBlock_translate_real (s t : Shell ℝ) (d : ℕ → ℝ) (ma ca mb cb : ℕ)
    (hs : ∀ ka < s.nprim, 0 < s.exp! ka) (ht : ∀ kb < t.nprim, 0 < t.exp! kb) :
    (kineticBlock (s.translate d) (t.translate d)).get4 ma ca mb cb
      = (kineticBlock s t).get4 ma ca mb cb :=
  kineticBlock_translate Real.exp Real.sqrt Real.pi s t d ma ca mb cb
    fun ka hka kb hkb => (add_pos (hs ka hka) (ht kb hkb)).ne'

/-! ## Reflection of an axis -/
section Reflect
variable {K : Type} [Field K] [CharZero K]

omit [CharZero K] in
/-- odd normalised Gaussian moments vanish -/
theorem gmom_odd (p : K) (n : ℕ) : gmom p (2 * n + 1) = 0 := by
  induction n with
  | zero => simp [gmom]
  | succ n ih =>
    have : 2 * (n + 1) + 1 = (2 * n + 1) + 2 := by ring
    rw [this, gmom, ih, mul_zero]

/-- **the Gaussian functional is even**: `∫ q(-t) e^{-p t²} dt = ∫ q(t) e^{-p t²} dt` -/
theorem G_comp_neg (p : K) (q : K[X]) : G p (q.comp (-X)) = G p q := by
  induction q using Polynomial.induction_on' with
  | add a b ha hb => rw [add_comp, map_add, map_add, ha, hb]
  | monomial n a =>
    have h : (monomial n a).comp (-X) = C (a * (-1)^n) * X^n := by
      rw [monomial_comp, neg_pow, map_mul, map_pow, map_neg, map_one]
      ring
    rw [h, G_C_mul, G_X_pow, G_monomial]
    rcases Nat.even_or_odd n with hn | hn
    · rw [hn.neg_one_pow, mul_one]
    · obtain ⟨m, rfl⟩ := hn
      rw [gmom_odd, mul_zero, mul_zero]

omit [CharZero K] in
lemma X_add_C_neg (a : K) : (X + C (-a) : K[X]) = - (X + C a).comp (-X) := by
  simp only [add_comp, X_comp, C_comp, map_neg]; ring

omit [CharZero K] in
lemma X_add_C_neg_pow (a : K) (n : ℕ) :
    (X + C (-a) : K[X])^n = C ((-1)^n) * ((X + C a)^n).comp (-X) := by
  rw [X_add_C_neg a, pow_comp, neg_pow, map_pow, map_neg, map_one]

/-- **Axis reflection, moment-type factor**: with all three relative positions negated,
`S3` picks up the parity `(-1)^(i+j+k)`. -/
theorem S3_neg (p PA PB PC : K) (i j k : ℕ) :
    S3 p (-PA) (-PB) (-PC) i j k = (-1)^(i+j+k) * S3 p PA PB PC i j k := by
  unfold S3
  have h : (X + C (-PA))^i * (X + C (-PB))^j * (X + C (-PC))^k
      = C ((-1)^(i+j+k)) * ((X + C PA)^i * (X + C PB)^j * (X + C PC)^k).comp (-X) := by
    rw [X_add_C_neg_pow PA, X_add_C_neg_pow PB, X_add_C_neg_pow PC]
    simp only [mul_comp, map_pow, map_neg, map_one]
    ring
  rw [h, G_C_mul, G_comp_neg]

omit [CharZero K] in
/-- the twisted derivative anticommutes with the reflection -/
lemma Dtw_comp_neg (b PB : K) (q : K[X]) :
    Dtw b (-PB) (q.comp (-X)) = - (Dtw b PB q).comp (-X) := by
  unfold Dtw
  rw [derivative_comp, X_add_C_neg PB]
  simp only [sub_comp, mul_comp, C_comp, derivative_neg, derivative_X]
  ring

omit [CharZero K] in
lemma Dtw_neg (b PB : K) (q : K[X]) : Dtw b PB (-q) = - Dtw b PB q := by
  unfold Dtw
  rw [derivative_neg]; ring

omit [CharZero K] in
lemma Dtw_iterate_comp_neg (b PB : K) (k : ℕ) (q : K[X]) :
    (Dtw b (-PB))^[k] (q.comp (-X)) = C ((-1)^k) * ((Dtw b PB)^[k] q).comp (-X) := by
  induction k with
  | zero => simp
  | succ k ih =>
    rw [Dtw_iterate_succ, Dtw_iterate_succ, ih]
    have hC : ∀ (c : K) (r : K[X]), Dtw b (-PB) (C c * r) = C c * Dtw b (-PB) r := by
      intro c r
      unfold Dtw
      rw [derivative_C_mul]; ring
    rw [hC, Dtw_comp_neg, pow_succ, map_mul, map_neg, map_one]
    ring

/-- **Axis reflection, derivative-type factor.** -/
theorem Dspec_neg (p b PA PB : K) (k i j : ℕ) :
    Dspec p b (-PA) (-PB) k i j = (-1)^(i+j+k) * Dspec p b PA PB k i j := by
  unfold Dspec
  have hj : (X + C (-PB))^j = C ((-1)^j) * ((X + C PB)^j).comp (-X) := X_add_C_neg_pow PB j
  have hC : ∀ (k : ℕ) (c : K) (r : K[X]),
      (Dtw b (-PB))^[k] (C c * r) = C c * (Dtw b (-PB))^[k] r := by
    intro k
    induction k with
    | zero => intro c r; rfl
    | succ k ih =>
      intro c r
      rw [Dtw_iterate_succ, Dtw_iterate_succ, ih]
      unfold Dtw
      rw [derivative_C_mul]; ring
  have h : (X + C (-PA))^i * (Dtw b (-PB))^[k] ((X + C (-PB))^j)
      = C ((-1)^(i+j+k)) * ((X + C PA)^i * (Dtw b PB)^[k] ((X + C PB)^j)).comp (-X) := by
    rw [hj, hC, Dtw_iterate_comp_neg, X_add_C_neg_pow PA, mul_comp]
    simp only [map_pow, map_neg, map_one]
    ring
  rw [h, G_C_mul, G_comp_neg]

end Reflect


end GB
